import Tengo.Proofs.C19EnumIm
/-!
C19, enum module, layer 9: `chunk` on arrays — int comparison and addition, `len`, slices, `:=` of calls and
literals, `+=`, the `for cond { … }` loop.
-/
set_option linter.unusedVariables false
set_option linter.unusedSimpArgs false
namespace Tengo.Proofs.C19Enum
open Tengo.Model Tengo.Model.Spec

theorem ev_int (F : Nat) (ctx : Ctx) (v : Int) (gs : GSt) (σ : St) :
    evalExpr (F + 1) ctx (.int v) gs σ = .ok ((.int v, gs), σ) := by
  simp only [evalExpr]; rfl

theorem binaryOp_add (a b : Int) : binaryOp "Add" (.int a) (.int b) = pure (.int (wrap64 (a + b))) := rfl
theorem binaryOp_less (a b : Int) : binaryOp "Less" (.int a) (.int b) = pure (.bool (decide (a < b))) := rfl

theorem ev_bin_arith (F : Nat) (ctx : Ctx) (tok : String) (l r : Expr)
    (h1 : (tok == "LAnd") = false) (h2 : (tok == "LOr") = false) (h3 : (tok == "Equal") = false)
    (h4 : (tok == "NotEqual") = false) :
    evalExpr (F + 1) ctx (.bin tok l r) = (do
      let a ← evalExpr F ctx l
      let b ← evalExpr F ctx r
      Spec.liftM (binaryOp tok a b)) := by
  simp only [evalExpr, h1, h2, h3, h4, Bool.false_eq_true, if_false]

theorem bin_int_run {F : Nat} {ctx : Ctx} {tok : String} {l r : Expr} {gs : GSt} {σ : St} {a b : Int} {v : Value}
    (h1 : (tok == "LAnd") = false) (h2 : (tok == "LOr") = false) (h3 : (tok == "Equal") = false)
    (h4 : (tok == "NotEqual") = false)
    (hl : evalExpr F ctx l gs σ = .ok ((.int a, gs), σ)) (hr : evalExpr F ctx r gs σ = .ok ((.int b, gs), σ))
    (hop : binaryOp tok (.int a) (.int b) = pure v) :
    evalExpr (F + 1) ctx (.bin tok l r) gs σ = .ok ((v, gs), σ) := by
  rw [ev_bin_arith F ctx tok l r h1 h2 h3 h4, em_bind_ok hl, em_bind_ok hr, hop]
  rfl

theorem callBuiltin_len_run {σ : St} {r st : Nat} {es : List Value} (h : ArrAt σ r st es) (gs : GSt) :
    callBuiltin "len" [.arr r] gs σ = .ok ((.int es.length, gs), σ) := by
  have hu : callBuiltin "len" [.arr r] = (do pure (.int (← Spec.liftM (arrElems r)).length)) := by
    unfold callBuiltin
    rfl
  rw [hu, em_bind_ok (liftM_ok (arrElems_run h))]
  rfl

theorem setObj_run' (r : Nat) (o : Obj) (σ : St) : setObj r o σ = .ok ((), setSt σ r o) := rfl

/-- Heap after `x[a:b]` on the array header `r` over store `st`. -/
def sliceSt (σ : St) (st : Nat) (vs : Array Value) (h off a b : Nat) : St :=
  pushSt (setSt σ st (.store vs (h + 1))) (.arr st (off + a) (b - a))

theorem sliceV_run {σ : St} {r st off len h : Nat} {vs : Array Value} (lo hi : Int)
    (h1 : σ.heap[r]? = some (.arr st off len)) (h2 : σ.heap[st]? = some (.store vs h))
    (hlo : 0 ≤ lo) (hlo2 : lo ≤ len) (hle : lo ≤ hi) (gs : GSt) :
    sliceV (.arr r) (.int lo) (.int hi) gs σ =
      .ok ((.arr σ.heap.size, gs),
        sliceSt σ st vs h off lo.toNat (if hi > len then len else hi.toNat)) := by
  have hb : sliceBounds (.int lo) (.int hi) len gs σ =
      .ok (((lo.toNat, if hi > len then len else hi.toNat), gs), σ) := by
    unfold sliceBounds
    simp only [pure_bind]
    have : ¬ (lo > hi) := by omega
    simp only [this, if_false]
    have a1 : ¬ (lo < 0) := by omega
    have a2 : ¬ (lo > (len : Int)) := by omega
    have a3 : ¬ (hi < 0) := by omega
    simp only [a1, a2, a3, if_false]
    rfl
  unfold sliceV
  simp only [pure_bind]
  rw [em_bind_ok (liftM_ok (getObj_run h1))]
  simp only []
  rw [em_bind_ok hb, em_bind_ok (liftM_ok (getObj_run h2))]
  simp only []
  rw [em_bind_ok (liftM_ok (setObj_run' st _ σ)), em_bind_ok (liftM_ok (alloc_run _ _))]
  have hs : (setSt σ st (Obj.store vs (h + 1))).heap.size = σ.heap.size := by simp [setSt]
  rw [hs]
  rfl

theorem ev_slice (F : Nat) (ctx : Ctx) (x lo hi : Expr) :
    evalExpr (F + 1) ctx (.slice x (some lo) (some hi)) = (do
      let a ← evalExpr F ctx x
      let l ← evalExpr F ctx lo
      let h ← evalExpr F ctx hi
      sliceV a l h) := by
  simp only [evalExpr]

theorem execStmt_define_call (F : Nat) (ctx : Ctx) (n : String) (g : Expr) (args : List Expr) :
    execStmt (F + 2) ctx (.assign "Define" [.ident n] [.call false g args]) = (do
      let v ← evalExpr (F + 1) ctx (.call false g args)
      let env' ← declare ctx n v
      pure (.normal, env')) := by
  have h1 : ("Define" == "Define") = true := by decide
  simp only [execStmt, assignTo, lhsName, lhsSelectors, h1, Bool.and_false, Bool.false_eq_true, if_false,
    Bool.true_or, if_true, List.isEmpty_nil, bind_assoc, pure_bind]

theorem execStmt_define_int (F : Nat) (ctx : Ctx) (n : String) (v : Int) :
    execStmt (F + 2) ctx (.assign "Define" [.ident n] [.int v]) = (do
      let v ← evalExpr (F + 1) ctx (.int v)
      let env' ← declare ctx n v
      pure (.normal, env')) := by
  have h1 : ("Define" == "Define") = true := by decide
  simp only [execStmt, assignTo, lhsName, lhsSelectors, h1, Bool.and_false, Bool.false_eq_true, if_false,
    Bool.true_or, if_true, List.isEmpty_nil, bind_assoc, pure_bind]

theorem execStmt_addassign (F : Nat) (ctx : Ctx) (n m : String) :
    execStmt (F + 2) ctx (.assign "AddAssign" [.ident n] [.ident m]) = (do
      let cur ← evalExpr (F + 1) ctx (.ident n)
      let rv ← evalExpr (F + 1) ctx (.ident m)
      let v ← Spec.liftM (binaryOp "Add" cur rv)
      writeVar ctx.env n v
      pure (.normal, ctx.env)) := by
  have h1 : ("AddAssign" == "Define") = false := by decide
  have h2 : ("AddAssign" == "Assign") = false := by decide
  have h3 : ("Assign" == "Define") = false := by decide
  have h4 : ("AddAssign".dropEnd 6).toString = "Add" := by decide +kernel
  simp only [execStmt, assignTo, lhsName, lhsSelectors, h1, h2, h3, h4, Bool.and_false, Bool.false_eq_true, if_false,
    Bool.or_self, if_true, List.isEmpty_nil, bind_assoc, pure_bind]

theorem execStmt_fors (F : Nat) (ctx : Ctx) (c : Expr) (body : List Stmt) :
    execStmt (F + 1) ctx (.fors none (some c) none body) = (do
      let fl ← loopFor F (pushCtx ctx) (some c) none body
      pure (fl, ctx.env)) := by
  simp only [execStmt, pushCtx, pure_bind]

theorem loopFor_step (F : Nat) (ctx : Ctx) (c : Expr) (body : List Stmt) :
    loopFor (F + 1) ctx (some c) none body = (do
      let cv ← evalExpr F ctx c
      let go ← pure (!(← Spec.liftM (isFalsy cv)))
      if !go then pure .normal
      else do
        match ← execBlock F ctx body 1 with
        | .brk => pure .normal
        | .ret v => pure (.ret v)
        | _ => loopFor F ctx (some c) none body) := by
  simp only [loopFor, pure_bind, bind_assoc]
  rfl

theorem wrap64_id {x : Int} (h1 : minInt64 ≤ x) (h2 : x ≤ maxInt64) : wrap64 x = x := by
  unfold wrap64 minInt64 maxInt64 two63 at *
  unfold two64
  omega

theorem sliceSt_get_ne {σ : St} {st : Nat} {vs : Array Value} {h off a b k : Nat} {o : Obj} (hk : k ≠ st)
    (hg : σ.heap[k]? = some o) : (sliceSt σ st vs h off a b).heap[k]? = some o := by
  unfold sliceSt
  refine (ext_push _ _).keep _ _ ?_
  rw [setSt_get_ne _ hk]; exact hg

theorem sliceSt_size (σ : St) (st : Nat) (vs : Array Value) (h off a b : Nat) :
    (sliceSt σ st vs h off a b).heap.size = σ.heap.size + 1 := by
  simp [sliceSt, pushSt, setSt]

theorem sliceSt_new (σ : St) (st : Nat) (vs : Array Value) (h off a b : Nat) :
    (sliceSt σ st vs h off a b).heap[σ.heap.size]? = some (.arr st (off + a) (b - a)) := by
  have := pushSt_new (setSt σ st (.store vs (h + 1))) (.arr st (off + a) (b - a))
  have hs : (setSt σ st (Obj.store vs (h + 1))).heap.size = σ.heap.size := by simp [setSt]
  rwa [hs] at this

theorem sliceSt_store {σ : St} {st : Nat} {vs : Array Value} {h off a b : Nat} (hst : st < σ.heap.size) :
    (sliceSt σ st vs h off a b).heap[st]? = some (.store vs (h + 1)) := by
  unfold sliceSt
  exact (ext_push _ _).keep _ _ (setSt_get_eq _ hst)

def chunkAssignStmt : Stmt :=
  .assign "Assign" [.ident "res"] [.call false (.ident "append")
      [.ident "res", .slice (.ident "x") (some (.ident "idx")) (some (.bin "Add" (.ident "idx") (.ident "size")))]]

def chunkLoopBody : List Stmt :=
  [chunkAssignStmt, .assign "AddAssign" [.ident "idx"] [.ident "size"]]

/-- Heap after one iteration of `chunk`'s loop. -/
def chunkIterSt (σ : St) (st : Nat) (vs : Array Value) (h off len : Nat) (i0 s : Int) (rd : Nat) (hs : List Value)
    (cR cI : Nat) : St :=
  setSt (setSt (appSt (sliceSt σ st vs h off i0.toNat (if i0 + s > len then len else (i0 + s).toNat)) rd hs
      (.arr σ.heap.size)) cR (.cell (.arr (σ.heap.size + 2)) false)) cI (.cell (.int (i0 + s)) false)

/-- Facts about the variables of `chunk` and the objects they point to, in environment `E` and heap `σ`. -/
structure CFacts (E : Env) (σ : St) (r st off len : Nat) (vs : Array Value) (h : Nat) (i0 s : Int) (rd sd : Nat)
    (hs : List Value) (cX cS cN cR cI : Nat) : Prop where
  eX : lookupVar E "x" = some cX
  eS : lookupVar E "size" = some cS
  eN : lookupVar E "numElements" = some cN
  eR : lookupVar E "res" = some cR
  eI : lookupVar E "idx" = some cI
  eApp : lookupVar E "append" = none
  hX : σ.heap[cX]? = some (.cell (.arr r) false)
  hS : σ.heap[cS]? = some (.cell (.int s) false)
  hN : σ.heap[cN]? = some (.cell (.int len) false)
  hR : σ.heap[cR]? = some (.cell (.arr rd) false)
  hI : σ.heap[cI]? = some (.cell (.int i0) false)
  hr : σ.heap[r]? = some (.arr st off len)
  hst : σ.heap[st]? = some (.store vs h)
  dst : DstArr σ rd sd hs
  ne : st ≠ cX ∧ st ≠ cS ∧ st ≠ cN ∧ st ≠ cR ∧ st ≠ cI ∧ st ≠ r ∧ st ≠ rd ∧ st ≠ sd
  neC : cR ≠ cI ∧ cR ≠ cS ∧ cI ≠ cS ∧ cR ≠ cN ∧ cI ≠ cN ∧ cR ≠ cX ∧ cI ≠ cX ∧ cR ≠ r ∧ cI ≠ r

theorem chunk_assign_run {F : Nat} {ctx : Ctx} {E : Env} {σ : St} {r st off len : Nat} {vs : Array Value} {h : Nat}
    {i0 s : Int} {rd sd : Nat} {hs : List Value} {cX cS cN cR cI : Nat} (henv : ctx.env = E) (gs : GSt)
    (hf : CFacts E σ r st off len vs h i0 s rd sd hs cX cS cN cR cI)
    (h0 : 0 ≤ i0) (h1 : i0 ≤ len) (hs1 : 1 ≤ s) (hmax : i0 + s ≤ maxInt64) :
    execStmt (F + 7) ctx chunkAssignStmt gs σ = .ok (((Flow.normal, ctx.env), gs),
      setSt (appSt (sliceSt σ st vs h off i0.toNat (if i0 + s > len then len else (i0 + s).toNat)) rd hs
        (.arr σ.heap.size)) cR (.cell (.arr (σ.heap.size + 2)) false)) := by
  subst henv
  have vX : Var σ ctx.env "x" (.arr r) := ⟨cX, false, hf.eX, hf.hX⟩
  have vS : Var σ ctx.env "size" (.int s) := ⟨cS, false, hf.eS, hf.hS⟩
  have vR : Var σ ctx.env "res" (.arr rd) := ⟨cR, false, hf.eR, hf.hR⟩
  have vI : Var σ ctx.env "idx" (.int i0) := ⟨cI, false, hf.eI, hf.hI⟩
  have hwrap : wrap64 (i0 + s) = i0 + s := wrap64_id (by unfold minInt64 two63; omega) hmax
  have hadd : evalExpr (F + 2) ctx (.bin "Add" (.ident "idx") (.ident "size")) gs σ = .ok ((.int (i0 + s), gs), σ) := by
    have := bin_int_run (tok := "Add") (by decide) (by decide) (by decide) (by decide)
      (ev_ident vI F gs) (ev_ident vS F gs) (binaryOp_add i0 s)
    rwa [hwrap] at this
  have hslice : evalExpr (F + 3) ctx (.slice (.ident "x") (some (.ident "idx"))
      (some (.bin "Add" (.ident "idx") (.ident "size")))) gs σ = .ok ((.arr σ.heap.size, gs),
        sliceSt σ st vs h off i0.toNat (if i0 + s > len then len else (i0 + s).toNat)) := by
    rw [ev_slice, em_bind_ok (ev_ident vX (F + 1) gs), em_bind_ok (ev_ident vI (F + 1) gs), em_bind_ok hadd]
    exact sliceV_run i0 (i0 + s) hf.hr hf.hst h0 h1 (by omega) gs
  have hargs : evalExprs (F + 5) ctx [.ident "res", .slice (.ident "x") (some (.ident "idx"))
      (some (.bin "Add" (.ident "idx") (.ident "size")))] gs σ = .ok (([.arr rd, .arr σ.heap.size], gs),
        sliceSt σ st vs h off i0.toNat (if i0 + s > len then len else (i0 + s).toNat)) := by
    rw [evalExprs_cons, em_bind_ok (ev_ident vR (F + 3) gs), evalExprs_cons, bind_assoc, em_bind_ok hslice,
      evalExprs_nil]
    rfl
  have hcall := call_builtin_run2 (F := F + 5)
    (ev_builtin_ident (ctx := ctx) (n := "append") hf.eApp (by decide) (F + 4) gs σ) hargs
  have hdst1 : DstArr (sliceSt σ st vs h off i0.toNat (if i0 + s > len then len else (i0 + s).toNat)) rd sd hs :=
    ⟨sliceSt_get_ne (Ne.symm hf.ne.2.2.2.2.2.2.1) hf.dst.hdr, sliceSt_get_ne (Ne.symm hf.ne.2.2.2.2.2.2.2) hf.dst.store,
      hf.dst.clean⟩
  rw [callBuiltin_append_run hdst1 _ gs, sliceSt_size] at hcall
  unfold chunkAssignStmt
  show execStmt (F + 5 + 2) ctx (.assign "Assign" [.ident "res"] [.call false (.ident "append") _]) gs σ = _
  rw [execStmt_assign_call, em_bind_ok hcall, em_bind_ok (writeVar_run hf.eR _ gs _)]
  rfl

theorem chunk_addassign_run {F : Nat} {ctx : Ctx} {E : Env} {σ : St} {cI cS : Nat} {i0 s : Int} (henv : ctx.env = E)
    (gs : GSt) (eI : lookupVar E "idx" = some cI) (eS : lookupVar E "size" = some cS)
    (hI : σ.heap[cI]? = some (.cell (.int i0) false)) (hS : σ.heap[cS]? = some (.cell (.int s) false))
    (hwrap : wrap64 (i0 + s) = i0 + s) :
    execStmt (F + 3) ctx (.assign "AddAssign" [.ident "idx"] [.ident "size"]) gs σ =
      .ok (((Flow.normal, ctx.env), gs), setSt σ cI (.cell (.int (i0 + s)) false)) := by
  subst henv
  rw [execStmt_addassign, em_bind_ok (ev_ident ⟨cI, false, eI, hI⟩ (F + 1) gs),
    em_bind_ok (ev_ident ⟨cS, false, eS, hS⟩ (F + 1) gs), binaryOp_add, hwrap]
  rw [em_bind_ok (liftM_ok (show (pure (Value.int (i0 + s)) : M Value) σ = .ok (_, σ) from rfl)),
    em_bind_ok (writeVar_run eI _ gs _)]
  rfl

theorem CFacts.push {E : Env} {σ : St} {r st off len : Nat} {vs : Array Value} {h : Nat} {i0 s : Int} {rd sd : Nat}
    {hs : List Value} {cX cS cN cR cI : Nat} (hf : CFacts E σ r st off len vs h i0 s rd sd hs cX cS cN cR cI) :
    CFacts ({ vars := [] } :: E) σ r st off len vs h i0 s rd sd hs cX cS cN cR cI :=
  { hf with
    eX := by rw [lookupVar_cons]; exact hf.eX
    eS := by rw [lookupVar_cons]; exact hf.eS
    eN := by rw [lookupVar_cons]; exact hf.eN
    eR := by rw [lookupVar_cons]; exact hf.eR
    eI := by rw [lookupVar_cons]; exact hf.eI
    eApp := by rw [lookupVar_cons]; exact hf.eApp }

/-- One iteration of `chunk`'s loop body. -/
theorem chunk_body_run {F : Nat} {cx : Ctx} {σ : St} {r st off len : Nat} {vs : Array Value} {h : Nat}
    {i0 s : Int} {rd sd : Nat} {hs : List Value} {cX cS cN cR cI : Nat} (gs : GSt)
    (hf : CFacts cx.env σ r st off len vs h i0 s rd sd hs cX cS cN cR cI)
    (h0 : 0 ≤ i0) (h1 : i0 ≤ len) (hs1 : 1 ≤ s) (hmax : i0 + s ≤ maxInt64) :
    execBlock (F + 9) cx chunkLoopBody 1 gs σ =
      .ok ((.normal, gs), chunkIterSt σ st vs h off len i0 s rd hs cR cI) := by
  have hfb := hf.push
  have hwrap : wrap64 (i0 + s) = i0 + s := wrap64_id (by unfold minInt64 two63; omega) hmax
  unfold chunkLoopBody
  rw [execBlock_cons, execStmts_cons]
  simp only [bind_assoc, pure_bind]
  rw [em_bind_ok (chunk_assign_run (F := F)
    (ctx := { env := { vars := [] } :: cx.env, callDepth := cx.callDepth, path := 0 :: 1 :: cx.path })
    (E := { vars := [] } :: cx.env) rfl gs hfb h0 h1 hs1 hmax)]
  simp only []
  rw [show F + 7 = (F + 6) + 1 from rfl, execStmts_cons]
  simp only [bind_assoc, pure_bind]
  have hcI : cI < σ.heap.size := lt_size_of_get hf.hI
  have hcS : cS < σ.heap.size := lt_size_of_get hf.hS
  have hI3 : (setSt (appSt (sliceSt σ st vs h off i0.toNat (if i0 + s > len then len else (i0 + s).toNat)) rd hs
      (.arr σ.heap.size)) cR (.cell (.arr (σ.heap.size + 2)) false)).heap[cI]? = some (.cell (.int i0) false) := by
    rw [setSt_get_ne _ (Ne.symm hf.neC.1)]
    exact appSt_get_lt _ _ _ (sliceSt_get_ne (Ne.symm hf.ne.2.2.2.2.1) hf.hI)
  have hS3 : (setSt (appSt (sliceSt σ st vs h off i0.toNat (if i0 + s > len then len else (i0 + s).toNat)) rd hs
      (.arr σ.heap.size)) cR (.cell (.arr (σ.heap.size + 2)) false)).heap[cS]? = some (.cell (.int s) false) := by
    rw [setSt_get_ne _ (Ne.symm hf.neC.2.1)]
    exact appSt_get_lt _ _ _ (sliceSt_get_ne (Ne.symm hf.ne.2.1) hf.hS)
  rw [em_bind_ok (chunk_addassign_run (F := F + 3)
    (ctx := { env := { vars := [] } :: cx.env, callDepth := cx.callDepth, path := (0 + 1) :: 1 :: cx.path })
    (E := { vars := [] } :: cx.env) rfl gs hfb.eI hfb.eS hI3 hS3 hwrap)]
  simp only [execStmts_nil]
  rfl

theorem chunkIterSt_size (σ : St) (st : Nat) (vs : Array Value) (h off len : Nat) (i0 s : Int) (rd : Nat)
    (hs : List Value) (cR cI : Nat) : (chunkIterSt σ st vs h off len i0 s rd hs cR cI).heap.size = σ.heap.size + 3 := by
  simp [chunkIterSt, setSt, appSt_size, sliceSt_size]

theorem chunkIterSt_get_ne {σ : St} {st : Nat} {vs : Array Value} {h off len : Nat} {i0 s : Int} {rd : Nat}
    {hs : List Value} {cR cI k : Nat} {o : Obj} (h1 : k ≠ st) (h2 : k ≠ cR) (h3 : k ≠ cI)
    (hg : σ.heap[k]? = some o) : (chunkIterSt σ st vs h off len i0 s rd hs cR cI).heap[k]? = some o := by
  unfold chunkIterSt
  rw [setSt_get_ne _ h3, setSt_get_ne _ h2]
  exact appSt_get_lt _ _ _ (sliceSt_get_ne h1 hg)

theorem chunkIterSt_app (σ : St) (st : Nat) (vs : Array Value) (h off len : Nat) (i0 s : Int) (rd : Nat)
    (hs : List Value) (cR cI : Nat) :
    (chunkIterSt σ st vs h off len i0 s rd hs cR cI).appendedFrom = (rd, σ.heap.size + 1) :: σ.appendedFrom := by
  simp [chunkIterSt, setSt, appSt, sliceSt_size]
  rfl

theorem facts_step {E : Env} {σ : St} {r st off len : Nat} {vs : Array Value} {h : Nat} {i0 s : Int} {rd sd : Nat}
    {hs : List Value} {cX cS cN cR cI : Nat} (hf : CFacts E σ r st off len vs h i0 s rd sd hs cX cS cN cR cI)
    (hwf : WfApp σ) :
    CFacts E (chunkIterSt σ st vs h off len i0 s rd hs cR cI) r st off len vs (h + 1) (i0 + s) s
      (σ.heap.size + 2) (σ.heap.size + 1) (hs ++ [.arr σ.heap.size]) cX cS cN cR cI ∧
    WfApp (chunkIterSt σ st vs h off len i0 s rd hs cR cI) := by
  obtain ⟨n1, n2, n3, n4, n5, n6, n7, n8⟩ := hf.ne
  obtain ⟨c1, c2, c3, c4, c5, c6, c7, c8, c9⟩ := hf.neC
  have lX := lt_size_of_get hf.hX
  have lR := lt_size_of_get hf.hR
  have lI := lt_size_of_get hf.hI
  have lst := lt_size_of_get hf.hst
  have lrd := lt_size_of_get hf.dst.hdr
  have hlook : ∀ k, k ≠ rd → (chunkIterSt σ st vs h off len i0 s rd hs cR cI).appendedFrom.lookup k =
      σ.appendedFrom.lookup k := by
    intro k hk
    have hb : (k == rd) = false := by simp [hk]
    rw [chunkIterSt_app]; simp [List.lookup, hb]
  refine ⟨{ eX := hf.eX, eS := hf.eS, eN := hf.eN, eR := hf.eR, eI := hf.eI, eApp := hf.eApp,
            hX := ?_, hS := ?_, hN := ?_, hR := ?_, hI := ?_, hr := ?_, hst := ?_, dst := ⟨?_, ?_, ?_⟩,
            ne := ⟨n1, n2, n3, n4, n5, n6, by omega, by omega⟩, neC := hf.neC }, ?_⟩
  · exact chunkIterSt_get_ne (Ne.symm n1) (Ne.symm c6) (Ne.symm c7) hf.hX
  · exact chunkIterSt_get_ne (Ne.symm n2) (Ne.symm c2) (Ne.symm c3) hf.hS
  · exact chunkIterSt_get_ne (Ne.symm n3) (Ne.symm c4) (Ne.symm c5) hf.hN
  · unfold chunkIterSt
    rw [setSt_get_ne _ c1]
    exact setSt_get_eq _ (by rw [appSt_size, sliceSt_size]; omega)
  · unfold chunkIterSt
    exact setSt_get_eq _ (by simp [setSt, appSt_size, sliceSt_size]; omega)
  · exact chunkIterSt_get_ne (Ne.symm n6) (Ne.symm c8) (Ne.symm c9) hf.hr
  · unfold chunkIterSt
    rw [setSt_get_ne _ n5, setSt_get_ne _ n4]
    exact appSt_get_lt _ _ _ (sliceSt_store lst)
  · unfold chunkIterSt
    rw [setSt_get_ne _ (by omega), setSt_get_ne _ (by omega)]
    have := appSt_get1 (sliceSt σ st vs h off i0.toNat (if i0 + s > len then len else (i0 + s).toNat)) rd hs (.arr σ.heap.size)
    rwa [sliceSt_size] at this
  · unfold chunkIterSt
    rw [setSt_get_ne _ (by omega), setSt_get_ne _ (by omega)]
    have := appSt_get0 (sliceSt σ st vs h off i0.toNat (if i0 + s > len then len else (i0 + s).toNat)) rd hs (.arr σ.heap.size)
    rwa [sliceSt_size] at this
  · rw [hlook _ (by omega)]
    exact hwf _ (by omega)
  · intro k hk
    rw [chunkIterSt_size] at hk
    rw [hlook _ (by omega)]
    exact hwf _ (by omega)

/-- The elements built so far are slice headers over the store of `x`: the `t`-th one starts at `t * sN` and is
`sN` long (shorter at the end). -/
def Refs (σ : St) (st off len sN cR cI : Nat) (hs : List Value) : Prop :=
  ∀ t v, hs[t]? = some v → ∃ ref, v = .arr ref ∧ ref ≠ st ∧ ref ≠ cR ∧ ref ≠ cI ∧
    σ.heap[ref]? = some (.arr st (off + t * sN) (min len (t * sN + sN) - t * sN))

theorem slice_hi (a b len : Nat) :
    (if ((a : Int) + (b : Int) > (len : Int)) then len else ((a : Int) + (b : Int)).toNat) = min len (a + b) := by
  split <;> omega

theorem refs_step {σ : St} {st off len sN cR cI : Nat} {vs : Array Value} {h : Nat} {rd : Nat} {hs : List Value}
    {j : Nat} (hR : Refs σ st off len sN cR cI hs) (hj : hs.length = j)
    (lst : st < σ.heap.size) (lR : cR < σ.heap.size) (lI : cI < σ.heap.size) :
    Refs (chunkIterSt σ st vs h off len ((j * sN : Nat) : Int) (sN : Int) rd hs cR cI) st off len sN cR cI
      (hs ++ [.arr σ.heap.size]) := by
  intro t v hv
  rcases Nat.lt_or_ge t hs.length with ht | ht
  · rw [List.getElem?_append_left ht] at hv
    obtain ⟨ref, e, a1, a2, a3, a4⟩ := hR t v hv
    exact ⟨ref, e, a1, a2, a3, chunkIterSt_get_ne a1 a2 a3 a4⟩
  · rw [List.getElem?_append_right ht] at hv
    have ht0 : t - hs.length = 0 := by
      rcases Nat.eq_zero_or_pos (t - hs.length) with h0 | h0
      · exact h0
      · rw [List.getElem?_eq_none (by simp; omega)] at hv; cases hv
    rw [ht0] at hv
    have htj : t = j := by omega
    subst htj
    refine ⟨σ.heap.size, by simpa using hv.symm, by omega, by omega, by omega, ?_⟩
    unfold chunkIterSt
    rw [setSt_get_ne _ (by omega), setSt_get_ne _ (by omega)]
    refine appSt_get_lt _ _ _ ?_
    rw [Int.toNat_natCast, slice_hi]
    exact sliceSt_new σ st vs h off (t * sN) (min len (t * sN + sN))

def chunkCond : Expr := .bin "Less" (.ident "idx") (.ident "numElements")

theorem chunk_cond_run {F : Nat} {ctx : Ctx} {σ : St} {r st off len : Nat} {vs : Array Value} {h : Nat}
    {i0 s : Int} {rd sd : Nat} {hs : List Value} {cX cS cN cR cI : Nat} (gs : GSt)
    (hf : CFacts ctx.env σ r st off len vs h i0 s rd sd hs cX cS cN cR cI) :
    evalExpr (F + 2) ctx chunkCond gs σ = .ok ((.bool (decide (i0 < len)), gs), σ) :=
  bin_int_run (tok := "Less") (by decide) (by decide) (by decide) (by decide)
    (ev_ident ⟨cI, false, hf.eI, hf.hI⟩ F gs) (ev_ident ⟨cN, false, hf.eN, hf.hN⟩ F gs) (binaryOp_less i0 len)

/-- The loop `for idx < numElements { … }` of `chunk`, from iteration `j` on. -/
theorem chunk_loop_run {ctx : Ctx} {r st off len sN : Nat} {vs : Array Value} {cX cS cN cR cI : Nat} (gs : GSt)
    (hs1 : 1 ≤ sN) (hmax : (len : Int) + sN ≤ maxInt64) :
    ∀ (m j : Nat) (σ : St) (h rd sd : Nat) (hs : List Value), len - j * sN ≤ m →
      CFacts ctx.env σ r st off len vs h ((j * sN : Nat) : Int) (sN : Int) rd sd hs cX cS cN cR cI → WfApp σ →
      hs.length = j → Refs σ st off len sN cR cI hs →
      ∃ σ' h' rd' sd' hs' j', loopFor (m + 10) ctx (some chunkCond) none chunkLoopBody gs σ = .ok ((.normal, gs), σ') ∧
        CFacts ctx.env σ' r st off len vs h' ((j' * sN : Nat) : Int) (sN : Int) rd' sd' hs' cX cS cN cR cI ∧ WfApp σ' ∧
        hs'.length = j' ∧ Refs σ' st off len sN cR cI hs' ∧ len ≤ j' * sN ∧ j ≤ j' ∧ (j < j' → (j' - 1) * sN < len) := by
  intro m
  induction m with
  | zero =>
    intro j σ h rd sd hs hm hf hwf hj hR
    refine ⟨σ, h, rd, sd, hs, j, ?_, hf, hwf, hj, hR, by omega, Nat.le_refl _, fun hlt => absurd hlt (Nat.lt_irrefl _)⟩
    rw [loopFor_step, em_bind_ok (chunk_cond_run (F := 7) gs hf)]
    have : decide (((j * sN : Nat) : Int) < (len : Int)) = false := by simp; omega
    rw [this, em_bind_ok (liftM_ok (isFalsy_run (v := .bool false) rfl σ))]
    rfl
  | succ m ih =>
    intro j σ h rd sd hs hm hf hwf hj hR
    by_cases hlt : j * sN < len
    · -- one more iteration
      rw [loopFor_step, em_bind_ok (chunk_cond_run (F := m + 8) gs hf)]
      have hd : decide (((j * sN : Nat) : Int) < (len : Int)) = true := by simp; omega
      rw [hd, em_bind_ok (liftM_ok (isFalsy_run (v := .bool true) rfl σ))]
      have hbody := chunk_body_run (F := m + 1) (cx := ctx) gs hf (by omega) (by omega) (by omega)
        (by have := hmax; omega)
      simp only [falsy, Bool.not_true, Bool.not_false, pure_bind, Bool.false_eq_true, if_false]
      rw [show m + 1 + 9 = m + 10 from rfl] at hbody
      rw [em_bind_ok hbody]
      obtain ⟨hf', hwf'⟩ := facts_step hf hwf
      have hR' := refs_step (vs := vs) (h := h) (rd := rd) hR hj (lt_size_of_get hf.hst) (lt_size_of_get hf.hR)
        (lt_size_of_get hf.hI)
      have hcast : ((j * sN : Nat) : Int) + (sN : Int) = (((j + 1) * sN : Nat) : Int) := by
        rw [Nat.succ_mul]; push_cast; rfl
      rw [hcast] at hf'
      obtain ⟨σ', h', rd', sd', hs', j', hrun, a1, a2, a3, a4, a5, a6, a7⟩ :=
        ih (j + 1) _ (h + 1) _ _ (hs ++ [.arr σ.heap.size]) (by rw [Nat.succ_mul]; omega) hf' hwf'
          (by simp [hj]) hR'
      refine ⟨σ', h', rd', sd', hs', j', hrun, a1, a2, a3, a4, a5, by omega, fun _ => ?_⟩
      rcases Nat.lt_or_ge (j + 1) j' with hc | hc
      · exact a7 hc
      · have : j' = j + 1 := by omega
        subst this
        simpa using hlt
    · refine ⟨σ, h, rd, sd, hs, j, ?_, hf, hwf, hj, hR, by omega, Nat.le_refl _, fun hl => absurd hl (Nat.lt_irrefl _)⟩
      rw [loopFor_step, em_bind_ok (chunk_cond_run (F := m + 8) gs hf)]
      have : decide (((j * sN : Nat) : Int) < (len : Int)) = false := by simp; omega
      rw [this, em_bind_ok (liftM_ok (isFalsy_run (v := .bool false) rfl σ))]
      rfl

def chunkGuard : Stmt :=
  .ifs none (lor (.un "Not" (call1 "is_array_like" "x")) (.un "Not" (.ident "size"))) [.ret (some .undef)] none

theorem chunkBody_eq : chunkBody =
    [chunkGuard, .assign "Define" [.ident "numElements"] [call1 "len" "x"],
     .ifs none (.un "Not" (.ident "numElements")) [.ret (some (.arr []))] none,
     .assign "Define" [.ident "res"] [.arr []], .assign "Define" [.ident "idx"] [.int 0],
     .fors none (some chunkCond) none chunkLoopBody, .ret (some (.ident "res"))] := rfl

/-- The guard of `chunk` on an array and a size ≥ 1 falls through. -/
theorem chunk_guard_run {F : Nat} {ctx : Ctx} {σ : St} {r : Nat} {s : Int} (gs : GSt)
    (hb : IsArrLikeBound σ ctx.env) (hx : Var σ ctx.env "x" (.arr r)) (hsz : Var σ ctx.env "size" (.int s))
    (hs1 : 1 ≤ s) (hd : ctx.callDepth < 900) :
    execStmt (F + 14) ctx chunkGuard gs σ = .ok (((Flow.normal, ctx.env), gs), pushSt σ (.cell (.arr r) false)) := by
  unfold chunkGuard
  rw [execStmt_if]
  have hg := guardArr_expr_run (F := F) (ctx := pushCtx ctx) gs hb.push (var_push hx 0) hd
  have hl := not_run hg rfl
  have hr := not_run (ev_ident (ctx := pushCtx ctx) (var_push (hsz.ext (ext_push σ (.cell (.arr r) false))) 0) (F + 10) gs)
    (a := .int s) rfl
  have hcond : evalExpr (F + 13) (pushCtx ctx) (lor (.un "Not" (call1 "is_array_like" "x")) (.un "Not" (.ident "size")))
      gs σ = .ok ((.bool false, gs), pushSt σ (.cell (.arr r) false)) := by
    unfold lor
    rw [ev_lor, em_bind_ok hl, em_bind_ok (liftM_ok (isFalsy_run (v := .bool _) rfl _))]
    simp only [isArrLike, falsy, Bool.not_true, Bool.not_false, if_true]
    rw [hr]
    have : (s == 0) = false := by simp; omega
    simp [falsy, this]
  rw [em_bind_ok hcond, em_bind_ok (liftM_ok (isFalsy_run (v := .bool false) rfl _))]
  rfl

theorem len_call_run {F : Nat} {ctx : Ctx} {σ : St} {r st : Nat} {es : List Value} (gs : GSt)
    (hn : lookupVar ctx.env "len" = none) (hx : Var σ ctx.env "x" (.arr r)) (harr : ArrAt σ r st es) :
    evalExpr (F + 3) ctx (call1 "len" "x") gs σ = .ok ((.int es.length, gs), σ) := by
  unfold call1
  rw [call_builtin_run (ev_builtin_ident hn (by decide) (F + 1) gs σ) (ev_args1 hx F gs)]
  exact callBuiltin_len_run harr gs

theorem push3_get2 (σ : St) (o1 o2 o3 : Obj) :
    (pushSt (pushSt (pushSt σ o1) o2) o3).heap[σ.heap.size + 2]? = some o3 := by
  have := pushSt_new (pushSt (pushSt σ o1) o2) o3
  rwa [pushSt_size, pushSt_size] at this

theorem push3_get1 (σ : St) (o1 o2 o3 : Obj) :
    (pushSt (pushSt (pushSt σ o1) o2) o3).heap[σ.heap.size + 1]? = some o2 := by
  have := pushSt_new (pushSt σ o1) o2
  rw [pushSt_size] at this
  exact (ext_push _ _).keep _ _ this

theorem push3_get0 (σ : St) (o1 o2 o3 : Obj) :
    (pushSt (pushSt (pushSt σ o1) o2) o3).heap[σ.heap.size]? = some o1 :=
  ((ext_push _ _).trans (ext_push _ _)).keep _ _ (pushSt_new σ o1)

def addVar (f : Frame) (n : String) (c : Nat) : Frame :=
  { f with vars := (n, c) :: f.vars.filter (fun p => p.1 != n) }

theorem define_len_run {F : Nat} {ctx : Ctx} {f : Frame} {E : Env} {σ : St} {r st : Nat} {es : List Value} (gs : GSt)
    (henv : ctx.env = f :: E) (hd : (ctx.callDepth == 0) = false)
    (hn : lookupVar ctx.env "len" = none) (hx : Var σ ctx.env "x" (.arr r)) (harr : ArrAt σ r st es) :
    execStmt (F + 4) ctx (.assign "Define" [.ident "numElements"] [call1 "len" "x"]) gs σ =
      .ok (((Flow.normal, addVar f "numElements" σ.heap.size :: E), gs), pushSt σ (.cell (.int es.length) false)) := by
  have hl := len_call_run (F := F) gs hn hx harr
  unfold call1 at *
  rw [execStmt_define_call, em_bind_ok hl, em_bind_ok (declare_fn "numElements" _ 0 gs σ hd henv)]
  rfl

theorem if_not_num_run {F : Nat} {ctx : Ctx} {σ : St} {n : Int} (body : List Stmt) (gs : GSt)
    (hv : Var σ ctx.env "numElements" (.int n)) (hn : n ≠ 0) :
    execStmt (F + 3) ctx (.ifs none (.un "Not" (.ident "numElements")) body none) gs σ =
      .ok (((Flow.normal, ctx.env), gs), σ) := by
  rw [execStmt_if, em_bind_ok (not_run (ev_ident (ctx := pushCtx ctx) (var_push hv 0) F gs) (a := .int n) rfl),
    em_bind_ok (liftM_ok (isFalsy_run (v := .bool _) rfl σ))]
  have : (n == 0) = false := by simp [hn]
  simp [falsy, this]
  rfl

theorem define_res_run {F : Nat} {ctx : Ctx} {f : Frame} {E : Env} {σ : St} (gs : GSt)
    (henv : ctx.env = f :: E) (hd : (ctx.callDepth == 0) = false) :
    execStmt (F + 3) ctx (.assign "Define" [.ident "res"] [.arr []]) gs σ =
      .ok (((Flow.normal, addVar f "res" (σ.heap.size + 2) :: E), gs),
        pushSt (pushSt (pushSt σ (.store #[] 1)) (.arr σ.heap.size 0 0)) (.cell (.arr (σ.heap.size + 1)) false)) := by
  rw [execStmt_define_arr, em_bind_ok (ev_arr_nil F ctx gs σ),
    em_bind_ok (declare_fn "res" _ 0 gs _ hd henv)]
  simp only [pushSt_size]
  rfl

theorem define_idx_run {F : Nat} {ctx : Ctx} {f : Frame} {E : Env} {σ : St} (gs : GSt)
    (henv : ctx.env = f :: E) (hd : (ctx.callDepth == 0) = false) :
    execStmt (F + 2) ctx (.assign "Define" [.ident "idx"] [.int 0]) gs σ =
      .ok (((Flow.normal, addVar f "idx" σ.heap.size :: E), gs), pushSt σ (.cell (.int 0) false)) := by
  rw [execStmt_define_int, em_bind_ok (ev_int F ctx 0 gs σ), em_bind_ok (declare_fn "idx" _ 0 gs σ hd henv)]
  rfl

theorem chunk_run {σ : St} {menv : Env} {ctx : Ctx} {r st off len sN h0 : Nat} {vs : Array Value} (gs : GSt)
    (hba : IsArrLikeBound σ menv) (hr : σ.heap[r]? = some (.arr st off len)) (hst : σ.heap[st]? = some (.store vs h0))
    (hfit : off + len ≤ vs.size) (hclean : σ.appendedFrom.lookup r = none) (hrst : r ≠ st)
    (hd : ctx.callDepth < 899) (hwf : WfApp σ)
    (happ : lookupVar menv "append" = none) (hlen : lookupVar menv "len" = none)
    (hs1 : 1 ≤ sN) (hl1 : 1 ≤ len) (hmax : (len : Int) + sN ≤ maxInt64) (F : Nat) :
    ∃ σ' rd sd hs j, callClosure (F + len + 19) ctx ⟨["x", "size"], false, chunkBody, menv⟩
        [.arr r, .int sN] gs σ = .ok ((.arr rd, gs), σ') ∧
      DstArr σ' rd sd hs ∧ hs.length = j ∧ len ≤ j * sN ∧ (j - 1) * sN < len ∧
      Refs σ' st off len sN (σ.heap.size + 6) (σ.heap.size + 7) hs ∧
      (∃ h', σ'.heap[st]? = some (.store vs h')) := by
  have harr : ArrAt σ r st ((vs.toList.drop off).take len) := ⟨⟨off, len, hr, vs, h0, hst, rfl⟩, hclean⟩
  have hesl : ((vs.toList.drop off).take len).length = len := by simp; omega
  have lr := lt_size_of_get hr
  have lst := lt_size_of_get hst
  have za : (st2 σ (.arr r) (.int sN)).heap.size = σ.heap.size + 2 := by simp [st2, pushSt_size]
  have zb : (pushSt (st2 σ (.arr r) (.int sN)) (.cell (.arr r) false)).heap.size = σ.heap.size + 3 := by rw [pushSt_size, za]
  have zc : (pushSt (pushSt (st2 σ (.arr r) (.int sN)) (.cell (.arr r) false)) (.cell (.int len) false)).heap.size = σ.heap.size + 4 := by rw [pushSt_size, zb]
  have zd : (pushSt (pushSt (pushSt (pushSt (pushSt (st2 σ (.arr r) (.int sN)) (.cell (.arr r) false)) (.cell (.int len) false)) (.store #[] 1)) (.arr (pushSt (pushSt (st2 σ (.arr r) (.int sN)) (.cell (.arr r) false)) (.cell (.int len) false)).heap.size 0 0)) (.cell (.arr ((pushSt (pushSt (st2 σ (.arr r) (.int sN)) (.cell (.arr r) false)) (.cell (.int len) false)).heap.size + 1)) false)).heap.size = σ.heap.size + 7 := by simp only [pushSt_size, zc]
  have ze : (pushSt (pushSt (pushSt (pushSt (pushSt (pushSt (st2 σ (.arr r) (.int sN)) (.cell (.arr r) false)) (.cell (.int len) false)) (.store #[] 1)) (.arr (pushSt (pushSt (st2 σ (.arr r) (.int sN)) (.cell (.arr r) false)) (.cell (.int len) false)).heap.size 0 0)) (.cell (.arr ((pushSt (pushSt (st2 σ (.arr r) (.int sN)) (.cell (.arr r) false)) (.cell (.int len) false)).heap.size + 1)) false)) (.cell (.int 0) false)).heap.size = σ.heap.size + 8 := by rw [pushSt_size, zd]
  have xa : Ext σ (st2 σ (.arr r) (.int sN)) := ext_st2 σ _ _
  have xb : Ext σ (pushSt (st2 σ (.arr r) (.int sN)) (.cell (.arr r) false)) := xa.trans (ext_push _ _)
  have xc : Ext σ (pushSt (pushSt (st2 σ (.arr r) (.int sN)) (.cell (.arr r) false)) (.cell (.int len) false)) := xb.trans (ext_push _ _)
  have xd : Ext σ (pushSt (pushSt (pushSt (pushSt (pushSt (st2 σ (.arr r) (.int sN)) (.cell (.arr r) false)) (.cell (.int len) false)) (.store #[] 1)) (.arr (pushSt (pushSt (st2 σ (.arr r) (.int sN)) (.cell (.arr r) false)) (.cell (.int len) false)).heap.size 0 0)) (.cell (.arr ((pushSt (pushSt (st2 σ (.arr r) (.int sN)) (.cell (.arr r) false)) (.cell (.int len) false)).heap.size + 1)) false)) := xc.trans (((ext_push _ _).trans (ext_push _ _)).trans (ext_push _ _))
  have xe : Ext σ (pushSt (pushSt (pushSt (pushSt (pushSt (pushSt (st2 σ (.arr r) (.int sN)) (.cell (.arr r) false)) (.cell (.int len) false)) (.store #[] 1)) (.arr (pushSt (pushSt (st2 σ (.arr r) (.int sN)) (.cell (.arr r) false)) (.cell (.int len) false)).heap.size 0 0)) (.cell (.arr ((pushSt (pushSt (st2 σ (.arr r) (.int sN)) (.cell (.arr r) false)) (.cell (.int len) false)).heap.size + 1)) false)) (.cell (.int 0) false)) := xd.trans (ext_push _ _)
  have xae : Ext (st2 σ (.arr r) (.int sN)) (pushSt (pushSt (pushSt (pushSt (pushSt (pushSt (st2 σ (.arr r) (.int sN)) (.cell (.arr r) false)) (.cell (.int len) false)) (.store #[] 1)) (.arr (pushSt (pushSt (st2 σ (.arr r) (.int sN)) (.cell (.arr r) false)) (.cell (.int len) false)).heap.size 0 0)) (.cell (.arr ((pushSt (pushSt (st2 σ (.arr r) (.int sN)) (.cell (.arr r) false)) (.cell (.int len) false)).heap.size + 1)) false)) (.cell (.int 0) false)) :=
    (((ext_push _ _).trans (ext_push _ _)).trans (((ext_push _ _).trans (ext_push _ _)).trans (ext_push _ _))).trans (ext_push _ _)
  have xce : Ext (pushSt (pushSt (st2 σ (.arr r) (.int sN)) (.cell (.arr r) false)) (.cell (.int len) false)) (pushSt (pushSt (pushSt (pushSt (pushSt (pushSt (st2 σ (.arr r) (.int sN)) (.cell (.arr r) false)) (.cell (.int len) false)) (.store #[] 1)) (.arr (pushSt (pushSt (st2 σ (.arr r) (.int sN)) (.cell (.arr r) false)) (.cell (.int len) false)).heap.size 0 0)) (.cell (.arr ((pushSt (pushSt (st2 σ (.arr r) (.int sN)) (.cell (.arr r) false)) (.cell (.int len) false)).heap.size + 1)) false)) (.cell (.int 0) false)) := (((ext_push _ _).trans (ext_push _ _)).trans (ext_push _ _)).trans (ext_push _ _)
  have hfacts : CFacts ({ vars := [] } :: (addVar (addVar (addVar { vars := [] } "numElements" (pushSt (st2 σ (.arr r) (.int sN)) (.cell (.arr r) false)).heap.size) "res" ((pushSt (pushSt (st2 σ (.arr r) (.int sN)) (.cell (.arr r) false)) (.cell (.int len) false)).heap.size + 2)) "idx" (pushSt (pushSt (pushSt (pushSt (pushSt (st2 σ (.arr r) (.int sN)) (.cell (.arr r) false)) (.cell (.int len) false)) (.store #[] 1)) (.arr (pushSt (pushSt (st2 σ (.arr r) (.int sN)) (.cell (.arr r) false)) (.cell (.int len) false)).heap.size 0 0)) (.cell (.arr ((pushSt (pushSt (st2 σ (.arr r) (.int sN)) (.cell (.arr r) false)) (.cell (.int len) false)).heap.size + 1)) false)).heap.size) :: (enter2 menv ctx "x" "size" σ).env) (pushSt (pushSt (pushSt (pushSt (pushSt (pushSt (st2 σ (.arr r) (.int sN)) (.cell (.arr r) false)) (.cell (.int len) false)) (.store #[] 1)) (.arr (pushSt (pushSt (st2 σ (.arr r) (.int sN)) (.cell (.arr r) false)) (.cell (.int len) false)).heap.size 0 0)) (.cell (.arr ((pushSt (pushSt (st2 σ (.arr r) (.int sN)) (.cell (.arr r) false)) (.cell (.int len) false)).heap.size + 1)) false)) (.cell (.int 0) false)) r st off len vs h0 ((0 * sN : Nat) : Int) (sN : Int)
      ((pushSt (pushSt (st2 σ (.arr r) (.int sN)) (.cell (.arr r) false)) (.cell (.int len) false)).heap.size + 1) (pushSt (pushSt (st2 σ (.arr r) (.int sN)) (.cell (.arr r) false)) (.cell (.int len) false)).heap.size [] σ.heap.size (σ.heap.size + 1) (pushSt (st2 σ (.arr r) (.int sN)) (.cell (.arr r) false)).heap.size ((pushSt (pushSt (st2 σ (.arr r) (.int sN)) (.cell (.arr r) false)) (.cell (.int len) false)).heap.size + 2)
      (pushSt (pushSt (pushSt (pushSt (pushSt (st2 σ (.arr r) (.int sN)) (.cell (.arr r) false)) (.cell (.int len) false)) (.store #[] 1)) (.arr (pushSt (pushSt (st2 σ (.arr r) (.int sN)) (.cell (.arr r) false)) (.cell (.int len) false)).heap.size 0 0)) (.cell (.arr ((pushSt (pushSt (st2 σ (.arr r) (.int sN)) (.cell (.arr r) false)) (.cell (.int len) false)).heap.size + 1)) false)).heap.size := by
    refine { eX := ?_, eS := ?_, eN := ?_, eR := ?_, eI := ?_, eApp := ?_, hX := ?_, hS := ?_, hN := ?_, hR := ?_,
             hI := ?_, hr := xe.keep _ _ hr, hst := xe.keep _ _ hst, dst := ⟨?_, ?_, ?_⟩, ne := ?_, neC := ?_ }
    · simp [addVar, enter2, lookupVar_cons, List.lookup]
    · simp [addVar, enter2, lookupVar_cons, List.lookup]
    · simp [addVar, enter2, lookupVar_cons, List.lookup]
    · simp [addVar, enter2, lookupVar_cons, List.lookup]
    · simp [addVar, enter2, lookupVar_cons, List.lookup]
    · simp [addVar, enter2, lookupVar_cons, List.lookup, happ]
    · exact xae.keep _ _ (st2_get0 σ _ _)
    · exact xae.keep _ _ (st2_get1 σ _ _)
    · exact xce.keep _ _ (pushSt_new _ _)
    · exact (ext_push _ _).keep _ _ (push3_get2 (pushSt (pushSt (st2 σ (.arr r) (.int sN)) (.cell (.arr r) false)) (.cell (.int len) false)) _ _ _)
    · simpa using pushSt_new (pushSt (pushSt (pushSt (pushSt (pushSt (st2 σ (.arr r) (.int sN)) (.cell (.arr r) false)) (.cell (.int len) false)) (.store #[] 1)) (.arr (pushSt (pushSt (st2 σ (.arr r) (.int sN)) (.cell (.arr r) false)) (.cell (.int len) false)).heap.size 0 0)) (.cell (.arr ((pushSt (pushSt (st2 σ (.arr r) (.int sN)) (.cell (.arr r) false)) (.cell (.int len) false)).heap.size + 1)) false)) (.cell (.int 0) false)
    · exact (ext_push _ _).keep _ _ (push3_get1 (pushSt (pushSt (st2 σ (.arr r) (.int sN)) (.cell (.arr r) false)) (.cell (.int len) false)) _ _ _)
    · exact (ext_push _ _).keep _ _ (push3_get0 (pushSt (pushSt (st2 σ (.arr r) (.int sN)) (.cell (.arr r) false)) (.cell (.int len) false)) _ _ _)
    · show σ.appendedFrom.lookup _ = none
      exact hwf _ (by simp only [pushSt_size, za]; omega)
    · simp only [pushSt_size, za]; omega
    · simp only [pushSt_size, za]; omega
  have hRefs0 : Refs (pushSt (pushSt (pushSt (pushSt (pushSt (pushSt (st2 σ (.arr r) (.int sN)) (.cell (.arr r) false)) (.cell (.int len) false)) (.store #[] 1)) (.arr (pushSt (pushSt (st2 σ (.arr r) (.int sN)) (.cell (.arr r) false)) (.cell (.int len) false)).heap.size 0 0)) (.cell (.arr ((pushSt (pushSt (st2 σ (.arr r) (.int sN)) (.cell (.arr r) false)) (.cell (.int len) false)).heap.size + 1)) false)) (.cell (.int 0) false)) st off len sN ((pushSt (pushSt (st2 σ (.arr r) (.int sN)) (.cell (.arr r) false)) (.cell (.int len) false)).heap.size + 2) (pushSt (pushSt (pushSt (pushSt (pushSt (st2 σ (.arr r) (.int sN)) (.cell (.arr r) false)) (.cell (.int len) false)) (.store #[] 1)) (.arr (pushSt (pushSt (st2 σ (.arr r) (.int sN)) (.cell (.arr r) false)) (.cell (.int len) false)).heap.size 0 0)) (.cell (.arr ((pushSt (pushSt (st2 σ (.arr r) (.int sN)) (.cell (.arr r) false)) (.cell (.int len) false)).heap.size + 1)) false)).heap.size [] := by
    intro t v hv; simp at hv
  obtain ⟨σ', h', rd', sd', hs', j', hrun, a1, a2, a3, a4, a5, a6, a7⟩ :=
    chunk_loop_run (ctx := { env := { vars := [] } :: (addVar (addVar (addVar { vars := [] } "numElements" (pushSt (st2 σ (.arr r) (.int sN)) (.cell (.arr r) false)).heap.size) "res" ((pushSt (pushSt (st2 σ (.arr r) (.int sN)) (.cell (.arr r) false)) (.cell (.int len) false)).heap.size + 2)) "idx" (pushSt (pushSt (pushSt (pushSt (pushSt (st2 σ (.arr r) (.int sN)) (.cell (.arr r) false)) (.cell (.int len) false)) (.store #[] 1)) (.arr (pushSt (pushSt (st2 σ (.arr r) (.int sN)) (.cell (.arr r) false)) (.cell (.int len) false)).heap.size 0 0)) (.cell (.arr ((pushSt (pushSt (st2 σ (.arr r) (.int sN)) (.cell (.arr r) false)) (.cell (.int len) false)).heap.size + 1)) false)).heap.size) :: (enter2 menv ctx "x" "size" σ).env, callDepth := ctx.callDepth + 1, path := (0 + 1 + 1 + 1 + 1 + 1) :: [0] })
      gs hs1 hmax (F + len) 0 (pushSt (pushSt (pushSt (pushSt (pushSt (pushSt (st2 σ (.arr r) (.int sN)) (.cell (.arr r) false)) (.cell (.int len) false)) (.store #[] 1)) (.arr (pushSt (pushSt (st2 σ (.arr r) (.int sN)) (.cell (.arr r) false)) (.cell (.int len) false)).heap.size 0 0)) (.cell (.arr ((pushSt (pushSt (st2 σ (.arr r) (.int sN)) (.cell (.arr r) false)) (.cell (.int len) false)).heap.size + 1)) false)) (.cell (.int 0) false)) h0 _ _ [] (by omega) hfacts (xe.wf hwf) rfl hRefs0
  have hj1 : 1 ≤ j' := by
    rcases Nat.eq_zero_or_pos j' with h | h
    · subst h; omega
    · exact h
  refine ⟨σ', rd', sd', hs', j', ?_, a1.dst, a3, a5, a7 (by omega), ?_, ⟨h', a1.hst⟩⟩
  · rw [callClosure2 gs σ (by omega) (by decide), chunkBody_eq,
      show F + len + 18 = (F + len + 17) + 1 from rfl, execBlock_cons,
      show F + len + 17 = (F + len + 16) + 1 from rfl, execStmts_cons]
    simp only [bind_assoc, pure_bind]
    rw [show (enter2 menv ctx "x" "size" σ).callDepth = ctx.callDepth + 1 from rfl,
      show (enter2 menv ctx "x" "size" σ).path = [] from rfl]
    have hxa : Var (st2 σ (.arr r) (.int sN)) ({ vars := [] } :: (enter2 menv ctx "x" "size" σ).env) "x" (.arr r) :=
      ⟨σ.heap.size, false, by simp [enter2, lookupVar_cons, List.lookup], st2_get0 σ _ _⟩
    have hsa : Var (st2 σ (.arr r) (.int sN)) ({ vars := [] } :: (enter2 menv ctx "x" "size" σ).env) "size" (.int sN) :=
      ⟨σ.heap.size + 1, false, by simp [enter2, lookupVar_cons, List.lookup], st2_get1 σ _ _⟩
    have hbaa : IsArrLikeBound (st2 σ (.arr r) (.int sN)) ({ vars := [] } :: (enter2 menv ctx "x" "size" σ).env) := by
      obtain ⟨re, env0, h1, h2, h3⟩ := hba.ext xa
      refine ⟨re, env0, ?_, h2, h3⟩
      refine (h1.under _ ?_).under _ rfl
      simp [List.lookup]
    rw [em_bind_ok (chunk_guard_run (F := F + len + 2)
      (ctx := { env := { vars := [] } :: (enter2 menv ctx "x" "size" σ).env, callDepth := ctx.callDepth + 1, path := 0 :: [0] })
      gs hbaa hxa hsa (by omega) (by show ctx.callDepth + 1 < 900; omega))]
    simp only []
    have hdep : (ctx.callDepth + 1 == 0) = false := by simp
    rw [execStmts_cons]
    simp only [bind_assoc, pure_bind]
    have hxb : Var (pushSt (st2 σ (.arr r) (.int sN)) (.cell (.arr r) false)) ({ vars := [] } :: (enter2 menv ctx "x" "size" σ).env) "x" (.arr r) := hxa.ext (ext_push _ _)
    have hS1 := define_len_run (F := F + len + 11)
      (ctx := { env := { vars := [] } :: (enter2 menv ctx "x" "size" σ).env, callDepth := ctx.callDepth + 1, path := (0 + 1) :: [0] })
      (f := { vars := [] }) (E := (enter2 menv ctx "x" "size" σ).env) gs rfl hdep
      (by simp [enter2, lookupVar_cons, List.lookup, hlen]) hxb (harr.ext xb)
    rw [hesl] at hS1
    rw [em_bind_ok hS1]
    simp only []
    rw [execStmts_cons]
    simp only [bind_assoc, pure_bind]
    have hvN : Var (pushSt (pushSt (st2 σ (.arr r) (.int sN)) (.cell (.arr r) false)) (.cell (.int len) false)) ((addVar { vars := [] } "numElements" (pushSt (st2 σ (.arr r) (.int sN)) (.cell (.arr r) false)).heap.size) :: (enter2 menv ctx "x" "size" σ).env) "numElements" (.int len) :=
      ⟨(pushSt (st2 σ (.arr r) (.int sN)) (.cell (.arr r) false)).heap.size, false, by simp [addVar, lookupVar_cons, List.lookup], pushSt_new (pushSt (st2 σ (.arr r) (.int sN)) (.cell (.arr r) false)) _⟩
    rw [em_bind_ok (if_not_num_run (F := F + len + 11)
      (ctx := { env := (addVar { vars := [] } "numElements" (pushSt (st2 σ (.arr r) (.int sN)) (.cell (.arr r) false)).heap.size) :: (enter2 menv ctx "x" "size" σ).env, callDepth := ctx.callDepth + 1, path := (0 + 1 + 1) :: [0] })
      _ gs hvN (by omega))]
    simp only []
    rw [execStmts_cons]
    simp only [bind_assoc, pure_bind]
    rw [em_bind_ok (define_res_run (F := F + len + 10)
      (ctx := { env := (addVar { vars := [] } "numElements" (pushSt (st2 σ (.arr r) (.int sN)) (.cell (.arr r) false)).heap.size) :: (enter2 menv ctx "x" "size" σ).env, callDepth := ctx.callDepth + 1, path := (0 + 1 + 1 + 1) :: [0] })
      (f := (addVar { vars := [] } "numElements" (pushSt (st2 σ (.arr r) (.int sN)) (.cell (.arr r) false)).heap.size)) (E := (enter2 menv ctx "x" "size" σ).env) gs rfl hdep)]
    simp only []
    rw [execStmts_cons]
    simp only [bind_assoc, pure_bind]
    rw [em_bind_ok (define_idx_run (F := F + len + 10)
      (ctx := { env := (addVar (addVar { vars := [] } "numElements" (pushSt (st2 σ (.arr r) (.int sN)) (.cell (.arr r) false)).heap.size) "res" ((pushSt (pushSt (st2 σ (.arr r) (.int sN)) (.cell (.arr r) false)) (.cell (.int len) false)).heap.size + 2)) :: (enter2 menv ctx "x" "size" σ).env, callDepth := ctx.callDepth + 1, path := (0 + 1 + 1 + 1 + 1) :: [0] })
      (f := (addVar (addVar { vars := [] } "numElements" (pushSt (st2 σ (.arr r) (.int sN)) (.cell (.arr r) false)).heap.size) "res" ((pushSt (pushSt (st2 σ (.arr r) (.int sN)) (.cell (.arr r) false)) (.cell (.int len) false)).heap.size + 2))) (E := (enter2 menv ctx "x" "size" σ).env) gs rfl hdep)]
    simp only []
    rw [execStmts_cons, execStmt_fors]
    simp only [pushCtx, bind_assoc, pure_bind]
    rw [em_bind_ok hrun]
    simp only []
    rw [execStmts_cons, execStmt_ret]
    simp only [bind_assoc, pure_bind]
    have hvR : Var σ' ((addVar (addVar (addVar { vars := [] } "numElements" (pushSt (st2 σ (.arr r) (.int sN)) (.cell (.arr r) false)).heap.size) "res" ((pushSt (pushSt (st2 σ (.arr r) (.int sN)) (.cell (.arr r) false)) (.cell (.int len) false)).heap.size + 2)) "idx" (pushSt (pushSt (pushSt (pushSt (pushSt (st2 σ (.arr r) (.int sN)) (.cell (.arr r) false)) (.cell (.int len) false)) (.store #[] 1)) (.arr (pushSt (pushSt (st2 σ (.arr r) (.int sN)) (.cell (.arr r) false)) (.cell (.int len) false)).heap.size 0 0)) (.cell (.arr ((pushSt (pushSt (st2 σ (.arr r) (.int sN)) (.cell (.arr r) false)) (.cell (.int len) false)).heap.size + 1)) false)).heap.size) :: (enter2 menv ctx "x" "size" σ).env) "res" (.arr rd') :=
      ⟨(pushSt (pushSt (st2 σ (.arr r) (.int sN)) (.cell (.arr r) false)) (.cell (.int len) false)).heap.size + 2, false, by simp [addVar, lookupVar_cons, List.lookup], a1.hR⟩
    rw [em_bind_ok (ev_ident (ctx := { env := (addVar (addVar (addVar { vars := [] } "numElements" (pushSt (st2 σ (.arr r) (.int sN)) (.cell (.arr r) false)).heap.size) "res" ((pushSt (pushSt (st2 σ (.arr r) (.int sN)) (.cell (.arr r) false)) (.cell (.int len) false)).heap.size + 2)) "idx" (pushSt (pushSt (pushSt (pushSt (pushSt (st2 σ (.arr r) (.int sN)) (.cell (.arr r) false)) (.cell (.int len) false)) (.store #[] 1)) (.arr (pushSt (pushSt (st2 σ (.arr r) (.int sN)) (.cell (.arr r) false)) (.cell (.int len) false)).heap.size 0 0)) (.cell (.arr ((pushSt (pushSt (st2 σ (.arr r) (.int sN)) (.cell (.arr r) false)) (.cell (.int len) false)).heap.size + 1)) false)).heap.size) :: (enter2 menv ctx "x" "size" σ).env, callDepth := ctx.callDepth + 1, path := (0 + 1 + 1 + 1 + 1 + 1 + 1) :: [0] })
      hvR (F + len + 8) gs)]
    rfl
  · have e1 : (pushSt (pushSt (st2 σ (.arr r) (.int sN)) (.cell (.arr r) false)) (.cell (.int len) false)).heap.size + 2 = σ.heap.size + 6 := by rw [zc]
    have e2 : (pushSt (pushSt (pushSt (pushSt (pushSt (st2 σ (.arr r) (.int sN)) (.cell (.arr r) false)) (.cell (.int len) false)) (.store #[] 1)) (.arr (pushSt (pushSt (st2 σ (.arr r) (.int sN)) (.cell (.arr r) false)) (.cell (.int len) false)).heap.size 0 0)) (.cell (.arr ((pushSt (pushSt (st2 σ (.arr r) (.int sN)) (.cell (.arr r) false)) (.cell (.int len) false)).heap.size + 1)) false)).heap.size = σ.heap.size + 7 := zd
    rw [e1, e2] at a4
    exact a4

end Tengo.Proofs.C19Enum

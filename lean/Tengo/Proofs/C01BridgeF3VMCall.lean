import Tengo.Proofs.C01BridgeF3VMCallOps
import Tengo.Proofs.C01BridgeF3VMSimple
/-!
C01 bridge for fragment F3, VM side, layer 2b: ONE STEP of `RET` and of `CALL` (frame push and self tail call)
in ANY function frame, and the failing `CALL`s (not callable, wrong number of arguments).
-/
set_option linter.unusedVariables false
set_option linter.unusedSimpArgs false
namespace Tengo.Proofs.C01BridgeF3
open Tengo.Model Tengo.Model.Spec Tengo.Model.VM Tengo.Proofs.C01Bridge

variable {V : Type}

/-- "The callee is the function this frame runs", on both sides. -/
theorem selfRef_eq {ref : Nat → Nat} (inj : ∀ a b, ref a = ref b → a = b) {fnIdx : Nat} {fnRef : Option Nat}
    (h : FnRefOK ref fnIdx fnRef) (k : Nat) : (fnRef == some (ref k)) = (fnIdx == k + 1) := by
  cases fnIdx with
  | zero =>
    simp only [FnRefOK] at h
    subst h
    simp
  | succ j =>
    simp only [FnRefOK] at h
    subst h
    by_cases hjk : j = k
    · subst hjk; simp
    · have : ref j ≠ ref k := fun e => hjk (inj _ _ e)
      simp [hjk, this]
      rw [beq_eq_false_iff_ne.mpr this, beq_eq_false_iff_ne.mpr hjk]

section sim
variable {M : F3.Mach} {K n : Nat} {E : F3.Env V} {val : V → Value} {ref : Nat → Nat} {code : Code}
  {s : F3.St V} {c : Core} {is : List F3.Ins} {f : Fn} {pre post : List F3.Ins} {tl : List UInt8}

/-- The bytes behind the instruction at `p`. -/
theorem byteAt_after {fn p : Nat} {i : F3.Ins} (hat : At3 (K := K) (n := n) code fn is p i f pre post tl) (j : Nat) (z : Int)
    (hz : z = (p : Int) + (i.size : Int) + (j : Int)) : byteAt f z = firstOp (encodeIns3 post ++ tl) j := by
  subst hz
  have hb : f.insts = ((encodeIns3 pre ++ encI3 i) ++ (encodeIns3 post ++ tl)).toArray := by
    rw [hat.bytes, hat.split, encodeIns3_append, encodeIns3_cons]
    simp only [List.append_assoc]
  have := byteAt_off f (encodeIns3 pre ++ encI3 i) _ hb j
  have hl : (encodeIns3 pre ++ encI3 i).length = p + i.size := by
    rw [List.length_append, encodeIns3_length, encI3_length, hat.off]
  rw [hl] at this
  have e : (((p + i.size : Nat) : Int) + (j : Int)) = (p : Int) + (i.size : Int) + (j : Int) := by omega
  rw [e] at this
  exact this

/-- The tail-call test of the VM is the fragment's. -/
theorem isSelfTail_eq (hcode : CodeRel3 M K n E val ref code) (hrel : Rel3 M n val ref s c) {nargs : Nat}
    (hat : At3 (K := K) (n := n) code s.fn is s.ip (.call nargs) f pre post tl) (k : Nat) :
    isSelfTail f c.cur (ref k) ((s.ip : Int) + 2) = (s.fn == k + 1 && F3.tailNext is (s.ip + 3)) := by
  unfold isSelfTail
  have h0 := byteAt_after hat 0 ((s.ip : Int) + 2 + 1) (by simp [F3.Ins.size]; omega)
  have h1 := byteAt_after hat 1 ((s.ip : Int) + 2 + 2) (by simp [F3.Ins.size]; omega)
  have ht := tailNext_bytes pre post (.call nargs) tl hat.tail
  rw [hat.off, ← hat.split] at ht
  have hs := selfRef_eq hcode.inj hrel.cur.fref k
  rw [hrel.cur.fn] at hs
  simp only [h0, h1, hs]
  rw [show (F3.Ins.call nargs).size = 3 from rfl] at ht
  rw [ht]
  rfl

theorem isPop_eq (hrel : Rel3 M n val ref s c) {nargs : Nat}
    (hat : At3 (K := K) (n := n) code s.fn is s.ip (.call nargs) f pre post tl) :
    (byteAt f ((s.ip : Int) + 2 + 1) == Opcodes.opPop) = F3.nextIsPop is (s.ip + 3) := by
  have h0 := byteAt_after hat 0 ((s.ip : Int) + 2 + 1) (by simp [F3.Ins.size]; omega)
  have ht := nextIsPop_bytes pre post (.call nargs) tl hat.tail
  rw [hat.off, ← hat.split, show (F3.Ins.call nargs).size = 3 from rfl] at ht
  rw [h0, ht]
  rfl

/-! ### RET -/

theorem sim_ret (hD : DataRel E.S val) (hrel : Rel3 M n val ref s c) {wv : Bool}
    (hat : At3 (K := K) (n := n) code s.fn is s.ip (.ret wv) f pre post tl) (g : GSt) (h : Spec.St)
    (fr : F3.Frame) (rest : List F3.Frame) (hcs : s.callers = fr :: rest) (hsp : wv = true → 1 ≤ s.sp)
    (hb : s.bp ≤ stackSize) :
    ∃ c' al, XOk (exec code c) g h (.next c' al) ∧
      Rel3 M n val ref (retSt s fr rest (if wv && !s.dis then s.stk (s.sp - 1) else E.S.undef)) c' := by
  have hcl := hrel.callers
  rw [hcs] at hcl
  generalize hcc : c.callers = cc at hcl
  cases hcl with
  | cons hfr hrest =>
    rename_i a as
    have hfn : code.fn c.cur.fnIdx = some f := by rw [hrel.cur.fn]; exact hat.fn
    have hex := exec_ret_eq3 code c f s.ip hfn hrel.cur.ip hat.lt (fetchedOf3 (.ret wv)) hat.fetch rfl
    have hbp : c.cur.bp = s.bp := hrel.cur.bp
    have hx := xok_execReturn wv c a as g h hcc (by rw [hrel.sp]; exact hsp)
      (by rw [hbp]; have := stackSize_eq; omega)
    refine ⟨_, false, by rw [hex]; exact hx, ?_⟩
    have hv : retVal wv c = val (if wv && !s.dis then s.stk (s.sp - 1) else E.S.undef) := by
      unfold retVal
      have hdis : c.cur.discard = s.dis := hrel.cur.dis
      rw [hdis, rel_top hrel]
      cases hcond : (wv && !s.dis)
      · simp only [Bool.false_eq_true, if_false]; exact hD.undef.symm
      · simp only [if_true]
    exact ⟨hfr, hbp, hb, hrel.stk.set_at (s.bp - 1) (c.cur.bp - 1) (by rw [hbp]) _ _ hv, hrel.glb, hrest,
      hrel.fobjs⟩

/-! ### CALL -/

theorem rel_callee (hrel : Rel3 M n val ref s c) (nargs : Nat) :
    c.regs.sp - 1 - nargs < stackSize ∧
      getSlot c.regs (c.regs.sp - 1 - nargs) = val (s.stk (s.sp - 1 - nargs)) := by
  have h1 : s.sp - 1 - nargs < stackSize := by have := hrel.spb; have := stackSize_eq; omega
  rw [hrel.sp]
  exact ⟨h1, hrel.stk.get c.regs rfl _ h1⟩

theorem sim_call_push (hcode : CodeRel3 M K n E val ref code) (hrel : Rel3 M n val ref s c) {nargs k : Nat}
    {cf : F3.CFn} (hat : At3 (K := K) (n := n) code s.fn is s.ip (.call nargs) f pre post tl) (g : GSt) (h : Spec.St)
    (hsp : nargs + 1 ≤ s.sp) (hfn : E.asFn (s.stk (s.sp - 1 - nargs)) = some k) (hk : M.fns k = some cf)
    (hn : nargs = cf.nparams) (htail : (s.fn == k + 1 && F3.tailNext is (s.ip + 3)) = false)
    (hb : s.sp - nargs + cf.nlocals ≤ stackSize) (hd : s.callers.length + 1 < maxFrames) :
    ∃ c' al, XOk (exec code c) g h (.next c' al) ∧ Rel3 M n val ref (calleeSt s nargs k cf.nlocals) c' := by
  have hfn' : code.fn c.cur.fnIdx = some f := by rw [hrel.cur.fn]; exact hat.fn
  have hex := exec_call_eq3 code c f s.ip hfn' hrel.cur.ip hat.lt (fetchedOf3 (.call nargs)) hat.fetch rfl
  have hsp' := hrel.sp
  have hcallee : getSlot c.regs (c.regs.sp - 1 - nargs) = .cfn (ref k) := by
    rw [(rel_callee hrel nargs).2]; exact hcode.asFn_some _ _ hfn
  have hst : isSelfTail f c.cur (ref k) ((s.ip : Int) + 2) = false := by
    rw [isSelfTail_eq hcode hrel hat k]; exact htail
  have hx := xok_execCall code f (s.ip : Int) nargs c g h (ref k) k [] (fnOf cf) (ref k) _
    (by omega) hcallee (hrel.fobjs k cf hk) (hcode.fns k cf hk) rfl hn
    (finish_push f _ c nargs (ref k) k [] (fnOf cf) g h hst (by rw [hrel.callers.length]; exact hd))
  refine ⟨_, false, by rw [hex]; exact hx, ?_⟩
  refine ⟨⟨rfl, by show (-1 : Int) + 1 = ((0 : Nat) : Int); omega, by show c.regs.sp - nargs = s.sp - nargs; rw [hsp'],
      rfl, rfl, rfl⟩, by show c.regs.sp - nargs + cf.nlocals = s.sp - nargs + cf.nlocals; rw [hsp'], hb,
    hrel.stk, hrel.glb, ?_, hrel.fobjs⟩
  exact .cons ⟨hrel.cur.fn, by show (s.ip : Int) + 2 + 1 = ((s.ip + 3 : Nat) : Int); omega, hrel.cur.bp,
    hrel.cur.dis, hrel.cur.fref, hrel.cur.free⟩ hrel.callers

theorem sim_call_tail (hcode : CodeRel3 M K n E val ref code) (hrel : Rel3 M n val ref s c) {nargs k : Nat}
    {cf : F3.CFn} (hat : At3 (K := K) (n := n) code s.fn is s.ip (.call nargs) f pre post tl) (g : GSt) (h : Spec.St)
    (hsp : nargs + 1 ≤ s.sp) (hfn : E.asFn (s.stk (s.sp - 1 - nargs)) = some k) (hk : M.fns k = some cf)
    (hn : nargs = cf.nparams) (htail : (s.fn == k + 1 && F3.tailNext is (s.ip + 3)) = true)
    (hb : s.bp + nargs ≤ stackSize) :
    ∃ c' al, XOk (exec code c) g h (.next c' al) ∧ Rel3 M n val ref (tailSt s is nargs) c' := by
  have hfn' : code.fn c.cur.fnIdx = some f := by rw [hrel.cur.fn]; exact hat.fn
  have hex := exec_call_eq3 code c f s.ip hfn' hrel.cur.ip hat.lt (fetchedOf3 (.call nargs)) hat.fetch rfl
  have hsp' := hrel.sp
  have hbp : c.cur.bp = s.bp := hrel.cur.bp
  have hspb := hrel.spb
  have hcallee : getSlot c.regs (c.regs.sp - 1 - nargs) = .cfn (ref k) := by
    rw [(rel_callee hrel nargs).2]; exact hcode.asFn_some _ _ hfn
  have hst : isSelfTail f c.cur (ref k) ((s.ip : Int) + 2) = true := by
    rw [isSelfTail_eq hcode hrel hat k]; exact htail
  have hx := xok_execCall code f (s.ip : Int) nargs c g h (ref k) k [] (fnOf cf) (ref k) _
    (by omega) hcallee (hrel.fobjs k cf hk) (hcode.fns k cf hk) rfl hn
    (finish_tail f _ c nargs (ref k) k [] (fnOf cf) g h hst (by rw [hbp]; exact hb))
  refine ⟨_, false, by rw [hex]; exact hx, ?_⟩
  obtain ⟨e1, e2, e3⟩ := copyArgsP_sp c.cur.bp nargs nargs c.regs
  have hstk := copyArgsP_stack val c.cur.bp nargs nargs c.regs s.stk (Nat.le_refl _) (by omega) (by omega) hrel.stk
  refine ⟨⟨hrel.cur.fn, by show (-1 : Int) + 1 = ((0 : Nat) : Int); omega, hbp, ?_, hrel.cur.fref, hrel.cur.free⟩,
    ?_, by show s.sp - nargs - 1 ≤ stackSize; omega, ?_, ?_, hrel.callers, ?_⟩
  · show (c.cur.discard || byteAt f ((s.ip : Int) + 2 + 1) == Opcodes.opPop) = (s.dis || F3.nextIsPop is (s.ip + 3))
    have hdis : c.cur.discard = s.dis := hrel.cur.dis
    rw [hdis, isPop_eq hrel hat]
  · show (copyArgsP c.regs c.cur.bp nargs nargs).sp - nargs - 1 = s.sp - nargs - 1
    rw [e1, hsp']
  · show SlotsRel val (F3.copyArgs s.stk s.bp (s.sp - nargs) nargs nargs) (copyArgsP c.regs c.cur.bp nargs nargs).stack
    rw [← hbp, ← hsp']
    exact hstk
  · show GlobRel3 n val s.g (copyArgsP c.regs c.cur.bp nargs nargs).globals
    rw [e2]; exact hrel.glb
  · intro k' cf' hk'
    show (copyArgsP c.regs c.cur.bp nargs nargs).fobjs[ref k']? = _
    rw [e3]; exact hrel.fobjs k' cf' hk'

/-! ### failing CALLs -/

theorem err_call_notCallable (hcode : CodeRel3 M K n E val ref code) (hrel : Rel3 M n val ref s c) {nargs : Nat}
    (hat : At3 (K := K) (n := n) code s.fn is s.ip (.call nargs) f pre post tl) (g : GSt) (h : Spec.St)
    (hsp : nargs + 1 ≤ s.sp) (hfn : E.asFn (s.stk (s.sp - 1 - nargs)) = none) :
    XFail (exec code c) g h (.runtime s!"not callable: {typeName (val (s.stk (s.sp - 1 - nargs)))}") := by
  have hfn' : code.fn c.cur.fnIdx = some f := by rw [hrel.cur.fn]; exact hat.fn
  have hex := exec_call_eq3 code c f s.ip hfn' hrel.cur.ip hat.lt (fetchedOf3 (.call nargs)) hat.fetch rfl
  have hsp' := hrel.sp
  have hc := (rel_callee hrel nargs).2
  have := xfail_execCall_notCallable code f (s.ip : Int) nargs c g h (by omega)
    (by rw [hc]; exact hcode.asFn_none _ hfn)
  rw [hc] at this
  rw [hex]; exact this

theorem err_call_arity (hcode : CodeRel3 M K n E val ref code) (hrel : Rel3 M n val ref s c) {nargs k : Nat}
    {cf : F3.CFn} (hat : At3 (K := K) (n := n) code s.fn is s.ip (.call nargs) f pre post tl) (g : GSt) (h : Spec.St)
    (hsp : nargs + 1 ≤ s.sp) (hfn : E.asFn (s.stk (s.sp - 1 - nargs)) = some k) (hk : M.fns k = some cf)
    (hn : nargs ≠ cf.nparams) :
    XFail (exec code c) g h (.runtime s!"wrong number of arguments: want={cf.nparams}, got={nargs}") := by
  have hfn' : code.fn c.cur.fnIdx = some f := by rw [hrel.cur.fn]; exact hat.fn
  have hex := exec_call_eq3 code c f s.ip hfn' hrel.cur.ip hat.lt (fetchedOf3 (.call nargs)) hat.fetch rfl
  have hsp' := hrel.sp
  have hcallee : getSlot c.regs (c.regs.sp - 1 - nargs) = .cfn (ref k) := by
    rw [(rel_callee hrel nargs).2]; exact hcode.asFn_some _ _ hfn
  rw [hex]
  exact xfail_execCall_arity code f (s.ip : Int) nargs c g h (ref k) k [] (fnOf cf) (ref k)
    (by omega) hcallee (hrel.fobjs k cf hk) (hcode.fns k cf hk) rfl hn

end sim

end Tengo.Proofs.C01BridgeF3

import Tengo.Proofs.C01BridgeF2Stmt
import Tengo.Proofs.C01BridgeCompile
/-!
C01 bridge for fragment F2, layer 3 (compiler bridge): `Compiler.compileFile` of the embedded program emits the
fragment compiler's bytes (`compileFile_fragment2`) — with the `break` / `continue` jumps back-patched by the
model exactly to the targets `F2.compSs` is given as parameters.
-/
set_option linter.unusedVariables false
set_option linter.unusedSimpArgs false
namespace Tengo.Proofs.C01Bridge
open Tengo.Model Tengo.Model.F0 Tengo.Model.Compiler Tengo.Model.Opcodes
open Tengo.Model.Spec (Expr Stmt)

theorem stepI_loops (acc : CState) (nm : String) : (stepI acc nm).loops = acc.loops := rfl

theorem foldl_stepI_loops : ∀ (l : List String) (s : CState), (l.foldl stepI s).loops = s.loops
  | [], s => rfl
  | nm :: l, s => by rw [List.foldl_cons, foldl_stepI_loops l, stepI_loops]

/-- The compiler starts outside every loop. -/
theorem initState_loops (inputs : List String) : (initState inputs).loops = [] := by
  rw [initState_eq, foldl_stepI_loops]; rfl

theorem addJ_of_nil {s : CState} (h : s.loops = []) (bs cs : List Nat) : addJ s bs cs = s := by
  unfold addJ; rw [h]

/-- **Compiler bridge for F2.** For every program `ss` of fragment F2 whose `break` / `continue` are inside loops
(`F2.scopedSs false ss` — otherwise the real compiler reports `break not allowed outside loop`), whose global
slots are below `n`, whose binary tokens are operators, whose literals are numbered in compilation order from 0
(`wfSs2 n 0 ss`), and whose nesting fits the traversal budget of the compiler model: the WHOLE compiler model, run
on the embedded AST (`BranchStmt`s included) with the `n` slots pre-declared as inputs, succeeds, and its main
function is byte for byte the encoding of the fragment compiler's output `F2.compProg ss` followed by SUSPEND; the
constant pool is the fragment's constant table; `MaxSymbols()` of the root table is `n`. In particular the
model's back-patching (`loop.breaks` / `loop.continues`, `changeOperand`) puts into every `break` / `continue`
jump the target the fragment compiler computes directly. -/
theorem compileFile_fragment2 (names : Nat → String) (ctab : Nat → F0.Const) (n : Nat) (ss : F2.Stms)
    (hinj : ∀ i j, i < n → j < n → names i = names j → i = j)
    (hwf : wfSs2 n 0 ss = true) (hsc : F2.scopedSs false ss = true) (hbud : budSs2 ss ≤ Compiler.fuel) :
    compileFile (toAstSs2 names ctab ss) (inputsOf names n) =
      .ok { main := encodeIns (F2.compProg ss) ++ [UInt8.ofNat opSuspend],
            consts := constTable ctab (nlitsSs2 ss),
            maxGlobals := n } := by
  have hinv := initInv_inputs n hinj
  have hl := initState_loops (inputsOf names n)
  have hs := stmtsOK2 (names := names) (ctab := ctab) (n := n) ss Compiler.fuel _ hbud hinv.good
    (by rw [hinv.consts]; exact hwf) (by rw [hl]; exact hsc)
  rw [addJ_of_nil hl] at hs
  obtain ⟨⟨root, ht, hb, hn, hm, hl'⟩, hi, hc⟩ := hinv
  unfold compileFile
  have hrun : (compileStmts Compiler.fuel (toAstSs2 names ctab ss)).run (initState (inputsOf names n)) = _ := hs
  rw [hrun]
  simp only [app_tables, ht, hi, hc, app]
  simp [hm, lits_zero_start, F2.compProg]

end Tengo.Proofs.C01Bridge

import Tengo.Proofs.C01BridgeF3CompPatch
/-!
C01 bridge for fragment F3, compile side, layer 4 (statements without local definitions): for every statement
(list) of F3 that contains no `defl` — the statements of main, and the statements nested inside `if` / loop bodies
of a function — the compiler model, run on the embedded AST in a state whose table stack resolves the names
(`Ctx`), appends exactly the encoding of `F3.compS 0 0 off st` (both targets 0: the `JMP 0` placeholders of
`break` / `continue`), records the placeholder positions in the innermost loop record (`addJ`, `jposS3`) and adds
the statement's value constants to the pool (`stmtOK3`, `stmtsOK3`). New over F2: `setl i e ↦ e; SETL i`,
`ret e ↦ e; RET 1`, `ret0 ↦ RET 0` (inside a function: `globalCtx` of the table stack is false).
-/
set_option linter.unusedVariables false
set_option linter.unusedSimpArgs false
namespace Tengo.Proofs.C01BridgeF3Comp
open Tengo.Model Tengo.Model.Compiler Tengo.Model.Opcodes
open Tengo.Model.Spec (Expr Stmt)
open Tengo.Model.F3 (Ex Exs Stm Stms FnDef Prog Ins)
open Tengo.Proofs.C01Bridge
open Tengo.Proofs.C11Rename (asgBody asgResolve asgRhs asgOp asgEmit isFuncLit compileAssign_succ)

theorem isFuncLit_toAstE3 (names lnames : Nat → String) (ctab : Nat → F0.Const) (e : Ex) :
    isFuncLit (toAstE3 names lnames ctab e) = false := by
  cases e <;> simp [toAstE3, isFuncLit]
  case lit k => cases ctab k <;> simp [litExpr]

@[simp] theorem addJ_assigned (s : CState) (bs cs : List Nat) : (addJ s bs cs).assigned = s.assigned := by
  unfold addJ; split <;> rfl
@[simp] theorem setT_assigned (s : CState) (t : Chain) : (setT s t).assigned = s.assigned := rfl
@[simp] theorem setL_assigned (s : CState) (l : List Loop) : (setL s l).assigned = s.assigned := rfl

theorem asgEmit_local_assign (nm : String) (i id : Nat) :
    asgEmit "Assign" 0 (some ⟨nm, .local, i, id⟩) =
      (do discard (emit opSetLocal [i]); setAssigned ⟨nm, .local, i, id⟩) := by
  unfold asgEmit
  simp
  rfl

theorem asgEmit_local_define (nm : String) (i id : Nat) :
    asgEmit "Define" 0 (some ⟨nm, .local, i, id⟩) =
      (do let b ← localAssigned ⟨nm, .local, i, id⟩
          if !b then discard (emit opDefineLocal [i]) else discard (emit opSetLocal [i])
          setAssigned ⟨nm, .local, i, id⟩) := by
  unfold asgEmit
  simp

attribute [local irreducible] emit curPos changeOperand addConstant enterLoop leaveLoop fork unfork
  emitBinary patchAll setAssigned localAssigned emitGet emitIt define resolve cerr
  Compiler.unsupported compileExpr compileExprs compileKVs compileSelsRev compileStmt compileBlock compileStmts

theorem stmt_ret_some (d : Nat) (x : Expr) :
    compileStmt (d + 1) (.ret (some x)) = (do
      let st ← get
      if globalCtx st.tables then cerr "return not allowed outside function"
      compileExpr d x
      discard (emit opReturn [1])) := by
  rw [compileStmt.eq_11]

theorem stmt_ret_none (d : Nat) :
    compileStmt (d + 1) (.ret none) = (do
      let st ← get
      if globalCtx st.tables then cerr "return not allowed outside function"
      discard (emit opReturn [0])) := by
  rw [compileStmt.eq_10]

section
variable (names lnames : Nat → String) (ctab : Nat → F0.Const) (isFn : Nat → Bool)
  (K : Nat → Compiler.Const) (n m : Nat)

/-- What a statement needs of the compiler state: the names resolve, and inside a function the table stack is
not the global context. -/
structure Ctx (inFn : Bool) (s : CState) : Prop where
  res : ResOK names lnames n m s.tables s.assigned
  fn : inFn = true → globalCtx s.tables = false

variable {names lnames n m}

theorem Ctx.of_eq {inFn : Bool} {s s' : CState} (h : Ctx names lnames n m inFn s)
    (h1 : s'.tables = s.tables) (h2 : s'.assigned = s.assigned) : Ctx names lnames n m inFn s' := by
  refine ⟨?_, ?_⟩
  · rw [h1, h2]; exact h.res
  · rw [h1]; exact h.fn

theorem Ctx.fork {inFn : Bool} {s : CState} (h : Ctx names lnames n m inFn s) :
    Ctx names lnames n m inFn (setT s (blk :: s.tables)) := by
  refine ⟨h.res.fork, ?_⟩
  intro hf
  have := h.fn hf
  simpa [globalCtx, blk] using this

variable (names lnames n m)

def StmtOK3 (inFn : Bool) (st : Stm) : Prop :=
  ∀ (d : Nat) (s : CState), budS3 st ≤ d → Ctx names lnames n m inFn s →
    wfS3 isFn n m inFn (!s.loops.isEmpty) s.consts.size st = true →
    Steps (compileStmt d (toAstS3 names lnames ctab st)) s ()
      (app (addJ s (jposS3 true s.insts.size st) (jposS3 false s.insts.size st))
        (encodeIns3 (F3.compS 0 0 s.insts.size st)) (litsK K s.consts.size (nlitsS3 st)))

def StmtsOK3 (inFn : Bool) (ss : Stms) : Prop :=
  ∀ (d : Nat) (s : CState), budSs3 ss ≤ d → Ctx names lnames n m inFn s →
    wfSs3 isFn n m inFn (!s.loops.isEmpty) s.consts.size ss = true →
    Steps (compileStmts d (toAstSs3 names lnames ctab ss)) s ()
      (app (addJ s (jposSs3 true s.insts.size ss) (jposSs3 false s.insts.size ss))
        (encodeIns3 (F3.compSs 0 0 s.insts.size ss)) (litsK K s.consts.size (nlitsSs3 ss)))

/-- A block, written relative to a base state. -/
def BlockOK3 (inFn : Bool) (ss : Stms) : Prop :=
  ∀ (d : Nat) (s : CState) (pre : List UInt8) (kpre : List Compiler.Const) (off k : Nat),
    budSs3 ss + 1 ≤ d → Ctx names lnames n m inFn s → off = s.insts.size + pre.length →
    k = s.consts.size + kpre.length → wfSs3 isFn n m inFn (!s.loops.isEmpty) k ss = true →
    Steps (compileBlock d (toAstSs3 names lnames ctab ss)) (app s pre kpre) ()
      (app (addJ s (jposSs3 true off ss) (jposSs3 false off ss))
        (pre ++ encodeIns3 (F3.compSs 0 0 off ss)) (kpre ++ litsK K k (nlitsSs3 ss)))

variable {names lnames ctab isFn K n m}

theorem blockOK3_of {inFn : Bool} {ss : Stms} (h : StmtsOK3 names lnames ctab isFn K n m inFn ss) :
    BlockOK3 names lnames ctab isFn K n m inFn ss := by
  intro d s pre kpre off k hd hg hoff hk hw
  subst hoff hk
  cases d with
  | zero => omega
  | succ d =>
    cases ss with
    | nil =>
      simp only [toAstSs3, compileBlock.eq_2]
      exact (Steps.pure () _).to (by simp [F3.compSs, nlitsSs3, litsK_zero, jposSs3, addJ_nil])
    | cons st ss =>
      rw [toAstSs3, compileBlock.eq_3 _ _ (by simp)]
      rw [← toAstSs3]
      refine Steps.bind (steps_fork' _) ?_
      have h1 := h d (setT (app s pre kpre) (blk :: (app s pre kpre).tables)) (by omega)
        ((hg.of_eq (s' := app s pre kpre) rfl rfl).fork) (by simpa using hw)
      refine Steps.bind h1 ?_
      refine (steps_unfork_addJ _ _ _ _ _).to ?_
      rw [addJ_app, app_app]
      simp

/-- Expressions in a statement context. -/
theorem Ctx.expr {inFn : Bool} {s : CState} (hg : Ctx names lnames n m inFn s)
    (hK : ∀ j, isFn j = false → K j = constOf (ctab j)) (e : Ex) (d : Nat) (hd : budE3 e ≤ d)
    (hw : wfE3 isFn n m s.consts.size e = true) :
    Steps (compileExpr d (toAstE3 names lnames ctab e)) s ()
      (app s (encodeIns3 (F3.comp s.insts.size e)) (litsK K s.consts.size (nlitsE3 e))) :=
  exprOK3 hK e d s hd hg.res hw

section
variable (hK : ∀ j, isFn j = false → K j = constOf (ctab j))
include hK

theorem stmtOK3_expr (inFn : Bool) (e : Ex) : StmtOK3 names lnames ctab isFn K n m inFn (.expr e) := by
  intro d s hd hg hw
  cases d with
  | zero => simp [budS3] at hd
  | succ d =>
    simp only [wfS3] at hw
    simp only [budS3] at hd
    simp only [toAstS3, stmt_expr]
    refine Steps.bind (hg.expr hK e d (by omega) hw) ((steps_emitI3 .pop _).to ?_)
    rw [app_app]
    exact app_congr3 (by simp [jposS3, addJ_nil]) (by simp [F3.compS, encodeIns3_append]) (by simp [nlitsS3])

theorem stmtOK3_assign (inFn : Bool) (i : Nat) (e : Ex) :
    StmtOK3 names lnames ctab isFn K n m inFn (.assign i e) := by
  intro d s hd hg hw
  obtain ⟨d, rfl⟩ : ∃ d', d = d' + 1 + 1 := ⟨d - 2, by simp [budS3] at hd; omega⟩
  simp only [wfS3, Bool.and_eq_true, decide_eq_true_eq] at hw
  obtain ⟨hi, hwe⟩ := hw
  simp only [budS3] at hd
  simp only [toAstS3, stmt_assign d _ _ (isFuncLit_toAstE3 names lnames ctab e)]
  obtain ⟨id, k, hres⟩ := hg.res.steps_glob hi
  refine Steps.bind hres ?_
  simp only [Option.isNone_some, Bool.false_eq_true, ↓reduceIte, Option.map_some, asgRhs_assign]
  obtain ⟨d, rfl⟩ : ∃ d', d = d' + 1 := ⟨d - 1, by have := budE3_pos e; omega⟩
  rw [asgOp_assign, compileSelsRev.eq_2, asgEmit_global]
  refine Steps.bind (hg.expr hK e _ (by omega) hwe) ?_
  refine Steps.bind (Steps.pure () _) ?_
  refine (steps_emitI3 (.setg i) _).to ?_
  rw [app_app]
  exact app_congr3 (by simp [jposS3, addJ_nil]) (by simp [F3.compS, encodeIns3_append]) (by simp [nlitsS3])

theorem stmtOK3_setl (inFn : Bool) (i : Nat) (e : Ex) :
    StmtOK3 names lnames ctab isFn K n m inFn (.setl i e) := by
  intro d s hd hg hw
  obtain ⟨d, rfl⟩ : ∃ d', d = d' + 1 + 1 := ⟨d - 2, by simp [budS3] at hd; omega⟩
  simp only [wfS3, Bool.and_eq_true, decide_eq_true_eq] at hw
  obtain ⟨hi, hwe⟩ := hw
  simp only [budS3] at hd
  simp only [toAstS3, stmt_assign d _ _ (isFuncLit_toAstE3 names lnames ctab e)]
  obtain ⟨id, k, hid1, hid2, hres⟩ := hg.res.steps_loc hi
  refine Steps.bind hres ?_
  simp only [Option.isNone_some, Bool.false_eq_true, ↓reduceIte, Option.map_some, asgRhs_assign]
  obtain ⟨d, rfl⟩ : ∃ d', d = d' + 1 := ⟨d - 1, by have := budE3_pos e; omega⟩
  rw [asgOp_assign, compileSelsRev.eq_2, asgEmit_local_assign]
  refine Steps.bind (hg.expr hK e _ (by omega) hwe) ?_
  refine Steps.bind (Steps.pure () _) ?_
  refine Steps.bind (steps_emitI3 (.setl i) _) ?_
  refine (steps_setAssigned_same _ _ (by simpa using hid1) (by simpa using hid2)).to ?_
  rw [app_app]
  exact app_congr3 (by simp [jposS3, addJ_nil]) (by simp [F3.compS, encodeIns3_append]) (by simp [nlitsS3])

theorem stmtOK3_ret (e : Ex) : StmtOK3 names lnames ctab isFn K n m true (.ret e) := by
  intro d s hd hg hw
  cases d with
  | zero => simp [budS3] at hd
  | succ d =>
    simp only [wfS3, Bool.true_and] at hw
    simp only [budS3] at hd
    have hgc := hg.fn rfl
    simp only [toAstS3, stmt_ret_some]
    refine Steps.bind (steps_get s) ?_
    simp only [hgc, Bool.false_eq_true, ↓reduceIte]
    refine Steps.bind (hg.expr hK e d (by omega) hw) ((steps_emitI3 (.ret true) _).to ?_)
    rw [app_app]
    exact app_congr3 (by simp [jposS3, addJ_nil]) (by simp [F3.compS, encodeIns3_append]) (by simp [nlitsS3])

end

theorem stmtOK3_ret0 : StmtOK3 names lnames ctab isFn K n m true .ret0 := by
  intro d s hd hg hw
  cases d with
  | zero => simp [budS3] at hd
  | succ d =>
    have hgc := hg.fn rfl
    simp only [toAstS3, stmt_ret_none]
    refine Steps.bind (steps_get s) ?_
    simp only [hgc, Bool.false_eq_true, ↓reduceIte]
    refine (steps_emitI3 (.ret false) _).to ?_
    exact app_congr3 (by simp [jposS3, addJ_nil]) (by simp [F3.compS]) (by simp [nlitsS3, litsK_zero])

theorem stmtOK3_brk (inFn : Bool) : StmtOK3 names lnames ctab isFn K n m inFn .brk := by
  intro d s hd hg hw
  cases d with
  | zero => simp [budS3] at hd
  | succ d =>
    simp only [wfS3] at hw
    obtain ⟨cur, rest, hl⟩ := loops_of_scoped hw
    simp only [toAstS3, stmt_break]
    refine Steps.bind (steps_get s) ?_
    simp only [hl]
    refine Steps.bind (steps_emit opJump [0] s) ?_
    refine (steps_modify _ _).to ?_
    obtain ⟨consts, tables, nextId, assigned, insts, saved, loops⟩ := s
    simp only at hl
    subst hl
    simp [addJ, app, jposS3, F3.compS, nlitsS3, litsK_zero, encodeIns3_single, enc_jmp3]

theorem stmtOK3_cont (inFn : Bool) : StmtOK3 names lnames ctab isFn K n m inFn .cont := by
  intro d s hd hg hw
  cases d with
  | zero => simp [budS3] at hd
  | succ d =>
    simp only [wfS3] at hw
    obtain ⟨cur, rest, hl⟩ := loops_of_scoped hw
    simp only [toAstS3, stmt_continue]
    refine Steps.bind (steps_get s) ?_
    simp only [hl]
    refine Steps.bind (steps_emit opJump [0] s) ?_
    refine (steps_modify _ _).to ?_
    obtain ⟨consts, tables, nextId, assigned, insts, saved, loops⟩ := s
    simp only at hl
    subst hl
    simp [addJ, app, jposS3, F3.compS, nlitsS3, litsK_zero, encodeIns3_single, enc_jmp3]

section
variable (hK : ∀ j, isFn j = false → K j = constOf (ctab j))
include hK

theorem stmtOK3_ifs (inFn : Bool) (c : Ex) (body : Stms) (hb : BlockOK3 names lnames ctab isFn K n m inFn body) :
    StmtOK3 names lnames ctab isFn K n m inFn (.ifs c body) := by
  intro d s hd hg hw
  cases d with
  | zero => simp [budS3] at hd
  | succ d =>
    simp only [wfS3, Bool.and_eq_true] at hw
    obtain ⟨hwc, hwb⟩ := hw
    simp only [budS3] at hd
    simp only [toAstS3, stmt_ifs]
    refine Steps.bind (steps_fork' s) ?_
    have hg0 := hg.fork
    refine Steps.bind (hg0.expr hK c d (by omega) (by simpa using hwc)) ?_
    refine Steps.bind (steps_emit_at _ _ _ opJumpFalsy [0]) ?_
    refine Steps.bind (hb d _ _ _ (s.insts.size + F3.esize c + 5) (s.consts.size + nlitsE3 c) (by omega) hg0
      (by simp [encodeIns3_length, F3.csize_comp, e5_jmpf3]; omega) (by simp [litsK_length])
      (by simpa using hwb)) ?_
    refine Steps.bind (steps_curPos_at _ _ _) ?_
    refine Steps.bind (steps_patch_at _ (encodeIns3 (F3.comp s.insts.size c)) opJumpFalsy 0 _
      (encodeIns3 (F3.compSs 0 0 (s.insts.size + F3.esize c + 5) body)) _ _ _ rfl (by decide)
      (by simp [List.append_assoc]) (by simp)) ?_
    refine (steps_unfork_addJ s _ _ _ _).to ?_
    refine app_congr3 ?_ ?_ ?_
    · simp [jposS3]
    · simp [F3.compS, F3.csize_comp, F3.csize_compSs, encodeIns3_append, encodeIns3_cons, List.append_assoc,
        encodeIns3_length, e5_jmpf3, enc_jmpf3, Nat.add_assoc, encI3_length, F3.Ins.size]
    · simp [nlitsS3, litsK_add, List.append_assoc, Nat.add_assoc]

theorem stmtOK3_ifelse (inFn : Bool) (c : Ex) (body els : Stms)
    (hb : BlockOK3 names lnames ctab isFn K n m inFn body) (he : BlockOK3 names lnames ctab isFn K n m inFn els) :
    StmtOK3 names lnames ctab isFn K n m inFn (.ifelse c body els) := by
  intro d s hd hg hw
  obtain ⟨d, rfl⟩ : ∃ d', d = d' + 1 + 1 := ⟨d - 2, by simp [budS3] at hd; omega⟩
  simp only [wfS3, Bool.and_eq_true] at hw
  obtain ⟨⟨hwc, hwb⟩, hwe⟩ := hw
  simp only [budS3] at hd
  simp only [toAstS3, stmt_ifelse]
  refine Steps.bind (steps_fork' s) ?_
  have hg0 := hg.fork
  refine Steps.bind (hg0.expr hK c (d + 1) (by omega) (by simpa using hwc)) ?_
  refine Steps.bind (steps_emit_at _ _ _ opJumpFalsy [0]) ?_
  refine Steps.bind (hb (d + 1) _ _ _ (s.insts.size + F3.esize c + 5) (s.consts.size + nlitsE3 c) (by omega) hg0
    (by simp [encodeIns3_length, F3.csize_comp, e5_jmpf3]; omega) (by simp [litsK_length])
    (by simpa using hwb)) ?_
  refine Steps.bind (steps_emit_at _ _ _ opJump [0]) ?_
  refine Steps.bind (steps_curPos_at _ _ _) ?_
  refine Steps.bind (steps_patch_at _ (encodeIns3 (F3.comp s.insts.size c)) opJumpFalsy 0 _
    (encodeIns3 (F3.compSs 0 0 (s.insts.size + F3.esize c + 5) body) ++ encodeInstr opJump [0]) _ _ _ rfl
    (by decide) (by simp [List.append_assoc]) (by simp)) ?_
  refine Steps.bind (he d _ _ _ (s.insts.size + F3.esize c + 5 + F3.sssize body + 5)
    (s.consts.size + nlitsE3 c + nlitsSs3 body) (by omega) (hg0.of_eq (by simp) (by simp))
    (by simp [encodeIns3_length, F3.csize_comp, F3.csize_compSs, e5_jmpf3, e5_jmp3]; omega)
    (by simp [litsK_length]; omega) (by simpa using hwe)) ?_
  refine Steps.bind (steps_curPos_at _ _ _) ?_
  refine Steps.bind (steps_patch_at _ (encodeIns3 (F3.comp s.insts.size c) ++ encodeInstr opJumpFalsy
      [s.insts.size + F3.esize c + 5 + F3.sssize body + 5] ++
      encodeIns3 (F3.compSs 0 0 (s.insts.size + F3.esize c + 5) body))
    opJump 0 _ (encodeIns3 (F3.compSs 0 0 (s.insts.size + F3.esize c + 5 + F3.sssize body + 5) els)) _ _ _ rfl
    (by decide) ?_ ?_) ?_
  · simp [List.append_assoc, encodeIns3_length, F3.csize_comp, F3.csize_compSs, e5_jmpf3, e5_jmp3, Nat.add_assoc]
  · simp [List.append_assoc, encodeIns3_length, F3.csize_comp, F3.csize_compSs, e5_jmpf3, e5_jmp3]
  rw [addJ_addJ]
  refine (steps_unfork_addJ s _ _ _ _).to ?_
  refine app_congr3 ?_ ?_ ?_
  · simp [jposS3]
  · simp [F3.compS, F3.csize_comp, F3.csize_compSs, encodeIns3_append, encodeIns3_cons, List.append_assoc,
      encodeIns3_length, e5_jmpf3, e5_jmp3, enc_jmpf3, enc_jmp3, Nat.add_assoc, encI3_length, F3.Ins.size]
  · simp [nlitsS3, litsK_add, List.append_assoc, Nat.add_assoc]

theorem stmtOK3_whil (inFn : Bool) (c : Ex) (body : Stms)
    (hb : BlockOK3 names lnames ctab isFn K n m inFn body) :
    StmtOK3 names lnames ctab isFn K n m inFn (.whil c body) := by
  intro d s hd hg hw
  cases d with
  | zero => simp [budS3] at hd
  | succ d =>
    simp only [wfS3, Bool.and_eq_true] at hw
    obtain ⟨hwc, hwb⟩ := hw
    simp only [budS3] at hd
    simp only [toAstS3, stmt_while]
    refine Steps.bind (steps_fork' s) ?_
    have hg0 := hg.fork
    refine Steps.bind (steps_curPos _) ?_
    refine Steps.bind (hg0.expr hK c d (by omega) (by simpa using hwc)) ?_
    refine Steps.bind (steps_emit_at _ _ _ opJumpFalsy [0]) ?_
    refine Steps.bind (steps_enterLoop_at _ _ _) ?_
    refine Steps.bind (hb d _ _ _ (s.insts.size + F3.esize c + 5) (s.consts.size + nlitsE3 c) (by omega)
      (hg0.of_eq (by simp) (by simp))
      (by simp [encodeIns3_length, F3.csize_comp, e5_jmpf3]; omega) (by simp [litsK_length])
      (by simpa using hwb)) ?_
    refine Steps.bind (steps_leaveLoop_addJ _ _ _ _ _) ?_
    refine Steps.bind (steps_curPos_at _ _ _) ?_
    refine Steps.bind (Steps.discard (steps_emit_at _ _ _ opJump [s.insts.size])) ?_
    refine Steps.bind (steps_curPos_at _ _ _) ?_
    refine Steps.bind (steps_patch_at _ (encodeIns3 (F3.comp s.insts.size c)) opJumpFalsy 0 _
      (encodeIns3 (F3.compSs 0 0 (s.insts.size + F3.esize c + 5) body) ++ encodeInstr opJump [s.insts.size])
      _ _ _ rfl (by decide) (by simp [List.append_assoc]) (by simp)) ?_
    refine Steps.bind (patch_loop3 body true _ _ _ _ _ (s.insts.size + F3.esize c + 5) 0 0 _
      (by simp [encodeIns3_length, F3.csize_comp, e5_jmpf3])) ?_
    refine Steps.bind (patch_loop3 body false _ _ _ _ _ (s.insts.size + F3.esize c + 5) _ 0 _
      (by simp [encodeIns3_length, F3.csize_comp, e5_jmpf3])) ?_
    refine (steps_unfork_forked s _ _).to ?_
    refine app_congr3 ?_ ?_ ?_
    · simp [jposS3, addJ_nil]
    · simp [F3.compS, F3.csize_comp, F3.csize_compSs, encodeIns3_append, encodeIns3_cons, List.append_assoc,
        encodeIns3_length, e5_jmpf3, e5_jmp3, enc_jmpf3, enc_jmp3, Nat.add_assoc, encI3_length, F3.Ins.size]
    · simp [nlitsS3, litsK_add, List.append_assoc, Nat.add_assoc]

end

theorem stmtOK3_forever (inFn : Bool) (body : Stms) (hb : BlockOK3 names lnames ctab isFn K n m inFn body) :
    StmtOK3 names lnames ctab isFn K n m inFn (.forever body) := by
  intro d s hd hg hw
  cases d with
  | zero => simp [budS3] at hd
  | succ d =>
    simp only [wfS3] at hw
    simp only [budS3] at hd
    simp only [toAstS3, stmt_forever]
    refine Steps.bind (steps_fork' s) ?_
    have hg0 := hg.fork
    refine Steps.bind (steps_curPos _) ?_
    refine Steps.bind (steps_enterLoop0 _) ?_
    refine Steps.bind (hb d _ _ _ s.insts.size s.consts.size (by omega)
      (hg0.of_eq (by simp) (by simp)) (by simp) (by simp) (by simpa using hw)) ?_
    refine Steps.bind (steps_leaveLoop_addJ _ _ _ _ _) ?_
    refine Steps.bind (steps_curPos_at _ _ _) ?_
    refine Steps.bind (Steps.discard (steps_emit_at _ _ _ opJump [s.insts.size])) ?_
    refine Steps.bind (steps_curPos_at _ _ _) ?_
    refine Steps.bind (patchSs3 body true _ [] _ _ s.insts.size 0 0 _ (by simp)) ?_
    refine Steps.bind (patchSs3 body false _ [] _ _ s.insts.size _ 0 _ (by simp)) ?_
    refine (steps_unfork_forked s _ _).to ?_
    refine app_congr3 ?_ ?_ ?_
    · simp [jposS3, addJ_nil]
    · simp [F3.compS, F3.csize_compSs, encodeIns3_append, encodeIns3_cons, enc_jmp3, encodeIns3_length, e5_jmp3,
        Nat.add_assoc, encI3_length, F3.Ins.size]
    · simp [nlitsS3]

section
variable (hK : ∀ j, isFn j = false → K j = constOf (ctab j))
include hK

theorem stmtOK3_for3 (inFn : Bool) (c : Ex) (body : Stms) (post : Stm)
    (hb : BlockOK3 names lnames ctab isFn K n m inFn body)
    (hp : StmtOK3 names lnames ctab isFn K n m inFn post) :
    StmtOK3 names lnames ctab isFn K n m inFn (.for3 c body post) := by
  intro d s hd hg hw
  cases d with
  | zero => simp [budS3] at hd
  | succ d =>
    simp only [wfS3, Bool.and_eq_true] at hw
    obtain ⟨⟨⟨hwc, hwb⟩, _⟩, hwp⟩ := hw
    simp only [budS3] at hd
    simp only [toAstS3, stmt_for3]
    refine Steps.bind (steps_fork' s) ?_
    have hg0 := hg.fork
    refine Steps.bind (steps_curPos _) ?_
    refine Steps.bind (hg0.expr hK c d (by omega) (by simpa using hwc)) ?_
    refine Steps.bind (steps_emit_at _ _ _ opJumpFalsy [0]) ?_
    refine Steps.bind (steps_enterLoop_at _ _ _) ?_
    refine Steps.bind (hb d _ _ _ (s.insts.size + F3.esize c + 5) (s.consts.size + nlitsE3 c) (by omega)
      (hg0.of_eq (by simp) (by simp))
      (by simp [encodeIns3_length, F3.csize_comp, e5_jmpf3]; omega) (by simp [litsK_length])
      (by simpa using hwb)) ?_
    refine Steps.bind (steps_leaveLoop_addJ _ _ _ _ _) ?_
    refine Steps.bind (steps_curPos_at _ _ _) ?_
    refine Steps.bind (hp d _ (by omega) (hg0.of_eq (by simp) (by simp))
      (by simpa [litsK_length, Nat.add_assoc] using hwp)) ?_
    rw [addJ_app, app_app]
    refine Steps.bind (Steps.discard (steps_emit_at _ _ _ opJump [s.insts.size])) ?_
    refine Steps.bind (steps_curPos_at _ _ _) ?_
    refine Steps.bind (steps_patch_at _ (encodeIns3 (F3.comp s.insts.size c)) opJumpFalsy 0 _
      (encodeIns3 (F3.compSs 0 0 (s.insts.size + F3.esize c + 5) body) ++
        (encodeIns3 (F3.compS 0 0 (s.insts.size + F3.esize c + 5 + F3.sssize body) post) ++
          encodeInstr opJump [s.insts.size])) _ _ _ rfl
      (by decide)
      (by simp [List.append_assoc, encodeIns3_length, F3.csize_comp, F3.csize_compSs, e5_jmpf3, Nat.add_assoc])
      (by simp)) ?_
    refine Steps.bind (patch_loop3 body true _ _ _ _ _ (s.insts.size + F3.esize c + 5) 0 0 _
      (by simp [encodeIns3_length, F3.csize_comp, e5_jmpf3])) ?_
    refine Steps.bind (patch_loop3 body false _ _ _ _ _ (s.insts.size + F3.esize c + 5) _ 0 _
      (by simp [encodeIns3_length, F3.csize_comp, e5_jmpf3])) ?_
    refine (steps_unfork_addJ s _ _ _ _).to ?_
    refine app_congr3 ?_ ?_ ?_
    · simp [jposS3, encodeIns3_length, F3.csize_comp, F3.csize_compSs, e5_jmpf3, Nat.add_assoc]
    · simp [F3.compS, F3.csize_comp, F3.csize_compSs, F3.csize_compS, encodeIns3_append, encodeIns3_cons,
        List.append_assoc, encodeIns3_length, e5_jmpf3, e5_jmp3, enc_jmpf3, enc_jmp3, Nat.add_assoc, encI3_length,
        F3.Ins.size]
    · simp [nlitsS3, litsK_add, litsK_length, List.append_assoc, Nat.add_assoc]

end

theorem stmtsOK3_nil (inFn : Bool) : StmtsOK3 names lnames ctab isFn K n m inFn .nil := by
  intro d s hd hg hw
  cases d with
  | zero => simp [budSs3] at hd
  | succ d =>
    simp only [toAstSs3, compileStmts.eq_2]
    exact (Steps.pure () _).to (by simp [F3.compSs, nlitsSs3, litsK_zero, jposSs3, addJ_nil])

theorem stmtsOK3_cons (inFn : Bool) (st : Stm) (ss : Stms) (h1 : StmtOK3 names lnames ctab isFn K n m inFn st)
    (h2 : StmtsOK3 names lnames ctab isFn K n m inFn ss) :
    StmtsOK3 names lnames ctab isFn K n m inFn (.cons st ss) := by
  intro d s hd hg hw
  cases d with
  | zero => simp [budSs3] at hd
  | succ d =>
    simp only [wfSs3, Bool.and_eq_true] at hw
    obtain ⟨hw1, hw2⟩ := hw
    simp only [budSs3] at hd
    simp only [toAstSs3, compileStmts.eq_3]
    refine Steps.bind (h1 d s (by omega) hg hw1) ?_
    refine (h2 d _ (by omega) (hg.of_eq (by simp) (by simp)) (by simpa [litsK_length] using hw2)).to ?_
    rw [addJ_app, addJ_addJ, app_app]
    refine app_congr3 ?_ ?_ ?_
    · simp [jposSs3, encodeIns3_length, F3.csize_compS]
    · simp [F3.compSs, F3.csize_compS, encodeIns3_append, encodeIns3_length]
    · simp [nlitsSs3, litsK_add, litsK_length]

/-- `wfS3` with `inFn = false` excludes `return`; with a `defl` it is false. -/
theorem stmtOK3_absurd (inFn : Bool) (st : Stm)
    (h : ∀ inl k, wfS3 isFn n m inFn inl k st = false) : StmtOK3 names lnames ctab isFn K n m inFn st := by
  intro d s hd hg hw
  rw [h] at hw
  cases hw

mutual
  theorem stmtOK3 (hK : ∀ j, isFn j = false → K j = constOf (ctab j)) (inFn : Bool) :
      ∀ st : Stm, StmtOK3 names lnames ctab isFn K n m inFn st
    | .expr e => stmtOK3_expr hK inFn e
    | .assign i e => stmtOK3_assign hK inFn i e
    | .defl i e => stmtOK3_absurd inFn _ (fun _ _ => by simp only [wfS3])
    | .setl i e => stmtOK3_setl hK inFn i e
    | .ifs c body => stmtOK3_ifs hK inFn c body (blockOK3_of (stmtsOK3 hK inFn body))
    | .ifelse c body els =>
      stmtOK3_ifelse hK inFn c body els (blockOK3_of (stmtsOK3 hK inFn body)) (blockOK3_of (stmtsOK3 hK inFn els))
    | .whil c body => stmtOK3_whil hK inFn c body (blockOK3_of (stmtsOK3 hK inFn body))
    | .forever body => stmtOK3_forever inFn body (blockOK3_of (stmtsOK3 hK inFn body))
    | .for3 c body post =>
      stmtOK3_for3 hK inFn c body post (blockOK3_of (stmtsOK3 hK inFn body)) (stmtOK3 hK inFn post)
    | .brk => stmtOK3_brk inFn
    | .cont => stmtOK3_cont inFn
    | .ret e => by
      cases inFn with
      | true => exact stmtOK3_ret hK e
      | false => exact stmtOK3_absurd false _ (fun _ _ => by simp only [wfS3, Bool.false_and])
    | .ret0 => by
      cases inFn with
      | true => exact stmtOK3_ret0
      | false => exact stmtOK3_absurd false _ (fun _ _ => by simp only [wfS3])
  theorem stmtsOK3 (hK : ∀ j, isFn j = false → K j = constOf (ctab j)) (inFn : Bool) :
      ∀ ss : Stms, StmtsOK3 names lnames ctab isFn K n m inFn ss
    | .nil => stmtsOK3_nil inFn
    | .cons st ss => stmtsOK3_cons inFn st ss (stmtOK3 hK inFn st) (stmtsOK3 hK inFn ss)
end

end

end Tengo.Proofs.C01BridgeF3Comp

import Tengo.Proofs.C19EnumEval
/-!
C19, enum module, layer 2: statement-level steps of the reference interpreter (blocks, statement lists,
`return e`, `if c { … }` without else, `!e`, `a || b`, builtin type predicates, one-parameter calls,
`declare` inside functions) and the guard `is_enumerable(x)` / `is_array_like(x)`.
-/
set_option linter.unusedVariables false
set_option linter.unusedSimpArgs false
namespace Tengo.Proofs.C19Enum
open Tengo.Model Tengo.Model.Spec

def pushCtx (ctx : Ctx) : Ctx := { ctx with env := { vars := [] } :: ctx.env }

theorem execBlock_cons (F : Nat) (ctx : Ctx) (s : Stmt) (ss : List Stmt) (tag : Nat) :
    execBlock (F + 1) ctx (s :: ss) tag = (do
      let (fl, _) ← execStmts F { ctx with env := { vars := [] } :: ctx.env, path := tag :: ctx.path } (s :: ss) 0
      pure fl) := by
  simp only [execBlock]

theorem execStmts_cons (F : Nat) (ctx : Ctx) (s : Stmt) (ss : List Stmt) (i : Nat) :
    execStmts (F + 1) ctx (s :: ss) i = (do
      let (fl, env') ← execStmt F { ctx with path := i :: ctx.path } s
      match fl with
      | .normal => execStmts F { ctx with env := env' } ss (i + 1)
      | f => pure (f, env')) := by
  simp only [execStmts]; rfl

theorem execStmts_nil (F : Nat) (ctx : Ctx) (i : Nat) :
    execStmts (F + 1) ctx [] i = pure (.normal, ctx.env) := by
  simp only [execStmts]

theorem execStmt_ret (F : Nat) (ctx : Ctx) (e : Expr) :
    execStmt (F + 1) ctx (.ret (some e)) = (do let v ← evalExpr F ctx e; pure (Flow.ret v, ctx.env)) := by
  simp only [execStmt]

theorem execStmt_if (F : Nat) (ctx : Ctx) (c : Expr) (body : List Stmt) :
    execStmt (F + 1) ctx (.ifs none c body none) = (do
      let cv ← evalExpr F (pushCtx ctx) c
      if !(← Spec.liftM (isFalsy cv)) then do
        let fl ← execBlock F (pushCtx ctx) body 1
        pure (fl, ctx.env)
      else pure (.normal, ctx.env)) := by
  simp only [execStmt, pushCtx, pure_bind]

theorem ev_not (F : Nat) (ctx : Ctx) (x : Expr) :
    evalExpr (F + 1) ctx (.un "Not" x) = (do
      let a ← evalExpr F ctx x
      pure (.bool (← Spec.liftM (isFalsy a)))) := by
  simp only [evalExpr]

theorem ev_lor (F : Nat) (ctx : Ctx) (l r : Expr) :
    evalExpr (F + 1) ctx (.bin "LOr" l r) = (do
      let a ← evalExpr F ctx l
      if ← Spec.liftM (isFalsy a) then evalExpr F ctx r else pure a) := by
  simp only [evalExpr]; rfl

/-! ### run facts -/

theorem not_run {F : Nat} {ctx : Ctx} {x : Expr} {gs : GSt} {σ σ' : St} {a : Value}
    (hx : evalExpr F ctx x gs σ = .ok ((a, gs), σ')) (ha : Scalar a = true) :
    evalExpr (F + 1) ctx (.un "Not" x) gs σ = .ok ((.bool (falsy a), gs), σ') := by
  rw [ev_not, em_bind_ok hx, em_bind_ok (liftM_ok (isFalsy_run ha σ'))]
  rfl

theorem lor_run {F : Nat} {ctx : Ctx} {l r : Expr} {gs : GSt} {σ : St} {a b : Bool}
    (hl : evalExpr F ctx l gs σ = .ok ((.bool a, gs), σ)) (hr : evalExpr F ctx r gs σ = .ok ((.bool b, gs), σ)) :
    evalExpr (F + 1) ctx (lor l r) gs σ = .ok ((.bool (a || b), gs), σ) := by
  unfold lor
  rw [ev_lor, em_bind_ok hl, em_bind_ok (liftM_ok (isFalsy_run (v := .bool a) rfl σ))]
  cases a
  · simpa [falsy] using hr
  · rfl

theorem callBuiltin_pred {name : String} {v : Value} {b : Bool} (h : isPred name v = some b) :
    callBuiltin name [v] = pure (.bool b) := by
  unfold callBuiltin
  simp only [List.headD_cons, h]
  rfl

/-- `pred(x)` for a builtin type predicate that is not shadowed. -/
theorem pred_call_run {F : Nat} {ctx : Ctx} {name x : String} {xv : Value} {b : Bool} {gs : GSt} {σ : St}
    (hn : lookupVar ctx.env name = none) (hb : builtinNames.contains name = true)
    (hx : Var σ ctx.env x xv) (hp : isPred name xv = some b) :
    evalExpr (F + 3) ctx (call1 name x) gs σ = .ok ((.bool b, gs), σ) := by
  unfold call1
  rw [call_builtin_run (ev_builtin_ident hn hb (F + 1) gs σ) (ev_args1 hx F gs), callBuiltin_pred hp]
  rfl

def isEnum : Value → Bool
  | .arr _ | .imarr _ | .map _ | .immap _ => true
  | _ => false

def isArrLike : Value → Bool
  | .arr _ | .imarr _ => true
  | _ => false

def enter1 (env : Env) (ctx : Ctx) (p : String) (σ : St) : Ctx :=
  { env := { vars := [(p, σ.heap.size)], isFn := true } :: env, callDepth := ctx.callDepth + 1, path := [] }

theorem callClosure1 {F : Nat} {ctx : Ctx} {body : List Stmt} {env : Env} {p : String} {a : Value}
    (gs : GSt) (σ : St) (hd : ctx.callDepth < 900) :
    callClosure (F + 1) ctx ⟨[p], false, body, env⟩ [a] gs σ =
      (do match ← execBlock F (enter1 env ctx p σ) body 0 with
          | .ret v => pure v
          | _ => pure Value.undef : EM Value) gs (pushSt σ (.cell a false)) := by
  simp only [callClosure, Bool.false_eq_true, if_false, List.length_cons, List.length_nil]
  rw [em_bind_ok (em_pure _ _ _)]
  have hd' : ¬ (ctx.callDepth ≥ 900) := by omega
  simp only [List.length_cons, List.length_nil, bne_self_eq_false, Bool.false_eq_true, if_false, hd',
    List.zip_cons_cons, List.zip_nil_right, List.forIn_cons, List.forIn_nil]
  simp only [bind_assoc, pure_bind]
  rw [em_bind_ok (liftM_ok (alloc_run _ _))]
  simp only [List.filter_nil]
  rfl

/-- A block that is `return e`. -/
theorem block_ret_expr {F tag : Nat} {ctx : Ctx} {e : Expr} {gs : GSt} {σ σ' : St} {val : Value}
    (h : evalExpr F { env := { vars := [] } :: ctx.env, callDepth := ctx.callDepth, path := 0 :: tag :: ctx.path } e gs σ
      = .ok ((val, gs), σ')) :
    execBlock (F + 3) ctx [.ret (some e)] tag gs σ = .ok ((.ret val, gs), σ') := by
  rw [execBlock_cons, execStmts_cons, execStmt_ret]
  simp only [bind_assoc, pure_bind]
  rw [em_bind_ok h]
  rfl

/-- The module-level helper closures: their own environment leaves the type predicates to the builtins. -/
def NoShadow (env : Env) : Prop :=
  ∀ n ∈ ["is_array", "is_map", "is_immutable_array", "is_immutable_map"], lookupVar env n = none

theorem var_x_enter1 (env : Env) (ctx : Ctx) (σ : St) (a : Value) (path : List Nat) :
    Var (pushSt σ (.cell a false))
      ({ vars := [] } :: (enter1 env ctx "x" σ).env) "x" a :=
  ⟨σ.heap.size, false, by simp [enter1, lookupVar_cons, List.lookup], pushSt_new σ _⟩

theorem noshadow_enter1 {env : Env} (h : NoShadow env) (ctx : Ctx) (σ : St) {n : String}
    (hn : n ∈ ["is_array", "is_map", "is_immutable_array", "is_immutable_map"]) :
    lookupVar ({ vars := [] } :: (enter1 env ctx "x" σ).env) n = none := by
  have := h n hn
  simp only [List.mem_cons, List.not_mem_nil, or_false] at hn
  rcases hn with rfl | rfl | rfl | rfl <;> simpa [enter1, lookupVar_cons, List.lookup] using this

def isEnumerableBody : List Stmt := match isEnumerableFn with | .func _ _ b => b | _ => []
def isArrayLikeBody : List Stmt := match isArrayLikeFn with | .func _ _ b => b | _ => []

theorem isEnumerableFn_eq : isEnumerableFn = .func false ["x"] isEnumerableBody := rfl
theorem isArrayLikeFn_eq : isArrayLikeFn = .func false ["x"] isArrayLikeBody := rfl

def isArrV : Value → Bool | .arr _ => true | _ => false
def isMapV : Value → Bool | .map _ => true | _ => false
def isImArrV : Value → Bool | .imarr _ => true | _ => false
def isImMapV : Value → Bool | .immap _ => true | _ => false

theorem isPred_is_array (v : Value) : isPred "is_array" v = some (isArrV v) := by cases v <;> rfl
theorem isPred_is_map (v : Value) : isPred "is_map" v = some (isMapV v) := by cases v <;> rfl
theorem isPred_is_imarr (v : Value) : isPred "is_immutable_array" v = some (isImArrV v) := by cases v <;> rfl
theorem isPred_is_immap (v : Value) : isPred "is_immutable_map" v = some (isImMapV v) := by cases v <;> rfl

/-- Calling the module's `is_enumerable` closure. -/
theorem isEnumerable_call {F : Nat} {ctx : Ctx} {env : Env} (hns : NoShadow env) (xv : Value) (gs : GSt) (σ : St)
    (hd : ctx.callDepth < 900) :
    callClosure (F + 10) ctx ⟨["x"], false, isEnumerableBody, env⟩ [xv] gs σ =
      .ok ((.bool (isEnum xv), gs), pushSt σ (.cell xv false)) := by
  rw [callClosure1 gs σ hd]
  have hx := var_x_enter1 env ctx σ xv
  have hA := pred_call_run (F := F) (gs := gs) (ctx := { env := { vars := [] } :: (enter1 env ctx "x" σ).env, callDepth := (enter1 env ctx "x" σ).callDepth, path := 0 :: 0 :: (enter1 env ctx "x" σ).path })
    (noshadow_enter1 hns ctx σ (n := "is_array") (by simp)) (by decide) (hx []) (isPred_is_array xv)
  have hB := pred_call_run (F := F) (gs := gs) (ctx := { env := { vars := [] } :: (enter1 env ctx "x" σ).env, callDepth := (enter1 env ctx "x" σ).callDepth, path := 0 :: 0 :: (enter1 env ctx "x" σ).path })
    (noshadow_enter1 hns ctx σ (n := "is_map") (by simp)) (by decide) (hx []) (isPred_is_map xv)
  have hC := pred_call_run (F := F + 1) (gs := gs) (ctx := { env := { vars := [] } :: (enter1 env ctx "x" σ).env, callDepth := (enter1 env ctx "x" σ).callDepth, path := 0 :: 0 :: (enter1 env ctx "x" σ).path })
    (noshadow_enter1 hns ctx σ (n := "is_immutable_array") (by simp)) (by decide) (hx []) (isPred_is_imarr xv)
  have hD := pred_call_run (F := F + 2) (gs := gs) (ctx := { env := { vars := [] } :: (enter1 env ctx "x" σ).env, callDepth := (enter1 env ctx "x" σ).callDepth, path := 0 :: 0 :: (enter1 env ctx "x" σ).path })
    (noshadow_enter1 hns ctx σ (n := "is_immutable_map") (by simp)) (by decide) (hx []) (isPred_is_immap xv)
  have h3 := lor_run (lor_run (lor_run hA hB) hC) hD
  have hblk := block_ret_expr (tag := 0) (ctx := enter1 env ctx "x" σ) h3
  show (execBlock (F + 6 + 3) (enter1 env ctx "x" σ) isEnumerableBody 0 >>= _) gs _ = _
  rw [show isEnumerableBody = [Stmt.ret (some (lor (lor (lor (call1 "is_array" "x") (call1 "is_map" "x"))
    (call1 "is_immutable_array" "x")) (call1 "is_immutable_map" "x")))] from rfl, em_bind_ok hblk]
  cases xv <;> rfl

/-- `is_enumerable` is bound (in `E`, heap `σ`) to the module's helper closure. -/
def IsEnumBound (σ : St) (E : Env) : Prop :=
  ∃ re env0, Var σ E "is_enumerable" (.fn re) ∧
    σ.heap[re]? = some (.clos ⟨["x"], false, isEnumerableBody, env0⟩) ∧ NoShadow env0

theorem IsEnumBound.ext {σ σ' : St} {E : Env} (h : IsEnumBound σ E) (he : Ext σ σ') : IsEnumBound σ' E := by
  obtain ⟨re, env0, h1, h2, h3⟩ := h
  exact ⟨re, env0, h1.ext he, he.keep _ _ h2, h3⟩

theorem guard_expr_run {F : Nat} {ctx : Ctx} {σ : St} {xv : Value} (gs : GSt)
    (hb : IsEnumBound σ ctx.env) (hx : Var σ ctx.env "x" xv) (hd : ctx.callDepth < 900) :
    evalExpr (F + 11) ctx (call1 "is_enumerable" "x") gs σ =
      .ok ((.bool (isEnum xv), gs), pushSt σ (.cell xv false)) := by
  obtain ⟨re, env0, h1, h2, h3⟩ := hb
  unfold call1
  rw [call_fn_run (F := F + 10) (ev_ident h1 (F + 9) gs) (ev_args1 hx (F + 8) gs) h2]
  exact isEnumerable_call h3 xv gs σ hd

theorem ev_undef (F : Nat) (ctx : Ctx) (gs : GSt) (σ : St) :
    evalExpr (F + 1) ctx .undef gs σ = .ok ((.undef, gs), σ) := by
  simp only [evalExpr]; rfl

theorem ev_bool (F : Nat) (ctx : Ctx) (b : Bool) (gs : GSt) (σ : St) :
    evalExpr (F + 1) ctx (.bool b) gs σ = .ok ((.bool b, gs), σ) := by
  simp only [evalExpr]; rfl

theorem IsEnumBound.push {σ : St} {E : Env} (h : IsEnumBound σ E) : IsEnumBound σ ({ vars := [] } :: E) := by
  obtain ⟨re, env0, h1, h2, h3⟩ := h
  exact ⟨re, env0, var_push h1 0, h2, h3⟩

/-- The guard `if !is_enumerable(x) { return undefined }`. -/
theorem guard_run {F : Nat} {ctx : Ctx} {σ : St} {xv : Value} (gs : GSt)
    (hb : IsEnumBound σ ctx.env) (hx : Var σ ctx.env "x" xv) (hd : ctx.callDepth < 900) :
    execStmt (F + 13) ctx guardEnum gs σ =
      .ok (((if isEnum xv then Flow.normal else Flow.ret .undef, ctx.env), gs), pushSt σ (.cell xv false)) := by
  unfold guardEnum retUndefUnless
  rw [execStmt_if]
  have hg := guard_expr_run (F := F) (ctx := pushCtx ctx) gs hb.push (var_push hx 0) hd
  rw [em_bind_ok (not_run hg rfl), em_bind_ok (liftM_ok (isFalsy_run (v := .bool _) rfl _))]
  cases h : isEnum xv
  · simp only [falsy, h, Bool.not_false, Bool.not_true, Bool.false_eq_true, if_false, if_true]
    rw [em_bind_ok (block_ret_expr (F := F + 9) (ev_undef (F + 8) _ gs _))]
    rfl
  · simp only [falsy, h, Bool.not_false, Bool.not_true, Bool.false_eq_true, if_false, if_true]
    rfl

theorem Var.under {σ : St} {E : Env} {n : String} {v : Value} (h : Var σ E n v) (f : Frame)
    (hf : f.vars.lookup n = none) : Var σ (f :: E) n v := by
  obtain ⟨c, b, h1, h2⟩ := h
  exact ⟨c, b, by rw [lookupVar_cons, hf]; exact h1, h2⟩

/-- Context of the statements of a module function `func(x, q) { … }` called in heap `σ`. -/
def bodyCtx (menv : Env) (ctx : Ctx) (q : String) (σ : St) : Ctx :=
  { env := { vars := [] } :: (enter2 menv ctx "x" q σ).env, callDepth := ctx.callDepth + 1, path := [0] }

/-- Heap after entering `func(x, q)` with `[xv, b]` and evaluating the guard. -/
def stG (σ : St) (xv b : Value) : St := pushSt (st2 σ xv b) (.cell xv false)

theorem ext_stG (σ : St) (xv b : Value) : Ext σ (stG σ xv b) := (ext_st2 σ xv b).trans (ext_push _ _)

theorem var_x_body (menv : Env) (ctx : Ctx) (q : String) (σ : St) (xv b : Value) (hq : ("x" == q) = false) :
    Var (st2 σ xv b) (bodyCtx menv ctx q σ).env "x" xv :=
  ⟨σ.heap.size, false, by simp [bodyCtx, enter2, lookupVar_cons, List.lookup, hq], st2_get0 σ xv b⟩

theorem var_q_body (menv : Env) (ctx : Ctx) (q : String) (σ : St) (xv b : Value) :
    Var (st2 σ xv b) (bodyCtx menv ctx q σ).env q b :=
  ⟨σ.heap.size + 1, false, by simp [bodyCtx, enter2, lookupVar_cons, List.lookup], st2_get1 σ xv b⟩

theorem guarded_call {F : Nat} {ctx : Ctx} {menv : Env} {q : String} {rest : List Stmt} {xv b : Value}
    (gs : GSt) (σ : St) (hq : ("x" == q) = false) (hq2 : ("is_enumerable" == q) = false)
    (hb : IsEnumBound σ menv) (hd : ctx.callDepth < 899) :
    callClosure (F + 16) ctx ⟨["x", q], false, guardEnum :: rest, menv⟩ [xv, b] gs σ =
      if isEnum xv then
        (do let p ← execStmts (F + 13) (bodyCtx menv ctx q σ) rest 1
            match p.1 with
            | .ret v => pure v
            | _ => pure Value.undef : EM Value) gs (stG σ xv b)
      else .ok ((.undef, gs), stG σ xv b) := by
  have hxq : ("x" != q) = true := by simp [bne, hq]
  rw [callClosure2 gs σ (by omega) hxq, execBlock_cons, execStmts_cons]
  have hb' : IsEnumBound (st2 σ xv b) (bodyCtx menv ctx q σ).env := by
    obtain ⟨re, env0, h1, h2, h3⟩ := hb.ext (ext_st2 σ xv b)
    refine ⟨re, env0, ?_, h2, h3⟩
    refine (h1.under _ ?_).under _ rfl
    simp [List.lookup, hq2]
  have hg := guard_run (F := F) (ctx := { env := { vars := [] } :: (enter2 menv ctx "x" q σ).env, callDepth := ctx.callDepth + 1, path := [0, 0] }) gs hb'
    (var_x_body menv ctx q σ xv b hq) (by show ctx.callDepth + 1 < 900; omega)
  simp only [bind_assoc, pure_bind]
  rw [show (enter2 menv ctx "x" q σ).callDepth = ctx.callDepth + 1 from rfl,
    show (enter2 menv ctx "x" q σ).path = [] from rfl]
  rw [em_bind_ok hg]
  cases h : isEnum xv
  · simp only [Bool.false_eq_true, if_false]; rfl
  · simp only [if_true]; rfl

end Tengo.Proofs.C19Enum

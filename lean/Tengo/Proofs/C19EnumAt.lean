import Tengo.Proofs.C19EnumFilter
/-!
C19, enum module, layer 7: `at` on arrays (`if … else`, `is_int(key)`, `x[key]`).
-/
set_option linter.unusedVariables false
set_option linter.unusedSimpArgs false
namespace Tengo.Proofs.C19Enum
open Tengo.Model Tengo.Model.Spec

theorem execStmt_if_else (F : Nat) (ctx : Ctx) (c : Expr) (body : List Stmt) (els : Option Stmt) :
    execStmt (F + 1) ctx (.ifs none c body els) = (do
      let cv ← evalExpr F (pushCtx ctx) c
      if !(← Spec.liftM (isFalsy cv)) then do
        let fl ← execBlock F (pushCtx ctx) body 1
        pure (fl, ctx.env)
      else match els with
        | some st => do
            let (fl, _) ← execStmt F { pushCtx ctx with path := 2 :: (pushCtx ctx).path } st
            pure (fl, ctx.env)
        | none => pure (.normal, ctx.env)) := by
  simp only [execStmt, pushCtx, pure_bind]
  rfl

theorem indexGet_arr_run {σ : St} {r st : Nat} {es : List Value} (h : ArrAt σ r st es) (n : Int) (gs : GSt) :
    indexGet (.arr r) (.int n) gs σ =
      .ok ((if n < 0 || n ≥ es.length then Value.undef else es.getD n.toNat .undef, gs), σ) := by
  unfold indexGet
  simp only []
  rw [em_bind_ok (liftM_ok (arrElems_run h))]
  by_cases hc : (n < 0 || n ≥ (es.length : Int)) = true
  · simp only [hc, if_true]; rfl
  · simp only [hc, if_false]; rfl

theorem ev_idx (F : Nat) (ctx : Ctx) (x i : Expr) :
    evalExpr (F + 1) ctx (.idx x i) = (do
      let a ← evalExpr F ctx x
      let iv ← evalExpr F ctx i
      indexGet a iv) := by
  simp only [evalExpr]

def isIntV : Value → Bool | .int _ => true | _ => false
theorem isPred_is_int (v : Value) : isPred "is_int" v = some (isIntV v) := by cases v <;> rfl

/-- The documented value of `at` on an array. -/
def atArr (es : List Value) : Value → Value
  | .int n => if n < 0 || n ≥ es.length then .undef else es.getD n.toNat .undef
  | _ => .undef

def atRest : List Stmt :=
  [.ifs none (call1 "is_array_like" "x")
     [.ifs none (.un "Not" (call1 "is_int" "key")) [.ret (some .undef)] none]
     (some (.block [.ifs none (.un "Not" (call1 "is_string" "key")) [.ret (some .undef)] none])),
   .ret (some (.idx (.ident "x") (.ident "key")))]

theorem atBody_eq : atBody = guardEnum :: atRest := rfl

theorem at_run {σ : St} {menv : Env} {ctx : Ctx} {r st : Nat} {es : List Value} (kv : Value) (gs : GSt)
    (hb : IsEnumBound σ menv) (hba : IsArrLikeBound σ menv) (harr : ArrAt σ r st es) (hd : ctx.callDepth < 899)
    (hint : lookupVar menv "is_int" = none) (F : Nat) :
    ∃ σ', Ext σ σ' ∧
      callClosure (F + 16) ctx ⟨["x", "key"], false, atBody, menv⟩ [.arr r, kv] gs σ = .ok ((atArr es kv, gs), σ') := by
  rw [atBody_eq, guarded_call (F := F) gs σ (by decide) (by decide) hb hd]
  simp only [isEnum, if_true]
  unfold atRest
  rw [execStmts_cons, execStmt_if_else]
  -- the condition is_array_like(x)
  have hxG : Var (stG σ (.arr r) kv) (bodyCtx menv ctx "key" σ).env "x" (.arr r) :=
    (var_x_body menv ctx "key" σ (.arr r) kv (by decide)).ext (ext_push _ _)
  have hkG : Var (stG σ (.arr r) kv) (bodyCtx menv ctx "key" σ).env "key" kv :=
    (var_q_body menv ctx "key" σ (.arr r) kv).ext (ext_push _ _)
  have hbaG : IsArrLikeBound (stG σ (.arr r) kv) (bodyCtx menv ctx "key" σ).env := by
    obtain ⟨re, env0, h1, h2, h3⟩ := hba.ext (ext_stG σ (.arr r) kv)
    refine ⟨re, env0, ?_, h2, h3⟩
    refine (h1.under _ ?_).under _ rfl
    simp [List.lookup]
  have hcond := guardArr_expr_run (F := F)
    (ctx := pushCtx { env := (bodyCtx menv ctx "key" σ).env, callDepth := ctx.callDepth + 1, path := 1 :: [0] })
    gs hbaG.push (var_push hxG 0) (by show ctx.callDepth + 1 < 900; omega)
  simp only [bind_assoc]
  rw [show (bodyCtx menv ctx "key" σ).callDepth = ctx.callDepth + 1 from rfl,
    show (bodyCtx menv ctx "key" σ).path = [0] from rfl]
  rw [em_bind_ok hcond, em_bind_ok (liftM_ok (isFalsy_run (v := .bool _) rfl _))]
  simp only [isArrLike, falsy, Bool.not_true, Bool.not_false, if_true, bind_assoc, pure_bind]
  have he3 : Ext (stG σ (.arr r) kv) (pushSt (stG σ (Value.arr r) kv) (Obj.cell (Value.arr r) false)) := ext_push _ _
  refine ⟨_, (ext_stG σ _ _).trans he3, ?_⟩
  have hkey3 : Var (pushSt (stG σ (Value.arr r) kv) (Obj.cell (Value.arr r) false))
      ({ vars := [] } :: { vars := [] } :: { vars := [] } :: (bodyCtx menv ctx "key" σ).env) "key" kv :=
    var_push (var_push (var_push (hkG.ext he3) 0) 0) 0
  have hnone : lookupVar ({ vars := [] } :: { vars := [] } :: { vars := [] } :: (bodyCtx menv ctx "key" σ).env) "is_int" = none := by
    simp [bodyCtx, enter2, lookupVar_cons, List.lookup, hint]
  have hpred := pred_call_run (F := F + 4) (gs := gs)
    (ctx := { env := { vars := [] } :: { vars := [] } :: { vars := [] } :: (bodyCtx menv ctx "key" σ).env, callDepth := ctx.callDepth + 1, path := 0 :: 1 :: [1, 0] })
    hnone (by decide) hkey3 (isPred_is_int kv)
  have hblk := block_if_ret (F := F + 5) (tag := 1)
    (ctx := pushCtx { env := (bodyCtx menv ctx "key" σ).env, callDepth := ctx.callDepth + 1, path := [1, 0] })
    (c := .un "Not" (call1 "is_int" "key")) (e := .undef) (not_run hpred rfl) rfl (ev_undef (F + 4) _ gs _)
  rw [em_bind_ok hblk]
  have hb' : ∀ b : Bool, falsy (.bool b) = !b := fun _ => rfl
  simp only [hb', Bool.not_not]
  cases kv <;> simp only [isIntV, Bool.false_eq_true, if_false, if_true, atArr] <;> try rfl
  -- kv is an int: return x[key]
  rename_i n
  rw [show F + 12 = (F + 10) + 2 from rfl, execStmts_cons, execStmt_ret, ev_idx]
  simp only [bind_assoc, pure_bind]
  have hx3 : Var (pushSt (stG σ (Value.arr r) (.int n)) (Obj.cell (Value.arr r) false)) (bodyCtx menv ctx "key" σ).env "x" (.arr r) :=
    hxG.ext he3
  have hk3 : Var (pushSt (stG σ (Value.arr r) (.int n)) (Obj.cell (Value.arr r) false)) (bodyCtx menv ctx "key" σ).env "key" (.int n) :=
    hkG.ext he3
  rw [em_bind_ok (ev_ident (ctx := { env := (bodyCtx menv ctx "key" σ).env, callDepth := ctx.callDepth + 1, path := (1 + 1) :: [0] }) hx3 (F + 8) gs),
    em_bind_ok (ev_ident (ctx := { env := (bodyCtx menv ctx "key" σ).env, callDepth := ctx.callDepth + 1, path := (1 + 1) :: [0] }) hk3 (F + 8) gs),
    em_bind_ok (indexGet_arr_run ((harr.ext (ext_stG σ _ _)).ext he3) n gs)]
  rfl

end Tengo.Proofs.C19Enum

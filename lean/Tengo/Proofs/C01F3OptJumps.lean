import Tengo.Proofs.C01F3OptInstr
/-!
C01 on fragment F3, closing the optimizer gap, layer 1: **every jump the fragment compiler emits lands on an
instruction boundary** of the function it is in — for ANY expression, statement and statement list (no
well-formedness needed): `comp_jok`, `compEs_jok`, `compS_jok`, `compSs_jok` (the break / continue targets `bt`,
`ct` handed in from the enclosing loop must be boundaries themselves; at the top level of a function they are 0),
and `body_jok`: a whole body `compSs 0 0 0 ss`.
-/
set_option linter.unusedVariables false
set_option linter.unusedSimpArgs false
namespace Tengo.Proofs.C01F3Opt
open Tengo.Model
open Tengo.Model.F3 (Ins csize Ex Exs Stm Stms comp compEs compS compSs esize essize ssize sssize At
  csize_comp csize_compEs csize_compS csize_compSs csize_append)

/-- offsets of sub-fragments -/
macro "off_tac" : tactic =>
  `(tactic| (simp only [csize_append, csize_comp, csize_compEs, csize_compS, csize_compSs, csize, Ins.size] <;> omega))

theorem At.cons_right {code : List Ins} {off : Nat} {i : Ins} {b : List Ins} (h : At code off (i :: b))
    {off' : Nat} (e : off' = off + i.size) : At code off' b :=
  At.right (a := [i]) (b := b) h (by simp [csize, e])

theorem At.cons_left {code : List Ins} {off : Nat} {i : Ins} {b : List Ins} (h : At code off (i :: b)) :
    At code off [i] :=
  At.left (a := [i]) (b := b) h

theorem JOk.cons {code : List Ins} {i : Ins} {b : List Ins} (hi : JOk code [i]) (hb : JOk code b) :
    JOk code (i :: b) :=
  JOk.append (a := [i]) hi hb

mutual
  theorem comp_jok : ∀ (e : Ex) (off : Nat) (code : List Ins), At code off (comp off e) → JOk code (comp off e)
    | .lit _, _, _, _ | .tru, _, _, _ | .fls, _, _, _ | .undef, _, _, _ | .glob _, _, _, _ | .loc _, _, _, _ => by
      simp only [comp]; exact JOk.plain rfl
    | .bin _ l r, off, code, h | .eq l r, off, code, h | .ne l r, off, code, h => by
      simp only [comp] at h ⊢
      have hl := h.left.left
      have hr := h.left.right (off' := off + esize l) (by off_tac)
      exact (comp_jok l off code hl).append (comp_jok r _ code hr) |>.append (JOk.plain rfl)
    | .neg e, off, code, h | .bnot e, off, code, h | .lnot e, off, code, h => by
      simp only [comp] at h ⊢
      exact (comp_jok e off code h.left).append (JOk.plain rfl)
    | .plus e, off, code, h => by
      simp only [comp] at h ⊢
      exact comp_jok e off code h
    | .cond c t f, off, code, h => by
      simp only [comp] at h ⊢
      -- ((((c ++ [jmpf]) ++ t) ++ [jmp]) ++ f)
      have hc := h.left.left.left.left
      have hjf := h.left.left.left.right (off' := off + esize c) (by off_tac)
      have ht := h.left.left.right (off' := off + esize c + 5) (by off_tac)
      have hjm := h.left.right (off' := off + esize c + 5 + esize t)
        (by off_tac)
      have hf := h.right (off' := off + esize c + 5 + esize t + 5)
        (by off_tac)
      refine ((((comp_jok c off code hc).append (JOk.jump rfl ?_)).append (comp_jok t _ code ht)).append
        (JOk.jump rfl ?_)).append (comp_jok f _ code hf)
      · exact Bd.start hf
      · exact Bd.stop hf (by off_tac)
    | .land l r, off, code, h | .lor l r, off, code, h => by
      simp only [comp] at h ⊢
      have hl := h.left.left
      have hr := h.right (off' := off + esize l + 5) (by off_tac)
      refine ((comp_jok l off code hl).append (JOk.jump rfl ?_)).append (comp_jok r _ code hr)
      exact Bd.stop hr (by off_tac)
    | .call f args, off, code, h => by
      simp only [comp] at h ⊢
      have hf := h.left.left
      have ha := h.left.right (off' := off + esize f) (by off_tac)
      exact ((comp_jok f off code hf).append (compEs_jok args _ code ha)).append (JOk.plain rfl)
  theorem compEs_jok : ∀ (es : Exs) (off : Nat) (code : List Ins), At code off (compEs off es) →
      JOk code (compEs off es)
    | .nil, _, _, _ => by simp only [compEs]; exact JOk.nil _
    | .cons e es, off, code, h => by
      simp only [compEs] at h ⊢
      exact (comp_jok e off code h.left).append
        (compEs_jok es _ code (h.right (off' := off + esize e) (by off_tac)))
end

mutual
  theorem compS_jok : ∀ (s : Stm) (bt ct off : Nat) (code : List Ins), Bd code bt → Bd code ct →
      At code off (compS bt ct off s) → JOk code (compS bt ct off s)
    | .expr e, bt, ct, off, code, hbt, hct, h | .assign _ e, bt, ct, off, code, hbt, hct, h
    | .defl _ e, bt, ct, off, code, hbt, hct, h | .setl _ e, bt, ct, off, code, hbt, hct, h
    | .ret e, bt, ct, off, code, hbt, hct, h => by
      simp only [compS] at h ⊢
      exact (comp_jok e off code h.left).append (JOk.plain rfl)
    | .ifs c body, bt, ct, off, code, hbt, hct, h => by
      simp only [compS] at h ⊢
      have hc := h.left.left
      have hb := h.right (off' := off + esize c + 5) (by off_tac)
      refine ((comp_jok c off code hc).append (JOk.jump rfl ?_)).append (compSs_jok body bt ct _ code hbt hct hb)
      exact Bd.stop hb (by off_tac)
    | .ifelse c body els, bt, ct, off, code, hbt, hct, h => by
      simp only [compS] at h ⊢
      -- ((((c ++ [jmpf]) ++ body) ++ [jmp]) ++ els)
      have hc := h.left.left.left.left
      have hb := h.left.left.right (off' := off + esize c + 5)
        (by off_tac)
      have he := h.right (off' := off + esize c + 5 + sssize body + 5)
        (by off_tac)
      refine ((((comp_jok c off code hc).append (JOk.jump rfl ?_)).append
        (compSs_jok body bt ct _ code hbt hct hb)).append (JOk.jump rfl ?_)).append
        (compSs_jok els bt ct _ code hbt hct he)
      · exact Bd.start he
      · exact Bd.stop he (by off_tac)
    | .whil c body, bt, ct, off, code, hbt, hct, h => by
      simp only [compS] at h ⊢
      -- (((c ++ [jmpf]) ++ body) ++ [jmp off])
      have hc := h.left.left.left
      have hb := h.left.right (off' := off + esize c + 5) (by off_tac)
      have hj := h.right (off' := off + esize c + 5 + sssize body)
        (by off_tac)
      have hend : Bd code (off + esize c + 5 + sssize body + 5) := Bd.stop hj (by off_tac)
      refine (((comp_jok c off code hc).append (JOk.jump rfl hend)).append
        (compSs_jok body _ _ _ code hend (Bd.start hj) hb)).append (JOk.jump rfl ?_)
      exact Bd.start hc
    | .forever body, bt, ct, off, code, hbt, hct, h => by
      simp only [compS] at h ⊢
      have hb := h.left
      have hj := h.right (off' := off + sssize body) (by off_tac)
      have hend : Bd code (off + sssize body + 5) := Bd.stop hj (by off_tac)
      exact (compSs_jok body _ _ _ code hend (Bd.start hj) hb).append (JOk.jump rfl (Bd.start hb))
    | .for3 c body post, bt, ct, off, code, hbt, hct, h => by
      simp only [compS] at h ⊢
      -- ((((c ++ [jmpf]) ++ body) ++ post) ++ [jmp off])
      have hc := h.left.left.left.left
      have hb := h.left.left.right (off' := off + esize c + 5)
        (by off_tac)
      have hp := h.left.right (off' := off + esize c + 5 + sssize body)
        (by off_tac)
      have hj := h.right (off' := off + esize c + 5 + sssize body + ssize post)
        (by off_tac)
      have hend : Bd code (off + esize c + 5 + sssize body + ssize post + 5) :=
        Bd.stop hj (by off_tac)
      refine ((((comp_jok c off code hc).append (JOk.jump rfl hend)).append
        (compSs_jok body _ _ _ code hend (Bd.start hp) hb)).append
        (compS_jok post bt ct _ code hbt hct hp)).append (JOk.jump rfl (Bd.start hc))
    | .brk, bt, ct, off, code, hbt, hct, h => by
      simp only [compS]; exact JOk.jump rfl hbt
    | .cont, bt, ct, off, code, hbt, hct, h => by
      simp only [compS]; exact JOk.jump rfl hct
    | .ret0, bt, ct, off, code, hbt, hct, h => by
      simp only [compS]; exact JOk.plain rfl
  theorem compSs_jok : ∀ (ss : Stms) (bt ct off : Nat) (code : List Ins), Bd code bt → Bd code ct →
      At code off (compSs bt ct off ss) → JOk code (compSs bt ct off ss)
    | .nil, _, _, _, _, _, _, _ => by simp only [compSs]; exact JOk.nil _
    | .cons s ss, bt, ct, off, code, hbt, hct, h => by
      simp only [compSs] at h ⊢
      exact (compS_jok s bt ct off code hbt hct h.left).append
        (compSs_jok ss bt ct _ code hbt hct (h.right (off' := off + ssize s) (by off_tac)))
end

/-- **Every jump of a compiled statement list placed at 0 lands on a boundary of that list.** -/
theorem body_jok (ss : Stms) : JOk (compSs 0 0 0 ss) (compSs 0 0 0 ss) :=
  compSs_jok ss 0 0 0 _ (Bd.zero _) (Bd.zero _) (At.whole _)

/-- … also when `RET 0` follows (the body of `F3.compFn`). -/
theorem fn_jok (ss : Stms) : JOk (compSs 0 0 0 ss ++ [.ret false]) (compSs 0 0 0 ss ++ [.ret false]) :=
  (compSs_jok ss 0 0 0 _ (Bd.zero _) (Bd.zero _) (At.prefix _ _)).append (JOk.plain rfl)

end Tengo.Proofs.C01F3Opt

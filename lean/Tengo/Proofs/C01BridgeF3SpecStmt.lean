import Tengo.Proofs.C01BridgeF3SpecExpr
/-!
C01 bridge for fragment F3, reference-interpreter side, layer 3 (statements, loops, function bodies, the call):
`Spec.execStmt` / `execStmts` / `execBlock` / `loopFor` / `callClosure` on the embedded program against
`F3.execS` / `execSs` / `callFn` (`all_sim3`).
-/
set_option linter.unusedVariables false
set_option linter.unusedSimpArgs false
namespace Tengo.Proofs.C01BridgeF3Spec
open Tengo.Model Tengo.Model.Spec
open Tengo.Model.F3 (Ex Exs Stm Stms FnDef Prog Locals ERes EsRes Res updL bindArgs)
open Tengo.Proofs.C01Bridge
open Tengo.Proofs.C01BridgeF3 (DataRel NotCallable)
open Tengo.Proofs.C01BridgeF3Comp
open Tengo.Proofs.C01F3Opt (EnvOk)
open Tengo.Proofs.C11Rename (isFuncLit)

variable {V : Type} (C : Cx V)

/-- A run of the interpreter against a result of `F3.execS` inside one activation (`m`, `lc` fixed). -/
def RS {α : Type} (x : EM α) (mk : Flow → α) (gs : GSt) (σ : St) (B m : Nat) (lc : Nat → Nat) : Res V → Prop
  | .done g' l' => ∃ σ', EOk x gs σ (mk .normal) σ' ∧ HInv C B σ' g' m lc l' ∧ FrB C B σ σ'
  | .brk g' l' => ∃ σ', EOk x gs σ (mk .brk) σ' ∧ HInv C B σ' g' m lc l' ∧ FrB C B σ σ'
  | .cont g' l' => ∃ σ', EOk x gs σ (mk .cont) σ' ∧ HInv C B σ' g' m lc l' ∧ FrB C B σ σ'
  | .ret v g' => ∃ w σ', EOk x gs σ (mk (.ret w)) σ' ∧ VR C σ' v w ∧ GInv C σ' g' ∧ FrB C B σ σ'
  | .err => ∃ err, err ≠ Err.fuel ∧ EErr x gs σ err
  | .out => True
  | .bad => True

def StmtSim (f : Nat) (st : Stm) : Prop :=
  ∀ (F : Nat) (ctx : Ctx) (gs : GSt) (σ : St) (g : Nat → V) (l : Locals V) (m : Nat) (lc : Nat → Nat) (B k : Nat)
    (inFn inl : Bool),
    4 * f ≤ F → 2 * ctx.callDepth + f ≤ 1800 → EInv C ctx.env m lc → HInv C B σ g m lc l →
    wfS3 (isFnOf C.P) C.n m inFn inl k st = true →
    RS C (execStmt F ctx (toAstS3 C.names C.lnames C.ctab st)) (fun fl => (fl, ctx.env)) gs σ B m lc
      (F3.execS C.E C.P f st g l)

def StmtsSim (f : Nat) (ss : Stms) : Prop :=
  ∀ (F : Nat) (ctx : Ctx) (gs : GSt) (σ : St) (g : Nat → V) (l : Locals V) (m : Nat) (lc : Nat → Nat) (B k i : Nat)
    (inFn inl : Bool),
    4 * f ≤ F → 2 * ctx.callDepth + f ≤ 1800 → EInv C ctx.env m lc → HInv C B σ g m lc l →
    wfSs3 (isFnOf C.P) C.n m inFn inl k ss = true →
    RS C (execStmts F ctx (toAstSs3 C.names C.lnames C.ctab ss) i) (fun fl => (fl, ctx.env)) gs σ B m lc
      (F3.execSs C.E C.P f ss g l)

def BlockSim (f : Nat) (ss : Stms) : Prop :=
  ∀ (F : Nat) (ctx : Ctx) (gs : GSt) (σ : St) (g : Nat → V) (l : Locals V) (m : Nat) (lc : Nat → Nat) (B k tag : Nat)
    (inFn inl : Bool),
    4 * f + 1 ≤ F → 2 * ctx.callDepth + f ≤ 1800 → EInv C ctx.env m lc → HInv C B σ g m lc l →
    wfSs3 (isFnOf C.P) C.n m inFn inl k ss = true →
    RS C (execBlock F ctx (toAstSs3 C.names C.lnames C.ctab ss) tag) (fun fl => fl) gs σ B m lc
      (F3.execSs C.E C.P f ss g l)

def WhileSim (f : Nat) (c : Ex) (body : Stms) : Prop :=
  ∀ (F : Nat) (ctx : Ctx) (gs : GSt) (σ : St) (g : Nat → V) (l : Locals V) (m : Nat) (lc : Nat → Nat) (B k : Nat)
    (inFn inl : Bool),
    4 * f ≤ F + 1 → 2 * ctx.callDepth + f ≤ 1800 → EInv C ctx.env m lc → HInv C B σ g m lc l →
    wfS3 (isFnOf C.P) C.n m inFn inl k (.whil c body) = true →
    RS C (loopFor F ctx (some (toAstE3 C.names C.lnames C.ctab c)) none (toAstSs3 C.names C.lnames C.ctab body))
      (fun fl => fl) gs σ B m lc (F3.execS C.E C.P f (.whil c body) g l)

def ForeverSim (f : Nat) (body : Stms) : Prop :=
  ∀ (F : Nat) (ctx : Ctx) (gs : GSt) (σ : St) (g : Nat → V) (l : Locals V) (m : Nat) (lc : Nat → Nat) (B k : Nat)
    (inFn inl : Bool),
    4 * f ≤ F + 1 → 2 * ctx.callDepth + f ≤ 1800 → EInv C ctx.env m lc → HInv C B σ g m lc l →
    wfS3 (isFnOf C.P) C.n m inFn inl k (.forever body) = true →
    RS C (loopFor F ctx none none (toAstSs3 C.names C.lnames C.ctab body))
      (fun fl => fl) gs σ B m lc (F3.execS C.E C.P f (.forever body) g l)

def For3Sim (f : Nat) (c : Ex) (body : Stms) (post : Stm) : Prop :=
  ∀ (F : Nat) (ctx : Ctx) (gs : GSt) (σ : St) (g : Nat → V) (l : Locals V) (m : Nat) (lc : Nat → Nat) (B k : Nat)
    (inFn inl : Bool),
    4 * f ≤ F + 1 → 2 * ctx.callDepth + f ≤ 1800 → EInv C ctx.env m lc → HInv C B σ g m lc l →
    wfS3 (isFnOf C.P) C.n m inFn inl k (.for3 c body post) = true →
    RS C (loopFor F ctx (some (toAstE3 C.names C.lnames C.ctab c)) (some (toAstS3 C.names C.lnames C.ctab post))
        (toAstSs3 C.names C.lnames C.ctab body))
      (fun fl => fl) gs σ B m lc (F3.execS C.E C.P f (.for3 c body post) g l)

variable {C}

theorem RS.bind_ok {α β : Type} {x : EM α} {K : α → EM β} {mk : Flow → β} {gs : GSt} {σ σ1 : St} {a : α}
    {B m : Nat} {lc : Nat → Nat} {res : Res V} (h1 : EOk x gs σ a σ1) (hf : FrB C B σ σ1)
    (h2 : RS C (K a) mk gs σ1 B m lc res) : RS C (x >>= K) mk gs σ B m lc res := by
  cases res with
  | done g' l' => obtain ⟨σ', hok, hh, hfr⟩ := h2; exact ⟨σ', EOk.bind h1 hok, hh, hf.trans hfr⟩
  | brk g' l' => obtain ⟨σ', hok, hh, hfr⟩ := h2; exact ⟨σ', EOk.bind h1 hok, hh, hf.trans hfr⟩
  | cont g' l' => obtain ⟨σ', hok, hh, hfr⟩ := h2; exact ⟨σ', EOk.bind h1 hok, hh, hf.trans hfr⟩
  | ret v g' => obtain ⟨w, σ', hok, hv, hh, hfr⟩ := h2; exact ⟨w, σ', EOk.bind h1 hok, hv, hh, hf.trans hfr⟩
  | err => obtain ⟨err, hne, he⟩ := h2; exact ⟨err, hne, EErr.bind_right h1 he⟩
  | out => trivial
  | bad => trivial

theorem RS.wrap {α β : Type} {x : EM α} {K : α → EM β} {mk : Flow → α} {mk' : Flow → β} {gs : GSt} {σ : St}
    {B m : Nat} {lc : Nat → Nat} {res : Res V} (h : RS C x mk gs σ B m lc res)
    (hK : ∀ fl σ', EOk (K (mk fl)) gs σ' (mk' fl) σ') : RS C (x >>= K) mk' gs σ B m lc res := by
  cases res with
  | done g' l' => obtain ⟨σ', hok, hh, hfr⟩ := h; exact ⟨σ', EOk.bind hok (hK _ σ'), hh, hfr⟩
  | brk g' l' => obtain ⟨σ', hok, hh, hfr⟩ := h; exact ⟨σ', EOk.bind hok (hK _ σ'), hh, hfr⟩
  | cont g' l' => obtain ⟨σ', hok, hh, hfr⟩ := h; exact ⟨σ', EOk.bind hok (hK _ σ'), hh, hfr⟩
  | ret v g' => obtain ⟨w, σ', hok, hv, hh, hfr⟩ := h; exact ⟨w, σ', EOk.bind hok (hK _ σ'), hv, hh, hfr⟩
  | err => obtain ⟨err, hne, he⟩ := h; exact ⟨err, hne, EErr.bind_left he⟩
  | out => trivial
  | bad => trivial

theorem isFuncLit_toAstE3 (names lnames : Nat → String) (ctab : Nat → F0.Const) (e : Ex) :
    isFuncLit (toAstE3 names lnames ctab e) = false := by
  cases e <;> try rfl
  case lit k => simp only [toAstE3]; cases ctab k <;> rfl

theorem ex_define (F : Nat) (ctx : Ctx) (nm : String) (r : Expr) (hr : isFuncLit r = false) :
    execStmt (F + 1 + 1) ctx (.assign "Define" [.ident nm] [r]) = (do
      let v ← evalExpr (F + 1) ctx r
      let env' ← declare ctx nm v
      pure (Flow.normal, env')) := by
  have h2 : assignTo (F + 1) ctx "Define" (.ident nm) = fun v => declare ctx nm v := by
    funext v; rw [assignTo.eq_2]; rfl
  cases r <;> first
    | (simp [isFuncLit] at hr; done)
    | (simp only [execStmt]; rw [h2]; rfl)

theorem ex_ret (F : Nat) (ctx : Ctx) (e : Expr) :
    execStmt (F + 1) ctx (.ret (some e)) = (do let v ← evalExpr F ctx e; pure (Flow.ret v, ctx.env)) := by
  simp only [execStmt]

theorem ex_ret0 (F : Nat) (ctx : Ctx) : execStmt (F + 1) ctx (.ret none) = pure (Flow.ret .undef, ctx.env) := by
  simp only [execStmt]

/-- A simple statement (the post statement of a loop) ends normally or fails. -/
theorem simple_res (E : F3.Env V) (P : Prog) (f : Nat) (p : Stm) (g : Nat → V) (l : Locals V)
    (hs : isSimple3 p = true) :
    match F3.execS E P f p g l with
    | .brk _ _ => False
    | .cont _ _ => False
    | .ret _ _ => False
    | _ => True := by
  cases f with
  | zero => simp only [F3.execS]
  | succ f =>
    cases p <;> simp only [isSimple3] at hs <;> try (exact Bool.noConfusion hs)
    all_goals
      simp only [F3.execS]
      cases F3.evalE E P f _ g l <;> simp only [ERes.toRes]


theorem blockSim_of {f : Nat} {ss : Stms} (h : StmtsSim C f ss) : BlockSim C f ss := by
  intro F ctx gs σ g l m lc B k tag inFn inl hF hD he hh hw
  obtain ⟨F, rfl⟩ : ∃ F', F = F' + 1 := ⟨F - 1, by omega⟩
  cases ss with
  | nil =>
    simp only [toAstSs3, execBlock.eq_2]
    cases f with
    | zero => simp only [F3.execSs]; exact True.intro
    | succ f =>
      simp only [F3.execSs]
      exact ⟨σ, EOk.pure _ gs σ, hh, FrB.refl B σ⟩
  | cons st ss =>
    rw [toAstSs3, execBlock.eq_3 _ _ _ _ (by simp), ← toAstSs3]
    exact (h F { env := { vars := [] } :: ctx.env, callDepth := ctx.callDepth, path := tag :: ctx.path }
      gs σ g l m lc B k 0 inFn inl (by omega) hD he.push hh hw).wrap (fun fl σ' => EOk.pure _ gs σ')

section
variable (hy : Hyp C) (f : Nat) (ihE : ∀ e, EvalSim C f e)
include hy ihE

omit hy in
theorem stmtSim_expr (e : Ex) : StmtSim C (f + 1) (.expr e) := by
  intro F ctx gs σ g l m lc B k inFn inl hF hD he hh hw
  obtain ⟨F, rfl⟩ : ∃ F', F = F' + 1 := ⟨F - 1, by omega⟩
  simp only [wfS3] at hw
  have ha := ihE e F ctx gs σ g l m lc B _ (by omega) (by omega) he hh hw
  simp only [toAstS3, ex_expr, F3.execS]
  cases hea : F3.evalE C.E C.P f e g l with
  | val x g1 =>
    rw [hea] at ha
    obtain ⟨wx, σ1, hok1, hvx, hh1, hf1⟩ := ha
    exact ⟨σ1, EOk.bind hok1 (EOk.pure _ gs σ1), hh1, hf1⟩
  | err => rw [hea] at ha; obtain ⟨err, hne, herr⟩ := ha; exact ⟨err, hne, EErr.bind_left herr⟩
  | out => exact True.intro
  | bad => exact True.intro

theorem stmtSim_assign (i : Nat) (e : Ex) : StmtSim C (f + 1) (.assign i e) := by
  intro F ctx gs σ g l m lc B k inFn inl hF hD he hh hw
  obtain ⟨F, rfl⟩ : ∃ F', F = F' + 1 + 1 := ⟨F - 2, by omega⟩
  simp only [wfS3, Bool.and_eq_true, decide_eq_true_eq] at hw
  obtain ⟨hi, hw⟩ := hw
  have ha := ihE e (F + 1) ctx gs σ g l m lc B _ (by omega) (by omega) he hh hw
  simp only [toAstS3, ex_assign _ _ _ _ (isFuncLit_toAstE3 _ _ _ e), ex_assignTo, F3.execS]
  cases hea : F3.evalE C.E C.P f e g l with
  | val x g1 =>
    rw [hea] at ha
    obtain ⟨wx, σ1, hok1, hvx, hh1, hf1⟩ := ha
    obtain ⟨wi, bi, hci, _⟩ := hh1.glob i hi
    exact ⟨_, EOk.bind hok1 (EOk.bind (EOk.bind (writeVar_run (he.glob i hi) wx gs σ1) (EOk.pure _ gs _))
      (EOk.pure _ gs _)), hh1.setGlob hy hi hvx, hf1.trans (frB_setGlob hi hci)⟩
  | err => rw [hea] at ha; obtain ⟨err, hne, herr⟩ := ha; exact ⟨err, hne, EErr.bind_left herr⟩
  | out => exact True.intro
  | bad => exact True.intro

omit hy in
theorem stmtSim_setl (i : Nat) (e : Ex) : StmtSim C (f + 1) (.setl i e) := by
  intro F ctx gs σ g l m lc B k inFn inl hF hD he hh hw
  obtain ⟨F, rfl⟩ : ∃ F', F = F' + 1 + 1 := ⟨F - 2, by omega⟩
  simp only [wfS3, Bool.and_eq_true, decide_eq_true_eq] at hw
  obtain ⟨hi, hw⟩ := hw
  have ha := ihE e (F + 1) ctx gs σ g l m lc B _ (by omega) (by omega) he hh hw
  simp only [toAstS3, ex_assign _ _ _ _ (isFuncLit_toAstE3 _ _ _ e), ex_assignTo, F3.execS]
  cases hea : F3.evalE C.E C.P f e g l with
  | val x g1 =>
    rw [hea] at ha
    obtain ⟨wx, σ1, hok1, hvx, hh1, hf1⟩ := ha
    obtain ⟨vi, wi, bi, _, hci, _⟩ := hh1.loc.loc i hi
    exact ⟨_, EOk.bind hok1 (EOk.bind (EOk.bind (writeVar_run (he.loc i hi) wx gs σ1) (EOk.pure _ gs _))
      (EOk.pure _ gs _)), hh1.setLoc hi hvx, hf1.trans (frB_setLoc (hh1.loc.base i hi) hci)⟩
  | err => rw [hea] at ha; obtain ⟨err, hne, herr⟩ := ha; exact ⟨err, hne, EErr.bind_left herr⟩
  | out => exact True.intro
  | bad => exact True.intro

omit hy in
theorem stmtSim_ret (e : Ex) : StmtSim C (f + 1) (.ret e) := by
  intro F ctx gs σ g l m lc B k inFn inl hF hD he hh hw
  obtain ⟨F, rfl⟩ : ∃ F', F = F' + 1 := ⟨F - 1, by omega⟩
  simp only [wfS3, Bool.and_eq_true] at hw
  have ha := ihE e F ctx gs σ g l m lc B _ (by omega) (by omega) he hh hw.2
  simp only [toAstS3, ex_ret, F3.execS]
  cases hea : F3.evalE C.E C.P f e g l with
  | val x g1 =>
    rw [hea] at ha
    obtain ⟨wx, σ1, hok1, hvx, hh1, hf1⟩ := ha
    exact ⟨wx, σ1, EOk.bind hok1 (EOk.pure _ gs σ1), hvx, hh1.glob, hf1⟩
  | err => rw [hea] at ha; obtain ⟨err, hne, herr⟩ := ha; exact ⟨err, hne, EErr.bind_left herr⟩
  | out => exact True.intro
  | bad => exact True.intro

omit ihE in
theorem stmtSim_ret0 : StmtSim C (f + 1) .ret0 := by
  intro F ctx gs σ g l m lc B k inFn inl hF hD he hh hw
  obtain ⟨F, rfl⟩ : ∃ F', F = F' + 1 := ⟨F - 1, by omega⟩
  simp only [toAstS3, ex_ret0, F3.execS]
  exact ⟨.undef, σ, EOk.pure _ gs σ, by rw [← hy.data.undef]; exact VR.scalar (by rw [hy.data.undef]; rfl),
    hh.glob, FrB.refl B σ⟩

omit hy ihE in
theorem stmtSim_brk : StmtSim C (f + 1) .brk := by
  intro F ctx gs σ g l m lc B k inFn inl hF hD he hh hw
  obtain ⟨F, rfl⟩ : ∃ F', F = F' + 1 := ⟨F - 1, by omega⟩
  simp only [toAstS3, ex_branch_break, F3.execS]
  exact ⟨σ, EOk.pure _ gs σ, hh, FrB.refl B σ⟩

omit hy ihE in
theorem stmtSim_cont : StmtSim C (f + 1) .cont := by
  intro F ctx gs σ g l m lc B k inFn inl hF hD he hh hw
  obtain ⟨F, rfl⟩ : ∃ F', F = F' + 1 := ⟨F - 1, by omega⟩
  simp only [toAstS3, ex_branch_continue, F3.execS]
  exact ⟨σ, EOk.pure _ gs σ, hh, FrB.refl B σ⟩

theorem stmtSim_ifs (c : Ex) (body : Stms) (hb : BlockSim C f body) : StmtSim C (f + 1) (.ifs c body) := by
  intro F ctx gs σ g l m lc B k inFn inl hF hD he hh hw
  have hD' : 2 * ctx.callDepth + f ≤ 1800 := by omega
  obtain ⟨F, rfl⟩ : ∃ F', F = F' + 1 := ⟨F - 1, by omega⟩
  simp only [wfS3, Bool.and_eq_true] at hw
  obtain ⟨hwc, hwb⟩ := hw
  have ha := ihE c F { ctx with env := { vars := [] } :: ctx.env } gs σ g l m lc B _ (by omega) hD' he.push hh hwc
  simp only [toAstS3, ex_ifs, F3.execS]
  cases hea : F3.evalE C.E C.P f c g l with
  | val x g1 =>
    rw [hea] at ha
    obtain ⟨wx, σ1, hok1, hvx, hh1, hf1⟩ := ha
    refine RS.bind_ok hok1 hf1 (RS.bind_ok (vr_falsy hy hvx gs σ1) (FrB.refl B σ1) ?_)
    dsimp only
    cases hfa : C.E.S.falsy x with
    | true =>
      simp only [Bool.not_true, Bool.false_eq_true, if_false, if_true]
      exact ⟨σ1, EOk.pure _ gs σ1, hh1, FrB.refl B σ1⟩
    | false =>
      simp only [Bool.not_false, Bool.false_eq_true, if_false, if_true]
      exact (hb F { ctx with env := { vars := [] } :: ctx.env } gs σ1 g1 l m lc B _ 1 inFn inl (by omega) (by omega)
        he.push hh1 hwb).wrap (fun fl σ' => EOk.pure _ gs σ')
  | err => rw [hea] at ha; obtain ⟨err, hne, herr⟩ := ha; exact ⟨err, hne, EErr.bind_left herr⟩
  | out => exact True.intro
  | bad => exact True.intro

theorem stmtSim_ifelse (c : Ex) (body els : Stms) (hb : BlockSim C f body) (hel : BlockSim C f els) :
    StmtSim C (f + 1) (.ifelse c body els) := by
  intro F ctx gs σ g l m lc B k inFn inl hF hD he hh hw
  have hD' : 2 * ctx.callDepth + f ≤ 1800 := by omega
  obtain ⟨F, rfl⟩ : ∃ F', F = F' + 1 + 1 := ⟨F - 2, by omega⟩
  simp only [wfS3, Bool.and_eq_true] at hw
  obtain ⟨⟨hwc, hwb⟩, hwe⟩ := hw
  have ha := ihE c (F + 1) { ctx with env := { vars := [] } :: ctx.env } gs σ g l m lc B _ (by omega) hD'
    he.push hh hwc
  simp only [toAstS3, ex_ifelse, F3.execS]
  cases hea : F3.evalE C.E C.P f c g l with
  | val x g1 =>
    rw [hea] at ha
    obtain ⟨wx, σ1, hok1, hvx, hh1, hf1⟩ := ha
    refine RS.bind_ok hok1 hf1 (RS.bind_ok (vr_falsy hy hvx gs σ1) (FrB.refl B σ1) ?_)
    dsimp only
    cases hfa : C.E.S.falsy x with
    | true =>
      simp only [Bool.not_true, Bool.false_eq_true, if_false, if_true]
      have hx := (hel F { env := { vars := [] } :: ctx.env, callDepth := ctx.callDepth, path := 2 :: ctx.path }
        gs σ1 g1 l m lc B _ 0 inFn inl (by omega) hD' he.push hh1 hwe).wrap
        (K := fun fl => (pure (fl, ({ vars := [] } : Spec.Frame) :: ctx.env) : EM (Flow × Spec.Env)))
        (mk' := fun fl => (fl, ({ vars := [] } : Spec.Frame) :: ctx.env)) (fun fl σ' => EOk.pure _ gs σ')
      exact hx.wrap (fun fl σ' => EOk.pure _ gs σ')
    | false =>
      simp only [Bool.not_false, Bool.false_eq_true, if_false, if_true]
      exact (hb (F + 1) { ctx with env := { vars := [] } :: ctx.env } gs σ1 g1 l m lc B _ 1 inFn inl (by omega)
        hD' he.push hh1 hwb).wrap (fun fl σ' => EOk.pure _ gs σ')
  | err => rw [hea] at ha; obtain ⟨err, hne, herr⟩ := ha; exact ⟨err, hne, EErr.bind_left herr⟩
  | out => exact True.intro
  | bad => exact True.intro


theorem whileSim_succ (c : Ex) (body : Stms) (hb : BlockSim C f body) (hloop : WhileSim C f c body) :
    WhileSim C (f + 1) c body := by
  intro F ctx gs σ g l m lc B k inFn inl hF hD he hh hw
  have hD' : 2 * ctx.callDepth + f ≤ 1800 := by omega
  obtain ⟨F, rfl⟩ : ∃ F', F = F' + 1 := ⟨F - 1, by omega⟩
  have hw0 := hw
  simp only [wfS3, Bool.and_eq_true] at hw
  obtain ⟨hwc, hwb⟩ := hw
  have ha := ihE c F ctx gs σ g l m lc B _ (by omega) hD' he hh hwc
  simp only [ex_loop_some, F3.execS]
  cases hea : F3.evalE C.E C.P f c g l with
  | val x g1 =>
    rw [hea] at ha
    obtain ⟨wx, σ1, hok1, hvx, hh1, hf1⟩ := ha
    refine RS.bind_ok hok1 hf1 (RS.bind_ok (vr_falsy hy hvx gs σ1) (FrB.refl B σ1) ?_)
    dsimp only
    cases hfa : C.E.S.falsy x with
    | true =>
      simp only [Bool.not_true, Bool.not_false, Bool.false_eq_true, if_false, if_true]
      exact ⟨σ1, EOk.pure _ gs σ1, hh1, FrB.refl B σ1⟩
    | false =>
      simp only [Bool.not_false, Bool.not_true, Bool.false_eq_true, if_false, if_true]
      have hbody := hb F ctx gs σ1 g1 l m lc B _ 1 inFn true (by omega) hD' he hh1 hwb
      cases hex : F3.execSs C.E C.P f body g1 l with
      | done g2 l2 =>
        rw [hex] at hbody
        obtain ⟨σ2, hok2, hh2, hf2⟩ := hbody
        exact RS.bind_ok hok2 hf2 (hloop F ctx gs σ2 g2 l2 m lc B k inFn inl (by omega) hD' he hh2 hw0)
      | cont g2 l2 =>
        rw [hex] at hbody
        obtain ⟨σ2, hok2, hh2, hf2⟩ := hbody
        exact RS.bind_ok hok2 hf2 (hloop F ctx gs σ2 g2 l2 m lc B k inFn inl (by omega) hD' he hh2 hw0)
      | brk g2 l2 =>
        rw [hex] at hbody
        obtain ⟨σ2, hok2, hh2, hf2⟩ := hbody
        exact ⟨σ2, EOk.bind hok2 (EOk.pure _ gs σ2), hh2, hf2⟩
      | ret v g2 =>
        rw [hex] at hbody
        obtain ⟨w, σ2, hok2, hv2, hg2, hf2⟩ := hbody
        exact ⟨w, σ2, EOk.bind hok2 (EOk.pure _ gs σ2), hv2, hg2, hf2⟩
      | err => rw [hex] at hbody; obtain ⟨err, hne, herr⟩ := hbody; exact ⟨err, hne, EErr.bind_left herr⟩
      | out => exact True.intro
      | bad => exact True.intro
  | err => rw [hea] at ha; obtain ⟨err, hne, herr⟩ := ha; exact ⟨err, hne, EErr.bind_left herr⟩
  | out => exact True.intro
  | bad => exact True.intro

omit hy ihE in
theorem foreverSim_succ (body : Stms) (hb : BlockSim C f body) (hloop : ForeverSim C f body) :
    ForeverSim C (f + 1) body := by
  intro F ctx gs σ g1 l m lc B k inFn inl hF hD he hh1 hw
  have hD' : 2 * ctx.callDepth + f ≤ 1800 := by omega
  obtain ⟨F, rfl⟩ : ∃ F', F = F' + 1 := ⟨F - 1, by omega⟩
  have hw0 := hw
  simp only [wfS3] at hw
  simp only [ex_loop_none, F3.execS]
  have hbody := hb F ctx gs σ g1 l m lc B _ 1 inFn true (by omega) hD' he hh1 hw
  cases hex : F3.execSs C.E C.P f body g1 l with
  | done g2 l2 =>
    rw [hex] at hbody
    obtain ⟨σ2, hok2, hh2, hf2⟩ := hbody
    exact RS.bind_ok hok2 hf2 (hloop F ctx gs σ2 g2 l2 m lc B k inFn inl (by omega) hD' he hh2 hw0)
  | cont g2 l2 =>
    rw [hex] at hbody
    obtain ⟨σ2, hok2, hh2, hf2⟩ := hbody
    exact RS.bind_ok hok2 hf2 (hloop F ctx gs σ2 g2 l2 m lc B k inFn inl (by omega) hD' he hh2 hw0)
  | brk g2 l2 =>
    rw [hex] at hbody
    obtain ⟨σ2, hok2, hh2, hf2⟩ := hbody
    exact ⟨σ2, EOk.bind hok2 (EOk.pure _ gs σ2), hh2, hf2⟩
  | ret v g2 =>
    rw [hex] at hbody
    obtain ⟨w, σ2, hok2, hv2, hg2, hf2⟩ := hbody
    exact ⟨w, σ2, EOk.bind hok2 (EOk.pure _ gs σ2), hv2, hg2, hf2⟩
  | err => rw [hex] at hbody; obtain ⟨err, hne, herr⟩ := hbody; exact ⟨err, hne, EErr.bind_left herr⟩
  | out => exact True.intro
  | bad => exact True.intro

theorem for3Sim_succ (c : Ex) (body : Stms) (post : Stm) (hb : BlockSim C f body) (hp : StmtSim C f post)
    (hloop : For3Sim C f c body post) : For3Sim C (f + 1) c body post := by
  intro F ctx gs σ g l m lc B k inFn inl hF hD he hh hw
  have hD' : 2 * ctx.callDepth + f ≤ 1800 := by omega
  obtain ⟨F, rfl⟩ : ∃ F', F = F' + 1 := ⟨F - 1, by omega⟩
  have hw0 := hw
  simp only [wfS3, Bool.and_eq_true] at hw
  obtain ⟨⟨⟨hwc, hwb⟩, hsimple⟩, hwp⟩ := hw
  have ha := ihE c F ctx gs σ g l m lc B _ (by omega) hD' he hh hwc
  -- after the body (normal end or `continue`): the post statement, then the loop again
  have hrest : ∀ (σ2 : St) (g2 : Nat → V) (l2 : Locals V), HInv C B σ2 g2 m lc l2 →
      RS C (do
          let _ ← execStmt F { ctx with path := 3 :: ctx.path } (toAstS3 C.names C.lnames C.ctab post)
          loopFor F ctx (some (toAstE3 C.names C.lnames C.ctab c)) (some (toAstS3 C.names C.lnames C.ctab post))
            (toAstSs3 C.names C.lnames C.ctab body))
        (fun fl => fl) gs σ2 B m lc
        (match F3.execS C.E C.P f post g2 l2 with
          | .done g3 l3 => F3.execS C.E C.P f (.for3 c body post) g3 l3
          | r => r) := by
    intro σ2 g2 l2 hh2
    have hpost := hp F { ctx with path := 3 :: ctx.path } gs σ2 g2 l2 m lc B _ inFn inl (by omega) hD' he hh2 hwp
    have hsr := simple_res C.E C.P f post g2 l2 hsimple
    cases hex : F3.execS C.E C.P f post g2 l2 with
    | done g3 l3 =>
      rw [hex] at hpost
      obtain ⟨σ3, hok3, hh3, hf3⟩ := hpost
      exact RS.bind_ok hok3 hf3 (hloop F ctx gs σ3 g3 l3 m lc B k inFn inl (by omega) hD' he hh3 hw0)
    | brk g3 l3 => rw [hex] at hsr; exact hsr.elim
    | cont g3 l3 => rw [hex] at hsr; exact hsr.elim
    | ret v g3 => rw [hex] at hsr; exact hsr.elim
    | err => rw [hex] at hpost; obtain ⟨err, hne, herr⟩ := hpost; exact ⟨err, hne, EErr.bind_left herr⟩
    | out => exact True.intro
    | bad => exact True.intro
  simp only [ex_loop_post, F3.execS]
  cases hea : F3.evalE C.E C.P f c g l with
  | val x g1 =>
    rw [hea] at ha
    obtain ⟨wx, σ1, hok1, hvx, hh1, hf1⟩ := ha
    refine RS.bind_ok hok1 hf1 (RS.bind_ok (vr_falsy hy hvx gs σ1) (FrB.refl B σ1) ?_)
    dsimp only
    cases hfa : C.E.S.falsy x with
    | true =>
      simp only [Bool.not_true, Bool.not_false, Bool.false_eq_true, if_false, if_true]
      exact ⟨σ1, EOk.pure _ gs σ1, hh1, FrB.refl B σ1⟩
    | false =>
      simp only [Bool.not_false, Bool.not_true, Bool.false_eq_true, if_false, if_true]
      have hbody := hb F ctx gs σ1 g1 l m lc B _ 1 inFn true (by omega) hD' he hh1 hwb
      cases hex : F3.execSs C.E C.P f body g1 l with
      | done g2 l2 =>
        rw [hex] at hbody
        obtain ⟨σ2, hok2, hh2, hf2⟩ := hbody
        exact RS.bind_ok hok2 hf2 (hrest σ2 g2 l2 hh2)
      | cont g2 l2 =>
        rw [hex] at hbody
        obtain ⟨σ2, hok2, hh2, hf2⟩ := hbody
        exact RS.bind_ok hok2 hf2 (hrest σ2 g2 l2 hh2)
      | brk g2 l2 =>
        rw [hex] at hbody
        obtain ⟨σ2, hok2, hh2, hf2⟩ := hbody
        exact ⟨σ2, EOk.bind hok2 (EOk.pure _ gs σ2), hh2, hf2⟩
      | ret v g2 =>
        rw [hex] at hbody
        obtain ⟨w, σ2, hok2, hv2, hg2, hf2⟩ := hbody
        exact ⟨w, σ2, EOk.bind hok2 (EOk.pure _ gs σ2), hv2, hg2, hf2⟩
      | err => rw [hex] at hbody; obtain ⟨err, hne, herr⟩ := hbody; exact ⟨err, hne, EErr.bind_left herr⟩
      | out => exact True.intro
      | bad => exact True.intro
  | err => rw [hea] at ha; obtain ⟨err, hne, herr⟩ := ha; exact ⟨err, hne, EErr.bind_left herr⟩
  | out => exact True.intro
  | bad => exact True.intro

omit hy ihE in
theorem stmtSim_whil (c : Ex) (body : Stms) (hloop : WhileSim C (f + 1) c body) :
    StmtSim C (f + 1) (.whil c body) := by
  intro F ctx gs σ g l m lc B k inFn inl hF hD he hh hw
  obtain ⟨F, rfl⟩ : ∃ F', F = F' + 1 := ⟨F - 1, by omega⟩
  simp only [toAstS3, ex_while]
  exact (hloop F { ctx with env := { vars := [] } :: ctx.env } gs σ g l m lc B k inFn inl (by omega) hD he.push hh
    hw).wrap (fun fl σ' => EOk.pure _ gs σ')

omit hy ihE in
theorem stmtSim_forever (body : Stms) (hloop : ForeverSim C (f + 1) body) :
    StmtSim C (f + 1) (.forever body) := by
  intro F ctx gs σ g l m lc B k inFn inl hF hD he hh hw
  obtain ⟨F, rfl⟩ : ∃ F', F = F' + 1 := ⟨F - 1, by omega⟩
  simp only [toAstS3, ex_forever]
  exact (hloop F { ctx with env := { vars := [] } :: ctx.env } gs σ g l m lc B k inFn inl (by omega) hD he.push hh
    hw).wrap (fun fl σ' => EOk.pure _ gs σ')

omit hy ihE in
theorem stmtSim_for3 (c : Ex) (body : Stms) (post : Stm) (hloop : For3Sim C (f + 1) c body post) :
    StmtSim C (f + 1) (.for3 c body post) := by
  intro F ctx gs σ g l m lc B k inFn inl hF hD he hh hw
  obtain ⟨F, rfl⟩ : ∃ F', F = F' + 1 := ⟨F - 1, by omega⟩
  simp only [toAstS3, ex_for3]
  exact (hloop F { ctx with env := { vars := [] } :: ctx.env } gs σ g l m lc B k inFn inl (by omega) hD he.push hh
    hw).wrap (fun fl σ' => EOk.pure _ gs σ')

omit hy ihE in
theorem stmtsSim_nil : StmtsSim C (f + 1) .nil := by
  intro F ctx gs σ g l m lc B k i inFn inl hF hD he hh hw
  obtain ⟨F, rfl⟩ : ∃ F', F = F' + 1 := ⟨F - 1, by omega⟩
  simp only [toAstSs3, execStmts.eq_2, F3.execSs]
  exact ⟨σ, EOk.pure _ gs σ, hh, FrB.refl B σ⟩

omit hy ihE in
theorem stmtsSim_cons (st : Stm) (ss : Stms) (h1 : StmtSim C f st) (h2 : StmtsSim C f ss) :
    StmtsSim C (f + 1) (.cons st ss) := by
  intro F ctx gs σ g l m lc B k i inFn inl hF hD he hh hw
  have hD' : 2 * ctx.callDepth + f ≤ 1800 := by omega
  obtain ⟨F, rfl⟩ : ∃ F', F = F' + 1 := ⟨F - 1, by omega⟩
  simp only [wfSs3, Bool.and_eq_true] at hw
  obtain ⟨hw1, hw2⟩ := hw
  simp only [toAstSs3, execStmts.eq_3, F3.execSs]
  have ha := h1 F { env := ctx.env, callDepth := ctx.callDepth, path := i :: ctx.path } gs σ g l m lc B k inFn inl
    (by omega) hD' he hh hw1
  cases hs : F3.execS C.E C.P f st g l with
  | done g1 l1 =>
    rw [hs] at ha
    obtain ⟨σ1, hok1, hh1, hf1⟩ := ha
    exact RS.bind_ok hok1 hf1 (h2 F { env := ctx.env, callDepth := ctx.callDepth, path := ctx.path } gs σ1 g1 l1 m lc B
      _ (i + 1) inFn inl (by omega) hD' he hh1 hw2)
  | brk g1 l1 =>
    rw [hs] at ha
    obtain ⟨σ1, hok1, hh1, hf1⟩ := ha
    exact ⟨σ1, EOk.bind hok1 (EOk.pure _ gs σ1), hh1, hf1⟩
  | cont g1 l1 =>
    rw [hs] at ha
    obtain ⟨σ1, hok1, hh1, hf1⟩ := ha
    exact ⟨σ1, EOk.bind hok1 (EOk.pure _ gs σ1), hh1, hf1⟩
  | ret v g1 =>
    rw [hs] at ha
    obtain ⟨w, σ1, hok1, hv1, hg1, hf1⟩ := ha
    exact ⟨w, σ1, EOk.bind hok1 (EOk.pure _ gs σ1), hv1, hg1, hf1⟩
  | err => rw [hs] at ha; obtain ⟨err, hne, herr⟩ := ha; exact ⟨err, hne, EErr.bind_left herr⟩
  | out => exact True.intro
  | bad => exact True.intro

end

end Tengo.Proofs.C01BridgeF3Spec

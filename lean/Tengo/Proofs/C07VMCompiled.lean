import Tengo.Proofs.C07VMLoops
import Tengo.Proofs.C02CompileProg
/-!
`for {}` and `f := func() { return f() }; f()` COMPILED by the compiler model (`Compiler.compileFile`, the
model tied byte for byte to compiler.go by the `comp` stream) and run from `VM.initCore` — the 2048-slot
stack, any globals array large enough, the function objects `initFobjs` creates: exactly what the driver
lines `vm` / `runabort` run for these two sources.

* `for_compiles`, `tail_compiles`: what `compileFile` emits (kernel evaluation of the compiler model).
* `for_loaded`, `tail_loaded`: the code object + initial function objects the driver builds from it.
* `forC_cycle`: `JMP 0` from `initCore` comes back to `initCore` after one dispatch.
* `tailC_prefix`, `tailC_cycle`: six dispatches (`CONST 0; SETG 0; GETG 0; CALL 0 0` in main, then `GETG 0;
  CALL 0 0` in `f`: the first self tail call) lead to a configuration that comes back to itself after two.
* `neverEnds_of_cfgAt`, `aborts_of_cfgAt`: a run that reaches (after `p` dispatches) a configuration from which
  the run never ends never ends itself, and the abortable loop stops it after exactly `k` dispatches.
-/
namespace Tengo.Proofs.C07VMCompiled
open Tengo.Model Tengo.Model.Compiler Tengo.Model.Spec Tengo.Model.VM Tengo.Model.VMAbort Tengo.Model.Opcodes
open Tengo.Proofs.C07VMLoops Tengo.Proofs.C02Compile

/-! ### the two sources and what the compiler model emits for them -/

/-- `for {}` -/
def forSrc : List Stmt := [.fors none none none []]

/-- `f := func() { return f() }; f()` -/
def tailSrc : List Stmt :=
  [ .assign "Define" [.ident "f"] [.func false [] [.ret (some (.call false (.ident "f") []))]],
    .expr (.call false (.ident "f") []) ]

/-- `JMP 0; SUSPEND` -/
def forBc : Bytecode' := ⟨[12, 0, 0, 0, 0, 41], [], 0⟩

/-- main: `CONST 0; SETG 0; GETG 0; CALL 0 0; POP; SUSPEND`; constant 0: `GETG 0; CALL 0 0; RET 1`. -/
def tailBc : Bytecode' :=
  ⟨[0, 0, 0, 23, 0, 0, 22, 0, 0, 20, 0, 0, 2, 41], [Compiler.Const.fn [22, 0, 0, 20, 0, 0, 21, 1] 0 0 false], 1⟩

deriving instance DecidableEq for Compiler.Const
deriving instance DecidableEq for Bytecode'
deriving instance DecidableEq for CompileErr
deriving instance DecidableEq for Except

theorem for_compiles : compileFile forSrc [] = .ok forBc := by decide +kernel
theorem tail_compiles : compileFile tailSrc [] = .ok tailBc := by decide +kernel

/-- The code object and the initial function objects the driver (`vm` / `runabort` lines) runs for a compiled
program: `Bytecode'` as a whole-VM code object, then `initFobjs`. -/
def loaded (bc : Bytecode') : Code × Array FnObj := initFobjs (toCode bc)

def tailMainC : Fn :=
  { insts := #[0, 0, 0, 23, 0, 0, 22, 0, 0, 20, 0, 0, 2, 41], numLocals := 0, numParams := 0, varargs := false }
def tailCodeC : Code := { main := tailMainC, consts := #[.fn tailFn 0] }
def tailFobjs : Array FnObj := #[(0, [])]

theorem for_loaded : loaded forBc = (forCode, #[]) := by rfl
theorem tail_loaded : loaded tailBc = (tailCodeC, tailFobjs) := by rfl

/-! ### general: a prefix that leads into a never-ending run -/

/-- A run that reaches, after `p` dispatches, a configuration from which the run never ends, never ends. -/
theorem neverEnds_of_cfgAt (code : Code) (p : Nat) (allocs : Int) (cfg cfg' : Cfg) (allocs' : Int)
    (h : cfgAt code p allocs cfg = some (cfg', allocs'))
    (hinf : ∀ (keep fuel : Nat) (log : Log), ∃ c, (run code keep fuel allocs' cfg' log).1 = .outOfFuel c) :
    ∀ (keep fuel : Nat) (log : Log), ∃ c, (run code keep fuel allocs cfg log).1 = .outOfFuel c := by
  intro keep fuel log
  rcases Nat.lt_or_ge fuel p with hlt | hge
  · exact run_going_le code keep (Nat.le_of_lt hlt) allocs cfg log cfg'
      (run_cfgAt_going code keep p allocs cfg log cfg' allocs' h)
  · obtain ⟨j, rfl⟩ := Nat.exists_eq_add_of_le hge
    obtain ⟨log', _, heq⟩ := run_add_cfgAt code keep p j allocs cfg log cfg' allocs' h
    rw [heq]
    exact hinf keep j log'

/-! ### `for {}` from `initCore` -/

theorem forC_exec (globals : Array Value) (fobjs : Array FnObj) :
    exec forCode (initCore globals fobjs) = pure (.next (initCore globals fobjs) false) := by
  have h1 : forCode.fn (initCore globals fobjs).cur.fnIdx = some forMain := rfl
  have h2 : (initCore globals fobjs).cur.ip + 1 = 0 := rfl
  unfold exec
  rw [h1, h2]
  simp only [for_fetch]
  rfl

theorem forC_dispatch (globals : Array Value) (fobjs : Array FnObj) (a : Int) (g : GSt) (h : St) :
    dispatch forCode a ⟨initCore globals fobjs, g, h⟩ = .go ⟨initCore globals fobjs, g, h⟩ a false := by
  unfold dispatch
  simp only [forC_exec]
  rfl

theorem forC_cycle (globals : Array Value) (fobjs : Array FnObj) (a : Int) (g : GSt) (h : St) :
    cfgAt forCode 1 a ⟨initCore globals fobjs, g, h⟩ = some (⟨initCore globals fobjs, g, h⟩, a) := by
  simp [cfgAt, forC_dispatch]

/-! ### the self tail call from `initCore` -/

def mainFrame (ip : Int) : VM.Frame := { fnIdx := 0, fnRef := none, ip := ip, bp := 0, free := [] }

def tc (stack : Array Value) (sp : Nat) (globals : Array Value) (cur : VM.Frame) (callers : List VM.Frame) : Core :=
  { regs := { stack := stack, sp := sp, globals := globals, fobjs := tailFobjs }, cur := cur, callers := callers }

/-- the fresh stack of `initCore` -/
def S0 : Array Value := Array.replicate stackSize .undef
/-- after `CONST 0` (and again after `GETG 0` in main): slot 0 holds the function -/
def S1 : Array Value := S0.setIfInBounds 0 (.cfn 0)
/-- after `GETG 0` inside `f`: slot 1 holds the callee of the self tail call -/
def S2 : Array Value := S1.setIfInBounds 1 (.cfn 0)

/-- the globals after `SETG 0` -/
def G1 (x : Value) (xs : List Value) : Array Value := (⟨x :: xs⟩ : Array Value).setIfInBounds 0 (.cfn 0)

def c0 (x : Value) (xs : List Value) : Core := tc S0 0 ⟨x :: xs⟩ (mainFrame (-1)) []
def c1 (x : Value) (xs : List Value) : Core := tc S1 1 ⟨x :: xs⟩ (mainFrame 2) []
def c2 (x : Value) (xs : List Value) : Core := tc S1 0 (G1 x xs) (mainFrame 5) []
def c3 (x : Value) (xs : List Value) : Core := tc S1 1 (G1 x xs) (mainFrame 8) []
/-- at the entry of `f` (frame 2, called from main at `CALL`), slot 1 not yet written / written -/
def cA (st : Array Value) (x : Value) (xs : List Value) : Core := tc st 1 (G1 x xs) (tailFrame (-1)) [mainFrame 11]
/-- after `GETG 0` in `f`: the callee is on the stack, the next instruction is the self call in tail position -/
def cB (x : Value) (xs : List Value) : Core := tc S2 2 (G1 x xs) (tailFrame 2) [mainFrame 11]

theorem c0_init (x : Value) (xs : List Value) : initCore ⟨x :: xs⟩ tailFobjs = c0 x xs := rfl

theorem tm_fetch0 : fetch tailMainC 0 = { op := opConstant, a0 := 0, a1 := 0, size := 3 } := by decide
theorem tm_fetch3 : fetch tailMainC 3 = { op := opSetGlobal, a0 := 0, a1 := 0, size := 3 } := by decide
theorem tm_fetch6 : fetch tailMainC 6 = { op := opGetGlobal, a0 := 0, a1 := 0, size := 3 } := by decide
theorem tm_fetch9 : fetch tailMainC 9 = { op := opCall, a0 := 0, a1 := 0, size := 3 } := by decide

set_option maxRecDepth 100000 in
theorem tC_exec0 (x : Value) (xs : List Value) : exec tailCodeC (c0 x xs) = pure (.next (c1 x xs) false) := by
  have h1 : tailCodeC.fn (c0 x xs).cur.fnIdx = some tailMainC := rfl
  have h2 : (c0 x xs).cur.ip + 1 = 0 := rfl
  unfold exec
  rw [h1, h2]
  simp only [tm_fetch0]
  rfl

set_option maxRecDepth 100000 in
theorem tC_exec1 (x : Value) (xs : List Value) : exec tailCodeC (c1 x xs) = pure (.next (c2 x xs) false) := by
  have h1 : tailCodeC.fn (c1 x xs).cur.fnIdx = some tailMainC := rfl
  have h2 : (c1 x xs).cur.ip + 1 = 3 := rfl
  unfold exec
  rw [h1, h2]
  simp only [tm_fetch3]
  rfl

set_option maxRecDepth 100000 in
theorem tC_exec2 (x : Value) (xs : List Value) : exec tailCodeC (c2 x xs) = pure (.next (c3 x xs) false) := by
  have h1 : tailCodeC.fn (c2 x xs).cur.fnIdx = some tailMainC := rfl
  have h2 : (c2 x xs).cur.ip + 1 = 6 := rfl
  unfold exec
  rw [h1, h2]
  simp only [tm_fetch6]
  rfl

set_option maxRecDepth 100000 in
theorem tC_exec3 (x : Value) (xs : List Value) : exec tailCodeC (c3 x xs) = pure (.next (cA S1 x xs) false) := by
  have h1 : tailCodeC.fn (c3 x xs).cur.fnIdx = some tailMainC := rfl
  have h2 : (c3 x xs).cur.ip + 1 = 9 := rfl
  unfold exec
  rw [h1, h2]
  simp only [tm_fetch9]
  rfl

set_option maxRecDepth 100000 in
/-- `GETG 0` in `f`, first time: slot 1 is written. -/
theorem tC_exec4 (x : Value) (xs : List Value) : exec tailCodeC (cA S1 x xs) = pure (.next (cB x xs) false) := by
  have h1 : tailCodeC.fn (cA S1 x xs).cur.fnIdx = some tailFn := rfl
  have h2 : (cA S1 x xs).cur.ip + 1 = 0 := rfl
  unfold exec
  rw [h1, h2]
  simp only [tail_fetch0]
  rfl

set_option maxRecDepth 100000 in
/-- The self tail call reuses the frame: same callers, same base pointer, `ip` back to -1. -/
theorem tC_exec5 (x : Value) (xs : List Value) : exec tailCodeC (cB x xs) = pure (.next (cA S2 x xs) false) := by
  have h1 : tailCodeC.fn (cB x xs).cur.fnIdx = some tailFn := rfl
  have h2 : (cB x xs).cur.ip + 1 = 3 := rfl
  unfold exec
  rw [h1, h2]
  simp only [tail_fetch1]
  rfl

set_option maxRecDepth 100000 in
/-- `GETG 0` in `f`, every later time: slot 1 already holds the function; the configuration is `cB` again. -/
theorem tC_exec6 (x : Value) (xs : List Value) : exec tailCodeC (cA S2 x xs) = pure (.next (cB x xs) false) := by
  have h1 : tailCodeC.fn (cA S2 x xs).cur.fnIdx = some tailFn := rfl
  have h2 : (cA S2 x xs).cur.ip + 1 = 0 := rfl
  unfold exec
  rw [h1, h2]
  simp only [tail_fetch0]
  rfl

/-- The call inside `f` IS a self tail call (callee = the running function object, next instruction RET). -/
theorem tC_isSelfTail (x : Value) (xs : List Value) : isSelfTail tailFn (cB x xs).cur 0 (3 + 2) = true := by rfl

theorem tC_dispatch (a : Int) (g : GSt) (h : St) (c c' : Core) (he : exec tailCodeC c = pure (.next c' false)) :
    dispatch tailCodeC a ⟨c, g, h⟩ = .go ⟨c', g, h⟩ a false := by
  unfold dispatch
  simp only [he]
  rfl

/-- Six dispatches from `initCore`: main's `CONST 0; SETG 0; GETG 0; CALL 0 0`, then `GETG 0; CALL 0 0` of `f`
(the first self tail call) — at the entry of `f` with the frame of the first call reused. -/
theorem tailC_prefix (x : Value) (xs : List Value) (a : Int) (g : GSt) (h : St) :
    cfgAt tailCodeC 6 a ⟨c0 x xs, g, h⟩ = some (⟨cA S2 x xs, g, h⟩, a) := by
  simp only [cfgAt, tC_dispatch a g h _ _ (tC_exec0 x xs), tC_dispatch a g h _ _ (tC_exec1 x xs),
    tC_dispatch a g h _ _ (tC_exec2 x xs), tC_dispatch a g h _ _ (tC_exec3 x xs),
    tC_dispatch a g h _ _ (tC_exec4 x xs), tC_dispatch a g h _ _ (tC_exec5 x xs)]

/-- … from where every two dispatches (`GETG 0`, the self tail call) come back to the same configuration. -/
theorem tailC_cycle (x : Value) (xs : List Value) (a : Int) (g : GSt) (h : St) :
    cfgAt tailCodeC 2 a ⟨cA S2 x xs, g, h⟩ = some (⟨cA S2 x xs, g, h⟩, a) := by
  simp only [cfgAt, tC_dispatch a g h _ _ (tC_exec6 x xs), tC_dispatch a g h _ _ (tC_exec5 x xs)]

/-- `f := func() { return f() }; f()` from `initCore` (any globals array with at least the one slot the
compiler asks for) never ends. -/
theorem tailC_never_ends (globals : Array Value) (hg : 0 < globals.size) (a : Int) (g : GSt) (h : St) :
    ∀ (keep fuel : Nat) (log : Log),
      ∃ c, (run tailCodeC keep fuel a ⟨initCore globals tailFobjs, g, h⟩ log).1 = .outOfFuel c := by
  obtain ⟨l⟩ := globals
  cases l with
  | nil => simp at hg
  | cons x xs =>
    rw [c0_init]
    exact neverEnds_of_cfgAt tailCodeC 6 a _ _ a (tailC_prefix x xs a g h)
      (fun keep fuel log => cycle_never_ends tailCodeC keep 2 (by decide) a _ (tailC_cycle x xs a g h) fuel log)

end Tengo.Proofs.C07VMCompiled

import Tengo.Proofs.VMSafeBase
namespace Tengo.Model.VM
open Tengo.Model.Spec Tengo.Model.Opcodes

/-- Effect of a simple instruction on the registers: `pops` slots consumed, `pushes` produced, the
global array keeps its size, the function objects are untouched. -/
structure Eff (r : Regs) (pops pushes : Nat) (o : SimpleOut) : Prop where
  sp : o.regs.sp + pops = r.sp + pushes
  gl : o.regs.globals.size = r.globals.size
  fo : o.regs.fobjs = r.fobjs

macro "safe_walk" : tactic => `(tactic| repeat' (first
  | with_reducible apply SafeX_rtE | with_reducible apply SafeX_unsupE | with_reducible apply SafeX_panicE
  | (with_reducible refine SafeX_bind (SafeX_need (by omega)) ?_; intro _ _)
  | (with_reducible refine SafeX_bind (SafeX_em (push_spec _ _)) ?_; rintro _ ⟨_, _, _⟩)
  | (with_reducible refine SafeX_bind (SafeX_em (setSlot_spec _ _ _)) ?_; rintro _ ⟨_, _, _⟩)
  | (with_reducible apply SafeX_bind_em; intro _)
  | split))

/-- Close a leaf `SafeX (pure o) (fun o => Eff … o ∧ o.ip = …)`. -/
macro "eff_leaf" : tactic => `(tactic| (
  apply SafeX_pure
  refine ⟨⟨?_, ?_, ?_⟩, ?_⟩ <;> dsimp only <;> (try simp only [*]) <;> (try simp) <;> (try omega)))

theorem Post_bind_true {α β} {x : VMM α} {f : α → VMM β} {P : β → Prop}
    (hf : ∀ a, Post (f a) P) : Post (x >>= f) P :=
  Post_bind (Post_true x) (fun a _ => hf a)

section
variable (code : Code) (f : Fn) (fr : Frame) (ip : Int) (op : Nat) (r : Regs)

theorem exConstant_spec (h : (code.consts[op16 f ip]?).isSome) :
    SafeX (exConstant code f fr ip op r) (fun o => Eff r 0 1 o ∧ o.ip = ip + 2) := by
  unfold exConstant
  try dsimp only
  safe_walk
  · eff_leaf
  · eff_leaf
  · rename_i hn; rw [hn] at h; cases h

theorem exNull_spec : SafeX (exNull code f fr ip op r) (fun o => Eff r 0 1 o ∧ o.ip = ip) := by
  unfold exNull; (try dsimp only); safe_walk; eff_leaf
theorem exTrue_spec : SafeX (exTrue code f fr ip op r) (fun o => Eff r 0 1 o ∧ o.ip = ip) := by
  unfold exTrue; (try dsimp only); safe_walk; eff_leaf
theorem exFalse_spec : SafeX (exFalse code f fr ip op r) (fun o => Eff r 0 1 o ∧ o.ip = ip) := by
  unfold exFalse; (try dsimp only); safe_walk; eff_leaf
theorem exPop_spec (h : 1 ≤ r.sp) : SafeX (exPop code f fr ip op r) (fun o => Eff r 1 0 o ∧ o.ip = ip) := by
  unfold exPop; (try dsimp only); safe_walk; eff_leaf
theorem exBinaryOp_spec (h : 2 ≤ r.sp) :
    SafeX (exBinaryOp code f fr ip op r) (fun o => Eff r 2 1 o ∧ o.ip = ip + 1) := by
  unfold exBinaryOp; (try dsimp only); safe_walk; eff_leaf
theorem exEqual_spec (h : 2 ≤ r.sp) : SafeX (exEqual code f fr ip op r) (fun o => Eff r 2 1 o ∧ o.ip = ip) := by
  unfold exEqual; (try dsimp only); safe_walk; eff_leaf
theorem exLNot_spec (h : 1 ≤ r.sp) : SafeX (exLNot code f fr ip op r) (fun o => Eff r 1 1 o ∧ o.ip = ip) := by
  unfold exLNot; (try dsimp only); safe_walk; eff_leaf
theorem exBComplement_spec (h : 1 ≤ r.sp) :
    SafeX (exBComplement code f fr ip op r) (fun o => Eff r 1 1 o ∧ o.ip = ip) := by
  unfold exBComplement; (try dsimp only); safe_walk; all_goals eff_leaf
theorem exMinus_spec (h : 1 ≤ r.sp) : SafeX (exMinus code f fr ip op r) (fun o => Eff r 1 1 o ∧ o.ip = ip) := by
  unfold exMinus; (try dsimp only); safe_walk; all_goals eff_leaf


theorem exJumpFalsy_spec (h : 1 ≤ r.sp) :
    SafeX (exJumpFalsy code f fr ip op r) (fun o => Eff r 1 0 o ∧ (o.ip = Int.ofNat (op32 f ip) - 1 ∨ o.ip = ip + 4)) := by
  unfold exJumpFalsy; (try dsimp only); safe_walk
  all_goals (apply SafeX_pure; refine ⟨⟨?_, rfl, rfl⟩, ?_⟩ <;> dsimp only <;> first | omega | simp)

theorem exAndJump_spec (h : 1 ≤ r.sp) :
    SafeX (exAndJump code f fr ip op r) (fun o =>
      (Eff r 0 0 o ∧ o.ip = Int.ofNat (op32 f ip) - 1) ∨ (Eff r 1 0 o ∧ o.ip = ip + 4)) := by
  unfold exAndJump; (try dsimp only); safe_walk
  · apply SafeX_pure; left; exact ⟨⟨rfl, rfl, rfl⟩, rfl⟩
  · apply SafeX_pure; right; refine ⟨⟨?_, rfl, rfl⟩, rfl⟩; dsimp only; omega

theorem exOrJump_spec (h : 1 ≤ r.sp) :
    SafeX (exOrJump code f fr ip op r) (fun o =>
      (Eff r 0 0 o ∧ o.ip = Int.ofNat (op32 f ip) - 1) ∨ (Eff r 1 0 o ∧ o.ip = ip + 4)) := by
  unfold exOrJump; (try dsimp only); safe_walk
  · apply SafeX_pure; right; refine ⟨⟨?_, rfl, rfl⟩, rfl⟩; dsimp only; omega
  · apply SafeX_pure; left; exact ⟨⟨rfl, rfl, rfl⟩, rfl⟩

theorem exJump_spec : SafeX (exJump code f fr ip op r) (fun o => Eff r 0 0 o ∧ o.ip = Int.ofNat (op32 f ip) - 1) := by
  unfold exJump
  exact SafeX_pure ⟨⟨rfl, rfl, rfl⟩, rfl⟩

theorem exSetGlobal_spec (h : 1 ≤ r.sp) (hg : op16 f ip < r.globals.size) :
    SafeX (exSetGlobal code f fr ip op r) (fun o => Eff r 1 0 o ∧ o.ip = ip + 2) := by
  unfold exSetGlobal; (try dsimp only); safe_walk
  · eff_leaf
  · omega

theorem exGetGlobal_spec (hg : op16 f ip < r.globals.size) :
    SafeX (exGetGlobal code f fr ip op r) (fun o => Eff r 0 1 o ∧ o.ip = ip + 2) := by
  unfold exGetGlobal; (try dsimp only); safe_walk
  · eff_leaf
  · omega

theorem exSetSelGlobal_spec (h : byteAt f (ip + 3) + 1 ≤ r.sp) (hg : op16 f ip < r.globals.size) :
    SafeX (exSetSelGlobal code f fr ip op r) (fun o => Eff r (byteAt f (ip + 3) + 1) 0 o ∧ o.ip = ip + 3) := by
  unfold exSetSelGlobal; (try dsimp only); safe_walk
  · eff_leaf
  · omega

theorem exArray_spec (h : op16 f ip ≤ r.sp) :
    SafeX (exArray code f fr ip op r) (fun o => Eff r (op16 f ip) 1 o ∧ o.ip = ip + 2) := by
  unfold exArray; (try dsimp only); safe_walk; eff_leaf

theorem exMap_spec (h : op16 f ip ≤ r.sp) :
    SafeX (exMap code f fr ip op r) (fun o => Eff r (op16 f ip) 1 o ∧ o.ip = ip + 2) := by
  unfold exMap; (try dsimp only); safe_walk; eff_leaf

theorem exError_spec (h : 1 ≤ r.sp) : SafeX (exError code f fr ip op r) (fun o => Eff r 1 1 o ∧ o.ip = ip) := by
  unfold exError; (try dsimp only); safe_walk; eff_leaf

theorem exImmutable_spec (h : 1 ≤ r.sp) : SafeX (exImmutable code f fr ip op r) (fun o => Eff r 1 1 o ∧ o.ip = ip) := by
  unfold exImmutable; (try dsimp only); safe_walk; all_goals eff_leaf

theorem exIndex_spec (h : 2 ≤ r.sp) : SafeX (exIndex code f fr ip op r) (fun o => Eff r 2 1 o ∧ o.ip = ip) := by
  unfold exIndex; (try dsimp only); safe_walk; eff_leaf

theorem exSliceIndex_spec (h : 3 ≤ r.sp) : SafeX (exSliceIndex code f fr ip op r) (fun o => Eff r 3 1 o ∧ o.ip = ip) := by
  unfold exSliceIndex; (try dsimp only); safe_walk; eff_leaf

theorem exDefineLocal_spec (h : 1 ≤ r.sp) :
    SafeX (exDefineLocal code f fr ip op r) (fun o => Eff r 1 0 o ∧ o.ip = ip + 1) := by
  unfold exDefineLocal; (try dsimp only); safe_walk; eff_leaf

theorem exSetLocal_spec (h : 1 ≤ r.sp) :
    SafeX (exSetLocal code f fr ip op r) (fun o => Eff r 1 0 o ∧ o.ip = ip + 1) := by
  unfold exSetLocal; (try dsimp only); safe_walk; all_goals eff_leaf

theorem exSetSelLocal_spec (h : byteAt f (ip + 2) + 1 ≤ r.sp) :
    SafeX (exSetSelLocal code f fr ip op r) (fun o => Eff r (byteAt f (ip + 2) + 1) 0 o ∧ o.ip = ip + 2) := by
  unfold exSetSelLocal; (try dsimp only); safe_walk; eff_leaf

theorem exGetLocal_spec : SafeX (exGetLocal code f fr ip op r) (fun o => Eff r 0 1 o ∧ o.ip = ip + 1) := by
  unfold exGetLocal; (try dsimp only); safe_walk; eff_leaf

theorem exGetBuiltin_spec (h : (builtinNames[byteAt f (ip + 1)]?).isSome) :
    SafeX (exGetBuiltin code f fr ip op r) (fun o => Eff r 0 1 o ∧ o.ip = ip + 1) := by
  unfold exGetBuiltin; (try dsimp only); safe_walk
  · eff_leaf
  · rename_i hn; rw [hn] at h; cases h

theorem exGetFreePtr_spec (h : (fr.free[byteAt f (ip + 1)]?).isSome) :
    SafeX (exGetFreePtr code f fr ip op r) (fun o => Eff r 0 1 o ∧ o.ip = ip + 1) := by
  unfold exGetFreePtr; (try dsimp only); safe_walk
  · eff_leaf
  · rename_i hn; rw [hn] at h; cases h

theorem exGetFree_spec (h : (fr.free[byteAt f (ip + 1)]?).isSome) :
    SafeX (exGetFree code f fr ip op r) (fun o => Eff r 0 1 o ∧ o.ip = ip + 1) := by
  unfold exGetFree; (try dsimp only)
  split
  · refine SafeX_bind (SafeX_em (Post_bind_true (fun _ => push_spec _ _))) ?_
    rintro _ ⟨_, _, _⟩
    eff_leaf
  · rename_i hn; rw [hn] at h; cases h

theorem exSetFree_spec (h1 : 1 ≤ r.sp) (h : (fr.free[byteAt f (ip + 1)]?).isSome) :
    SafeX (exSetFree code f fr ip op r) (fun o => Eff r 1 0 o ∧ o.ip = ip + 1) := by
  unfold exSetFree; (try dsimp only); safe_walk
  · eff_leaf
  · rename_i hn; rw [hn] at h; cases h

theorem exGetLocalPtr_spec : SafeX (exGetLocalPtr code f fr ip op r) (fun o => Eff r 0 1 o ∧ o.ip = ip + 1) := by
  unfold exGetLocalPtr; (try dsimp only); safe_walk; all_goals eff_leaf

theorem exSetSelFree_spec (h1 : byteAt f (ip + 2) + 1 ≤ r.sp) (h : (fr.free[byteAt f (ip + 1)]?).isSome) :
    SafeX (exSetSelFree code f fr ip op r) (fun o => Eff r (byteAt f (ip + 2) + 1) 0 o ∧ o.ip = ip + 2) := by
  unfold exSetSelFree; (try dsimp only); safe_walk
  · eff_leaf
  · rename_i hn; rw [hn] at h; cases h

theorem exIteratorInit_spec (h : 1 ≤ r.sp) :
    SafeX (exIteratorInit code f fr ip op r) (fun o => Eff r 1 1 o ∧ o.ip = ip) := by
  unfold exIteratorInit; (try dsimp only); safe_walk; all_goals eff_leaf

theorem exIteratorNext_spec (h : 1 ≤ r.sp) :
    SafeX (exIteratorNext code f fr ip op r) (fun o => Eff r 1 1 o ∧ o.ip = ip) := by
  unfold exIteratorNext; (try dsimp only)
  refine SafeX_bind (SafeX_need (by omega)) ?_; intro _ _
  split
  · refine SafeX_bind (SafeX_em (Post_bind_true (fun _ => setSlot_spec _ _ _))) ?_
    rintro _ ⟨_, _, _⟩
    eff_leaf
  · exact SafeX_panicE _

theorem exIteratorKey_spec (h : 1 ≤ r.sp) :
    SafeX (exIteratorKey code f fr ip op r) (fun o => Eff r 1 1 o ∧ o.ip = ip) := by
  unfold exIteratorKey; (try dsimp only)
  refine SafeX_bind (SafeX_need (by omega)) ?_; intro _ _
  split
  · refine SafeX_bind (SafeX_em (Post_bind_true (fun _ => setSlot_spec _ _ _))) ?_
    rintro _ ⟨_, _, _⟩
    eff_leaf
  · exact SafeX_panicE _


theorem mapM_length {α β} (g : α → VMM β) : ∀ xs : List α, Post (xs.mapM g) (fun ys => ys.length = xs.length)
  | [] => by simp only [List.mapM_nil]; exact Post_pure rfl
  | x :: xs => by
    simp only [List.mapM_cons]
    refine Post_bind_true (fun b => ?_)
    refine Post_bind (mapM_length g xs) ?_
    intro bs hbs
    exact Post_pure (by simp [hbs])

theorem exClosure_spec (h : byteAt f (ip + 3) ≤ r.sp) (fn : Fn) (ref : Nat)
    (hk : code.consts[op16 f ip]? = some (.fn fn ref)) :
    SafeX (exClosure code f fr ip op r) (fun o =>
      o.regs.sp + byteAt f (ip + 3) = r.sp + 1 ∧ o.regs.globals.size = r.globals.size ∧
      (∃ free : List Nat, free.length = byteAt f (ip + 3) ∧ o.regs.fobjs = r.fobjs.push (op16 f ip, free)) ∧
      o.ip = ip + 3) := by
  unfold exClosure; (try dsimp only)
  refine SafeX_bind (SafeX_need (by omega)) ?_; intro _ _
  rw [hk]
  dsimp only
  refine SafeX_bind (SafeX_em (mapM_length _ _)) ?_
  intro free hfree
  refine SafeX_bind (SafeX_em (push_spec _ _)) ?_
  rintro r' ⟨h1, h2, h3⟩
  apply SafeX_pure
  dsimp only at h1 h2 h3 ⊢
  refine ⟨by omega, by rw [h2], ⟨free, ?_, h3⟩, rfl⟩
  simpa [slots] using hfree

end
end Tengo.Model.VM

import Tengo.Proofs.VMSafeBase
namespace Tengo.Model.VM
open Tengo.Model.Spec Tengo.Model.Opcodes

/-- Effect of a simple instruction on the registers: `pops` slots consumed, `pushes` produced, the
global array keeps its size, the function objects are untouched. -/
structure Eff (r : Regs) (pops pushes : Nat) (o : SimpleOut) : Prop where
  sp : o.regs.sp + pops = r.sp + pushes
  gl : o.regs.globals.size = r.globals.size
  fo : o.regs.fobjs = r.fobjs

macro "safe_walk" : tactic => `(tactic| repeat' (first
  | with_reducible apply SafeX_rtE | with_reducible apply SafeX_unsupE | with_reducible apply SafeX_panicE
  | (with_reducible refine SafeX_bind (SafeX_need (by omega)) ?_; intro _ _)
  | (with_reducible refine SafeX_bind (SafeX_em (push_spec _ _)) ?_; rintro _ ⟨_, _, _⟩)
  | (with_reducible refine SafeX_bind (SafeX_em (setSlot_spec _ _ _)) ?_; rintro _ ⟨_, _, _⟩)
  | (with_reducible apply SafeX_bind_em; intro _)
  | split))

/-- Close a leaf `SafeX (pure o) (fun o => Eff … o ∧ o.ip = …)`. -/
macro "eff_leaf" : tactic => `(tactic| (
  apply SafeX_pure
  refine ⟨⟨?_, ?_, ?_⟩, ?_⟩ <;> dsimp only <;> (try simp only [*]) <;> (try simp) <;> (try omega)))

theorem Post_bind_true {α β} {x : VMM α} {f : α → VMM β} {P : β → Prop}
    (hf : ∀ a, Post (f a) P) : Post (x >>= f) P :=
  Post_bind (Post_true x) (fun a _ => hf a)

section
variable (code : Code) (fr : Frame) (a0 a1 : Nat) (op : Nat) (r : Regs)

theorem exConstant_spec (h : (code.consts[a0]?).isSome) :
    SafeX (exConstant code fr a0 a1 op r) (fun o => Eff r 0 1 o ∧ o.next = .seq) := by
  unfold exConstant
  try dsimp only
  safe_walk
  · eff_leaf
  · eff_leaf
  · rename_i hn; rw [hn] at h; cases h

theorem exNull_spec : SafeX (exNull code fr a0 a1 op r) (fun o => Eff r 0 1 o ∧ o.next = .seq) := by
  unfold exNull; (try dsimp only); safe_walk; eff_leaf
theorem exTrue_spec : SafeX (exTrue code fr a0 a1 op r) (fun o => Eff r 0 1 o ∧ o.next = .seq) := by
  unfold exTrue; (try dsimp only); safe_walk; eff_leaf
theorem exFalse_spec : SafeX (exFalse code fr a0 a1 op r) (fun o => Eff r 0 1 o ∧ o.next = .seq) := by
  unfold exFalse; (try dsimp only); safe_walk; eff_leaf
theorem exPop_spec (h : 1 ≤ r.sp) : SafeX (exPop code fr a0 a1 op r) (fun o => Eff r 1 0 o ∧ o.next = .seq) := by
  unfold exPop; (try dsimp only); safe_walk; eff_leaf
theorem exBinaryOp_spec (h : 2 ≤ r.sp) :
    SafeX (exBinaryOp code fr a0 a1 op r) (fun o => Eff r 2 1 o ∧ o.next = .seq) := by
  unfold exBinaryOp; (try dsimp only); safe_walk; eff_leaf
theorem exEqual_spec (h : 2 ≤ r.sp) : SafeX (exEqual code fr a0 a1 op r) (fun o => Eff r 2 1 o ∧ o.next = .seq) := by
  unfold exEqual; (try dsimp only); safe_walk; eff_leaf
theorem exLNot_spec (h : 1 ≤ r.sp) : SafeX (exLNot code fr a0 a1 op r) (fun o => Eff r 1 1 o ∧ o.next = .seq) := by
  unfold exLNot; (try dsimp only); safe_walk; eff_leaf
theorem exBComplement_spec (h : 1 ≤ r.sp) :
    SafeX (exBComplement code fr a0 a1 op r) (fun o => Eff r 1 1 o ∧ o.next = .seq) := by
  unfold exBComplement; (try dsimp only); safe_walk; all_goals eff_leaf
theorem exMinus_spec (h : 1 ≤ r.sp) : SafeX (exMinus code fr a0 a1 op r) (fun o => Eff r 1 1 o ∧ o.next = .seq) := by
  unfold exMinus; (try dsimp only); safe_walk; all_goals eff_leaf


theorem exJumpFalsy_spec (h : 1 ≤ r.sp) :
    SafeX (exJumpFalsy code fr a0 a1 op r) (fun o => Eff r 1 0 o ∧ (o.next = .jump a0 ∨ o.next = .seq)) := by
  unfold exJumpFalsy; (try dsimp only); safe_walk
  all_goals (apply SafeX_pure; refine ⟨⟨?_, rfl, rfl⟩, ?_⟩ <;> dsimp only <;> first | omega | simp)

theorem exAndJump_spec (h : 1 ≤ r.sp) :
    SafeX (exAndJump code fr a0 a1 op r) (fun o =>
      (Eff r 0 0 o ∧ o.next = .jump a0) ∨ (Eff r 1 0 o ∧ o.next = .seq)) := by
  unfold exAndJump; (try dsimp only); safe_walk
  · apply SafeX_pure; left; exact ⟨⟨rfl, rfl, rfl⟩, rfl⟩
  · apply SafeX_pure; right; refine ⟨⟨?_, rfl, rfl⟩, rfl⟩; dsimp only; omega

theorem exOrJump_spec (h : 1 ≤ r.sp) :
    SafeX (exOrJump code fr a0 a1 op r) (fun o =>
      (Eff r 0 0 o ∧ o.next = .jump a0) ∨ (Eff r 1 0 o ∧ o.next = .seq)) := by
  unfold exOrJump; (try dsimp only); safe_walk
  · apply SafeX_pure; right; refine ⟨⟨?_, rfl, rfl⟩, rfl⟩; dsimp only; omega
  · apply SafeX_pure; left; exact ⟨⟨rfl, rfl, rfl⟩, rfl⟩

theorem exJump_spec : SafeX (exJump code fr a0 a1 op r) (fun o => Eff r 0 0 o ∧ o.next = .jump a0) := by
  unfold exJump
  exact SafeX_pure ⟨⟨rfl, rfl, rfl⟩, rfl⟩

theorem exSetGlobal_spec (h : 1 ≤ r.sp) (hg : a0 < r.globals.size) :
    SafeX (exSetGlobal code fr a0 a1 op r) (fun o => Eff r 1 0 o ∧ o.next = .seq) := by
  unfold exSetGlobal; (try dsimp only); safe_walk
  · eff_leaf
  · omega

theorem exGetGlobal_spec (hg : a0 < r.globals.size) :
    SafeX (exGetGlobal code fr a0 a1 op r) (fun o => Eff r 0 1 o ∧ o.next = .seq) := by
  unfold exGetGlobal; (try dsimp only); safe_walk
  · eff_leaf
  · omega

theorem exSetSelGlobal_spec (h : a1 + 1 ≤ r.sp) (hg : a0 < r.globals.size) :
    SafeX (exSetSelGlobal code fr a0 a1 op r) (fun o => Eff r (a1 + 1) 0 o ∧ o.next = .seq) := by
  unfold exSetSelGlobal; (try dsimp only); safe_walk
  · eff_leaf
  · omega

theorem exArray_spec (h : a0 ≤ r.sp) :
    SafeX (exArray code fr a0 a1 op r) (fun o => Eff r (a0) 1 o ∧ o.next = .seq) := by
  unfold exArray; (try dsimp only); safe_walk; eff_leaf

theorem exMap_spec (h : a0 ≤ r.sp) :
    SafeX (exMap code fr a0 a1 op r) (fun o => Eff r (a0) 1 o ∧ o.next = .seq) := by
  unfold exMap; (try dsimp only); safe_walk; eff_leaf

theorem exError_spec (h : 1 ≤ r.sp) : SafeX (exError code fr a0 a1 op r) (fun o => Eff r 1 1 o ∧ o.next = .seq) := by
  unfold exError; (try dsimp only); safe_walk; eff_leaf

theorem exImmutable_spec (h : 1 ≤ r.sp) : SafeX (exImmutable code fr a0 a1 op r) (fun o => Eff r 1 1 o ∧ o.next = .seq) := by
  unfold exImmutable; (try dsimp only); safe_walk; all_goals eff_leaf

theorem exIndex_spec (h : 2 ≤ r.sp) : SafeX (exIndex code fr a0 a1 op r) (fun o => Eff r 2 1 o ∧ o.next = .seq) := by
  unfold exIndex; (try dsimp only); safe_walk; eff_leaf

theorem exSliceIndex_spec (h : 3 ≤ r.sp) : SafeX (exSliceIndex code fr a0 a1 op r) (fun o => Eff r 3 1 o ∧ o.next = .seq) := by
  unfold exSliceIndex; (try dsimp only); safe_walk; eff_leaf

theorem exDefineLocal_spec (h : 1 ≤ r.sp) :
    SafeX (exDefineLocal code fr a0 a1 op r) (fun o => Eff r 1 0 o ∧ o.next = .seq) := by
  unfold exDefineLocal; (try dsimp only); safe_walk; eff_leaf

theorem exSetLocal_spec (h : 1 ≤ r.sp) :
    SafeX (exSetLocal code fr a0 a1 op r) (fun o => Eff r 1 0 o ∧ o.next = .seq) := by
  unfold exSetLocal; (try dsimp only); safe_walk; all_goals eff_leaf

theorem exSetSelLocal_spec (h : a1 + 1 ≤ r.sp) :
    SafeX (exSetSelLocal code fr a0 a1 op r) (fun o => Eff r (a1 + 1) 0 o ∧ o.next = .seq) := by
  unfold exSetSelLocal; (try dsimp only); safe_walk; eff_leaf

theorem exGetLocal_spec : SafeX (exGetLocal code fr a0 a1 op r) (fun o => Eff r 0 1 o ∧ o.next = .seq) := by
  unfold exGetLocal; (try dsimp only); safe_walk; eff_leaf

theorem exGetBuiltin_spec (h : (builtinNames[a0]?).isSome) :
    SafeX (exGetBuiltin code fr a0 a1 op r) (fun o => Eff r 0 1 o ∧ o.next = .seq) := by
  unfold exGetBuiltin; (try dsimp only); safe_walk
  · eff_leaf
  · rename_i hn; rw [hn] at h; cases h

theorem exGetFreePtr_spec (h : (fr.free[a0]?).isSome) :
    SafeX (exGetFreePtr code fr a0 a1 op r) (fun o => Eff r 0 1 o ∧ o.next = .seq) := by
  unfold exGetFreePtr; (try dsimp only); safe_walk
  · eff_leaf
  · rename_i hn; rw [hn] at h; cases h

theorem exGetFree_spec (h : (fr.free[a0]?).isSome) :
    SafeX (exGetFree code fr a0 a1 op r) (fun o => Eff r 0 1 o ∧ o.next = .seq) := by
  unfold exGetFree; (try dsimp only)
  split
  · refine SafeX_bind (SafeX_em (Post_bind_true (fun _ => push_spec _ _))) ?_
    rintro _ ⟨_, _, _⟩
    eff_leaf
  · rename_i hn; rw [hn] at h; cases h

theorem exSetFree_spec (h1 : 1 ≤ r.sp) (h : (fr.free[a0]?).isSome) :
    SafeX (exSetFree code fr a0 a1 op r) (fun o => Eff r 1 0 o ∧ o.next = .seq) := by
  unfold exSetFree; (try dsimp only); safe_walk
  · eff_leaf
  · rename_i hn; rw [hn] at h; cases h

theorem exGetLocalPtr_spec : SafeX (exGetLocalPtr code fr a0 a1 op r) (fun o => Eff r 0 1 o ∧ o.next = .seq) := by
  unfold exGetLocalPtr; (try dsimp only); safe_walk; all_goals eff_leaf

theorem exSetSelFree_spec (h1 : a1 + 1 ≤ r.sp) (h : (fr.free[a0]?).isSome) :
    SafeX (exSetSelFree code fr a0 a1 op r) (fun o => Eff r (a1 + 1) 0 o ∧ o.next = .seq) := by
  unfold exSetSelFree; (try dsimp only); safe_walk
  · eff_leaf
  · rename_i hn; rw [hn] at h; cases h

theorem exIteratorInit_spec (h : 1 ≤ r.sp) :
    SafeX (exIteratorInit code fr a0 a1 op r) (fun o => Eff r 1 1 o ∧ o.next = .seq) := by
  unfold exIteratorInit; (try dsimp only); safe_walk; all_goals eff_leaf

theorem exIteratorNext_spec (h : 1 ≤ r.sp) :
    SafeX (exIteratorNext code fr a0 a1 op r) (fun o => Eff r 1 1 o ∧ o.next = .seq) := by
  unfold exIteratorNext; (try dsimp only)
  refine SafeX_bind (SafeX_need (by omega)) ?_; intro _ _
  split
  · refine SafeX_bind (SafeX_em (Post_bind_true (fun _ => setSlot_spec _ _ _))) ?_
    rintro _ ⟨_, _, _⟩
    eff_leaf
  · exact SafeX_panicE _

theorem exIteratorKey_spec (h : 1 ≤ r.sp) :
    SafeX (exIteratorKey code fr a0 a1 op r) (fun o => Eff r 1 1 o ∧ o.next = .seq) := by
  unfold exIteratorKey; (try dsimp only)
  refine SafeX_bind (SafeX_need (by omega)) ?_; intro _ _
  split
  · refine SafeX_bind (SafeX_em (Post_bind_true (fun _ => setSlot_spec _ _ _))) ?_
    rintro _ ⟨_, _, _⟩
    eff_leaf
  · exact SafeX_panicE _


theorem mapM_length {α β} (g : α → VMM β) : ∀ xs : List α, Post (xs.mapM g) (fun ys => ys.length = xs.length)
  | [] => by simp only [List.mapM_nil]; exact Post_pure rfl
  | x :: xs => by
    simp only [List.mapM_cons]
    refine Post_bind_true (fun b => ?_)
    refine Post_bind (mapM_length g xs) ?_
    intro bs hbs
    exact Post_pure (by simp [hbs])

theorem exClosure_spec (h : a1 ≤ r.sp) (fn : Fn) (ref : Nat)
    (hk : code.consts[a0]? = some (.fn fn ref)) :
    SafeX (exClosure code fr a0 a1 op r) (fun o =>
      o.regs.sp + a1 = r.sp + 1 ∧ o.regs.globals.size = r.globals.size ∧
      (∃ free : List Nat, free.length = a1 ∧ o.regs.fobjs = r.fobjs.push (a0, free)) ∧
      o.next = .seq) := by
  unfold exClosure; (try dsimp only)
  refine SafeX_bind (SafeX_need (by omega)) ?_; intro _ _
  rw [hk]
  dsimp only
  refine SafeX_bind (SafeX_em (mapM_length _ _)) ?_
  intro free hfree
  refine SafeX_bind (SafeX_em (push_spec _ _)) ?_
  rintro r' ⟨h1, h2, h3⟩
  apply SafeX_pure
  dsimp only at h1 h2 h3 ⊢
  refine ⟨by omega, by rw [h2], ⟨free, ?_, h3⟩, rfl⟩
  simpa [slots] using hfree

end
end Tengo.Model.VM

import Tengo.Proofs.C19EnumAt
/-!
C19, enum module, layer 8: the `for k, v in x` loop over an IMMUTABLE array (the items are the snapshot taken at
the start: no live reads), and the module functions on immutable arrays.
-/
set_option linter.unusedVariables false
set_option linter.unusedSimpArgs false
namespace Tengo.Proofs.C19Enum
open Tengo.Model Tengo.Model.Spec

theorem loop_step_im {F : Nat} {ctx : Ctx} {E : Env} {rest : List (Value × Value)}
    {i : Nat} {kv vv : Value} {body : List Stmt} (gs : GSt) {σ : St}
    (he : ctx.env = { vars := [] } :: E) (hd : (ctx.callDepth == 0) = false) :
    loopForIn (F + 1) ctx "k" "v" ((kv, vv) :: rest) none i body gs σ =
      (do match ← execBlock F (iterCtx ctx E σ) body 1 with
          | .brk => pure Flow.normal
          | .ret x => pure (Flow.ret x)
          | _ => loopForIn F ctx "k" "v" rest none (i + 1) body : EM Flow) gs
        (st2 σ kv vv) := by
  simp only [loopForIn]
  have hk : ("k" != "_") = true := by decide
  have hv : ("v" != "_") = true := by decide
  simp only [pure_bind, hk, hv, if_true]
  rw [em_bind_ok (declare_fn (ctx := { env := ctx.env, callDepth := ctx.callDepth, path := 4 :: ctx.path })
    "k" kv 1 gs σ hd he)]
  rw [em_bind_ok (declare_fn (ctx := { env := _, callDepth := ctx.callDepth, path := 4 :: ctx.path })
    "v" vv 2 gs _ hd rfl)]
  have hkv : ("k" != "v") = true := by decide
  simp only [List.filter_nil, List.filter_cons, pushSt_size, hkv, if_true]
  rfl

/-- `for k, v in x body` where `x` is an immutable array. -/
theorem forin_run_im {F : Nat} {ctx : Ctx} {body : List Stmt} {r st : Nat} {es : List Value} (gs : GSt) {σ : St}
    (hx : Var σ ctx.env "x" (.imarr r)) (harr : ArrAt σ r st es) :
    execStmt (F + 2) ctx (forKV body) gs σ =
      (do let fl ← loopForIn (F + 1) (pushCtx ctx) "k" "v" (es.zipIdx.map (fun (x, i) => (Value.int i, x)))
            none 0 body
          pure (fl, ctx.env) : EM (Flow × Env)) gs σ := by
  unfold forKV
  simp only [execStmt]
  rw [em_bind_ok (ev_ident (ctx := { env := { vars := [] } :: ctx.env, callDepth := ctx.callDepth, path := ctx.path })
    (var_push hx 0) F gs)]
  simp only [bind_assoc]
  rw [em_bind_ok (liftM_ok (arrElems_run harr))]
  simp only [pure_bind]
  rfl

/-- The loop over the remaining elements: bodies that answer `flowOf (res i x)` and keep `Inv`. -/
theorem loop_run_im {Fb : Nat} {ctx : Ctx} {E : Env} {es : List Value} {body : List Stmt} (gs : GSt)
    (Inv : Nat → St → Prop) (res : Nat → Value → Option Value)
    (he : ctx.env = { vars := [] } :: E) (hd : (ctx.callDepth == 0) = false)
    (hbody : ∀ F, Fb ≤ F → ∀ i x σ, es[i]? = some x → Inv i σ →
      ∃ σ', execBlock F (iterCtx ctx E σ) body 1 gs (st2 σ (.int i) x) = .ok ((flowOf (res i x), gs), σ') ∧
        Inv (i + 1) σ') :
    ∀ (l : List Value) (i : Nat) (σ : St), i ≤ es.length → es.drop i = l → Inv i σ →
      ∃ σ' j, loopForIn (Fb + l.length + 1) ctx "k" "v" (itemsOf l i) none i body gs σ =
          .ok ((flowOf (firstRes res l i), gs), σ') ∧ Inv j σ' ∧ (firstRes res l i = none → j = es.length) := by
  intro l
  induction l with
  | nil =>
    intro i σ hi hl hI
    refine ⟨σ, i, ?_, hI, fun _ => ?_⟩
    · simp only [itemsOf, List.zipIdx_nil, List.map_nil, loopForIn]; rfl
    · have : (es.drop i).length = 0 := by rw [hl]; rfl
      rw [List.length_drop] at this
      omega
  | cons x l ih =>
    intro i σ hi hl hI
    obtain ⟨hget, hdrop, hlen⟩ := drop_cons_facts hl
    have hstep := loop_step_im (F := Fb + l.length + 1) (ctx := ctx) (E := E) (rest := itemsOf l (i + 1)) (i := i)
      (kv := .int i) (vv := x) (body := body) gs (σ := σ) he hd
    obtain ⟨σ1, hb, hI1⟩ := hbody (Fb + l.length + 1) (by omega) i x σ hget hI
    have hitems : itemsOf (x :: l) i = (Value.int i, x) :: itemsOf l (i + 1) := by
      simp [itemsOf, List.zipIdx_cons]
    rw [hitems, show Fb + (x :: l).length + 1 = (Fb + l.length + 1) + 1 from by simp; omega, hstep, em_bind_ok hb]
    cases hr : res i x with
    | some v =>
      refine ⟨σ1, i + 1, ?_, hI1, ?_⟩
      · simp only [firstRes, hr, flowOf]; rfl
      · simp [firstRes, hr]
    | none =>
      obtain ⟨σ2, j, h2, hI2, hj⟩ := ih (i + 1) σ1 (by omega) hdrop hI1
      refine ⟨σ2, j, ?_, hI2, ?_⟩
      · simp only [firstRes, hr, flowOf]; exact h2
      · simpa [firstRes, hr] using hj

/-- The whole statement `for k, v in x body` over the array `x`. -/
theorem forin_loop_run_im {Fb : Nat} {ctx : Ctx} {r st : Nat} {es : List Value} {body : List Stmt} (gs : GSt)
    (Inv : Nat → St → Prop) (res : Nat → Value → Option Value)
    (hArr : ∀ i σ, Inv i σ → ArrAt σ r st es)
    (hX : ∀ i σ, Inv i σ → Var σ ctx.env "x" (.imarr r))
    (hd : (ctx.callDepth == 0) = false)
    (hbody : ∀ F, Fb ≤ F → ∀ i x σ, es[i]? = some x → Inv i σ →
      ∃ σ', execBlock F (iterCtx (pushCtx ctx) ctx.env σ) body 1 gs (st2 σ (.int i) x) =
          .ok ((flowOf (res i x), gs), σ') ∧ Inv (i + 1) σ')
    (σ : St) (hI : Inv 0 σ) :
    ∃ σ' j, execStmt (Fb + es.length + 2) ctx (forKV body) gs σ =
        .ok (((flowOf (firstRes res es 0), ctx.env), gs), σ') ∧ Inv j σ' ∧
        (firstRes res es 0 = none → j = es.length) := by
  obtain ⟨σ', j, h, hI', hj⟩ := loop_run_im (ctx := pushCtx ctx) (E := ctx.env) gs Inv res rfl hd hbody es 0 σ
    (Nat.zero_le _) rfl hI
  refine ⟨σ', j, ?_, hI', hj⟩
  rw [forin_run_im gs (hX 0 σ hI) (hArr 0 σ hI)]
  have : (es.zipIdx.map (fun (x, i) => (Value.int i, x))) = itemsOf es 0 := rfl
  rw [this, em_bind_ok h]
  rfl

/-- A module function `func(x, fn) { guard; for k, v in x body; tail }` called on an immutable array. -/
theorem enum_fn_run_im {Fc Kb : Nat} {σ : St} {menv : Env} {ctx : Ctx} {r st cr : Nat} {es : List Value}
    {body tail : List Stmt} {res : Nat → Value → Option Value} (gs : GSt)
    (hb : IsEnumBound σ menv) (harr : ArrAt σ r st es) (hd : ctx.callDepth < 899)
    (hbody : BodySpec Fc Kb σ cr es body res) (F : Nat) (hF : Fc ≤ F) :
    ∃ σ'', Ext σ σ'' ∧
      callClosure (F + Kb + es.length + 16) ctx ⟨["x", "fn"], false, guardEnum :: forKV body :: tail, menv⟩
          [.imarr r, .fn cr] gs σ =
        match firstRes res es 0 with
        | some v => .ok ((v, gs), σ'')
        | none => (do let p ← execStmts (F + Kb + es.length + 12)
                                { bodyCtx menv ctx "fn" σ with env := (bodyCtx menv ctx "fn" σ).env } tail 2
                      match p.1 with
                      | .ret v => pure v
                      | _ => pure Value.undef : EM Value) gs σ'' := by
  rw [guarded_call (F := F + Kb + es.length) gs σ (by decide) (by decide) hb hd]
  simp only [isEnum, if_true]
  rw [execStmts_cons]
  -- the loop
  let σG := stG σ (.imarr r) (.fn cr)
  let cxB : Ctx := { env := (bodyCtx menv ctx "fn" σ).env, callDepth := ctx.callDepth + 1, path := 1 :: [0] }
  have hxG : Var σG cxB.env "x" (.imarr r) := (var_x_body menv ctx "fn" σ (.imarr r) (.fn cr) (by decide)).ext (ext_push _ _)
  have hfG : Var σG cxB.env "fn" (.fn cr) := (var_q_body menv ctx "fn" σ (.imarr r) (.fn cr)).ext (ext_push _ _)
  have hloop := forin_loop_run_im (Fb := F + Kb + 10) (ctx := cxB) (r := r) (st := st) (es := es) (body := body) gs
    (fun _ σ' => Ext σG σ') res
    (fun _ σ' h => (harr.ext (ext_stG σ _ _)).ext h)
    (fun _ σ' h => hxG.ext h)
    (by show (ctx.callDepth + 1 == 0) = false; simp)
    (by
      intro F' hF' i x σ' hget hI
      obtain ⟨k, rfl⟩ : ∃ k, F' = k + Kb := ⟨F' - Kb, by omega⟩
      obtain ⟨σ2, h2, he2⟩ := hbody k (by omega) (iterCtx (pushCtx cxB) cxB.env σ') gs (st2 σ' (.int i) x) i x
        (by show ctx.callDepth + 1 < 900; omega)
        (((ext_stG σ _ _).trans hI).trans (ext_st2 _ _ _))
        (iter_var_other _ _ (hfG.ext hI) (by decide) (by decide))
        (iter_var_k _ _ _ _ _) (iter_var_v _ _ _ _ _) hget
      exact ⟨σ2, h2, (hI.trans (ext_st2 _ _ _)).trans he2⟩)
    σG (Ext.refl _)
  obtain ⟨σ', j, hrun, hI', _⟩ := hloop
  refine ⟨σ', (ext_stG σ _ _).trans hI', ?_⟩
  have hfuel : F + Kb + 10 + es.length + 2 = F + Kb + es.length + 12 := by omega
  rw [hfuel] at hrun
  simp only [bind_assoc]
  have hrun2 : execStmt (F + Kb + es.length + 12)
      { env := (bodyCtx menv ctx "fn" σ).env, callDepth := (bodyCtx menv ctx "fn" σ).callDepth,
        path := 1 :: (bodyCtx menv ctx "fn" σ).path } (forKV body) gs (stG σ (Value.imarr r) (Value.fn cr)) =
      .ok (((flowOf (firstRes res es 0), (bodyCtx menv ctx "fn" σ).env), gs), σ') := hrun
  rw [em_bind_ok hrun2]
  cases hr : firstRes res es 0 with
  | some v => simp only [flowOf]; rfl
  | none => simp only [flowOf]; rfl

theorem map_after_define_im {Fc : Nat} {σ σD : St} {menv : Env} {ctx : Ctx} {r st cr : Nat} {es : List Value}
    {f : Nat → Value → Value} (gs : GSt)
    (harr : ArrAt σ r st es) (hcb : CallsAs Fc σ cr f) (hd : ctx.callDepth < 899)
    (happ : lookupVar menv "append" = none) (F : Nat) (hF : Fc ≤ F) (hI0 : AccInv σ (.imarr r) cr (mapped f es) 0 σD) :
    ∃ σ'' rd sd, AccInv σ (.imarr r) cr (mapped f es) es.length σ'' ∧
      σ''.heap[σ.heap.size + 5]? = some (.cell (.arr rd) false) ∧ DstArr σ'' rd sd (es.zipIdx.map (fun q => f q.2 q.1)) ∧
      (do let p ← execStmts (F + es.length + 11 + 2)
                    { env := mapEnv menv σ, callDepth := ctx.callDepth + 1, path := [0] }
                    [forKV mapLoop, .ret (some (.ident "dst"))] 2
          match p.1 with
          | .ret v => pure v
          | _ => pure Value.undef : EM Value) gs σD = .ok ((.arr rd, gs), σ'') := by
  have hloop := forin_loop_run_im (Fb := F + 10)
    (ctx := { env := mapEnv menv σ, callDepth := ctx.callDepth + 1, path := 2 :: [0] })
    (r := r) (st := st) (es := es) (body := mapLoop) gs
    (AccInv σ (.imarr r) cr (mapped f es)) (fun _ _ => none)
    (fun _ σ' h => harr.ext h.ext)
    (fun _ σ' h => ⟨σ.heap.size, false, mapEnv_x menv σ, h.cx⟩)
    (by show (ctx.callDepth + 1 == 0) = false; simp)
    (by
      intro F' hF' i x σ' hget hI
      obtain ⟨k, rfl⟩ : ∃ k, F' = k + 10 := ⟨F' - 10, by omega⟩
      obtain ⟨rd, sd, hdc, hda, hrd⟩ := hI.dst
      have hfnV : Var σ' (mapEnv menv σ) "fn" (.fn cr) := ⟨_, false, mapEnv_fn menv σ, hI.cf⟩
      obtain ⟨σ2, he2, hrun⟩ := map_body_run (F := k) (σ0 := σ) (σI := st2 σ' (.int i) x)
        (cx := iterCtx (pushCtx { env := mapEnv menv σ, callDepth := ctx.callDepth + 1, path := 2 :: [0] })
          (mapEnv menv σ) σ') (i := i) (x := x) (cd := σ.heap.size + 5) gs hcb (by omega)
        (hI.ext.trans (ext_st2 _ _ _)) (by show ctx.callDepth + 1 < 900; omega)
        (iter_var_other _ _ hfnV (by decide) (by decide)) (iter_var_k _ _ _ _ _) (iter_var_v _ _ _ _ _)
        (by simp [iterCtx, lookupVar_cons, List.lookup, mapEnv_append happ])
        (by simp [iterCtx, lookupVar_cons, List.lookup, mapEnv_dst])
        ((ext_st2 _ _ _).keep _ _ hdc) (hda.ext (ext_st2 _ _ _))
      exact ⟨_, hrun, accInv_step hI hdc hda hrd (mapped_succ f hget) ((ext_st2 _ _ _).trans he2)⟩)
    σD hI0
  obtain ⟨σ', j, hrun, hI', hj⟩ := hloop
  have hjn : j = es.length := hj (firstRes_none es 0)
  subst hjn
  obtain ⟨rd, sd, hdc, hda, hrd⟩ := hI'.dst
  refine ⟨σ', rd, sd, hI', hdc, by rw [← mapped_all]; exact hda, ?_⟩
  rw [execStmts_cons]
  simp only [bind_assoc]
  have hfu : F + 10 + es.length + 2 = F + es.length + 11 + 1 := by omega
  rw [hfu, firstRes_none] at hrun
  rw [em_bind_ok hrun]
  simp only [flowOf]
  rw [show F + es.length + 11 + 1 = (F + es.length + 10) + 2 from by omega, execStmts_cons, execStmt_ret]
  simp only [bind_assoc, pure_bind]
  rw [em_bind_ok (ev_ident (ctx := { env := mapEnv menv σ, callDepth := ctx.callDepth + 1, path := (2 + 1) :: [0] })
    ⟨σ.heap.size + 5, false, mapEnv_dst menv σ, hdc⟩ (F + es.length + 9) gs)]
  rfl

theorem map_run_im {Fc : Nat} {σ : St} {menv : Env} {ctx : Ctx} {r st cr : Nat} {es : List Value}
    {f : Nat → Value → Value} (gs : GSt)
    (hb : IsEnumBound σ menv) (harr : ArrAt σ r st es) (hcb : CallsAs Fc σ cr f) (hd : ctx.callDepth < 899)
    (hwf : WfApp σ) (happ : lookupVar menv "append" = none) (F : Nat) (hF : Fc ≤ F) :
    ∃ σ'' rd sd, AccInv σ (.imarr r) cr (mapped f es) es.length σ'' ∧
      σ''.heap[σ.heap.size + 5]? = some (.cell (.arr rd) false) ∧ DstArr σ'' rd sd (es.zipIdx.map (fun q => f q.2 q.1)) ∧
      callClosure (F + es.length + 17) ctx ⟨["x", "fn"], false, mapBody, menv⟩ [.imarr r, .fn cr] gs σ =
        .ok ((.arr rd, gs), σ'') := by
  rw [mapBody_eq, show F + es.length + 17 = (F + es.length + 1) + 16 from by omega,
    guarded_call (F := F + es.length + 1) gs σ (by decide) (by decide) hb hd]
  simp only [isEnum, if_true]
  unfold mapRest
  rw [execStmts_cons, show F + es.length + 1 + 12 = (F + es.length + 11) + 2 from by omega, execStmt_define_arr]
  simp only [bind_assoc, pure_bind]
  rw [show F + es.length + 11 + 1 = (F + es.length + 10) + 2 from by omega]
  rw [em_bind_ok (ev_arr_nil (F + es.length + 10) _ gs _)]
  rw [em_bind_ok (declare_fn (f := { vars := [] }) (E := (enter2 menv ctx "x" "fn" σ).env) "dst" _ 0 gs _
    (by show (ctx.callDepth + 1 == 0) = false; simp) rfl)]
  have hG : (stG σ (.imarr r) (.fn cr)).heap.size = σ.heap.size + 3 := by simp [stG, st2, pushSt_size]
  have hsz : (pushSt (pushSt (stG σ (Value.imarr r) (Value.fn cr)) (Obj.store #[] 1))
      (Obj.arr (stG σ (Value.imarr r) (Value.fn cr)).heap.size 0 0)).heap.size = σ.heap.size + 5 := by
    simp [pushSt_size, hG]
  have hI0 : AccInv σ (.imarr r) cr (mapped f es) 0 (pushSt (pushSt (pushSt (stG σ (Value.imarr r) (Value.fn cr)) (Obj.store #[] 1))
      (Obj.arr (stG σ (Value.imarr r) (Value.fn cr)).heap.size 0 0))
      (Obj.cell (Value.arr ((stG σ (Value.imarr r) (Value.fn cr)).heap.size + 1)) false)) := by
    have he : Ext σ (pushSt (pushSt (pushSt (stG σ (Value.imarr r) (Value.fn cr)) (Obj.store #[] 1))
      (Obj.arr (stG σ (Value.imarr r) (Value.fn cr)).heap.size 0 0))
      (Obj.cell (Value.arr ((stG σ (Value.imarr r) (Value.fn cr)).heap.size + 1)) false)) :=
      (ext_stG σ _ _).trans (((ext_push _ _).trans (ext_push _ _)).trans (ext_push _ _))
    have hk := (((ext_push (stG σ (Value.imarr r) (Value.fn cr)) (Obj.store #[] 1)).trans (ext_push _ (Obj.arr (stG σ (Value.imarr r) (Value.fn cr)).heap.size 0 0))).trans
      (ext_push _ (Obj.cell (Value.arr ((stG σ (Value.imarr r) (Value.fn cr)).heap.size + 1)) false)))
    refine ⟨he, he.wf hwf, ?_, ?_, (stG σ (.imarr r) (.fn cr)).heap.size + 1, (stG σ (.imarr r) (.fn cr)).heap.size, ?_, ⟨?_, ?_, ?_⟩, ?_⟩
    · exact hk.keep _ _ ((ext_push _ _).keep _ _ (st2_get0 σ _ _))
    · exact hk.keep _ _ ((ext_push _ _).keep _ _ (st2_get1 σ _ _))
    · have := pushSt_new (pushSt (pushSt (stG σ (Value.imarr r) (Value.fn cr)) (Obj.store #[] 1))
        (Obj.arr (stG σ (Value.imarr r) (Value.fn cr)).heap.size 0 0))
        (Obj.cell (Value.arr ((stG σ (Value.imarr r) (Value.fn cr)).heap.size + 1)) false)
      rwa [hsz] at this
    · have := pushSt_new (pushSt (stG σ (Value.imarr r) (Value.fn cr)) (Obj.store #[] 1))
        (Obj.arr (stG σ (Value.imarr r) (Value.fn cr)).heap.size 0 0)
      rw [pushSt_size] at this
      exact (ext_push _ _).keep _ _ this
    · exact ((ext_push _ _).trans (ext_push _ _)).keep _ _ (pushSt_new (stG σ (Value.imarr r) (Value.fn cr)) (Obj.store #[] 1))
    · exact hwf _ (by omega)
    · omega
  obtain ⟨σ'', rd, sd, h1, h2, h3, h4⟩ := map_after_define_im (ctx := ctx) (menv := menv) gs harr hcb hd happ F hF hI0
  refine ⟨σ'', rd, sd, h1, h2, h3, ?_⟩
  rw [hsz]
  exact h4

theorem filter_after_define_im {Fc : Nat} {σ σD : St} {menv : Env} {ctx : Ctx} {r st cr : Nat} {es : List Value}
    {f : Nat → Value → Value} (gs : GSt)
    (harr : ArrAt σ r st es) (hcb : CallsAs Fc σ cr f) (hd : ctx.callDepth < 899)
    (happ : lookupVar menv "append" = none) (hsc : ∀ i x, es[i]? = some x → Scalar (f i x) = true)
    (F : Nat) (hF : Fc ≤ F) (hI0 : AccInv σ (.imarr r) cr (filtered f es) 0 σD) :
    ∃ σ'' rd sd, AccInv σ (.imarr r) cr (filtered f es) es.length σ'' ∧
      σ''.heap[σ.heap.size + 5]? = some (.cell (.arr rd) false) ∧ DstArr σ'' rd sd ((es.zipIdx.filter (fun q => truthy (f q.2 q.1))).map (fun q => q.1)) ∧
      (do let p ← execStmts (F + es.length + 11 + 2)
                    { env := mapEnv menv σ, callDepth := ctx.callDepth + 1, path := [0] }
                    [forKV filterLoop, .ret (some (.ident "dst"))] 2
          match p.1 with
          | .ret v => pure v
          | _ => pure Value.undef : EM Value) gs σD = .ok ((.arr rd, gs), σ'') := by
  have hloop := forin_loop_run_im (Fb := F + 10)
    (ctx := { env := mapEnv menv σ, callDepth := ctx.callDepth + 1, path := 2 :: [0] })
    (r := r) (st := st) (es := es) (body := filterLoop) gs
    (AccInv σ (.imarr r) cr (filtered f es)) (fun _ _ => none)
    (fun _ σ' h => harr.ext h.ext)
    (fun _ σ' h => ⟨σ.heap.size, false, mapEnv_x menv σ, h.cx⟩)
    (by show (ctx.callDepth + 1 == 0) = false; simp)
    (by
      intro F' hF' i x σ' hget hI
      obtain ⟨k, rfl⟩ : ∃ k, F' = k + 10 := ⟨F' - 10, by omega⟩
      obtain ⟨rd, sd, hdc, hda, hrd⟩ := hI.dst
      have hfnV : Var σ' (mapEnv menv σ) "fn" (.fn cr) := ⟨_, false, mapEnv_fn menv σ, hI.cf⟩
      obtain ⟨σ2, he2, hrun⟩ := filter_body_run (F := k) (σ0 := σ) (σI := st2 σ' (.int i) x)
        (cx := iterCtx (pushCtx { env := mapEnv menv σ, callDepth := ctx.callDepth + 1, path := 2 :: [0] })
          (mapEnv menv σ) σ') (i := i) (x := x) (cd := σ.heap.size + 5) gs hcb (by omega)
        (hI.ext.trans (ext_st2 _ _ _)) (by show ctx.callDepth + 1 < 900; omega)
        (iter_var_other _ _ hfnV (by decide) (by decide)) (iter_var_k _ _ _ _ _) (iter_var_v _ _ _ _ _)
        (by simp [iterCtx, lookupVar_cons, List.lookup, mapEnv_append happ])
        (by simp [iterCtx, lookupVar_cons, List.lookup, mapEnv_dst])
        ((ext_st2 _ _ _).keep _ _ hdc) (hda.ext (ext_st2 _ _ _)) (hsc i x hget)
      rcases Bool.eq_false_or_eq_true (truthy (f i x)) with ht | ht
      · rw [ht] at hrun
        exact ⟨_, hrun, accInv_step hI hdc hda hrd (filtered_succ_true f hget ht) ((ext_st2 _ _ _).trans he2)⟩
      · rw [ht] at hrun
        exact ⟨_, hrun, accInv_keep hI (filtered_succ_false f hget ht) ((ext_st2 _ _ _).trans he2)⟩)
    σD hI0
  obtain ⟨σ', j, hrun, hI', hj⟩ := hloop
  have hjn : j = es.length := hj (firstRes_none es 0)
  subst hjn
  obtain ⟨rd, sd, hdc, hda, hrd⟩ := hI'.dst
  refine ⟨σ', rd, sd, hI', hdc, by rw [← filtered_all]; exact hda, ?_⟩
  rw [execStmts_cons]
  simp only [bind_assoc]
  have hfu : F + 10 + es.length + 2 = F + es.length + 11 + 1 := by omega
  rw [hfu, firstRes_none] at hrun
  rw [em_bind_ok hrun]
  simp only [flowOf]
  rw [show F + es.length + 11 + 1 = (F + es.length + 10) + 2 from by omega, execStmts_cons, execStmt_ret]
  simp only [bind_assoc, pure_bind]
  rw [em_bind_ok (ev_ident (ctx := { env := mapEnv menv σ, callDepth := ctx.callDepth + 1, path := (2 + 1) :: [0] })
    ⟨σ.heap.size + 5, false, mapEnv_dst menv σ, hdc⟩ (F + es.length + 9) gs)]
  rfl

theorem filter_run_im {Fc : Nat} {σ : St} {menv : Env} {ctx : Ctx} {r st cr : Nat} {es : List Value}
    {f : Nat → Value → Value} (gs : GSt)
    (hb : IsArrLikeBound σ menv) (harr : ArrAt σ r st es) (hcb : CallsAs Fc σ cr f) (hd : ctx.callDepth < 899)
    (hwf : WfApp σ) (happ : lookupVar menv "append" = none)
    (hsc : ∀ i x, es[i]? = some x → Scalar (f i x) = true) (F : Nat) (hF : Fc ≤ F) :
    ∃ σ'' rd sd, AccInv σ (.imarr r) cr (filtered f es) es.length σ'' ∧
      σ''.heap[σ.heap.size + 5]? = some (.cell (.arr rd) false) ∧ DstArr σ'' rd sd ((es.zipIdx.filter (fun q => truthy (f q.2 q.1))).map (fun q => q.1)) ∧
      callClosure (F + es.length + 17) ctx ⟨["x", "fn"], false, filterBody, menv⟩ [.imarr r, .fn cr] gs σ =
        .ok ((.arr rd, gs), σ'') := by
  rw [filterBody_eq, show F + es.length + 17 = (F + es.length + 1) + 16 from by omega,
    guardedArr_call (F := F + es.length + 1) gs σ (by decide) (by decide) hb hd]
  simp only [isArrLike, if_true]
  unfold filterRest
  rw [execStmts_cons, show F + es.length + 1 + 12 = (F + es.length + 11) + 2 from by omega, execStmt_define_arr]
  simp only [bind_assoc, pure_bind]
  rw [show F + es.length + 11 + 1 = (F + es.length + 10) + 2 from by omega]
  rw [em_bind_ok (ev_arr_nil (F + es.length + 10) _ gs _)]
  rw [em_bind_ok (declare_fn (f := { vars := [] }) (E := (enter2 menv ctx "x" "fn" σ).env) "dst" _ 0 gs _
    (by show (ctx.callDepth + 1 == 0) = false; simp) rfl)]
  have hG : (stG σ (.imarr r) (.fn cr)).heap.size = σ.heap.size + 3 := by simp [stG, st2, pushSt_size]
  have hsz : (pushSt (pushSt (stG σ (Value.imarr r) (Value.fn cr)) (Obj.store #[] 1))
      (Obj.arr (stG σ (Value.imarr r) (Value.fn cr)).heap.size 0 0)).heap.size = σ.heap.size + 5 := by
    simp [pushSt_size, hG]
  have hI0 : AccInv σ (.imarr r) cr (filtered f es) 0 (pushSt (pushSt (pushSt (stG σ (Value.imarr r) (Value.fn cr)) (Obj.store #[] 1))
      (Obj.arr (stG σ (Value.imarr r) (Value.fn cr)).heap.size 0 0))
      (Obj.cell (Value.arr ((stG σ (Value.imarr r) (Value.fn cr)).heap.size + 1)) false)) := by
    have he : Ext σ (pushSt (pushSt (pushSt (stG σ (Value.imarr r) (Value.fn cr)) (Obj.store #[] 1))
      (Obj.arr (stG σ (Value.imarr r) (Value.fn cr)).heap.size 0 0))
      (Obj.cell (Value.arr ((stG σ (Value.imarr r) (Value.fn cr)).heap.size + 1)) false)) :=
      (ext_stG σ _ _).trans (((ext_push _ _).trans (ext_push _ _)).trans (ext_push _ _))
    have hk := (((ext_push (stG σ (Value.imarr r) (Value.fn cr)) (Obj.store #[] 1)).trans (ext_push _ (Obj.arr (stG σ (Value.imarr r) (Value.fn cr)).heap.size 0 0))).trans
      (ext_push _ (Obj.cell (Value.arr ((stG σ (Value.imarr r) (Value.fn cr)).heap.size + 1)) false)))
    refine ⟨he, he.wf hwf, ?_, ?_, (stG σ (.imarr r) (.fn cr)).heap.size + 1, (stG σ (.imarr r) (.fn cr)).heap.size, ?_, ⟨?_, ?_, ?_⟩, ?_⟩
    · exact hk.keep _ _ ((ext_push _ _).keep _ _ (st2_get0 σ _ _))
    · exact hk.keep _ _ ((ext_push _ _).keep _ _ (st2_get1 σ _ _))
    · have := pushSt_new (pushSt (pushSt (stG σ (Value.imarr r) (Value.fn cr)) (Obj.store #[] 1))
        (Obj.arr (stG σ (Value.imarr r) (Value.fn cr)).heap.size 0 0))
        (Obj.cell (Value.arr ((stG σ (Value.imarr r) (Value.fn cr)).heap.size + 1)) false)
      rwa [hsz] at this
    · have := pushSt_new (pushSt (stG σ (Value.imarr r) (Value.fn cr)) (Obj.store #[] 1))
        (Obj.arr (stG σ (Value.imarr r) (Value.fn cr)).heap.size 0 0)
      rw [pushSt_size] at this
      exact (ext_push _ _).keep _ _ this
    · exact ((ext_push _ _).trans (ext_push _ _)).keep _ _ (pushSt_new (stG σ (Value.imarr r) (Value.fn cr)) (Obj.store #[] 1))
    · exact hwf _ (by omega)
    · omega
  obtain ⟨σ'', rd, sd, h1, h2, h3, h4⟩ := filter_after_define_im (ctx := ctx) (menv := menv) gs harr hcb hd happ hsc F hF hI0
  refine ⟨σ'', rd, sd, h1, h2, h3, ?_⟩
  rw [hsz]
  exact h4

end Tengo.Proofs.C19Enum

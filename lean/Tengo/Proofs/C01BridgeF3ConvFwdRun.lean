import Tengo.Proofs.C01BridgeF3ConvFwdAll
import Tengo.Proofs.C01BridgeF3ConvFwdMain
/-!
C01 bridge for fragment F3, forward direction without the fuel bound, `runProgram`: `runProgram_fragment3_nobound`
is `runProgram_fragment3` without `f ≤ 1800`; in exchange the interpreter may answer `excluded` (call depth 900).
-/
set_option linter.unusedVariables false
set_option linter.unusedSimpArgs false
namespace Tengo.Proofs.C01BridgeF3Conv
open Tengo.Model Tengo.Model.Spec
open Tengo.Model.F3 (Ex Exs Stm Stms FnDef Prog Locals ERes EsRes Res updL bindArgs)
open Tengo.Proofs.C01Bridge
open Tengo.Proofs.C01BridgeF3 (DataRel NotCallable)
open Tengo.Proofs.C01BridgeF3Comp
open Tengo.Proofs.C01F3Opt (EnvOk)
open Tengo.Proofs.C01BridgeF3Spec

variable {V : Type}

/-- **`F3.exec` against the reference interpreter, forward, NO bound on the evaluator's fuel.** Hypotheses of
`runProgram_fragment3` without `f ≤ 1800`. If `F3.exec E P f g` finishes with `g'`, then with every fuel `F ≥ 4 f`
the interpreter answers `excluded`, or `ok` with the slot names and values related to `g'` — never fuel exhaustion,
never an error; if `F3.exec` ends in a run-time error the interpreter reports the outcome of an error other than
fuel (which may be `excluded`). -/
theorem runProgram_fragment3_nobound (E : F3.Env V) (val : V → Value) (refs : Nat → Nat)
    (names lnames : Nat → String) (ctab : Nat → F0.Const) (n : Nat) (P : Prog)
    (hN : NamesOK names lnames n) (hb : ∀ i, lnames i ∉ Spec.builtinNames)
    (hs : Tengo.Proofs.C01F3Opt.SrcOk P n) (hbud : budMain P P.main ≤ 4000)
    (hD : DataRel E.S val) (hE : EnvOk P ctab E val refs)
    (hvals : ∀ v, Scalar (val v) = true ∨ ∃ r, val v = .cfn r)
    (hcs : ∀ k, P.fns k = none → val (E.cs k) = F0.constValue (ctab k))
    (f F : Nat) (hF : 4 * f ≤ F) (g : Nat → V) (hg0 : ∀ i, i < n → Scalar (val (g i)) = true)
    (initHeap : St) :
    (∀ g', F3.exec E P f g = .done g' →
      (∃ why, runProgram F (inputs3 names val n g) initHeap (toAstProg names lnames ctab P) = .excluded why) ∨
      ∃ gs st, runProgram F (inputs3 names val n g) initHeap (toAstProg names lnames ctab P) = .ok gs st ∧
        gs.map Prod.fst = (List.range n).map names ∧
        ∀ i, i < n → ∃ w, gs[i]? = some (names i, w) ∧ ValRel E val P names lnames ctab st (g' i) w) ∧
    (F3.exec E P f g = .err →
      ∃ err, err ≠ Err.fuel ∧
        runProgram F (inputs3 names val n g) initHeap (toAstProg names lnames ctab P) = errOutcome err) := by
  have hin : inputs3 names val n g = inputsV names n (scalarOf val g) := by
    unfold inputs3 inputsV
    apply List.map_congr_left
    intro i hi
    have hi' : i < n := by simpa using hi
    simp only [scalarOf, dif_pos (hg0 i hi')]
  rw [hin]
  have hc : checkProgram ((inputsV names n (scalarOf val g)).map Prod.fst) (toAstProg names lnames ctab P) = none := by
    have : (inputsV names n (scalarOf val g)).map Prod.fst = inputsOf names n := by
      simp [inputsV, inputsOf, List.map_map, Function.comp_def]
    rw [this]
    exact checkProgram_fragment3 names lnames ctab n P hN hb hs.wf hbud
  rw [runProgram_eq F _ initHeap _ hc]
  have h0 : InInv names (scalarOf val g) initHeap.heap.size 0 { vars := [] } initHeap :=
    ⟨rfl, rfl, fun i hi => by omega⟩
  obtain ⟨fr, σ, hin0, hinv⟩ := inputs_loop names (scalarOf val g) initHeap.heap.size {} n 0 _ _ h0
  simp only [Nat.zero_add] at hinv
  have hin' : EOk (forIn (inputsV names n (scalarOf val g)) ({ vars := [] } : Spec.Frame) inputStep) {} initHeap fr σ := by
    simpa [inputsV, List.range_eq_range'] using hin0
  let C : Cx V := Cx.mk E val refs names lnames ctab n P (fun i => initHeap.heap.size + i) [fr]
  have hwfns : ∀ k fd, P.fns k = some fd → ∃ k0, wfFn (isFnOf P) n k0 fd = true := by
    intro k fd hfd
    obtain ⟨i, hm⟩ := hs.decl k fd hfd
    obtain ⟨k', hwf, _⟩ := Tengo.Proofs.C01F3Opt.wfMain_fn P n P.main 0 (nlitsMain P P.main) hs.wf (by omega) i k fd
      hm hfd
    exact ⟨k', hwf⟩
  have hy : Hyp C := Hyp.mk hD hE hN hvals hcs (fun i j _ _ h => by simpa [C] using h) (hinv.env hN.ginj) hwfns
  have hg : GInv C σ g := by
    intro i hi
    refine ⟨val (g i), false, ?_, VR.scalar (hg0 i hi)⟩
    have := hinv.cell i hi
    simp only [scalarOf, dif_pos (hg0 i hi)] at this
    exact this
  have hsim := mainFwd hy (all_fwd3 hy) f P.main F { env := [fr] } {} σ g (fun _ => none) 0 0 hF rfl hg hs.wf
  have hvars : fr.vars.reverse = (List.range n).map (fun i => (names i, initHeap.heap.size + i)) := by
    rw [hinv.vars, List.reverse_reverse]
  have hexcl : Xz (execStmts F { env := [fr] } (toAstMain C.names C.lnames C.ctab C.P P.main) 0) {} σ →
      ∃ why, outcomeOf (progOf F (inputsV names n (scalarOf val g)) (toAstProg names lnames ctab P) {} initHeap) =
        .excluded why := by
    rintro ⟨why, hex⟩
    refine ⟨why, ?_⟩
    have : EErr (progOf F (inputsV names n (scalarOf val g)) (toAstProg names lnames ctab P)) {} initHeap
        (Err.excluded why) := by
      unfold progOf
      exact EErr.bind_right hin' (EErr.bind_left hex)
    unfold EErr at this
    rw [this]; rfl
  constructor
  · intro g' hg'
    unfold F3.exec at hg'
    rcases hsim with hx | hsim
    · exact .inl (hexcl hx)
    right
    cases hss : F3.execSs E P f P.main g (fun _ => none) with
    | done g1 l1 =>
      rw [hss] at hg'
      simp only [F3.PRes.done.injEq] at hg'
      subst hg'
      rw [hss] at hsim
      obtain ⟨σ', hok, hg1⟩ := hsim
      obtain ⟨out, hout, hfst, hall⟩ := readOut_all3 hg1 {} (List.range n) (fun i hi => by simpa using hi)
      refine ⟨out, σ', ?_, hfst, ?_⟩
      · have : EOk (progOf F (inputsV names n (scalarOf val g)) (toAstProg names lnames ctab P)) {} initHeap out σ' := by
          unfold progOf
          refine EOk.bind hin' (EOk.bind hok ?_)
          show EOk (match [fr].getLast? with
            | some f => f.vars.reverse.mapM readOut
            | none => pure []) {} σ' out σ'
          simp only [List.getLast?_singleton, hvars]
          exact hout
        unfold EOk at this
        rw [this]; rfl
      · intro i hi
        obtain ⟨w, h1, h2⟩ := hall i i (by simp [hi])
        exact ⟨w, h1, h2.valRel⟩
    | brk _ _ => rw [hss] at hg'; cases hg'
    | cont _ _ => rw [hss] at hg'; cases hg'
    | ret _ _ => rw [hss] at hg'; cases hg'
    | err => rw [hss] at hg'; cases hg'
    | out => rw [hss] at hg'; cases hg'
    | bad => rw [hss] at hg'; cases hg'
  · intro hg'
    unfold F3.exec at hg'
    rcases hsim with hx | hsim
    · obtain ⟨why, hw⟩ := hexcl hx
      exact ⟨Err.excluded why, (fun h => by cases h), (by rw [hw]; rfl)⟩
    cases hss : F3.execSs E P f P.main g (fun _ => none) with
    | err =>
      rw [hss] at hsim
      obtain ⟨err, hne, herr⟩ := hsim
      refine ⟨err, hne, ?_⟩
      have : EErr (progOf F (inputsV names n (scalarOf val g)) (toAstProg names lnames ctab P)) {} initHeap err := by
        unfold progOf
        exact EErr.bind_right hin' (EErr.bind_left herr)
      unfold EErr at this
      rw [this]
      cases err <;> first | rfl | exact absurd rfl hne
    | done _ _ => rw [hss] at hg'; cases hg'
    | brk _ _ => rw [hss] at hg'; cases hg'
    | cont _ _ => rw [hss] at hg'; cases hg'
    | ret _ _ => rw [hss] at hg'; cases hg'
    | out => rw [hss] at hg'; cases hg'
    | bad => rw [hss] at hg'; cases hg'

end Tengo.Proofs.C01BridgeF3Conv

import Tengo.Model.Scanner
/-!
Helper lemmas for C04 about c20's scanner model (`Tengo.Model.Scanner`): widths, error offsets, and the
invariant `Inv` of `scanLoop` (token offsets bounded and sorted, token count, error offsets, final EOF),
`scan_ok`, `scanLoop_one_eof`. Stated for every input; used by `Tengo.Props.C04`.
-/
namespace Tengo.Proofs.C04Scan
open Tengo.Model.Token Tengo.Model.Scanner

theorem width_foldl (cs : List Ch) (a : Nat) :
    cs.foldl (fun a c => a + c.bytes.length) a = a + width cs := by
  induction cs generalizing a with
  | nil => simp [width]
  | cons c cs ih =>
    simp only [List.foldl_cons, width]
    rw [ih, ih (0 + c.bytes.length)]; omega

@[simp] theorem width_nil : width [] = 0 := rfl

theorem width_cons (c : Ch) (cs : List Ch) : width (c :: cs) = c.bytes.length + width cs := by
  simp only [width, List.foldl_cons]
  rw [width_foldl]; simp [width]

theorem width_take_drop (n : Nat) (cs : List Ch) : width (cs.take n) + width (cs.drop n) = width cs := by
  induction cs generalizing n with
  | nil => simp
  | cons c cs ih =>
    cases n with
    | zero => simp
    | succ n => simp only [List.take_succ_cons, List.drop_succ_cons, width_cons]; have := ih n; omega

theorem width_take_le (n : Nat) (cs : List Ch) : width (cs.take n) ≤ width cs := by
  have := width_take_drop n cs; omega

theorem width_decodeAt (off : Nat) (bs : Bs) : width (decodeAt off bs) = bs.length := by
  fun_induction decodeAt off bs with
  | case1 => rfl
  | case2 off b0 rest rw ih =>
    rw [width_cons, ih]
    simp only [List.length_cons, List.length_take, List.length_drop]
    omega

theorem charEvents_off (k off n : Nat) (cs : List Ch) :
    ∀ e ∈ charEvents k off n cs, e.2.off ≤ off + width cs := by
  fun_induction charEvents k off n cs with
  | case1 => simp
  | case2 => simp
  | case3 k off n c cs m hm ih =>
    intro e he
    rw [width_cons]
    rcases List.mem_cons.mp he with rfl | h
    · simp
    · have := ih e h; omega
  | case4 k off n c cs hm ih =>
    intro e he
    rw [width_cons]
    have := ih e he; omega

theorem mem_insertEv (e x : Nat × Err) (l : List (Nat × Err)) :
    x ∈ insertEv e l → x = e ∨ x ∈ l := by
  induction l with
  | nil => simp [insertEv]
  | cons y ys ih =>
    simp only [insertEv]
    split
    · intro h
      rcases List.mem_cons.mp h with rfl | h
      · simp
      · rcases ih h with h | h
        · exact Or.inl h
        · exact Or.inr (List.mem_cons_of_mem _ h)
    · intro h
      rcases List.mem_cons.mp h with rfl | h
      · simp
      · exact Or.inr h

theorem mem_foldl_insertEv (he ce : List (Nat × Err)) (x : Nat × Err) :
    x ∈ he.foldl (fun acc e => insertEv e acc) ce → x ∈ he ∨ x ∈ ce := by
  induction he generalizing ce with
  | nil => simp
  | cons h hs ih =>
    simp only [List.foldl_cons]
    intro hx
    rcases ih _ hx with h1 | h1
    · exact Or.inl (List.mem_cons_of_mem _ h1)
    · rcases mem_insertEv _ _ _ h1 with h2 | h2
      · exact Or.inl (h2 ▸ List.mem_cons_self)
      · exact Or.inr h2

theorem stepErrs_off (off : Nat) (c : Ch) (cs : List Ch) (st : Step) :
    ∀ e ∈ stepErrs off c cs st, e.off ≤ off + width (c :: cs) := by
  intro e he
  simp only [stepErrs, List.mem_map] at he
  obtain ⟨x, hx, rfl⟩ := he
  rcases mem_foldl_insertEv _ _ _ hx with h | h
  · simp only [List.mem_map] at h
    obtain ⟨h', _, rfl⟩ := h
    have := width_take_le h'.j (c :: cs)
    simp only; omega
  · have := charEvents_off _ _ _ _ x h
    rw [width_cons]; omega

theorem lookErrs_off (off : Nat) (c : Ch) (cs : List Ch) (t : Nat) :
    ∀ e ∈ lookErrs off c cs t, e.off ≤ off + width (c :: cs) := by
  intro e he
  cases cs with
  | nil => simp [lookErrs] at he
  | cons c1 rest =>
    simp only [lookErrs, List.mem_map] at he
    obtain ⟨x, hx, rfl⟩ := he
    have := charEvents_off _ _ _ _ x hx
    simp only [width_cons]; omega
theorem comment_step (cls : Nat → Nat) (ins : Bool) (c : Ch) (rest : List Ch)
    (h : atComment c rest = true) : (scan1 cls ins c rest).tok = none := by
  simp only [atComment, Bool.and_eq_true, beq_iff_eq, Bool.or_eq_true] at h
  obtain ⟨h47, hc⟩ := h
  have hl : isLetter cls 47 = false := by simp [isLetter, isAsciiLetter]
  have hd : isDec 47 = false := by decide
  simp only [scan1, scanR, h47, hl, hd]
  simp [hc]

/-- What the proofs below need to know about the result of `scanLoop` on `cs` at offset `off`. -/
structure Inv (off : Nat) (cs : List Ch) (ins : Bool) (o : Out) : Prop where
  bounds : ∀ t ∈ o.toks, off ≤ t.off ∧ t.off ≤ off + width cs
  sorted : o.toks.Pairwise (fun a b => a.off ≤ b.off)
  count : o.toks.length ≤ cs.length + 2
  countC : ins = false → (∃ c rest, cs = c :: rest ∧ atComment c rest = true) → o.toks.length ≤ cs.length + 1
  errs : ∀ e ∈ o.errs, e.off ≤ off + width cs
  last : o.toks.getLast? = some ⟨.EOF, [], off + width cs⟩

theorem getLast?_append_of_some {α} (l₁ l₂ : List α) (a : α) (h : l₂.getLast? = some a) :
    (l₁ ++ l₂).getLast? = some a := by
  cases l₂ with
  | nil => simp at h
  | cons x xs => rw [List.getLast?_append]; simp [h]

theorem inv_step {off : Nat} {c : Ch} {rest : List Ch} {m : Nat} {ins ins' : Bool} {o' : Out}
    (hd : List Token) (es : List Err)
    (ih : Inv (off + width (c :: rest.take m)) (rest.drop m) ins' o')
    (hhd : hd = [] ∨ ∃ t lit, hd = [⟨t, lit, off⟩])
    (hes : ∀ e ∈ es, e.off ≤ off + width (c :: rest))
    (hC : ins = false → atComment c rest = true → hd = []) :
    Inv off (c :: rest) ins { toks := hd ++ o'.toks, errs := es ++ o'.errs } := by
  have hw : off + width (c :: rest.take m) + width (rest.drop m) = off + width (c :: rest) := by
    have := width_take_drop m rest
    simp only [width_cons]; omega
  have hlen : (rest.drop m).length ≤ rest.length := by simp
  have hhdoff : ∀ t ∈ hd, t.off = off := by
    rcases hhd with rfl | ⟨t, lit, rfl⟩
    · simp
    · simp
  have hhdlen : hd.length ≤ 1 := by
    rcases hhd with rfl | ⟨t, lit, rfl⟩ <;> simp
  refine ⟨?_, ?_, ?_, ?_, ?_, ?_⟩
  · intro t ht
    rcases List.mem_append.mp ht with h | h
    · have := hhdoff t h; omega
    · have := ih.bounds t h; omega
  · simp only
    rw [List.pairwise_append]
    refine ⟨?_, ih.sorted, ?_⟩
    · rcases hhd with rfl | ⟨t, lit, rfl⟩ <;> simp
    · intro a ha b hb
      have := hhdoff a ha
      have := ih.bounds b hb
      omega
  · have := ih.count
    simp only [List.length_append, List.length_cons]; omega
  · intro hi hc
    obtain ⟨c', rest', heq, hat⟩ := hc
    simp only [List.cons.injEq] at heq
    obtain ⟨rfl, rfl⟩ := heq
    have := hC hi hat
    subst this
    have := ih.count
    simp only [List.nil_append, List.length_cons]; omega
  · intro e he
    rcases List.mem_append.mp he with h | h
    · exact hes e h
    · have := ih.errs e h; omega
  · simp only
    rw [getLast?_append_of_some _ _ _ ih.last, hw]

theorem scanLoop_inv (cls : Nat → Nat) (cs : List Ch) (off : Nat) (ins : Bool) :
    Inv off cs ins (scanLoop cls cs off ins) := by
  fun_induction scanLoop cls cs off ins with
  | case1 off =>
    refine ⟨?_, ?_, ?_, ?_, ?_, ?_⟩ <;> simp
  | case2 off ins h =>
    refine ⟨?_, ?_, ?_, ?_, ?_, ?_⟩ <;> simp
  | case3 off ins c rest hc fl le hfl o ih =>
    refine ⟨?_, ?_, ?_, ?_, ?_, ?_⟩
    · intro t ht
      rcases List.mem_cons.mp ht with rfl | h
      · simp
      · exact ih.bounds t h
    · simp only [List.pairwise_cons]
      refine ⟨?_, ih.sorted⟩
      intro b hb
      exact (ih.bounds b hb).1
    · have h : o.toks.length ≤ (c :: rest).length + 1 := ih.countC rfl ⟨c, rest, rfl, hc.2⟩
      exact Nat.succ_le_succ h
    · intro hi; simp [hc.1] at hi
    · intro e he
      rcases List.mem_append.mp he with h | h
      · exact lookErrs_off _ _ _ _ e h
      · exact ih.errs e h
    · simp only
      rw [List.getLast?_cons]
      rw [ih.last]; simp
  | case4 off ins c rest hc fl le hfl st o ih =>
    have := inv_step (ins := ins) [] (lookErrs off c rest fl.2 ++ stepErrs off c rest st) ih (Or.inl rfl)
      (by
        intro e he
        rcases List.mem_append.mp he with h | h
        · exact lookErrs_off _ _ _ _ e h
        · exact stepErrs_off _ _ _ _ e h)
      (by intros; rfl)
    simpa using this
  | case5 off ins c rest hc st o t lit htok ih =>
    have := inv_step (ins := ins) [⟨t, lit, off⟩] (stepErrs off c rest st) ih (Or.inr ⟨t, lit, rfl⟩)
      (stepErrs_off _ _ _ _)
      (by
        intro hi hat
        have := comment_step cls ins c rest hat
        rw [show scan1 cls ins c rest = st from rfl, htok] at this
        simp at this)
    simpa [htok] using this
  | case6 off ins c rest hc st o htok ih =>
    have := inv_step (ins := ins) [] (stepErrs off c rest st) ih (Or.inl rfl)
      (stepErrs_off _ _ _ _)
      (by intros; rfl)
    simpa [htok] using this
theorem length_decodeAt_le (off : Nat) (bs : Bs) : (decodeAt off bs).length ≤ bs.length := by
  fun_induction decodeAt off bs with
  | case1 => simp
  | case2 off b0 rest rw ih =>
    simp only [List.length_cons, List.length_drop] at *
    omega

theorem bytes_pos_of_mem_decodeAt (off : Nat) (bs : Bs) : ∀ c ∈ decodeAt off bs, 1 ≤ c.bytes.length := by
  fun_induction decodeAt off bs with
  | case1 => simp
  | case2 off b0 rest rw ih =>
    intro c hc
    rcases List.mem_cons.mp hc with rfl | h
    · simp
    · exact ih c h

/-- Everything C04 claims about the token stream and the error list of one source. -/
structure ScanOK (src : Bs) (o : Out) : Prop where
  count : o.toks.length ≤ src.length + 2
  offsets : ∀ t ∈ o.toks, t.off ≤ src.length
  sorted : o.toks.Pairwise (fun a b => a.off ≤ b.off)
  errs : ∀ e ∈ o.errs, e.off ≤ src.length
  last : o.toks.getLast? = some ⟨.EOF, [], src.length⟩

theorem scan_ok (cls : Nat → Nat) (src : Bs) : ScanOK src (scan cls src) := by
  have hw := width_decodeAt 0 src
  have hl := length_decodeAt_le 0 src
  unfold scan
  generalize decodeAt 0 src = cs at hw hl
  cases cs with
  | nil =>
    dsimp only
    have inv := scanLoop_inv cls [] 0 false
    simp only [width_nil] at hw
    refine ⟨?_, ?_, inv.sorted, ?_, ?_⟩
    · have := inv.count; simp only [List.length_nil] at this; omega
    · intro t ht; have := inv.bounds t ht; simp only [width_nil] at this; omega
    · intro e he; have := inv.errs e he; simp only [width_nil] at this; omega
    · have := inv.last; simpa [← hw] using this
  | cons c rest =>
    dsimp only
    split
    · -- BOM at the beginning
      have inv := scanLoop_inv cls rest c.bytes.length false
      have hw' : c.bytes.length + width rest = src.length := by rw [← hw, width_cons]
      refine ⟨?_, ?_, inv.sorted, ?_, ?_⟩
      · have := inv.count; simp only [List.length_cons] at hl; simp only; omega
      · intro t ht; have := inv.bounds t ht; omega
      · intro e he
        simp only [List.mem_append] at he
        rcases he with (h | h) | h
        · split at h <;> simp at h; subst h; simp
        · split at h
          · split at h <;> simp at h; subst h; simp only; omega
          · simp at h
        · have := inv.errs e h; omega
      · have := inv.last; rw [hw'] at this; exact this
    · have inv := scanLoop_inv cls (c :: rest) 0 false
      refine ⟨?_, ?_, inv.sorted, ?_, ?_⟩
      · have := inv.count; simp only; omega
      · intro t ht; have := inv.bounds t ht; omega
      · intro e he
        simp only [List.mem_append] at he
        rcases he with h | h
        · split at h <;> simp at h; subst h; simp
        · have := inv.errs e h; omega
      · have := inv.last; simpa [hw] using this
/-- A step never hands out the EOF token: EOF is produced only by the empty-input arm of `scanLoop`. -/
def NoEOF (st : Step) : Prop := ∀ t lit, st.tok = some (t, lit) → t ≠ .EOF

theorem lookup_ne_eof (lit : Bs) : Tok.lookup lit ≠ .EOF := by
  unfold Tok.lookup
  split
  · rename_i k hk
    have hm := List.mem_of_find?_eq_some hk
    have : ∀ k ∈ Tok.keywords, k ≠ Tok.EOF := by decide
    exact this k hm
  · simp

theorem scanNumber_ne_eof (cs : List Ch) : (scanNumber cs).2.1 ≠ .EOF := by
  unfold scanNumber
  simp only
  split
  · simp
  · split <;> simp

theorem noEOF_ite {c : Prop} [Decidable c] {a b : Step} (ha : NoEOF a) (hb : NoEOF b) :
    NoEOF (if c then a else b) := by
  split <;> assumption

theorem noEOF_op (mt : Nat × Tok) (i : Bool) (h : mt.2 ≠ .EOF) : NoEOF (op mt i) := by
  intro t lit ht
  simp only [op, Option.some.injEq, Prod.mk.injEq] at ht
  rw [← ht.1]; exact h

theorem switch2_ne (cs : List Ch) (a b : Tok) (ha : a ≠ .EOF) (hb : b ≠ .EOF) : (switch2 cs a b).2 ≠ .EOF := by
  unfold switch2; split <;> simpa

theorem switch3_ne (cs : List Ch) (a b : Tok) (c : Nat) (d : Tok) (ha : a ≠ .EOF) (hb : b ≠ .EOF)
    (hd : d ≠ .EOF) : (switch3 cs a b c d).2 ≠ .EOF := by
  unfold switch3; repeat' split
  all_goals simpa

theorem switch4_ne (cs : List Ch) (a b : Tok) (c : Nat) (d e : Tok) (ha : a ≠ .EOF) (hb : b ≠ .EOF)
    (hd : d ≠ .EOF) (he : e ≠ .EOF) : (switch4 cs a b c d e).2 ≠ .EOF := by
  unfold switch4; repeat' split
  all_goals simpa

theorem scanR_noEOF (cls : Nat → Nat) (ins : Bool) (r : Nat) (c : Ch) (cs : List Ch) :
    NoEOF (scanR cls ins r c cs) := by
  unfold scanR
  repeat' apply noEOF_ite
  all_goals first
    | (intro t lit ht; simp at ht; done)
    | (intro t lit ht
       simp only [Option.some.injEq, Prod.mk.injEq] at ht
       first
         | (rw [← ht.1]; exact lookup_ne_eof _)
         | (rw [← ht.1]; exact scanNumber_ne_eof _)
         | (rw [← ht.1]; decide))
    | (apply noEOF_op; first
        | (simp; done)
        | (apply switch2_ne <;> decide)
        | (apply switch3_ne <;> decide)
        | (apply switch4_ne <;> decide)
        | (simp only; apply switch2_ne <;> decide))

theorem scan1_noEOF (cls : Nat → Nat) (ins : Bool) (c : Ch) (cs : List Ch) : NoEOF (scan1 cls ins c cs) :=
  scanR_noEOF cls ins c.r c cs

/-- Exactly one EOF token: every token but the last is not EOF. -/
theorem scanLoop_one_eof (cls : Nat → Nat) (cs : List Ch) (off : Nat) (ins : Bool) :
    ∀ t ∈ (scanLoop cls cs off ins).toks.dropLast, t.tok ≠ .EOF := by
  fun_induction scanLoop cls cs off ins with
  | case1 off => simp
  | case2 off ins h => simp
  | case3 off ins c rest hc fl le hfl o ih =>
    have hne : o.toks ≠ [] := by
      have := (scanLoop_inv cls (c :: rest) off false).last
      intro h; simp [o, h] at this
    intro t ht
    simp only [List.dropLast_cons_of_ne_nil hne, List.mem_cons] at ht
    rcases ht with rfl | h
    · simp
    · exact ih t h
  | case4 off ins c rest hc fl le hfl st o ih => exact ih
  | case5 off ins c rest hc st o t lit htok ih =>
    have hne : o.toks ≠ [] := by
      have := (scanLoop_inv cls (rest.drop st.m) (off + width (c :: rest.take st.m)) st.ins).last
      intro h; simp [o, h] at this
    intro t' ht
    simp only [List.dropLast_cons_of_ne_nil hne, List.mem_cons] at ht
    rcases ht with rfl | h
    · exact scan1_noEOF cls ins c rest t lit htok
    · exact ih t' h
  | case6 off ins c rest hc st o htok ih => simpa [htok] using ih

end Tengo.Proofs.C04Scan

import Tengo.Proofs.C15HeapExec
/-!
C15 (heap model): the global invariants (references in range; objects of a Clone-made handle are held by no
other handle) and the step-by-step simulation of the concrete machine by the tagged specification.
-/
namespace Tengo.Proofs.C15Heap
open Tengo.Model.Host hiding execC Host ScriptSt CompiledSt Abs AScript ACompiled
open Tengo.Model.HostHeap
open Tengo.Props.C15 (mapVals hasKey_mapVals setKey_mapVals upsert_mapVals eraseKey_mapVals lookup_mapVals
  keys_mapVals length_mapVals mapVals_congr lookup_mem mem_set SlotsOK VarsOK deref_append deref_new slotOf_ok
  slotsOK_const mem_of_getElem?)

def absScript (st : List TVal) (s : ScriptSt) : AScript := { vars := absVars st s.vars, src := s.src }
def absCompiled (st : List TVal) (c : CompiledSt) : ACompiled := { env := absEnv st c.slots, code := c.code }
def absOf (h : Host) : Abs :=
  { next := h.store.length, scripts := h.scripts.map (absScript h.store),
    compiled := h.compiled.map (absCompiled h.store) }

/-- Every reference held by a handle points into the store. -/
structure WF (h : Host) : Prop where
  scripts : ∀ s ∈ h.scripts, VarsOK h.store.length s.vars
  compiled : ∀ c ∈ h.compiled, SlotsOK h.store.length c.slots

/-- The objects of a handle made by `Clone` are held by no other Compiled and by no Script. -/
structure Iso (h : Host) : Prop where
  comp : ∀ (i j : Nat) (ci cj : CompiledSt), h.compiled[i]? = some ci → h.compiled[j]? = some cj → i ≠ j → ci.cloned = true →
    ∀ r, Refs ci.slots r → Refs cj.slots r → False
  scr : ∀ (i : Nat) (ci : CompiledSt), h.compiled[i]? = some ci → ci.cloned = true → ∀ s ∈ h.scripts, ∀ r, Refs ci.slots r → VRefs s.vars r → False

theorem getElem?_snoc {α : Type} {l : List α} {x y : α} {j : Nat} (h : (l ++ [x])[j]? = some y) :
    l[j]? = some y ∨ (j = l.length ∧ y = x) := by
  by_cases hj : j < l.length
  · rw [List.getElem?_append_left hj] at h; exact Or.inl h
  · rw [List.getElem?_append_right (by omega)] at h
    by_cases h0 : j - l.length = 0
    · rw [h0] at h; simp at h; exact Or.inr ⟨by omega, h.symm⟩
    · have : ([x] : List α)[j - l.length]? = none := by
        apply List.getElem?_eq_none; simp; omega
      rw [this] at h; cases h

theorem getElem?_set_cases {α : Type} {l : List α} {x y : α} {c j : Nat} (h : (l.set c x)[j]? = some y) :
    (j = c ∧ y = x) ∨ (j ≠ c ∧ l[j]? = some y) := by
  by_cases hj : c = j
  · subst hj
    rw [List.getElem?_set_self'] at h
    cases hl : l[c]? with
    | none => simp [hl] at h
    | some z => simp [hl] at h; exact Or.inl ⟨rfl, h.symm⟩
  · rw [List.getElem?_set_ne hj] at h
    exact Or.inr ⟨fun e => hj e.symm, h⟩

theorem map_set_congr {α β : Type} (l : List α) (f g : α → β) (c : Nat) (x : β)
    (h : ∀ j y, j ≠ c → l[j]? = some y → f y = g y) : (l.map f).set c x = (l.map g).set c x := by
  apply List.ext_getElem?
  intro j
  by_cases hj : c = j
  · subst hj; simp [List.getElem?_set_self']
  · rw [List.getElem?_set_ne hj, List.getElem?_set_ne hj, List.getElem?_map, List.getElem?_map]
    cases hl : l[j]? with
    | none => rfl
    | some y => simp [h j y (fun e => hj e.symm) hl]

theorem map_congr_mem {α β : Type} (l : List α) (f g : α → β) (h : ∀ y ∈ l, f y = g y) : l.map f = l.map g :=
  List.map_congr_left h

theorem absScripts_congr (h : Host) (S' : List TVal)
    (hd : ∀ s ∈ h.scripts, ∀ r, VRefs s.vars r → deref S' r = deref h.store r) :
    h.scripts.map (absScript S') = h.scripts.map (absScript h.store) := by
  apply List.map_congr_left
  intro s hs
  simp only [absScript, absVars_congr _ _ _ (hd s hs)]

theorem absScripts_append (h : Host) (hw : WF h) (ext : List TVal) :
    h.scripts.map (absScript (h.store ++ ext)) = h.scripts.map (absScript h.store) :=
  absScripts_congr h _ (fun s hs r hr => deref_append _ _ _ ((varsOK_iff _ _).1 (hw.scripts s hs) r hr))

theorem absCompiled_congr (S S' : List TVal) (c : CompiledSt)
    (hd : ∀ r, Refs c.slots r → deref S' r = deref S r) : absCompiled S' c = absCompiled S c := by
  simp only [absCompiled, absEnv_congr _ _ _ hd]

theorem absCompileds_append (h : Host) (hw : WF h) (ext : List TVal) :
    h.compiled.map (absCompiled (h.store ++ ext)) = h.compiled.map (absCompiled h.store) := by
  apply List.map_congr_left
  intro c hc
  exact absCompiled_congr _ _ _ (fun r hr => deref_append _ _ _ ((slotsOK_iff _ _).1 (hw.compiled c hc) r hr))

/-- A handle `c` gets new globals whose objects are old objects of `c` or fresh ones: isolation is kept. -/
theorem iso_update (h : Host) (hw : WF h) (hi : Iso h) (c : Nat) (cs : CompiledSt) (sl' : List (String × Option Nat))
    (S' : List TVal) (hc : h.compiled[c]? = some cs)
    (hsub : ∀ r, Refs sl' r → Refs cs.slots r ∨ h.store.length ≤ r) :
    Iso { store := S', scripts := h.scripts, compiled := h.compiled.set c { cs with slots := sl' } } := by
  have hlt : ∀ (j : Nat) (cj : CompiledSt), h.compiled[j]? = some cj → ∀ r, Refs cj.slots r → r < h.store.length :=
    fun j cj hj r hr => (slotsOK_iff _ _).1 (hw.compiled cj (mem_of_getElem? hj)) r hr
  constructor
  · intro i j ci cj hci hcj hij hcl r hri hrj
    simp only at hci hcj
    rcases getElem?_set_cases hci with ⟨rfl, rfl⟩ | ⟨hic, hci'⟩
    · rcases getElem?_set_cases hcj with ⟨rfl, _⟩ | ⟨_, hcj'⟩
      · exact hij rfl
      · rcases hsub r hri with h1 | h1
        · exact hi.comp i j cs cj hc hcj' hij hcl r h1 hrj
        · have := hlt j cj hcj' r hrj; omega
    · rcases getElem?_set_cases hcj with ⟨rfl, rfl⟩ | ⟨_, hcj'⟩
      · rcases hsub r hrj with h1 | h1
        · exact hi.comp i j ci cs hci' hc hij hcl r hri h1
        · have := hlt i ci hci' r hri; omega
      · exact hi.comp i j ci cj hci' hcj' hij hcl r hri hrj
  · intro i ci hci hcl s hs r hri hrs
    simp only at hci hs
    rcases getElem?_set_cases hci with ⟨rfl, rfl⟩ | ⟨_, hci'⟩
    · rcases hsub r hri with h1 | h1
      · exact hi.scr i cs hc hcl s hs r h1 hrs
      · have := (varsOK_iff _ _).1 (hw.scripts s hs) r hrs; omega
    · exact hi.scr i ci hci' hcl s hs r hri hrs

/-- A script gets new variables whose objects are old objects of it or fresh ones. -/
theorem iso_script (h : Host) (hw : WF h) (hi : Iso h) (s : Nat) (sc : ScriptSt) (vars' : List (String × Nat))
    (S' : List TVal) (hs : h.scripts[s]? = some sc)
    (hsub : ∀ r, VRefs vars' r → VRefs sc.vars r ∨ h.store.length ≤ r) :
    Iso { store := S', scripts := h.scripts.set s { sc with vars := vars' }, compiled := h.compiled } := by
  constructor
  · exact hi.comp
  · intro i ci hci hcl s' hs' r hri hrs
    simp only at hci hs'
    rcases mem_set hs' with rfl | hs'
    · rcases hsub r hrs with h1 | h1
      · exact hi.scr i ci hci hcl sc (mem_of_getElem? hs) r hri h1
      · have := (slotsOK_iff _ _).1 (hw.compiled ci (mem_of_getElem? hci)) r hri; omega
    · exact hi.scr i ci hci hcl s' hs' r hri hrs

/-- A new handle: either not a clone and holding objects of a script, or a clone holding fresh objects only. -/
theorem iso_new (h : Host) (hw : WF h) (hi : Iso h) (cn : CompiledSt) (S' : List TVal)
    (hnew : (cn.cloned = false ∧ ∃ sc ∈ h.scripts, ∀ r, Refs cn.slots r → VRefs sc.vars r) ∨
            (∀ r, Refs cn.slots r → h.store.length ≤ r)) :
    Iso { store := S', scripts := h.scripts, compiled := h.compiled ++ [cn] } := by
  have hlt : ∀ (j : Nat) (cj : CompiledSt), h.compiled[j]? = some cj → ∀ r, Refs cj.slots r → r < h.store.length :=
    fun j cj hj r hr => (slotsOK_iff _ _).1 (hw.compiled cj (mem_of_getElem? hj)) r hr
  constructor
  · intro i j ci cj hci hcj hij hcl r hri hrj
    simp only at hci hcj
    rcases getElem?_snoc hci with hci' | ⟨rfl, rfl⟩
    · rcases getElem?_snoc hcj with hcj' | ⟨rfl, rfl⟩
      · exact hi.comp i j ci cj hci' hcj' hij hcl r hri hrj
      · rcases hnew with ⟨_, sc, hsc, hv⟩ | hf
        · exact hi.scr i ci hci' hcl sc hsc r hri (hv r hrj)
        · have := hlt i ci hci' r hri; have := hf r hrj; omega
    · rcases getElem?_snoc hcj with hcj' | ⟨rfl, _⟩
      · rcases hnew with ⟨hf, _⟩ | hf
        · rw [hf] at hcl; cases hcl
        · have := hlt j cj hcj' r hrj; have := hf r hri; omega
      · exact hij rfl
  · intro i ci hci hcl s hs r hri hrs
    simp only at hci hs
    rcases getElem?_snoc hci with hci' | ⟨rfl, rfl⟩
    · exact hi.scr i ci hci' hcl s hs r hri hrs
    · rcases hnew with ⟨hf, _⟩ | hf
      · rw [hf] at hcl; cases hcl
      · have := (varsOK_iff _ _).1 (hw.scripts s hs) r hrs; have := hf r hri; omega

end Tengo.Proofs.C15Heap

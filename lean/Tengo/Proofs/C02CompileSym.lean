import Tengo.Model.Compiler
/-!
C02 / `compile_verifies`, symbol-table layer: every symbol the tables of the compiler model hand out
has an index below the bound the emitted function / program will declare (`NumLocals` =
`maxDefinition` of the function table, number of captured variables = `freeSymbols.length`,
`MaxSymbols()` of the root table, number of builtins).
-/
set_option linter.unusedVariables false
set_option linter.unusedSimpArgs false
namespace Tengo.Proofs.C02Compile
open Tengo.Model Tengo.Model.Compiler

/-- `maxDefinition` of the enclosing FUNCTION table; 0 at top level (the root table's symbols are
globals). -/
def locMax : Chain → Nat
  | [] => 0
  | t :: ps => if t.block then locMax ps else (if ps.isEmpty then 0 else t.maxDefinition)

/-- number of captured variables of the enclosing function; 0 at top level -/
def freeCnt : Chain → Nat
  | [] => 0
  | t :: ps => if t.block then freeCnt ps else (if ps.isEmpty then 0 else t.freeSymbols.length)

/-- `MaxSymbols()` of the root table -/
def rootMax : Chain → Nat
  | [] => 0
  | [t] => t.maxDefinition
  | _ :: p :: ps => rootMax (p :: ps)

def TableLe (t t' : Table) : Prop :=
  t.block = t'.block ∧ t.maxDefinition ≤ t'.maxDefinition ∧ t.freeSymbols <+: t'.freeSymbols

/-- Same shape, bounds only grow. -/
def ChainLe : Chain → Chain → Prop
  | [], [] => True
  | t :: ps, t' :: ps' => TableLe t t' ∧ ChainLe ps ps'
  | _, _ => False

theorem TableLe.refl (t : Table) : TableLe t t := ⟨rfl, Nat.le_refl _, List.prefix_refl _⟩
theorem TableLe.trans {a b c : Table} (h1 : TableLe a b) (h2 : TableLe b c) : TableLe a c :=
  ⟨h1.1.trans h2.1, Nat.le_trans h1.2.1 h2.2.1, h1.2.2.trans h2.2.2⟩

theorem ChainLe.refl : ∀ (c : Chain), ChainLe c c
  | [] => trivial
  | t :: ps => ⟨TableLe.refl t, ChainLe.refl ps⟩

theorem ChainLe.trans : ∀ {a b c : Chain}, ChainLe a b → ChainLe b c → ChainLe a c
  | [], [], [], _, _ => trivial
  | _ :: _, _ :: _, _ :: _, h1, h2 => ⟨h1.1.trans h2.1, ChainLe.trans h1.2 h2.2⟩
  | [], [], _ :: _, _, h2 => h2.elim
  | [], _ :: _, _, h1, _ => h1.elim
  | _ :: _, [], _, h1, _ => h1.elim
  | _ :: _, _ :: _, [], _, h2 => h2.elim

theorem ChainLe.isEmpty : ∀ {a b : Chain}, ChainLe a b → a.isEmpty = b.isEmpty
  | [], [], _ => rfl
  | _ :: _, _ :: _, _ => rfl
  | [], _ :: _, h => h.elim
  | _ :: _, [], h => h.elim

theorem ChainLe.locMax : ∀ {a b : Chain}, ChainLe a b → locMax a ≤ locMax b
  | [], [], _ => Nat.le_refl _
  | t :: ps, t' :: ps', h => by
    obtain ⟨⟨hb, hm, _⟩, hps⟩ := h
    simp only [Tengo.Proofs.C02Compile.locMax, ← hb, ← hps.isEmpty]
    split
    · exact ChainLe.locMax hps
    · split
      · exact Nat.le_refl _
      · exact hm
  | [], _ :: _, h => h.elim
  | _ :: _, [], h => h.elim

theorem ChainLe.freeCnt : ∀ {a b : Chain}, ChainLe a b → freeCnt a ≤ freeCnt b
  | [], [], _ => Nat.le_refl _
  | t :: ps, t' :: ps', h => by
    obtain ⟨⟨hb, _, hf⟩, hps⟩ := h
    simp only [Tengo.Proofs.C02Compile.freeCnt, ← hb, ← hps.isEmpty]
    split
    · exact ChainLe.freeCnt hps
    · split
      · exact Nat.le_refl _
      · exact hf.length_le
  | [], _ :: _, h => h.elim
  | _ :: _, [], h => h.elim

theorem ChainLe.rootMax : ∀ {a b : Chain}, ChainLe a b → rootMax a ≤ rootMax b
  | [], [], _ => Nat.le_refl _
  | [t], [t'], h => h.1.2.1
  | _ :: p :: ps, _ :: p' :: ps', h => ChainLe.rootMax (a := p :: ps) (b := p' :: ps') h.2
  | [_], _ :: _ :: _, h => h.2.elim
  | _ :: _ :: _, [_], h => h.2.elim
  | [], _ :: _, h => h.elim
  | _ :: _, [], h => h.elim

theorem ChainLe.globalCtx : ∀ {a b : Chain}, ChainLe a b → globalCtx a = globalCtx b
  | [], [], _ => rfl
  | t :: ps, t' :: ps', h => by
    obtain ⟨⟨hb, _, _⟩, hps⟩ := h
    simp only [Compiler.globalCtx, ← hb, ← hps.isEmpty]
    split
    · exact ChainLe.globalCtx hps
    · rfl
  | [], _ :: _, h => h.elim
  | _ :: _, [], h => h.elim

theorem rootMax_cons {t : Table} {ps : Chain} (h : ps.isEmpty = false) : rootMax (t :: ps) = rootMax ps := by
  cases ps with
  | nil => simp at h
  | cons p ps => rfl

/-- The index of a symbol is below the bound of its scope. -/
def SymOK (c : Chain) (s : Sym) : Prop :=
  match s.scope with
  | .local => s.index < locMax c
  | .free => s.index < freeCnt c
  | .global => s.index < rootMax c
  | .builtin => s.index < Spec.builtinNames.length

/-- A captured symbol (entry of `freeSymbols`), seen from the enclosing function. -/
def OrigOK (c : Chain) (o : Sym) : Prop :=
  (o.scope = .local ∧ o.index < locMax c) ∨ (o.scope = .free ∧ o.index < freeCnt c)

theorem SymOK.mono {c c' : Chain} {s : Sym} (h : ChainLe c c') (hs : SymOK c s) : SymOK c' s := by
  unfold SymOK at hs ⊢
  split <;> rename_i hsc <;> simp only [hsc] at hs
  · exact Nat.lt_of_lt_of_le hs h.locMax
  · exact Nat.lt_of_lt_of_le hs h.freeCnt
  · exact Nat.lt_of_lt_of_le hs h.rootMax
  · exact hs

theorem OrigOK.mono {c c' : Chain} {s : Sym} (h : ChainLe c c') (hs : OrigOK c s) : OrigOK c' s := by
  rcases hs with ⟨e, hl⟩ | ⟨e, hl⟩
  · exact Or.inl ⟨e, Nat.lt_of_lt_of_le hl h.locMax⟩
  · exact Or.inr ⟨e, Nat.lt_of_lt_of_le hl h.freeCnt⟩

theorem SymOK.toOrig {c : Chain} {s : Sym} (hs : SymOK c s) (hg : ¬ s.scope = .global)
    (hb : ¬ s.scope = .builtin) : OrigOK c s := by
  unfold SymOK at hs
  cases e : s.scope <;> simp only [e] at hs hg hb
  · exact absurd trivial hg
  · exact Or.inl ⟨e, hs⟩
  · exact absurd trivial hb
  · exact Or.inr ⟨e, hs⟩

/-- under a block table the bounds are those of the rest of the chain -/
theorem SymOK.under_block {t : Table} {ps : Chain} {s : Sym} (hb : t.block = true) (hne : ps.isEmpty = false)
    (hs : SymOK ps s) : SymOK (t :: ps) s := by
  unfold SymOK at hs ⊢
  simp only [locMax, freeCnt, hb, if_true, rootMax_cons hne]
  exact hs

/-- Invariant of a table chain: stored symbols and captured originals are within their bounds. -/
def TInv : Chain → Prop
  | [] => True
  | t :: ps => (∀ p ∈ t.store, SymOK (t :: ps) p.2) ∧ (t.block = false → ∀ o ∈ t.freeSymbols, OrigOK ps o) ∧ TInv ps

theorem lookup_mem {α : Type} : ∀ {l : List (String × α)} {n : String} {a : α}, l.lookup n = some a →
    ∃ k, (k, a) ∈ l
  | [], _, _, h => by simp [List.lookup] at h
  | (k, v) :: l, n, a, h => by
    simp only [List.lookup] at h
    split at h
    · injection h with h; subst h; exact ⟨k, List.mem_cons_self⟩
    · obtain ⟨k', hk⟩ := lookup_mem h
      exact ⟨k', List.mem_cons_of_mem _ hk⟩

theorem resolveIn_spec (asg : Nat → Bool) (n : String) : ∀ (c : Chain) (recur : Bool) (id : Nat)
    (r : Option (Sym × Nat)) (c' : Chain) (id' : Nat), resolveIn asg n c recur id = (r, c', id') → TInv c →
    TInv c' ∧ ChainLe c c' ∧ (∀ s d, r = some (s, d) → SymOK c' s)
  | [], recur, id, r, c', id', h, _ => by
    simp only [resolveIn, Prod.mk.injEq] at h
    obtain ⟨rfl, rfl, rfl⟩ := h
    exact ⟨trivial, trivial, fun _ _ e => by cases e⟩
  | t :: ps, recur, id, r, c', id', h, hinv => by
    obtain ⟨hst, hfr, hps⟩ := hinv
    rw [resolveIn] at h
    dsimp only at h
    split at h
    · rename_i s hhere
      simp only [Prod.mk.injEq] at h
      obtain ⟨rfl, rfl, rfl⟩ := h
      refine ⟨⟨hst, hfr, hps⟩, ChainLe.refl _, ?_⟩
      intro s' d e
      injection e with e; injection e with e1 e2; subst e1
      split at hhere
      · rename_i s0 hlk
        split at hhere
        · injection hhere with hhere; subst hhere
          obtain ⟨k, hk⟩ := lookup_mem hlk
          exact hst (k, s0) hk
        · cases hhere
      · cases hhere
    · split at h
      · simp only [Prod.mk.injEq] at h
        obtain ⟨rfl, rfl, rfl⟩ := h
        exact ⟨⟨hst, hfr, hps⟩, ChainLe.refl _, fun _ _ e => by cases e⟩
      · rename_i hne
        have hne' : ps.isEmpty = false := by simpa using hne
        split at h
        · rename_i ps' id1 hrec
          simp only [Prod.mk.injEq] at h
          obtain ⟨rfl, rfl, rfl⟩ := h
          obtain ⟨hinv', hle, _⟩ := resolveIn_spec asg n ps true id none ps' id1 hrec hps
          have hcl : ChainLe (t :: ps) (t :: ps') := ⟨TableLe.refl t, hle⟩
          refine ⟨⟨fun p hp => (hst p hp).mono hcl, fun hb o ho => (hfr hb o ho).mono hle, hinv'⟩, hcl,
            fun _ _ e => by cases e⟩
        · rename_i s d ps' id1 hrec
          obtain ⟨hinv', hle, hsym⟩ := resolveIn_spec asg n ps true id (some (s, d)) ps' id1 hrec hps
          have hsok : SymOK ps' s := hsym s d rfl
          have hne2 : ps'.isEmpty = false := by rw [← hle.isEmpty]; exact hne'
          split at h
          · rename_i hcond
            simp only [Bool.and_eq_true, Bool.not_eq_true', bne_iff_ne, ne_eq] at hcond
            obtain ⟨⟨hb, hng⟩, hnb⟩ := hcond
            obtain ⟨fs, t', hfs, htb, htm, htf, hts⟩ : ∃ fs t', t.defineFree s id1 = (fs, t') ∧
                t'.block = t.block ∧ t'.maxDefinition = t.maxDefinition ∧
                t'.freeSymbols = t.freeSymbols ++ [s] ∧ t'.store = (s.name, fs) :: t.store ∧ True ∧
                fs.scope = .free ∧ fs.index = t.freeSymbols.length :=
              ⟨_, _, rfl, rfl, rfl, rfl, rfl, trivial, rfl, rfl⟩
            obtain ⟨_, hfsc, hfsi⟩ := hts.2
            have hts := hts.1
            rw [hfs] at h
            simp only [Prod.mk.injEq] at h
            obtain ⟨rfl, rfl, rfl⟩ := h
            have htl : TableLe t t' := ⟨htb.symm, by omega, by rw [htf]; exact List.prefix_append _ _⟩
            have hcl : ChainLe (t :: ps) (t' :: ps') := ⟨htl, hle⟩
            have hnew : SymOK (t' :: ps') fs := by
              simp only [SymOK, hfsc, freeCnt, htb, hb, hne2, Bool.false_eq_true, if_false, htf, hfsi,
                List.length_append, List.length_cons, List.length_nil]
              omega
            refine ⟨⟨?_, ?_, hinv'⟩, hcl, ?_⟩
            · intro p hp
              rw [hts] at hp
              rcases List.mem_cons.mp hp with rfl | hp
              · exact hnew
              · exact (hst p hp).mono hcl
            · intro _ o ho
              rw [htf] at ho
              rcases List.mem_append.mp ho with ho | ho
              · exact (hfr hb o ho).mono hle
              · simp only [List.mem_singleton] at ho; subst ho
                exact hsok.toOrig hng hnb
            · intro s' d' e
              injection e with e; injection e with e1 e2; subst e1
              exact hnew
          · rename_i hcond
            simp only [Prod.mk.injEq] at h
            obtain ⟨rfl, rfl, rfl⟩ := h
            have hcl : ChainLe (t :: ps) (t :: ps') := ⟨TableLe.refl t, hle⟩
            refine ⟨⟨fun p hp => (hst p hp).mono hcl, fun hb o ho => (hfr hb o ho).mono hle, hinv'⟩, hcl, ?_⟩
            intro s' d' e
            injection e with e; injection e with e1 e2; subst e1
            by_cases hb : t.block = true
            · exact hsok.under_block hb hne2
            · have hb' : t.block = false := by simpa using hb
              simp only [hb', Bool.not_false, Bool.true_and, Bool.and_eq_true, bne_iff_ne, ne_eq, not_and,
                Decidable.not_not] at hcond
              unfold SymOK at hsok ⊢
              by_cases hg : s.scope = .global
              · simp only [hg] at hsok ⊢
                rw [rootMax_cons hne2]; exact hsok
              · have hbi := hcond hg
                simp only [hbi] at hsok ⊢
                exact hsok

/-! ### `Define` -/

/-- the last table of the chain (the root) is not a block table -/
def WFC : Chain → Prop
  | [] => False
  | [t] => t.block = false
  | _ :: p :: ps => WFC (p :: ps)

def Same (t t' : Table) : Prop :=
  t'.block = t.block ∧ t'.store = t.store ∧ t'.freeSymbols = t.freeSymbols ∧ t.maxDefinition ≤ t'.maxDefinition

/-- same tables up to `numDefinition` and a grown `maxDefinition` -/
def SameC : Chain → Chain → Prop
  | [], [] => True
  | t :: ps, t' :: ps' => Same t t' ∧ SameC ps ps'
  | _, _ => False

theorem Same.refl (t : Table) : Same t t := ⟨rfl, rfl, rfl, Nat.le_refl _⟩
theorem SameC.refl : ∀ (c : Chain), SameC c c
  | [] => trivial
  | t :: ps => ⟨Same.refl t, SameC.refl ps⟩

theorem SameC.trans : ∀ {a b c : Chain}, SameC a b → SameC b c → SameC a c
  | [], [], [], _, _ => trivial
  | _ :: _, _ :: _, _ :: _, h1, h2 =>
    ⟨⟨h2.1.1.trans h1.1.1, h2.1.2.1.trans h1.1.2.1, h2.1.2.2.1.trans h1.1.2.2.1,
      Nat.le_trans h1.1.2.2.2 h2.1.2.2.2⟩, SameC.trans h1.2 h2.2⟩
  | [], [], _ :: _, _, h2 => h2.elim
  | [], _ :: _, _, h1, _ => h1.elim
  | _ :: _, [], _, h1, _ => h1.elim
  | _ :: _, _ :: _, [], _, h2 => h2.elim

theorem SameC.chainLe : ∀ {a b : Chain}, SameC a b → ChainLe a b
  | [], [], _ => trivial
  | _ :: _, _ :: _, h => ⟨⟨h.1.1.symm, h.1.2.2.2, by rw [h.1.2.2.1]; exact List.prefix_refl _⟩, SameC.chainLe h.2⟩
  | [], _ :: _, h => h.elim
  | _ :: _, [], h => h.elim

theorem sameC_updateMax (k : Nat) : ∀ (c : Chain), SameC c (updateMax k c)
  | [] => trivial
  | t :: ps => by
    rw [updateMax]
    split
    · exact ⟨⟨rfl, rfl, rfl, Nat.le_max_left _ _⟩, sameC_updateMax k ps⟩
    · exact ⟨⟨rfl, rfl, rfl, Nat.le_max_left _ _⟩, SameC.refl ps⟩

theorem sameC_incRoot : ∀ (c : Chain), SameC c (incRoot c)
  | [] => trivial
  | [t] => ⟨⟨rfl, rfl, rfl, Nat.le_refl _⟩, trivial⟩
  | t :: p :: ps => ⟨Same.refl t, sameC_incRoot (p :: ps)⟩

theorem locMax_updateMax (k : Nat) : ∀ (c : Chain), globalCtx c = false → k ≤ locMax (updateMax k c)
  | [], h => by simp [globalCtx] at h
  | t :: ps, h => by
    rw [updateMax]
    rw [globalCtx] at h
    by_cases hb : t.block = true
    · simp only [hb, if_true] at h ⊢
      simp only [locMax, hb, if_true]
      exact locMax_updateMax k ps h
    · have hb' : t.block = false := by simpa using hb
      simp only [hb', Bool.false_eq_true, if_false] at h ⊢
      simp only [locMax, hb', Bool.false_eq_true, if_false, h]
      exact Nat.le_max_right _ _

theorem rootMax_updateMax (k : Nat) : ∀ (c : Chain), WFC c → globalCtx c = true → k ≤ rootMax (updateMax k c)
  | [], h, _ => h.elim
  | [t], h, _ => by
    have hb : t.block = false := h
    simp only [updateMax, hb, Bool.false_eq_true, if_false, rootMax]
    exact Nat.le_max_right _ _
  | t :: p :: ps, h, hg => by
    rw [globalCtx] at hg
    by_cases hb : t.block = true
    · simp only [hb, if_true] at hg
      have ih := rootMax_updateMax k (p :: ps) h hg
      rw [updateMax]
      simp only [hb, if_true]
      have hne : (updateMax k (p :: ps)).isEmpty = false := by
        have := (sameC_updateMax k (p :: ps)).chainLe.isEmpty
        rw [← this]; rfl
      rw [rootMax_cons hne]; exact ih
    · have hb' : t.block = false := by simpa using hb
      simp [hb'] at hg

theorem SameC.globalCtx {a b : Chain} (h : SameC a b) : globalCtx a = globalCtx b := h.chainLe.globalCtx

theorem SameC.wfc : ∀ {a b : Chain}, SameC a b → WFC a → WFC b
  | [], [], _, h => h
  | [t], [t'], h, hw => by
    have hw' : t.block = false := hw
    exact (h.1.1.trans hw' : t'.block = false)
  | _ :: p :: ps, _ :: p' :: ps', h, hw => SameC.wfc (a := p :: ps) (b := p' :: ps') h.2 hw
  | [_], _ :: _ :: _, h, _ => h.2.elim
  | _ :: _ :: _, [_], h, _ => h.2.elim
  | [], _ :: _, h, _ => h.elim
  | _ :: _, [], h, _ => h.elim

theorem ChainLe.wfc : ∀ {a b : Chain}, ChainLe a b → WFC a → WFC b
  | [], [], _, h => h
  | [t], [t'], h, hw => by
    have hw' : t.block = false := hw
    exact (h.1.1.symm.trans hw' : t'.block = false)
  | _ :: p :: ps, _ :: p' :: ps', h, hw => ChainLe.wfc (a := p :: ps) (b := p' :: ps') h.2 hw
  | [_], _ :: _ :: _, h, _ => h.2.elim
  | _ :: _ :: _, [_], h, _ => h.2.elim
  | [], _ :: _, h, _ => h.elim
  | _ :: _, [], h, _ => h.elim

theorem TInv.same : ∀ {a b : Chain}, SameC a b → TInv a → TInv b
  | [], [], _, _ => trivial
  | t :: ps, t' :: ps', h, hi => by
    obtain ⟨hst, hfr, hps⟩ := hi
    have hcl : ChainLe (t :: ps) (t' :: ps') := SameC.chainLe h
    refine ⟨?_, ?_, TInv.same h.2 hps⟩
    · intro p hp
      rw [h.1.2.1] at hp
      exact (hst p hp).mono hcl
    · intro hb o ho
      rw [h.1.2.2.1] at ho
      exact (hfr (h.1.1.symm.trans hb) o ho).mono hcl.2
  | [], _ :: _, h, _ => h.elim
  | _ :: _, [], h, _ => h.elim

/-- `Define`: the new symbol is within its bound, the invariant is kept, the chain only grows. -/
theorem defineIn_spec (n : String) (id : Nat) (c : Chain) (hw : WFC c) (hi : TInv c) :
    TInv (defineIn n id c).2 ∧ ChainLe c (defineIn n id c).2 ∧ SymOK (defineIn n id c).2 (defineIn n id c).1 ∧
      ((defineIn n id c).1.scope = .local ∨ (defineIn n id c).1.scope = .global) := by
  cases c with
  | nil => exact hw.elim
  | cons t ps =>
    obtain ⟨hst, hfr, hps⟩ := hi
    rw [defineIn]
    dsimp only
    generalize hidx : nextIndex (t :: ps) = idx
    cases hg : globalCtx (t :: ps) with
    | true =>
      simp only [if_true]
      let sym : Sym := ⟨n, .global, idx, id⟩
      let t1 : Table := { t with store := (n, sym) :: t.store }
      have hs1 : SameC (t1 :: ps) (updateMax (idx + 1) (incRoot (t1 :: ps))) :=
        (sameC_incRoot _).trans (sameC_updateMax _ _)
      have hg1 : globalCtx (t1 :: ps) = true := hg
      have hw1 : WFC (t1 :: ps) := by
        cases ps with
        | nil => exact hw
        | cons p ps => exact hw
      have hsym : SymOK (updateMax (idx + 1) (incRoot (t1 :: ps))) sym := by
        have := rootMax_updateMax (idx + 1) (incRoot (t1 :: ps)) ((sameC_incRoot _).wfc hw1)
          (by rw [← (sameC_incRoot _).globalCtx]; exact hg1)
        show idx < rootMax _
        omega
      have hcl0 : ChainLe (t :: ps) (t1 :: ps) := ⟨⟨rfl, Nat.le_refl _, List.prefix_refl _⟩, ChainLe.refl ps⟩
      have hcl : ChainLe (t :: ps) (updateMax (idx + 1) (incRoot (t1 :: ps))) := hcl0.trans hs1.chainLe
      refine ⟨?_, hcl, hsym, by simp⟩
      generalize hc' : updateMax (idx + 1) (incRoot (t1 :: ps)) = c' at hs1 hsym hcl
      cases c' with
      | nil => exact hs1.elim
      | cons t' ps' =>
        refine ⟨?_, ?_, TInv.same hs1.2 hps⟩
        · intro p hp
          rw [hs1.1.2.1] at hp
          rcases List.mem_cons.mp hp with rfl | hp
          · exact hsym
          · exact (hst p hp).mono hcl
        · intro hb o ho
          rw [hs1.1.2.2.1] at ho
          exact (hfr (hs1.1.1.symm.trans hb) o ho).mono hcl.2
    | false =>
      simp only [Bool.false_eq_true, if_false]
      let sym : Sym := ⟨n, .local, idx, id⟩
      let t1 : Table := { t with store := (n, sym) :: t.store }
      let t2 : Table := { t1 with numDefinition := t1.numDefinition + 1 }
      have hs0 : SameC (t1 :: ps) (t2 :: ps) := ⟨⟨rfl, rfl, rfl, Nat.le_refl _⟩, SameC.refl ps⟩
      have hs1 : SameC (t1 :: ps) (updateMax (idx + 1) (t2 :: ps)) := hs0.trans (sameC_updateMax _ _)
      have hg2 : globalCtx (t2 :: ps) = false := hg
      have hsym : SymOK (updateMax (idx + 1) (t2 :: ps)) sym := by
        have := locMax_updateMax (idx + 1) (t2 :: ps) hg2
        show idx < locMax _
        omega
      have hcl0 : ChainLe (t :: ps) (t1 :: ps) := ⟨⟨rfl, Nat.le_refl _, List.prefix_refl _⟩, ChainLe.refl ps⟩
      have hcl : ChainLe (t :: ps) (updateMax (idx + 1) (t2 :: ps)) := hcl0.trans hs1.chainLe
      refine ⟨?_, hcl, hsym, by simp⟩
      generalize hc' : updateMax (idx + 1) (t2 :: ps) = c' at hs1 hsym hcl
      cases c' with
      | nil => exact hs1.elim
      | cons t' ps' =>
        refine ⟨?_, ?_, TInv.same hs1.2 hps⟩
        · intro p hp
          rw [hs1.1.2.1] at hp
          rcases List.mem_cons.mp hp with rfl | hp
          · exact hsym
          · exact (hst p hp).mono hcl
        · intro hb o ho
          rw [hs1.1.2.2.1] at ho
          exact (hfr (hs1.1.1.symm.trans hb) o ho).mono hcl.2

end Tengo.Proofs.C02Compile

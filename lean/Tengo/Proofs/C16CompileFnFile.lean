import Tengo.Proofs.C16CompileFnNest
import Tengo.Proofs.C02CompileProg
/-!
C16 / `tail_pattern_sound`, layer 3g: from `compileFile` to the function literal of a statement
`name := func(ps) { … }` of a statement list (the main program, or any block: the lemmas are about `compileStmts`
in a state satisfying `Inv`).

* `stmts_at`: compiling `pre0 ++ st :: post0` compiles `st` in a state satisfying `Inv`, and everything after it
  only extends the constant pool and the root table;
* `define_func_inner`: compiling `name := func…` compiles the literal (`compileExpr`) in a state satisfying `Inv`;
  what follows (the store instruction) leaves the constant pool and the tables alone.
-/
set_option linter.unusedVariables false
set_option linter.unusedSimpArgs false
namespace Tengo.Proofs.C16Fn
open Tengo.Model Tengo.Model.Opcodes Tengo.Model.Compiler Tengo.Model.Optimizer Tengo.Model.Verifier
open Tengo.Model.Spec (Expr Stmt)
open Tengo.Proofs.C03 Tengo.Proofs.C03Reloc Tengo.Proofs.C02Compile Tengo.Proofs.C16Compile

/-- the statement `st` of `pre0 ++ st :: post0` is compiled in a state with `Inv`; the rest only grows the pool -/
theorem stmts_at : ∀ (pre0 : List Stmt) (d : Nat) (st : Stmt) (post0 : List Stmt) (s s' : CState) (L : List Instr)
    (F : List Nat),
    compileStmts d (pre0 ++ st :: post0) s = .ok ((), s') → Inv s L F → szSs d (pre0 ++ st :: post0) < 2 ^ 30 →
    ∃ d' s1 s2 L1 F1, Inv s1 L1 F1 ∧ compileStmt (d' + 1) st s1 = .ok ((), s2) ∧ szS (d' + 1) st < 2 ^ 30 ∧
      s2.consts.toList <+: s'.consts.toList ∧ rootMax s2.tables ≤ rootMax s'.tables
  | [], d, st, post0, s, s', L, F, h, hinv, hsz => by
    cases d with
    | zero => rw [compileStmts] at h; exact (unsupported_ok h).elim
    | succ d0 =>
      simp only [List.nil_append] at h hsz
      rw [compileStmts] at h
      have hszd : szSs (d0 + 1) (st :: post0) = szS d0 st + szSs d0 post0 := by rw [szSs]
      rw [hszd] at hsz
      obtain ⟨_, s1, h1, h2⟩ := bind_ok h
      cases d0 with
      | zero => rw [compileStmt] at h1; exact (unsupported_ok h1).elim
      | succ d' =>
        obtain ⟨B₁, F₁, bs, cs, o1⟩ := (all_spec (d' + 1)).s st s s1 L F h1 hinv (by omega)
        obtain ⟨B₂, F₂, bs2, cs2, o2⟩ := (all_spec (d' + 1)).ss post0 s1 s' _ F₁ h2 o1.inv (by omega)
        exact ⟨d', s, s1, L, F, hinv, h1, by omega, o2.step.consts, o2.step.tabs.rootMax⟩
  | a :: pre0, d, st, post0, s, s', L, F, h, hinv, hsz => by
    cases d with
    | zero => rw [List.cons_append, compileStmts] at h; exact (unsupported_ok h).elim
    | succ d0 =>
      rw [List.cons_append] at h hsz
      rw [compileStmts] at h
      have hszd : szSs (d0 + 1) (a :: (pre0 ++ st :: post0)) = szS d0 a + szSs d0 (pre0 ++ st :: post0) := by
        rw [szSs]
      rw [hszd] at hsz
      obtain ⟨_, s1, h1, h2⟩ := bind_ok h
      obtain ⟨B₁, F₁, bs, cs, o1⟩ := (all_spec d0).s a s s1 L F h1 hinv (by omega)
      exact stmts_at pre0 d0 st post0 s1 s' _ F₁ h2 o1.inv (by omega)

theorem asgStore_frame {selectors : List Expr} {op : String} {sym : Sym} {s s' : CState}
    (h : asgStore selectors op sym s = .ok ((), s')) : s'.consts = s.consts ∧ s'.tables = s.tables := by
  unfold asgStore at h
  cases hsc : sym.scope <;> simp only [hsc] at h
  · split at h
    · have e := demit_ok h; simp only at e; subst e; exact ⟨rfl, rfl⟩
    · have e := demit_ok h; simp only at e; subst e; exact ⟨rfl, rfl⟩
  · split at h
    · obtain ⟨_, s3, h3, h4⟩ := bind_ok h
      obtain ⟨_, q2, q3, _, _⟩ := setAssigned_ok h4
      simp only at q2 q3
      have e := demit_ok h3; simp only at e; subst e
      exact ⟨q3, q2⟩
    · obtain ⟨b, s0, h0, hb⟩ := bind_ok h
      have e0 := localAssigned_ok h0
      simp only at e0; subst e0
      split at hb
      · obtain ⟨_, s3, h3, h4⟩ := bind_ok hb
        obtain ⟨_, q2, q3, _, _⟩ := setAssigned_ok h4
        simp only at q2 q3
        have e := demit_ok h3; simp only at e; subst e
        exact ⟨q3, q2⟩
      · obtain ⟨_, s3, h3, h4⟩ := bind_ok hb
        obtain ⟨_, q2, q3, _, _⟩ := setAssigned_ok h4
        simp only at q2 q3
        have e := demit_ok h3; simp only at e; subst e
        exact ⟨q3, q2⟩
  · exact (cerr_ok h).elim
  · split at h
    · have e := demit_ok h; simp only at e; subst e; exact ⟨rfl, rfl⟩
    · have e := demit_ok h; simp only at e; subst e; exact ⟨rfl, rfl⟩

/-- `name := func(ps) { body }`: the literal is compiled by `compileExpr` in a state with `Inv`; the store
after it leaves the pool and the tables alone -/
theorem define_func_inner {d : Nat} (name : String) (va : Bool) (ps : List String) (body : List Stmt)
    (s s' : CState) (L : List Instr) (F : List Nat)
    (h : compileStmt (d + 1) (.assign "Define" [.ident name] [.func va ps body]) s = .ok ((), s'))
    (hinv : Inv s L F) (hsz : szS (d + 1) (.assign "Define" [.ident name] [.func va ps body]) < 2 ^ 30) :
    ∃ d' sa sb Fa, Inv sa L Fa ∧ compileExpr (d' + 1) (.func va ps body) sa = .ok ((), sb) ∧
      szE (d' + 1) (.func va ps body) < 2 ^ 30 ∧ sa.consts = s.consts ∧
      s'.consts = sb.consts ∧ s'.tables = sb.tables := by
  rw [compileStmt] at h
  have hszd : szS (d + 1) (.assign "Define" [.ident name] [.func va ps body]) =
      szAssign d [.ident name] [.func va ps body] := by rw [szS]
  rw [hszd] at hsz
  cases d with
  | zero => unfold compileAssign at h; exact (unsupported_ok h).elim
  | succ d0 =>
  have hszd2 : szAssign (d0 + 1) [.ident name] [.func va ps body] =
      szE d0 (.ident name) + szE d0 (.func va ps body) + 2 + szSels d0 (resolveAssignLHS (.ident name)).2 + 4 := by
    rw [szAssign]
  rw [hszd2] at hsz
  obtain ⟨_, hm⟩ := compileAssign_run d0 (.ident name) (.func va ps body) "Define" s _ h
  have hres : resolveAssignLHS (.ident name) = (name, []) := rfl
  rw [hres] at hm
  simp only at hm
  unfold asgMain at hm
  obtain ⟨resolved, sr, hr, hm⟩ := bind_ok hm
  have er := resolve_ok hr
  have esr : sr = (resS name s).2 := (Prod.mk.inj er).2
  subst esr
  obtain ⟨hinvr, hstr, _⟩ := hinv.resolve name
  have hdef : asgDef d0 (.ident name) (.func va ps body) name [] "Define" true (resolved.map Prod.fst) (resS name s).2 =
      .ok ((), s') := by
    have e1 : ("Define" == "Define") = true := by decide
    simp only [e1, if_true, isFuncLit] at hm
    split at hm
    · split at hm
      · obtain ⟨_, _, hc, _⟩ := bind_ok hm; exact (cerr_ok hc).elim
      · exact hm
    · exact hm
  unfold asgDef at hdef
  simp only [if_true] at hdef
  obtain ⟨x, sd, hd, hl⟩ := bind_ok hdef
  have ed := define_ok hd
  have esd : sd = (defS name (resS name s).2).2 := (Prod.mk.inj ed).2
  subst esd
  obtain ⟨hinvd, hstd, _, _⟩ := hinvr.define name
  unfold asgLhs at hl
  have e2 : ("Define" != "Assign" && "Define" != "Define") = false := by decide
  simp only [e2, Bool.false_eq_true, if_false] at hl
  unfold asgRhs at hl
  obtain ⟨_, sb, hce, ho⟩ := bind_ok hl
  have e3 : ("Define" == "Define" && !true) = false := by decide
  simp only [e3, Bool.false_eq_true, if_false] at ho
  unfold asgOp at ho
  simp only [e2, Bool.false_eq_true, if_false] at ho
  unfold asgTail at ho
  obtain ⟨_, st, hsel, hstore⟩ := bind_ok ho
  cases d0 with
  | zero => rw [compileExpr] at hce; exact (unsupported_ok hce).elim
  | succ d1 =>
    rw [compileSelsRev] at hsel
    have est : st = sb := (Prod.mk.inj (pure_ok hsel)).2
    subst est
    obtain ⟨hc, ht⟩ := asgStore_frame hstore
    refine ⟨d1, _, st, F, hinvd, hce, by omega, ?_, hc, ht⟩
    rfl

end Tengo.Proofs.C16Fn

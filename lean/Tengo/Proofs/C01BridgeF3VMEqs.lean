import Tengo.Model.F3
/-!
C01 bridge for fragment F3, VM side: `F3.step` unfolded, one equation per instruction (`step3_…`): what the
fragment's machine does once the code of the running function and the instruction at `ip` are known.
-/
set_option linter.unusedVariables false
set_option linter.unusedSimpArgs false
namespace Tengo.Proofs.C01BridgeF3
open Tengo.Model

variable {V : Type}

/-- The state after pushing `v` (instruction of `size` bytes). -/
def pushSt (s : F3.St V) (size : Nat) (v : V) : F3.St V :=
  { s with ip := s.ip + size, stk := F0.upd s.stk s.sp v, sp := s.sp + 1 }

/-- The state after replacing the top by `v`. -/
def repl1St (s : F3.St V) (size : Nat) (v : V) : F3.St V :=
  { s with ip := s.ip + size, stk := F0.upd s.stk (s.sp - 1) v }

/-- The state after replacing the two topmost values by `v`. -/
def repl2St (s : F3.St V) (size : Nat) (v : V) : F3.St V :=
  { s with ip := s.ip + size, stk := F0.upd s.stk (s.sp - 2) v, sp := s.sp - 1 }

/-- The state a self tail call continues with. -/
def tailSt (s : F3.St V) (is : List F3.Ins) (n : Nat) : F3.St V :=
  { s with ip := 0, sp := s.sp - n - 1, stk := F3.copyArgs s.stk s.bp (s.sp - n) n n,
           dis := s.dis || F3.nextIsPop is (s.ip + 3) }

/-- The state in which the callee `k` starts. -/
def calleeSt (s : F3.St V) (n k nlocals : Nat) : F3.St V :=
  { s with fn := k + 1, ip := 0, bp := s.sp - n, sp := s.sp - n + nlocals, dis := false,
           callers := { fn := s.fn, ip := s.ip + 3, bp := s.bp, dis := s.dis } :: s.callers }

/-- The state the caller `c` continues with after `RET`. -/
def retSt (s : F3.St V) (c : F3.Frame) (rest : List F3.Frame) (r : V) : F3.St V :=
  { fn := c.fn, ip := c.ip, bp := c.bp, sp := s.bp, stk := F0.upd s.stk (s.bp - 1) r, g := s.g,
    dis := c.dis, callers := rest }

section eqs
variable (E : F3.Env V) (M : F3.Mach) (s : F3.St V) {is : List F3.Ins}
  (hc : M.code s.fn = some is)
include hc

theorem step3_const {k : Nat} (hf : F3.fetch is s.ip = some (.const k)) :
    F3.step E M s = .next (pushSt s 3 (E.cs k)) := by
  simp only [F3.step, hc, hf, F3.Ins.size, pushSt]

theorem step3_tru (hf : F3.fetch is s.ip = some .tru) :
    F3.step E M s = .next (pushSt s 1 (E.S.ofBool true)) := by
  simp only [F3.step, hc, hf, F3.Ins.size, pushSt]

theorem step3_fls (hf : F3.fetch is s.ip = some .fls) :
    F3.step E M s = .next (pushSt s 1 (E.S.ofBool false)) := by
  simp only [F3.step, hc, hf, F3.Ins.size, pushSt]

theorem step3_null (hf : F3.fetch is s.ip = some .null) :
    F3.step E M s = .next (pushSt s 1 E.S.undef) := by
  simp only [F3.step, hc, hf, F3.Ins.size, pushSt]

theorem step3_getg {j : Nat} (hf : F3.fetch is s.ip = some (.getg j)) :
    F3.step E M s = .next (pushSt s 3 (s.g j)) := by
  simp only [F3.step, hc, hf, F3.Ins.size, pushSt]

theorem step3_getl {j : Nat} (hf : F3.fetch is s.ip = some (.getl j)) :
    F3.step E M s = .next (pushSt s 2 (s.stk (s.bp + j))) := by
  simp only [F3.step, hc, hf, F3.Ins.size, pushSt]

theorem step3_setg {j : Nat} (hf : F3.fetch is s.ip = some (.setg j)) :
    F3.step E M s = if s.sp < 1 then .stuck
      else .next { s with ip := s.ip + 3, sp := s.sp - 1, g := F0.upd s.g j (s.stk (s.sp - 1)) } := by
  simp only [F3.step, hc, hf, F3.Ins.size]

theorem step3_setl {j : Nat} (hf : F3.fetch is s.ip = some (.setl j)) :
    F3.step E M s = if s.sp < 1 then .stuck
      else .next { s with ip := s.ip + 2, sp := s.sp - 1, stk := F0.upd s.stk (s.bp + j) (s.stk (s.sp - 1)) } := by
  simp only [F3.step, hc, hf, F3.Ins.size]

theorem step3_defl {j : Nat} (hf : F3.fetch is s.ip = some (.defl j)) :
    F3.step E M s = if s.sp < 1 then .stuck
      else .next { s with ip := s.ip + 2, sp := s.sp - 1, stk := F0.upd s.stk (s.bp + j) (s.stk (s.sp - 1)) } := by
  simp only [F3.step, hc, hf, F3.Ins.size]

theorem step3_pop (hf : F3.fetch is s.ip = some .pop) :
    F3.step E M s = if s.sp < 1 then .stuck else .next { s with ip := s.ip + 1, sp := s.sp - 1 } := by
  simp only [F3.step, hc, hf, F3.Ins.size]

theorem step3_binop {tok : Nat} (hf : F3.fetch is s.ip = some (.binop tok)) :
    F3.step E M s = if s.sp < 2 then .stuck
      else match E.S.binop tok (s.stk (s.sp - 2)) (s.stk (s.sp - 1)) with
        | some v => .next (repl2St s 2 v)
        | none => .err := by
  simp only [F3.step, hc, hf, F3.Ins.size, repl2St]
  rfl

theorem step3_eql (hf : F3.fetch is s.ip = some .eql) :
    F3.step E M s = if s.sp < 2 then .stuck
      else .next (repl2St s 1 (E.S.ofBool (E.S.eqv (s.stk (s.sp - 2)) (s.stk (s.sp - 1))))) := by
  simp only [F3.step, hc, hf, F3.Ins.size, repl2St]

theorem step3_neq (hf : F3.fetch is s.ip = some .neq) :
    F3.step E M s = if s.sp < 2 then .stuck
      else .next (repl2St s 1 (E.S.ofBool (!E.S.eqv (s.stk (s.sp - 2)) (s.stk (s.sp - 1))))) := by
  simp only [F3.step, hc, hf, F3.Ins.size, repl2St]

theorem step3_minus (hf : F3.fetch is s.ip = some .minus) :
    F3.step E M s = if s.sp < 1 then .stuck
      else match E.S.neg (s.stk (s.sp - 1)) with
        | some v => .next (repl1St s 1 v)
        | none => .err := by
  simp only [F3.step, hc, hf, F3.Ins.size, repl1St]
  rfl

theorem step3_bcompl (hf : F3.fetch is s.ip = some .bcompl) :
    F3.step E M s = if s.sp < 1 then .stuck
      else match E.S.bnot (s.stk (s.sp - 1)) with
        | some v => .next (repl1St s 1 v)
        | none => .err := by
  simp only [F3.step, hc, hf, F3.Ins.size, repl1St]
  rfl

theorem step3_lnot (hf : F3.fetch is s.ip = some .lnot) :
    F3.step E M s = if s.sp < 1 then .stuck
      else .next (repl1St s 1 (E.S.ofBool (E.S.falsy (s.stk (s.sp - 1))))) := by
  simp only [F3.step, hc, hf, F3.Ins.size, repl1St]

theorem step3_jmpf {t : Nat} (hf : F3.fetch is s.ip = some (.jmpf t)) :
    F3.step E M s = if s.sp < 1 then .stuck
      else .next { s with ip := (if E.S.falsy (s.stk (s.sp - 1)) then t else s.ip + 5), sp := s.sp - 1 } := by
  simp only [F3.step, hc, hf, F3.Ins.size]

theorem step3_jmp {t : Nat} (hf : F3.fetch is s.ip = some (.jmp t)) :
    F3.step E M s = .next { s with ip := t } := by
  simp only [F3.step, hc, hf, F3.Ins.size]

theorem step3_andjmp {t : Nat} (hf : F3.fetch is s.ip = some (.andjmp t)) :
    F3.step E M s = if s.sp < 1 then .stuck
      else if E.S.falsy (s.stk (s.sp - 1)) then .next { s with ip := t }
      else .next { s with ip := s.ip + 5, sp := s.sp - 1 } := by
  simp only [F3.step, hc, hf, F3.Ins.size]

theorem step3_orjmp {t : Nat} (hf : F3.fetch is s.ip = some (.orjmp t)) :
    F3.step E M s = if s.sp < 1 then .stuck
      else if E.S.falsy (s.stk (s.sp - 1)) then .next { s with ip := s.ip + 5, sp := s.sp - 1 }
      else .next { s with ip := t } := by
  simp only [F3.step, hc, hf, F3.Ins.size]

theorem step3_call {n : Nat} (hf : F3.fetch is s.ip = some (.call n)) :
    F3.step E M s =
      if s.sp < n + 1 then .stuck
      else match E.asFn (s.stk (s.sp - 1 - n)) with
        | none => .err
        | some k =>
          match M.fns k with
          | none => .stuck
          | some cf =>
            if n ≠ cf.nparams then .err
            else if s.fn == k + 1 && F3.tailNext is (s.ip + 3) then .next (tailSt s is n)
            else .next (calleeSt s n k cf.nlocals) := by
  simp only [F3.step, hc, hf, F3.Ins.size, tailSt, calleeSt]
  rfl

theorem step3_ret {wv : Bool} (hf : F3.fetch is s.ip = some (.ret wv)) :
    F3.step E M s =
      if wv && s.sp < 1 then .stuck
      else match s.callers with
        | [] => .stuck
        | c :: rest => .next (retSt s c rest (if wv && !s.dis then s.stk (s.sp - 1) else E.S.undef)) := by
  simp only [F3.step, hc, hf, F3.Ins.size, retSt]
  rfl

end eqs

end Tengo.Proofs.C01BridgeF3

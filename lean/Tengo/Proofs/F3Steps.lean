import Tengo.Proofs.F3Base
/-!
Fragment F3, proof layer 1: one dispatch of the machine for each instruction, on states written out as
`⟨fn, ip, bp, sp, stk, g, dis, callers⟩`.
-/
set_option linter.unusedSimpArgs false
set_option linter.unusedVariables false
namespace Tengo.Model.F3
open Tengo.Model.F0 (Sem upd)
variable {V : Type}

section steps
variable {E : Env V} {M : Mach} {code : List Ins} {fn ip bp sp : Nat} {stk g : Nat → V} {dis : Bool}
  {cl : List Frame}

theorem step_const {k : Nat} (hc : M.code fn = some code) (hf : fetch code ip = some (.const k)) :
    step E M ⟨fn, ip, bp, sp, stk, g, dis, cl⟩ = .next ⟨fn, ip + 3, bp, sp + 1, upd stk sp (E.cs k), g, dis, cl⟩ := by
  simp [step, hc, hf, Ins.size]

theorem step_tru (hc : M.code fn = some code) (hf : fetch code ip = some .tru) :
    step E M ⟨fn, ip, bp, sp, stk, g, dis, cl⟩ =
      .next ⟨fn, ip + 1, bp, sp + 1, upd stk sp (E.S.ofBool true), g, dis, cl⟩ := by
  simp [step, hc, hf, Ins.size]

theorem step_fls (hc : M.code fn = some code) (hf : fetch code ip = some .fls) :
    step E M ⟨fn, ip, bp, sp, stk, g, dis, cl⟩ =
      .next ⟨fn, ip + 1, bp, sp + 1, upd stk sp (E.S.ofBool false), g, dis, cl⟩ := by
  simp [step, hc, hf, Ins.size]

theorem step_null (hc : M.code fn = some code) (hf : fetch code ip = some .null) :
    step E M ⟨fn, ip, bp, sp, stk, g, dis, cl⟩ = .next ⟨fn, ip + 1, bp, sp + 1, upd stk sp E.S.undef, g, dis, cl⟩ := by
  simp [step, hc, hf, Ins.size]

theorem step_getg {j : Nat} (hc : M.code fn = some code) (hf : fetch code ip = some (.getg j)) :
    step E M ⟨fn, ip, bp, sp, stk, g, dis, cl⟩ = .next ⟨fn, ip + 3, bp, sp + 1, upd stk sp (g j), g, dis, cl⟩ := by
  simp [step, hc, hf, Ins.size]

theorem step_getl {j : Nat} (hc : M.code fn = some code) (hf : fetch code ip = some (.getl j)) :
    step E M ⟨fn, ip, bp, sp, stk, g, dis, cl⟩ =
      .next ⟨fn, ip + 2, bp, sp + 1, upd stk sp (stk (bp + j)), g, dis, cl⟩ := by
  simp [step, hc, hf, Ins.size]

theorem step_setg {j : Nat} (hc : M.code fn = some code) (hf : fetch code ip = some (.setg j)) :
    step E M ⟨fn, ip, bp, sp + 1, stk, g, dis, cl⟩ = .next ⟨fn, ip + 3, bp, sp, stk, upd g j (stk sp), dis, cl⟩ := by
  simp [step, hc, hf, Ins.size]

theorem step_setl {j : Nat} (hc : M.code fn = some code) (hf : fetch code ip = some (.setl j)) :
    step E M ⟨fn, ip, bp, sp + 1, stk, g, dis, cl⟩ =
      .next ⟨fn, ip + 2, bp, sp, upd stk (bp + j) (stk sp), g, dis, cl⟩ := by
  simp [step, hc, hf, Ins.size]

theorem step_defl {j : Nat} (hc : M.code fn = some code) (hf : fetch code ip = some (.defl j)) :
    step E M ⟨fn, ip, bp, sp + 1, stk, g, dis, cl⟩ =
      .next ⟨fn, ip + 2, bp, sp, upd stk (bp + j) (stk sp), g, dis, cl⟩ := by
  simp [step, hc, hf, Ins.size]

theorem step_pop (hc : M.code fn = some code) (hf : fetch code ip = some .pop) :
    step E M ⟨fn, ip, bp, sp + 1, stk, g, dis, cl⟩ = .next ⟨fn, ip + 1, bp, sp, stk, g, dis, cl⟩ := by
  simp [step, hc, hf, Ins.size]

theorem step_binop_ok {tok : Nat} {v : V} (hc : M.code fn = some code)
    (hf : fetch code ip = some (.binop tok)) (hv : E.S.binop tok (stk sp) (stk (sp + 1)) = some v) :
    step E M ⟨fn, ip, bp, sp + 2, stk, g, dis, cl⟩ = .next ⟨fn, ip + 2, bp, sp + 1, upd stk sp v, g, dis, cl⟩ := by
  simp [step, hc, hf, Ins.size, hv]

theorem step_binop_err {tok : Nat} (hc : M.code fn = some code)
    (hf : fetch code ip = some (.binop tok)) (hv : E.S.binop tok (stk sp) (stk (sp + 1)) = none) :
    step E M ⟨fn, ip, bp, sp + 2, stk, g, dis, cl⟩ = .err := by
  simp [step, hc, hf, Ins.size, hv]

theorem step_eql (hc : M.code fn = some code) (hf : fetch code ip = some .eql) :
    step E M ⟨fn, ip, bp, sp + 2, stk, g, dis, cl⟩ =
      .next ⟨fn, ip + 1, bp, sp + 1, upd stk sp (E.S.ofBool (E.S.eqv (stk sp) (stk (sp + 1)))), g, dis, cl⟩ := by
  simp [step, hc, hf, Ins.size]

theorem step_neq (hc : M.code fn = some code) (hf : fetch code ip = some .neq) :
    step E M ⟨fn, ip, bp, sp + 2, stk, g, dis, cl⟩ =
      .next ⟨fn, ip + 1, bp, sp + 1, upd stk sp (E.S.ofBool (!E.S.eqv (stk sp) (stk (sp + 1)))), g, dis, cl⟩ := by
  simp [step, hc, hf, Ins.size]

theorem step_minus_ok {v : V} (hc : M.code fn = some code) (hf : fetch code ip = some .minus)
    (hv : E.S.neg (stk sp) = some v) :
    step E M ⟨fn, ip, bp, sp + 1, stk, g, dis, cl⟩ = .next ⟨fn, ip + 1, bp, sp + 1, upd stk sp v, g, dis, cl⟩ := by
  simp [step, hc, hf, Ins.size, hv]

theorem step_minus_err (hc : M.code fn = some code) (hf : fetch code ip = some .minus)
    (hv : E.S.neg (stk sp) = none) :
    step E M ⟨fn, ip, bp, sp + 1, stk, g, dis, cl⟩ = .err := by
  simp [step, hc, hf, Ins.size, hv]

theorem step_bcompl_ok {v : V} (hc : M.code fn = some code) (hf : fetch code ip = some .bcompl)
    (hv : E.S.bnot (stk sp) = some v) :
    step E M ⟨fn, ip, bp, sp + 1, stk, g, dis, cl⟩ = .next ⟨fn, ip + 1, bp, sp + 1, upd stk sp v, g, dis, cl⟩ := by
  simp [step, hc, hf, Ins.size, hv]

theorem step_bcompl_err (hc : M.code fn = some code) (hf : fetch code ip = some .bcompl)
    (hv : E.S.bnot (stk sp) = none) :
    step E M ⟨fn, ip, bp, sp + 1, stk, g, dis, cl⟩ = .err := by
  simp [step, hc, hf, Ins.size, hv]

theorem step_lnot (hc : M.code fn = some code) (hf : fetch code ip = some .lnot) :
    step E M ⟨fn, ip, bp, sp + 1, stk, g, dis, cl⟩ =
      .next ⟨fn, ip + 1, bp, sp + 1, upd stk sp (E.S.ofBool (E.S.falsy (stk sp))), g, dis, cl⟩ := by
  simp [step, hc, hf, Ins.size]

theorem step_jmpf {t : Nat} (hc : M.code fn = some code) (hf : fetch code ip = some (.jmpf t)) :
    step E M ⟨fn, ip, bp, sp + 1, stk, g, dis, cl⟩ =
      .next ⟨fn, if E.S.falsy (stk sp) then t else ip + 5, bp, sp, stk, g, dis, cl⟩ := by
  simp [step, hc, hf, Ins.size]

theorem step_jmp {t : Nat} (hc : M.code fn = some code) (hf : fetch code ip = some (.jmp t)) :
    step E M ⟨fn, ip, bp, sp, stk, g, dis, cl⟩ = .next ⟨fn, t, bp, sp, stk, g, dis, cl⟩ := by
  simp [step, hc, hf, Ins.size]

theorem step_andjmp {t : Nat} (hc : M.code fn = some code) (hf : fetch code ip = some (.andjmp t)) :
    step E M ⟨fn, ip, bp, sp + 1, stk, g, dis, cl⟩ =
      if E.S.falsy (stk sp) then .next ⟨fn, t, bp, sp + 1, stk, g, dis, cl⟩
      else .next ⟨fn, ip + 5, bp, sp, stk, g, dis, cl⟩ := by
  simp [step, hc, hf, Ins.size]

theorem step_orjmp {t : Nat} (hc : M.code fn = some code) (hf : fetch code ip = some (.orjmp t)) :
    step E M ⟨fn, ip, bp, sp + 1, stk, g, dis, cl⟩ =
      if E.S.falsy (stk sp) then .next ⟨fn, ip + 5, bp, sp, stk, g, dis, cl⟩
      else .next ⟨fn, t, bp, sp + 1, stk, g, dis, cl⟩ := by
  simp [step, hc, hf, Ins.size]

/-- `CALL n` that pushes a frame: the callee value sits at `slot`, the `n` arguments above it. -/
theorem step_call_push {n slot k : Nat} {cf : CFn} (hc : M.code fn = some code)
    (hf : fetch code ip = some (.call n)) (hk : E.asFn (stk slot) = some k) (hcf : M.fns k = some cf)
    (hn : n = cf.nparams) (htail : (fn == k + 1 && tailNext code (ip + 3)) = false) :
    step E M ⟨fn, ip, bp, slot + 1 + n, stk, g, dis, cl⟩ =
      .next ⟨k + 1, 0, slot + 1, slot + 1 + cf.nlocals, stk, g, false, ⟨fn, ip + 3, bp, dis⟩ :: cl⟩ := by
  have h1 : slot + 1 + n - 1 - n = slot := by omega
  have h2 : slot + 1 + n - n = slot + 1 := by omega
  have h3 : ¬ (slot + 1 + n < n + 1) := by omega
  simp only [step, hc, hf, Ins.size, h1, h2, h3, hk, hcf, if_false, htail]
  simp [hn]

/-- `CALL n` of the running function in tail position: the frame is reused. -/
theorem step_call_tail {n slot k : Nat} {cf : CFn} (hc : M.code fn = some code)
    (hf : fetch code ip = some (.call n)) (hk : E.asFn (stk slot) = some k) (hcf : M.fns k = some cf)
    (hn : n = cf.nparams) (htail : (fn == k + 1 && tailNext code (ip + 3)) = true) :
    step E M ⟨fn, ip, bp, slot + 1 + n, stk, g, dis, cl⟩ =
      .next ⟨fn, 0, bp, slot, copyArgs stk bp (slot + 1) n n, g, dis || nextIsPop code (ip + 3), cl⟩ := by
  have h1 : slot + 1 + n - 1 - n = slot := by omega
  have h2 : slot + 1 + n - n = slot + 1 := by omega
  have h3 : ¬ (slot + 1 + n < n + 1) := by omega
  have h4 : slot + 1 + n - n - 1 = slot := by omega
  simp only [step, hc, hf, Ins.size, h1, h2, h3, h4, hk, hcf, if_false, htail]
  simp [hn]

theorem step_call_notfn {n slot : Nat} (hc : M.code fn = some code)
    (hf : fetch code ip = some (.call n)) (hk : E.asFn (stk slot) = none) :
    step E M ⟨fn, ip, bp, slot + 1 + n, stk, g, dis, cl⟩ = .err := by
  have h1 : slot + 1 + n - 1 - n = slot := by omega
  have h3 : ¬ (slot + 1 + n < n + 1) := by omega
  simp only [step, hc, hf, Ins.size, h1, h3, hk, if_false]

theorem step_call_argc {n slot k : Nat} {cf : CFn} (hc : M.code fn = some code)
    (hf : fetch code ip = some (.call n)) (hk : E.asFn (stk slot) = some k) (hcf : M.fns k = some cf)
    (hn : n ≠ cf.nparams) :
    step E M ⟨fn, ip, bp, slot + 1 + n, stk, g, dis, cl⟩ = .err := by
  have h1 : slot + 1 + n - 1 - n = slot := by omega
  have h3 : ¬ (slot + 1 + n < n + 1) := by omega
  simp only [step, hc, hf, Ins.size, h1, h3, hk, hcf, if_false]
  simp [hn]

/-- `RET 1` to the caller `c`. -/
theorem step_ret1 {c : Frame} (hc : M.code fn = some code) (hf : fetch code ip = some (.ret true)) :
    step E M ⟨fn, ip, bp, sp + 1, stk, g, dis, c :: cl⟩ =
      .next ⟨c.fn, c.ip, c.bp, bp, upd stk (bp - 1) (if dis then E.S.undef else stk sp), g, c.dis, cl⟩ := by
  cases dis <;> simp [step, hc, hf, Ins.size]

/-- `RET 0` to the caller `c`. -/
theorem step_ret0 {c : Frame} (hc : M.code fn = some code) (hf : fetch code ip = some (.ret false)) :
    step E M ⟨fn, ip, bp, sp, stk, g, dis, c :: cl⟩ =
      .next ⟨c.fn, c.ip, c.bp, bp, upd stk (bp - 1) E.S.undef, g, c.dis, cl⟩ := by
  simp [step, hc, hf, Ins.size]

end steps

end Tengo.Model.F3

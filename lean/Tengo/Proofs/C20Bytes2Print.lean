import Tengo.Proofs.C20Bytes2Parse
/-!
C20, byte level, round 2, part 4: the printer model emits the stream `layE`, that stream never fuses, and the
composition scanner ∘ printer ∘ parser on one expression statement.
-/
namespace Tengo.Proofs.C20Bytes2Print
open Tengo.Model.Token Tengo.Model.Scanner Tengo.Model.Ast Tengo.Model.Parser Tengo.Model.Literal
open Tengo.Model.Printer
open Tengo.Proofs.C20Parser Tengo.Proofs.C20BytesScan Tengo.Proofs.C20BytesParse Tengo.Proofs.C20BytesPrint
open Tengo.Proofs.C20Bytes2Scan Tengo.Proofs.C20Bytes2Stream Tengo.Proofs.C20Bytes2Parse
open Tengo.Proofs.C20BytesStream (endToks)

variable {fo : Bs → Option Nat}

/-! ### `printExpr` = `render2 ∘ layE` -/

theorem s_facts2 : s "(" = Tok.LParen.bytes ∧ s ")" = Tok.RParen.bytes ∧ s " " = [32] ∧
    s " ? " = 32 :: Tok.Question.bytes ++ [32] ∧ s " : " = 32 :: Tok.Colon.bytes ++ [32] ∧
    s "true" = Tok.True.bytes ∧ s "false" = Tok.False.bytes ∧ s "undefined" = Tok.Undefined.bytes ∧
    s "." = Tok.Period.bytes ∧ s "[" = Tok.LBrack.bytes ∧ s "]" = Tok.RBrack.bytes ∧ s ":" = Tok.Colon.bytes ∧
    s ", " = Tok.Comma.bytes ++ [32] := by
  decide +kernel

theorem s_imp : s "import(\"" = Tok.Import.bytes ++ Tok.LParen.bytes ++ [34] ∧ s "\")" = 34 :: Tok.RParen.bytes := by
  decide +kernel

theorem s_ell : s "..." = Tok.Ellipsis.bytes := by decide +kernel

theorem s_map : s "{" = Tok.LBrace.bytes ∧ s "}" = Tok.RBrace.bytes ∧ s ": " = Tok.Colon.bytes ++ [32] := by
  decide +kernel

theorem s_facts3 : s ")." = Tok.RParen.bytes ++ Tok.Period.bytes ∧ s "error(" = Tok.Error.bytes ++ Tok.LParen.bytes ∧
    s "immutable(" = Tok.Immutable.bytes ++ Tok.LParen.bytes := by
  decide +kernel

@[simp] theorem render2_nil : render2 [] = [] := rfl
@[simp] theorem render2_sp (r : List El2) : render2 (.sp :: r) = 32 :: render2 r := rfl
@[simp] theorem render2_opE (t : Tok) (r : List El2) : render2 (opE t :: r) = t.bytes ++ render2 r := rfl
@[simp] theorem render2_word (n : Bs) (r : List El2) : render2 (.it (.word n) :: r) = n ++ render2 r := rfl
@[simp] theorem render2_lit (k : Tok) (x : Bs) (r : List El2) : render2 (.it (.lit k x) :: r) = x ++ render2 r := rfl

/-- `strings.Join` without the first element. -/
def joinTail (sep : Bs) : List Bs → Bs
  | [] => []
  | y :: ys => sep ++ y ++ joinTail sep ys

theorem join_cons (sep x : Bs) (xs : List Bs) : join sep (x :: xs) = x ++ joinTail sep xs := by
  induction xs generalizing x with
  | nil => simp [join, joinTail]
  | cons y ys ih => simp [join, joinTail, ih y]

/-- `lastNumAux` (the side condition of the fragment) and the printer's own test `lastIsNum` agree. -/
theorem lastNumAux_eq : ∀ (args : Exprs) (prev : Bool),
    lastNumAux prev args = (match args with | .nil => prev | .cons _ _ => lastIsNum args)
  | .nil, _ => rfl
  | .cons e .nil, prev => by
      cases e <;> simp [lastNumAux, lastIsNum, isNumLit, isIntLit, isFloatLit]
  | .cons e (.cons e2 es), prev => by
      have ih := lastNumAux_eq (.cons e2 es) (isNumLit e)
      simp only [lastNumAux] at ih ⊢
      rw [ih]
      cases e <;> simp [lastIsNum]

/-- Inside the fragment the printer never takes the parenthesising branch of finding C20-4. -/
theorem lastIsNum_of_ellOk {args : Exprs} (h : ellOk args = true) : lastIsNum args = false := by
  cases args with
  | nil => simp [ellOk] at h
  | cons a as =>
    simp only [ellOk, Bool.and_eq_true, Bool.not_eq_true'] at h
    have := lastNumAux_eq (.cons a as) false
    simp only at this
    rw [← this]; exact h.2

theorem joinTail_markLast (sep x : Bs) (xs : List Bs) :
    joinTail sep (markLast (x :: xs)) = joinTail sep (x :: xs) ++ s "..." := by
  induction xs generalizing x with
  | nil => simp [markLast, joinTail]
  | cons y ys ih =>
    have : markLast (x :: y :: ys) = x :: markLast (y :: ys) := rfl
    rw [this]
    simp only [joinTail, ih y, List.append_assoc]

theorem join_markLast (sep x : Bs) (xs : List Bs) :
    join sep (markLast (x :: xs)) = join sep (x :: xs) ++ s "..." := by
  cases xs with
  | nil => simp [markLast, join]
  | cons y ys =>
    have : markLast (x :: y :: ys) = x :: markLast (y :: ys) := rfl
    rw [this, join_cons, join_cons, joinTail_markLast, List.append_assoc]

theorem print_sel (e : Expr) (n : Bs) (h : isIntLit e = false) :
    printExpr (.sel e n) = printExpr e ++ s "." ++ n := by
  cases e <;> first | (simp [isIntLit] at h; done) | (simp only [printExpr])

theorem print_sel_int (e : Expr) (n : Bs) (h : isIntLit e = true) :
    printExpr (.sel e n) = s "(" ++ printExpr e ++ s ")." ++ n := by
  cases e <;> first | (simp [isIntLit] at h; done) | (simp only [printExpr])

mutual
  /-- **The printer model emits `layE`.** -/
  theorem print_lay2 : (x : Expr) → Frag2 fo x → printExpr x = render2 (layE x)
    | .ident n, _ => by simp [printExpr, layE]
    | .int _ lit, _ => by simp [printExpr, layE]
    | .float _ lit, _ => by simp [printExpr, layE]
    | .char _ lit, _ => by simp [printExpr, layE]
    | .str _ lit, _ => by simp [printExpr, layE]
    | .bool true, _ => by simp [printExpr, layE, s_facts2.2.2.2.2.2.1]
    | .bool false, _ => by simp [printExpr, layE, s_facts2.2.2.2.2.2.2.1]
    | .undef, _ => by simp [printExpr, layE, s_facts2.2.2.2.2.2.2.2.1]
    | .bin op l r, h => by
      simp only [Frag2] at h
      obtain ⟨s1, s2, s3, -⟩ := s_facts2
      simp only [printExpr, layE, print_lay2 l h.2.1, print_lay2 r h.2.2, render2_opE, render2_append, render2_sp,
        render2_nil, s1, s2, s3, List.append_assoc, List.cons_append, List.nil_append, List.append_nil]
    | .un op e, h => by
      simp only [Frag2] at h
      obtain ⟨s1, s2, s3, -⟩ := s_facts2
      simp only [printExpr, layE, print_lay2 e h.2, render2_opE, render2_append, render2_sp,
        render2_nil, s1, s2, s3, List.append_assoc, List.cons_append, List.nil_append, List.append_nil]
    | .cond c t f, h => by
      simp only [Frag2] at h
      obtain ⟨s1, s2, s3, s4, s5, -⟩ := s_facts2
      simp only [printExpr, layE, print_lay2 c h.1, print_lay2 t h.2.1, print_lay2 f h.2.2, render2_opE,
        render2_append, render2_sp, render2_nil, s1, s2, s4, s5, List.append_assoc, List.cons_append,
        List.nil_append, List.append_nil]
    | .paren e, h => by
      simp only [Frag2] at h
      obtain ⟨s1, s2, s3, -⟩ := s_facts2
      simp only [printExpr, layE, print_lay2 e h, render2_opE, render2_append,
        render2_nil, s1, s2, List.append_assoc, List.cons_append, List.nil_append, List.append_nil]
    | .sel e n, h => by
      simp only [Frag2] at h
      have s9 := s_facts2.2.2.2.2.2.2.2.2.1
      cases hi : isIntLit e with
      | false =>
        rw [print_sel e n hi, print_lay2 e h.2.2]
        simp only [layE, hi, selBase, Bool.false_eq_true, if_false, render2_opE, render2_append, render2_word,
          render2_nil, s9, List.append_assoc, List.append_nil]
      | true =>
        rw [print_sel_int e n hi, print_lay2 e h.2.2]
        simp only [layE, hi, selBase, if_true, render2_opE, render2_append, render2_word,
          render2_nil, s_facts2.1, s_facts3.1, List.append_assoc, List.append_nil, List.cons_append,
          List.nil_append]
    | .idx e i, h => by
      simp only [Frag2] at h
      have s10 := s_facts2.2.2.2.2.2.2.2.2.2.1
      have s11 := s_facts2.2.2.2.2.2.2.2.2.2.2.1
      have hi : printOptExpr i = render2 (layO i) := by
        cases i with
        | none => simp [Frag2I] at h
        | some i' => simp only [printOptExpr, layO]; exact print_lay2 i' (by simpa [Frag2I] using h.2)
      simp only [printExpr, layE, print_lay2 e h.1, hi, render2_opE, render2_append, render2_nil, s10, s11,
        List.append_assoc, List.append_nil]
    | .slice e lo hi, h => by
      simp only [Frag2] at h
      have s10 := s_facts2.2.2.2.2.2.2.2.2.2.1
      have s11 := s_facts2.2.2.2.2.2.2.2.2.2.2.1
      have s12 := s_facts2.2.2.2.2.2.2.2.2.2.2.2.1
      simp only [printExpr, layE, print_lay2 e h.1, print_layO lo h.2.1, print_layO hi h.2.2, render2_opE,
        render2_append, render2_nil, s10, s11, s12, List.append_assoc, List.append_nil]
    | .call f args ell, h => by
      simp only [Frag2] at h
      obtain ⟨hell, hf, ha⟩ := h
      obtain ⟨s1, s2, -⟩ := s_facts2
      cases ell with
      | false =>
        simp only [printExpr, layE, ellE, print_lay2 f hf, print_args args ha, Bool.false_eq_true, if_false,
          render2_opE, render2_append, render2_nil, s1, s2, List.append_assoc, List.append_nil, List.nil_append]
      | true =>
        have hok := hell rfl
        cases args with
        | nil => simp [ellOk] at hok
        | cons a as =>
          have hj := print_args (.cons a as) ha
          simp only [printExprs] at hj
          simp only [printExpr, printExprs, if_true, lastIsNum_of_ellOk hok, Bool.false_eq_true, if_false, join_markLast, hj, layE, ellE, print_lay2 f hf, s_ell,
            render2_opE, render2_append, render2_nil, s1, s2, List.append_assoc, List.append_nil, List.nil_append,
            List.cons_append]
    | .arr es, h => by
      simp only [Frag2] at h
      have s10 := s_facts2.2.2.2.2.2.2.2.2.2.1
      have s11 := s_facts2.2.2.2.2.2.2.2.2.2.2.1
      simp only [printExpr, layE, print_args es h, render2_opE, render2_append, render2_nil, s10, s11,
        List.append_assoc, List.append_nil]
    | .map els, h => by
      simp only [Frag2] at h
      simp only [printExpr, layE, print_map els h, render2_opE, render2_append, render2_nil, s_map.1, s_map.2.1,
        List.append_assoc, List.append_nil]
    | .func _ _ _, h => by simp [Frag2] at h
    | .imp n, _ => by
      simp only [printExpr, layE, impLit, render2_opE, render2_word, render2_lit, render2_nil, s_imp.1, s_imp.2,
        List.append_assoc, List.cons_append, List.nil_append, List.append_nil]
    | .error e, h => by
      simp only [Frag2] at h
      simp only [printExpr, layE, print_lay2 e h, render2_opE, render2_word, render2_append, render2_nil,
        s_facts2.2.1, s_facts3.2.1, List.append_assoc, List.append_nil]
    | .immutable e, h => by
      simp only [Frag2] at h
      simp only [printExpr, layE, print_lay2 e h, render2_opE, render2_word, render2_append, render2_nil,
        s_facts2.2.1, s_facts3.2.2, List.append_assoc, List.append_nil]
    | .bad, h => by simp [Frag2] at h
  theorem print_args : (es : Exprs) → Frag2s fo es → join (s ", ") (printExprs es) = render2 (layArgs es)
    | .nil, _ => rfl
    | .cons e es, h => by
      simp only [Frag2s] at h
      simp only [printExprs, join_cons, layArgs, render2_append, print_lay2 e h.1, print_tail es h.2]
  theorem print_tail : (es : Exprs) → Frag2s fo es → joinTail (s ", ") (printExprs es) = render2 (layTail es)
    | .nil, _ => rfl
    | .cons e es, h => by
      simp only [Frag2s] at h
      have s13 := s_facts2.2.2.2.2.2.2.2.2.2.2.2.2
      have ih := print_tail es h.2
      rw [s13] at ih
      simp only [printExprs, joinTail, layTail, render2_opE, render2_sp, render2_append, print_lay2 e h.1,
        ih, s13, List.append_assoc, List.cons_append, List.nil_append]
  theorem print_map : (m : MapElems) → Frag2M fo m → join (s ", ") (printMapElems m) = render2 (layM m)
    | .nil, _ => rfl
    | .cons k v r, h => by
      simp only [Frag2M] at h
      simp only [printMapElems, join_cons, layM, render2_word, render2_opE, render2_sp, render2_append,
        print_lay2 v h.2.1, print_mapT r h.2.2, s_map.2.2, List.append_assoc, List.cons_append, List.nil_append]
  theorem print_mapT : (m : MapElems) → Frag2M fo m → joinTail (s ", ") (printMapElems m) = render2 (layMT m)
    | .nil, _ => rfl
    | .cons k v r, h => by
      simp only [Frag2M] at h
      have s13 := s_facts2.2.2.2.2.2.2.2.2.2.2.2.2
      have ih := print_mapT r h.2.2
      rw [s13] at ih
      simp only [printMapElems, joinTail, layMT, render2_word, render2_opE, render2_sp, render2_append,
        print_lay2 v h.2.1, ih, s13, s_map.2.2, List.append_assoc, List.cons_append, List.nil_append]
  theorem print_layO : (o : OptExpr) → Frag2O fo o → printOptExpr o = render2 (layO o)
    | .none, _ => rfl
    | .some e, h => by
      simp only [Frag2O] at h
      simp only [printOptExpr, layO, print_lay2 e h]
end

/-! ### The printed stream never fuses -/

/-- First rune of a printed expression: a letter, a digit, `(`, `"`, `'` or `[`. -/
def startR (r : Nat) : Bool := isAsciiLetter r || isDec r || r == 40 || r == 34 || r == 39 || r == 91 || r == 123

theorem fuses_start (t : Tok) (r : Nat) (h : startR r = true) : fuses t r = false := by
  simp only [startR, isAsciiLetter, isDec, Bool.or_eq_true, Bool.and_eq_true, decide_eq_true_eq, beq_iff_eq] at h
  have h1 : r ≠ 61 := by omega
  have h2 : r ≠ 43 := by omega
  have h3 : r ≠ 45 := by omega
  have h4 : r ≠ 47 := by omega
  have h5 : r ≠ 42 := by omega
  have h6 : r ≠ 38 := by omega
  have h7 : r ≠ 94 := by omega
  have h8 : r ≠ 124 := by omega
  have h9 : r ≠ 60 := by omega
  have h10 : r ≠ 62 := by omega
  cases t <;> simp [fuses, h1, h2, h3, h4, h5, h6, h7, h8, h9, h10]

theorem fuses2_blank (t : Tok) : fuses2 t 32 = false := by cases t <;> rfl

theorem firstR2_word (n : Bs) (r : List El2) (e : Nat) (h : wordOk n = true) :
    isAsciiLetter (firstR2 (.it (.word n) :: r) e) = true := by
  cases n with
  | nil => simp [wordOk] at h
  | cons b bs =>
    simp only [wordOk, Bool.and_eq_true] at h
    exact h.1

theorem firstR2_opE (t : Tok) (b : UInt8) (bs : Bs) (h : t.bytes = b :: bs) (r : List El2) (e : Nat) :
    firstR2 (opE t :: r) e = b.toNat := by
  simp only [opE, firstR2, Item2.text, h]

theorem lparen_bytes : Tok.LParen.bytes = [40] := by decide
theorem comma_bytes : Tok.Comma.bytes = [44] := by decide
theorem rparen_bytes : Tok.RParen.bytes = [41] := by decide
theorem rbrack_bytes : Tok.RBrack.bytes = [93] := by decide
theorem lbrack_bytes : Tok.LBrack.bytes = [91] := by decide
theorem lbrace_bytes : Tok.LBrace.bytes = [123] := by decide
theorem rbrace_bytes : Tok.RBrace.bytes = [125] := by decide
theorem period_bytes : Tok.Period.bytes = [46] := by decide
theorem colon_bytes : Tok.Colon.bytes = [58] := by decide

theorem startR_letter {r : Nat} (h : isAsciiLetter r = true) : startR r = true := by simp [startR, h]

/-- The first rune of the printed form. -/
theorem first_start : (x : Expr) → Frag2 fo x → ∀ e, startR (firstR2 (layE x) e) = true
  | .ident n, h, e => by
    simp only [Frag2] at h
    exact startR_letter (firstR2_word n [] e (wordAtom_atom h).1)
  | .bool true, _, e => startR_letter (firstR2_word _ [] e (wordAtom_atom kw2.1).1)
  | .bool false, _, e => startR_letter (firstR2_word _ [] e (wordAtom_atom kw2.2.1).1)
  | .undef, _, e => startR_letter (firstR2_word _ [] e (wordAtom_atom kw2.2.2).1)
  | .int _ lit, h, e => by
    simp only [Frag2] at h
    cases lit with
    | nil => simp [intOk] at h
    | cons d ds =>
      have := h.1
      simp only [intOk, Bool.and_eq_true] at this
      have hd : isDec d.toNat = true := this.1
      simp [layE, firstR2, Item2.text, startR, hd]
  | .float _ lit, h, e => by
    simp only [Frag2] at h
    obtain ⟨a, dotp, r2, rfl, ha, hda, -, -, -⟩ := floatOk_split lit h.1
    cases a with
    | nil => exact absurd rfl ha
    | cons d a' =>
      simp only [List.all_cons, Bool.and_eq_true] at hda
      have hd : isDec d.toNat = true := hda.1
      simp [layE, firstR2, Item2.text, startR, hd]
  | .char _ lit, h, e => by
    simp only [Frag2] at h
    have := h.1
    simp only [chrOk, Bool.and_eq_true, beq_iff_eq] at this
    rw [this.1.1]
    simp [layE, firstR2, Item2.text, startR]
  | .str _ lit, h, e => by
    simp only [Frag2] at h
    have := h.1
    simp only [strOk, Bool.and_eq_true, beq_iff_eq] at this
    rw [this.1]
    simp [layE, firstR2, Item2.text, startR]
  | .bin _ _ _, _, e => by simp only [layE, firstR2_opE _ _ _ lparen_bytes]; decide
  | .un _ _, _, e => by simp only [layE, firstR2_opE _ _ _ lparen_bytes]; decide
  | .cond _ _ _, _, e => by simp only [layE, firstR2_opE _ _ _ lparen_bytes]; decide
  | .paren _, _, e => by simp only [layE, firstR2_opE _ _ _ lparen_bytes]; decide
  | .sel x _, h, e => by
    simp only [Frag2] at h
    cases hi : isIntLit x with
    | true => simp only [layE, hi, selBase, if_true, List.cons_append, firstR2_opE _ _ _ lparen_bytes]; decide
    | false =>
      simp only [layE, hi, selBase, Bool.false_eq_true, if_false, firstR2_append]
      exact first_start x h.2.2 _
  | .idx x _, h, e => by
    simp only [Frag2] at h
    simp only [layE, firstR2_append]
    exact first_start x h.1 _
  | .slice x _ _, h, e => by
    simp only [Frag2] at h
    simp only [layE, firstR2_append]
    exact first_start x h.1 _
  | .call x _ _, h, e => by
    simp only [Frag2] at h
    simp only [layE, firstR2_append]
    exact first_start x h.2.1 _
  | .arr _, _, e => by simp only [layE, firstR2_opE _ _ _ lbrack_bytes]; decide
  | .map _, _, e => by simp only [layE, firstR2_opE _ _ _ lbrace_bytes]; decide
  | .func _ _ _, h, _ => by simp [Frag2] at h
  | .imp _, _, e => startR_letter (firstR2_word _ _ e kwi.2)
  | .error _, _, e => startR_letter (firstR2_word _ _ e kwc.2.2.1)
  | .immutable _, _, e => startR_letter (firstR2_word _ _ e kwc.2.2.2)
  | .bad, h, _ => by simp [Frag2] at h

theorem startR_ne61 {r : Nat} (h : startR r = true) : r ≠ 61 := by
  simp only [startR, isAsciiLetter, isDec, Bool.or_eq_true, Bool.and_eq_true, decide_eq_true_eq, beq_iff_eq] at h
  omega

/-- A delimiter that no following rune can change. -/
theorem opE_any (t : Tok) (hop : fragOp2 t = true) (hf : ∀ r, fuses2 t r = false) (r : List El2) (x : Nat)
    (hr : StreamOk2 r x) : StreamOk2 (opE t :: r) x :=
  ⟨hop, by simp [Item2.sepOk, hf], hr⟩

theorem opE_ok (t : Tok) (hop : fragOp2 t = true) (r : List El2) (x : Nat)
    (hf : fuses2 t (firstR2 r x) = false) (hr : StreamOk2 r x) : StreamOk2 (opE t :: r) x :=
  ⟨hop, by simp [Item2.sepOk, hf], hr⟩

theorem binop_frag2 (t : Tok) (h : 1 ≤ t.prec) : fragOp2 t = true := by
  simp [fragOp2, (binop_frag t h).1]

theorem unop_frag2 (t : Tok) (h : isUnaryOp t = true) : fragOp2 t = true ∧ ∀ r, fuses2 t r = fuses t r := by
  refine ⟨by simp [fragOp2, (unop_frag t h).1], ?_⟩
  intro r
  exact fragOp_fuses2 t (unop_frag t h).1 r

theorem closeR (x : Nat) : StreamOk2 [opE .RParen] x := opE_any .RParen (by decide) (fun _ => rfl) [] x trivial
theorem closeB (x : Nat) : StreamOk2 [opE .RBrack] x := opE_any .RBrack (by decide) (fun _ => rfl) [] x trivial
theorem closeC (x : Nat) : StreamOk2 [opE .RBrace] x := opE_any .RBrace (by decide) (fun _ => rfl) [] x trivial

theorem first_close (t : Tok) (b : UInt8) (h : t.bytes = [b]) (x : Nat) : firstR2 [opE t] x = b.toNat :=
  firstR2_opE t b [] h [] x

mutual
  /-- **The printed stream is `StreamOk2`** whatever non-identifier rune follows (not `.` behind a bare Int literal). -/
  theorem stream_lay : (x : Expr) → Frag2 fo x → ∀ e, identStop e = true → (isNumLit x = true → e ≠ 46) →
      StreamOk2 (layE x) e
    | .ident n, h, e, he, _ => by
      simp only [Frag2] at h
      exact ⟨(wordAtom_atom h).1, he, trivial⟩
    | .bool true, _, e, he, _ => ⟨(wordAtom_atom kw2.1).1, he, trivial⟩
    | .bool false, _, e, he, _ => ⟨(wordAtom_atom kw2.2.1).1, he, trivial⟩
    | .undef, _, e, he, _ => ⟨(wordAtom_atom kw2.2.2).1, he, trivial⟩
    | .int _ lit, h, e, he, hd => by
      simp only [Frag2] at h
      refine ⟨by simp [Item2.ok, Item2.litOk, h.1], ?_, trivial⟩
      have h46 : e ≠ 46 := hd rfl
      simp [Item2.sepOk, firstR2, litStop, he, h46]
    | .float _ lit, h, e, he, hd => by
      simp only [Frag2] at h
      refine ⟨by simp [Item2.ok, Item2.litOk, h.1], ?_, trivial⟩
      have h46 : e ≠ 46 := hd rfl
      simp [Item2.sepOk, firstR2, litStop, he, h46]
    | .char _ lit, h, e, _, _ => by
      simp only [Frag2] at h
      exact ⟨by simp [Item2.ok, Item2.litOk, h.1], by simp [Item2.sepOk], trivial⟩
    | .str _ lit, h, e, _, _ => by
      simp only [Frag2] at h
      exact ⟨by simp [Item2.ok, Item2.litOk, h.1], by simp [Item2.sepOk], trivial⟩
    | .bin op l r, h, e, _, _ => by
      simp only [Frag2] at h
      simp only [layE]
      refine opE_any .LParen (by decide) (fun _ => rfl) _ e ?_
      rw [streamOk2_append]
      refine ⟨stream_lay l h.2.1 _ (by rfl) (fun _ => (by decide : (32 : Nat) ≠ 46)), ?_⟩
      refine opE_ok op (binop_frag2 op h.1) _ e (fuses2_blank op) ?_
      show StreamOk2 (layE r ++ [opE .RParen]) e
      rw [streamOk2_append]
      refine ⟨stream_lay r h.2.2 _ ?_ ?_, closeR e⟩
      · rw [first_close _ _ rparen_bytes]; decide
      · intro _; rw [first_close _ _ rparen_bytes]; decide
    | .un op x, h, e, _, _ => by
      simp only [Frag2] at h
      simp only [layE]
      refine opE_any .LParen (by decide) (fun _ => rfl) _ e ?_
      refine opE_ok op (unop_frag2 op h.1).1 _ e ?_ ?_
      · rw [(unop_frag2 op h.1).2, firstR2_append]
        exact fuses_start op _ (first_start x h.2 _)
      · rw [streamOk2_append]
        refine ⟨stream_lay x h.2 _ ?_ ?_, closeR e⟩
        · rw [first_close _ _ rparen_bytes]; decide
        · intro _; rw [first_close _ _ rparen_bytes]; decide
    | .cond c t f, h, e, _, _ => by
      simp only [Frag2] at h
      simp only [layE]
      refine opE_any .LParen (by decide) (fun _ => rfl) _ e ?_
      rw [streamOk2_append]
      refine ⟨stream_lay c h.1 _ (by rfl) (fun _ => (by decide : (32 : Nat) ≠ 46)), ?_⟩
      refine opE_ok .Question (by decide) _ e (fuses2_blank _) ?_
      show StreamOk2 (layE t ++ .sp :: opE .Colon :: .sp :: (layE f ++ [opE .RParen])) e
      rw [streamOk2_append]
      refine ⟨stream_lay t h.2.1 _ (by rfl) (fun _ => (by decide : (32 : Nat) ≠ 46)), ?_⟩
      refine opE_ok .Colon (by decide) _ e (fuses2_blank _) ?_
      show StreamOk2 (layE f ++ [opE .RParen]) e
      rw [streamOk2_append]
      refine ⟨stream_lay f h.2.2 _ ?_ ?_, closeR e⟩
      · rw [first_close _ _ rparen_bytes]; decide
      · intro _; rw [first_close _ _ rparen_bytes]; decide
    | .paren x, h, e, _, _ => by
      simp only [Frag2] at h
      simp only [layE]
      refine opE_any .LParen (by decide) (fun _ => rfl) _ e ?_
      rw [streamOk2_append]
      refine ⟨stream_lay x h _ ?_ ?_, closeR e⟩
      · rw [first_close _ _ rparen_bytes]; decide
      · intro _; rw [first_close _ _ rparen_bytes]; decide
    | .sel x n, h, e, he, _ => by
      simp only [Frag2] at h
      obtain ⟨hfl, hn, hx⟩ := h
      have hw := (wordAtom_atom hn).1
      have hfp : firstR2 [opE .Period, .it (.word n)] e = 46 := firstR2_opE _ _ _ period_bytes _ _
      have hper : StreamOk2 [opE .Period, .it (.word n)] e := by
        refine opE_ok .Period (by decide) _ e ?_ ⟨hw, he, trivial⟩
        have hl := firstR2_word n [] e hw
        generalize firstR2 [El2.it (Item2.word n)] e = r at hl
        simp only [isAsciiLetter, Bool.or_eq_true, Bool.and_eq_true, decide_eq_true_eq, beq_iff_eq] at hl
        simp only [fuses2, isDec, Bool.or_eq_false_iff, Bool.and_eq_false_iff, decide_eq_false_iff_not,
          beq_eq_false_iff_ne]
        omega
      simp only [layE]
      rw [streamOk2_append]
      refine ⟨?_, hper⟩
      cases hi : isIntLit x with
      | false =>
        simp only [selBase, Bool.false_eq_true, if_false]
        exact stream_lay x hx _ (by rw [hfp]; decide) (fun hc => by simp [isNumLit, hi, hfl] at hc)
      | true =>
        simp only [selBase, if_true]
        refine opE_any .LParen (by decide) (fun _ => rfl) _ _ ?_
        rw [streamOk2_append]
        refine ⟨stream_lay x hx _ ?_ ?_, closeR _⟩
        · rw [first_close _ _ rparen_bytes]; decide
        · intro _; rw [first_close _ _ rparen_bytes]; decide
    | .idx x i, h, e, _, _ => by
      simp only [Frag2] at h
      simp only [layE]
      rw [streamOk2_append]
      have hfp : ∀ r, firstR2 (opE .LBrack :: r) e = 91 := fun r => firstR2_opE _ _ _ lbrack_bytes _ _
      refine ⟨stream_lay x h.1 _ (by rw [hfp]; decide) (fun _ => by rw [hfp]; decide), ?_⟩
      refine opE_any .LBrack (by decide) (fun _ => rfl) _ e ?_
      rw [streamOk2_append]
      refine ⟨?_, closeB e⟩
      cases i with
      | none => simp [Frag2I] at h
      | some i' =>
        have hi : Frag2 fo i' := by simpa [Frag2I] using h.2
        simp only [layO]
        refine stream_lay i' hi _ ?_ ?_
        · rw [first_close _ _ rbrack_bytes]; decide
        · intro _; rw [first_close _ _ rbrack_bytes]; decide
    | .slice x lo hi, h, e, _, _ => by
      simp only [Frag2] at h
      simp only [layE]
      rw [streamOk2_append]
      have hfp : ∀ r, firstR2 (opE .LBrack :: r) e = 91 := fun r => firstR2_opE _ _ _ lbrack_bytes _ _
      refine ⟨stream_lay x h.1 _ (by rw [hfp]; decide) (fun _ => by rw [hfp]; decide), ?_⟩
      refine opE_any .LBrack (by decide) (fun _ => rfl) _ e ?_
      rw [streamOk2_append]
      have hfc : ∀ r, firstR2 (opE .Colon :: r) e = 58 := fun r => firstR2_opE _ _ _ colon_bytes _ _
      refine ⟨stream_layO lo h.2.1 _ (by rw [hfc]; decide) (by rw [hfc]; decide), ?_⟩
      refine opE_ok .Colon (by decide) _ e ?_ ?_
      · -- `:` is followed by the first rune of the upper bound or by `]`
        rw [firstR2_append]
        have : fuses2 .Colon (firstR2 (layO hi) (firstR2 [opE .RBrack] e)) =
            (firstR2 (layO hi) (firstR2 [opE .RBrack] e) == 61) := rfl
        rw [this, first_close _ _ rbrack_bytes]
        cases hi with
        | none => decide
        | some u =>
          simp only [layO]
          have := startR_ne61 (first_start u (by simpa [Frag2O] using h.2.2) (93 : UInt8).toNat)
          simpa using this
      · rw [streamOk2_append]
        refine ⟨stream_layO hi h.2.2 _ ?_ ?_, closeB e⟩
        · rw [first_close _ _ rbrack_bytes]; decide
        · rw [first_close _ _ rbrack_bytes]; decide
    | .call f args ell, h, e, _, _ => by
      simp only [Frag2] at h
      simp only [layE]
      rw [streamOk2_append]
      have hfp : ∀ r, firstR2 (opE .LParen :: r) e = 40 := fun r => firstR2_opE _ _ _ lparen_bytes _ _
      refine ⟨stream_lay f h.2.1 _ (by rw [hfp]; decide) (fun _ => by rw [hfp]; decide), ?_⟩
      refine opE_any .LParen (by decide) (fun _ => rfl) _ e ?_
      cases ell with
      | false =>
        simp only [ellE, Bool.false_eq_true, if_false, List.nil_append]
        rw [streamOk2_append, first_close _ _ rparen_bytes]
        exact ⟨stream_args args h.2.2 _ (by decide) (fun _ => by decide), closeR e⟩
      | true =>
        have hok := h.1 rfl
        simp only [ellOk, Bool.and_eq_true, Bool.not_eq_true'] at hok
        simp only [ellE, if_true, List.cons_append, List.nil_append]
        rw [streamOk2_append]
        have hfe : firstR2 [opE .Ellipsis, opE .RParen] e = 46 := firstR2_opE _ 46 [46, 46] (by decide) _ _
        refine ⟨stream_args args h.2.2 _ (by rw [hfe]; decide) (fun hc => by rw [hok.2] at hc; cases hc), ?_⟩
        exact opE_any .Ellipsis (by decide) (fun _ => rfl) _ e (closeR e)
    | .arr es, h, e, _, _ => by
      simp only [Frag2] at h
      simp only [layE]
      refine opE_any .LBrack (by decide) (fun _ => rfl) _ e ?_
      rw [streamOk2_append, first_close _ _ rbrack_bytes]
      exact ⟨stream_args es h _ (by decide) (fun _ => by decide), closeB e⟩
    | .map els, h, e, _, _ => by
      simp only [Frag2] at h
      simp only [layE]
      refine opE_any .LBrace (by decide) (fun _ => rfl) _ e ?_
      rw [streamOk2_append, first_close _ _ rbrace_bytes]
      exact ⟨stream_map els h, closeC e⟩
    | .func _ _ _, h, _, _, _ => by simp [Frag2] at h
    | .imp n, h, e, _, _ => by
      simp only [Frag2] at h
      simp only [layE]
      refine ⟨kwi.2, by rw [firstR2_opE _ _ _ lparen_bytes]; rfl, ?_⟩
      refine opE_any .LParen (by decide) (fun _ => rfl) _ e ?_
      refine ⟨by simp [Item2.ok, Item2.litOk, h.1], by simp [Item2.sepOk], closeR e⟩
    | .error x, h, e, _, _ => by
      simp only [Frag2] at h
      simp only [layE]
      refine ⟨kwc.2.2.1, by rw [firstR2_opE _ _ _ lparen_bytes]; decide, ?_⟩
      refine opE_any .LParen (by decide) (fun _ => rfl) _ e ?_
      rw [streamOk2_append]
      refine ⟨stream_lay x h _ ?_ ?_, closeR e⟩
      · rw [first_close _ _ rparen_bytes]; decide
      · intro _; rw [first_close _ _ rparen_bytes]; decide
    | .immutable x, h, e, _, _ => by
      simp only [Frag2] at h
      simp only [layE]
      refine ⟨kwc.2.2.2, by rw [firstR2_opE _ _ _ lparen_bytes]; decide, ?_⟩
      refine opE_any .LParen (by decide) (fun _ => rfl) _ e ?_
      rw [streamOk2_append]
      refine ⟨stream_lay x h _ ?_ ?_, closeR e⟩
      · rw [first_close _ _ rparen_bytes]; decide
      · intro _; rw [first_close _ _ rparen_bytes]; decide
    | .bad, h, _, _, _ => by simp [Frag2] at h
  theorem stream_args : (es : Exprs) → Frag2s fo es → ∀ e, identStop e = true →
      (lastNumAux false es = true → e ≠ 46) → StreamOk2 (layArgs es) e
    | .nil, _, _, _, _ => trivial
    | .cons a as, h, e, he, h46 => by
      simp only [Frag2s] at h
      simp only [layArgs]
      rw [streamOk2_append]
      refine ⟨stream_lay a h.1 _ ?_ ?_, stream_tail as h.2 e (isNumLit a) he h46⟩
      · cases as with
        | nil => exact he
        | cons b bs => simp only [layTail, firstR2_opE _ _ _ comma_bytes]; decide
      · intro hn
        cases as with
        | nil => exact h46 hn
        | cons b bs => simp only [layTail, firstR2_opE _ _ _ comma_bytes]; decide
  theorem stream_tail : (es : Exprs) → Frag2s fo es → ∀ e p, identStop e = true →
      (lastNumAux p es = true → e ≠ 46) → StreamOk2 (layTail es) e
    | .nil, _, _, _, _, _ => trivial
    | .cons a as, h, e, p, he, h46 => by
      simp only [Frag2s] at h
      simp only [layTail]
      refine opE_ok .Comma (by decide) _ _ (fuses2_blank _) ?_
      show StreamOk2 (layE a ++ layTail as) _
      rw [streamOk2_append]
      refine ⟨stream_lay a h.1 _ ?_ ?_, stream_tail as h.2 e (isNumLit a) he h46⟩
      · cases as with
        | nil => exact he
        | cons b bs => simp only [layTail, firstR2_opE _ _ _ comma_bytes]; decide
      · intro hn
        cases as with
        | nil => exact h46 hn
        | cons b bs => simp only [layTail, firstR2_opE _ _ _ comma_bytes]; decide
  theorem stream_map : (m : MapElems) → Frag2M fo m → StreamOk2 (layM m) (125 : UInt8).toNat
    | .nil, _ => trivial
    | .cons k v r, h => by
      simp only [Frag2M] at h
      simp only [layM]
      refine ⟨(wordAtom_atom h.1).1, by rw [firstR2_opE _ _ _ colon_bytes]; rfl, ?_⟩
      refine opE_ok .Colon (by decide) _ _ (fuses2_blank _) ?_
      show StreamOk2 (layE v ++ layMT r) _
      rw [streamOk2_append]
      refine ⟨stream_lay v h.2.1 _ ?_ ?_, stream_mapT r h.2.2⟩
      · cases r with
        | nil => decide
        | cons k2 v2 r2 => simp only [layMT, firstR2_opE _ _ _ comma_bytes]; decide
      · intro _
        cases r with
        | nil => decide
        | cons k2 v2 r2 => simp only [layMT, firstR2_opE _ _ _ comma_bytes]; decide
  theorem stream_mapT : (m : MapElems) → Frag2M fo m → StreamOk2 (layMT m) (125 : UInt8).toNat
    | .nil, _ => trivial
    | .cons k v r, h => by
      simp only [Frag2M] at h
      simp only [layMT]
      refine opE_ok .Comma (by decide) _ _ (fuses2_blank _) ?_
      refine ⟨(wordAtom_atom h.1).1, by rw [firstR2_opE _ _ _ colon_bytes]; rfl, ?_⟩
      refine opE_ok .Colon (by decide) _ _ (fuses2_blank _) ?_
      show StreamOk2 (layE v ++ layMT r) _
      rw [streamOk2_append]
      refine ⟨stream_lay v h.2.1 _ ?_ ?_, stream_mapT r h.2.2⟩
      · cases r with
        | nil => decide
        | cons k2 v2 r2 => simp only [layMT, firstR2_opE _ _ _ comma_bytes]; decide
      · intro _
        cases r with
        | nil => decide
        | cons k2 v2 r2 => simp only [layMT, firstR2_opE _ _ _ comma_bytes]; decide
  theorem stream_layO : (o : OptExpr) → Frag2O fo o → ∀ e, identStop e = true → e ≠ 46 → StreamOk2 (layO o) e
    | .none, _, _, _, _ => trivial
    | .some x, h, e, he, h46 => by
      simp only [Frag2O] at h
      exact stream_lay x h e he (fun _ => h46)
end

/-! ### The last token sets `insertSemi` -/

theorem lastIns2_close (ins : Bool) (a : List El2) (t : Tok) (h : insOp t = true) :
    lastIns2 ins (a ++ [opE t]) = true := by
  rw [lastIns2_append]
  simp [lastIns2, opE, Item2.insAfter, h]

theorem last_lay (x : Expr) (h : Frag2 fo x) (ins : Bool) : lastIns2 ins (layE x) = true := by
  have hr : insOp .RParen = true := rfl
  have hb : insOp .RBrack = true := rfl
  have hw : ∀ k n, wordAtom k n = true → lastIns2 ins [.it (.word n)] = true := by
    intro k n hk
    obtain ⟨-, h2, -, h4, -⟩ := wordAtom_atom hk
    simp [lastIns2, Item2.insAfter, h2, h4]
  cases x with
  | ident n => simp only [Frag2] at h; exact hw _ _ h
  | bool b => cases b; exact hw _ _ kw2.2.1; exact hw _ _ kw2.1
  | undef => exact hw _ _ kw2.2.2
  | int _ _ => rfl
  | char _ _ => rfl
  | str _ _ => rfl
  | bin op l r =>
    have : layE (.bin op l r) = (opE .LParen :: (layE l ++ .sp :: opE op :: .sp :: layE r)) ++ [opE .RParen] := by
      simp [layE]
    rw [this]; exact lastIns2_close _ _ _ hr
  | un op e =>
    have : layE (.un op e) = (opE .LParen :: opE op :: layE e) ++ [opE .RParen] := by simp [layE]
    rw [this]; exact lastIns2_close _ _ _ hr
  | cond c t f =>
    have : layE (.cond c t f) = (opE .LParen :: (layE c ++ .sp :: opE .Question :: .sp ::
        (layE t ++ .sp :: opE .Colon :: .sp :: layE f))) ++ [opE .RParen] := by simp [layE]
    rw [this]; exact lastIns2_close _ _ _ hr
  | paren e =>
    have : layE (.paren e) = (opE .LParen :: layE e) ++ [opE .RParen] := by simp [layE]
    rw [this]; exact lastIns2_close _ _ _ hr
  | sel e n =>
    simp only [Frag2] at h
    obtain ⟨-, h2, -, h4, -⟩ := wordAtom_atom h.2.1
    simp only [layE, lastIns2_append]
    simp [lastIns2, opE, Item2.insAfter, h2, h4]
  | idx e i =>
    have : layE (.idx e i) = (layE e ++ opE .LBrack :: layO i) ++ [opE .RBrack] := by simp [layE]
    rw [this]; exact lastIns2_close _ _ _ hb
  | slice e lo hi =>
    have : layE (.slice e lo hi) = (layE e ++ opE .LBrack :: (layO lo ++ opE .Colon :: layO hi)) ++ [opE .RBrack] := by
      simp [layE]
    rw [this]; exact lastIns2_close _ _ _ hb
  | call f args ell =>
    have : layE (.call f args ell) = (layE f ++ opE .LParen :: (layArgs args ++ ellE ell)) ++ [opE .RParen] := by
      simp [layE]
    rw [this]; exact lastIns2_close _ _ _ hr
  | float _ _ => rfl
  | arr es =>
    have : layE (.arr es) = (opE .LBrack :: layArgs es) ++ [opE .RBrack] := by simp [layE]
    rw [this]; exact lastIns2_close _ _ _ hb
  | map els =>
    have : layE (.map els) = (opE .LBrace :: layM els) ++ [opE .RBrace] := by simp [layE]
    rw [this]; exact lastIns2_close _ _ _ rfl
  | func _ _ _ => simp [Frag2] at h
  | imp n =>
    have : layE (.imp n) = [.it (.word Tok.Import.bytes), opE .LParen, .it (.lit .String (impLit n))] ++ [opE .RParen] := by
      simp [layE]
    rw [this]; exact lastIns2_close _ _ _ hr
  | error e =>
    have : layE (.error e) = (.it (.word Tok.Error.bytes) :: opE .LParen :: layE e) ++ [opE .RParen] := by simp [layE]
    rw [this]; exact lastIns2_close _ _ _ hr
  | immutable e =>
    have : layE (.immutable e) = (.it (.word Tok.Immutable.bytes) :: opE .LParen :: layE e) ++ [opE .RParen] := by
      simp [layE]
    rw [this]; exact lastIns2_close _ _ _ hr
  | bad => simp [Frag2] at h

/-! ### Scanner ∘ parser on the printed bytes -/

variable (fo) (cls : Nat → Nat)

/-- **Byte-level parse of a printed stream.** Any stream of blanks and tokens (`StreamOk2`, ending in a token of the
insert-semicolon set) whose `(kind, literal)` sequence is that of the printed form of a fragment expression `x`
parses (`ParseFile` on the BYTES) to the single expression statement `pf x`. -/
theorem parseFile_stream2 (x : Expr) (h : Frag2 fo x) (els : List El2) (hk : keysOf els = keysOf (layE x))
    (hok : StreamOk2 els eofR) (hlast : lastIns2 false els = true) :
    parseFile fo cls (render2 els) = some (.cons (.expr (pf x)) .nil) := by
  obtain ⟨hT, hE⟩ := scan_print_tokens2 cls els hok
  have c : PrimOk fo x := primOk x h
  have hkk : (place2 0 els).map key = keysOf (layE x) := by rw [place2_keys, hk]
  simp only [hlast, endToks, if_true] at hT
  generalize (render2 els).length = n at hT
  have hstop : Stop0 [(⟨.Semicolon, [10], n⟩ : Token), ⟨.EOF, [], n⟩] :=
    stop0_tok _ _ rfl
  obtain ⟨t0, ts, hpl, hs0⟩ := c.first (place2 0 els) [] hkk
  have hp := c.expr (place2 0 els) _ hkk hstop
  rw [hpl] at hp
  have := parseToks_expr fo t0 ts (pf x) ⟨.Semicolon, [10], n⟩ ⟨.EOF, [], n⟩ rfl rfl hs0 hp
  unfold parseFile
  simp only [hE, List.isEmpty_nil, if_true, hT, hpl]
  exact this

end Tengo.Proofs.C20Bytes2Print

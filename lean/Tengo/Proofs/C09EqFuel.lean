import Tengo.Proofs.C09Eq
/-!
C09 — the fuel of the model (`objs.length + 2`) suffices for every acyclic value: a value whose reachable part
(not looking behind error values) is a finite tree at all (`Fin h n v` for SOME `n`) has height at most the number
of objects, because no object can occur twice on a path (pigeonhole).
-/
namespace Tengo.Proofs.C09Eq
open Tengo.Model.Heap9 Tengo.Props.C09

/-- `x` is strictly inside the container object `r` (at any depth, not behind error values). -/
inductive Below (h : Heap) : Nat → Val → Prop
  | arrChild {r s off len cap : Nat} {m : Bool} {x : Val} : h.obj r = Obj.arr m s off len cap →
      x ∈ h.content s off len → Below h r x
  | mapChild {r s : Nat} {m : Bool} {x : Val} : h.obj r = Obj.map m s →
      x ∈ (h.mstore s).map Prod.snd → Below h r x
  | arrStep {r r' s off len cap : Nat} {m : Bool} {x : Val} : h.obj r = Obj.arr m s off len cap →
      Val.ref r' ∈ h.content s off len → Below h r' x → Below h r x
  | mapStep {r r' s : Nat} {m : Bool} {x : Val} : h.obj r = Obj.map m s →
      Val.ref r' ∈ (h.mstore s).map Prod.snd → Below h r' x → Below h r x

theorem fin_ref_pos {h : Heap} {r : Nat} (f : Fin h 0 (.ref r)) : False := by cases f

theorem fin_arr_children {h : Heap} {n r s off len cap : Nat} {m : Bool} (f : Fin h (n + 1) (.ref r))
    (ho : h.obj r = Obj.arr m s off len cap) : ∀ x ∈ h.content s off len, Fin h n x := by
  cases f with
  | arr ho' hall => rw [ho] at ho'; injection ho' with _ e1 e2 e3 _; subst e1 e2 e3; exact hall
  | map ho' _ => rw [ho] at ho'; cases ho'
  | err ho' => rw [ho] at ho'; cases ho'

theorem fin_map_children {h : Heap} {n r s : Nat} {m : Bool} (f : Fin h (n + 1) (.ref r))
    (ho : h.obj r = Obj.map m s) : ∀ x ∈ (h.mstore s).map Prod.snd, Fin h n x := by
  cases f with
  | arr ho' _ => rw [ho] at ho'; cases ho'
  | map ho' hall => rw [ho] at ho'; injection ho' with _ e1; subst e1; exact hall
  | err ho' => rw [ho] at ho'; cases ho'

theorem below_fin {h : Heap} {r : Nat} {x : Val} (b : Below h r x) : ∀ n, Fin h (n + 1) (.ref r) → Fin h n x := by
  induction b with
  | arrChild ho hx => intro n f; exact fin_arr_children f ho _ hx
  | mapChild ho hx => intro n f; exact fin_map_children f ho _ hx
  | arrStep ho hx _ ih =>
    intro n f
    have f' := fin_arr_children f ho _ hx
    cases n with
    | zero => exact (fin_ref_pos f').elim
    | succ k => exact (ih k f').mono (Nat.le_succ k)
  | mapStep ho hx _ ih =>
    intro n f
    have f' := fin_map_children f ho _ hx
    cases n with
    | zero => exact (fin_ref_pos f').elim
    | succ k => exact (ih k f').mono (Nat.le_succ k)

/-- A finite value is acyclic: no object is inside itself. -/
theorem fin_no_cycle {h : Heap} {r : Nat} : ∀ n, Fin h n (.ref r) → Below h r (.ref r) → False := by
  intro n
  induction n with
  | zero => intro f _; exact fin_ref_pos f
  | succ n ih => intro f b; exact ih (below_fin b n f) b

theorem below_arr_child {h : Heap} {p : Nat} {v : Val} (b : Below h p v) :
    ∀ {r s off len cap : Nat} {m : Bool} {x : Val}, v = .ref r → h.obj r = Obj.arr m s off len cap →
      x ∈ h.content s off len → Below h p x := by
  induction b with
  | arrChild ho hx => intro r s off len cap m x e ho' hx'; subst e; exact .arrStep ho hx (.arrChild ho' hx')
  | mapChild ho hx => intro r s off len cap m x e ho' hx'; subst e; exact .mapStep ho hx (.arrChild ho' hx')
  | arrStep ho hx _ ih => intro r s off len cap m x e ho' hx'; exact .arrStep ho hx (ih e ho' hx')
  | mapStep ho hx _ ih => intro r s off len cap m x e ho' hx'; exact .mapStep ho hx (ih e ho' hx')

theorem below_map_child {h : Heap} {p : Nat} {v : Val} (b : Below h p v) :
    ∀ {r s : Nat} {m : Bool} {x : Val}, v = .ref r → h.obj r = Obj.map m s →
      x ∈ (h.mstore s).map Prod.snd → Below h p x := by
  induction b with
  | arrChild ho hx => intro r s m x e ho' hx'; subst e; exact .arrStep ho hx (.mapChild ho' hx')
  | mapChild ho hx => intro r s m x e ho' hx'; subst e; exact .mapStep ho hx (.mapChild ho' hx')
  | arrStep ho hx _ ih => intro r s m x e ho' hx'; exact .arrStep ho hx (ih e ho' hx')
  | mapStep ho hx _ ih => intro r s m x e ho' hx'; exact .mapStep ho hx (ih e ho' hx')

/-- Pigeonhole: a duplicate-free list of numbers below `N` has at most `N` elements. -/
theorem nodup_bound : ∀ (N : Nat) (l : List Nat), l.Nodup → (∀ x ∈ l, x < N) → l.length ≤ N := by
  intro N
  induction N with
  | zero =>
    intro l _ hb
    cases l with
    | nil => simp
    | cons a t => exact absurd (hb a (List.mem_cons_self ..)) (Nat.not_lt_zero _)
  | succ N ih =>
    intro l nd hb
    have nd' : (l.erase N).Nodup := nd.erase N
    have hb' : ∀ x ∈ l.erase N, x < N := by
      intro x hx
      have hx' := (List.Nodup.mem_erase_iff nd).mp hx
      have := hb x hx'.2
      have := hx'.1
      omega
    have := ih _ nd' hb'
    by_cases hm : N ∈ l
    · rw [List.length_erase_of_mem hm] at this; omega
    · rw [List.erase_of_not_mem hm] at this; omega

/-- The height of a finite value is bounded by the number of objects not on the path above it. -/
theorem fin_bound {h : Heap} {n : Nat} {v : Val} (f : Fin h n v) :
    ∀ (P : List Nat) (m : Nat), P.Nodup → (∀ p ∈ P, p < h.objs.length ∧ Below h p v) →
      h.objs.length ≤ P.length + m → Fin h m v := by
  induction f with
  | undef n => intro P m _ _ _; exact .undef m
  | int n i => intro P m _ _ _; exact .int m i
  | str n s => intro P m _ _ _; exact .str m s
  | opq n s c => intro P m _ _ _; exact .opq m s c
  | arr ho hall ih =>
    rename_i n r s off len cap mu
    intro P m nd hp hl
    have hr : r < h.objs.length := lt_of_lookup (obj_some ho (by simp))
    have nin : r ∉ P := fun hin => fin_no_cycle _ (Fin.arr ho hall) (hp r hin).2
    have nd' : (r :: P).Nodup := List.nodup_cons.mpr ⟨nin, nd⟩
    have hb : ∀ p ∈ r :: P, p < h.objs.length := by
      intro p hpm
      rcases List.mem_cons.mp hpm with rfl | hpm
      · exact hr
      · exact (hp p hpm).1
    have hlen := nodup_bound _ _ nd' hb
    simp only [List.length_cons] at hlen
    cases m with
    | zero => omega
    | succ k =>
      refine .arr ho (fun x hx => ih x hx (r :: P) k nd' ?_ (by simp only [List.length_cons]; omega))
      intro p hpm
      rcases List.mem_cons.mp hpm with rfl | hpm
      · exact ⟨hr, .arrChild ho hx⟩
      · exact ⟨(hp p hpm).1, below_arr_child (hp p hpm).2 rfl ho hx⟩
  | map ho hall ih =>
    rename_i n r s mu
    intro P m nd hp hl
    have hr : r < h.objs.length := lt_of_lookup (obj_some ho (by simp))
    have nin : r ∉ P := fun hin => fin_no_cycle _ (Fin.map ho hall) (hp r hin).2
    have nd' : (r :: P).Nodup := List.nodup_cons.mpr ⟨nin, nd⟩
    have hb : ∀ p ∈ r :: P, p < h.objs.length := by
      intro p hpm
      rcases List.mem_cons.mp hpm with rfl | hpm
      · exact hr
      · exact (hp p hpm).1
    have hlen := nodup_bound _ _ nd' hb
    simp only [List.length_cons] at hlen
    cases m with
    | zero => omega
    | succ k =>
      refine .map ho (fun x hx => ih x hx (r :: P) k nd' ?_ (by simp only [List.length_cons]; omega))
      intro p hpm
      rcases List.mem_cons.mp hpm with rfl | hpm
      · exact ⟨hr, .mapChild ho hx⟩
      · exact ⟨(hp p hpm).1, below_map_child (hp p hpm).2 rfl ho hx⟩
  | err ho =>
    rename_i n r p
    intro P m nd hp hl
    have hr : r < h.objs.length := lt_of_lookup (obj_some ho (by simp))
    have nin : r ∉ P := by
      intro hin
      have b := (hp r hin).2
      cases b with
      | arrChild ho' _ => rw [ho] at ho'; cases ho'
      | mapChild ho' _ => rw [ho] at ho'; cases ho'
      | arrStep ho' _ _ => rw [ho] at ho'; cases ho'
      | mapStep ho' _ _ => rw [ho] at ho'; cases ho'
    have nd' : (r :: P).Nodup := List.nodup_cons.mpr ⟨nin, nd⟩
    have hb : ∀ p ∈ r :: P, p < h.objs.length := by
      intro p hpm
      rcases List.mem_cons.mp hpm with rfl | hpm
      · exact hr
      · exact (hp p hpm).1
    have hlen := nodup_bound _ _ nd' hb
    simp only [List.length_cons] at hlen
    cases m with
    | zero => omega
    | succ k => exact .err ho

/-- Every finite (= acyclic, comparable) value has height at most the number of objects of the heap. -/
theorem fin_objs_length {h : Heap} {n : Nat} {v : Val} (f : Fin h n v) : Fin h h.objs.length v :=
  fin_bound f [] h.objs.length List.nodup_nil (fun p hp => by cases hp) (by simp)

end Tengo.Proofs.C09Eq

import Tengo.Proofs.F2Base
/-!
Compiler correctness for fragment F2 (F1 + `break` / `continue` + three-clause loops) on the machine with a
bounded operand stack, by induction on the fuel of the reference semantics (`all_okB`). One invariant for all
outcomes (`OkB`): code placed anywhere, compiled with ANY `break` target `bt` and `continue` target `ct`; a
normal end reaches the first byte after the code, a `break` under way reaches `bt`, a `continue` under way
reaches `ct` — always with the operand stack the code started with — and an error is a data error of the
machine. Loops instantiate the targets of their bodies with their own end and post-body positions.
-/
set_option linter.unusedSimpArgs false
set_option linter.unusedVariables false
namespace Tengo.Model.F2
open Tengo.Model.F0
variable {V : Type}

macro "bnd2" : tactic =>
  `(tactic| ((try dsimp only) <;> (try simp only [List.length_cons, depthC, depthS, depthSs] at *) <;> omega))

/-- What has to hold for one piece of code at one fuel. -/
def OkB (lim : Nat) (S : Sem V) (cs : Nat → V) (f : Nat) (c : Code) : Prop :=
  ∀ (g : Nat → V) (code : List Ins) (bt ct off : Nat) (st : List V),
    At code off (compC bt ct off c) → st.length + depthC c ≤ lim →
    Good lim S cs code ⟨off, st, g⟩ st (off + codeSize c) bt ct (exec S cs f c g)

theorem okB_zero (lim : Nat) (S : Sem V) (cs : Nat → V) (c : Code) : OkB lim S cs 0 c := by
  intro g code bt ct off st hat hd
  simp only [exec]
  trivial

theorem okB_expr (lim : Nat) (S : Sem V) (cs : Nat → V) (f : Nat) (e : Ex) :
    OkB lim S cs (f + 1) (.inl (.expr e)) := by
  intro g code bt ct off st hat hd
  have hA : At code off (comp off e ++ [Ins.pop]) := by simpa [compC, compS] using hat
  obtain ⟨h1, h2⟩ := compB_at lim S cs g e hA.left (st := st) (by bnd2)
  have hf := (hA.right (off' := off + esize e) (by rw [csize_comp])).fetch
  simp only [exec]
  cases he : eval S cs g e with
  | none => exact h2 he
  | some v =>
    exact ((h1 v he).trans (RunsB.step (lim := lim) (step_pop S cs _ hf) (by bnd2))).to
      (by simp [codeSize, ssize, esz_eq]; omega)

theorem okB_assign (lim : Nat) (S : Sem V) (cs : Nat → V) (f : Nat) (i : Nat) (e : Ex) :
    OkB lim S cs (f + 1) (.inl (.assign i e)) := by
  intro g code bt ct off st hat hd
  have hA : At code off (comp off e ++ [Ins.setg i]) := by simpa [compC, compS] using hat
  obtain ⟨h1, h2⟩ := compB_at lim S cs g e hA.left (st := st) (by bnd2)
  have hf := (hA.right (off' := off + esize e) (by rw [csize_comp])).fetch
  simp only [exec]
  cases he : eval S cs g e with
  | none => exact h2 he
  | some v =>
    exact ((h1 v he).trans (RunsB.step (lim := lim) (step_setg S cs _ hf) (by bnd2))).to
      (by simp [codeSize, ssize, esz_eq]; omega)

theorem okB_brk (lim : Nat) (S : Sem V) (cs : Nat → V) (f : Nat) : OkB lim S cs (f + 1) (.inl .brk) := by
  intro g code bt ct off st hat hd
  have hf : fetch code off = some (Ins.jmp bt) := by
    have hA : At code off [Ins.jmp bt] := by simpa [compC, compS] using hat
    exact hA.fetch
  simp only [exec]
  exact RunsB.step (lim := lim) (step_jmp S cs _ hf) (by bnd2)

theorem okB_cont (lim : Nat) (S : Sem V) (cs : Nat → V) (f : Nat) : OkB lim S cs (f + 1) (.inl .cont) := by
  intro g code bt ct off st hat hd
  have hf : fetch code off = some (Ins.jmp ct) := by
    have hA : At code off [Ins.jmp ct] := by simpa [compC, compS] using hat
    exact hA.fetch
  simp only [exec]
  exact RunsB.step (lim := lim) (step_jmp S cs _ hf) (by bnd2)

theorem okB_nil (lim : Nat) (S : Sem V) (cs : Nat → V) (f : Nat) : OkB lim S cs (f + 1) (.inr .nil) := by
  intro g code bt ct off st hat hd
  simp only [exec]
  exact (RunsB.refl lim S cs code ⟨off, st, g⟩).to (by simp [codeSize, sssize])

theorem okB_cons (lim : Nat) (S : Sem V) (cs : Nat → V) (f : Nat) (s : Stm) (ss : Stms)
    (ih : ∀ c, OkB lim S cs f c) : OkB lim S cs (f + 1) (.inr (.cons s ss)) := by
  intro g code bt ct off st hat hd
  have hA : At code off (compS bt ct off s ++ compSs bt ct (off + ssize s) ss) := by
    simpa [compC, compSs] using hat
  have h1 := ih (.inl s) g code bt ct off st hA.left (by bnd2)
  have h2 := fun g1 => ih (.inr ss) g1 code bt ct (off + ssize s) st
    (hA.right (by rw [csize_compS])) (by bnd2)
  simp only [exec]
  cases hes : exec S cs f (.inl s) g with
  | done g1 =>
    rw [hes] at h1
    exact (Good.pre h1 (h2 g1)).fin (by simp [codeSize, sssize]; omega)
  | brk g1 => rw [hes] at h1; exact h1
  | cont g1 => rw [hes] at h1; exact h1
  | err => rw [hes] at h1; exact h1
  | out => trivial

theorem okB_ifs (lim : Nat) (S : Sem V) (cs : Nat → V) (f : Nat) (c : Ex) (body : Stms)
    (ih : ∀ c, OkB lim S cs f c) : OkB lim S cs (f + 1) (.inl (.ifs c body)) := by
  intro g code bt ct off st hat hd
  have hA : At code off (comp off c ++ [Ins.jmpf (off + esize c + 5 + sssize body)] ++
      compSs bt ct (off + esize c + 5) body) := by simpa [compC, compS, esz_eq] using hat
  obtain ⟨hc1, hc2⟩ := compB_at lim S cs g c hA.left.left (st := st) (by bnd2)
  have hfj := (hA.left.right (off' := off + esize c) (by rw [csize_comp])).fetch
  have hb := ih (.inr body) g code bt ct (off + esize c + 5) st
    (hA.right (by simp [csize_append, csize_comp, csize, Ins.size] <;> omega)) (by bnd2)
  simp only [exec]
  cases hec : eval S cs g c with
  | none => exact hc2 hec
  | some a =>
    have hstep := RunsB.step (lim := lim) (step_jmpf S cs _ (st := st) (g := g) (a := a) hfj) (by bnd2)
    by_cases hfa : S.falsy a = true
    · simp only [hfa, if_true] at hstep ⊢
      exact ((hc1 a hec).trans hstep).to (by simp [codeSize, ssize, esz_eq]; omega)
    · simp only [hfa, Bool.false_eq_true, if_false] at hstep ⊢
      exact (Good.pre ((hc1 a hec).trans hstep) hb).fin (by simp [codeSize, ssize, esz_eq]; omega)

theorem okB_ifelse (lim : Nat) (S : Sem V) (cs : Nat → V) (f : Nat) (c : Ex) (body els : Stms)
    (ih : ∀ c, OkB lim S cs f c) : OkB lim S cs (f + 1) (.inl (.ifelse c body els)) := by
  intro g code bt ct off st hat hd
  have hA : At code off (comp off c ++ [Ins.jmpf (off + esize c + 5 + sssize body + 5)] ++
      compSs bt ct (off + esize c + 5) body ++ [Ins.jmp (off + esize c + 5 + sssize body + 5 + sssize els)] ++
      compSs bt ct (off + esize c + 5 + sssize body + 5) els) := by simpa [compC, compS, esz_eq] using hat
  obtain ⟨hc1, hc2⟩ := compB_at lim S cs g c hA.left.left.left.left (st := st) (by bnd2)
  have hfj := (hA.left.left.left.right (off' := off + esize c) (by rw [csize_comp])).fetch
  have hb := ih (.inr body) g code bt ct (off + esize c + 5) st
    (hA.left.left.right (by simp [csize_append, csize_comp, csize, Ins.size] <;> omega)) (by bnd2)
  have hfj2 := (hA.left.right (off' := off + esize c + 5 + sssize body)
    (by simp [csize_append, csize_comp, csize_compSs, csize, Ins.size] <;> omega)).fetch
  have he := ih (.inr els) g code bt ct (off + esize c + 5 + sssize body + 5) st
    (hA.right (by simp [csize_append, csize_comp, csize_compSs, csize, Ins.size] <;> omega)) (by bnd2)
  simp only [exec]
  cases hec : eval S cs g c with
  | none => exact hc2 hec
  | some a =>
    have hstep := RunsB.step (lim := lim) (step_jmpf S cs _ (st := st) (g := g) (a := a) hfj) (by bnd2)
    by_cases hfa : S.falsy a = true
    · simp only [hfa, if_true] at hstep ⊢
      exact (Good.pre ((hc1 a hec).trans hstep) he).fin (by simp [codeSize, ssize, esz_eq]; omega)
    · simp only [hfa, Bool.false_eq_true, if_false] at hstep ⊢
      have hpre := (hc1 a hec).trans hstep
      cases heb : exec S cs f (.inr body) g with
      | done g1 =>
        rw [heb] at hb
        exact ((hpre.trans hb).trans (RunsB.step (lim := lim) (step_jmp S cs _ hfj2) (by bnd2))).to
          (by simp [codeSize, ssize, esz_eq]; omega)
      | brk g1 => rw [heb] at hb; exact hpre.trans hb
      | cont g1 => rw [heb] at hb; exact hpre.trans hb
      | err => rw [heb] at hb; exact hpre.fails hb
      | out => trivial

theorem okB_whil (lim : Nat) (S : Sem V) (cs : Nat → V) (f : Nat) (c : Ex) (body : Stms)
    (ih : ∀ c, OkB lim S cs f c) : OkB lim S cs (f + 1) (.inl (.whil c body)) := by
  intro g code bt ct off st hat hd
  have hA : At code off (comp off c ++ [Ins.jmpf (off + esize c + 5 + sssize body + 5)] ++
      compSs (off + esize c + 5 + sssize body + 5) (off + esize c + 5 + sssize body) (off + esize c + 5) body ++
      [Ins.jmp off]) := by simpa [compC, compS, esz_eq] using hat
  obtain ⟨hc1, hc2⟩ := compB_at lim S cs g c hA.left.left.left (st := st) (by bnd2)
  have hfj := (hA.left.left.right (off' := off + esize c) (by rw [csize_comp])).fetch
  have hb := ih (.inr body) g code _ _ (off + esize c + 5) st
    (hA.left.right (by simp [csize_append, csize_comp, csize, Ins.size] <;> omega)) (by bnd2)
  have hfb := (hA.right (off' := off + esize c + 5 + sssize body)
    (by simp [csize_append, csize_comp, csize_compSs, csize, Ins.size] <;> omega)).fetch
  -- the loop itself again, at smaller fuel, from the globals after the body
  have hloop := fun g1 => ih (.inl (.whil c body)) g1 code bt ct off st hat hd
  simp only [exec]
  cases hec : eval S cs g c with
  | none => exact hc2 hec
  | some a =>
    have hstep := RunsB.step (lim := lim) (step_jmpf S cs _ (st := st) (g := g) (a := a) hfj) (by bnd2)
    by_cases hfa : S.falsy a = true
    · simp only [hfa, if_true] at hstep ⊢
      exact ((hc1 a hec).trans hstep).to (by simp [codeSize, ssize, esz_eq]; omega)
    · simp only [hfa, Bool.false_eq_true, if_false] at hstep ⊢
      have hpre := (hc1 a hec).trans hstep
      cases heb : exec S cs f (.inr body) g with
      | done g1 =>
        rw [heb] at hb
        have hback := RunsB.step (lim := lim) (step_jmp S cs _ (st := st) (g := g1) hfb) (by bnd2)
        exact Good.pre ((hpre.trans hb).trans hback) (hloop g1)
      | cont g1 =>
        rw [heb] at hb
        have hback := RunsB.step (lim := lim) (step_jmp S cs _ (st := st) (g := g1) hfb) (by bnd2)
        exact Good.pre ((hpre.trans hb).trans hback) (hloop g1)
      | brk g1 =>
        rw [heb] at hb
        exact (hpre.trans hb).to (by simp [codeSize, ssize, esz_eq]; omega)
      | err => rw [heb] at hb; exact hpre.fails hb
      | out => trivial

theorem okB_forever (lim : Nat) (S : Sem V) (cs : Nat → V) (f : Nat) (body : Stms)
    (ih : ∀ c, OkB lim S cs f c) : OkB lim S cs (f + 1) (.inl (.forever body)) := by
  intro g code bt ct off st hat hd
  have hA : At code off (compSs (off + sssize body + 5) (off + sssize body) off body ++ [Ins.jmp off]) := by
    simpa [compC, compS] using hat
  have hb := ih (.inr body) g code _ _ off st hA.left (by bnd2)
  have hfb := (hA.right (off' := off + sssize body) (by simp [csize_compSs])).fetch
  have hloop := fun g1 => ih (.inl (.forever body)) g1 code bt ct off st hat hd
  simp only [exec]
  cases heb : exec S cs f (.inr body) g with
  | done g1 =>
    rw [heb] at hb
    have hback := RunsB.step (lim := lim) (step_jmp S cs _ (st := st) (g := g1) hfb) (by bnd2)
    exact Good.pre (hb.trans hback) (hloop g1)
  | cont g1 =>
    rw [heb] at hb
    have hback := RunsB.step (lim := lim) (step_jmp S cs _ (st := st) (g := g1) hfb) (by bnd2)
    exact Good.pre (hb.trans hback) (hloop g1)
  | brk g1 =>
    rw [heb] at hb
    exact hb.to (by simp [codeSize, ssize] <;> omega)
  | err => rw [heb] at hb; exact hb
  | out => trivial

theorem okB_for3 (lim : Nat) (S : Sem V) (cs : Nat → V) (f : Nat) (c : Ex) (body : Stms) (post : Stm)
    (ih : ∀ c, OkB lim S cs f c) : OkB lim S cs (f + 1) (.inl (.for3 c body post)) := by
  intro g code bt ct off st hat hd
  have hA : At code off (comp off c ++ [Ins.jmpf (off + esize c + 5 + sssize body + ssize post + 5)] ++
      compSs (off + esize c + 5 + sssize body + ssize post + 5) (off + esize c + 5 + sssize body)
        (off + esize c + 5) body ++
      compS bt ct (off + esize c + 5 + sssize body) post ++ [Ins.jmp off]) := by
    simpa [compC, compS, esz_eq] using hat
  obtain ⟨hc1, hc2⟩ := compB_at lim S cs g c hA.left.left.left.left (st := st) (by bnd2)
  have hfj := (hA.left.left.left.right (off' := off + esize c) (by rw [csize_comp])).fetch
  have hb := ih (.inr body) g code _ _ (off + esize c + 5) st
    (hA.left.left.right (by simp [csize_append, csize_comp, csize, Ins.size] <;> omega)) (by bnd2)
  have hp := fun g1 => ih (.inl post) g1 code bt ct (off + esize c + 5 + sssize body) st
    (hA.left.right (by simp [csize_append, csize_comp, csize_compSs, csize, Ins.size] <;> omega)) (by bnd2)
  have hfb := (hA.right (off' := off + esize c + 5 + sssize body + ssize post)
    (by simp [csize_append, csize_comp, csize_compSs, csize_compS, csize, Ins.size] <;> omega)).fetch
  have hloop := fun g1 => ih (.inl (.for3 c body post)) g1 code bt ct off st hat hd
  -- after the body (normal end or `continue`): the post statement, the jump back, the loop again
  have hrest : ∀ g1, RunsB lim S cs code ⟨off, st, g⟩ ⟨off + esize c + 5 + sssize body, st, g1⟩ →
      Good lim S cs code ⟨off, st, g⟩ st (off + codeSize (.inl (.for3 c body post))) bt ct
        (match exec S cs f (.inl post) g1 with
          | .done g2 => exec S cs f (.inl (.for3 c body post)) g2
          | r => r) := by
    intro g1 hrun
    have hp1 := hp g1
    cases hep : exec S cs f (.inl post) g1 with
    | done g2 =>
      rw [hep] at hp1
      have hback := RunsB.step (lim := lim) (step_jmp S cs _ (st := st) (g := g2) hfb) (by bnd2)
      exact Good.pre ((hrun.trans hp1).trans hback) (hloop g2)
    | brk g2 => rw [hep] at hp1; exact hrun.trans hp1
    | cont g2 => rw [hep] at hp1; exact hrun.trans hp1
    | err => rw [hep] at hp1; exact hrun.fails hp1
    | out => trivial
  simp only [exec]
  cases hec : eval S cs g c with
  | none => exact hc2 hec
  | some a =>
    have hstep := RunsB.step (lim := lim) (step_jmpf S cs _ (st := st) (g := g) (a := a) hfj) (by bnd2)
    by_cases hfa : S.falsy a = true
    · simp only [hfa, if_true] at hstep ⊢
      exact ((hc1 a hec).trans hstep).to (by simp [codeSize, ssize, esz_eq]; omega)
    · simp only [hfa, Bool.false_eq_true, if_false] at hstep ⊢
      have hpre := (hc1 a hec).trans hstep
      cases heb : exec S cs f (.inr body) g with
      | done g1 => rw [heb] at hb; exact hrest g1 (hpre.trans hb)
      | cont g1 => rw [heb] at hb; exact hrest g1 (hpre.trans hb)
      | brk g1 =>
        rw [heb] at hb
        exact (hpre.trans hb).to (by simp [codeSize, ssize, esz_eq]; omega)
      | err => rw [heb] at hb; exact hpre.fails hb
      | out => trivial

/-- **F2 correctness** (every fuel, every statement or statement list, every placement, every pair of
`break` / `continue` targets): see `OkB`. -/
theorem all_okB (lim : Nat) (S : Sem V) (cs : Nat → V) : ∀ (f : Nat) (c : Code), OkB lim S cs f c := by
  intro f
  induction f with
  | zero => exact okB_zero lim S cs
  | succ f ih =>
    intro c
    cases c with
    | inl s =>
      cases s with
      | expr e => exact okB_expr lim S cs f e
      | assign i e => exact okB_assign lim S cs f i e
      | ifs c body => exact okB_ifs lim S cs f c body ih
      | ifelse c body els => exact okB_ifelse lim S cs f c body els ih
      | whil c body => exact okB_whil lim S cs f c body ih
      | forever body => exact okB_forever lim S cs f body ih
      | for3 c body post => exact okB_for3 lim S cs f c body post ih
      | brk => exact okB_brk lim S cs f
      | cont => exact okB_cont lim S cs f
    | inr ss =>
      cases ss with
      | nil => exact okB_nil lim S cs f
      | cons s ss => exact okB_cons lim S cs f s ss ih

end Tengo.Model.F2

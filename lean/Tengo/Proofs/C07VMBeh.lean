import Tengo.Proofs.C07VMRun
import Tengo.Proofs.Conc
/-!
Helper lemmas for `Props/C07VM` / `Props/C05VM`: the behaviour `behOf` of a VM configuration expressed through
`VM.run`, what `ReachesInstr` / `FinishesAt` / `Terminates` / `ReachesFatal` of the protocol model mean for
it, and runs that come back to their own configuration.
-/
namespace Tengo.Model.VMAbort
open Tengo.Model.VM Tengo.Model.Spec Tengo.Model.Conc

theorem stepOutOf_of_ne {o : VM.Outcome} (h : ∀ c, o ≠ .outOfFuel c) : stepOutOf o = .fin (classify o) := by
  cases o with
  | outOfFuel c => exact absurd rfl (h c)
  | _ => rfl

theorem stepOutOf_cont_iff {o : VM.Outcome} : stepOutOf o = .cont ↔ ∃ c, o = .outOfFuel c := by
  cases o <;> simp [stepOutOf]

theorem stepOutOf_fin {o : VM.Outcome} {oc : Conc.Outcome} (h : stepOutOf o = .fin oc) :
    (∀ c, o ≠ .outOfFuel c) ∧ classify o = oc := by
  cases o <;> simp_all [stepOutOf]

/-- `behOf` is read off `VM.run`: dispatch `i` continues iff the run is still going after `i + 1` dispatches,
and otherwise ends the run with the class of the outcome `VM.run` reports. -/
theorem behFrom_eq_run (code : Code) (keep : Nat) :
    ∀ (i : Nat) (allocs : Int) (cfg : Cfg) (log : Log),
      behFrom code i allocs cfg = stepOutOf (run code keep (i + 1) allocs cfg log).1 := by
  intro i
  induction i with
  | zero =>
    intro allocs cfg log
    rw [run_dispatch]
    unfold behFrom
    cases hd : dispatch code allocs cfg with
    | stop o => simp only; rw [stepOutOf_of_ne (dispatch_stop_ne hd)]
    | go cfg' allocs' counted => simp [stepOutOf]
  | succ i ih =>
    intro allocs cfg log
    rw [run_dispatch]
    conv => lhs; unfold behFrom
    cases hd : dispatch code allocs cfg with
    | stop o => simp only; rw [stepOutOf_of_ne (dispatch_stop_ne hd)]
    | go cfg' allocs' counted => exact ih _ _ _

theorem behOf_eq_run (code : Code) (keep : Nat) (allocs : Int) (cfg : Cfg) (log : Log) (i : Nat) :
    behOf code allocs cfg i = stepOutOf (run code keep (i + 1) allocs cfg log).1 :=
  behFrom_eq_run code keep i allocs cfg log

/-- Instruction `i` is reached iff the run is still going after `i` dispatches. -/
theorem reachesInstr_iff (code : Code) (keep : Nat) (allocs : Int) (cfg : Cfg) (log : Log) (i : Nat) :
    ReachesInstr (behOf code allocs cfg) i ↔ ∃ c, (run code keep i allocs cfg log).1 = .outOfFuel c := by
  constructor
  · intro h
    cases i with
    | zero => exact ⟨cfg, by simp⟩
    | succ i =>
      have := h i (Nat.lt_succ_self i)
      rw [behOf_eq_run code keep allocs cfg log] at this
      exact stepOutOf_cont_iff.mp this
  · intro ⟨c, hc⟩ j hj
    rw [behOf_eq_run code keep allocs cfg log]
    exact stepOutOf_cont_iff.mpr (run_going_le code keep (by omega) allocs cfg log c hc)

/-- Dispatch `i` ends the run with class `oc` iff the run is still going after `i` dispatches and ends at the
next one with an outcome of that class. -/
theorem finishesAt_iff (code : Code) (keep : Nat) (allocs : Int) (cfg : Cfg) (log : Log) (i : Nat)
    (oc : Conc.Outcome) :
    FinishesAt (behOf code allocs cfg) i oc ↔
      (∃ c, (run code keep i allocs cfg log).1 = .outOfFuel c) ∧
      (∀ c, (run code keep (i + 1) allocs cfg log).1 ≠ .outOfFuel c) ∧
      classify (run code keep (i + 1) allocs cfg log).1 = oc := by
  unfold FinishesAt
  rw [reachesInstr_iff code keep allocs cfg log, behOf_eq_run code keep allocs cfg log]
  constructor
  · intro ⟨h1, h2⟩
    exact ⟨h1, stepOutOf_fin h2⟩
  · intro ⟨h1, h2, h3⟩
    exact ⟨h1, by rw [stepOutOf_of_ne h2, h3]⟩

/-- A run that ends by itself ends at exactly one dispatch. -/
theorem run_ends_at (code : Code) (keep : Nat) (allocs : Int) (cfg : Cfg) (log : Log) :
    ∀ (fuel : Nat), (∀ c, (run code keep fuel allocs cfg log).1 ≠ .outOfFuel c) →
      ∃ i, i < fuel ∧ (∃ c, (run code keep i allocs cfg log).1 = .outOfFuel c) ∧
        run code keep (i + 1) allocs cfg log = run code keep fuel allocs cfg log := by
  intro fuel
  induction fuel with
  | zero => intro h; exact absurd (by simp) (h cfg)
  | succ fuel ih =>
    intro h
    by_cases hk : ∀ c, (run code keep fuel allocs cfg log).1 ≠ .outOfFuel c
    · obtain ⟨i, hi, hgo, heq⟩ := ih hk
      refine ⟨i, by omega, hgo, ?_⟩
      rw [heq, run_ended_ge code keep (Nat.le_succ fuel) allocs cfg log hk]
    · have hc : ∃ c, (run code keep fuel allocs cfg log).1 = .outOfFuel c := by
        apply Classical.byContradiction
        intro hn
        exact hk (fun c hc => hn ⟨c, hc⟩)
      exact ⟨fuel, Nat.lt_succ_self _, hc, rfl⟩

/-- A VM run that ends by itself with outcome `o` gives the protocol model a behaviour that finishes (at the
dispatch where the run ends) with the class of `o`. -/
theorem finishesAt_of_run (code : Code) (keep fuel : Nat) (allocs : Int) (cfg : Cfg) (log : Log)
    (h : ∀ c, (run code keep fuel allocs cfg log).1 ≠ .outOfFuel c) :
    ∃ i, i < fuel ∧ FinishesAt (behOf code allocs cfg) i (classify (run code keep fuel allocs cfg log).1) := by
  obtain ⟨i, hi, hgo, heq⟩ := run_ends_at code keep allocs cfg log fuel h
  refine ⟨i, hi, (finishesAt_iff code keep allocs cfg log i _).mpr ⟨hgo, ?_, ?_⟩⟩
  · rw [heq]; exact h
  · rw [heq]

theorem terminates_iff (code : Code) (keep : Nat) (allocs : Int) (cfg : Cfg) (log : Log) :
    Terminates (behOf code allocs cfg) ↔ ∃ fuel, ∀ c, (run code keep fuel allocs cfg log).1 ≠ .outOfFuel c := by
  constructor
  · intro ⟨i, oc, h⟩
    exact ⟨i + 1, ((finishesAt_iff code keep allocs cfg log i oc).mp h).2.1⟩
  · intro ⟨fuel, h⟩
    obtain ⟨i, _, hf⟩ := finishesAt_of_run code keep fuel allocs cfg log h
    exact ⟨i, _, hf⟩

theorem classify_fatal_iff {o : VM.Outcome} (hne : ∀ c, o ≠ .outOfFuel c) :
    classify o = .fatal ↔ ∃ at_, o = .failed .fuel at_ := by
  cases o with
  | halted c => simp [classify]
  | failed e c => cases e <;> simp [classify]
  | fault f c => cases f <;> simp [classify]
  | limit c => simp [classify]
  | outOfFuel c => exact absurd rfl (hne c)

/-- The only way the behaviour of a VM configuration reaches the protocol model's `fatal` class: a dispatch
in which the value model's bounded native recursion runs out (`Err.fuel`). -/
theorem reachesFatal_iff (code : Code) (keep : Nat) (allocs : Int) (cfg : Cfg) (log : Log) :
    ReachesFatal (behOf code allocs cfg) ↔ ∃ fuel at_, (run code keep fuel allocs cfg log).1 = .failed .fuel at_ := by
  constructor
  · intro ⟨i, h⟩
    obtain ⟨_, hne, hcl⟩ := (finishesAt_iff code keep allocs cfg log i .fatal).mp h
    obtain ⟨at_, hat⟩ := (classify_fatal_iff hne).mp hcl
    exact ⟨i + 1, at_, hat⟩
  · intro ⟨fuel, at_, h⟩
    have hne : ∀ c, (run code keep fuel allocs cfg log).1 ≠ .outOfFuel c := by rw [h]; simp
    obtain ⟨i, _, hf⟩ := finishesAt_of_run code keep fuel allocs cfg log hne
    refine ⟨i, ?_⟩
    have : classify (run code keep fuel allocs cfg log).1 = .fatal := by rw [h]; rfl
    rw [this] at hf
    exact hf

/-! ### runs that come back to their own configuration -/

/-- `cfgAt` and `run`: getting to the loop head after `p` dispatches, the rest of the run is the run from
there. -/
theorem run_add_cfgAt (code : Code) (keep : Nat) :
    ∀ (p j : Nat) (allocs : Int) (cfg : Cfg) (log : Log) (cfg' : Cfg) (allocs' : Int),
      cfgAt code p allocs cfg = some (cfg', allocs') →
      ∃ log', log'.steps = log.steps + p ∧
        run code keep (p + j) allocs cfg log = run code keep j allocs' cfg' log' := by
  intro p
  induction p with
  | zero =>
    intro j allocs cfg log cfg' allocs' h
    simp only [cfgAt, Option.some.injEq, Prod.mk.injEq] at h
    obtain ⟨rfl, rfl⟩ := h
    exact ⟨log, rfl, by simp⟩
  | succ p ih =>
    intro j allocs cfg log cfg' allocs' h
    have hk : p + 1 + j = (p + j) + 1 := by omega
    rw [hk, run_dispatch]
    unfold cfgAt at h
    cases hd : dispatch code allocs cfg with
    | stop o => rw [hd] at h; cases h
    | go cfg1 allocs1 counted =>
      rw [hd] at h
      obtain ⟨log', hs, heq⟩ := ih j allocs1 cfg1 (logAfter log keep cfg allocs counted) cfg' allocs' h
      refine ⟨log', ?_, heq⟩
      rw [hs, logAfter_steps]
      omega

/-- The run is still going at a loop head `cfgAt` gives. -/
theorem run_cfgAt_going (code : Code) (keep : Nat) (p : Nat) (allocs : Int) (cfg : Cfg) (log : Log) (cfg' : Cfg)
    (allocs' : Int) (h : cfgAt code p allocs cfg = some (cfg', allocs')) :
    (run code keep p allocs cfg log).1 = .outOfFuel cfg' := by
  obtain ⟨log', _, heq⟩ := run_add_cfgAt code keep p 0 allocs cfg log cfg' allocs' h
  rw [Nat.add_zero] at heq
  rw [heq]
  simp

/-- **A run that comes back to its own configuration (and allocation counter) after `p ≥ 1` dispatches never
ends**: for every fuel it is still going. -/
theorem cycle_never_ends (code : Code) (keep : Nat) (p : Nat) (hp : 0 < p) (allocs : Int) (cfg : Cfg)
    (hcyc : cfgAt code p allocs cfg = some (cfg, allocs)) :
    ∀ (fuel : Nat) (log : Log), ∃ c, (run code keep fuel allocs cfg log).1 = .outOfFuel c := by
  intro fuel
  induction fuel using Nat.strongRecOn with
  | _ fuel ih =>
    intro log
    rcases Nat.lt_or_ge fuel p with hlt | hge
    · exact run_going_le code keep (Nat.le_of_lt hlt) allocs cfg log cfg
        (run_cfgAt_going code keep p allocs cfg log cfg allocs hcyc)
    · obtain ⟨j, rfl⟩ := Nat.exists_eq_add_of_le hge
      obtain ⟨log', _, heq⟩ := run_add_cfgAt code keep p j allocs cfg log cfg allocs hcyc
      rw [heq]
      exact ih j (by omega) log'

end Tengo.Model.VMAbort

import Tengo.Proofs.C11PlaceBlkS
import Tengo.Proofs.C11PlaceMain
/-!
C11, PLACEMENT global ↦ local with declarations in nested blocks, layer 3: the two programs.

`progLB m n L B`:  `f = func() { x_0 := r_0; …; x_{m-1} := r_{m-1};  B;  r_0 = x_0; …; r_{m-1} = x_{m-1} };  f()`
— `B` any statement list of class `l2Ss n` (`:=` / `=` on the local slots `< n` at any nesting depth); the OUTER
variables are the slots `< m` (initialised from / written back to the globals), the slots `m … n-1` are declared
inside `B`. Global placement: `progG (globSs B)`.
-/
set_option linter.unusedVariables false
set_option linter.unusedSimpArgs false
namespace Tengo.Proofs.C11Place
open Tengo.Model Tengo.Model.F3
open Tengo.Model.F0 (Sem upd)
variable {V : Type} {E : Env V}

def fnBodyB (m : Nat) (B : Stms) : Stms := app (proFrom 0 m) (app B (epiFrom 0 m))

def fnDefB (m n : Nat) (B : Stms) : FnDef := { nparams := 0, nlocals := n, body := fnBodyB m B }

def progLB (m n L : Nat) (B : Stms) : Prog :=
  { fns := fun k => if k = L then some (fnDefB m n B) else none,
    main := .cons (.assign n (.lit L)) (.cons (.expr (.call (.glob n) .nil)) .nil) }

theorem exec_progLB (m n L : Nat) (B : Stms) (hfn : E.asFn (E.cs L) = some L) (F : Nat) (g : Nat → V) :
    exec E (progLB m n L B) (F + 5) g =
      tCall (execSs E (progLB m n L B) F (fnBodyB m B) (upd g n (E.cs L)) (fun _ => none)) := by
  have hgn : upd g n (E.cs L) n = E.cs L := by simp only [upd, if_true]
  have hfns : (progLB m n L B).fns L = some (fnDefB m n B) := by simp only [progLB, if_true]
  have hmain : (progLB m n L B).main = .cons (.assign n (.lit L)) (.cons (.expr (.call (.glob n) .nil)) .nil) := rfl
  simp only [exec, hmain, execSs, execS, evalE, evalEs, callFn, hgn, hfn, hfns, fnDefB, List.length_nil, ne_eq,
    not_true_eq_false, if_false, bindArgs_nil]
  cases execSs E (progLB m n L B) F (fnBodyB m B) (upd g n (E.cs L)) (fun _ => none) <;>
    simp only [tCall, ERes.toRes]

/-- The epilogue over locals that hold the values `g'` in the slots `< m`. -/
theorem run_epiB (P : Prog) (m : Nat) (gL g' : Nat → V) (l : Locals V) (hl : ∀ i, i < m → l i = some (g' i)) :
    ∀ (c j f : Nat), j + c ≤ m → c + 2 ≤ f →
    execSs E P f (epiFrom j c) (mkG j gL g') l = .done (mkG (j + c) gL g') l
  | 0, j, f, _, h => by
    obtain ⟨f', rfl⟩ : ∃ f', f = f' + 1 := ⟨f - 1, by omega⟩
    simp only [epiFrom, execSs, Nat.add_zero]
  | c + 1, j, f, hj, h => by
    obtain ⟨f', rfl⟩ : ∃ f', f = f' + 3 := ⟨f - 3, by omega⟩
    have hjn : j < m := by omega
    simp only [epiFrom, execSs, execS, evalE, hl j hjn, mkG_succ]
    rw [run_epiB P m gL g' l hl c (j + 1) (f' + 2) (by omega) (by omega)]
    have : j + 1 + c = j + (c + 1) := by omega
    rw [this]

theorem Rm_init {m n : Nat} {g gL : Nat → V} (hg : ∀ i, i < n → gL i = g i) :
    Rm m n g (mkL m gL (fun _ => none)) := by
  intro i hi
  by_cases him : i < m
  · left; simp only [mkL, him, if_true, hg i hi]
  · right; exact ⟨by omega, by simp only [mkL, him, if_false]⟩

theorem Rm_lt {m n : Nat} {g : Nat → V} {l : Locals V} (h : Rm m n g l) (hmn : m ≤ n) :
    ∀ i, i < m → l i = some (g i) := by
  intro i hi
  rcases h i (by omega) with h1 | ⟨h2, _⟩
  · exact h1
  · omega

/-- The function body of `progLB` in terms of the global placement's statements. -/
theorem fnBodyB_run (P PG : Prog) (m n : Nat) (B : Stms) (hc : l2Ss n B = true) (F : Nat) (hF : m + 2 ≤ F)
    (g gL : Nat → V) (hg : ∀ i, i < n → gL i = g i) (lG : Locals V) :
    execSs E P F (fnBodyB m B) gL (fun _ => none) = .bad ∨
    ∃ l', resOK m n l' (execSs E PG (F - m) (globSs B) g lG) ∧
      execSs E P F (fnBodyB m B) gL (fun _ => none) =
        match tS' gL l' (execSs E PG (F - m) (globSs B) g lG) with
        | .done g1 l1 => execSs E P (F - m - len B) (epiFrom 0 m) g1 l1
        | r => r := by
  unfold fnBodyB
  rw [execSs_app]
  have hp := run_pro (E := E) P m 0 F gL (fun _ => none) hF
  rw [mkL_zero, Nat.zero_add] at hp
  rw [hp, len_proFrom]
  simp only []
  rw [execSs_app]
  rcases (simR_all E m n PG P (F - m)).ss B g lG gL _ hc (Rm_init hg) with hb | ⟨l', hok, he⟩
  · left; rw [hb]
  · right; exact ⟨l', hok, by rw [he]; rfl⟩

/-- The moved program with fuel `F + 5`, `F ≥ m + 2`. -/
theorem progLB_at (m n L : Nat) (B : Stms) (hc : l2Ss n B = true) (hfn : E.asFn (E.cs L) = some L)
    (F : Nat) (hF : m + 2 ≤ F) (g : Nat → V) :
    exec E (progLB m n L B) (F + 5) g = .bad ∨
    ∃ l', resOK m n l' (execSs E (progG (globSs B)) (F - m) (globSs B) g (fun _ => none)) ∧
      exec E (progLB m n L B) (F + 5) g =
        tCall (match tS' (upd g n (E.cs L)) l'
            (execSs E (progG (globSs B)) (F - m) (globSs B) g (fun _ => none)) with
          | .done g1 l1 => execSs E (progLB m n L B) (F - m - len B) (epiFrom 0 m) g1 l1
          | r => r) := by
  rw [exec_progLB m n L B hfn F g]
  rcases fnBodyB_run (E := E) (progLB m n L B) (progG (globSs B)) m n B hc F hF g (upd g n (E.cs L))
      (fun i hi => by simp only [upd, Nat.ne_of_lt hi, if_false]) (fun _ => none) with hb | ⟨l', hok, he⟩
  · left; rw [hb]; rfl
  · right; refine ⟨l', hok, ?_⟩; rw [he]

/-- **Forward**: an answer of the global placement is the answer of the local one — unless the local one reads a
block variable before its definition (`bad`). -/
theorem placementB_forward (m n L : Nat) (B : Stms) (hmn : m ≤ n) (hc : l2Ss n B = true)
    (hfn : E.asFn (E.cs L) = some L) (f : Nat) (g : Nat → V) (r : PRes V)
    (hr : exec E (progG (globSs B)) f g = r) (hne : r ≠ .out) :
    ∃ F, exec E (progLB m n L B) F g = .bad ∨ exec E (progLB m n L B) F g = tP m (upd g n (E.cs L)) r := by
  refine ⟨f + m + len B + (m + 2) + 5, ?_⟩
  rcases progLB_at m n L B hc hfn (f + m + len B + (m + 2)) (by omega) g with hb | ⟨l', hok, he⟩
  · exact Or.inl hb
  right
  rw [he]
  have hfu : f + m + len B + (m + 2) - m = f + (len B + (m + 2)) := by omega
  have hfe : f + (len B + (m + 2)) - len B = f + (m + 2) := by omega
  rw [hfu] at hok ⊢
  rw [hfe]
  rw [exec_progG] at hr
  have hmono := fun r0 (h0 : execSs E (progG (globSs B)) f (globSs B) g (fun _ => none) = r0) (hn0 : r0 ≠ .out) =>
    execSs_mono E (progG (globSs B)) (Nat.le_add_right f (len B + (m + 2))) h0 hn0
  cases h0 : execSs E (progG (globSs B)) f (globSs B) g (fun _ => none) with
  | done g' lx =>
    rw [hmono _ h0 (by simp)] at hok ⊢
    rw [h0] at hr
    subst hr
    simp only [tS']
    have he := run_epiB (E := E) (progLB m n L B) m (upd g n (E.cs L)) g' l' (Rm_lt hok hmn) m 0 (f + (m + 2))
      (by omega) (by omega)
    rw [mkG_zero, Nat.zero_add] at he
    rw [he]
    simp only [tCall, tP]
  | brk g' lx => rw [hmono _ h0 (by simp)]; rw [h0] at hr; subst hr; simp only [tS', tCall, tP]
  | cont g' lx => rw [hmono _ h0 (by simp)]; rw [h0] at hr; subst hr; simp only [tS', tCall, tP]
  | ret v g' => rw [hmono _ h0 (by simp)]; rw [h0] at hr; subst hr; simp only [tS', tCall, tP]
  | err => rw [hmono _ h0 (by simp)]; rw [h0] at hr; subst hr; simp only [tS', tCall, tP]
  | bad => rw [hmono _ h0 (by simp)]; rw [h0] at hr; subst hr; simp only [tS', tCall, tP]
  | out => rw [h0] at hr; subst hr; exact absurd rfl hne

/-- **Progress**: if the local placement answers (not out of fuel, not `bad`), the global one answers. -/
theorem placementB_progress (m n L : Nat) (B : Stms) (hc : l2Ss n B = true) (hfn : E.asFn (E.cs L) = some L)
    (F : Nat) (g : Nat → V) (hne : exec E (progLB m n L B) F g ≠ .out) (hnb : exec E (progLB m n L B) F g ≠ .bad) :
    ∃ f, exec E (progG (globSs B)) f g ≠ .out := by
  refine ⟨F + (m + 2) - m, ?_⟩
  have h1 := exec_mono E (progLB m n L B) (show F ≤ F + (m + 2) + 5 by omega) rfl hne
  rcases progLB_at m n L B hc hfn (F + (m + 2)) (by omega) g with hb | ⟨l', hok, he⟩
  · rw [hb] at h1; exact absurd h1.symm hnb
  rw [he] at h1
  rw [exec_progG]
  intro ho
  cases h0 : execSs E (progG (globSs B)) (F + (m + 2) - m) (globSs B) g (fun _ => none) with
  | out =>
    rw [h0] at h1
    simp only [tS', tCall] at h1
    exact hne h1.symm
  | done g' lx => rw [h0] at ho; cases ho
  | brk g' lx => rw [h0] at ho; cases ho
  | cont g' lx => rw [h0] at ho; cases ho
  | ret v g' => rw [h0] at ho; cases ho
  | err => rw [h0] at ho; cases ho
  | bad => rw [h0] at ho; cases ho

/-- **Backward**: when the local placement is never `bad`, its answers are `tP` of answers of the global one. -/
theorem placementB_backward (m n L : Nat) (B : Stms) (hmn : m ≤ n) (hc : l2Ss n B = true)
    (hfn : E.asFn (E.cs L) = some L) (g : Nat → V) (hnb : ∀ F, exec E (progLB m n L B) F g ≠ .bad)
    (F : Nat) (r' : PRes V) (hr : exec E (progLB m n L B) F g = r') (hne : r' ≠ .out) :
    ∃ f r, exec E (progG (globSs B)) f g = r ∧ r ≠ .out ∧ r' = tP m (upd g n (E.cs L)) r := by
  obtain ⟨f, hf⟩ := placementB_progress m n L B hc hfn F g (by rw [hr]; exact hne) (hnb F)
  refine ⟨f, _, rfl, hf, ?_⟩
  obtain ⟨F', hF'⟩ := placementB_forward m n L B hmn hc hfn f g _ rfl hf
  rcases hF' with hb | hF'
  · exact absurd hb (hnb F')
  have hne' : tP m (upd g n (E.cs L)) (exec E (progG (globSs B)) f g) ≠ .out := by
    cases h : exec E (progG (globSs B)) f g with
    | out => exact absurd h hf
    | done g' => simp [tP]
    | err => simp [tP]
    | bad => simp [tP]
  have a := exec_mono E (progLB m n L B) (Nat.le_max_left F F') hr hne
  have b := exec_mono E (progLB m n L B) (Nat.le_max_right F F') hF' hne'
  rw [← a, b]

end Tengo.Proofs.C11Place

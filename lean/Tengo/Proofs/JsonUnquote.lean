import Tengo.Proofs.JsonString
import Tengo.Proofs.JsonGrammar
/-!
C18: `unquote` succeeds on every string token of the grammar (the `ok == false` returns of
`unquoteBytes`, which `literal()`/`object()` turn into phase panics, are unreachable after the scanner
accepted the token).
-/
namespace Tengo.Proofs.JsonUnquote
open Tengo.Model.Json Tengo.Proofs.JsonString Tengo.Proofs.JsonGrammar

theorem strBody_tail_high {h : UInt8} {x : Bytes} (hb : StrBody (h :: x)) (hh : 0x80 ≤ h.toNat) : StrBody x := by
  cases hb with
  | plain _ _ _ hx => exact hx
  | esc _ _ => simp at hh
  | uni _ _ _ _ _ => simp at hh

theorem strBody_tail_plain {c : UInt8} {x : Bytes} (hb : StrBody (c :: x)) (h5c : c ≠ 0x5C) : StrBody x := by
  cases hb with
  | plain _ _ _ hx => exact hx
  | esc _ _ => exact absurd rfl h5c
  | uni _ _ _ _ _ => exact absurd rfl h5c

theorem strBody_head {c : UInt8} {x : Bytes} (hb : StrBody (c :: x)) : ¬ c.toNat < 0x20 ∧ c ≠ 0x22 := by
  cases hb with
  | plain h1 h2 _ _ => exact ⟨h1, h2⟩
  | esc _ _ => exact ⟨by simp, by decide⟩
  | uni _ _ _ _ _ => exact ⟨by simp, by decide⟩

theorem isCont_high (b : UInt8) (h : isCont b = true) : 0x80 ≤ b.toNat := by
  simp [isCont] at h; omega

/-- How many bytes `utf8.DecodeRune` consumes, and that the bytes after the first are ≥ 0x80. -/
theorem decodeRune_shape (c : UInt8) (rest : Bytes) (hc : ¬ c.toNat < 0x80) :
    (decodeRune (c :: rest)).2 = 1 ∨
    (∃ b1 r, rest = b1 :: r ∧ (decodeRune (c :: rest)).2 = 2 ∧ 0x80 ≤ b1.toNat) ∨
    (∃ b1 b2 r, rest = b1 :: b2 :: r ∧ (decodeRune (c :: rest)).2 = 3 ∧ 0x80 ≤ b1.toNat ∧ 0x80 ≤ b2.toNat) ∨
    (∃ b1 b2 b3 r, rest = b1 :: b2 :: b3 :: r ∧ (decodeRune (c :: rest)).2 = 4 ∧ 0x80 ≤ b1.toNat ∧ 0x80 ≤ b2.toNat ∧
      0x80 ≤ b3.toNat) := by
  unfold decodeRune
  simp only [hc, if_false]
  by_cases h1 : c.toNat < 0xC2
  · simp [h1]
  simp only [h1, if_false]
  by_cases h2 : c.toNat < 0xE0
  · simp only [h2, if_true]
    cases rest with
    | nil => simp
    | cons b1 r =>
      by_cases hb : isCont b1 = true
      · right; left
        exact ⟨b1, r, rfl, by simp [hb], isCont_high b1 hb⟩
      · simp [hb]
  simp only [h2, if_false]
  by_cases h3 : c.toNat < 0xF0
  · simp only [h3, if_true]
    match rest with
    | [] => simp
    | [_] => simp
    | b1 :: b2 :: r =>
      simp only
      by_cases hcond : accept3 c.toNat b1 b2 = true
      · simp only [hcond, if_true]
        simp only [accept3, Bool.and_eq_true, decide_eq_true_eq] at hcond
        right; right; left
        refine ⟨b1, b2, r, rfl, trivial, ?_, isCont_high b2 hcond.2⟩
        have := hcond.1.1; split at this <;> omega
      · simp [hcond]
  simp only [h3, if_false]
  by_cases h4 : c.toNat < 0xF5
  · simp only [h4, if_true]
    match rest with
    | [] => simp
    | [_] => simp
    | [_, _] => simp
    | b1 :: b2 :: b3 :: r =>
      simp only
      by_cases hcond : accept4 c.toNat b1 b2 b3 = true
      · simp only [hcond, if_true]
        simp only [accept4, Bool.and_eq_true, decide_eq_true_eq] at hcond
        right; right; right
        refine ⟨b1, b2, b3, r, rfl, trivial, ?_, isCont_high b2 hcond.1.2, isCont_high b3 hcond.2⟩
        have := hcond.1.1.1; split at this <;> omega
      · simp [hcond]
  · simp [h4]

/-- `utf8.DecodeRune` consumes at least one byte, and what it skips of a string body leaves a string body. -/
theorem strBody_drop_rune (c : UInt8) (rest : Bytes) (hb : StrBody (c :: rest)) (hc : ¬ c.toNat < 0x80) :
    StrBody ((c :: rest).drop (decodeRune (c :: rest)).2) ∧ 1 ≤ (decodeRune (c :: rest)).2 := by
  have h1 : StrBody rest := strBody_tail_high hb (by omega)
  rcases decodeRune_shape c rest hc with h | ⟨b1, r, rfl, h, g1⟩ | ⟨b1, b2, r, rfl, h, g1, g2⟩ | ⟨b1, b2, b3, r, rfl, h, g1, g2, g3⟩
  · rw [h]; exact ⟨by simpa using h1, by simp⟩
  · rw [h]; exact ⟨by simpa using strBody_tail_high h1 g1, by simp⟩
  · rw [h]; exact ⟨by simpa using strBody_tail_high (strBody_tail_high h1 g1) g2, by simp⟩
  · rw [h]; exact ⟨by simpa using strBody_tail_high (strBody_tail_high (strBody_tail_high h1 g1) g2) g3, by simp⟩

theorem hexVal_isSome (c : UInt8) (h : isHex c = true) : ∃ n, hexVal c = some n := by
  have : (hexVal c).isSome = true := by
    simp only [isHex, Bool.or_eq_true, Bool.and_eq_true, decide_eq_true_eq] at h
    unfold hexVal
    (repeat' split) <;> first | rfl | (simp_all; omega)
  exact Option.isSome_iff_exists.mp this

theorem getu4_some {a b c d : UInt8} (ha : isHex a = true) (hb : isHex b = true) (hc : isHex c = true) (hd : isHex d = true)
    (x : Bytes) : ∃ r, getu4 (0x5C :: 0x75 :: a :: b :: c :: d :: x) = some r := by
  obtain ⟨na, ha'⟩ := hexVal_isSome a ha
  obtain ⟨nb, hb'⟩ := hexVal_isSome b hb
  obtain ⟨nc, hc'⟩ := hexVal_isSome c hc
  obtain ⟨nd, hd'⟩ := hexVal_isSome d hd
  exact ⟨((na * 16 + nb) * 16 + nc) * 16 + nd, by simp [getu4, ha', hb', hc', hd']⟩

/-- If `getu4` succeeds on a string body, the body starts with a `\\uXXXX` escape. -/
theorem getu4_strBody {x : Bytes} (hb : StrBody x) {r : Nat} (h : getu4 x = some r) :
    ∃ x', StrBody x' ∧ x.drop 6 = x' ∧ x'.length + 6 = x.length := by
  unfold getu4 at h
  split at h
  · rename_i a b c d x'
    refine ⟨x', ?_, rfl, by simp⟩
    cases hb with
    | plain _ _ h5c _ => exact absurd rfl h5c
    | esc he _ => exact absurd he (by decide)
    | uni _ _ _ _ hx => exact hx
  · exact absurd h (by simp)

/-- The second loop of `unquoteBytes` never fails on a string body of the grammar. -/
theorem unqLoop_total : ∀ (f : Nat) (x : Bytes), StrBody x → x.length ≤ f → (unqLoop f x).isSome = true := by
  intro f
  induction f using Nat.strongRecOn with
  | _ f ih =>
    intro x hb hlen
    match x, hb, hlen with
    | [], _, _ => simp [unqLoop_nil]
    | c :: rest, hb, hlen =>
      obtain ⟨f', rfl⟩ : ∃ f', f = f' + 1 := ⟨f - 1, by simp at hlen; omega⟩
      have hlen' : rest.length ≤ f' := by simpa using hlen
      obtain ⟨h20, h22⟩ := strBody_head hb
      by_cases h5c : c = 0x5C
      · subst h5c
        cases hb with
        | plain _ _ h _ => exact absurd rfl h
        | @esc e b' he hb' =>
          have hrec := ih f' (by omega) b' hb' (by simp at hlen'; omega)
          obtain ⟨s, hs⟩ := Option.isSome_iff_exists.mp hrec
          simp only [isSimpleEsc, Bool.or_eq_true, decide_eq_true_eq] at he
          rcases he with ((((((rfl | rfl) | rfl) | rfl) | rfl) | rfl) | rfl) | rfl <;> simp [unqLoop, hs]
        | @uni a1 a2 a3 a4 b' g1 g2 g3 g4 hb' =>
          obtain ⟨rr, hrr⟩ := getu4_some g1 g2 g3 g4 b'
          have hl : b'.length ≤ f' := by simp at hlen'; omega
          have hrec := ih f' (by omega) b' hb' hl
          obtain ⟨s, hs⟩ := Option.isSome_iff_exists.mp hrec
          simp only [unqLoop, hrr]
          simp only [List.drop_succ_cons, List.drop_zero]
          have e1 : ¬ ((0x75 : UInt8) = 0x22 ∨ (0x75 : UInt8) = 0x5C ∨ (0x75 : UInt8) = 0x2F ∨ (0x75 : UInt8) = 0x27) := by decide
          simp only [if_true, Bool.or_eq_true, decide_eq_true_eq]
          simp only [show ¬ ((((0x75 : UInt8) = 0x22 ∨ (0x75 : UInt8) = 0x5C) ∨ (0x75 : UInt8) = 0x2F) ∨ (0x75 : UInt8) = 0x27) by decide,
            show ¬ ((0x75 : UInt8) = 0x62) by decide, show ¬ ((0x75 : UInt8) = 0x66) by decide,
            show ¬ ((0x75 : UInt8) = 0x6E) by decide, show ¬ ((0x75 : UInt8) = 0x72) by decide,
            show ¬ ((0x75 : UInt8) = 0x74) by decide, if_false]
          split
          · split
            · rename_i hdec
              -- a valid pair: the low half is a `\u` escape of the body
              cases hg : getu4 b' with
              | none => rw [hg] at hdec; simp [utf16Decode] at hdec
              | some r2 =>
                obtain ⟨x', hx', hd6, hl6⟩ := getu4_strBody hb' hg
                rw [hd6]
                have := ih f' (by omega) x' hx' (by omega)
                obtain ⟨s', hs'⟩ := Option.isSome_iff_exists.mp this
                simp [hs']
            · simp [hs]
          · simp [hs]
      · have hrest : StrBody rest := strBody_tail_plain hb h5c
        have hnot : ¬ (c = 0x22 ∨ c.toNat < 0x20) := by
          intro h; rcases h with h | h
          · exact h22 h
          · exact h20 h
        by_cases h80 : c.toNat < 0x80
        · have hrec := ih f' (by omega) rest hrest hlen'
          obtain ⟨s, hs⟩ := Option.isSome_iff_exists.mp hrec
          simp [unqLoop, h5c, h22, h20, h80, hs]
        · obtain ⟨hd, h1⟩ := strBody_drop_rune c rest hb h80
          have hl : ((c :: rest).drop (decodeRune (c :: rest)).2).length ≤ f' := by
            simp only [List.length_drop, List.length_cons]; omega
          have hrec := ih f' (by omega) _ hd hl
          obtain ⟨s, hs⟩ := Option.isSome_iff_exists.mp hrec
          simp [unqLoop, h5c, h22, h20, h80, hs]

/-- What the first loop of `unquoteBytes` skips leaves a string body. -/
theorem strBody_drop_fastLen : ∀ (f : Nat) (x : Bytes), StrBody x → StrBody (x.drop (fastLen f x)) := by
  intro f
  induction f with
  | zero => intro x hb; simpa [fastLen] using hb
  | succ f ih =>
    intro x hb
    match x, hb with
    | [], hb => simpa [fastLen] using hb
    | c :: rest, hb =>
      simp only [fastLen]
      split
      · simpa using hb
      · rename_i hsp
        have h5c : c ≠ 0x5C := by
          intro e; subst e; simp [isSpecial] at hsp
        have hrest : StrBody rest := strBody_tail_plain hb h5c
        split
        · have := ih rest hrest
          rw [Nat.add_comm]
          simpa using this
        · rename_i h80
          obtain ⟨hd, _⟩ := strBody_drop_rune c rest hb h80
          split
          · simpa using hb
          · have := ih _ hd
            rw [List.drop_drop] at this
            first | exact this | (rw [Nat.add_comm]; exact this)

/-- **`unquote` is total on string tokens of the grammar.** -/
theorem unquote_total (b : Bytes) (hb : StrBody b) : (unquote (quote b)).isSome = true := by
  show (unquoteBytes (0x22 :: b ++ [0x22])).isSome = true
  rw [unquoteBytes_quoted]
  split
  · rfl
  · have h1 := strBody_drop_fastLen b.length b hb
    have h2 := unqLoop_total b.length _ h1 (by simp)
    obtain ⟨s, hs⟩ := Option.isSome_iff_exists.mp h2
    simp [hs]

end Tengo.Proofs.JsonUnquote

import Tengo.Model.VerifyProg
import Tengo.Proofs.C02CompileInv
import Tengo.Proofs.VMSafeCtx
set_option linter.unusedVariables false
set_option linter.unusedSimpArgs false
namespace Tengo.Proofs.C02Compile
open Tengo.Model Tengo.Model.Opcodes Tengo.Model.Verifier Tengo.Model.VM

/-- what `operandOk` asks, by opcode class -/
def classReq (env : Verifier.Env) (cls : OpClass) (a0 : Nat) : Prop :=
  match cls with
  | .const => a0 < env.constIsFn.length
  | .closure => env.constIsFn.getD a0 false = true
  | .loc => a0 < env.numLocals
  | .selLoc => a0 < env.numLocals
  | .free => a0 < env.numFree
  | .selFree => a0 < env.numFree
  | .builtin => a0 < env.numBuiltins
  | .glob => a0 < env.globalsSize
  | .selGlob => a0 < env.globalsSize
  | .map => a0 % 2 = 0
  | _ => True

/-- what `extraOk` asks besides the tail-call shape, by opcode class -/
def extraReq (code : VM.Code) (t : ProgTabs) (idx : Nat) (H : Nat → Nat) (cls : OpClass) (i : Instr) : Prop :=
  match cls with
  | .closure => t.numFree.lookup (arg0 i) = some (arg1 i)
  | .const => ∀ f r, code.consts[arg0 i]? = some (VM.Const.fn f r) → t.numFree.lookup (arg0 i) = some 0
  | .call => arg1 i = 1 → 1 ≤ arg0 i
  | .ret => idx ≠ 0
  | .susp => idx = 0 ∧ H i.pos = 0
  | _ => True

/-! ### the height table of a height function -/

theorem lookup_hm (H : Nat → Nat) (p : Nat) : ∀ (is : List Instr), (∃ j ∈ is, j.pos = p) →
    HMap.get (is.map (fun i => (i.pos, H i.pos))) p = some (H p) := by
  intro is
  induction is with
  | nil => rintro ⟨j, hj, _⟩; cases hj
  | cons a tl ih =>
    rintro ⟨j, hj, hp⟩
    unfold HMap.get at ih ⊢
    by_cases e : p = a.pos
    · subst e; simp [List.lookup_cons]
    · have hb : (p == a.pos) = false := by simpa using e
      rcases List.mem_cons.mp hj with rfl | hj
      · exact absurd hp.symm e
      · simp only [List.map_cons, List.lookup_cons, hb]
        exact ih ⟨j, hj, hp⟩

theorem instrAt_isSome {is : List Instr} {p : Nat} (h : ∃ j ∈ is, j.pos = p) : (instrAt is p).isSome = true := by
  obtain ⟨j, hj, hp⟩ := h
  unfold instrAt
  rw [List.find?_isSome]
  exact ⟨j, hj, by simpa using hp⟩

/-! ### `checkAll` -/

theorem checkAll_intro (is : List Instr) (H : Nat → Nat) (limit : Nat) (hcl : Closed H is)
    (hlim : ∀ i ∈ is, H i.pos ≤ limit) :
    checkAll is (is.map (fun i => (i.pos, H i.pos))) limit = true := by
  unfold checkAll
  rw [List.all_eq_true]
  intro i hi
  unfold checkInstr
  rw [lookup_hm H i.pos is ⟨i, hi, rfl⟩]
  obtain ⟨l, hl, hq⟩ := hcl i hi
  simp only [hl, Bool.and_eq_true, decide_eq_true_eq]
  refine ⟨hlim i hi, ?_⟩
  rw [List.all_eq_true]
  intro q hqm
  obtain ⟨⟨j, hj, hjp⟩, hH⟩ := hq q hqm
  obtain ⟨p', h'⟩ := q
  simp only at hjp hH ⊢
  rw [instrAt_isSome ⟨j, hj, hjp⟩, lookup_hm H p' is ⟨j, hj, hjp⟩, hH]
  simp

/-! ### `operandsOk` -/

theorem lt42_cases {op : Nat} (h : op < 42) :
    op = 0 ∨ op = 1 ∨ op = 2 ∨ op = 3 ∨ op = 4 ∨ op = 5 ∨ op = 6 ∨ op = 7 ∨ op = 8 ∨ op = 9 ∨
    op = 10 ∨ op = 11 ∨ op = 12 ∨ op = 13 ∨ op = 14 ∨ op = 15 ∨ op = 16 ∨ op = 17 ∨ op = 18 ∨ op = 19 ∨
    op = 20 ∨ op = 21 ∨ op = 22 ∨ op = 23 ∨ op = 24 ∨ op = 25 ∨ op = 26 ∨ op = 27 ∨ op = 28 ∨ op = 29 ∨
    op = 30 ∨ op = 31 ∨ op = 32 ∨ op = 33 ∨ op = 34 ∨ op = 35 ∨ op = 36 ∨ op = 37 ∨ op = 38 ∨ op = 39 ∨
    op = 40 ∨ op = 41 := by omega

theorem operandOk_iff (env : Verifier.Env) (pos op : Nat) (args : List Nat) (h : op < 42) :
    operandOk env ⟨pos, op, args⟩ = none ↔ classReq env (opClass op) (arg0 ⟨pos, op, args⟩) := by
  rcases lt42_cases h with h | h | h | h | h | h | h | h | h | h | h | h | h | h | h | h | h | h | h | h | h |
    h | h | h | h | h | h | h | h | h | h | h | h | h | h | h | h | h | h | h | h | h <;> subst h <;>
    simp [operandOk, opClass, classReq, arg0, opc]

theorem operandsOk_intro (env : Verifier.Env) (is : List Instr) (h42 : ∀ i ∈ is, i.op < 42)
    (hop : ∀ i ∈ is, classReq env (opClass i.op) (arg0 i)) : operandsOk env is = .ok () := by
  unfold operandsOk
  have : is.findSome? (fun i => (operandOk env i).map (fun w => VErr.badOperand i.pos w)) = none := by
    rw [List.findSome?_eq_none_iff]
    intro i hi
    have h1 := hop i hi
    have h2 := h42 i hi
    obtain ⟨pos, op, args⟩ := i
    rw [(operandOk_iff env pos op args h2).mpr h1]
    rfl
  rw [this]

/-! ### `extraOk` -/

theorem tail_cond (n1 n2 h a : Nat) (hh : n1 = opReturn ∨ n1 = opPop → h = a) :
    (if (n1 == opReturn || (n1 == opPop && n2 == opReturn)) = true then h == a else true) = true := by
  split
  · rename_i hc
    simp only [Bool.or_eq_true, Bool.and_eq_true, beq_iff_eq] at hc
    have : h = a := hh (hc.elim Or.inl (fun x => Or.inr x.1))
    simp [this]
  · rfl

theorem spread_cond (a0 a1 : Nat) (h : a1 = 1 → 1 ≤ a0) : (a1 != 1 || decide (a0 ≥ 1)) = true := by
  by_cases ha : a1 = 1
  · have := h ha
    simp [ha, this]
  · simp [ha]

theorem op_facts : opConstant ≠ opClosure ∧ opCall ≠ opClosure ∧ opCall ≠ opConstant ∧
    opReturn ≠ opClosure ∧ opReturn ≠ opConstant ∧ opReturn ≠ opCall ∧
    opSuspend ≠ opClosure ∧ opSuspend ≠ opConstant ∧ opSuspend ≠ opCall ∧ opSuspend ≠ opReturn := by decide

theorem extraOk_intro (code : VM.Code) (t : ProgTabs) (idx : Nat) (bs : Bytes) (hm : HMap) (H : Nat → Nat)
    (i : Instr) (hr : hm.get i.pos = some (H i.pos))
    (hex : extraReq code t idx H (opClass i.op) i)
    (htail : i.op = opCall → ((bs.getD (i.pos + 3) 0).toNat = opReturn ∨ (bs.getD (i.pos + 3) 0).toNat = opPop) →
      H i.pos = arg0 i + 1) :
    extraOk code t idx bs hm i = true := by
  obtain ⟨f1, f2, f3, f4, f5, f6, f7, f8, f9, f10⟩ := op_facts
  unfold extraOk
  simp only [hr]
  by_cases h1 : i.op = opClosure
  · have hc : opClass i.op = .closure := by rw [h1]; rfl
    rw [hc] at hex
    simp only [extraReq, arg0, arg1] at hex
    simp only [h1, beq_self_eq_true, if_true, hex]
  · by_cases h2 : i.op = opConstant
    · have hc : opClass i.op = .const := by rw [h2]; rfl
      rw [hc] at hex
      simp only [extraReq, arg0] at hex
      have e1 : (opConstant == opClosure) = false := by simpa using f1
      simp only [h2, e1, beq_self_eq_true, if_true, Bool.false_eq_true, if_false]
      split
      · rename_i f r hf
        rw [hex f r hf]; simp
      · rfl
    · by_cases h3 : i.op = opCall
      · have hc : opClass i.op = .call := by rw [h3]; rfl
        rw [hc] at hex
        simp only [extraReq, arg0, arg1] at hex
        have e1 : (opCall == opClosure) = false := by simpa using f2
        have e2 : (opCall == opConstant) = false := by simpa using f3
        have ht := htail h3
        simp only [arg0] at ht
        simp only [h3, e1, e2, beq_self_eq_true, if_true, Bool.false_eq_true, if_false, Bool.and_eq_true]
        exact ⟨spread_cond _ _ hex, tail_cond _ _ _ _ ht⟩
      · by_cases h4 : i.op = opReturn
        · have hc : opClass i.op = .ret := by rw [h4]; rfl
          rw [hc] at hex
          simp only [extraReq] at hex
          have e1 : (opReturn == opClosure) = false := by simpa using f4
          have e2 : (opReturn == opConstant) = false := by simpa using f5
          have e3 : (opReturn == opCall) = false := by simpa using f6
          simp only [h4, e1, e2, e3, beq_self_eq_true, if_true, Bool.false_eq_true, if_false]
          simp [hex]
        · by_cases h5 : i.op = opSuspend
          · have hc : opClass i.op = .susp := by rw [h5]; rfl
            rw [hc] at hex
            simp only [extraReq] at hex
            have e1 : (opSuspend == opClosure) = false := by simpa using f7
            have e2 : (opSuspend == opConstant) = false := by simpa using f8
            have e3 : (opSuspend == opCall) = false := by simpa using f9
            have e4 : (opSuspend == opReturn) = false := by simpa using f10
            simp only [h5, e1, e2, e3, e4, beq_self_eq_true, if_true, Bool.false_eq_true, if_false]
            simp [hex.1, hex.2]
          · have e1 : (i.op == opClosure) = false := by simpa using h1
            have e2 : (i.op == opConstant) = false := by simpa using h2
            have e3 : (i.op == opCall) = false := by simpa using h3
            have e4 : (i.op == opReturn) = false := by simpa using h4
            have e5 : (i.op == opSuspend) = false := by simpa using h5
            simp only [e1, e2, e3, e4, e5, Bool.false_eq_true, if_false]

/-! ### the opcode byte of a decoded instruction -/

theorem opbyte_at {bs : Bytes} {is : List Instr} (hdec : decode bs = some is) {y : Instr} (hy : y ∈ is) :
    (bs.getD y.pos 0).toNat = y.op := by
  obtain ⟨ws, _, _, hop, _⟩ := decode_mem bs is hdec y hy
  rw [List.getD_eq_getElem?_getD]
  cases hb : bs[y.pos]? with
  | none => rw [hb] at hop; simp at hop
  | some b =>
    rw [hb] at hop
    simp only [Option.map_some, Option.some.injEq] at hop
    simpa using hop

theorem call_size {x : Instr} (h : x.op = opCall) : x.size = 3 := by
  obtain ⟨pos, op, args⟩ := x
  simp only at h; subst h; rfl

/-- A function whose decoded instructions are `Closed` for a height function `H` (every abstract
successor is an instruction start with the height `H` says), with operands in range, passes `checkFn`
with the height table `is.map (fun i => (i.pos, H i.pos))`. -/
theorem checkFn_intro (code : VM.Code) (t : ProgTabs) (G idx : Nat) (f : Fn) (is : List Instr) (H : Nat → Nat)
    (hfn : code.fn idx = some f) (hdec : decode f.insts.toList = some is)
    (hcl : Closed H is) (h0 : H 0 = 0) (hfirst : ∃ i ∈ is, i.pos = 0)
    (hlim : ∀ i ∈ is, H i.pos ≤ heightLimit)
    (hop : ∀ i ∈ is, classReq (VM.envOf code t G idx f) (opClass i.op) (arg0 i))
    (hex : ∀ i ∈ is, extraReq code t idx H (opClass i.op) i)
    (htc : ∀ x ∈ is, ∀ y ∈ is, y.pos = x.pos + x.size → x.op = opCall → isPR y → H x.pos = callArity x)
    (hnext : ∀ x ∈ is, x.op = opCall → ∃ y ∈ is, y.pos = x.pos + x.size) :
    checkFn code t G { idx := idx, is := is, hm := is.map (fun i => (i.pos, H i.pos)) } = true := by
  have h42 : ∀ i ∈ is, i.op < 42 := by
    intro i hi
    obtain ⟨ws, hw, _⟩ := decode_mem _ _ hdec i hi
    exact widths_some_lt _ _ hw
  have hall := checkAll_intro is H heightLimit hcl hlim
  have hops := operandsOk_intro (VM.envOf code t G idx f) is h42 hop
  have h00 : HMap.get (is.map (fun i => (i.pos, H i.pos))) 0 = some 0 := by
    rw [lookup_hm H 0 is hfirst, h0]
  have hi0 := instrAt_isSome hfirst
  have hext : is.all (extraOk code t idx f.insts.toList (is.map (fun i => (i.pos, H i.pos)))) = true := by
    rw [List.all_eq_true]
    intro i hi
    refine extraOk_intro code t idx _ _ H i (lookup_hm H i.pos is ⟨i, hi, rfl⟩) (hex i hi) ?_
    intro hc hn
    obtain ⟨y, hy, hyp⟩ := hnext i hi hc
    rw [call_size hc] at hyp
    have hb := opbyte_at hdec hy
    rw [hyp] at hb
    rw [hb] at hn
    have := htc i hi y hy (by rw [call_size hc]; exact hyp) hc (hn.elim Or.inr Or.inl)
    exact this
  unfold checkFn
  simp only [hfn, hdec, hops, hall, h00, hi0, hext, beq_self_eq_true, Bool.and_self]

end Tengo.Proofs.C02Compile

import Tengo.Proofs.C11PlaceRun
/-!
C11, PLACEMENT global ↦ local with DECLARATIONS IN NESTED BLOCKS (`x := e` inside `if` / loop bodies), layer 1.

The program is given with its variables resolved to slots `0 … n-1` (one slot per declared variable: the slots
`< m` are the OUTER variables, the slots `m … n-1` are variables declared by `:=` somewhere inside, possibly in
nested blocks, possibly shadowing an outer name — shadowing is resolved by the slot) as the LOCAL-side statement
list `B` (class `l2Ss n`: `loc i`, `defl i e` = `x := e`, `setl i e` = `x = e`, at ANY nesting depth).
`globSs B` is the global placement: every variable is the global slot of the same number (a `:=` in a block at the
top level of main defines a global: `SETG`, exactly like `=`).

* `Rm m n g l`: a local slot holds the global's value, or (block variables only) is not yet defined.
* `simR_E`: an expression of the moved program is `bad` (a variable read before its definition) or has the result
  of the original.
-/
set_option linter.unusedVariables false
set_option linter.unusedSimpArgs false
namespace Tengo.Proofs.C11Place
open Tengo.Model Tengo.Model.F3
open Tengo.Model.F0 (Sem upd)
variable {V : Type}

def l2E (n : Nat) : Ex → Bool
  | .lit _ => true | .tru => true | .fls => true | .undef => true
  | .loc i => decide (i < n)
  | .glob _ => false
  | .bin _ l r => l2E n l && l2E n r
  | .eq l r => l2E n l && l2E n r
  | .ne l r => l2E n l && l2E n r
  | .land l r => l2E n l && l2E n r
  | .lor l r => l2E n l && l2E n r
  | .neg e => l2E n e | .bnot e => l2E n e | .lnot e => l2E n e | .plus e => l2E n e
  | .cond c t f => l2E n c && l2E n t && l2E n f
  | .call _ _ => false

mutual
  def l2S (n : Nat) : Stm → Bool
    | .expr e => l2E n e
    | .assign _ _ => false
    | .defl i e => decide (i < n) && l2E n e
    | .setl i e => decide (i < n) && l2E n e
    | .ifs c b => l2E n c && l2Ss n b
    | .ifelse c b e => l2E n c && l2Ss n b && l2Ss n e
    | .whil c b => l2E n c && l2Ss n b
    | .forever b => l2Ss n b
    | .for3 c b p => l2E n c && l2Ss n b && l2S n p
    | .brk => true
    | .cont => true
    | .ret _ => false
    | .ret0 => false
  def l2Ss (n : Nat) : Stms → Bool
    | .nil => true
    | .cons s ss => l2S n s && l2Ss n ss
end

/-- The global placement of an expression: local slot `i` ↦ global slot `i`. -/
def globE : Ex → Ex
  | .loc i => .glob i
  | .bin t l r => .bin t (globE l) (globE r)
  | .eq l r => .eq (globE l) (globE r)
  | .ne l r => .ne (globE l) (globE r)
  | .land l r => .land (globE l) (globE r)
  | .lor l r => .lor (globE l) (globE r)
  | .neg e => .neg (globE e) | .bnot e => .bnot (globE e) | .lnot e => .lnot (globE e) | .plus e => .plus (globE e)
  | .cond c t f => .cond (globE c) (globE t) (globE f)
  | e => e

mutual
  /-- The global placement of a statement: `x := e` and `x = e` both become the write of the global slot. -/
  def globS : Stm → Stm
    | .expr e => .expr (globE e)
    | .defl i e => .assign i (globE e)
    | .setl i e => .assign i (globE e)
    | .ifs c b => .ifs (globE c) (globSs b)
    | .ifelse c b e => .ifelse (globE c) (globSs b) (globSs e)
    | .whil c b => .whil (globE c) (globSs b)
    | .forever b => .forever (globSs b)
    | .for3 c b p => .for3 (globE c) (globSs b) (globS p)
    | .assign i e => .assign i e
    | .brk => .brk
    | .cont => .cont
    | .ret e => .ret e
    | .ret0 => .ret0
  def globSs : Stms → Stms
    | .nil => .nil
    | .cons s ss => .cons (globS s) (globSs ss)
end

theorem g2E_glob (n : Nat) : ∀ e : Ex, l2E n e = true → g2E n (globE e) = true
  | .lit _, _ => rfl | .tru, _ => rfl | .fls, _ => rfl | .undef, _ => rfl
  | .loc i, h => by simpa only [l2E, globE, g2E] using h
  | .glob _, h => by simp only [l2E] at h; cases h
  | .call _ _, h => by simp only [l2E] at h; cases h
  | .bin _ l r, h => by
    simp only [l2E, Bool.and_eq_true] at h
    simp only [globE, g2E, g2E_glob n l h.1, g2E_glob n r h.2, Bool.and_self]
  | .eq l r, h => by
    simp only [l2E, Bool.and_eq_true] at h
    simp only [globE, g2E, g2E_glob n l h.1, g2E_glob n r h.2, Bool.and_self]
  | .ne l r, h => by
    simp only [l2E, Bool.and_eq_true] at h
    simp only [globE, g2E, g2E_glob n l h.1, g2E_glob n r h.2, Bool.and_self]
  | .land l r, h => by
    simp only [l2E, Bool.and_eq_true] at h
    simp only [globE, g2E, g2E_glob n l h.1, g2E_glob n r h.2, Bool.and_self]
  | .lor l r, h => by
    simp only [l2E, Bool.and_eq_true] at h
    simp only [globE, g2E, g2E_glob n l h.1, g2E_glob n r h.2, Bool.and_self]
  | .neg e, h => by simp only [l2E] at h; simp only [globE, g2E, g2E_glob n e h]
  | .bnot e, h => by simp only [l2E] at h; simp only [globE, g2E, g2E_glob n e h]
  | .lnot e, h => by simp only [l2E] at h; simp only [globE, g2E, g2E_glob n e h]
  | .plus e, h => by simp only [l2E] at h; simp only [globE, g2E, g2E_glob n e h]
  | .cond c t f, h => by
    simp only [l2E, Bool.and_eq_true] at h
    simp only [globE, g2E, g2E_glob n c h.1.1, g2E_glob n t h.1.2, g2E_glob n f h.2, Bool.and_self]

/-- Local slot `i < n` holds the value of global `i`, or — block variables `i ≥ m` only — is not defined yet. -/
def Rm (m n : Nat) (g : Nat → V) (l : Locals V) : Prop :=
  ∀ i, i < n → l i = some (g i) ∨ (m ≤ i ∧ l i = none)

theorem Rm.upd {m n : Nat} {g : Nat → V} {l : Locals V} (h : Rm m n g l) (i : Nat) (v : V) :
    Rm m n (upd g i v) (updL l i v) := by
  intro j hj
  simp only [F0.upd, updL]
  by_cases hji : j = i
  · simp only [hji, if_true]; exact Or.inl trivial
  · simp only [hji, if_false]; exact h j hj

section
variable {E : Env V} {m n : Nat}

/-- **Expressions**: `bad` (read before definition), or the result of the original. -/
theorem simR_E (P P' : Prog) : ∀ (f : Nat) (e : Ex) (g : Nat → V) (lG : Locals V) (gL : Nat → V) (l : Locals V),
    l2E n e = true → Rm m n g l →
    evalE E P' f e gL l = .bad ∨ evalE E P' f e gL l = tE gL (evalE E P f (globE e) g lG) := by
  intro f
  induction f with
  | zero => intro e g lG gL l _ _; right; simp only [evalE, tE]
  | succ f ih =>
    intro e g lG gL l hc hR
    have b1 : ∀ (a : Ex) (k k' : V → (Nat → V) → ERes V), l2E n a = true →
        (∀ x, k' x gL = .bad ∨ k' x gL = tE gL (k x g)) →
        (match evalE E P' f a gL l with
          | .val x ga => k' x ga
          | r => r) = .bad ∨
        (match evalE E P' f a gL l with
          | .val x ga => k' x ga
          | r => r) =
        tE gL (match evalE E P f (globE a) g lG with
          | .val x ga => k x ga
          | r => r) := by
      intro a k k' hca hk
      rcases ih a g lG gL l hca hR with hb | he
      · left; simp only [hb]
      · rw [he]
        rcases evalE_cases (E := E) P f (globE a) g lG (g2E_glob n a hca) with ⟨x, hx⟩ | hx | hx | hx
        · simp only [hx, tE]; exact hk x
        · right; simp only [hx, tE]
        · right; simp only [hx, tE]
        · right; simp only [hx, tE]
    cases e with
    | lit k => right; simp only [globE, evalE, tE]
    | tru => right; simp only [globE, evalE, tE]
    | fls => right; simp only [globE, evalE, tE]
    | undef => right; simp only [globE, evalE, tE]
    | glob i => simp only [l2E] at hc; cases hc
    | call fe args => simp only [l2E] at hc; cases hc
    | loc i =>
      simp only [l2E, decide_eq_true_eq] at hc
      rcases hR i hc with h | ⟨_, h⟩
      · right; simp only [globE, evalE, tE, h]
      · left; simp only [evalE, h]
    | bin tok a b =>
      simp only [l2E, Bool.and_eq_true] at hc
      simp only [globE, evalE]
      refine b1 a _ _ hc.1 (fun x => ?_)
      refine b1 b (fun y g2 => match E.S.binop tok x y with | some v => .val v g2 | none => .err)
        (fun y g2 => match E.S.binop tok x y with | some v => .val v g2 | none => .err) hc.2 (fun y => ?_)
      right; cases E.S.binop tok x y <;> simp only [tE]
    | eq a b =>
      simp only [l2E, Bool.and_eq_true] at hc
      simp only [globE, evalE]
      refine b1 a _ _ hc.1 (fun x => ?_)
      exact b1 b (fun y g2 => .val (E.S.ofBool (E.S.eqv x y)) g2) (fun y g2 => .val (E.S.ofBool (E.S.eqv x y)) g2)
        hc.2 (fun y => Or.inr (by simp only [tE]))
    | ne a b =>
      simp only [l2E, Bool.and_eq_true] at hc
      simp only [globE, evalE]
      refine b1 a _ _ hc.1 (fun x => ?_)
      exact b1 b (fun y g2 => .val (E.S.ofBool (!E.S.eqv x y)) g2) (fun y g2 => .val (E.S.ofBool (!E.S.eqv x y)) g2)
        hc.2 (fun y => Or.inr (by simp only [tE]))
    | neg a =>
      simp only [l2E] at hc
      simp only [globE, evalE]
      refine b1 a (fun x ga => match E.S.neg x with | some v => .val v ga | none => .err)
        (fun x ga => match E.S.neg x with | some v => .val v ga | none => .err) hc (fun x => ?_)
      right; cases E.S.neg x <;> simp only [tE]
    | bnot a =>
      simp only [l2E] at hc
      simp only [globE, evalE]
      refine b1 a (fun x ga => match E.S.bnot x with | some v => .val v ga | none => .err)
        (fun x ga => match E.S.bnot x with | some v => .val v ga | none => .err) hc (fun x => ?_)
      right; cases E.S.bnot x <;> simp only [tE]
    | lnot a =>
      simp only [l2E] at hc
      simp only [globE, evalE]
      exact b1 a (fun x ga => .val (E.S.ofBool (E.S.falsy x)) ga) (fun x ga => .val (E.S.ofBool (E.S.falsy x)) ga) hc
        (fun x => Or.inr (by simp only [tE]))
    | plus a =>
      simp only [l2E] at hc
      simp only [globE, evalE]
      exact ih a g lG gL l hc hR
    | cond c t e =>
      simp only [l2E, Bool.and_eq_true] at hc
      simp only [globE, evalE]
      refine b1 c (fun x ga => if E.S.falsy x then evalE E P f (globE e) ga lG else evalE E P f (globE t) ga lG)
        (fun x ga => if E.S.falsy x then evalE E P' f e ga l else evalE E P' f t ga l) hc.1.1 (fun x => ?_)
      by_cases hfa : E.S.falsy x = true
      · simp only [hfa, if_true]; exact ih e g lG gL l hc.2 hR
      · simp only [hfa, Bool.false_eq_true, if_false]; exact ih t g lG gL l hc.1.2 hR
    | land a b =>
      simp only [l2E, Bool.and_eq_true] at hc
      simp only [globE, evalE]
      refine b1 a (fun x ga => if E.S.falsy x then .val x ga else evalE E P f (globE b) ga lG)
        (fun x ga => if E.S.falsy x then .val x ga else evalE E P' f b ga l) hc.1 (fun x => ?_)
      by_cases hfa : E.S.falsy x = true
      · right; simp only [hfa, if_true, tE]
      · simp only [hfa, Bool.false_eq_true, if_false]; exact ih b g lG gL l hc.2 hR
    | lor a b =>
      simp only [l2E, Bool.and_eq_true] at hc
      simp only [globE, evalE]
      refine b1 a (fun x ga => if E.S.falsy x then evalE E P f (globE b) ga lG else .val x ga)
        (fun x ga => if E.S.falsy x then evalE E P' f b ga l else .val x ga) hc.1 (fun x => ?_)
      by_cases hfa : E.S.falsy x = true
      · simp only [hfa, if_true]; exact ih b g lG gL l hc.2 hR
      · right; simp only [hfa, Bool.false_eq_true, if_false, tE]

end
end Tengo.Proofs.C11Place

import Tengo.Proofs.C02CompileInd
/-!
C02 / `compile_verifies`, final layer part 1: once the program is known to be small enough, the ideal
operands of every emitted instruction fit their widths, so the bytes decode to the ideal list.
-/
set_option linter.unusedVariables false
set_option linter.unusedSimpArgs false
namespace Tengo.Proofs.C02Compile
open Tengo.Model Tengo.Model.Opcodes Tengo.Model.Compiler Tengo.Model.Optimizer Tengo.Model.Verifier
open Tengo.Proofs.C03 Tengo.Proofs.C03Reloc

/-- operand widths of each opcode class -/
def classOK (op : Nat) : Bool :=
  match opClass op with
  | .susp => widths op == some []
  | .ret => widths op == some [1]
  | .const => widths op == some [2]
  | .closure => widths op == some [2, 1]
  | .loc => widths op == some [1]
  | .selLoc => widths op == some [1, 1]
  | .free => widths op == some [1]
  | .selFree => widths op == some [1, 1]
  | .builtin => widths op == some [1]
  | .glob => widths op == some [2]
  | .selGlob => widths op == some [2, 1]
  | .map => widths op == some [2]
  | .arr => widths op == some [2]
  | .call => widths op == some [1, 1]
  | .binop => widths op == some [1]
  | .other => (isJump op && widths op == some [4]) || widths op == some []

theorem classOK_all : ∀ op, op < 42 → classOK op = true := by decide

theorem succs_jump_target {i : Instr} {h : Nat} {l : List (Nat × Nat)} (hj : isJump i.op = true)
    (hs : succs i h = some l) : ∃ k, (i.args.headD 0, k) ∈ l := by
  simp only [isJump, Bool.or_eq_true, beq_iff_eq] at hj
  rcases hj with ((e | e) | e) | e
  · rw [succs_jump e] at hs; injection hs with hs; subst hs; exact ⟨h, List.mem_cons_self⟩
  · by_cases hk : 1 ≤ h
    · rw [succs_jumpFalsy e hk] at hs; injection hs with hs; subst hs; exact ⟨h - 1, List.mem_cons_self⟩
    · exfalso
      obtain ⟨pos, op, args⟩ := i
      simp only at e; subst e
      have : h < 1 := by omega
      simp [succs, opJumpFalsy, opReturn, opSuspend, opJump, this] at hs
  · by_cases hk : 1 ≤ h
    · rw [succs_andor (Or.inl e) hk] at hs; injection hs with hs; subst hs; exact ⟨h, List.mem_cons_self⟩
    · exfalso
      obtain ⟨pos, op, args⟩ := i
      simp only at e; subst e
      have : h < 1 := by omega
      simp [succs, opJumpFalsy, opReturn, opSuspend, opJump, opAndJump, this] at hs
  · by_cases hk : 1 ≤ h
    · rw [succs_andor (Or.inr e) hk] at hs; injection hs with hs; subst hs; exact ⟨h, List.mem_cons_self⟩
    · exfalso
      obtain ⟨pos, op, args⟩ := i
      simp only at e; subst e
      have : h < 1 := by omega
      simp [succs, opJumpFalsy, opReturn, opSuspend, opJump, opAndJump, opOrJump, this] at hs

/-- the size assumptions under which nothing is truncated -/
structure Bnd (cs : List Const) (env : Env) : Prop where
  consts : cs.length ≤ 65536
  locals : env.numLocals ≤ 256
  frees : env.numFree ≤ 256
  globals : env.nGlobals ≤ 65536

theorem get?_lt {α : Type} {l : List α} {k : Nat} {a : α} (h : l[k]? = some a) : k < l.length := by
  rcases Nat.lt_or_ge k l.length with h1 | h1
  · exact h1
  · rw [List.getElem?_eq_none h1] at h; cases h

theorem builtins_lt : Spec.builtinNames.length < 256 := by decide

/-- The operands of an instruction fit their widths. `ht`: the target of a jump is below `2 ^ 32`. -/
theorem argsFit_of {cs : List Const} {F : List Nat} {env : Env} {i : Instr} (hs : Shape i)
    (hr : opReq cs F env i) (hb : Bnd cs env) (ht : isJump i.op = true → i.args.headD 0 < 2 ^ 32) :
    ∀ ws, widths i.op = some ws → ArgsFit ws i.args := by
  intro ws hws
  obtain ⟨ws', hws', hlen⟩ := hs
  rw [hws] at hws'; injection hws' with hws'; subst hws'
  have hlt := Tengo.Model.VM.widths_some_lt _ _ hws
  have hok := classOK_all i.op hlt
  obtain ⟨pos, op, args⟩ := i
  simp only at hws hlen hlt hok ht
  unfold opReq at hr
  simp only at hr
  unfold classOK at hok
  cases hc : opClass op <;> simp only [hc] at hok hr
  case ret =>
    rw [hws] at hok; simp only [beq_iff_eq, Option.some.injEq] at hok; subst hok
    match args, hlen with
    | [a], _ => simp only [arg0, List.headD_cons] at hr; exact ⟨by omega, trivial⟩
  case const =>
    rw [hws] at hok; simp only [beq_iff_eq, Option.some.injEq] at hok; subst hok
    match args, hlen with
    | [a], _ =>
      simp only [arg0, List.headD_cons] at hr
      obtain ⟨c, hc1, _⟩ := hr
      have := get?_lt hc1; have := hb.consts
      exact ⟨by omega, trivial⟩
  case closure =>
    rw [hws] at hok; simp only [beq_iff_eq, Option.some.injEq] at hok; subst hok
    match args, hlen with
    | [a, b], _ =>
      simp only [arg0, arg1, List.headD_cons, List.drop_one, List.tail_cons] at hr
      obtain ⟨c, hc1, _, _, hb2⟩ := hr
      have := get?_lt hc1; have := hb.consts
      exact ⟨by omega, by omega, trivial⟩
  case loc =>
    rw [hws] at hok; simp only [beq_iff_eq, Option.some.injEq] at hok; subst hok
    match args, hlen with
    | [a], _ => simp only [arg0, List.headD_cons] at hr; have := hb.locals; exact ⟨by omega, trivial⟩
  case selLoc =>
    rw [hws] at hok; simp only [beq_iff_eq, Option.some.injEq] at hok; subst hok
    match args, hlen with
    | [a, b], _ =>
      simp only [arg0, arg1, List.headD_cons, List.drop_one, List.tail_cons] at hr
      have := hb.locals; exact ⟨by omega, by omega, trivial⟩
  case free =>
    rw [hws] at hok; simp only [beq_iff_eq, Option.some.injEq] at hok; subst hok
    match args, hlen with
    | [a], _ => simp only [arg0, List.headD_cons] at hr; have := hb.frees; exact ⟨by omega, trivial⟩
  case selFree =>
    rw [hws] at hok; simp only [beq_iff_eq, Option.some.injEq] at hok; subst hok
    match args, hlen with
    | [a, b], _ =>
      simp only [arg0, arg1, List.headD_cons, List.drop_one, List.tail_cons] at hr
      have := hb.frees; exact ⟨by omega, by omega, trivial⟩
  case builtin =>
    rw [hws] at hok; simp only [beq_iff_eq, Option.some.injEq] at hok; subst hok
    match args, hlen with
    | [a], _ => simp only [arg0, List.headD_cons] at hr; have := builtins_lt; exact ⟨by omega, trivial⟩
  case glob =>
    rw [hws] at hok; simp only [beq_iff_eq, Option.some.injEq] at hok; subst hok
    match args, hlen with
    | [a], _ => simp only [arg0, List.headD_cons] at hr; have := hb.globals; exact ⟨by omega, trivial⟩
  case selGlob =>
    rw [hws] at hok; simp only [beq_iff_eq, Option.some.injEq] at hok; subst hok
    match args, hlen with
    | [a, b], _ =>
      simp only [arg0, arg1, List.headD_cons, List.drop_one, List.tail_cons] at hr
      have := hb.globals; exact ⟨by omega, by omega, trivial⟩
  case map =>
    rw [hws] at hok; simp only [beq_iff_eq, Option.some.injEq] at hok; subst hok
    match args, hlen with
    | [a], _ => simp only [arg0, List.headD_cons] at hr; exact ⟨by omega, trivial⟩
  case arr =>
    rw [hws] at hok; simp only [beq_iff_eq, Option.some.injEq] at hok; subst hok
    match args, hlen with
    | [a], _ => simp only [arg0, List.headD_cons] at hr; exact ⟨by omega, trivial⟩
  case call =>
    rw [hws] at hok; simp only [beq_iff_eq, Option.some.injEq] at hok; subst hok
    match args, hlen with
    | [a, b], _ =>
      simp only [arg0, arg1, List.headD_cons, List.drop_one, List.tail_cons] at hr
      exact ⟨by omega, by omega, trivial⟩
  case binop =>
    rw [hws] at hok; simp only [beq_iff_eq, Option.some.injEq] at hok; subst hok
    match args, hlen with
    | [a], _ => simp only [arg0, List.headD_cons] at hr; exact ⟨by omega, trivial⟩
  case other =>
    rw [hws] at hok
    simp only [Bool.or_eq_true, Bool.and_eq_true, beq_iff_eq, Option.some.injEq] at hok
    rcases hok with ⟨hj, e⟩ | e
    · subst e
      match args, hlen with
      | [a], _ =>
        have := ht hj
        simp only [List.headD_cons] at this
        exact ⟨by omega, trivial⟩
    · subst e
      match args, hlen with
      | [], _ => trivial

/-- a closed block whose operands are in range consists of instructions `MakeInstruction` encodes
without loss -/
theorem core_wf {hi a b : Nat} {H : Nat → Nat} {B : List Instr} {cs : List Const} {F : List Nat} {env : Env}
    (hc : Core 0 hi a b H B NoT) (hsh : ∀ i ∈ B, Shape i) (hr : ∀ i ∈ B, opReq cs F env i)
    (hb : Bnd cs env) (hhi : hi < 2 ^ 32) : WFCode B := by
  intro i hi'
  obtain ⟨ws, hws, hlen⟩ := hsh i hi'
  refine ⟨ws, hws, argsFit_of (hsh i hi') (hr i hi') hb ?_ ws hws⟩
  intro hj
  obtain ⟨l, hl, hq⟩ := hc.ok i hi'
  obtain ⟨k, hk⟩ := succs_jump_target hj hl
  rcases hq _ hk with ⟨ht, _⟩ | hf
  · have := (tgt_range hc.lay hc.hi_eq ht).2
    simp only at this
    omega
  · exact hf.elim

theorem core_decode {hi a b : Nat} {H : Nat → Nat} {B : List Instr} {cs : List Const} {F : List Nat} {env : Env}
    (hc : Core 0 hi a b H B NoT) (hsh : ∀ i ∈ B, Shape i) (hr : ∀ i ∈ B, opReq cs F env i)
    (hb : Bnd cs env) (hhi : hi < 2 ^ 32) : decode (encode B) = some B :=
  decode_encode B hc.lay (core_wf hc hsh hr hb hhi)

end Tengo.Proofs.C02Compile

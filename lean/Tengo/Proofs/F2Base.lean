import Tengo.Model.F2
import Tengo.Proofs.C01BridgeBoundedExpr
/-!
Fragment F2 (F1 + `break` / `continue` + three-clause loops), proof layer 0: sizes of the emitted code, code
placement (`At code off frag`: the list `frag` sits in `code` at byte offset `off`), the expression theorem
restated for placed code, stack depths, and the outcome relation `Good` between a result of the reference
semantics and a run of the (stack-bounded) machine.
-/
set_option linter.unusedSimpArgs false
namespace Tengo.Model.F2
open Tengo.Model.F0
variable {V : Type}

theorem esz_eq (e : Ex) : esz e = esize e := csize_comp e 0

mutual
  theorem csize_compS : ∀ (s : Stm) (bt ct o : Nat), csize (compS bt ct o s) = ssize s
    | .expr e, bt, ct, o => by simp [compS, ssize, csize_append, csize_comp, csize, Ins.size, esz_eq]
    | .assign i e, bt, ct, o => by simp [compS, ssize, csize_append, csize_comp, csize, Ins.size, esz_eq]
    | .ifs c body, bt, ct, o => by
        simp [compS, ssize, csize_append, csize_comp, csize, Ins.size, esz_eq, csize_compSs body]; omega
    | .ifelse c body els, bt, ct, o => by
        simp [compS, ssize, csize_append, csize_comp, csize, Ins.size, esz_eq, csize_compSs body, csize_compSs els]
        omega
    | .whil c body, bt, ct, o => by
        simp [compS, ssize, csize_append, csize_comp, csize, Ins.size, esz_eq, csize_compSs body]; omega
    | .forever body, bt, ct, o => by
        simp [compS, ssize, csize_append, csize, Ins.size, csize_compSs body]
    | .for3 c body post, bt, ct, o => by
        simp [compS, ssize, csize_append, csize_comp, csize, Ins.size, esz_eq, csize_compSs body, csize_compS post]
        omega
    | .brk, bt, ct, o => by simp [compS, ssize, csize, Ins.size]
    | .cont, bt, ct, o => by simp [compS, ssize, csize, Ins.size]
  theorem csize_compSs : ∀ (ss : Stms) (bt ct o : Nat), csize (compSs bt ct o ss) = sssize ss
    | .nil, bt, ct, o => by simp [compSs, sssize, csize]
    | .cons s ss, bt, ct, o => by simp [compSs, sssize, csize_append, csize_compS s, csize_compSs ss]
end

def codeSize : Code → Nat
  | .inl s => ssize s
  | .inr ss => sssize ss

theorem csize_compC (c : Code) (bt ct o : Nat) : csize (compC bt ct o c) = codeSize c := by
  cases c with
  | inl s => exact csize_compS s bt ct o
  | inr ss => exact csize_compSs ss bt ct o

/-! ### code placement -/

/-- The instruction list `frag` occurs in `code` starting at byte offset `off`. -/
def At (code : List Ins) (off : Nat) (frag : List Ins) : Prop :=
  ∃ pre post, code = pre ++ frag ++ post ∧ csize pre = off

theorem At.left {code : List Ins} {off : Nat} {a b : List Ins} (h : At code off (a ++ b)) : At code off a := by
  obtain ⟨pre, post, rfl, rfl⟩ := h
  exact ⟨pre, b ++ post, by simp [List.append_assoc], rfl⟩

theorem At.right {code : List Ins} {off : Nat} {a b : List Ins} (h : At code off (a ++ b)) {off' : Nat}
    (e : off' = off + csize a) : At code off' b := by
  obtain ⟨pre, post, rfl, rfl⟩ := h
  exact ⟨pre ++ a, post, by simp [List.append_assoc], by simp [csize_append, e]⟩

theorem At.fetch {code : List Ins} {off : Nat} {i : Ins} {rest : List Ins} (h : At code off (i :: rest)) :
    fetch code off = some i := by
  obtain ⟨pre, post, rfl, rfl⟩ := h
  exact fetch_mid' pre [] rest post i _ (by simp [csize])

theorem At.whole (frag : List Ins) : At frag 0 frag := ⟨[], [], by simp, rfl⟩

/-- `F0.comp_correctB` for code placed with `At`. -/
theorem compB_at (lim : Nat) (S : Sem V) (cs g : Nat → V) (e : Ex) {code : List Ins} {off : Nat} {st : List V}
    (h : At code off (comp off e)) (hd : st.length + depthE e ≤ lim) :
    (∀ v, eval S cs g e = some v → RunsB lim S cs code ⟨off, st, g⟩ ⟨off + esize e, v :: st, g⟩) ∧
    (eval S cs g e = none → FailsB lim S cs code ⟨off, st, g⟩) := by
  obtain ⟨pre, post, rfl, rfl⟩ := h
  exact comp_correctB lim S cs g e pre post st hd

/-! ### stack depth -/

mutual
  /-- Deepest operand stack any expression of the statement needs. -/
  def depthS : Stm → Nat
    | .expr e => depthE e
    | .assign _ e => depthE e
    | .ifs c body => max (depthE c) (depthSs body)
    | .ifelse c body els => max (depthE c) (max (depthSs body) (depthSs els))
    | .whil c body => max (depthE c) (depthSs body)
    | .forever body => depthSs body
    | .for3 c body post => max (depthE c) (max (depthSs body) (depthS post))
    | .brk => 0
    | .cont => 0
  def depthSs : Stms → Nat
    | .nil => 0
    | .cons s ss => max (depthS s) (depthSs ss)
end

def depthC : Code → Nat
  | .inl s => depthS s
  | .inr ss => depthSs ss

/-! ### results of the reference semantics against runs of the machine -/

/-- The machine, started in `s`, does what the result of the reference semantics says: reaches `fin`
(normal end), `bt` (`break`), `ct` (`continue`) with the operand stack `st` and the result's globals, or stops
with a data error. -/
def Good (lim : Nat) (S : Sem V) (cs : Nat → V) (code : List Ins) (s : St V) (st : List V)
    (fin bt ct : Nat) : Res V → Prop
  | .done g' => RunsB lim S cs code s ⟨fin, st, g'⟩
  | .brk g' => RunsB lim S cs code s ⟨bt, st, g'⟩
  | .cont g' => RunsB lim S cs code s ⟨ct, st, g'⟩
  | .err => FailsB lim S cs code s
  | .out => True

theorem Good.pre {lim : Nat} {S : Sem V} {cs : Nat → V} {code : List Ins} {a b : St V} {st : List V}
    {fin bt ct : Nat} {r : Res V} (h : RunsB lim S cs code a b) (hg : Good lim S cs code b st fin bt ct r) :
    Good lim S cs code a st fin bt ct r := by
  cases r with
  | done g' => exact h.trans hg
  | brk g' => exact h.trans hg
  | cont g' => exact h.trans hg
  | err => exact h.fails hg
  | out => trivial

theorem Good.fin {lim : Nat} {S : Sem V} {cs : Nat → V} {code : List Ins} {a : St V} {st : List V}
    {fin fin' bt ct : Nat} {r : Res V} (hg : Good lim S cs code a st fin bt ct r) (e : fin = fin') :
    Good lim S cs code a st fin' bt ct r := e ▸ hg

end Tengo.Model.F2

import Tengo.Proofs.C20Parser
/-!
C20, byte level, part 3: precedence climbing on token lists given only by their kinds and literals.

`Proofs/C20Parser.climb` is stated for token lists built by `PE.body`, whose parentheses, `?` and `:` carry offset 0.
The scanner reports the real byte offsets. The parser model never reads an offset, but that is a fact about
all 25 mutually recursive functions; instead `climb2` re-proves precedence climbing for EVERY token list whose
`(kind, literal)` sequence (`key`) is that of a concrete expression tree `CE` (all parentheses explicit, `WF` =
every operand binds at least as strongly as its position requires). `CE.min` inserts the fewest parentheses that
make an arbitrary operator tree well formed (the minimal printer), `parseToks_expr` lifts the result from
`parseExpr` to `ParseFile` for a source consisting of one expression statement.
-/
namespace Tengo.Proofs.C20BytesParse
open Tengo.Model.Token Tengo.Model.Scanner Tengo.Model.Ast Tengo.Model.Parser Tengo.Model.Literal
open Tengo.Proofs.C20Parser

variable (fo : Bs → Option Nat)

/-- What the parser reads of a token. -/
def key (t : Token) : Tok × Bs := (t.tok, t.lit)

theorem map_key_cons {ts : Toks} {x : Tok × Bs} {xs : List (Tok × Bs)} (h : ts.map key = x :: xs) :
    ∃ t r, ts = t :: r ∧ t.tok = x.1 ∧ t.lit = x.2 ∧ r.map key = xs := by
  cases ts with
  | nil => simp at h
  | cons t r =>
    simp only [List.map_cons, List.cons.injEq] at h
    exact ⟨t, r, rfl, by rw [← h.1]; rfl, by rw [← h.1]; rfl, h.2⟩

theorem map_key_append {ts : Toks} {a b : List (Tok × Bs)} (h : ts.map key = a ++ b) :
    ∃ ta tb, ts = ta ++ tb ∧ ta.map key = a ∧ tb.map key = b :=
  List.map_eq_append_iff.mp h

theorem map_key_nil {ts : Toks} (h : ts.map key = []) : ts = [] := by simpa using h

/-- Concrete expression trees: every parenthesis is a node. -/
inductive CE where
  | atom (k : Tok) (lit : Bs)
  | bin (op : Tok) (l r : CE)
  | un (op : Tok) (e : CE)
  | cond (c t f : CE)
  | paren (e : CE)

namespace CE

/-- Binding strength: ternary 0, binary 1…5, unary 6, primary 7. -/
def level : CE → Nat
  | atom _ _ => 7
  | paren _ => 7
  | un _ _ => 6
  | bin op _ _ => op.prec
  | cond _ _ _ => 0

/-- Token constraints only (any nesting). -/
def WF0 : CE → Prop
  | atom k _ => isAtomTok k = true
  | bin op l r => 1 ≤ op.prec ∧ l.WF0 ∧ r.WF0
  | un op e => isUnaryOp op = true ∧ e.WF0
  | cond c t f => c.WF0 ∧ t.WF0 ∧ f.WF0
  | paren e => e.WF0

/-- A tree the documented grammar derives without further parentheses: the left operand of a level-k operator
binds at least k, the right operand at least k+1 (left associativity), a unary operand at least 6, the condition
of `?:` at least 1; the branches of `?:` and the inside of parentheses are unrestricted. -/
def WF : CE → Prop
  | atom k _ => isAtomTok k = true
  | bin op l r => 1 ≤ op.prec ∧ op.prec ≤ l.level ∧ op.prec + 1 ≤ r.level ∧ l.WF ∧ r.WF
  | un op e => isUnaryOp op = true ∧ 6 ≤ e.level ∧ e.WF
  | cond c t f => 1 ≤ c.level ∧ c.WF ∧ t.WF ∧ f.WF
  | paren e => e.WF

/-- `(kind, literal)` of the tokens, in order. -/
def keys : CE → List (Tok × Bs)
  | atom k lit => [(k, lit)]
  | bin op l r => l.keys ++ (op, []) :: r.keys
  | un op e => (op, []) :: e.keys
  | cond c t f => c.keys ++ (Tok.Question, []) :: (t.keys ++ (Tok.Colon, []) :: f.keys)
  | paren e => (Tok.LParen, []) :: (e.keys ++ [(Tok.RParen, [])])

/-- The tree the parser must build (a ParenExpr for every parenthesis). -/
def ast : CE → Expr
  | atom k lit => atomAst ⟨k, lit, 0⟩
  | bin op l r => .bin op l.ast r.ast
  | un op e => .un op e.ast
  | cond c t f => .cond c.ast t.ast f.ast
  | paren e => .paren e.ast

/-- The operator tree without any ParenExpr. -/
def tree : CE → Expr
  | atom k lit => atomAst ⟨k, lit, 0⟩
  | bin op l r => .bin op l.tree r.tree
  | un op e => .un op e.tree
  | cond c t f => .cond c.tree t.tree f.tree
  | paren e => e.tree

def wrap (need : Bool) (e : CE) : CE := if need then .paren e else e

/-- Minimal parenthesisation: drop all parentheses, then wrap an operand exactly when it binds weaker than its
position requires. -/
def min : CE → CE
  | atom k lit => atom k lit
  | bin op l r => bin op (wrap (Nat.blt l.min.level op.prec) l.min) (wrap (Nat.blt r.min.level (op.prec + 1)) r.min)
  | un op e => un op (wrap (Nat.blt e.min.level 6) e.min)
  | cond c t f => cond (wrap (Nat.blt c.min.level 1) c.min) t.min f.min
  | paren e => e.min

/-- The printer's form: every operator node inside parentheses. -/
def full : CE → CE
  | atom k lit => atom k lit
  | bin op l r => paren (bin op l.full r.full)
  | un op e => paren (un op e.full)
  | cond c t f => paren (cond c.full t.full f.full)
  | paren e => paren e.full

end CE

open CE

theorem atomAst_key (t : Token) (k : Tok) (lit : Bs) (h1 : t.tok = k) (h2 : t.lit = lit) :
    atomAst t = atomAst ⟨k, lit, 0⟩ := by
  simp only [atomAst, h1, h2]

/-- What is established for one tree. -/
structure Climb2 (e : CE) : Prop where
  expr : ∀ ts rest, ts.map key = e.keys → Stop0 rest → run (parseExpr fo (ts ++ rest)) = some (e.ast, rest)
  binary : 1 ≤ e.level → ∀ p ts rest, ts.map key = e.keys → 1 ≤ p → p ≤ e.level → NoPostfix rest →
    (tk rest).prec ≤ e.level → run (parseBinary fo p (ts ++ rest)) = run (binLoop fo p e.ast rest)
  unary : 6 ≤ e.level → ∀ ts rest, ts.map key = e.keys → NoPostfix rest →
    run (parseUnary fo (ts ++ rest)) = some (e.ast, rest)

theorem binary_of_unary2 {e : CE}
    (hu : ∀ ts rest, ts.map key = e.keys → NoPostfix rest → run (parseUnary fo (ts ++ rest)) = some (e.ast, rest))
    (p : Nat) (ts rest : Toks) (hk : ts.map key = e.keys) (hn : NoPostfix rest) :
    run (parseBinary fo p (ts ++ rest)) = run (binLoop fo p e.ast rest) := by
  rw [run_parseBinary, hu ts rest hk hn]

theorem expr_of_binary2 {e : CE} (hl : 1 ≤ e.level)
    (hb : ∀ p ts rest, ts.map key = e.keys → 1 ≤ p → p ≤ e.level → NoPostfix rest → (tk rest).prec ≤ e.level →
      run (parseBinary fo p (ts ++ rest)) = run (binLoop fo p e.ast rest))
    (ts rest : Toks) (hk : ts.map key = e.keys) (hs : Stop0 rest) :
    run (parseExpr fo (ts ++ rest)) = some (e.ast, rest) := by
  obtain ⟨hn, hp, hq⟩ := hs
  rw [run_parseExpr, hb 1 ts rest hk (Nat.le_refl 1) hl hn (by omega), binLoop_stop fo 1 e.ast rest (by omega)]
  cases rest with
  | nil => rfl
  | cons t r1 =>
    simp only [tk] at hq
    simp [hq]

theorem stop0_rparen (rp : Token) (rest : Toks) (h : rp.tok = .RParen) : Stop0 (rp :: rest) := by
  refine ⟨⟨?_, ?_, ?_⟩, ?_, ?_⟩ <;> simp only [tk, h] <;> decide

/-- A parenthesised tree is a primary expression. -/
theorem unary_paren2 {e : CE}
    (he : ∀ ts rest, ts.map key = e.keys → Stop0 rest → run (parseExpr fo (ts ++ rest)) = some (e.ast, rest))
    (ts rest : Toks) (hk : ts.map key = (CE.paren e).keys) (hn : NoPostfix rest) :
    run (parseUnary fo (ts ++ rest)) = some (.paren e.ast, rest) := by
  simp only [CE.keys] at hk
  obtain ⟨lp, r, rfl, hlp, -, hr⟩ := map_key_cons hk
  obtain ⟨tb, tr, rfl, hb, hrp⟩ := map_key_append hr
  obtain ⟨rp, r2, rfl, hrp1, -, hr2⟩ := map_key_cons hrp
  have := map_key_nil hr2
  subst this
  simp only at hlp hrp1
  have e1 : lp :: (tb ++ [rp]) ++ rest = lp :: (tb ++ rp :: rest) := by simp
  rw [e1, run_parseUnary_cons]
  have hnu : isUnaryOp lp.tok = false := by rw [hlp]; decide
  simp only [hnu]
  rw [run_parsePrimary, run_parseOperand_lparen fo _ _ hlp, he tb _ hb (stop0_rparen rp rest hrp1)]
  simp only [hrp1, if_true]
  exact run_postfixLoop_stop fo _ rest hn

/-- Precedence climbing is correct on every token list that spells a well-formed concrete tree. -/
theorem climb2 (e : CE) (hw : e.WF) : Climb2 fo e := by
  induction e with
  | atom k lit =>
    have hu : ∀ ts rest, ts.map key = (CE.atom k lit).keys → NoPostfix rest →
        run (parseUnary fo (ts ++ rest)) = some ((CE.atom k lit).ast, rest) := by
      intro ts rest hk hn
      simp only [CE.keys] at hk
      obtain ⟨t, r, rfl, ht, hlit, hr⟩ := map_key_cons hk
      have := map_key_nil hr
      subst this
      simp only at ht hlit
      have hat : isAtomTok t.tok = true := by rw [ht]; exact hw
      simp only [CE.ast, List.cons_append, List.nil_append]
      rw [run_parseUnary_cons, not_unary_of_atom hat]
      simp only [Bool.false_eq_true, if_false]
      rw [run_parsePrimary, run_parseOperand_atom fo t rest hat, atomAst_key t k lit ht hlit]
      exact run_postfixLoop_stop fo _ rest hn
    have hb := fun p ts rest hk (_ : 1 ≤ p) (_ : p ≤ (CE.atom k lit).level) hn
        (_ : (tk rest).prec ≤ (CE.atom k lit).level) => binary_of_unary2 fo hu p ts rest hk hn
    exact ⟨expr_of_binary2 fo (by simp [CE.level]) hb, fun _ => hb, fun _ => hu⟩
  | paren e ih =>
    have c := ih hw
    have hu : ∀ ts rest, ts.map key = (CE.paren e).keys → NoPostfix rest →
        run (parseUnary fo (ts ++ rest)) = some ((CE.paren e).ast, rest) :=
      fun ts rest hk hn => unary_paren2 fo c.expr ts rest hk hn
    have hb := fun p ts rest hk (_ : 1 ≤ p) (_ : p ≤ (CE.paren e).level) hn
        (_ : (tk rest).prec ≤ (CE.paren e).level) => binary_of_unary2 fo hu p ts rest hk hn
    exact ⟨expr_of_binary2 fo (by simp [CE.level]) hb, fun _ => hb, fun _ => hu⟩
  | un op e ih =>
    obtain ⟨hop, h6, he⟩ := hw
    have c := ih he
    have hu : ∀ ts rest, ts.map key = (CE.un op e).keys → NoPostfix rest →
        run (parseUnary fo (ts ++ rest)) = some ((CE.un op e).ast, rest) := by
      intro ts rest hk hn
      simp only [CE.keys] at hk
      obtain ⟨o, te, rfl, ho, -, hte⟩ := map_key_cons hk
      simp only at ho
      simp only [CE.ast, List.cons_append]
      rw [run_parseUnary_cons, ho, hop]
      simp only [if_true]
      rw [c.unary h6 te rest hte hn]
    have hb := fun p ts rest hk (_ : 1 ≤ p) (_ : p ≤ (CE.un op e).level) hn
        (_ : (tk rest).prec ≤ (CE.un op e).level) => binary_of_unary2 fo hu p ts rest hk hn
    exact ⟨expr_of_binary2 fo (by simp [CE.level]) hb, fun _ => hb, fun _ => hu⟩
  | bin op l r ihl ihr =>
    obtain ⟨hop, hll, hrl, hl, hr⟩ := hw
    have cl := ihl hl
    have cr := ihr hr
    have hb : ∀ p ts rest, ts.map key = (CE.bin op l r).keys → 1 ≤ p → p ≤ (CE.bin op l r).level → NoPostfix rest →
        (tk rest).prec ≤ (CE.bin op l r).level →
        run (parseBinary fo p (ts ++ rest)) = run (binLoop fo p (CE.bin op l r).ast rest) := by
      intro p ts rest hk hp hpl hn hrest
      simp only [CE.level] at hpl hrest
      simp only [CE.keys] at hk
      obtain ⟨tl, t2, rfl, htl, h2⟩ := map_key_append hk
      obtain ⟨o, tr, rfl, ho, -, htr⟩ := map_key_cons h2
      simp only at ho
      have hop' : 1 ≤ o.tok.prec := by rw [ho]; exact hop
      simp only [CE.ast]
      rw [List.append_assoc, List.cons_append]
      rw [cl.binary (by omega) p tl _ htl hp (by omega) (noPostfix_of_prec hop') (by simp only [tk, ho]; omega)]
      rw [run_binLoop_cons]
      have hnot : ¬ op.prec < p := by omega
      simp only [ho, hnot, if_false]
      rw [cr.binary (by omega) (op.prec + 1) tr rest htr (by omega) hrl hn (by omega)]
      rw [binLoop_stop fo (op.prec + 1) _ rest (by omega)]
    have h5 := prec_le_five op
    refine ⟨expr_of_binary2 fo (by simpa [CE.level] using hop) hb, fun _ => hb, ?_⟩
    intro h6
    simp only [CE.level] at h6
    omega
  | cond c t f ihc iht ihf =>
    obtain ⟨hcl, hc, ht, hf⟩ := hw
    have cc := ihc hc
    have ct := iht ht
    have cf := ihf hf
    refine ⟨?_, ?_, ?_⟩
    · intro ts rest hk hs
      simp only [CE.keys] at hk
      obtain ⟨tc, t2, rfl, htc, h2⟩ := map_key_append hk
      obtain ⟨q, t3, rfl, hq, -, h3⟩ := map_key_cons h2
      obtain ⟨tt, t4, rfl, htt, h4⟩ := map_key_append h3
      obtain ⟨co, tf, rfl, hco, -, htf⟩ := map_key_cons h4
      simp only at hq hco
      have hqn : NoPostfix (q :: (tt ++ co :: (tf ++ rest))) := by
        refine ⟨?_, ?_, ?_⟩ <;> simp only [tk, hq] <;> decide
      have hcol : Stop0 (co :: (tf ++ rest)) := by
        refine ⟨⟨?_, ?_, ?_⟩, ?_, ?_⟩ <;> simp only [tk, hco] <;> decide
      have hq0 : (tk (q :: (tt ++ co :: (tf ++ rest)))).prec = 0 := by simp only [tk, hq]; decide
      simp only [CE.ast]
      rw [List.append_assoc, List.cons_append, List.append_assoc, List.cons_append]
      rw [run_parseExpr]
      rw [cc.binary hcl 1 tc _ htc (Nat.le_refl 1) hcl hqn (by omega)]
      rw [binLoop_stop fo 1 _ _ (by omega)]
      simp only [hq, if_true]
      rw [ct.expr tt _ htt hcol]
      simp only [hco, if_true]
      rw [cf.expr tf rest htf hs]
    · intro h; simp [CE.level] at h
    · intro h; simp [CE.level] at h

/-! ### Minimal and full parenthesisation -/

theorem level_wrap_ge (b : Bool) (e : CE) (n : Nat) (h : b = Nat.blt e.level n) (hn : n ≤ 7) : n ≤ (wrap b e).level := by
  cases b with
  | true => simp [wrap, CE.level]; exact hn
  | false =>
    simp only [wrap, Bool.false_eq_true, if_false]
    have : ¬ e.level < n := by
      intro hlt
      have := blt_true hlt
      rw [← h] at this
      cases this
    omega

theorem wf_wrap (b : Bool) (e : CE) (h : e.WF) : (wrap b e).WF := by
  cases b <;> simpa [wrap, CE.WF] using h

theorem min_wf (e : CE) (hw : e.WF0) : e.min.WF := by
  induction e with
  | atom k lit => exact hw
  | paren e ih => exact ih hw
  | un op e ih =>
    exact ⟨hw.1, level_wrap_ge _ _ 6 rfl (by omega), wf_wrap _ _ (ih hw.2)⟩
  | bin op l r ihl ihr =>
    have h5 := prec_le_five op
    exact ⟨hw.1, level_wrap_ge _ _ _ rfl (by omega), level_wrap_ge _ _ _ rfl (by omega),
      wf_wrap _ _ (ihl hw.2.1), wf_wrap _ _ (ihr hw.2.2)⟩
  | cond c t f ihc iht ihf =>
    exact ⟨level_wrap_ge _ _ 1 rfl (by omega), wf_wrap _ _ (ihc hw.1), iht hw.2.1, ihf hw.2.2⟩

theorem full_level (e : CE) : 7 ≤ e.full.level := by
  cases e <;> simp [CE.full, CE.level]

theorem full_wf (e : CE) (hw : e.WF0) : e.full.WF := by
  induction e with
  | atom k lit => exact hw
  | paren e ih => exact ih hw
  | un op e ih =>
    have := full_level e
    exact ⟨hw.1, by omega, ih hw.2⟩
  | bin op l r ihl ihr =>
    have h5 := prec_le_five op
    have := full_level l
    have := full_level r
    exact ⟨hw.1, by omega, by omega, ihl hw.2.1, ihr hw.2.2⟩
  | cond c t f ihc iht ihf =>
    have := full_level c
    exact ⟨by omega, ihc hw.1, iht hw.2.1, ihf hw.2.2⟩

theorem strip_atomAst' (k : Tok) (lit : Bs) : (atomAst ⟨k, lit, 0⟩).strip = atomAst ⟨k, lit, 0⟩ :=
  strip_atomAst _

theorem strip_ast2 (e : CE) : e.ast.strip = e.tree := by
  induction e with
  | atom k lit => simp [CE.ast, CE.tree, strip_atomAst']
  | paren e ih => simp [CE.ast, CE.tree, Expr.strip, ih]
  | un op e ih => simp [CE.ast, CE.tree, Expr.strip, ih]
  | bin op l r ihl ihr => simp [CE.ast, CE.tree, Expr.strip, ihl, ihr]
  | cond c t f ihc iht ihf => simp [CE.ast, CE.tree, Expr.strip, ihc, iht, ihf]

theorem tree_wrap (b : Bool) (e : CE) : (wrap b e).tree = e.tree := by
  cases b <;> simp [wrap, CE.tree]

theorem min_tree (e : CE) : e.min.tree = e.tree := by
  induction e with
  | atom k lit => rfl
  | paren e ih => simpa [CE.min, CE.tree] using ih
  | un op e ih => simp [CE.min, CE.tree, tree_wrap, ih]
  | bin op l r ihl ihr => simp [CE.min, CE.tree, tree_wrap, ihl, ihr]
  | cond c t f ihc iht ihf => simp [CE.min, CE.tree, tree_wrap, ihc, iht, ihf]

theorem full_tree (e : CE) : e.full.tree = e.tree := by
  induction e with
  | atom k lit => rfl
  | paren e ih => simpa [CE.full, CE.tree] using ih
  | un op e ih => simp [CE.full, CE.tree, ih]
  | bin op l r ihl ihr => simp [CE.full, CE.tree, ihl, ihr]
  | cond c t f ihc iht ihf => simp [CE.full, CE.tree, ihc, iht, ihf]

/-! ### From `parseExpr` to `ParseFile`: one expression statement -/

theorem run_eq {α : Type} {n : Nat} {r : R α n} {a : α} {b : Toks} (h : run r = some (a, b)) :
    ∃ hlt, r = some ⟨a, b, hlt⟩ := by
  cases r with
  | none => simp at h
  | some o =>
    obtain ⟨v, r', hl⟩ := o
    simp only [run_some, Option.some.injEq, Prod.mk.injEq] at h
    obtain ⟨rfl, rfl⟩ := h
    exact ⟨hl, rfl⟩

/-- `ParseFile` on `<expression tokens> ; EOF`. -/
theorem parseToks_expr (t0 : Token) (ts : Toks) (x : Expr) (semi eof : Token)
    (hsemi : semi.tok = .Semicolon) (heof : eof.tok = .EOF) (hstart : isSimpleStart t0.tok = true)
    (hp : run (parseExpr fo (t0 :: ts ++ [semi, eof])) = some (x, [semi, eof])) :
    parseToks fo (t0 :: ts ++ [semi, eof]) = some (.cons (.expr x) .nil) := by
  obtain ⟨h1, hpe⟩ := run_eq hp
  have hne : ∀ t : Tok, isSimpleStart t = true → (t == .RBrace || t == .EOF) = false := by
    intro t; cases t <;> simp [isSimpleStart]
  have hel : parseExprList fo (t0 :: ts ++ [semi, eof]) = some ⟨.cons x .nil, [semi, eof], h1⟩ := by
    rw [parseExprList, hpe]
    simp [hsemi]
  have hss : ∃ h2, parseSimpleStmt fo false (t0 :: ts ++ [semi, eof]) = some ⟨.expr x, [semi, eof], h2⟩ := by
    rw [parseSimpleStmt, hel]
    simp [hsemi, isOpAssign]
  obtain ⟨h2, hss⟩ := hss
  have hst : ∃ h3, parseStmt fo (t0 :: ts ++ [semi, eof]) = some ⟨.expr x, [eof], h3⟩ := by
    have hx := hss
    simp only [List.cons_append] at hx ⊢
    rw [parseStmt]
    simp only [hstart, if_true, hx]
    simp [expectSemi, hsemi]
  obtain ⟨h3, hst⟩ := hst
  have hl2 : ∃ h4, parseStmtList fo [eof] = some ⟨.nil, [eof], h4⟩ := by
    rw [parseStmtList]
    simp [heof]
  obtain ⟨h4, hl2⟩ := hl2
  have hl1 : ∃ h5, parseStmtList fo (t0 :: ts ++ [semi, eof]) = some ⟨.cons (.expr x) .nil, [eof], h5⟩ := by
    have hx := hst
    simp only [List.cons_append] at hx ⊢
    rw [parseStmtList]
    simp only [hne _ hstart, Bool.false_eq_true, if_false, hx, hl2]
    simp
  obtain ⟨h5, hl1⟩ := hl1
  simp only [List.cons_append] at hl1
  simp [parseToks, hl1, tk, heof]

end Tengo.Proofs.C20BytesParse

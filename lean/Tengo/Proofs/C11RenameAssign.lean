import Tengo.Proofs.C11RenameExpr
set_option linter.unusedSectionVars false
set_option linter.unusedSimpArgs false
set_option linter.unusedVariables false
namespace Tengo.Proofs.C11Rename
open Tengo.Model Tengo.Model.Compiler Tengo.Model.Opcodes
open Tengo.Model.Spec (Expr Stmt)
variable {ρ : String → String}

/-! ## `compileAssign` in stages (the equation lemma of the model's definition is too large to generate) -/

def asgEmit (op : String) (numSel : Nat) (symbol : Option Sym) : CM Unit := do
  match symbol with
  | none => throw (.panic "nil symbol in compileAssign")
  | some sym =>
    match sym.scope with
    | .global =>
      if numSel > 0 then discard <| emit opSetSelGlobal [sym.index, numSel]
      else discard <| emit opSetGlobal [sym.index]
    | .local =>
      if numSel > 0 then discard <| emit opSetSelLocal [sym.index, numSel]
      else if op == "Define" && !(← localAssigned sym) then discard <| emit opDefineLocal [sym.index]
      else discard <| emit opSetLocal [sym.index]
      setAssigned sym
    | .free =>
      if numSel > 0 then discard <| emit opSetSelFree [sym.index, numSel]
      else discard <| emit opSetFree [sym.index]
    | .builtin => cerr s!"invalid assignment variable scope: {sym.scope.goName}"

def asgOp (d : Nat) (selectors : List Expr) (numSel : Nat) (op : String) (symbol : Option Sym) : CM Unit := do
  if op != "Assign" && op != "Define" then
    match F0.tokNumbers.lookup (op.dropEnd 6).toString with
    | some n => discard <| emit opBinaryOp [n]
    | none => unsupported ("assignment-operator-" ++ op)
  compileSelsRev d selectors
  asgEmit op numSel symbol

def asgRhs (d : Nat) (l r : Expr) (ident : String) (selectors : List Expr) (numSel : Nat) (op : String)
    (isFunc : Bool) (symbol : Option Sym) : CM Unit := do
  if op != "Assign" && op != "Define" then compileExpr d l
  compileExpr d r
  if op == "Define" && !isFunc then
    let s ← define ident
    asgOp d selectors numSel op (some s)
  else asgOp d selectors numSel op symbol

def asgResolve (d : Nat) (l r : Expr) (ident : String) (selectors : List Expr) (numSel : Nat) (op : String)
    (isFunc : Bool) : CM Unit := do
  let resolved ← resolve ident
  let symbol : Option Sym := resolved.map Prod.fst
  if op == "Define" then
    match resolved with
    | some (s, 0) => if s.scope != .builtin then cerr s!"'{ident}' redeclared in this block"
    | _ => pure ()
    if isFunc then
      let s ← define ident
      asgRhs d l r ident selectors numSel op isFunc (some s)
    else asgRhs d l r ident selectors numSel op isFunc symbol
  else
    if resolved.isNone then cerr s!"unresolved reference '{ident}'"
    asgRhs d l r ident selectors numSel op isFunc symbol

def isFuncLit : Expr → Bool
  | .func .. => true
  | _ => false

def asgBody (d : Nat) (lhs rhs : List Expr) (op : String) : CM Unit := do
  if lhs.length > 1 || rhs.length > 1 then cerr "tuple assignment not allowed"
  match lhs, rhs with
  | [l], [r] =>
    let (ident, selectors) := resolveAssignLHS l
    let numSel := selectors.length
    if op == "Define" && numSel > 0 then cerr "operator ':=' not allowed with selector"
    if numSel > 255 then cerr s!"too many selectors in assignment ({numSel} > 255)"
    asgResolve d l r ident selectors numSel op (isFuncLit r)
  | _, _ => throw (.panic "index out of range (empty assignment side)")

set_option maxHeartbeats 4000000 in
theorem compileAssign_succ (d : Nat) (lhs rhs : List Expr) (op : String) :
    compileAssign (d + 1) lhs rhs op = asgBody d lhs rhs op := by
  rfl


attribute [local irreducible] emit curPos changeOperand addConstant enterLoop leaveLoop fork unfork enterScope
  leaveScope optimizeFunc emitBinary patchAll setAssigned localAssigned emitGet emitIt define resolve cerr
  unsupported compileExpr compileExprs compileKVs compileSelsRev compileStmt compileBlock compileStmts

theorem resolveAssignLHS_ren (hρ : Renaming ρ) : ∀ l : Expr,
    resolveAssignLHS (renameExpr ρ l) = (ρ (resolveAssignLHS l).1, renameExprs ρ (resolveAssignLHS l).2)
  | .sel e s => by
      simp only [renameExpr, resolveAssignLHS, resolveAssignLHS_ren hρ e, renameExprs_eq_map, List.map_append,
        List.map_cons, List.map_nil]
  | .idx e s => by
      simp only [renameExpr, resolveAssignLHS, resolveAssignLHS_ren hρ e, renameExprs_eq_map, List.map_append,
        List.map_cons, List.map_nil]
  | .ident n => by simp [renameExpr, resolveAssignLHS, renameExprs]
  | .int _ => by simp [renameExpr, resolveAssignLHS, renameExprs, hρ.empty]
  | .float _ => by simp [renameExpr, resolveAssignLHS, renameExprs, hρ.empty]
  | .char _ => by simp [renameExpr, resolveAssignLHS, renameExprs, hρ.empty]
  | .str _ => by simp [renameExpr, resolveAssignLHS, renameExprs, hρ.empty]
  | .bool _ => by simp [renameExpr, resolveAssignLHS, renameExprs, hρ.empty]
  | .undef => by simp [renameExpr, resolveAssignLHS, renameExprs, hρ.empty]
  | .bin _ _ _ => by simp [renameExpr, resolveAssignLHS, renameExprs, hρ.empty]
  | .un _ _ => by simp [renameExpr, resolveAssignLHS, renameExprs, hρ.empty]
  | .cond _ _ _ => by simp [renameExpr, resolveAssignLHS, renameExprs, hρ.empty]
  | .paren _ => by simp [renameExpr, resolveAssignLHS, renameExprs, hρ.empty]
  | .arr _ => by simp [renameExpr, resolveAssignLHS, renameExprs, hρ.empty]
  | .map _ => by simp [renameExpr, resolveAssignLHS, renameExprs, hρ.empty]
  | .slice _ _ _ => by simp [renameExpr, resolveAssignLHS, renameExprs, hρ.empty]
  | .call _ _ _ => by simp [renameExpr, resolveAssignLHS, renameExprs, hρ.empty]
  | .func _ _ _ => by simp [renameExpr, resolveAssignLHS, renameExprs, hρ.empty]
  | .imp _ => by simp [renameExpr, resolveAssignLHS, renameExprs, hρ.empty]
  | .error _ => by simp [renameExpr, resolveAssignLHS, renameExprs, hρ.empty]
  | .immutable _ => by simp [renameExpr, resolveAssignLHS, renameExprs, hρ.empty]
  | .bad => by simp [renameExpr, resolveAssignLHS, renameExprs, hρ.empty]

theorem isFuncLit_ren (r : Expr) : isFuncLit (renameExpr ρ r) = isFuncLit r := by
  cases r <;> simp [renameExpr, isFuncLit]

theorem sim_asgEmit (op : String) (numSel : Nat) {sy sy' : Option Sym} (h : sy' = sy.map (renSym ρ)) :
    Sim ρ Eq (asgEmit op numSel sy) (asgEmit op numSel sy') := by
  subst h
  cases sy with
  | none => exact sim_throw (ErrRel.same _)
  | some sym =>
    unfold asgEmit
    simp only [Option.map_some, renSym_scope, renSym_index]
    split <;> sim_go

theorem sim_asgOp {d : Nat} (ih : IH ρ d) (sels : List Expr) (numSel : Nat) (op : String) {sy sy' : Option Sym}
    (h : sy' = sy.map (renSym ρ)) :
    Sim ρ Eq (asgOp d sels numSel op sy) (asgOp d (renameExprs ρ sels) numSel op sy') := by
  have tail : ∀ u : Unit, Sim ρ Eq (do compileSelsRev d sels; asgEmit op numSel sy)
      (do compileSelsRev d (renameExprs ρ sels); asgEmit op numSel sy') :=
    fun _ => sim_bind_eq (ih.sels _) (fun _ => sim_asgEmit op numSel h)
  unfold asgOp
  refine sim_ite ?_ (tail ())
  split
  · exact sim_bind_eq (sim_demit _ _) tail
  · exact sim_unsupported_bind _

theorem sim_asgRhs {d : Nat} (ih : IH ρ d) (l r : Expr) (ident : String) (sels : List Expr) (numSel : Nat)
    (op : String) (isFunc : Bool) {sy sy' : Option Sym} (h : sy' = sy.map (renSym ρ)) :
    Sim ρ Eq (asgRhs d l r ident sels numSel op isFunc sy)
      (asgRhs d (renameExpr ρ l) (renameExpr ρ r) (ρ ident) (renameExprs ρ sels) numSel op isFunc sy') := by
  have tail : ∀ u : Unit, Sim ρ Eq
      (do compileExpr d r
          if (op == "Define" && !isFunc) = true then do
            let s ← define ident
            asgOp d sels numSel op (some s)
          else asgOp d sels numSel op sy)
      (do compileExpr d (renameExpr ρ r)
          if (op == "Define" && !isFunc) = true then do
            let s ← define (ρ ident)
            asgOp d (renameExprs ρ sels) numSel op (some s)
          else asgOp d (renameExprs ρ sels) numSel op sy') :=
    fun _ => sim_bind_eq (ih.expr _) (fun _ => sim_ite
      (sim_bind (sim_define _) (fun s s' hs => sim_asgOp ih _ _ _ (by rw [hs]; rfl)))
      (sim_asgOp ih _ _ _ h))
  unfold asgRhs
  exact sim_ite (sim_bind_eq (ih.expr _) tail) (tail ())

theorem sim_asgResolve (hρ : Renaming ρ) {d : Nat} (ih : IH ρ d) (l r : Expr) (ident : String) (sels : List Expr)
    (numSel : Nat) (op : String) (isFunc : Bool) :
    Sim ρ Eq (asgResolve d l r ident sels numSel op isFunc)
      (asgResolve d (renameExpr ρ l) (renameExpr ρ r) (ρ ident) (renameExprs ρ sels) numSel op isFunc) := by
  have hRhs : ∀ sy : Option Sym, Sim ρ Eq (asgRhs d l r ident sels numSel op isFunc sy)
      (asgRhs d (renameExpr ρ l) (renameExpr ρ r) (ρ ident) (renameExprs ρ sels) numSel op isFunc
        (sy.map (renSym ρ))) := fun sy => sim_asgRhs ih _ _ _ _ _ _ _ rfl
  have hD : ∀ (sy : Option Sym) (u : Unit), Sim ρ Eq
      (if isFunc = true then do
          let s ← define ident
          asgRhs d l r ident sels numSel op isFunc (some s)
        else asgRhs d l r ident sels numSel op isFunc sy)
      (if isFunc = true then do
          let s ← define (ρ ident)
          asgRhs d (renameExpr ρ l) (renameExpr ρ r) (ρ ident) (renameExprs ρ sels) numSel op isFunc (some s)
        else asgRhs d (renameExpr ρ l) (renameExpr ρ r) (ρ ident) (renameExprs ρ sels) numSel op isFunc
          (sy.map (renSym ρ))) :=
    fun sy _ => sim_ite (sim_bind (sim_define _) (fun s s' hs => by subst hs; exact hRhs (some s))) (hRhs sy)
  unfold asgResolve
  refine sim_bind (sim_resolve hρ ident) (fun rs rs' hr => ?_)
  subst hr
  refine sim_ite ?_ ?_
  · cases rs with
    | none => exact hD _ ()
    | some p =>
      obtain ⟨s, dep⟩ := p
      cases dep with
      | zero => exact sim_ite (sim_cerr_bind_rel (ErrRel.redeclared ident)) (hD _ ())
      | succ n => exact hD _ ()
  · cases rs with
    | none => exact sim_cerr_bind_rel (ErrRel.unresolved ident)
    | some p => exact hRhs _

theorem sim_asgBody (hρ : Renaming ρ) {d : Nat} (ih : IH ρ d) (lhs rhs : List Expr) (op : String) :
    Sim ρ Eq (asgBody d lhs rhs op) (asgBody d (renameExprs ρ lhs) (renameExprs ρ rhs) op) := by
  unfold asgBody
  simp only [renameExprs_length]
  refine sim_ite (sim_cerr_bind _) ?_
  cases lhs with
  | nil => exact sim_throw (ErrRel.same _)
  | cons l ls =>
    cases ls with
    | cons l2 ls => exact sim_throw (ErrRel.same _)
    | nil =>
      cases rhs with
      | nil => exact sim_throw (ErrRel.same _)
      | cons r rs =>
        cases rs with
        | cons r2 rs => exact sim_throw (ErrRel.same _)
        | nil =>
          simp only [renameExprs, resolveAssignLHS_ren hρ, isFuncLit_ren]
          rcases resolveAssignLHS l with ⟨ident, sels⟩
          simp only [renameExprs_length]
          refine sim_ite (sim_cerr_bind _) ?_
          refine sim_ite (sim_cerr_bind _) ?_
          exact sim_asgResolve hρ ih l r ident sels _ op _

theorem assign_succ (hρ : Renaming ρ) {d : Nat} (ih : IH ρ d) (lhs rhs : List Expr) (op : String) :
    Sim ρ Eq (compileAssign (d + 1) lhs rhs op)
      (compileAssign (d + 1) (renameExprs ρ lhs) (renameExprs ρ rhs) op) := by
  rw [compileAssign_succ, compileAssign_succ]
  exact sim_asgBody hρ ih lhs rhs op

end Tengo.Proofs.C11Rename

import Tengo.Proofs.VMAlloc
/-!
C14 on the whole-VM model, part 2: WHICH opcodes can end a dispatch in a run-time error.

* `NoRtM` / `NoRt` / `NoRtX` — error-side triples for the three monad layers: whenever the computation
  fails, the error is not `Err.runtime` (it is a Go panic, an excluded or an unsupported case, or fuel).
* `exec_nort` — a dispatch of an opcode that has no `v.err = …` site in vm.go (`errSiteOps`) never fails
  with `Err.runtime`, in any state.
* `exec_alloc_ops` — a dispatch is counted as a tracked allocation (and so can hit the allocation limit)
  only for CALL and the opcodes of `simpleAllocOps`.
-/
namespace Tengo.Model.VM
open Tengo.Model.Spec Tengo.Model.Opcodes

def NotRt (e : Err) : Prop := ∀ m, e ≠ .runtime m

/-- Error-side triple of the heap monad: a failure is never `Err.runtime`. -/
def NoRtM {α} (m : M α) : Prop := ∀ s e, m.run s = .error e → NotRt e

theorem NoRtM_pure {α} (a : α) : NoRtM (pure a : M α) := by
  intro s e h
  simp [StateT.run, pure, StateT.pure, Except.pure] at h

theorem NoRtM_bind {α β} {x : M α} {f : α → M β} (hx : NoRtM x) (hf : ∀ a, NoRtM (f a)) : NoRtM (x >>= f) := by
  intro s e h
  simp only [StateT.run, bind, StateT.bind, Except.bind] at h
  split at h
  · rename_i e' heq
    cases h
    exact hx s e heq
  · rename_i r heq
    exact hf r.1 r.2 e h

theorem NoRtM_throw {α} {e : Err} (he : NotRt e) : NoRtM (throw e : M α) := by
  intro s e' h
  simp [StateT.run, throw, throwThe, MonadExceptOf.throw, StateT.lift, bind, Except.bind] at h
  subst h
  exact he

theorem NoRtM_get : NoRtM (get : M St) := by
  intro s e h
  simp [StateT.run, get, getThe, MonadStateOf.get, StateT.get, pure, Except.pure] at h

theorem NoRtM_set (s' : St) : NoRtM (set s' : M Unit) := by
  intro s e h
  simp [StateT.run, set, StateT.set, pure, Except.pure] at h

theorem NoRtM_modify (f : St → St) : NoRtM (modify f : M Unit) := by
  intro s e h
  simp [StateT.run, modify, modifyGet, MonadStateOf.modifyGet, StateT.modifyGet, pure, Except.pure] at h

theorem NoRtM_modifyGet {α} (f : St → α × St) : NoRtM (modifyGet f : M α) := by
  intro s e h
  simp [StateT.run, modifyGet, MonadStateOf.modifyGet, StateT.modifyGet, pure, Except.pure] at h

theorem notRt_unsupported (w : String) : NotRt (.unsupported w) := by intro m h; cases h
theorem notRt_excluded (w : String) : NotRt (.excluded w) := by intro m h; cases h
theorem notRt_gopanic (w : String) : NotRt (.gopanic w) := by intro m h; cases h
theorem notRt_fuel : NotRt .fuel := by intro m h; cases h

theorem NoRtM_unsupported {α} (w : String) : NoRtM (unsupported w : M α) := NoRtM_throw (notRt_unsupported w)

macro "nortm_walk0" : tactic => `(tactic| repeat' (first
  | exact NoRtM_pure _ | exact NoRtM_get | exact NoRtM_set _ | exact NoRtM_modify _ | exact NoRtM_modifyGet _
  | exact NoRtM_unsupported _ | exact NoRtM_throw (notRt_excluded _) | exact NoRtM_throw (notRt_unsupported _)
  | exact NoRtM_throw notRt_fuel | exact NoRtM_throw (notRt_gopanic _)
  | assumption
  | (refine NoRtM_bind ?_ (fun _ => ?_))
  | split))

theorem NoRtM_alloc (o : Obj) : NoRtM (alloc o) := by unfold alloc; nortm_walk0
theorem NoRtM_getObj (r : Nat) : NoRtM (getObj r) := by unfold getObj; nortm_walk0
theorem NoRtM_setObj (r : Nat) (o : Obj) : NoRtM (setObj r o) := by unfold setObj; nortm_walk0

macro "nortm_walk" : tactic => `(tactic| repeat' (first
  | exact NoRtM_pure _ | exact NoRtM_get | exact NoRtM_set _ | exact NoRtM_modify _ | exact NoRtM_modifyGet _
  | exact NoRtM_unsupported _ | exact NoRtM_throw (notRt_excluded _) | exact NoRtM_throw (notRt_unsupported _)
  | exact NoRtM_throw notRt_fuel | exact NoRtM_throw (notRt_gopanic _)
  | exact NoRtM_alloc _ | exact NoRtM_getObj _ | exact NoRtM_setObj _ _
  | assumption
  | (refine NoRtM_bind ?_ (fun _ => ?_))
  | split))

theorem NoRtM_arrElems (r : Nat) : NoRtM (arrElems r) := by unfold arrElems; nortm_walk
theorem NoRtM_mapEntries (r : Nat) : NoRtM (mapEntries r) := by unfold mapEntries; nortm_walk

theorem NoRtM_isFalsy (v : Value) : NoRtM (isFalsy v) := by
  unfold isFalsy
  split <;> first | exact NoRtM_pure _ | (refine NoRtM_bind ?_ (fun _ => NoRtM_pure _); first | exact NoRtM_arrElems _ | exact NoRtM_mapEntries _)

theorem NoRtM_foldlM {α β} (f : β → α → M β) (hf : ∀ b a, NoRtM (f b a)) : ∀ (l : List α) (b : β), NoRtM (l.foldlM f b)
  | [], b => by simp only [List.foldlM]; exact NoRtM_pure _
  | a :: l, b => by
    simp only [List.foldlM]
    exact NoRtM_bind (hf b a) (fun b' => NoRtM_foldlM f hf l b')

theorem NoRtM_equalsV : ∀ (d : Nat) (a b : Value), NoRtM (equalsV d a b)
  | 0, a, b => by unfold equalsV; exact NoRtM_throw notRt_fuel
  | d + 1, a, b => by
    have ih := NoRtM_equalsV d
    unfold equalsV
    split
    all_goals first
      | exact NoRtM_pure _
      | (refine NoRtM_bind (NoRtM_arrElems _) (fun _ => NoRtM_bind (NoRtM_arrElems _) (fun _ => ?_))
         split
         · exact NoRtM_pure _
         · apply NoRtM_foldlM
           intro acc pq
           repeat' (first | exact NoRtM_pure _ | exact ih _ _ | split))
      | (refine NoRtM_bind (NoRtM_mapEntries _) (fun _ => NoRtM_bind (NoRtM_mapEntries _) (fun _ => ?_))
         split
         · exact NoRtM_pure _
         · apply NoRtM_foldlM
           intro acc kv
           repeat' (first | exact NoRtM_pure _ | exact ih _ _ | split))

/-! ### the VM monad and the dispatch monad -/

/-- Error-side triple of the VM monad. -/
def NoRt {α} (m : VMM α) : Prop := ∀ g, NoRtM (m.run g)

theorem NoRt_pure {α} (a : α) : NoRt (pure a : VMM α) := fun g => NoRtM_pure (a, g)

theorem NoRt_bind {α β} {x : VMM α} {f : α → VMM β} (hx : NoRt x) (hf : ∀ a, NoRt (f a)) : NoRt (x >>= f) := by
  intro g
  show NoRtM (x.run g >>= fun p => (f p.1).run p.2)
  exact NoRtM_bind (hx g) (fun p => hf p.1 p.2)

theorem NoRt_hp {α} {x : M α} (h : NoRtM x) : NoRt (hp x) := by
  intro g
  show NoRtM (x >>= fun a => pure (a, g))
  exact NoRtM_bind h (fun a => NoRtM_pure _)

theorem NoRt_goPanic {α} (m : String) : NoRt (goPanic m : VMM α) := NoRt_hp (NoRtM_throw (notRt_gopanic m))
theorem NoRt_eUnsup {α} (m : String) : NoRt (eUnsup m : VMM α) := NoRt_hp (NoRtM_unsupported m)

/-- Error-side triple of the dispatch monad. -/
def NoRtX {α} (m : XM α) : Prop := NoRt m.run

theorem NoRtX_pure {α} (a : α) : NoRtX (pure a : XM α) := by
  show NoRt (pure (Except.ok a))
  exact NoRt_pure _

theorem NoRtX_bind {α β} {x : XM α} {f : α → XM β} (hx : NoRtX x) (hf : ∀ a, NoRtX (f a)) : NoRtX (x >>= f) := by
  unfold NoRtX at *
  have hrun : (x >>= f).run = x.run >>= ExceptT.bindCont f := rfl
  rw [hrun]
  refine NoRt_bind hx ?_
  intro r
  cases r with
  | error e => exact NoRt_pure _
  | ok a => exact hf a

theorem NoRtX_em {α} {m : VMM α} (h : NoRt m) : NoRtX (em m) := by
  unfold NoRtX em
  show NoRt (m >>= fun a => pure (Except.ok a))
  exact NoRt_bind h (fun a => NoRt_pure _)

theorem NoRtX_fault {α} (f : Fault) : NoRtX (fault f : XM α) := by
  unfold NoRtX fault
  show NoRt (pure (Except.error f))
  exact NoRt_pure _

theorem NoRtX_need (r : Regs) (k : Nat) : NoRtX (need r k) := by
  unfold need
  split
  · exact NoRtX_fault _
  · exact NoRtX_pure _

theorem NoRtX_unsupE {α} (m : String) : NoRtX (unsupE m : XM α) := NoRtX_em (NoRt_eUnsup m)
theorem NoRtX_panicE {α} (m : String) : NoRtX (panicE m : XM α) := NoRtX_em (NoRt_goPanic m)

theorem NoRt_iterOut {α} : NoRt (iterOut : VMM α) := NoRt_goPanic _

macro "nort_walk0" : tactic => `(tactic| repeat' (first
  | exact NoRt_pure _ | exact NoRt_goPanic _ | exact NoRt_eUnsup _ | exact NoRt_iterOut
  | exact NoRt_hp (NoRtM_getObj _) | exact NoRt_hp (NoRtM_setObj _ _) | exact NoRt_hp (NoRtM_alloc _)
  | exact NoRt_hp (NoRtM_arrElems _) | exact NoRt_hp (NoRtM_mapEntries _)
  | exact NoRt_hp (NoRtM_throw (notRt_excluded _))
  | assumption
  | (with_reducible refine NoRt_bind ?_ (fun _ => ?_))
  | dsimp only
  | split))

theorem NoRt_setSlot (r : Regs) (i : Nat) (v : Value) : NoRt (setSlot r i v) := by unfold setSlot; nort_walk0
theorem NoRt_push (r : Regs) (v : Value) : NoRt (push r v) := by
  unfold push
  exact NoRt_bind (NoRt_setSlot _ _ _) (fun _ => NoRt_pure _)
theorem NoRt_deref (v : Value) : NoRt (deref v) := by unfold deref; nort_walk0
theorem NoRt_iterNext (r : Nat) : NoRt (iterNext r) := by unfold iterNext; nort_walk0
theorem NoRt_iterGet (r : Nat) (k : Bool) : NoRt (iterGet r k) := by
  unfold iterGet
  nort_walk0

macro "nortx_walk" : tactic => `(tactic| repeat' (first
  | (with_reducible exact NoRtX_pure _) | (with_reducible exact NoRtX_fault _) | (with_reducible exact NoRtX_need _ _)
  | (with_reducible exact NoRtX_unsupE _) | (with_reducible exact NoRtX_panicE _)
  | (with_reducible refine NoRtX_em ?_)
  | (with_reducible exact NoRt_pure _) | (with_reducible exact NoRt_push _ _) | (with_reducible exact NoRt_setSlot _ _ _)
  | (with_reducible exact NoRt_deref _) | (with_reducible exact NoRt_iterNext _)
  | (with_reducible exact NoRt_iterGet _ _) | (with_reducible exact NoRt_hp (NoRtM_isFalsy _))
  | (with_reducible exact NoRt_hp (NoRtM_equalsV _ _ _))
  | (with_reducible exact NoRt_hp (NoRtM_setObj _ _)) | (with_reducible exact NoRt_hp (NoRtM_alloc _))
  | (with_reducible refine NoRtX_bind ?_ (fun _ => ?_))
  | (with_reducible refine NoRt_bind ?_ (fun _ => ?_))
  | dsimp only
  | split))

section
variable (code : Code) (fr : Frame) (a0 a1 : Nat) (op : Nat) (r : Regs)

theorem exConstant_nort : NoRtX (exConstant code fr a0 a1 op r) := by
  unfold exConstant; (try dsimp only); nortx_walk

theorem exNull_nort : NoRtX (exNull code fr a0 a1 op r) := by
  unfold exNull; (try dsimp only); nortx_walk

theorem exTrue_nort : NoRtX (exTrue code fr a0 a1 op r) := by
  unfold exTrue; (try dsimp only); nortx_walk

theorem exFalse_nort : NoRtX (exFalse code fr a0 a1 op r) := by
  unfold exFalse; (try dsimp only); nortx_walk

theorem exPop_nort : NoRtX (exPop code fr a0 a1 op r) := by
  unfold exPop; (try dsimp only); nortx_walk

theorem exEqual_nort : NoRtX (exEqual code fr a0 a1 op r) := by
  unfold exEqual; (try dsimp only); nortx_walk

theorem exLNot_nort : NoRtX (exLNot code fr a0 a1 op r) := by
  unfold exLNot; (try dsimp only); nortx_walk

theorem exJumpFalsy_nort : NoRtX (exJumpFalsy code fr a0 a1 op r) := by
  unfold exJumpFalsy; (try dsimp only); nortx_walk

theorem exAndJump_nort : NoRtX (exAndJump code fr a0 a1 op r) := by
  unfold exAndJump; (try dsimp only); nortx_walk

theorem exOrJump_nort : NoRtX (exOrJump code fr a0 a1 op r) := by
  unfold exOrJump; (try dsimp only); nortx_walk

theorem exJump_nort : NoRtX (exJump code fr a0 a1 op r) := by
  unfold exJump; (try dsimp only); nortx_walk

theorem exSetGlobal_nort : NoRtX (exSetGlobal code fr a0 a1 op r) := by
  unfold exSetGlobal; (try dsimp only); nortx_walk

theorem exGetGlobal_nort : NoRtX (exGetGlobal code fr a0 a1 op r) := by
  unfold exGetGlobal; (try dsimp only); nortx_walk

theorem exDefineLocal_nort : NoRtX (exDefineLocal code fr a0 a1 op r) := by
  unfold exDefineLocal; (try dsimp only); nortx_walk

theorem exSetLocal_nort : NoRtX (exSetLocal code fr a0 a1 op r) := by
  unfold exSetLocal; (try dsimp only); nortx_walk

theorem exGetLocal_nort : NoRtX (exGetLocal code fr a0 a1 op r) := by
  unfold exGetLocal; (try dsimp only); nortx_walk

theorem exGetBuiltin_nort : NoRtX (exGetBuiltin code fr a0 a1 op r) := by
  unfold exGetBuiltin; (try dsimp only); nortx_walk

theorem exGetFreePtr_nort : NoRtX (exGetFreePtr code fr a0 a1 op r) := by
  unfold exGetFreePtr; (try dsimp only); nortx_walk

theorem exGetFree_nort : NoRtX (exGetFree code fr a0 a1 op r) := by
  unfold exGetFree; (try dsimp only); nortx_walk

theorem exSetFree_nort : NoRtX (exSetFree code fr a0 a1 op r) := by
  unfold exSetFree; (try dsimp only); nortx_walk

theorem exGetLocalPtr_nort : NoRtX (exGetLocalPtr code fr a0 a1 op r) := by
  unfold exGetLocalPtr; (try dsimp only); nortx_walk

theorem exIteratorNext_nort : NoRtX (exIteratorNext code fr a0 a1 op r) := by
  unfold exIteratorNext; (try dsimp only); nortx_walk

theorem exIteratorKey_nort : NoRtX (exIteratorKey code fr a0 a1 op r) := by
  unfold exIteratorKey; (try dsimp only); nortx_walk

end

theorem execReturn_nort (a0 : Nat) (c : Core) : NoRtX (execReturn a0 c) := by
  unfold execReturn; (try dsimp only); nortx_walk

/-- The opcodes with a `v.err = …` site in `VM.run` (the rows of `Tengo.Model.SrcPos.ipAdvance`; tied to that
table by `Tengo.Props.C14VM.err_site_ops_match`). -/
def errSiteOps : List Nat := [opBinaryOp, opBComplement, opMinus, opSetSelGlobal, opArray, opMap, opError, opImmutable,
  opIndex, opSliceIndex, opCall, opSetSelLocal, opClosure, opSetSelFree, opIteratorInit]

/-- **No other simple instruction ever fails with a run-time error**, in any state. -/
theorem execSimple_nort (code : Code) (fr : Frame) (a0 a1 : Nat) (op : Nat) (r : Regs)
    (hop : op ∉ errSiteOps) : NoRtX (execSimple code fr a0 a1 op r) := by
  by_cases hConstant : op = opConstant
  · subst hConstant; rw [execSimple_Constant]; exact exConstant_nort code fr a0 a1 _ r
  by_cases hNull : op = opNull
  · subst hNull; rw [execSimple_Null]; exact exNull_nort code fr a0 a1 _ r
  by_cases hTrue : op = opTrue
  · subst hTrue; rw [execSimple_True]; exact exTrue_nort code fr a0 a1 _ r
  by_cases hFalse : op = opFalse
  · subst hFalse; rw [execSimple_False]; exact exFalse_nort code fr a0 a1 _ r
  by_cases hPop : op = opPop
  · subst hPop; rw [execSimple_Pop]; exact exPop_nort code fr a0 a1 _ r
  by_cases hBinaryOp : op = opBinaryOp
  · subst hBinaryOp; exact absurd (by decide) hop
  by_cases hEqual : op = opEqual
  · subst hEqual; rw [execSimple_Equal]; exact exEqual_nort code fr a0 a1 _ r
  by_cases hNotEqual : op = opNotEqual
  · subst hNotEqual; rw [execSimple_NotEqual]; exact exEqual_nort code fr a0 a1 _ r
  by_cases hLNot : op = opLNot
  · subst hLNot; rw [execSimple_LNot]; exact exLNot_nort code fr a0 a1 _ r
  by_cases hBComplement : op = opBComplement
  · subst hBComplement; exact absurd (by decide) hop
  by_cases hMinus : op = opMinus
  · subst hMinus; exact absurd (by decide) hop
  by_cases hJumpFalsy : op = opJumpFalsy
  · subst hJumpFalsy; rw [execSimple_JumpFalsy]; exact exJumpFalsy_nort code fr a0 a1 _ r
  by_cases hAndJump : op = opAndJump
  · subst hAndJump; rw [execSimple_AndJump]; exact exAndJump_nort code fr a0 a1 _ r
  by_cases hOrJump : op = opOrJump
  · subst hOrJump; rw [execSimple_OrJump]; exact exOrJump_nort code fr a0 a1 _ r
  by_cases hJump : op = opJump
  · subst hJump; rw [execSimple_Jump]; exact exJump_nort code fr a0 a1 _ r
  by_cases hSetGlobal : op = opSetGlobal
  · subst hSetGlobal; rw [execSimple_SetGlobal]; exact exSetGlobal_nort code fr a0 a1 _ r
  by_cases hGetGlobal : op = opGetGlobal
  · subst hGetGlobal; rw [execSimple_GetGlobal]; exact exGetGlobal_nort code fr a0 a1 _ r
  by_cases hSetSelGlobal : op = opSetSelGlobal
  · subst hSetSelGlobal; exact absurd (by decide) hop
  by_cases hArray : op = opArray
  · subst hArray; exact absurd (by decide) hop
  by_cases hMap : op = opMap
  · subst hMap; exact absurd (by decide) hop
  by_cases hError : op = opError
  · subst hError; exact absurd (by decide) hop
  by_cases hImmutable : op = opImmutable
  · subst hImmutable; exact absurd (by decide) hop
  by_cases hIndex : op = opIndex
  · subst hIndex; exact absurd (by decide) hop
  by_cases hSliceIndex : op = opSliceIndex
  · subst hSliceIndex; exact absurd (by decide) hop
  by_cases hDefineLocal : op = opDefineLocal
  · subst hDefineLocal; rw [execSimple_DefineLocal]; exact exDefineLocal_nort code fr a0 a1 _ r
  by_cases hSetLocal : op = opSetLocal
  · subst hSetLocal; rw [execSimple_SetLocal]; exact exSetLocal_nort code fr a0 a1 _ r
  by_cases hSetSelLocal : op = opSetSelLocal
  · subst hSetSelLocal; exact absurd (by decide) hop
  by_cases hGetLocal : op = opGetLocal
  · subst hGetLocal; rw [execSimple_GetLocal]; exact exGetLocal_nort code fr a0 a1 _ r
  by_cases hGetBuiltin : op = opGetBuiltin
  · subst hGetBuiltin; rw [execSimple_GetBuiltin]; exact exGetBuiltin_nort code fr a0 a1 _ r
  by_cases hClosure : op = opClosure
  · subst hClosure; exact absurd (by decide) hop
  by_cases hGetFreePtr : op = opGetFreePtr
  · subst hGetFreePtr; rw [execSimple_GetFreePtr]; exact exGetFreePtr_nort code fr a0 a1 _ r
  by_cases hGetFree : op = opGetFree
  · subst hGetFree; rw [execSimple_GetFree]; exact exGetFree_nort code fr a0 a1 _ r
  by_cases hSetFree : op = opSetFree
  · subst hSetFree; rw [execSimple_SetFree]; exact exSetFree_nort code fr a0 a1 _ r
  by_cases hGetLocalPtr : op = opGetLocalPtr
  · subst hGetLocalPtr; rw [execSimple_GetLocalPtr]; exact exGetLocalPtr_nort code fr a0 a1 _ r
  by_cases hSetSelFree : op = opSetSelFree
  · subst hSetSelFree; exact absurd (by decide) hop
  by_cases hIteratorInit : op = opIteratorInit
  · subst hIteratorInit; exact absurd (by decide) hop
  by_cases hIteratorNext : op = opIteratorNext
  · subst hIteratorNext; rw [execSimple_IteratorNext]; exact exIteratorNext_nort code fr a0 a1 _ r
  by_cases hIteratorKey : op = opIteratorKey
  · subst hIteratorKey; rw [execSimple_IteratorKey]; exact exIteratorKey_nort code fr a0 a1 _ r
  by_cases hIteratorValue : op = opIteratorValue
  · subst hIteratorValue; rw [execSimple_IteratorValue]; exact exIteratorKey_nort code fr a0 a1 _ r
  have : execSimple code fr a0 a1 op r = fault (.unknownOpcode op) := by
    unfold execSimple
    simp [*]
  rw [this]
  exact NoRtX_fault _

/-- **A dispatch of an opcode without an error site never fails with `Err.runtime`.** -/
theorem exec_nort (code : Code) (c : Core)
    (h : ∀ f, code.fn c.cur.fnIdx = some f → byteAt f (c.cur.ip + 1) ∉ errSiteOps) : NoRtX (exec code c) := by
  unfold exec
  split
  · rename_i f hf
    have hop := h f hf
    rw [← fetch_op] at hop
    dsimp only
    split
    · exact NoRtX_fault _
    · split
      · rename_i hcall
        exfalso
        apply hop
        have : (fetch f (c.cur.ip + 1)).op = opCall := by simpa using hcall
        rw [this]; decide
      · split
        · exact execReturn_nort _ c
        · split
          · exact NoRtX_pure _
          · exact NoRtX_bind (execSimple_nort code c.cur _ _ _ c.regs hop) (fun o => NoRtX_pure _)
  · exact NoRtX_fault _

/-- **Only CALL and the allocating opcodes are counted** (so only they can hit the allocation limit). -/
theorem exec_alloc_ops (code : Code) (c : Core) :
    PostX (exec code c) (fun o => ∀ c', o = .next c' true →
      ∃ f, code.fn c.cur.fnIdx = some f ∧
        (byteAt f (c.cur.ip + 1) = opCall ∨ byteAt f (c.cur.ip + 1) ∈ simpleAllocOps)) := by
  unfold exec
  split
  · rename_i f hf
    dsimp only
    split
    · exact PostX_fault _
    · split
      · rename_i hcall
        refine PostX_mono (PostX_true _) ?_
        intro o _ c' _
        exact ⟨f, hf, Or.inl (by rw [← fetch_op]; simpa using hcall)⟩
      · split
        · refine PostX_mono (execReturn_noalloc _ c) ?_
          intro o ho c' hc'
          have := ho c' true hc'
          cases this
        · split
          · apply PostX_pure
            intro c' hc'
            cases hc'
          · by_cases hop : (fetch f (c.cur.ip + 1)).op ∈ simpleAllocOps
            · refine PostX_mono (PostX_true _) ?_
              intro o _ c' _
              exact ⟨f, hf, Or.inr (by rw [← fetch_op]; exact hop)⟩
            · refine PostX_bind (execSimple_noalloc code c.cur _ _ _ c.regs hop) ?_
              intro o ho
              apply PostX_pure
              intro c' hc'
              injection hc' with _ h2
              rw [ho] at h2
              cases h2
  · exact PostX_fault _

/-! ### from the run to the failing dispatch -/

/-- A run that ends `.failed e at_` ends so because the dispatch of `at_` returned the error `e`. -/
theorem run_failed_exec (code : Code) (keep : Nat) (e : Err) (at_ : Cfg) :
    ∀ (fuel : Nat) (allocs : Int) (cfg : Cfg) (log : Log), (run code keep fuel allocs cfg log).1 = .failed e at_ →
      (((exec code at_.core).run).run at_.gst).run at_.heap = .error e := by
  intro fuel
  induction fuel with
  | zero => intro allocs cfg log h; simp [run] at h
  | succ fuel ih =>
    intro allocs cfg log h
    rw [run_succ] at h
    split at h
    · rename_i e' heq
      simp only [Outcome.failed.injEq] at h
      obtain ⟨rfl, rfl⟩ := h
      exact heq
    · cases h
    · cases h
    · exact ih _ _ _ h
    · split at h
      · cases h
      · exact ih _ _ _ h

/-- A run that ends `.limit at_` ends so because the dispatch of `at_` was a tracked allocation. -/
theorem run_limit_exec (code : Code) (keep : Nat) (at_ : Cfg) :
    ∀ (fuel : Nat) (allocs : Int) (cfg : Cfg) (log : Log), (run code keep fuel allocs cfg log).1 = .limit at_ →
      ∃ c g h, (((exec code at_.core).run).run at_.gst).run at_.heap = .ok ((.ok (.next c true), g), h) := by
  intro fuel
  induction fuel with
  | zero => intro allocs cfg log h; simp [run] at h
  | succ fuel ih =>
    intro allocs cfg log h
    rw [run_succ] at h
    split at h
    · cases h
    · cases h
    · cases h
    · exact ih _ _ _ h
    · rename_i c g hh heq
      split at h
      · simp only [Outcome.limit.injEq] at h
        subst h
        exact ⟨c, g, hh, heq⟩
      · exact ih _ _ _ h

/-- **Which opcode failed.** If a run ends in a run-time error (`Err.runtime`, vm.go's `v.err`) or in the
allocation-limit error, the opcode byte at the failing frame's `ip + 1` is one of `errSiteOps`. -/
theorem run_error_site (code : Code) (keep fuel : Nat) (allocs : Int) (cfg : Cfg) (log : Log) (at_ : Cfg)
    (h : (∃ m, (run code keep fuel allocs cfg log).1 = .failed (.runtime m) at_) ∨
         (run code keep fuel allocs cfg log).1 = .limit at_) :
    ∃ f, code.fn at_.core.cur.fnIdx = some f ∧ byteAt f (at_.core.cur.ip + 1) ∈ errSiteOps := by
  rcases h with ⟨m, h⟩ | h
  · have hex := run_failed_exec code keep _ at_ fuel allocs cfg log h
    apply Classical.byContradiction
    intro hne
    have hn : NoRtX (exec code at_.core) := by
      apply exec_nort
      intro f hf hmem
      exact hne ⟨f, hf, hmem⟩
    exact hn at_.gst at_.heap _ hex m rfl
  · obtain ⟨c, g, hh, hex⟩ := run_limit_exec code keep at_ fuel allocs cfg log h
    obtain ⟨f, hf, hop⟩ := exec_alloc_ops code at_.core at_.gst at_.heap _ g hh hex _ rfl c rfl
    refine ⟨f, hf, ?_⟩
    rcases hop with hop | hop
    · rw [hop]; decide
    · have : ∀ op ∈ simpleAllocOps, op ∈ errSiteOps := by decide
      exact this _ hop

end Tengo.Model.VM

import Tengo.Proofs.C01BridgeF2SpecStmt
import Tengo.Proofs.C01ConverseStmt
/-!
C01 bridge for fragment F2, converse direction (statements). For EVERY fuel `F` of the reference interpreter, on
an embedded F2 statement (list, block, loop) the interpreter either runs out of fuel, or ends exactly as the
fragment's evaluator `F2.exec vmSem` ends WITH EVERY FUEL `f ≥ F` (`all_conv2`): one result `r ≠ out` of the
evaluator at all those fuels, and the interpreter's run is related to `r` as in the forward direction
(`SimRes2`: `done` / `brk` / `cont` are the flows `normal` / `brk` / `cont` with the slot cells holding the
result's globals, `err` is a failure other than fuel exhaustion). So an interpreter run that does not end in fuel
exhaustion forces the fragment's evaluator to terminate.
-/
set_option linter.unusedVariables false
set_option linter.unusedSimpArgs false
namespace Tengo.Proofs.C01Bridge
open Tengo.Model Tengo.Model.Spec Tengo.Model.F0
open Tengo.Proofs.C11Rename (isFuncLit)

section
variable (names : Nat → String) (ctab : Nat → F0.Const) (n : Nat) (cells : Nat → Nat)

/-- The interpreter computation `x` with fuel `F` against the fragment evaluator's results `R f`: out of fuel; or
one result `r ≠ out` with `R f = r` for every `f ≥ F`, and `x` runs as `r` says. -/
def ConvRes2 {α : Type} (x : EM α) (mk : Flow → α) (gs : GSt) (σ : St) (F : Nat) (R : Nat → F2.Res SV) : Prop :=
  EErr x gs σ Err.fuel ∨
  ∃ r, r ≠ F2.Res.out ∧ (∀ f, F ≤ f → R f = r) ∧ SimRes2 n cells x mk gs σ r

def StmtConv2 (F : Nat) (st : F2.Stm) : Prop :=
  ∀ (ctx : Ctx) (gs : GSt) (σ : St) (g : Nat → SV) (k : Nat),
    EnvOK names n cells ctx.env → HeapOK n cells g σ → wfS2 n k st = true → simplePostS st = true →
    ConvRes2 n cells (execStmt F ctx (toAstS2 names ctab st)) (fun fl => (fl, ctx.env)) gs σ F
      (fun f => F2.exec vmSem (svConst ctab) f (.inl st) g)

def StmtsConv2 (F : Nat) (ss : F2.Stms) : Prop :=
  ∀ (ctx : Ctx) (gs : GSt) (σ : St) (g : Nat → SV) (k i : Nat),
    EnvOK names n cells ctx.env → HeapOK n cells g σ → wfSs2 n k ss = true → simplePostSs ss = true →
    ConvRes2 n cells (execStmts F ctx (toAstSs2 names ctab ss) i) (fun fl => (fl, ctx.env)) gs σ F
      (fun f => F2.exec vmSem (svConst ctab) f (.inr ss) g)

def BlockConv2 (F : Nat) (ss : F2.Stms) : Prop :=
  ∀ (ctx : Ctx) (gs : GSt) (σ : St) (g : Nat → SV) (k tag : Nat),
    EnvOK names n cells ctx.env → HeapOK n cells g σ → wfSs2 n k ss = true → simplePostSs ss = true →
    ConvRes2 n cells (execBlock F ctx (toAstSs2 names ctab ss) tag) (fun fl => fl) gs σ F
      (fun f => F2.exec vmSem (svConst ctab) f (.inr ss) g)

def WhileConv2 (F : Nat) (c : Ex) (body : F2.Stms) : Prop :=
  ∀ (ctx : Ctx) (gs : GSt) (σ : St) (g : Nat → SV) (k : Nat),
    EnvOK names n cells ctx.env → HeapOK n cells g σ → wfS2 n k (.whil c body) = true →
    simplePostS (.whil c body) = true →
    ConvRes2 n cells (loopFor F ctx (some (toAstE names ctab c)) none (toAstSs2 names ctab body)) (fun fl => fl)
      gs σ F (fun f => F2.exec vmSem (svConst ctab) f (.inl (.whil c body)) g)

def ForeverConv2 (F : Nat) (body : F2.Stms) : Prop :=
  ∀ (ctx : Ctx) (gs : GSt) (σ : St) (g : Nat → SV) (k : Nat),
    EnvOK names n cells ctx.env → HeapOK n cells g σ → wfS2 n k (.forever body) = true →
    simplePostS (.forever body) = true →
    ConvRes2 n cells (loopFor F ctx none none (toAstSs2 names ctab body)) (fun fl => fl)
      gs σ F (fun f => F2.exec vmSem (svConst ctab) f (.inl (.forever body)) g)

def For3Conv2 (F : Nat) (c : Ex) (body : F2.Stms) (post : F2.Stm) : Prop :=
  ∀ (ctx : Ctx) (gs : GSt) (σ : St) (g : Nat → SV) (k : Nat),
    EnvOK names n cells ctx.env → HeapOK n cells g σ → wfS2 n k (.for3 c body post) = true →
    simplePostS (.for3 c body post) = true →
    ConvRes2 n cells (loopFor F ctx (some (toAstE names ctab c)) (some (toAstS2 names ctab post))
        (toAstSs2 names ctab body)) (fun fl => fl)
      gs σ F (fun f => F2.exec vmSem (svConst ctab) f (.inl (.for3 c body post)) g)

variable {names ctab n cells}

theorem ConvRes2.bind_ok {α β : Type} {x : EM α} {f : α → EM β} {mk : Flow → β} {gs : GSt} {σ σ1 : St} {a : α}
    {F : Nat} {R : Nat → F2.Res SV} (h1 : EOk x gs σ a σ1) (h2 : ConvRes2 n cells (f a) mk gs σ1 F R) :
    ConvRes2 n cells (x >>= f) mk gs σ F R := by
  rcases h2 with hf | ⟨r, hne, hR, hs⟩
  · exact .inl (EErr.bind_right h1 hf)
  · exact .inr ⟨r, hne, hR, SimRes2.bind_ok h1 hs⟩

theorem ConvRes2.wrap {α β : Type} {x : EM α} {f : α → EM β} {mk : Flow → α} {mk' : Flow → β} {gs : GSt} {σ : St}
    {F : Nat} {R : Nat → F2.Res SV} (h : ConvRes2 n cells x mk gs σ F R)
    (hf : ∀ fl σ', EOk (f (mk fl)) gs σ' (mk' fl) σ') : ConvRes2 n cells (x >>= f) mk' gs σ F R := by
  rcases h with hfu | ⟨r, hne, hR, hs⟩
  · exact .inl (EErr.bind_left hfu)
  · exact .inr ⟨r, hne, hR, hs.wrap hf⟩

/-- One more unit of fuel on both sides. -/
theorem ConvRes2.lift {α : Type} {x : EM α} {mk : Flow → α} {gs : GSt} {σ : St} {F : Nat}
    {R R' : Nat → F2.Res SV} (h : ConvRes2 n cells x mk gs σ F R) (hstep : ∀ f, F ≤ f → R' (f + 1) = R f) :
    ConvRes2 n cells x mk gs σ (F + 1) R' := by
  rcases h with hfu | ⟨r, hne, hR, hs⟩
  · exact .inl hfu
  · refine .inr ⟨r, hne, fun f hf => ?_, hs⟩
    obtain ⟨f', rfl, hf'⟩ := fuel_succ hf
    rw [hstep f' hf', hR f' hf']

theorem ConvRes2.mono {α : Type} {x : EM α} {mk : Flow → α} {gs : GSt} {σ : St} {F F' : Nat}
    {R : Nat → F2.Res SV} (h : ConvRes2 n cells x mk gs σ F R) (hF : F ≤ F') :
    ConvRes2 n cells x mk gs σ F' R := by
  rcases h with hfu | ⟨r, hne, hR, hs⟩
  · exact .inl hfu
  · exact .inr ⟨r, hne, fun f hf => hR f (by omega), hs⟩

theorem res_done_ne (g : Nat → SV) : F2.Res.done g ≠ F2.Res.out := by intro h; cases h
theorem res_brk_ne (g : Nat → SV) : F2.Res.brk g ≠ F2.Res.out := by intro h; cases h
theorem res_cont_ne (g : Nat → SV) : F2.Res.cont g ≠ F2.Res.out := by intro h; cases h
theorem res_err_ne : (F2.Res.err : F2.Res SV) ≠ F2.Res.out := by intro h; cases h

theorem blockConv2_zero (ss : F2.Stms) : BlockConv2 names ctab n cells 0 ss :=
  fun ctx gs σ g k tag he hh hw hsp => .inl (execBlock_zero _ _ _ _ _)

theorem blockConv2_of {F : Nat} {ss : F2.Stms} (h : StmtsConv2 names ctab n cells F ss) :
    BlockConv2 names ctab n cells (F + 1) ss := by
  intro ctx gs σ g k tag he hh hw hsp
  cases ss with
  | nil =>
    simp only [toAstSs2, execBlock.eq_2]
    refine .inr ⟨.done g, res_done_ne g, fun f hf => ?_, ⟨σ, EOk.pure _ gs σ, hh⟩⟩
    obtain ⟨f', rfl, _⟩ := fuel_succ hf
    simp only [F2.exec]
  | cons st ss =>
    rw [toAstSs2, execBlock.eq_3 _ _ _ _ (by simp), ← toAstSs2]
    refine ConvRes2.mono ?_ (Nat.le_succ F)
    exact (h { env := { vars := [] } :: ctx.env, callDepth := ctx.callDepth, path := tag :: ctx.path }
      gs σ g k 0 he.push hh hw hsp).wrap (fun fl σ' => EOk.pure _ gs σ')

theorem stmtConv2_expr (F : Nat) (e : Ex) : StmtConv2 names ctab n cells (F + 1) (.expr e) := by
  intro ctx gs σ g k he hh hw hsp
  simp only [wfS2] at hw
  simp only [toAstS2, ex_expr]
  rcases evalTri (names := names) (ctab := ctab) (cells := cells) e F ctx gs σ g k he hh hw with hf | ⟨h1, h2⟩
  · exact .inl (EErr.bind_left hf)
  · cases hev : eval vmSem (svConst ctab) g e with
    | none =>
      obtain ⟨err, hne, herr⟩ := h2 hev
      refine .inr ⟨.err, res_err_ne, fun f hf => ?_, SimRes2.err_left hne herr⟩
      obtain ⟨f', rfl, _⟩ := fuel_succ hf
      simp only [F2.exec, hev]
    | some v =>
      refine .inr ⟨.done g, res_done_ne g, fun f hf => ?_, ⟨σ, EOk.bind (h1 v hev) (EOk.pure _ gs σ), hh⟩⟩
      obtain ⟨f', rfl, _⟩ := fuel_succ hf
      simp only [F2.exec, hev]

theorem stmtConv2_assign (F : Nat) (i : Nat) (e : Ex) : StmtConv2 names ctab n cells (F + 1) (.assign i e) := by
  intro ctx gs σ g k he hh hw hsp
  simp only [wfS2, Bool.and_eq_true, decide_eq_true_eq] at hw
  obtain ⟨hi, hwe⟩ := hw
  simp only [toAstS2, ex_assign _ _ _ _ (isFuncLit_toAstE names ctab e)]
  rcases evalTri (names := names) (ctab := ctab) (cells := cells) e F ctx gs σ g k he hh hwe with hf | ⟨h1, h2⟩
  · exact .inl (EErr.bind_left hf)
  · cases hev : eval vmSem (svConst ctab) g e with
    | none =>
      obtain ⟨err, hne, herr⟩ := h2 hev
      refine .inr ⟨.err, res_err_ne, fun f hf => ?_, SimRes2.err_left hne herr⟩
      obtain ⟨f', rfl, _⟩ := fuel_succ hf
      simp only [F2.exec, hev]
    | some v =>
      cases F with
      | zero => exact .inl (EErr.bind_right (h1 v hev) (EErr.bind_left (assignTo_zero _ _ _ _ _ _)))
      | succ F =>
        simp only [ex_assignTo]
        obtain ⟨σ', hw', hh'⟩ := writeVar_ok he hh hi v gs
        refine .inr ⟨.done (upd g i v), res_done_ne _, fun f hf => ?_, ⟨σ',
          EOk.bind (h1 v hev) (EOk.bind (EOk.bind hw' (EOk.pure _ gs σ')) (EOk.pure _ gs σ')), hh'⟩⟩
        obtain ⟨f', rfl, _⟩ := fuel_succ hf
        simp only [F2.exec, hev]

theorem stmtConv2_brk (F : Nat) : StmtConv2 names ctab n cells (F + 1) .brk := by
  intro ctx gs σ g k he hh hw hsp
  simp only [toAstS2, ex_branch_break]
  refine .inr ⟨.brk g, res_brk_ne g, fun f hf => ?_, ⟨σ, EOk.pure _ gs σ, hh⟩⟩
  obtain ⟨f', rfl, _⟩ := fuel_succ hf
  simp only [F2.exec]

theorem stmtConv2_cont (F : Nat) : StmtConv2 names ctab n cells (F + 1) .cont := by
  intro ctx gs σ g k he hh hw hsp
  simp only [toAstS2, ex_branch_continue]
  refine .inr ⟨.cont g, res_cont_ne g, fun f hf => ?_, ⟨σ, EOk.pure _ gs σ, hh⟩⟩
  obtain ⟨f', rfl, _⟩ := fuel_succ hf
  simp only [F2.exec]

theorem stmtConv2_ifs (F : Nat) (c : Ex) (body : F2.Stms) (hb : BlockConv2 names ctab n cells F body) :
    StmtConv2 names ctab n cells (F + 1) (.ifs c body) := by
  intro ctx gs σ g k he hh hw hsp
  simp only [wfS2, Bool.and_eq_true] at hw
  obtain ⟨hwc, hwb⟩ := hw
  simp only [simplePostS] at hsp
  simp only [toAstS2, ex_ifs]
  rcases evalTri (names := names) (ctab := ctab) (cells := cells) c F
    { ctx with env := { vars := [] } :: ctx.env } gs σ g k he.push hh hwc with hf | ⟨h1, h2⟩
  · exact .inl (EErr.bind_left hf)
  · cases hev : eval vmSem (svConst ctab) g c with
    | none =>
      obtain ⟨err, hne, herr⟩ := h2 hev
      refine .inr ⟨.err, res_err_ne, fun f hf => ?_, SimRes2.err_left hne herr⟩
      obtain ⟨f', rfl, _⟩ := fuel_succ hf
      simp only [F2.exec, hev]
    | some a =>
      have hfal := EOk.lift (gs := gs) (isFalsy_sem a σ)
      cases hfa : vmSem.falsy a with
      | true =>
        rw [hfa] at hfal
        refine .inr ⟨.done g, res_done_ne g, fun f hf => ?_,
          ⟨σ, EOk.bind (h1 a hev) (EOk.bind hfal (EOk.pure _ gs σ)), hh⟩⟩
        obtain ⟨f', rfl, _⟩ := fuel_succ hf
        simp only [F2.exec, hev, hfa, if_true]
      | false =>
        rw [hfa] at hfal
        refine ConvRes2.bind_ok (h1 a hev) (ConvRes2.bind_ok hfal ?_)
        refine ConvRes2.lift (R := fun f => F2.exec vmSem (svConst ctab) f (.inr body) g) ?_
          (fun f hf => by simp only [F2.exec, hev, hfa, Bool.false_eq_true, if_false])
        exact (hb { ctx with env := { vars := [] } :: ctx.env } gs σ g _ 1 he.push hh hwb hsp).wrap
          (fun fl σ' => EOk.pure _ gs σ')

theorem stmtConv2_ifelse_one (c : Ex) (body els : F2.Stms) :
    StmtConv2 names ctab n cells 1 (.ifelse c body els) := by
  intro ctx gs σ g k he hh hw hsp
  simp only [toAstS2, ex_ifelse']
  exact .inl (EErr.bind_left (evalExpr_zero _ _ _ _))

theorem stmtConv2_ifelse (F : Nat) (c : Ex) (body els : F2.Stms) (hb : BlockConv2 names ctab n cells (F + 1) body)
    (hel : BlockConv2 names ctab n cells F els) : StmtConv2 names ctab n cells (F + 1 + 1) (.ifelse c body els) := by
  intro ctx gs σ g k he hh hw hsp
  simp only [wfS2, Bool.and_eq_true] at hw
  obtain ⟨⟨hwc, hwb⟩, hwe⟩ := hw
  simp only [simplePostS, Bool.and_eq_true] at hsp
  simp only [toAstS2, ex_ifelse]
  rcases evalTri (names := names) (ctab := ctab) (cells := cells) c (F + 1)
    { ctx with env := { vars := [] } :: ctx.env } gs σ g k he.push hh hwc with hf | ⟨h1, h2⟩
  · exact .inl (EErr.bind_left hf)
  · cases hev : eval vmSem (svConst ctab) g c with
    | none =>
      obtain ⟨err, hne, herr⟩ := h2 hev
      refine .inr ⟨.err, res_err_ne, fun f hf => ?_, SimRes2.err_left hne herr⟩
      obtain ⟨f', rfl, _⟩ := fuel_succ hf
      simp only [F2.exec, hev]
    | some a =>
      have hfal := EOk.lift (gs := gs) (isFalsy_sem a σ)
      cases hfa : vmSem.falsy a with
      | true =>
        rw [hfa] at hfal
        refine ConvRes2.bind_ok (h1 a hev) (ConvRes2.bind_ok hfal ?_)
        have hx := (hel { env := { vars := [] } :: ctx.env, callDepth := ctx.callDepth, path := 2 :: ctx.path }
          gs σ g _ 0 he.push hh hwe hsp.2).wrap
          (f := fun fl => (pure (fl, ({ vars := [] } : Spec.Frame) :: ctx.env) : EM (Flow × Env)))
          (mk' := fun fl => (fl, ({ vars := [] } : Spec.Frame) :: ctx.env)) (fun fl σ' => EOk.pure _ gs σ')
        refine ConvRes2.mono (ConvRes2.lift (R := fun f => F2.exec vmSem (svConst ctab) f (.inr els) g) ?_
          (fun f hf => by simp only [F2.exec, hev, hfa, if_true])) (Nat.le_succ (F + 1))
        exact hx.wrap (fun fl σ' => EOk.pure _ gs σ')
      | false =>
        rw [hfa] at hfal
        refine ConvRes2.bind_ok (h1 a hev) (ConvRes2.bind_ok hfal ?_)
        refine ConvRes2.lift (R := fun f => F2.exec vmSem (svConst ctab) f (.inr body) g) ?_
          (fun f hf => by simp only [F2.exec, hev, hfa, Bool.false_eq_true, if_false])
        exact (hb { ctx with env := { vars := [] } :: ctx.env } gs σ g _ 1 he.push hh hwb hsp.1).wrap
          (fun fl σ' => EOk.pure _ gs σ')

theorem whileConv2_zero (c : Ex) (body : F2.Stms) : WhileConv2 names ctab n cells 0 c body :=
  fun ctx gs σ g k he hh hw hsp => .inl (loopFor_zero _ _ _ _ _ _)

theorem foreverConv2_zero (body : F2.Stms) : ForeverConv2 names ctab n cells 0 body :=
  fun ctx gs σ g k he hh hw hsp => .inl (loopFor_zero _ _ _ _ _ _)

theorem for3Conv2_zero (c : Ex) (body : F2.Stms) (post : F2.Stm) : For3Conv2 names ctab n cells 0 c body post :=
  fun ctx gs σ g k he hh hw hsp => .inl (loopFor_zero _ _ _ _ _ _)

theorem whileConv2_succ (F : Nat) (c : Ex) (body : F2.Stms) (hb : BlockConv2 names ctab n cells F body)
    (hloop : WhileConv2 names ctab n cells F c body) : WhileConv2 names ctab n cells (F + 1) c body := by
  intro ctx gs σ g k he hh hw hsp
  have hw0 := hw
  have hsp0 := hsp
  simp only [wfS2, Bool.and_eq_true] at hw
  obtain ⟨hwc, hwb⟩ := hw
  simp only [simplePostS] at hsp
  simp only [ex_loop_some]
  rcases evalTri (names := names) (ctab := ctab) (cells := cells) c F ctx gs σ g k he hh hwc with hf | ⟨h1, h2⟩
  · exact .inl (EErr.bind_left hf)
  · cases hev : eval vmSem (svConst ctab) g c with
    | none =>
      obtain ⟨err, hne, herr⟩ := h2 hev
      refine .inr ⟨.err, res_err_ne, fun f hf => ?_, SimRes2.err_left hne herr⟩
      obtain ⟨f', rfl, _⟩ := fuel_succ hf
      simp only [F2.exec, hev]
    | some a =>
      have hfal := EOk.lift (gs := gs) (isFalsy_sem a σ)
      cases hfa : vmSem.falsy a with
      | true =>
        rw [hfa] at hfal
        refine ConvRes2.bind_ok (h1 a hev) (ConvRes2.bind_ok hfal ?_)
        simp only [Bool.not_true, Bool.not_false, if_true]
        refine .inr ⟨.done g, res_done_ne g, fun f hf => ?_, ⟨σ, EOk.pure _ gs σ, hh⟩⟩
        obtain ⟨f', rfl, _⟩ := fuel_succ hf
        simp only [F2.exec, hev, hfa, if_true]
      | false =>
        rw [hfa] at hfal
        refine ConvRes2.bind_ok (h1 a hev) (ConvRes2.bind_ok hfal ?_)
        simp only [Bool.not_false, Bool.not_true, Bool.false_eq_true, if_false]
        rcases hb ctx gs σ g _ 1 he hh hwb hsp with hf | ⟨r1, hne1, hR1, hs1⟩
        · exact .inl (EErr.bind_left hf)
        · cases r1 with
          | done g1 =>
            obtain ⟨σ1, hok1, hh1⟩ := hs1
            refine ConvRes2.bind_ok hok1 ?_
            exact (hloop ctx gs σ1 g1 k he hh1 hw0 hsp0).lift
              (fun f hf => by simp only [F2.exec, hev, hfa, Bool.false_eq_true, if_false, hR1 f hf])
          | cont g1 =>
            obtain ⟨σ1, hok1, hh1⟩ := hs1
            refine ConvRes2.bind_ok hok1 ?_
            exact (hloop ctx gs σ1 g1 k he hh1 hw0 hsp0).lift
              (fun f hf => by simp only [F2.exec, hev, hfa, Bool.false_eq_true, if_false, hR1 f hf])
          | brk g1 =>
            obtain ⟨σ1, hok1, hh1⟩ := hs1
            refine .inr ⟨.done g1, res_done_ne g1, fun f hf => ?_, ⟨σ1, EOk.bind hok1 (EOk.pure _ gs σ1), hh1⟩⟩
            obtain ⟨f', rfl, hf'⟩ := fuel_succ hf
            simp only [F2.exec, hev, hfa, Bool.false_eq_true, if_false, hR1 f' hf']
          | err =>
            obtain ⟨err, hne, herr⟩ := hs1
            refine .inr ⟨.err, res_err_ne, fun f hf => ?_, SimRes2.err_left hne herr⟩
            obtain ⟨f', rfl, hf'⟩ := fuel_succ hf
            simp only [F2.exec, hev, hfa, Bool.false_eq_true, if_false, hR1 f' hf']
          | out => exact absurd rfl hne1

theorem foreverConv2_succ (F : Nat) (body : F2.Stms) (hb : BlockConv2 names ctab n cells F body)
    (hloop : ForeverConv2 names ctab n cells F body) : ForeverConv2 names ctab n cells (F + 1) body := by
  intro ctx gs σ g k he hh hw hsp
  have hw0 := hw
  have hsp0 := hsp
  simp only [wfS2] at hw
  simp only [simplePostS] at hsp
  simp only [ex_loop_none]
  rcases hb ctx gs σ g _ 1 he hh hw hsp with hf | ⟨r1, hne1, hR1, hs1⟩
  · exact .inl (EErr.bind_left hf)
  · cases r1 with
    | done g1 =>
      obtain ⟨σ1, hok1, hh1⟩ := hs1
      refine ConvRes2.bind_ok hok1 ?_
      exact (hloop ctx gs σ1 g1 k he hh1 hw0 hsp0).lift
        (fun f hf => by simp only [F2.exec, hR1 f hf])
    | cont g1 =>
      obtain ⟨σ1, hok1, hh1⟩ := hs1
      refine ConvRes2.bind_ok hok1 ?_
      exact (hloop ctx gs σ1 g1 k he hh1 hw0 hsp0).lift
        (fun f hf => by simp only [F2.exec, hR1 f hf])
    | brk g1 =>
      obtain ⟨σ1, hok1, hh1⟩ := hs1
      refine .inr ⟨.done g1, res_done_ne g1, fun f hf => ?_, ⟨σ1, EOk.bind hok1 (EOk.pure _ gs σ1), hh1⟩⟩
      obtain ⟨f', rfl, hf'⟩ := fuel_succ hf
      simp only [F2.exec, hR1 f' hf']
    | err =>
      obtain ⟨err, hne, herr⟩ := hs1
      refine .inr ⟨.err, res_err_ne, fun f hf => ?_, SimRes2.err_left hne herr⟩
      obtain ⟨f', rfl, hf'⟩ := fuel_succ hf
      simp only [F2.exec, hR1 f' hf']
    | out => exact absurd rfl hne1

theorem for3Conv2_succ (F : Nat) (c : Ex) (body : F2.Stms) (post : F2.Stm)
    (hb : BlockConv2 names ctab n cells F body) (hp : StmtConv2 names ctab n cells F post)
    (hloop : For3Conv2 names ctab n cells F c body post) : For3Conv2 names ctab n cells (F + 1) c body post := by
  intro ctx gs σ g k he hh hw hsp
  have hw0 := hw
  have hsp0 := hsp
  simp only [wfS2, Bool.and_eq_true] at hw
  obtain ⟨⟨hwc, hwb⟩, hwp⟩ := hw
  simp only [simplePostS, Bool.and_eq_true] at hsp
  have hspp : simplePostS post = true := by
    cases post <;> simp [isSimple] at hsp <;> rfl
  -- after the body (normal end or `continue`): the post statement, then the loop again
  have hrest : ∀ (σ1 : St) (g1 : Nat → SV), HeapOK n cells g1 σ1 → ∀ R' : Nat → F2.Res SV,
      (∀ f, F ≤ f → ∀ g2, F2.exec vmSem (svConst ctab) f (.inl post) g1 = .done g2 →
        R' (f + 1) = F2.exec vmSem (svConst ctab) f (.inl (.for3 c body post)) g2) →
      (∀ f, F ≤ f → F2.exec vmSem (svConst ctab) f (.inl post) g1 = .err → R' (f + 1) = .err) →
      ConvRes2 n cells (do
          let _ ← execStmt F { ctx with path := 3 :: ctx.path } (toAstS2 names ctab post)
          loopFor F ctx (some (toAstE names ctab c)) (some (toAstS2 names ctab post)) (toAstSs2 names ctab body))
        (fun fl => fl) gs σ1 (F + 1) R' := by
    intro σ1 g1 hh1 R' hr1 hr2
    rcases hp { ctx with path := 3 :: ctx.path } gs σ1 g1 _ he hh1 hwp hspp with hf | ⟨r2, hne2, hR2, hs2⟩
    · exact .inl (EErr.bind_left hf)
    · have hesc := exec_simple (ctab := ctab) F post g1 hsp.2
      have hR2F : F2.exec vmSem (svConst ctab) F (.inl post) g1 = r2 := hR2 F (Nat.le_refl F)
      rw [hR2F] at hesc
      cases r2 with
      | done g2 =>
        obtain ⟨σ2, hok2, hh2⟩ := hs2
        refine ConvRes2.bind_ok hok2 ?_
        exact (hloop ctx gs σ2 g2 k he hh2 hw0 hsp0).lift (fun f hf => hr1 f hf g2 (hR2 f hf))
      | brk g2 => cases hesc
      | cont g2 => cases hesc
      | err =>
        obtain ⟨err, hne, herr⟩ := hs2
        refine .inr ⟨.err, res_err_ne, fun f hf => ?_, SimRes2.err_left hne herr⟩
        obtain ⟨f', rfl, hf'⟩ := fuel_succ hf
        exact hr2 f' hf' (hR2 f' hf')
      | out => exact absurd rfl hne2
  simp only [ex_loop_post]
  rcases evalTri (names := names) (ctab := ctab) (cells := cells) c F ctx gs σ g k he hh hwc with hf | ⟨h1, h2⟩
  · exact .inl (EErr.bind_left hf)
  · cases hev : eval vmSem (svConst ctab) g c with
    | none =>
      obtain ⟨err, hne, herr⟩ := h2 hev
      refine .inr ⟨.err, res_err_ne, fun f hf => ?_, SimRes2.err_left hne herr⟩
      obtain ⟨f', rfl, _⟩ := fuel_succ hf
      simp only [F2.exec, hev]
    | some a =>
      have hfal := EOk.lift (gs := gs) (isFalsy_sem a σ)
      cases hfa : vmSem.falsy a with
      | true =>
        rw [hfa] at hfal
        refine ConvRes2.bind_ok (h1 a hev) (ConvRes2.bind_ok hfal ?_)
        simp only [Bool.not_true, Bool.not_false, if_true]
        refine .inr ⟨.done g, res_done_ne g, fun f hf => ?_, ⟨σ, EOk.pure _ gs σ, hh⟩⟩
        obtain ⟨f', rfl, _⟩ := fuel_succ hf
        simp only [F2.exec, hev, hfa, if_true]
      | false =>
        rw [hfa] at hfal
        refine ConvRes2.bind_ok (h1 a hev) (ConvRes2.bind_ok hfal ?_)
        simp only [Bool.not_false, Bool.not_true, Bool.false_eq_true, if_false]
        rcases hb ctx gs σ g _ 1 he hh hwb hsp.1 with hf | ⟨r1, hne1, hR1, hs1⟩
        · exact .inl (EErr.bind_left hf)
        · cases r1 with
          | done g1 =>
            obtain ⟨σ1, hok1, hh1⟩ := hs1
            refine ConvRes2.bind_ok hok1 ?_
            dsimp only
            exact hrest σ1 g1 hh1 _
              (fun f hf g2 h2 => by simp only [F2.exec, hev, hfa, Bool.false_eq_true, if_false, hR1 f hf, h2])
              (fun f hf h2 => by simp only [F2.exec, hev, hfa, Bool.false_eq_true, if_false, hR1 f hf, h2])
          | cont g1 =>
            obtain ⟨σ1, hok1, hh1⟩ := hs1
            refine ConvRes2.bind_ok hok1 ?_
            dsimp only
            exact hrest σ1 g1 hh1 _
              (fun f hf g2 h2 => by simp only [F2.exec, hev, hfa, Bool.false_eq_true, if_false, hR1 f hf, h2])
              (fun f hf h2 => by simp only [F2.exec, hev, hfa, Bool.false_eq_true, if_false, hR1 f hf, h2])
          | brk g1 =>
            obtain ⟨σ1, hok1, hh1⟩ := hs1
            refine .inr ⟨.done g1, res_done_ne g1, fun f hf => ?_, ⟨σ1, EOk.bind hok1 (EOk.pure _ gs σ1), hh1⟩⟩
            obtain ⟨f', rfl, hf'⟩ := fuel_succ hf
            simp only [F2.exec, hev, hfa, Bool.false_eq_true, if_false, hR1 f' hf']
          | err =>
            obtain ⟨err, hne, herr⟩ := hs1
            refine .inr ⟨.err, res_err_ne, fun f hf => ?_, SimRes2.err_left hne herr⟩
            obtain ⟨f', rfl, hf'⟩ := fuel_succ hf
            simp only [F2.exec, hev, hfa, Bool.false_eq_true, if_false, hR1 f' hf']
          | out => exact absurd rfl hne1

theorem stmtConv2_whil (F : Nat) (c : Ex) (body : F2.Stms) (hloop : WhileConv2 names ctab n cells F c body) :
    StmtConv2 names ctab n cells (F + 1) (.whil c body) := by
  intro ctx gs σ g k he hh hw hsp
  simp only [toAstS2, ex_while]
  refine ConvRes2.mono ?_ (Nat.le_succ F)
  exact (hloop { ctx with env := { vars := [] } :: ctx.env } gs σ g k he.push hh hw hsp).wrap
    (fun fl σ' => EOk.pure _ gs σ')

theorem stmtConv2_forever (F : Nat) (body : F2.Stms) (hloop : ForeverConv2 names ctab n cells F body) :
    StmtConv2 names ctab n cells (F + 1) (.forever body) := by
  intro ctx gs σ g k he hh hw hsp
  simp only [toAstS2, ex_forever]
  refine ConvRes2.mono ?_ (Nat.le_succ F)
  exact (hloop { ctx with env := { vars := [] } :: ctx.env } gs σ g k he.push hh hw hsp).wrap
    (fun fl σ' => EOk.pure _ gs σ')

theorem stmtConv2_for3 (F : Nat) (c : Ex) (body : F2.Stms) (post : F2.Stm)
    (hloop : For3Conv2 names ctab n cells F c body post) :
    StmtConv2 names ctab n cells (F + 1) (.for3 c body post) := by
  intro ctx gs σ g k he hh hw hsp
  simp only [toAstS2, ex_for3]
  refine ConvRes2.mono ?_ (Nat.le_succ F)
  exact (hloop { ctx with env := { vars := [] } :: ctx.env } gs σ g k he.push hh hw hsp).wrap
    (fun fl σ' => EOk.pure _ gs σ')

theorem stmtsConv2_nil (F : Nat) : StmtsConv2 names ctab n cells (F + 1) .nil := by
  intro ctx gs σ g k i he hh hw hsp
  simp only [toAstSs2, execStmts.eq_2]
  refine .inr ⟨.done g, res_done_ne g, fun f hf => ?_, ⟨σ, EOk.pure _ gs σ, hh⟩⟩
  obtain ⟨f', rfl, _⟩ := fuel_succ hf
  simp only [F2.exec]

theorem stmtsConv2_cons (F : Nat) (st : F2.Stm) (ss : F2.Stms) (h1 : StmtConv2 names ctab n cells F st)
    (h2 : StmtsConv2 names ctab n cells F ss) : StmtsConv2 names ctab n cells (F + 1) (.cons st ss) := by
  intro ctx gs σ g k i he hh hw hsp
  simp only [wfSs2, Bool.and_eq_true] at hw
  obtain ⟨hw1, hw2⟩ := hw
  simp only [simplePostSs, Bool.and_eq_true] at hsp
  simp only [toAstSs2, execStmts.eq_3]
  rcases h1 { env := ctx.env, callDepth := ctx.callDepth, path := i :: ctx.path } gs σ g k he hh hw1 hsp.1 with
    hf | ⟨r1, hne1, hR1, hs1⟩
  · exact .inl (EErr.bind_left hf)
  · cases r1 with
    | done g1 =>
      obtain ⟨σ1, hok1, hh1⟩ := hs1
      refine ConvRes2.bind_ok hok1 ?_
      exact (h2 { env := ctx.env, callDepth := ctx.callDepth, path := ctx.path } gs σ1 g1 _ (i + 1) he hh1 hw2
        hsp.2).lift (fun f hf => by simp only [F2.exec, hR1 f hf])
    | brk g1 =>
      obtain ⟨σ1, hok1, hh1⟩ := hs1
      refine .inr ⟨.brk g1, res_brk_ne g1, fun f hf => ?_, ⟨σ1, EOk.bind hok1 (EOk.pure _ gs σ1), hh1⟩⟩
      obtain ⟨f', rfl, hf'⟩ := fuel_succ hf
      simp only [F2.exec, hR1 f' hf']
    | cont g1 =>
      obtain ⟨σ1, hok1, hh1⟩ := hs1
      refine .inr ⟨.cont g1, res_cont_ne g1, fun f hf => ?_, ⟨σ1, EOk.bind hok1 (EOk.pure _ gs σ1), hh1⟩⟩
      obtain ⟨f', rfl, hf'⟩ := fuel_succ hf
      simp only [F2.exec, hR1 f' hf']
    | err =>
      obtain ⟨err, hne, herr⟩ := hs1
      refine .inr ⟨.err, res_err_ne, fun f hf => ?_, SimRes2.err_left hne herr⟩
      obtain ⟨f', rfl, hf'⟩ := fuel_succ hf
      simp only [F2.exec, hR1 f' hf']
    | out => exact absurd rfl hne1

/-- Everything at one interpreter fuel. -/
structure AllConv2 (names : Nat → String) (ctab : Nat → F0.Const) (n : Nat) (cells : Nat → Nat) (F : Nat) :
    Prop where
  stmt : ∀ st, StmtConv2 names ctab n cells F st
  stmts : ∀ ss, StmtsConv2 names ctab n cells F ss
  block : ∀ ss, BlockConv2 names ctab n cells F ss
  whil : ∀ c body, WhileConv2 names ctab n cells F c body
  forever : ∀ body, ForeverConv2 names ctab n cells F body
  for3 : ∀ c body post, For3Conv2 names ctab n cells F c body post

/-- All statement forms, all loops, at every fuel of the interpreter. -/
theorem all_conv2 (F : Nat) : AllConv2 names ctab n cells F := by
  induction F using Nat.strongRecOn with
  | ind F ih =>
    cases F with
    | zero =>
      exact ⟨fun st ctx gs σ g k he hh hw hsp => .inl (execStmt_zero _ _ _ _),
        fun ss ctx gs σ g k i he hh hw hsp => .inl (execStmts_zero _ _ _ _ _),
        blockConv2_zero, whileConv2_zero, foreverConv2_zero, for3Conv2_zero⟩
    | succ F =>
      have A := ih F (by omega)
      have hB : ∀ ss, BlockConv2 names ctab n cells (F + 1) ss := fun ss => blockConv2_of (A.stmts ss)
      refine ⟨fun st => ?_, fun ss => ?_, hB,
        fun c body => whileConv2_succ F c body (A.block body) (A.whil c body),
        fun body => foreverConv2_succ F body (A.block body) (A.forever body),
        fun c body post => for3Conv2_succ F c body post (A.block body) (A.stmt post) (A.for3 c body post)⟩
      · cases st with
        | expr e => exact stmtConv2_expr F e
        | assign i e => exact stmtConv2_assign F i e
        | ifs c body => exact stmtConv2_ifs F c body (A.block body)
        | ifelse c body els =>
          cases F with
          | zero => exact stmtConv2_ifelse_one c body els
          | succ F' => exact stmtConv2_ifelse F' c body els (A.block body) ((ih F' (by omega)).block els)
        | whil c body => exact stmtConv2_whil F c body (A.whil c body)
        | forever body => exact stmtConv2_forever F body (A.forever body)
        | for3 c body post => exact stmtConv2_for3 F c body post (A.for3 c body post)
        | brk => exact stmtConv2_brk F
        | cont => exact stmtConv2_cont F
      · cases ss with
        | nil => exact stmtsConv2_nil F
        | cons st ss => exact stmtsConv2_cons F st ss (A.stmt st) (A.stmts ss)

end

end Tengo.Proofs.C01Bridge

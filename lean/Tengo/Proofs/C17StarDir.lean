import Tengo.Proofs.C17StarParse
/-!
C17 (`*`, `[n]`, flag sets): the parser link for one structured directive. `parseDirective` on the
printed form of an `SDir` (whatever follows it) computes `evalHead`: the flag set, the width and the
precision (literal or taken from the operand the cursor points at), the BADWIDTH / BADPREC marks, the
cursor and the validity of the indexes.
-/
namespace Tengo.Proofs.C17StarDir
open Tengo.Model.Format Tengo.Model.FormatSpec Tengo.Model.FormatSpecMulti Tengo.Model.FormatSpecStar Tengo.Proofs.FormatParse
  Tengo.Proofs.C17StarParse

theorem ps0 (k : Nat) : ({ argNum := k, reordered := false, good := true, afterIndex := false } : PS) = psOf { argNum := k } false := rfl

theorem star_head' (i : Option Nat) (t : Bytes) : ∃ c0 r0, idxText i ++ 42 :: t = c0 :: r0 ∧ (c0 = 42 ∨ c0 = 91) := by
  cases i with
  | none => exact ⟨42, t, rfl, Or.inl rfl⟩
  | some n => exact ⟨91, _, idxText_append n _, Or.inr rfl⟩

theorem widthStage_prec (args : List Arg) (d : GDir) (c : Cur) (w : SNum) : (widthStage args d c w).1.prec = d.prec := by
  cases w with
  | none => rfl
  | lit n => rfl
  | star i =>
    simp only [widthStage]
    split <;> rfl
  | dot z n => rfl
  | ilit i n => rfl
  | idx i => rfl

/-! ### width -/

theorem parseSlow_star (ints : List (Option Int)) (args : List Arg) (hr : IntsRel ints args) (d : GDir) (hd : d.width = none)
    (nf k : Nat) (i : Option Nat) (t : Bytes) (hi : IdxOk i) (hs : StarArgOk args (useIdx args.length { argNum := k } i).argNum) :
    parseSlow ints (flOf d) nf k (idxText i ++ 42 :: t) =
      parseAfterWidth ints (flOf (widthStage args d { argNum := k } (.star i)).1)
        (psOf (widthStage args d { argNum := k } (.star i)).2.2 false) (widthStage args d { argNum := k } (.star i)).2.1
        (nf + ((idxText i).length + 1)) t := by
  have hne : i = none → ∀ t', (42 :: t : Bytes) ≠ 91 :: t' := by
    intro _ t' h; injection h with h1 _; exact absurd h1 (by decide)
  unfold parseSlow
  rw [ps0, argNumber_idxText _ false i _ ints.length hi hne]
  simp only [List.drop_left, parseWidth, List.drop_succ_cons, List.drop_zero]
  have hpa : (psOf (useIdx ints.length { argNum := k } i) i.isSome).argNum = (useIdx ints.length { argNum := k } i).argNum := rfl
  rw [hpa, hr.1, intFromArg_star ints args _ hr hs]
  simp only [widthStage]
  have hk : nf + (idxText i).length + 1 = nf + ((idxText i).length + 1) := by omega
  rw [hk]
  cases hsv : (starVal args (useIdx args.length { argNum := k } i).argNum).1 with
  | none =>
    have h00 : ¬ ((0 : Int) < 0) := by omega
    simp only [Option.getD_none, Option.isSome_none, Int.natAbs_zero, h00, if_false, Bool.not_false, flOf_wid_none d hd]
    rfl
  | some n =>
    by_cases hn : n < 0
    · simp only [Option.getD_some, Option.isSome_some, hn, if_true, Bool.not_true, decide_true]
      congr 1
      simp [flOf]
    · simp only [Option.getD_some, Option.isSome_some, hn, if_false, Bool.not_true, decide_false, Bool.or_false, flOf_wid_some]
      rfl

theorem parseSlow_lit (ints : List (Option Int)) (d : GDir) (nf k w : Nat) (t : Bytes) (hw : w ≤ 1000000) (hND : NonDigitHead t) :
    parseSlow ints (flOf d) nf k (decimal w ++ t) =
      parseAfterWidth ints (flOf { d with width := some w }) (psOf { argNum := k } false) false (nf + (decimal w).length) t := by
  obtain ⟨c0, cs, hdec, hc1, hc2⟩ := decimal_head w
  have hc91 : c0 ≠ 91 := by intro h; subst h; simp at hc2
  unfold parseSlow
  have harg : argNumber { argNum := k, reordered := false, good := true, afterIndex := false } (decimal w ++ t) ints.length =
      ({ argNum := k, reordered := false, good := true, afterIndex := false }, 0) := by
    rw [hdec]; simp only [List.cons_append]; rw [argNumber_plain _ c0 _ _ hc91]
  rw [harg]
  simp only [List.drop_zero]
  rw [parseWidth_decimal ints _ _ w t hw hND rfl]
  simp only [List.drop_left, Nat.add_zero, flOf_wid_some]
  rfl

theorem parseSlow_none (ints : List (Option Int)) (d : GDir) (hd : d.width = none) (nf k : Nat) (t : Bytes)
    (ht : HeadP (fun x => x = 46 ∨ KV x) t) :
    parseSlow ints (flOf d) nf k t =
      parseAfterWidth ints (flOf d) (psOf { argNum := k } false) false nf t := by
  have hfacts : ∀ c t', t = c :: t' → c ≠ 91 ∧ c ≠ 42 ∧ ¬ (48 ≤ c.toNat ∧ c.toNat ≤ 57) := by
    intro c t' h
    rcases ht c t' h with h1 | h1
    · subst h1; decide
    · have := KV_facts c h1; exact ⟨this.2.2.1, this.2.2.2.1, this.2.2.2.2.1⟩
  have hne : (none : Option Nat) = none → ∀ t', t ≠ 91 :: t' := fun _ t' h => (hfacts 91 t' h).1 rfl
  have hND : NonDigitHead t := fun c t' h => (hfacts c t' h).2.2
  have h42 : ∀ t', t ≠ 42 :: t' := fun t' h => (hfacts 42 t' h).2.1 rfl
  have ha := argNumber_idxText { argNum := k } false none t ints.length trivial hne
  simp only [idxText, List.nil_append, useIdx, Option.isSome_none, List.length_nil] at ha
  unfold parseSlow
  rw [ps0, ha]
  simp only [List.drop_zero]
  rw [parseWidth_none ints _ _ t hND h42 rfl]
  simp only [List.drop_zero, Nat.add_zero, flOf_wid_none d hd]

/-- `[n]verb` right after the flags: the index is read where a width index would be. -/
theorem parseSlow_idx_verb (ints : List (Option Int)) (d : GDir) (hd : d.width = none) (nf k n : Nat) (v : Option Nat) (rest : Bytes)
    (hn : IdxOk (some n)) (hv : ∀ x, v = some x → isKnownVerb x = true) (hend : v = none → rest = []) :
    parseSlow ints (flOf d) nf k (idxText (some n) ++ (verbText v ++ rest)) =
      { n := nf + ((idxText (some n)).length + (verbText v).length), f := flOf d, badWidth := false, badPrec := false, verb := v,
        argNum := (useIdx ints.length { argNum := k } (some n)).argNum, good := (useIdx ints.length { argNum := k } (some n)).good,
        reordered := (useIdx ints.length { argNum := k } (some n)).reordered } := by
  have hh := headP_verb v rest hv hend
  have hfacts : ∀ c t', verbText v ++ rest = c :: t' → c ≠ 46 ∧ c ≠ 42 ∧ ¬ (48 ≤ c.toNat ∧ c.toNat ≤ 57) := by
    intro c t' h
    have := KV_facts c (hh c t' h); exact ⟨this.2.1, this.2.2.2.1, this.2.2.2.2.1⟩
  have hND : NonDigitHead (verbText v ++ rest) := fun c t' h => (hfacts c t' h).2.2
  unfold parseSlow
  rw [ps0, argNumber_idxText _ false (some n) _ ints.length hn (by intro h; cases h)]
  simp only [List.drop_left, Option.isSome_some]
  have hpw : parseWidth ints (flOf d) (psOf (useIdx ints.length { argNum := k } (some n)) true) (verbText v ++ rest) =
      (flOf d, psOf (useIdx ints.length { argNum := k } (some n)) true, false, 0) := by
    unfold parseWidth
    split
    · rename_i t' heq; exact absurd rfl ((hfacts 42 t' heq).2.1)
    · rw [parsenum_nondigit _ hND]
      simp [flOf_wid_none d hd]
  rw [hpw]
  simp only [List.drop_zero, Nat.add_zero]
  unfold parseAfterWidth
  rw [parsePrec_none ints _ _ _ (fun t' h => (hfacts 46 t' h).1 rfl)]
  simp only [List.drop_zero, Nat.add_zero]
  unfold parseAfterPrec
  have hai : (psOf (useIdx ints.length { argNum := k } (some n)) true).afterIndex = true := rfl
  simp only [hai, Bool.not_true, Bool.false_eq_true, if_false, List.drop_zero, Nat.add_zero]
  cases v with
  | none =>
    rw [hend rfl]
    simp [parseVerb, verbText, psOf]
  | some x =>
    obtain ⟨hk, hx⟩ := knownVerb_byte x (hv x rfl)
    have h128 := (KV_facts _ hk).1
    simp only [verbText, List.cons_append, List.nil_append]
    rw [parseVerb_ascii _ _ _ _ _ _ _ h128, hx]
    simp [psOf, Nat.add_assoc]

/-- `[i]n`: an index followed by a literal width. -/
theorem parseSlow_ilit (ints : List (Option Int)) (d : GDir) (nf k i n : Nat) (t : Bytes) (hi : IdxOk (some i)) (hn : n ≤ 1000000)
    (hND : NonDigitHead t) :
    parseSlow ints (flOf d) nf k (idxText (some i) ++ (decimal n ++ t)) =
      parseAfterWidth ints (flOf { d with width := some n })
        (psOf { useIdx ints.length { argNum := k } (some i) with good := false } true) false
        (nf + ((idxText (some i)).length + (decimal n).length)) t := by
  obtain ⟨c0, cs, hdec, hc1, hc2⟩ := decimal_head n
  unfold parseSlow
  rw [ps0, argNumber_idxText _ false (some i) _ ints.length hi (by intro h; cases h)]
  simp only [List.drop_left, Option.isSome_some]
  have hpw : parseWidth ints (flOf d) (psOf (useIdx ints.length { argNum := k } (some i)) true) (decimal n ++ t) =
      (flOf { d with width := some n }, psOf { useIdx ints.length { argNum := k } (some i) with good := false } true, false,
        (decimal n).length) := by
    have hnum := parsenum_decimal n hn t hND
    unfold parseWidth
    split
    · rename_i t' heq
      rw [hdec] at heq
      simp only [List.cons_append] at heq
      have : c0 = 42 := by injection heq
      subst this; simp at hc1
    · rw [hnum]
      simp [psOf, flOf_wid_some]
  rw [hpw]
  simp only [List.drop_left]
  congr 1
  omega

/-- `[i]` directly followed by a precision. -/
theorem parseSlow_idxonly (ints : List (Option Int)) (d : GDir) (hd : d.width = none) (nf k i : Nat) (c0 : UInt8) (r0 : Bytes)
    (hi : IdxOk (some i)) :
    parseSlow ints (flOf d) nf k (idxText (some i) ++ 46 :: c0 :: r0) =
      parseAfterWidth ints (flOf d) (psOf (useIdx ints.length { argNum := k } (some i)) true) false
        (nf + (idxText (some i)).length) (46 :: c0 :: r0) := by
  have hND : NonDigitHead (46 :: c0 :: r0) := by intro c t' h; injection h with h1 _; subst h1; decide
  unfold parseSlow
  rw [ps0, argNumber_idxText _ false (some i) _ ints.length hi (by intro h; cases h)]
  simp only [List.drop_left, Option.isSome_some]
  have hpw : parseWidth ints (flOf d) (psOf (useIdx ints.length { argNum := k } (some i)) true) (46 :: c0 :: r0) =
      (flOf d, psOf (useIdx ints.length { argNum := k } (some i)) true, false, 0) := by
    unfold parseWidth
    split
    · rename_i t' heq; injection heq with h1 _; exact absurd h1 (by decide)
    · rw [parsenum_nondigit _ hND]
      simp [flOf_wid_none d hd]
  rw [hpw]
  simp only [List.drop_zero, Nat.add_zero]

/-- The verb right after a width that left `afterIndex` set (no precision, no verb index). -/
theorem parseAfterWidth_verb_ai (ints : List (Option Int)) (f : Fl) (c : Cur) (bw : Bool) (k : Nat) (v : Option Nat) (rest : Bytes)
    (hv : ∀ x, v = some x → isKnownVerb x = true) (hend : v = none → rest = []) :
    parseAfterWidth ints f (psOf c true) bw k (verbText v ++ rest) =
      { n := k + (verbText v).length, f := f, badWidth := bw, badPrec := false, verb := v, argNum := c.argNum, good := c.good,
        reordered := c.reordered } := by
  have hh := headP_verb v rest hv hend
  unfold parseAfterWidth
  rw [parsePrec_none ints _ _ _ (fun t' h => (KV_facts 46 (hh 46 t' h)).2.1 rfl)]
  simp only [List.drop_zero, Nat.add_zero]
  unfold parseAfterPrec
  have hai : (psOf c true).afterIndex = true := rfl
  simp only [hai, Bool.not_true, Bool.false_eq_true, if_false, List.drop_zero, Nat.add_zero]
  cases v with
  | none =>
    rw [hend rfl]
    simp [parseVerb, verbText, psOf]
  | some x =>
    obtain ⟨hk, hx⟩ := knownVerb_byte x (hv x rfl)
    have h128 := (KV_facts _ hk).1
    simp only [verbText, List.cons_append, List.nil_append]
    rw [parseVerb_ascii _ _ _ _ _ _ _ h128, hx]
    simp [psOf]

/-- A precision that is there starts with `.` and one more byte. -/
theorem prec_head2 (args : List Arg) (c : Cur) (p : SNum) (vi v : Option Nat) (rest : Bytes) (hne : p ≠ .none)
    (hp : PrecOk args c p) (hde : p = .dot 0 none → vi ≠ none ∨ v ≠ none) :
    ∃ c0 r0, Model.FormatSpecStar.precText p ++ (idxText vi ++ (verbText v ++ rest)) = 46 :: c0 :: r0 := by
  cases p with
  | none => exact absurd rfl hne
  | lit n =>
    obtain ⟨c0, cs, hdec, _, _⟩ := decimal_head n
    exact ⟨c0, cs ++ (idxText vi ++ (verbText v ++ rest)), by simp [Model.FormatSpecStar.precText, hdec]⟩
  | star i =>
    obtain ⟨c0, r0, hcr, _⟩ := star_head' i (idxText vi ++ (verbText v ++ rest))
    exact ⟨c0, r0, by simp [Model.FormatSpecStar.precText, ← hcr]⟩
  | dot z n =>
    cases z with
    | succ z =>
      exact ⟨48, List.replicate z 48 ++ (numText n ++ (idxText vi ++ (verbText v ++ rest))),
        by simp [Model.FormatSpecStar.precText, List.replicate_succ]⟩
    | zero =>
      cases n with
      | some m =>
        obtain ⟨c0, cs, hdec, _, _⟩ := decimal_head m
        exact ⟨c0, cs ++ (idxText vi ++ (verbText v ++ rest)), by simp [Model.FormatSpecStar.precText, numText, hdec]⟩
      | none =>
        cases vi with
        | some i =>
          exact ⟨91, decimal i ++ 93 :: (verbText v ++ rest), by simp [Model.FormatSpecStar.precText, numText, idxText]⟩
        | none =>
          cases v with
          | some x => exact ⟨x.toUInt8, rest, by simp [Model.FormatSpecStar.precText, numText, idxText, verbText]⟩
          | none => rcases hde rfl with h | h <;> exact absurd rfl h
  | ilit i n => exact hp.elim
  | idx i => exact hp.elim

/-! ### precision, index and verb after any width -/

/-- `.[n]verb`: a precision without number (= 0) whose index is read inside the precision parser. -/
theorem parsePrec_dotIdx (ints : List (Option Int)) (f : Fl) (c : Cur) (i : Nat) (t : Bytes) (hi : IdxOk (some i))
    (hND : NonDigitHead t) (h42 : ∀ t', t ≠ 42 :: t') :
    parsePrec ints f (psOf c false) (46 :: (idxText (some i) ++ t)) =
      ({ f with prec := 0, precPresent := true }, psOf (useIdx ints.length c (some i)) true, false, 1 + (idxText (some i)).length + 0) := by
  have hcr := idxText_append i t
  rw [hcr]
  unfold parsePrec
  simp only []
  rw [← hcr]
  have hai : (psOf c false).afterIndex = false := rfl
  simp only [hai, Bool.false_eq_true, if_false]
  rw [argNumber_idxText c false (some i) _ ints.length hi (by intro h; cases h)]
  simp only [List.drop_left, Option.isSome_some]
  rw [parsenum_nondigit _ hND]
  rfl

theorem parseAfterWidth_dotIdx (ints : List (Option Int)) (d : GDir) (c : Cur) (bw : Bool) (k i : Nat) (v : Option Nat)
    (rest : Bytes) (hi : IdxOk (some i)) (hv : ∀ x, v = some x → isKnownVerb x = true) (hend : v = none → rest = []) :
    parseAfterWidth ints (flOf d) (psOf c false) bw k (46 :: (idxText (some i) ++ (verbText v ++ rest))) =
      { n := k + 1 + ((idxText (some i)).length + (verbText v).length), f := flOf { d with prec := some 0 }, badWidth := bw,
        badPrec := false, verb := v, argNum := (useIdx ints.length c (some i)).argNum,
        good := (useIdx ints.length c (some i)).good, reordered := (useIdx ints.length c (some i)).reordered } := by
  have hh := headP_verb v rest hv hend
  have hND : NonDigitHead (verbText v ++ rest) := fun x t' h => (KV_facts x (hh x t' h)).2.2.2.2.1
  have h42 : ∀ t', verbText v ++ rest ≠ 42 :: t' := fun t' h => (KV_facts 42 (hh 42 t' h)).2.2.2.1 rfl
  unfold parseAfterWidth
  rw [parsePrec_dotIdx ints _ c i _ hi hND h42]
  simp only [flOf_prec_some]
  have hdrop : List.drop (1 + (idxText (some i)).length + 0) (46 :: (idxText (some i) ++ (verbText v ++ rest))) = verbText v ++ rest := by
    rw [show 1 + (idxText (some i)).length + 0 = (idxText (some i)).length + 1 by omega, List.drop_succ_cons, List.drop_left]
  rw [hdrop]
  unfold parseAfterPrec
  have hai : (psOf (useIdx ints.length c (some i)) true).afterIndex = true := rfl
  simp only [hai, Bool.not_true, Bool.false_eq_true, if_false, List.drop_zero, Nat.add_zero]
  cases v with
  | none =>
    rw [hend rfl]
    simp [parseVerb, verbText, psOf]
    omega
  | some x =>
    obtain ⟨hk, hx⟩ := knownVerb_byte x (hv x rfl)
    have h128 := (KV_facts _ hk).1
    simp only [verbText, List.cons_append, List.nil_append]
    rw [parseVerb_ascii _ _ _ _ _ _ _ h128, hx]
    simp [psOf]; omega

theorem after_width_chain (ints : List (Option Int)) (args : List Arg) (hr : IntsRel ints args) (d : GDir) (hd : d.prec = none)
    (c : Cur) (bw : Bool) (k : Nat) (p : SNum) (vi v : Option Nat) (rest : Bytes) (hp : PrecOk args c p) (hvi : IdxOk vi)
    (hde : p = .dot 0 none → vi ≠ none ∨ v ≠ none)
    (hv : ∀ x, v = some x → isKnownVerb x = true) (hend : v = none → rest = []) :
    parseAfterWidth ints (flOf d) (psOf c false) bw k (Model.FormatSpecStar.precText p ++ (idxText vi ++ (verbText v ++ rest))) =
      { n := k + (Model.FormatSpecStar.precText p).length + ((idxText vi).length + (verbText v).length),
        f := flOf (precStage args d c p).1, badWidth := bw, badPrec := (precStage args d c p).2.1, verb := v,
        argNum := (useIdx args.length (precStage args d c p).2.2 vi).argNum,
        good := (useIdx args.length (precStage args d c p).2.2 vi).good,
        reordered := (useIdx args.length (precStage args d c p).2.2 vi).reordered } := by
  by_cases hsp : p = .dot 0 none ∧ vi ≠ none
  · obtain ⟨hp0, hvn⟩ := hsp
    subst hp0
    cases vi with
    | none => exact absurd rfl hvn
    | some i =>
      have := parseAfterWidth_dotIdx ints d c bw k i v rest hvi hv hend
      simp only [Model.FormatSpecStar.precText, numText, List.replicate_zero, List.append_nil, List.cons_append, List.nil_append,
        precStage, Option.getD_none, List.length_cons, List.length_nil]
      rw [this, hr.1]
  · have hdot : p = .dot 0 none → HeadP KV (idxText vi ++ (verbText v ++ rest)) ∧ idxText vi ++ (verbText v ++ rest) ≠ [] := by
      intro hp0
      have hvin : vi = none := by
        cases vi with
        | none => rfl
        | some i => exact absurd ⟨hp0, by simp⟩ hsp
      subst hvin
      rcases hde hp0 with h | h
      · exact absurd rfl h
      · cases v with
        | none => exact absurd rfl h
        | some x => exact ⟨headP_verb (some x) rest hv hend, by simp [idxText, verbText]⟩
    rw [parseAfterWidth_show ints args hr d hd c bw k p _ hp (headP_idx vi _ (headP_verb v rest hv hend)) hdot]
    rw [parseAfterPrec_show ints _ _ bw _ _ vi v rest hvi hv hend, hr.1]

/-! ### the whole directive -/

/-- The parse the spec predicts. -/
def expectedS (args : List Arg) (argNum : Nat) (sd : SDir) : Dir :=
  { n := (bodyText sd).length, f := flOf (evalHead args argNum sd).d, badWidth := (evalHead args argNum sd).badWidth,
    badPrec := (evalHead args argNum sd).badPrec, verb := sd.verb, argNum := (evalHead args argNum sd).cur.argNum,
    good := (evalHead args argNum sd).cur.good, reordered := (evalHead args argNum sd).cur.reordered }

theorem parseFlags_base (l t : Bytes) (hl : ∀ c ∈ l, isFlag c = true) (ht : NonFlagHead t) (verb : Nat) :
    parseFlags (l ++ t) {} 0 = (flOf (baseDir l verb), l.length) := by
  rw [parseFlags_list l t {} 0 hl ht (by simp)]
  simp [flOf, baseDir]

theorem fastVerb_none_of_head (n k : Nat) (r : Bytes) (h : ∀ c t', r = c :: t' → ¬ (97 ≤ c.toNat ∧ c.toNat ≤ 122)) :
    fastVerb n k r = none := by
  cases r with
  | nil => rfl
  | cons c t' =>
    have := h c t' rfl
    simp only [fastVerb]
    rw [if_neg]
    intro hc; exact this ⟨hc.1, hc.2.1⟩

theorem star_head (i : Option Nat) (t : Bytes) : ∃ c0 r0, idxText i ++ 42 :: t = c0 :: r0 ∧ (c0 = 42 ∨ c0 = 91) := by
  cases i with
  | none => exact ⟨42, t, rfl, Or.inl rfl⟩
  | some n => exact ⟨91, _, idxText_append n _, Or.inr rfl⟩

theorem parse_star_widthStar (ints : List (Option Int)) (args : List Arg) (hr : IntsRel ints args) (argNum : Nat)
    (flags : Bytes) (i : Option Nat) (prec : SNum) (vidx verb : Option Nat) (rest : Bytes)
    (hok : SDirOk args argNum ⟨flags, .star i, prec, vidx, verb⟩) (hend : verb = none → rest = []) :
    parseDirective ints argNum (bodyText ⟨flags, .star i, prec, vidx, verb⟩ ++ rest) =
      expectedS args argNum ⟨flags, .star i, prec, vidx, verb⟩ := by
  obtain ⟨hfl, hw, hp, hvi, hde, hwi, hwl, hv, _⟩ := hok
  simp only at hfl hw hp hvi hde hv
  have hbody : bodyText ⟨flags, .star i, prec, vidx, verb⟩ ++ rest =
      flags ++ (idxText i ++ 42 :: (Model.FormatSpecStar.precText prec ++ (idxText vidx ++ (verbText verb ++ rest)))) := by
    simp [bodyText, Model.FormatSpecStar.widthText]
  obtain ⟨c0, r0, hcr, hc0⟩ := star_head i (Model.FormatSpecStar.precText prec ++ (idxText vidx ++ (verbText verb ++ rest)))
  have hNF : NonFlagHead (idxText i ++ 42 :: (Model.FormatSpecStar.precText prec ++ (idxText vidx ++ (verbText verb ++ rest)))) := by
    intro c t' h; rw [hcr] at h; injection h with h1 _; subst h1
    rcases hc0 with h | h <;> subst h <;> decide
  have hfast : fastVerb ints.length argNum (idxText i ++ 42 :: (Model.FormatSpecStar.precText prec ++ (idxText vidx ++ (verbText verb ++ rest)))) = none := by
    apply fastVerb_none_of_head
    intro c t' h; rw [hcr] at h; injection h with h1 _; subst h1
    rcases hc0 with h | h <;> subst h <;> decide
  rw [hbody]
  unfold parseDirective
  rw [parseFlags_base flags _ hfl hNF (verb.getD 0)]
  simp only [List.drop_left]
  rw [hfast]
  simp only []
  rw [parseSlow_star ints args hr _ rfl _ _ i _ hw.1 hw.2,
    after_width_chain ints args hr _ (by rw [widthStage_prec]; rfl) _ _ _ prec vidx verb rest hp hvi hde hv hend]
  simp only [expectedS, evalHead, bodyText, Model.FormatSpecStar.widthText, List.length_append, List.length_cons, List.length_nil]
  congr 1
  omega

theorem parse_star_widthLit (ints : List (Option Int)) (args : List Arg) (hr : IntsRel ints args) (argNum : Nat)
    (flags : Bytes) (w : Nat) (prec : SNum) (vidx verb : Option Nat) (rest : Bytes)
    (hok : SDirOk args argNum ⟨flags, .lit w, prec, vidx, verb⟩) (hend : verb = none → rest = []) :
    parseDirective ints argNum (bodyText ⟨flags, .lit w, prec, vidx, verb⟩ ++ rest) =
      expectedS args argNum ⟨flags, .lit w, prec, vidx, verb⟩ := by
  obtain ⟨hfl, hw, hp, hvi, hde, hwi, hwl, hv, _⟩ := hok
  simp only at hfl hw hp hvi hde hv
  obtain ⟨hw1, hw2⟩ : 1 ≤ w ∧ w ≤ 1000000 := hw
  have hbody : bodyText ⟨flags, .lit w, prec, vidx, verb⟩ ++ rest =
      flags ++ (decimal w ++ (Model.FormatSpecStar.precText prec ++ (idxText vidx ++ (verbText verb ++ rest)))) := by
    simp [bodyText, Model.FormatSpecStar.widthText]
  obtain ⟨c0, cs, hdec, hc1, hc2⟩ := decimal_head_pos w hw1
  have hHP := headP_prec prec _ (headP_idx vidx _ (headP_verb verb rest hv hend))
  have hND : NonDigitHead (Model.FormatSpecStar.precText prec ++ (idxText vidx ++ (verbText verb ++ rest))) := by
    intro c t' h
    rcases hHP c t' h with h1 | h1 | h1
    · subst h1; decide
    · subst h1; decide
    · exact (KV_facts c h1).2.2.2.2.1
  have hNF : NonFlagHead (decimal w ++ (Model.FormatSpecStar.precText prec ++ (idxText vidx ++ (verbText verb ++ rest)))) := by
    intro c t' h; rw [hdec] at h; simp only [List.cons_append] at h; injection h with h1 _; subst h1
    refine ⟨?_, ?_, ?_, ?_, ?_⟩ <;> (intro h; subst h; simp at hc1)
  have hfast : fastVerb ints.length argNum (decimal w ++ (Model.FormatSpecStar.precText prec ++ (idxText vidx ++ (verbText verb ++ rest)))) = none := by
    apply fastVerb_none_of_head
    intro c t' h; rw [hdec] at h; simp only [List.cons_append] at h; injection h with h1 _; subst h1
    omega
  rw [hbody]
  unfold parseDirective
  rw [parseFlags_base flags _ hfl hNF (verb.getD 0)]
  simp only [List.drop_left]
  rw [hfast]
  simp only []
  rw [parseSlow_lit ints _ _ _ w _ hw2 hND,
    after_width_chain ints args hr _ rfl { argNum := argNum } _ _ prec vidx verb rest hp hvi hde hv hend]
  simp only [expectedS, evalHead, widthStage, bodyText, Model.FormatSpecStar.widthText, List.length_append]
  congr 1
  omega

/-- No width, and what follows is not an index: the general path after the flags. -/
theorem parse_star_widthNone_slow (ints : List (Option Int)) (args : List Arg) (hr : IntsRel ints args) (argNum : Nat)
    (flags : Bytes) (prec : SNum) (vidx verb : Option Nat) (rest : Bytes)
    (hok : SDirOk args argNum ⟨flags, .none, prec, vidx, verb⟩) (hend : verb = none → rest = [])
    (hH : HeadP (fun x => x = 46 ∨ KV x) (Model.FormatSpecStar.precText prec ++ (idxText vidx ++ (verbText verb ++ rest))))
    (hslow : fastVerb ints.length argNum (Model.FormatSpecStar.precText prec ++ (idxText vidx ++ (verbText verb ++ rest))) = none) :
    parseDirective ints argNum (bodyText ⟨flags, .none, prec, vidx, verb⟩ ++ rest) =
      expectedS args argNum ⟨flags, .none, prec, vidx, verb⟩ := by
  obtain ⟨hfl, _, hp, hvi, hde, _, _, hv, _⟩ := hok
  simp only at hfl hp hvi hde hv
  have hbody : bodyText ⟨flags, .none, prec, vidx, verb⟩ ++ rest =
      flags ++ (Model.FormatSpecStar.precText prec ++ (idxText vidx ++ (verbText verb ++ rest))) := by
    simp [bodyText, Model.FormatSpecStar.widthText]
  have hNF : NonFlagHead (Model.FormatSpecStar.precText prec ++ (idxText vidx ++ (verbText verb ++ rest))) := by
    intro c t' h
    rcases hH c t' h with h1 | h1
    · subst h1; decide
    · exact (KV_facts c h1).2.2.2.2.2
  rw [hbody]
  unfold parseDirective
  rw [parseFlags_base flags _ hfl hNF (verb.getD 0)]
  simp only [List.drop_left]
  rw [hslow]
  simp only []
  rw [parseSlow_none ints _ rfl _ _ _ hH,
    after_width_chain ints args hr _ rfl { argNum := argNum } _ _ prec vidx verb rest hp hvi hde hv hend]
  simp only [expectedS, evalHead, widthStage, bodyText, Model.FormatSpecStar.widthText, List.length_append, List.length_nil]
  congr 1
  omega

theorem parse_star_widthNone (ints : List (Option Int)) (args : List Arg) (hr : IntsRel ints args) (argNum : Nat)
    (flags : Bytes) (prec : SNum) (vidx verb : Option Nat) (rest : Bytes)
    (hok : SDirOk args argNum ⟨flags, .none, prec, vidx, verb⟩) (hend : verb = none → rest = []) :
    parseDirective ints argNum (bodyText ⟨flags, .none, prec, vidx, verb⟩ ++ rest) =
      expectedS args argNum ⟨flags, .none, prec, vidx, verb⟩ := by
  have hok' := hok
  obtain ⟨hfl, _, hp, hvi, hde, _, _, hv, _⟩ := hok'
  simp only at hfl hp hvi hde hv
  have hHV := headP_verb verb rest hv hend
  have h46 : ∀ (t : Bytes), HeadP (fun x => x = 46 ∨ KV x) (46 :: t) ∧ fastVerb ints.length argNum (46 :: t) = none := by
    intro t
    refine ⟨?_, ?_⟩
    · intro c t' h; injection h with h1 _; exact Or.inl h1.symm
    · apply fastVerb_none_of_head; intro c t' h; injection h with h1 _; subst h1; decide
  cases prec with
  | lit p =>
    exact parse_star_widthNone_slow ints args hr argNum flags _ vidx verb rest hok hend (h46 _).1 (h46 _).2
  | star i =>
    exact parse_star_widthNone_slow ints args hr argNum flags _ vidx verb rest hok hend (h46 _).1 (h46 _).2
  | dot z n =>
    exact parse_star_widthNone_slow ints args hr argNum flags _ vidx verb rest hok hend (h46 _).1 (h46 _).2
  | ilit i n => exact hp.elim
  | idx i => exact hp.elim
  | none =>
    cases vidx with
    | some n =>
      have hbody : bodyText ⟨flags, .none, .none, some n, verb⟩ ++ rest = flags ++ (idxText (some n) ++ (verbText verb ++ rest)) := by
        simp [bodyText, Model.FormatSpecStar.widthText, Model.FormatSpecStar.precText]
      have hNF : NonFlagHead (idxText (some n) ++ (verbText verb ++ rest)) := by
        intro c t' h; rw [idxText_append] at h; injection h with h1 _; subst h1; decide
      have hfast : fastVerb ints.length argNum (idxText (some n) ++ (verbText verb ++ rest)) = none := by
        apply fastVerb_none_of_head
        intro c t' h; rw [idxText_append] at h; injection h with h1 _; subst h1; decide
      rw [hbody]
      unfold parseDirective
      rw [parseFlags_base flags _ hfl hNF (verb.getD 0)]
      simp only [List.drop_left]
      rw [hfast]
      simp only []
      rw [parseSlow_idx_verb ints _ rfl _ _ n verb rest hvi hv hend, hr.1]
      simp only [expectedS, evalHead, widthStage, precStage, bodyText, Model.FormatSpecStar.widthText,
        Model.FormatSpecStar.precText, List.length_append, List.length_nil]
      congr 1
      omega
    | none =>
      have hH : HeadP (fun x => x = 46 ∨ KV x) (Model.FormatSpecStar.precText .none ++ (idxText none ++ (verbText verb ++ rest))) := by
        intro c t' h; exact Or.inr (hHV c t' h)
      by_cases hslow : fastVerb ints.length argNum (verbText verb ++ rest) = none
      · exact parse_star_widthNone_slow ints args hr argNum flags _ none verb rest hok hend hH hslow
      · -- the fast path: a lower-case verb right after the flags, an operand left
        cases verb with
        | none => rw [hend rfl] at hslow; exact absurd rfl hslow
        | some x =>
          obtain ⟨hk, hx⟩ := knownVerb_byte x (hv x rfl)
          have hbody : bodyText ⟨flags, .none, .none, none, some x⟩ ++ rest = flags ++ (x.toUInt8 :: rest) := by
            simp [bodyText, Model.FormatSpecStar.widthText, Model.FormatSpecStar.precText, idxText, verbText]
          have hNF : NonFlagHead (x.toUInt8 :: rest) := by
            intro c t' h; injection h with h1 _; subst h1; exact (KV_facts _ hk).2.2.2.2.2
          simp only [verbText, List.cons_append, List.nil_append, fastVerb] at hslow
          have hcond : 97 ≤ x.toUInt8.toNat ∧ x.toUInt8.toNat ≤ 122 ∧ argNum < ints.length := by
            by_cases hc : 97 ≤ x.toUInt8.toNat ∧ x.toUInt8.toNat ≤ 122 ∧ argNum < ints.length
            · exact hc
            · rw [if_neg hc] at hslow; exact absurd rfl hslow
          rw [hbody]
          unfold parseDirective
          rw [parseFlags_base flags _ hfl hNF x]
          simp only [List.drop_left, fastVerb, hcond, and_self, if_true]
          simp only [expectedS, evalHead, widthStage, precStage, useIdx, bodyText, Model.FormatSpecStar.widthText,
            Model.FormatSpecStar.precText, idxText, verbText, List.length_append, List.length_nil, List.length_cons,
            Option.getD_some, hx]

theorem parse_star_widthIlit (ints : List (Option Int)) (args : List Arg) (hr : IntsRel ints args) (argNum : Nat)
    (flags : Bytes) (i n : Nat) (prec : SNum) (vidx verb : Option Nat) (rest : Bytes)
    (hok : SDirOk args argNum ⟨flags, .ilit i n, prec, vidx, verb⟩) (hend : verb = none → rest = []) :
    parseDirective ints argNum (bodyText ⟨flags, .ilit i n, prec, vidx, verb⟩ ++ rest) =
      expectedS args argNum ⟨flags, .ilit i n, prec, vidx, verb⟩ := by
  obtain ⟨hfl, hw, hp, hvi, hde, hwi, hwl, hv, _⟩ := hok
  simp only at hfl hw hp hvi hde hwi hwl hv
  obtain ⟨hi, hn⟩ : i ≤ 1000000 ∧ n ≤ 1000000 := hw
  have hbody : bodyText ⟨flags, .ilit i n, prec, vidx, verb⟩ ++ rest =
      flags ++ (idxText (some i) ++ (decimal n ++ (Model.FormatSpecStar.precText prec ++ (idxText vidx ++ (verbText verb ++ rest))))) := by
    simp [bodyText, Model.FormatSpecStar.widthText]
  have hHP := headP_prec prec _ (headP_idx vidx _ (headP_verb verb rest hv hend))
  have hND : NonDigitHead (Model.FormatSpecStar.precText prec ++ (idxText vidx ++ (verbText verb ++ rest))) := by
    intro c t' h
    rcases hHP c t' h with h1 | h1 | h1
    · subst h1; decide
    · subst h1; decide
    · exact (KV_facts c h1).2.2.2.2.1
  have hNF : NonFlagHead (idxText (some i) ++ (decimal n ++ (Model.FormatSpecStar.precText prec ++ (idxText vidx ++ (verbText verb ++ rest))))) := by
    intro c t' h; rw [idxText_append] at h; injection h with h1 _; subst h1; decide
  have hfast : fastVerb ints.length argNum (idxText (some i) ++ (decimal n ++ (Model.FormatSpecStar.precText prec ++ (idxText vidx ++ (verbText verb ++ rest))))) = none := by
    apply fastVerb_none_of_head
    intro c t' h; rw [idxText_append] at h; injection h with h1 _; subst h1; decide
  rw [hbody]
  unfold parseDirective
  rw [parseFlags_base flags _ hfl hNF (verb.getD 0)]
  simp only [List.drop_left]
  rw [hfast]
  simp only []
  rw [parseSlow_ilit ints _ _ _ i n _ hi hn hND, hr.1]
  by_cases hpn : prec = .none
  · subst hpn
    have hvn : vidx = none := hwl i n rfl rfl
    subst hvn
    simp only [Model.FormatSpecStar.precText, idxText, List.nil_append]
    rw [parseAfterWidth_verb_ai ints _ _ _ _ verb rest hv hend]
    simp only [expectedS, evalHead, widthStage, precStage, useIdx, bodyText, Model.FormatSpecStar.widthText,
      Model.FormatSpecStar.precText, idxText, List.length_append, List.length_nil, List.length_cons]
    congr 1
    omega
  · obtain ⟨c0, r0, h2⟩ := prec_head2 args _ prec vidx verb rest hpn hp hde
    rw [h2, parseAfterWidth_ai, ← h2]
    refine (after_width_chain ints args hr _ rfl _ _ _ prec vidx verb rest hp hvi hde hv hend).trans ?_
    simp only [expectedS, evalHead, widthStage, bodyText, Model.FormatSpecStar.widthText, List.length_append]
    congr 1
    omega

theorem parse_star_widthIdx (ints : List (Option Int)) (args : List Arg) (hr : IntsRel ints args) (argNum : Nat)
    (flags : Bytes) (i : Nat) (prec : SNum) (vidx verb : Option Nat) (rest : Bytes)
    (hok : SDirOk args argNum ⟨flags, .idx i, prec, vidx, verb⟩) (hend : verb = none → rest = []) :
    parseDirective ints argNum (bodyText ⟨flags, .idx i, prec, vidx, verb⟩ ++ rest) =
      expectedS args argNum ⟨flags, .idx i, prec, vidx, verb⟩ := by
  obtain ⟨hfl, hw, hp, hvi, hde, hwi, hwl, hv, _⟩ := hok
  simp only at hfl hw hp hvi hde hwi hwl hv
  have hi : i ≤ 1000000 := hw
  have hpn : prec ≠ .none := hwi i rfl
  have hbody : bodyText ⟨flags, .idx i, prec, vidx, verb⟩ ++ rest =
      flags ++ (idxText (some i) ++ (Model.FormatSpecStar.precText prec ++ (idxText vidx ++ (verbText verb ++ rest)))) := by
    simp [bodyText, Model.FormatSpecStar.widthText]
  have hNF : NonFlagHead (idxText (some i) ++ (Model.FormatSpecStar.precText prec ++ (idxText vidx ++ (verbText verb ++ rest)))) := by
    intro c t' h; rw [idxText_append] at h; injection h with h1 _; subst h1; decide
  have hfast : fastVerb ints.length argNum (idxText (some i) ++ (Model.FormatSpecStar.precText prec ++ (idxText vidx ++ (verbText verb ++ rest)))) = none := by
    apply fastVerb_none_of_head
    intro c t' h; rw [idxText_append] at h; injection h with h1 _; subst h1; decide
  obtain ⟨c0, r0, h2⟩ := prec_head2 args _ prec vidx verb rest hpn hp hde
  rw [hbody]
  unfold parseDirective
  rw [parseFlags_base flags _ hfl hNF (verb.getD 0)]
  simp only [List.drop_left]
  rw [hfast]
  simp only []
  rw [h2, parseSlow_idxonly ints _ rfl _ _ i c0 r0 hi, parseAfterWidth_ai, ← h2, hr.1]
  refine (after_width_chain ints args hr _ rfl _ _ _ prec vidx verb rest hp hvi hde hv hend).trans ?_
  simp only [expectedS, evalHead, widthStage, bodyText, Model.FormatSpecStar.widthText, List.length_append]
  congr 1
  omega

/-- **The parser link for the full directive syntax.** -/
theorem parse_star (ints : List (Option Int)) (args : List Arg) (hr : IntsRel ints args) (argNum : Nat) (sd : SDir) (rest : Bytes)
    (hok : SDirOk args argNum sd) (hend : sd.verb = none → rest = []) :
    parseDirective ints argNum (bodyText sd ++ rest) = expectedS args argNum sd := by
  cases sd with
  | mk flags width prec vidx verb =>
    cases width with
    | none => exact parse_star_widthNone ints args hr argNum flags prec vidx verb rest hok hend
    | lit w => exact parse_star_widthLit ints args hr argNum flags w prec vidx verb rest hok hend
    | star i => exact parse_star_widthStar ints args hr argNum flags i prec vidx verb rest hok hend
    | dot z n => exact hok.2.1.elim
    | ilit i n => exact parse_star_widthIlit ints args hr argNum flags i n prec vidx verb rest hok hend
    | idx i => exact parse_star_widthIdx ints args hr argNum flags i prec vidx verb rest hok hend

end Tengo.Proofs.C17StarDir

import Tengo.Proofs.C01F3OptCode
/-!
C01 on fragment F3, closing the optimizer gap, layer 5: the hypotheses of `source_to_vm_fragment3` about the data
side and the initial configuration are MET, for every `SrcOk` program:

* `unrefOf`, `csOf`, `envOk_env3`: for every injective `refs`, the concrete data semantics `env3` (scalars +
  compiled-function values, the VM's own value operations) with the pool's constants is `EnvOk`;
* `init_refs`: the configuration `VM.Run` starts from — `VM.initFobjs (toCode bc)`: every function constant loaded
  by a `CONST` gets its function object — is `toCodeR refs bc` for an INJECTIVE `refs` with the function objects in
  place: every function constant of a `SrcOk` program is loaded by a `CONST` of main.
-/
set_option linter.unusedVariables false
set_option linter.unusedSimpArgs false
namespace Tengo.Proofs.C01F3Opt
open Tengo.Model Tengo.Model.Opcodes
open Tengo.Model.F3 (Ins csize Ex Exs Stm Stms FnDef Prog comp compEs compS compSs)
open Tengo.Model.Spec (Value)
open Tengo.Proofs.C02Compile (toCodeR toCode toCode_const toVMConst)
open Tengo.Proofs.C01BridgeF3Comp
open Tengo.Proofs.C01BridgeF3 (FV Val3 env3 sem3 val3_of_scalar asFn3_some asFn3_none)

/-! ### the canonical environment -/

/-- Which function constant the function object `r` belongs to. -/
def unrefOf (P : Prog) (K : Nat) (refs : Nat → Nat) (r : Nat) : Option Nat :=
  (List.range K).find? (fun k => (P.fns k).isSome && refs k == r)

theorem unrefOf_some {P : Prog} {K : Nat} {refs : Nat → Nat} {r k : Nat} (h : unrefOf P K refs r = some k) :
    k < K ∧ (P.fns k).isSome = true ∧ refs k = r := by
  unfold unrefOf at h
  have h1 := List.find?_some h
  have h2 := List.mem_of_find?_eq_some h
  simp only [Bool.and_eq_true, beq_iff_eq] at h1
  exact ⟨List.mem_range.mp h2, h1.1, h1.2⟩

theorem unrefOf_isSome {P : Prog} {K : Nat} {refs : Nat → Nat} {k : Nat} (hk : k < K)
    (hf : (P.fns k).isSome = true) : (unrefOf P K refs (refs k)).isSome = true := by
  unfold unrefOf
  rw [List.find?_isSome]
  exact ⟨k, List.mem_range.mpr hk, by simp [hf]⟩

/-- The constants as values of the concrete carrier: a function constant is its function value, a value constant
its value. -/
def csOf (P : Prog) (ctab : Nat → F0.Const) (K : Nat) (refs : Nat → Nat) (k : Nat) : FV (unrefOf P K refs) :=
  if h : k < K ∧ (P.fns k).isSome = true then
    ⟨.cfn (refs k), by show (unrefOf P K refs (refs k)).isSome = true; exact unrefOf_isSome h.1 h.2⟩
  else ⟨F0.constValue (ctab k), val3_of_scalar (Tengo.Proofs.C01Bridge.constValue_scalar _)⟩

/-- **`EnvOk` is met by the concrete data semantics**, for every injective `refs`. -/
theorem envOk_env3 {P : Prog} {n : Nat} (hs : SrcOk P n) (ctab : Nat → F0.Const) (refs : Nat → Nat)
    (hinj : ∀ a b, refs a = refs b → a = b) :
    EnvOk P ctab (env3 (unrefOf P (nlitsMain P P.main) refs) (csOf P ctab (nlitsMain P P.main) refs))
      Subtype.val refs where
  vals := by
    intro k hk hf
    show (csOf P ctab (nlitsMain P P.main) refs k).1 = _
    unfold csOf
    rw [dif_neg (by simp [hf])]
  inj := hinj
  csfn := by
    intro k fd hf
    show (csOf P ctab (nlitsMain P P.main) refs k).1 = _
    unfold csOf
    rw [dif_pos ⟨(srcOk_fn hs hf).1, by simp [hf]⟩]
  asFn_some := asFn3_some _ refs (fun r k h => (unrefOf_some h).2.2.symm) _
  asFn_none := asFn3_none _ _

/-- The values of the concrete data semantics for the program `P` whose function constants carry `refs`. -/
abbrev FVOf (P : Prog) (refs : Nat → Nat) : Type := FV (unrefOf P (nlitsMain P P.main) refs)

/-- The concrete data semantics of the program `P` with constant table `ctab`. -/
abbrev envOf (P : Prog) (ctab : Nat → F0.Const) (refs : Nat → Nat) : F3.Env (FVOf P refs) :=
  env3 (unrefOf P (nlitsMain P P.main) refs) (csOf P ctab (nlitsMain P P.main) refs)

/-! ### the configuration `VM.Run` starts from -/

theorem const_mem {i k : Nat} : ∀ (ss : Stms) (bt ct off : Nat), MemS (.assign i (.lit k)) ss →
    Ins.const k ∈ compSs bt ct off ss
  | .nil, _, _, _, h => h.elim
  | .cons s ss, bt, ct, off, h => by
    simp only [compSs, List.mem_append]
    rcases h with rfl | h
    · left; simp [compS, comp]
    · right; exact const_mem ss bt ct _ h

theorem mem_toIs_of_mem {i : Ins} : ∀ (is : List Ins) (off : Nat), i ∈ is → ∃ p, toI p i ∈ toIs off is
  | [], _, h => by cases h
  | x :: is, off, h => by
    rw [List.mem_cons] at h
    rcases h with rfl | h
    · exact ⟨off, by simp [toIs]⟩
    · obtain ⟨p, hp⟩ := mem_toIs_of_mem is (off + x.size) h
      exact ⟨p, by rw [toIs]; exact List.mem_cons_of_mem _ hp⟩

theorem toCode_bcOf_fn (P : Prog) (ctab : Nat → F0.Const) (n : Nat) (refs : Nat → Nat) {k : Nat} {fd : FnDef}
    (hk : k < nlitsMain P P.main) (hf : P.fns k = some fd) :
    (toCodeR refs (bcOf P ctab n)).consts[k]? =
      some (.fn { insts := ((C01BridgeF3Comp.optBody fd).getD []).toArray, numLocals := fd.nlocals,
                  numParams := fd.nparams, varargs := false } (refs k)) := by
  rw [toCode_const, bcOf_const, if_pos hk, poolOf_fn P ctab k fd hf]
  rfl

/-- Every function constant of a `SrcOk` program is loaded by a `CONST` of main. -/
theorem fn_loaded {P : Prog} {n : Nat} (hs : SrcOk P n) (ctab : Nat → F0.Const) {k : Nat} {fd : FnDef}
    (hf : P.fns k = some fd) : (VM.constLoaded (toCode (bcOf P ctab n))).contains k = true := by
  rw [List.contains_iff_mem, Tengo.Proofs.C02Compile.mem_constLoaded]
  obtain ⟨i, hm⟩ := hs.decl k fd hf
  have hc : Ins.const k ∈ (F3.compProg P).main := const_mem P.main 0 0 0 hm
  obtain ⟨p, hp⟩ := mem_toIs_of_mem _ 0 hc
  refine ⟨(toCode (bcOf P ctab n)).main, Or.inl rfl, mainIsOf (F3.compProg P).main, ?_, toI p (.const k), ?_, rfl, rfl,
    _, _, toCode_bcOf_fn P ctab n _ (srcOk_fn hs hf).1 hf⟩
  · show decode (bcOf P ctab n).main.toArray.toList = _
    rw [List.toList_toArray]
    exact main_decodes _ (fun i hi => (srcOk_main hs i hi).1)
  · unfold mainIsOf
    exact List.mem_append_left _ hp

/-- **The configuration `VM.Run` starts from is `toCodeR refs bc` for an injective `refs`, function objects in
place.** -/
theorem init_refs {P : Prog} {n : Nat} (hs : SrcOk P n) (ctab : Nat → F0.Const) :
    ∃ refs : Nat → Nat, (∀ a b, refs a = refs b → a = b) ∧
      (VM.initFobjs (toCode (bcOf P ctab n))).1 = toCodeR refs (bcOf P ctab n) ∧
      ∀ k fd, P.fns k = some fd → (VM.initFobjs (toCode (bcOf P ctab n))).2[refs k]? = some (k, []) := by
  obtain ⟨refs0, h0⟩ := Tengo.Proofs.C03Source.initFobjs_toCode (bcOf P ctab n)
  have hobj : ∀ k fd, P.fns k = some fd →
      (VM.initFobjs (toCode (bcOf P ctab n))).2[refs0 k]? = some (k, []) := by
    intro k fd hf
    have hk := toCode_bcOf_fn P ctab n refs0 (srcOk_fn hs hf).1 hf
    rw [← h0] at hk
    exact Tengo.Proofs.C02Compile.initFobjs_ref (toCode (bcOf P ctab n)) k _ (refs0 k) hk (fn_loaded hs ctab hf)
  let B := (VM.initFobjs (toCode (bcOf P ctab n))).2.size
  refine ⟨fun k => if (P.fns k).isSome then refs0 k else B + k, ?_, ?_, ?_⟩
  · intro a b hab
    simp only at hab
    have hlt : ∀ k fd, P.fns k = some fd → refs0 k < B := by
      intro k fd hf
      have := hobj k fd hf
      rcases Nat.lt_or_ge (refs0 k) B with h | h
      · exact h
      · rw [Array.getElem?_eq_none h] at this; cases this
    cases ha : P.fns a with
    | none =>
      cases hb : P.fns b with
      | none => simp only [ha, hb, Option.isSome_none] at hab; simp at hab; omega
      | some fb =>
        simp only [ha, hb, Option.isSome_none, Option.isSome_some] at hab
        simp at hab
        have := hlt b fb hb
        omega
    | some fa =>
      cases hb : P.fns b with
      | none =>
        simp only [ha, hb, Option.isSome_none, Option.isSome_some] at hab
        simp at hab
        have := hlt a fa ha
        omega
      | some fb =>
        simp only [ha, hb, Option.isSome_some, if_true] at hab
        have h1 := hobj a fa ha
        have h2 := hobj b fb hb
        rw [hab, h2] at h1
        simp only [Option.some.injEq, Prod.mk.injEq, and_true] at h1
        exact h1.symm
  · rw [h0]
    refine Tengo.Proofs.C03Source.code_ext (by rfl) ?_
    intro j
    rw [toCode_const, toCode_const]
    cases hc : (bcOf P ctab n).consts[j]? with
    | none => rfl
    | some c =>
      simp only [Option.map_some, Option.some.injEq]
      cases c with
      | fn code nl np va =>
        obtain ⟨_, fd, hf, _⟩ := bcOf_fn hc
        simp only [toVMConst, hf, Option.isSome_some, if_true]
      | _ => rfl
  · intro k fd hf
    simp only [hf, Option.isSome_some, if_true]
    exact hobj k fd hf

end Tengo.Proofs.C01F3Opt

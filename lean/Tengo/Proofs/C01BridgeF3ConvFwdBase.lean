import Tengo.Proofs.C01BridgeF3ConvBase
/-!
C01 bridge for fragment F3, reference-interpreter side: the FORWARD simulation WITHOUT the fuel bound `f ≤ 1800`
(layer 0, the statements). `all_sim3` carries `2·depth + f ≤ 1800` only to keep the interpreter's call depth below
900, where it answers `excluded`. Here that verdict is an admitted outcome instead (`Xz`): for every fuel `f` of the
fragment's evaluator and every interpreter fuel `F ≥ 4 f`, the interpreter's computation ends `excluded`, or it is
related to the evaluator's result exactly as in `all_sim3` (relations `RE`, `REs`, `RS`, `RB`, `RBk` of the forward
files; `out`/`bad` claim nothing). In particular it is never fuel exhaustion when the evaluator terminates.
-/
set_option linter.unusedVariables false
set_option linter.unusedSimpArgs false
namespace Tengo.Proofs.C01BridgeF3Conv
open Tengo.Model Tengo.Model.Spec
open Tengo.Model.F3 (Ex Exs Stm Stms FnDef Prog Locals ERes EsRes Res updL bindArgs)
open Tengo.Proofs.C01Bridge
open Tengo.Proofs.C01BridgeF3 (DataRel NotCallable)
open Tengo.Proofs.C01BridgeF3Comp
open Tengo.Proofs.C01F3Opt (EnvOk)
open Tengo.Proofs.C01BridgeF3Spec

/-- The computation ends in an `excluded` verdict. -/
def Xz {α : Type} (x : EM α) (gs : GSt) (σ : St) : Prop := ∃ why, EErr x gs σ (Err.excluded why)

theorem Xz.bind_left {α β : Type} {x : EM α} {K : α → EM β} {gs : GSt} {σ : St} (h : Xz x gs σ) :
    Xz (x >>= K) gs σ := by
  obtain ⟨w, h⟩ := h
  exact ⟨w, EErr.bind_left h⟩

theorem Xz.bind_right {α β : Type} {x : EM α} {K : α → EM β} {gs : GSt} {σ σ1 : St} {a : α}
    (h1 : EOk x gs σ a σ1) (h : Xz (K a) gs σ1) : Xz (x >>= K) gs σ := by
  obtain ⟨w, h⟩ := h
  exact ⟨w, EErr.bind_right h1 h⟩

theorem Xz.congr {α : Type} {x y : EM α} {gs : GSt} {σ : St} (h : Xz x gs σ) (e : x gs σ = y gs σ) : Xz y gs σ := by
  unfold Xz EErr at *
  rw [← e]; exact h

/-- A call at depth ≥ 900 (right number of arguments) is `excluded`. -/
theorem callClosure_deepX (F : Nat) (ctx : Ctx) (c : Closure) (args : List Value) (hv : c.varargs = false)
    (hl : args.length = c.params.length) (hd : 900 ≤ ctx.callDepth) (gs : GSt) (σ : St) :
    Xz (callClosure (F + 1) ctx c args) gs σ := by
  refine ⟨"call depth near the frame limit", ?_⟩
  rw [callClosure.eq_2]
  simp only [hv, Bool.false_eq_true, if_false, pure_bind]
  have h1 : (args.length != c.params.length) = false := by simp [hl]
  simp only [h1, Bool.false_eq_true, if_false]
  have h2 : ctx.callDepth ≥ 900 := hd
  simp only [if_pos h2]
  exact EErr.bind_left (EErr.lift (m := throw (Err.excluded "call depth near the frame limit")) rfl)

variable {V : Type} (C : Cx V)

/-- The result of the call proper (forward: `out`/`bad` claim nothing). -/
def RC (x : EM Value) (gs : GSt) (σ : St) : ERes V → Prop
  | .val v g' => ∃ w' σ', EOk x gs σ w' σ' ∧ VR C σ' v w' ∧ GInv C σ' g' ∧ FrB C σ.heap.size σ σ'
  | .err => ∃ err, err ≠ Err.fuel ∧ EErr x gs σ err
  | .out => True
  | .bad => True

/-- `lnames m := e` at the top of a function body. -/
def RD (x : EM (Flow × Spec.Env)) (gs : GSt) (σ : St) (B m : Nat) : Res V → Prop
  | .done g' l' => ∃ env' σ' lc', EOk x gs σ (Flow.normal, env') σ' ∧ EInv C env' (m + 1) lc' ∧
      HInv C B σ' g' (m + 1) lc' l' ∧ FrB C B σ σ'
  | .err => ∃ err, err ≠ Err.fuel ∧ EErr x gs σ err
  | _ => True

/-- The main program. -/
def RM (x : EM (Flow × Spec.Env)) (gs : GSt) (σ : St) : Res V → Prop
  | .done g' _ => ∃ σ', EOk x gs σ (Flow.normal, C.genv) σ' ∧ GInv C σ' g'
  | .err => ∃ err, err ≠ Err.fuel ∧ EErr x gs σ err
  | _ => True

/-! ### the statements, at fuel `f` of the evaluator, for every fuel `F ≥ 4 f` of the interpreter -/

def EvalFwd (f : Nat) (e : Ex) : Prop :=
  ∀ (F : Nat) (ctx : Ctx) (gs : GSt) (σ : St) (g : Nat → V) (l : Locals V) (m : Nat) (lc : Nat → Nat) (B k : Nat),
    4 * f ≤ F → EInv C ctx.env m lc → HInv C B σ g m lc l → wfE3 (isFnOf C.P) C.n m k e = true →
    Xz (evalExpr F ctx (toAstE3 C.names C.lnames C.ctab e)) gs σ ∨
    RE C (evalExpr F ctx (toAstE3 C.names C.lnames C.ctab e)) gs σ B m lc l (F3.evalE C.E C.P f e g l)

def EvalsFwd (f : Nat) (es : Exs) : Prop :=
  ∀ (F : Nat) (ctx : Ctx) (gs : GSt) (σ : St) (g : Nat → V) (l : Locals V) (m : Nat) (lc : Nat → Nat) (B k : Nat),
    4 * f ≤ F → EInv C ctx.env m lc → HInv C B σ g m lc l → wfEs3 (isFnOf C.P) C.n m k es = true →
    Xz (evalExprs F ctx (toAstEs3 C.names C.lnames C.ctab es)) gs σ ∨
    REs C (evalExprs F ctx (toAstEs3 C.names C.lnames C.ctab es)) gs σ B m lc l (F3.evalEs C.E C.P f es g l)

def CallFwd (f : Nat) : Prop :=
  ∀ (F : Nat) (ctx : Ctx) (gs : GSt) (σ : St) (g : Nat → V) (fv : V) (w : Value) (vs : List V) (ws : List Value),
    4 * f ≤ F → VR C σ fv w → VRs C σ vs ws → GInv C σ g →
    Xz (callTail F ctx w ws) gs σ ∨ RC C (callTail F ctx w ws) gs σ (F3.callFn C.E C.P f fv vs g)

def StmtFwd (f : Nat) (st : Stm) : Prop :=
  ∀ (F : Nat) (ctx : Ctx) (gs : GSt) (σ : St) (g : Nat → V) (l : Locals V) (m : Nat) (lc : Nat → Nat) (B k : Nat)
    (inFn inl : Bool),
    4 * f ≤ F → EInv C ctx.env m lc → HInv C B σ g m lc l → wfS3 (isFnOf C.P) C.n m inFn inl k st = true →
    Xz (execStmt F ctx (toAstS3 C.names C.lnames C.ctab st)) gs σ ∨
    RS C (execStmt F ctx (toAstS3 C.names C.lnames C.ctab st)) (fun fl => (fl, ctx.env)) gs σ B m lc
      (F3.execS C.E C.P f st g l)

def StmtsFwd (f : Nat) (ss : Stms) : Prop :=
  ∀ (F : Nat) (ctx : Ctx) (gs : GSt) (σ : St) (g : Nat → V) (l : Locals V) (m : Nat) (lc : Nat → Nat) (B k i : Nat)
    (inFn inl : Bool),
    4 * f ≤ F → EInv C ctx.env m lc → HInv C B σ g m lc l → wfSs3 (isFnOf C.P) C.n m inFn inl k ss = true →
    Xz (execStmts F ctx (toAstSs3 C.names C.lnames C.ctab ss) i) gs σ ∨
    RS C (execStmts F ctx (toAstSs3 C.names C.lnames C.ctab ss) i) (fun fl => (fl, ctx.env)) gs σ B m lc
      (F3.execSs C.E C.P f ss g l)

def BlockFwd (f : Nat) (ss : Stms) : Prop :=
  ∀ (F : Nat) (ctx : Ctx) (gs : GSt) (σ : St) (g : Nat → V) (l : Locals V) (m : Nat) (lc : Nat → Nat) (B k tag : Nat)
    (inFn inl : Bool),
    4 * f + 1 ≤ F → EInv C ctx.env m lc → HInv C B σ g m lc l → wfSs3 (isFnOf C.P) C.n m inFn inl k ss = true →
    Xz (execBlock F ctx (toAstSs3 C.names C.lnames C.ctab ss) tag) gs σ ∨
    RS C (execBlock F ctx (toAstSs3 C.names C.lnames C.ctab ss) tag) (fun fl => fl) gs σ B m lc
      (F3.execSs C.E C.P f ss g l)

def WhileFwd (f : Nat) (c : Ex) (body : Stms) : Prop :=
  ∀ (F : Nat) (ctx : Ctx) (gs : GSt) (σ : St) (g : Nat → V) (l : Locals V) (m : Nat) (lc : Nat → Nat) (B k : Nat)
    (inFn inl : Bool),
    4 * f ≤ F + 1 → EInv C ctx.env m lc → HInv C B σ g m lc l →
    wfS3 (isFnOf C.P) C.n m inFn inl k (.whil c body) = true →
    Xz (loopFor F ctx (some (toAstE3 C.names C.lnames C.ctab c)) none (toAstSs3 C.names C.lnames C.ctab body)) gs σ ∨
    RS C (loopFor F ctx (some (toAstE3 C.names C.lnames C.ctab c)) none (toAstSs3 C.names C.lnames C.ctab body))
      (fun fl => fl) gs σ B m lc (F3.execS C.E C.P f (.whil c body) g l)

def ForeverFwd (f : Nat) (body : Stms) : Prop :=
  ∀ (F : Nat) (ctx : Ctx) (gs : GSt) (σ : St) (g : Nat → V) (l : Locals V) (m : Nat) (lc : Nat → Nat) (B k : Nat)
    (inFn inl : Bool),
    4 * f ≤ F + 1 → EInv C ctx.env m lc → HInv C B σ g m lc l →
    wfS3 (isFnOf C.P) C.n m inFn inl k (.forever body) = true →
    Xz (loopFor F ctx none none (toAstSs3 C.names C.lnames C.ctab body)) gs σ ∨
    RS C (loopFor F ctx none none (toAstSs3 C.names C.lnames C.ctab body))
      (fun fl => fl) gs σ B m lc (F3.execS C.E C.P f (.forever body) g l)

def For3Fwd (f : Nat) (c : Ex) (body : Stms) (post : Stm) : Prop :=
  ∀ (F : Nat) (ctx : Ctx) (gs : GSt) (σ : St) (g : Nat → V) (l : Locals V) (m : Nat) (lc : Nat → Nat) (B k : Nat)
    (inFn inl : Bool),
    4 * f ≤ F + 1 → EInv C ctx.env m lc → HInv C B σ g m lc l →
    wfS3 (isFnOf C.P) C.n m inFn inl k (.for3 c body post) = true →
    Xz (loopFor F ctx (some (toAstE3 C.names C.lnames C.ctab c)) (some (toAstS3 C.names C.lnames C.ctab post))
        (toAstSs3 C.names C.lnames C.ctab body)) gs σ ∨
    RS C (loopFor F ctx (some (toAstE3 C.names C.lnames C.ctab c)) (some (toAstS3 C.names C.lnames C.ctab post))
        (toAstSs3 C.names C.lnames C.ctab body))
      (fun fl => fl) gs σ B m lc (F3.execS C.E C.P f (.for3 c body post) g l)

def DeflFwd (f : Nat) (e : Ex) : Prop :=
  ∀ (F : Nat) (ctx : Ctx) (gs : GSt) (σ : St) (g : Nat → V) (l : Locals V) (m : Nat) (lc : Nat → Nat) (B k : Nat),
    4 * f ≤ F → ctx.callDepth ≠ 0 → EInv C ctx.env m lc → HInv C B σ g m lc l →
    wfE3 (isFnOf C.P) C.n m k e = true →
    Xz (execStmt F ctx (toAstS3 C.names C.lnames C.ctab (.defl m e))) gs σ ∨
    RD C (execStmt F ctx (toAstS3 C.names C.lnames C.ctab (.defl m e))) gs σ B m (F3.execS C.E C.P f (.defl m e) g l)

def BodyFwd (f : Nat) (ss : Stms) : Prop :=
  ∀ (F : Nat) (ctx : Ctx) (gs : GSt) (σ : St) (g : Nat → V) (l : Locals V) (m : Nat) (lc : Nat → Nat) (B k i : Nat),
    4 * f ≤ F → ctx.callDepth ≠ 0 → EInv C ctx.env m lc → HInv C B σ g m lc l →
    wfBody (isFnOf C.P) C.n m k ss = true →
    Xz (execStmts F ctx (toAstSs3 C.names C.lnames C.ctab ss) i) gs σ ∨
    RB C (execStmts F ctx (toAstSs3 C.names C.lnames C.ctab ss) i) gs σ B (F3.execSs C.E C.P f ss g l)

/-- All forms at fuel `f` of the evaluator. -/
structure AllFwd (f : Nat) : Prop where
  e : ∀ e, EvalFwd C f e
  es : ∀ es, EvalsFwd C f es
  call : CallFwd C f
  s : ∀ st, StmtFwd C f st
  ss : ∀ ss, StmtsFwd C f ss
  whil : ∀ c body, WhileFwd C f c body
  forever : ∀ body, ForeverFwd C f body
  for3 : ∀ c body post, For3Fwd C f c body post
  defl : ∀ e, DeflFwd C f e
  body : ∀ ss, BodyFwd C f ss

variable {C}

/-! ### sequencing -/

theorem RE.bind_okX {α : Type} {x : EM α} {K : α → EM Value} {gs : GSt} {σ σ1 : St} {a : α} {B m : Nat}
    {lc : Nat → Nat} {l : Locals V} {res : ERes V} (h1 : EOk x gs σ a σ1) (hf : FrB C B σ σ1)
    (h2 : Xz (K a) gs σ1 ∨ RE C (K a) gs σ1 B m lc l res) :
    Xz (x >>= K) gs σ ∨ RE C (x >>= K) gs σ B m lc l res := by
  rcases h2 with h2 | h2
  · exact .inl (Xz.bind_right h1 h2)
  · exact .inr (RE.bind_ok h1 hf h2)

theorem RE.pureX {gs : GSt} {σ : St} {B m : Nat} {lc : Nat → Nat} {l : Locals V} {v : V} {w : Value} {g : Nat → V}
    (hv : VR C σ v w) (hi : HInv C B σ g m lc l) :
    Xz (Pure.pure w : EM Value) gs σ ∨ RE C (Pure.pure w) gs σ B m lc l (.val v g) :=
  .inr (RE.pure hv hi)

theorem REs.bind_okX {α : Type} {x : EM α} {K : α → EM (List Value)} {gs : GSt} {σ σ1 : St} {a : α} {B m : Nat}
    {lc : Nat → Nat} {l : Locals V} {res : EsRes V} (h1 : EOk x gs σ a σ1) (hf : FrB C B σ σ1)
    (h2 : Xz (K a) gs σ1 ∨ REs C (K a) gs σ1 B m lc l res) :
    Xz (x >>= K) gs σ ∨ REs C (x >>= K) gs σ B m lc l res := by
  rcases h2 with h2 | h2
  · exact .inl (Xz.bind_right h1 h2)
  · exact .inr (REs.bind_ok h1 hf h2)

theorem RS.bind_okX {α β : Type} {x : EM α} {K : α → EM β} {mk : Flow → β} {gs : GSt} {σ σ1 : St} {a : α}
    {B m : Nat} {lc : Nat → Nat} {res : Res V} (h1 : EOk x gs σ a σ1) (hf : FrB C B σ σ1)
    (h2 : Xz (K a) gs σ1 ∨ RS C (K a) mk gs σ1 B m lc res) :
    Xz (x >>= K) gs σ ∨ RS C (x >>= K) mk gs σ B m lc res := by
  rcases h2 with h2 | h2
  · exact .inl (Xz.bind_right h1 h2)
  · exact .inr (RS.bind_ok h1 hf h2)

theorem RS.wrapX {α β : Type} {x : EM α} {K : α → EM β} {mk : Flow → α} {mk' : Flow → β} {gs : GSt} {σ : St}
    {B m : Nat} {lc : Nat → Nat} {res : Res V} (h : Xz x gs σ ∨ RS C x mk gs σ B m lc res)
    (hK : ∀ fl σ', EOk (K (mk fl)) gs σ' (mk' fl) σ') :
    Xz (x >>= K) gs σ ∨ RS C (x >>= K) mk' gs σ B m lc res := by
  rcases h with h | h
  · exact .inl h.bind_left
  · exact .inr (RS.wrap h hK)

theorem RB.bind_okX {α : Type} {x : EM α} {K : α → EM (Flow × Spec.Env)} {gs : GSt} {σ σ1 : St} {a : α}
    {B : Nat} {res : Res V} (h1 : EOk x gs σ a σ1) (hf : FrB C B σ σ1)
    (h2 : Xz (K a) gs σ1 ∨ RB C (K a) gs σ1 B res) : Xz (x >>= K) gs σ ∨ RB C (x >>= K) gs σ B res := by
  rcases h2 with h2 | h2
  · exact .inl (Xz.bind_right h1 h2)
  · exact .inr (RB.bind_ok h1 hf h2)

end Tengo.Proofs.C01BridgeF3Conv

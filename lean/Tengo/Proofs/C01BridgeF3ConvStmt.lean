import Tengo.Proofs.C01BridgeF3ConvBase
/-!
C01 bridge for fragment F3, reference-interpreter side, CONVERSE direction, layer 1 (statements, statement lists,
blocks and the three loops): the steps of the induction on the INTERPRETER's fuel `F`. Each theorem gives one form at
interpreter fuel `F + 1` (for every evaluator fuel `f ≥ F + 1`) from the forms at smaller interpreter fuels; the
`_zero` theorems are the base (`Fz`: fuel exhaustion). Mirror of the forward steps in Proofs/C01BridgeF3SpecStmt.lean.
-/
set_option linter.unusedVariables false
set_option linter.unusedSimpArgs false
namespace Tengo.Proofs.C01BridgeF3Conv
open Tengo.Model Tengo.Model.Spec
open Tengo.Model.F3 (Ex Exs Stm Stms FnDef Prog Locals ERes EsRes Res updL bindArgs)
open Tengo.Proofs.C01Bridge
open Tengo.Proofs.C01BridgeF3 (DataRel NotCallable)
open Tengo.Proofs.C01BridgeF3Comp
open Tengo.Proofs.C01F3Opt (EnvOk)
open Tengo.Proofs.C11Rename (isFuncLit)
open Tengo.Proofs.C01BridgeF3Spec
variable {V : Type} {C : Cx V}

section
variable (hy : Hyp C) (F : Nat) (ihE : ∀ F', F' ≤ F → ∀ e, EvalConv C F' e)
include hy ihE

/-! ### interpreter fuel 0 -/

omit hy ihE in
theorem stmtConv_zero (st : Stm) : StmtConv C 0 st :=
  fun ctx gs σ g l m lc B k inFn inl f hf he hh hw => .inl (Fz.fuel (execStmt_zero _ _ _ _))

omit hy ihE in
theorem stmtsConv_zero (ss : Stms) : StmtsConv C 0 ss :=
  fun ctx gs σ g l m lc B k i inFn inl f hf he hh hw => .inl (Fz.fuel (execStmts_zero _ _ _ _ _))

omit hy ihE in
theorem blockConv_zero (ss : Stms) : BlockConv C 0 ss :=
  fun ctx gs σ g l m lc B k tag inFn inl f hf he hh hw => .inl (Fz.fuel (execBlock_zero _ _ _ _ _))

omit hy ihE in
theorem whileConv_zero (c : Ex) (body : Stms) : WhileConv C 0 c body :=
  fun ctx gs σ g l m lc B k inFn inl f hf he hh hw => .inl (Fz.fuel (loopFor_zero _ _ _ _ _ _))

omit hy ihE in
theorem foreverConv_zero (body : Stms) : ForeverConv C 0 body :=
  fun ctx gs σ g l m lc B k inFn inl f hf he hh hw => .inl (Fz.fuel (loopFor_zero _ _ _ _ _ _))

omit hy ihE in
theorem for3Conv_zero (c : Ex) (body : Stms) (post : Stm) : For3Conv C 0 c body post :=
  fun ctx gs σ g l m lc B k inFn inl f hf he hh hw => .inl (Fz.fuel (loopFor_zero _ _ _ _ _ _))

/-! ### blocks -/

omit hy ihE in
theorem blockConv_succ {ss : Stms} (h : StmtsConv C F ss) : BlockConv C (F + 1) ss := by
  intro ctx gs σ g l m lc B k tag inFn inl f hf he hh hw
  obtain ⟨f', rfl⟩ : ∃ f', f = f' + 1 := ⟨f - 1, by omega⟩
  cases ss with
  | nil =>
    simp only [toAstSs3, execBlock.eq_2, F3.execSs]
    exact .inr ⟨σ, EOk.pure _ gs σ, hh, FrB.refl B σ⟩
  | cons st ss =>
    rw [toAstSs3, execBlock.eq_3 _ _ _ _ (by simp), ← toAstSs3]
    exact CS.wrap (h { env := { vars := [] } :: ctx.env, callDepth := ctx.callDepth, path := tag :: ctx.path }
      gs σ g l m lc B k 0 inFn inl (f' + 1) (by omega) he.push hh hw) (fun fl σ' => EOk.pure _ gs σ')

/-! ### simple statements -/

omit hy in
theorem stmtConv_expr (e : Ex) : StmtConv C (F + 1) (.expr e) := by
  intro ctx gs σ g l m lc B k inFn inl f hf he hh hw
  obtain ⟨f', rfl⟩ : ∃ f', f = f' + 1 := ⟨f - 1, by omega⟩
  simp only [wfS3] at hw
  simp only [toAstS3, ex_expr, F3.execS]
  rcases ihE F (Nat.le_refl F) e ctx gs σ g l m lc B _ f' (by omega) he hh hw with hfu | ha
  · exact .inl hfu.bind_left
  · cases hea : F3.evalE C.E C.P f' e g l with
    | val x g1 =>
      rw [hea] at ha
      obtain ⟨wx, σ1, hok1, hvx, hh1, hf1⟩ := ha
      exact .inr ⟨σ1, EOk.bind hok1 (EOk.pure _ gs σ1), hh1, hf1⟩
    | err => rw [hea] at ha; obtain ⟨err, hne, herr⟩ := ha; exact .inr ⟨err, hne, EErr.bind_left herr⟩
    | out => rw [hea] at ha; exact False.elim ha
    | bad => exact .inr True.intro

theorem stmtConv_assign (i : Nat) (e : Ex) : StmtConv C (F + 1) (.assign i e) := by
  cases F with
  | zero =>
    intro ctx gs σ g l m lc B k inFn inl f hf he hh hw
    simp only [toAstS3, ex_assign _ _ _ _ (C01BridgeF3Spec.isFuncLit_toAstE3 _ _ _ e)]
    exact .inl (Fz.fuel (EErr.bind_left (evalExpr_zero _ _ _ _)))
  | succ F =>
    intro ctx gs σ g l m lc B k inFn inl f hf he hh hw
    obtain ⟨f', rfl⟩ : ∃ f', f = f' + 1 := ⟨f - 1, by omega⟩
    simp only [wfS3, Bool.and_eq_true, decide_eq_true_eq] at hw
    obtain ⟨hi, hw⟩ := hw
    simp only [toAstS3, ex_assign _ _ _ _ (C01BridgeF3Spec.isFuncLit_toAstE3 _ _ _ e), ex_assignTo, F3.execS]
    rcases ihE (F + 1) (Nat.le_refl _) e ctx gs σ g l m lc B _ f' (by omega) he hh hw with hfu | ha
    · exact .inl hfu.bind_left
    · cases hea : F3.evalE C.E C.P f' e g l with
      | val x g1 =>
        rw [hea] at ha
        obtain ⟨wx, σ1, hok1, hvx, hh1, hf1⟩ := ha
        obtain ⟨wi, bi, hci, _⟩ := hh1.glob i hi
        exact .inr ⟨_, EOk.bind hok1 (EOk.bind (EOk.bind (writeVar_run (he.glob i hi) wx gs σ1) (EOk.pure _ gs _))
          (EOk.pure _ gs _)), hh1.setGlob hy hi hvx, hf1.trans (frB_setGlob hi hci)⟩
      | err => rw [hea] at ha; obtain ⟨err, hne, herr⟩ := ha; exact .inr ⟨err, hne, EErr.bind_left herr⟩
      | out => rw [hea] at ha; exact False.elim ha
      | bad => exact .inr True.intro

omit hy in
theorem stmtConv_setl (i : Nat) (e : Ex) : StmtConv C (F + 1) (.setl i e) := by
  cases F with
  | zero =>
    intro ctx gs σ g l m lc B k inFn inl f hf he hh hw
    simp only [toAstS3, ex_assign _ _ _ _ (C01BridgeF3Spec.isFuncLit_toAstE3 _ _ _ e)]
    exact .inl (Fz.fuel (EErr.bind_left (evalExpr_zero _ _ _ _)))
  | succ F =>
    intro ctx gs σ g l m lc B k inFn inl f hf he hh hw
    obtain ⟨f', rfl⟩ : ∃ f', f = f' + 1 := ⟨f - 1, by omega⟩
    simp only [wfS3, Bool.and_eq_true, decide_eq_true_eq] at hw
    obtain ⟨hi, hw⟩ := hw
    simp only [toAstS3, ex_assign _ _ _ _ (C01BridgeF3Spec.isFuncLit_toAstE3 _ _ _ e), ex_assignTo, F3.execS]
    rcases ihE (F + 1) (Nat.le_refl _) e ctx gs σ g l m lc B _ f' (by omega) he hh hw with hfu | ha
    · exact .inl hfu.bind_left
    · cases hea : F3.evalE C.E C.P f' e g l with
      | val x g1 =>
        rw [hea] at ha
        obtain ⟨wx, σ1, hok1, hvx, hh1, hf1⟩ := ha
        obtain ⟨vi, wi, bi, _, hci, _⟩ := hh1.loc.loc i hi
        exact .inr ⟨_, EOk.bind hok1 (EOk.bind (EOk.bind (writeVar_run (he.loc i hi) wx gs σ1) (EOk.pure _ gs _))
          (EOk.pure _ gs _)), hh1.setLoc hi hvx, hf1.trans (frB_setLoc (hh1.loc.base i hi) hci)⟩
      | err => rw [hea] at ha; obtain ⟨err, hne, herr⟩ := ha; exact .inr ⟨err, hne, EErr.bind_left herr⟩
      | out => rw [hea] at ha; exact False.elim ha
      | bad => exact .inr True.intro

omit hy in
theorem stmtConv_ret (e : Ex) : StmtConv C (F + 1) (.ret e) := by
  intro ctx gs σ g l m lc B k inFn inl f hf he hh hw
  obtain ⟨f', rfl⟩ : ∃ f', f = f' + 1 := ⟨f - 1, by omega⟩
  simp only [wfS3, Bool.and_eq_true] at hw
  simp only [toAstS3, ex_ret, F3.execS]
  rcases ihE F (Nat.le_refl F) e ctx gs σ g l m lc B _ f' (by omega) he hh hw.2 with hfu | ha
  · exact .inl hfu.bind_left
  · cases hea : F3.evalE C.E C.P f' e g l with
    | val x g1 =>
      rw [hea] at ha
      obtain ⟨wx, σ1, hok1, hvx, hh1, hf1⟩ := ha
      exact .inr ⟨wx, σ1, EOk.bind hok1 (EOk.pure _ gs σ1), hvx, hh1.glob, hf1⟩
    | err => rw [hea] at ha; obtain ⟨err, hne, herr⟩ := ha; exact .inr ⟨err, hne, EErr.bind_left herr⟩
    | out => rw [hea] at ha; exact False.elim ha
    | bad => exact .inr True.intro

omit ihE in
theorem stmtConv_ret0 : StmtConv C (F + 1) .ret0 := by
  intro ctx gs σ g l m lc B k inFn inl f hf he hh hw
  obtain ⟨f', rfl⟩ : ∃ f', f = f' + 1 := ⟨f - 1, by omega⟩
  simp only [toAstS3, ex_ret0, F3.execS]
  exact .inr ⟨.undef, σ, EOk.pure _ gs σ, by rw [← hy.data.undef]; exact VR.scalar (by rw [hy.data.undef]; rfl),
    hh.glob, FrB.refl B σ⟩

omit hy ihE in
theorem stmtConv_brk : StmtConv C (F + 1) .brk := by
  intro ctx gs σ g l m lc B k inFn inl f hf he hh hw
  obtain ⟨f', rfl⟩ : ∃ f', f = f' + 1 := ⟨f - 1, by omega⟩
  simp only [toAstS3, ex_branch_break, F3.execS]
  exact .inr ⟨σ, EOk.pure _ gs σ, hh, FrB.refl B σ⟩

omit hy ihE in
theorem stmtConv_cont : StmtConv C (F + 1) .cont := by
  intro ctx gs σ g l m lc B k inFn inl f hf he hh hw
  obtain ⟨f', rfl⟩ : ∃ f', f = f' + 1 := ⟨f - 1, by omega⟩
  simp only [toAstS3, ex_branch_continue, F3.execS]
  exact .inr ⟨σ, EOk.pure _ gs σ, hh, FrB.refl B σ⟩

/-! ### conditionals -/

theorem stmtConv_ifs (c : Ex) (body : Stms) (hb : BlockConv C F body) : StmtConv C (F + 1) (.ifs c body) := by
  intro ctx gs σ g l m lc B k inFn inl f hf he hh hw
  obtain ⟨f', rfl⟩ : ∃ f', f = f' + 1 := ⟨f - 1, by omega⟩
  simp only [wfS3, Bool.and_eq_true] at hw
  obtain ⟨hwc, hwb⟩ := hw
  simp only [toAstS3, ex_ifs, F3.execS]
  rcases ihE F (Nat.le_refl F) c { ctx with env := { vars := [] } :: ctx.env } gs σ g l m lc B _ f' (by omega)
    he.push hh hwc with hfu | ha
  · exact .inl hfu.bind_left
  · cases hea : F3.evalE C.E C.P f' c g l with
    | val x g1 =>
      rw [hea] at ha
      obtain ⟨wx, σ1, hok1, hvx, hh1, hf1⟩ := ha
      refine CS.bind_ok hok1 hf1 (CS.bind_ok (vr_falsy hy hvx gs σ1) (FrB.refl B σ1) ?_)
      dsimp only
      cases hfa : C.E.S.falsy x with
      | true =>
        simp only [Bool.not_true, Bool.false_eq_true, if_false, if_true]
        exact .inr ⟨σ1, EOk.pure _ gs σ1, hh1, FrB.refl B σ1⟩
      | false =>
        simp only [Bool.not_false, Bool.false_eq_true, if_false, if_true]
        exact CS.wrap (hb { ctx with env := { vars := [] } :: ctx.env } gs σ1 g1 l m lc B _ 1 inFn inl f' (by omega)
          he.push hh1 hwb) (fun fl σ' => EOk.pure _ gs σ')
    | err => rw [hea] at ha; obtain ⟨err, hne, herr⟩ := ha; exact .inr ⟨err, hne, EErr.bind_left herr⟩
    | out => rw [hea] at ha; exact False.elim ha
    | bad => exact .inr True.intro

theorem stmtConv_ifelse (c : Ex) (body els : Stms) (hb : ∀ F', F' ≤ F → BlockConv C F' body)
    (hel : ∀ F', F' ≤ F → BlockConv C F' els) : StmtConv C (F + 1) (.ifelse c body els) := by
  cases F with
  | zero =>
    intro ctx gs σ g l m lc B k inFn inl f hf he hh hw
    simp only [toAstS3, ex_ifelse']
    exact .inl (Fz.fuel (EErr.bind_left (evalExpr_zero _ _ _ _)))
  | succ F =>
    intro ctx gs σ g l m lc B k inFn inl f hf he hh hw
    obtain ⟨f', rfl⟩ : ∃ f', f = f' + 1 := ⟨f - 1, by omega⟩
    simp only [wfS3, Bool.and_eq_true] at hw
    obtain ⟨⟨hwc, hwb⟩, hwe⟩ := hw
    simp only [toAstS3, ex_ifelse, F3.execS]
    rcases ihE (F + 1) (Nat.le_refl _) c { ctx with env := { vars := [] } :: ctx.env } gs σ g l m lc B _ f'
      (by omega) he.push hh hwc with hfu | ha
    · exact .inl hfu.bind_left
    · cases hea : F3.evalE C.E C.P f' c g l with
      | val x g1 =>
        rw [hea] at ha
        obtain ⟨wx, σ1, hok1, hvx, hh1, hf1⟩ := ha
        refine CS.bind_ok hok1 hf1 (CS.bind_ok (vr_falsy hy hvx gs σ1) (FrB.refl B σ1) ?_)
        dsimp only
        cases hfa : C.E.S.falsy x with
        | true =>
          simp only [Bool.not_true, Bool.false_eq_true, if_false, if_true]
          have hx := CS.wrap (hel F (by omega)
            { env := { vars := [] } :: ctx.env, callDepth := ctx.callDepth, path := 2 :: ctx.path }
            gs σ1 g1 l m lc B _ 0 inFn inl f' (by omega) he.push hh1 hwe)
            (K := fun fl => (pure (fl, ({ vars := [] } : Spec.Frame) :: ctx.env) : EM (Flow × Spec.Env)))
            (mk' := fun fl => (fl, ({ vars := [] } : Spec.Frame) :: ctx.env)) (fun fl σ' => EOk.pure _ gs σ')
          exact CS.wrap hx (fun fl σ' => EOk.pure _ gs σ')
        | false =>
          simp only [Bool.not_false, Bool.false_eq_true, if_false, if_true]
          exact CS.wrap (hb (F + 1) (Nat.le_refl _) { ctx with env := { vars := [] } :: ctx.env } gs σ1 g1 l m lc B _ 1
            inFn inl f' (by omega) he.push hh1 hwb) (fun fl σ' => EOk.pure _ gs σ')
      | err => rw [hea] at ha; obtain ⟨err, hne, herr⟩ := ha; exact .inr ⟨err, hne, EErr.bind_left herr⟩
      | out => rw [hea] at ha; exact False.elim ha
      | bad => exact .inr True.intro

/-! ### loops -/

theorem whileConv_succ (c : Ex) (body : Stms) (hb : BlockConv C F body) (hloop : WhileConv C F c body) :
    WhileConv C (F + 1) c body := by
  intro ctx gs σ g l m lc B k inFn inl f hf he hh hw
  obtain ⟨f', rfl⟩ : ∃ f', f = f' + 1 := ⟨f - 1, by omega⟩
  have hw0 := hw
  simp only [wfS3, Bool.and_eq_true] at hw
  obtain ⟨hwc, hwb⟩ := hw
  simp only [ex_loop_some, F3.execS]
  rcases ihE F (Nat.le_refl F) c ctx gs σ g l m lc B _ f' (by omega) he hh hwc with hfu | ha
  · exact .inl hfu.bind_left
  · cases hea : F3.evalE C.E C.P f' c g l with
    | val x g1 =>
      rw [hea] at ha
      obtain ⟨wx, σ1, hok1, hvx, hh1, hf1⟩ := ha
      refine CS.bind_ok hok1 hf1 (CS.bind_ok (vr_falsy hy hvx gs σ1) (FrB.refl B σ1) ?_)
      dsimp only
      cases hfa : C.E.S.falsy x with
      | true =>
        simp only [Bool.not_true, Bool.not_false, Bool.false_eq_true, if_false, if_true]
        exact .inr ⟨σ1, EOk.pure _ gs σ1, hh1, FrB.refl B σ1⟩
      | false =>
        simp only [Bool.not_false, Bool.not_true, Bool.false_eq_true, if_false, if_true]
        rcases hb ctx gs σ1 g1 l m lc B _ 1 inFn true f' (by omega) he hh1 hwb with hfu | hbody
        · exact .inl hfu.bind_left
        · cases hex : F3.execSs C.E C.P f' body g1 l with
          | done g2 l2 =>
            rw [hex] at hbody
            obtain ⟨σ2, hok2, hh2, hf2⟩ := hbody
            exact CS.bind_ok hok2 hf2 (hloop ctx gs σ2 g2 l2 m lc B k inFn inl f' (by omega) he hh2 hw0)
          | cont g2 l2 =>
            rw [hex] at hbody
            obtain ⟨σ2, hok2, hh2, hf2⟩ := hbody
            exact CS.bind_ok hok2 hf2 (hloop ctx gs σ2 g2 l2 m lc B k inFn inl f' (by omega) he hh2 hw0)
          | brk g2 l2 =>
            rw [hex] at hbody
            obtain ⟨σ2, hok2, hh2, hf2⟩ := hbody
            exact .inr ⟨σ2, EOk.bind hok2 (EOk.pure _ gs σ2), hh2, hf2⟩
          | ret v g2 =>
            rw [hex] at hbody
            obtain ⟨w, σ2, hok2, hv2, hg2, hf2⟩ := hbody
            exact .inr ⟨w, σ2, EOk.bind hok2 (EOk.pure _ gs σ2), hv2, hg2, hf2⟩
          | err =>
            rw [hex] at hbody; obtain ⟨err, hne, herr⟩ := hbody; exact .inr ⟨err, hne, EErr.bind_left herr⟩
          | out => rw [hex] at hbody; exact False.elim hbody
          | bad => exact .inr True.intro
    | err => rw [hea] at ha; obtain ⟨err, hne, herr⟩ := ha; exact .inr ⟨err, hne, EErr.bind_left herr⟩
    | out => rw [hea] at ha; exact False.elim ha
    | bad => exact .inr True.intro

omit hy ihE in
theorem foreverConv_succ (body : Stms) (hb : BlockConv C F body) (hloop : ForeverConv C F body) :
    ForeverConv C (F + 1) body := by
  intro ctx gs σ g1 l m lc B k inFn inl f hf he hh1 hw
  obtain ⟨f', rfl⟩ : ∃ f', f = f' + 1 := ⟨f - 1, by omega⟩
  have hw0 := hw
  simp only [wfS3] at hw
  simp only [ex_loop_none, F3.execS]
  rcases hb ctx gs σ g1 l m lc B _ 1 inFn true f' (by omega) he hh1 hw with hfu | hbody
  · exact .inl hfu.bind_left
  · cases hex : F3.execSs C.E C.P f' body g1 l with
    | done g2 l2 =>
      rw [hex] at hbody
      obtain ⟨σ2, hok2, hh2, hf2⟩ := hbody
      exact CS.bind_ok hok2 hf2 (hloop ctx gs σ2 g2 l2 m lc B k inFn inl f' (by omega) he hh2 hw0)
    | cont g2 l2 =>
      rw [hex] at hbody
      obtain ⟨σ2, hok2, hh2, hf2⟩ := hbody
      exact CS.bind_ok hok2 hf2 (hloop ctx gs σ2 g2 l2 m lc B k inFn inl f' (by omega) he hh2 hw0)
    | brk g2 l2 =>
      rw [hex] at hbody
      obtain ⟨σ2, hok2, hh2, hf2⟩ := hbody
      exact .inr ⟨σ2, EOk.bind hok2 (EOk.pure _ gs σ2), hh2, hf2⟩
    | ret v g2 =>
      rw [hex] at hbody
      obtain ⟨w, σ2, hok2, hv2, hg2, hf2⟩ := hbody
      exact .inr ⟨w, σ2, EOk.bind hok2 (EOk.pure _ gs σ2), hv2, hg2, hf2⟩
    | err => rw [hex] at hbody; obtain ⟨err, hne, herr⟩ := hbody; exact .inr ⟨err, hne, EErr.bind_left herr⟩
    | out => rw [hex] at hbody; exact False.elim hbody
    | bad => exact .inr True.intro

theorem for3Conv_succ (c : Ex) (body : Stms) (post : Stm) (hb : BlockConv C F body) (hp : StmtConv C F post)
    (hloop : For3Conv C F c body post) : For3Conv C (F + 1) c body post := by
  intro ctx gs σ g l m lc B k inFn inl f hf he hh hw
  obtain ⟨f', rfl⟩ : ∃ f', f = f' + 1 := ⟨f - 1, by omega⟩
  have hw0 := hw
  simp only [wfS3, Bool.and_eq_true] at hw
  obtain ⟨⟨⟨hwc, hwb⟩, hsimple⟩, hwp⟩ := hw
  -- after the body (normal end or `continue`): the post statement, then the loop again
  have hrest : ∀ (σ2 : St) (g2 : Nat → V) (l2 : Locals V), HInv C B σ2 g2 m lc l2 →
      Fz (do
          let _ ← execStmt F { ctx with path := 3 :: ctx.path } (toAstS3 C.names C.lnames C.ctab post)
          loopFor F ctx (some (toAstE3 C.names C.lnames C.ctab c)) (some (toAstS3 C.names C.lnames C.ctab post))
            (toAstSs3 C.names C.lnames C.ctab body)) gs σ2 ∨
      CS C (do
          let _ ← execStmt F { ctx with path := 3 :: ctx.path } (toAstS3 C.names C.lnames C.ctab post)
          loopFor F ctx (some (toAstE3 C.names C.lnames C.ctab c)) (some (toAstS3 C.names C.lnames C.ctab post))
            (toAstSs3 C.names C.lnames C.ctab body))
        (fun fl => fl) gs σ2 B m lc
        (match F3.execS C.E C.P f' post g2 l2 with
          | .done g3 l3 => F3.execS C.E C.P f' (.for3 c body post) g3 l3
          | r => r) := by
    intro σ2 g2 l2 hh2
    have hsr := simple_res C.E C.P f' post g2 l2 hsimple
    rcases hp { ctx with path := 3 :: ctx.path } gs σ2 g2 l2 m lc B _ inFn inl f' (by omega) he hh2 hwp with
      hfu | hpost
    · exact .inl hfu.bind_left
    · cases hex : F3.execS C.E C.P f' post g2 l2 with
      | done g3 l3 =>
        rw [hex] at hpost
        obtain ⟨σ3, hok3, hh3, hf3⟩ := hpost
        exact CS.bind_ok hok3 hf3 (hloop ctx gs σ3 g3 l3 m lc B k inFn inl f' (by omega) he hh3 hw0)
      | brk g3 l3 => rw [hex] at hsr; exact hsr.elim
      | cont g3 l3 => rw [hex] at hsr; exact hsr.elim
      | ret v g3 => rw [hex] at hsr; exact hsr.elim
      | err => rw [hex] at hpost; obtain ⟨err, hne, herr⟩ := hpost; exact .inr ⟨err, hne, EErr.bind_left herr⟩
      | out => rw [hex] at hpost; exact False.elim hpost
      | bad => exact .inr True.intro
  simp only [ex_loop_post, F3.execS]
  rcases ihE F (Nat.le_refl F) c ctx gs σ g l m lc B _ f' (by omega) he hh hwc with hfu | ha
  · exact .inl hfu.bind_left
  · cases hea : F3.evalE C.E C.P f' c g l with
    | val x g1 =>
      rw [hea] at ha
      obtain ⟨wx, σ1, hok1, hvx, hh1, hf1⟩ := ha
      refine CS.bind_ok hok1 hf1 (CS.bind_ok (vr_falsy hy hvx gs σ1) (FrB.refl B σ1) ?_)
      dsimp only
      cases hfa : C.E.S.falsy x with
      | true =>
        simp only [Bool.not_true, Bool.not_false, Bool.false_eq_true, if_false, if_true]
        exact .inr ⟨σ1, EOk.pure _ gs σ1, hh1, FrB.refl B σ1⟩
      | false =>
        simp only [Bool.not_false, Bool.not_true, Bool.false_eq_true, if_false, if_true]
        rcases hb ctx gs σ1 g1 l m lc B _ 1 inFn true f' (by omega) he hh1 hwb with hfu | hbody
        · exact .inl hfu.bind_left
        · cases hex : F3.execSs C.E C.P f' body g1 l with
          | done g2 l2 =>
            rw [hex] at hbody
            obtain ⟨σ2, hok2, hh2, hf2⟩ := hbody
            exact CS.bind_ok hok2 hf2 (hrest σ2 g2 l2 hh2)
          | cont g2 l2 =>
            rw [hex] at hbody
            obtain ⟨σ2, hok2, hh2, hf2⟩ := hbody
            exact CS.bind_ok hok2 hf2 (hrest σ2 g2 l2 hh2)
          | brk g2 l2 =>
            rw [hex] at hbody
            obtain ⟨σ2, hok2, hh2, hf2⟩ := hbody
            exact .inr ⟨σ2, EOk.bind hok2 (EOk.pure _ gs σ2), hh2, hf2⟩
          | ret v g2 =>
            rw [hex] at hbody
            obtain ⟨w, σ2, hok2, hv2, hg2, hf2⟩ := hbody
            exact .inr ⟨w, σ2, EOk.bind hok2 (EOk.pure _ gs σ2), hv2, hg2, hf2⟩
          | err =>
            rw [hex] at hbody; obtain ⟨err, hne, herr⟩ := hbody; exact .inr ⟨err, hne, EErr.bind_left herr⟩
          | out => rw [hex] at hbody; exact False.elim hbody
          | bad => exact .inr True.intro
    | err => rw [hea] at ha; obtain ⟨err, hne, herr⟩ := ha; exact .inr ⟨err, hne, EErr.bind_left herr⟩
    | out => rw [hea] at ha; exact False.elim ha
    | bad => exact .inr True.intro

omit hy ihE in
theorem stmtConv_whil (c : Ex) (body : Stms) (hloop : WhileConv C F c body) : StmtConv C (F + 1) (.whil c body) := by
  intro ctx gs σ g l m lc B k inFn inl f hf he hh hw
  simp only [toAstS3, ex_while]
  exact CS.wrap (hloop { ctx with env := { vars := [] } :: ctx.env } gs σ g l m lc B k inFn inl f (by omega) he.push hh
    hw) (fun fl σ' => EOk.pure _ gs σ')

omit hy ihE in
theorem stmtConv_forever (body : Stms) (hloop : ForeverConv C F body) : StmtConv C (F + 1) (.forever body) := by
  intro ctx gs σ g l m lc B k inFn inl f hf he hh hw
  simp only [toAstS3, ex_forever]
  exact CS.wrap (hloop { ctx with env := { vars := [] } :: ctx.env } gs σ g l m lc B k inFn inl f (by omega) he.push hh
    hw) (fun fl σ' => EOk.pure _ gs σ')

omit hy ihE in
theorem stmtConv_for3 (c : Ex) (body : Stms) (post : Stm) (hloop : For3Conv C F c body post) :
    StmtConv C (F + 1) (.for3 c body post) := by
  intro ctx gs σ g l m lc B k inFn inl f hf he hh hw
  simp only [toAstS3, ex_for3]
  exact CS.wrap (hloop { ctx with env := { vars := [] } :: ctx.env } gs σ g l m lc B k inFn inl f (by omega) he.push hh
    hw) (fun fl σ' => EOk.pure _ gs σ')

/-! ### statement lists -/

omit hy ihE in
theorem stmtsConv_nil : StmtsConv C (F + 1) .nil := by
  intro ctx gs σ g l m lc B k i inFn inl f hf he hh hw
  obtain ⟨f', rfl⟩ : ∃ f', f = f' + 1 := ⟨f - 1, by omega⟩
  simp only [toAstSs3, execStmts.eq_2, F3.execSs]
  exact .inr ⟨σ, EOk.pure _ gs σ, hh, FrB.refl B σ⟩

omit hy ihE in
theorem stmtsConv_cons (st : Stm) (ss : Stms) (h1 : StmtConv C F st) (h2 : StmtsConv C F ss) :
    StmtsConv C (F + 1) (.cons st ss) := by
  intro ctx gs σ g l m lc B k i inFn inl f hf he hh hw
  obtain ⟨f', rfl⟩ : ∃ f', f = f' + 1 := ⟨f - 1, by omega⟩
  simp only [wfSs3, Bool.and_eq_true] at hw
  obtain ⟨hw1, hw2⟩ := hw
  simp only [toAstSs3, execStmts.eq_3, F3.execSs]
  rcases h1 { env := ctx.env, callDepth := ctx.callDepth, path := i :: ctx.path } gs σ g l m lc B k inFn inl f'
    (by omega) he hh hw1 with hfu | ha
  · exact .inl hfu.bind_left
  · cases hs : F3.execS C.E C.P f' st g l with
    | done g1 l1 =>
      rw [hs] at ha
      obtain ⟨σ1, hok1, hh1, hf1⟩ := ha
      exact CS.bind_ok hok1 hf1 (h2 { env := ctx.env, callDepth := ctx.callDepth, path := ctx.path } gs σ1 g1 l1 m lc B
        _ (i + 1) inFn inl f' (by omega) he hh1 hw2)
    | brk g1 l1 =>
      rw [hs] at ha
      obtain ⟨σ1, hok1, hh1, hf1⟩ := ha
      exact .inr ⟨σ1, EOk.bind hok1 (EOk.pure _ gs σ1), hh1, hf1⟩
    | cont g1 l1 =>
      rw [hs] at ha
      obtain ⟨σ1, hok1, hh1, hf1⟩ := ha
      exact .inr ⟨σ1, EOk.bind hok1 (EOk.pure _ gs σ1), hh1, hf1⟩
    | ret v g1 =>
      rw [hs] at ha
      obtain ⟨w, σ1, hok1, hv1, hg1, hf1⟩ := ha
      exact .inr ⟨w, σ1, EOk.bind hok1 (EOk.pure _ gs σ1), hv1, hg1, hf1⟩
    | err => rw [hs] at ha; obtain ⟨err, hne, herr⟩ := ha; exact .inr ⟨err, hne, EErr.bind_left herr⟩
    | out => rw [hs] at ha; exact False.elim ha
    | bad => exact .inr True.intro

end

end Tengo.Proofs.C01BridgeF3Conv

import Tengo.Model.Compiler
import Tengo.Proofs.C03Reloc
/-!
C02 / `compile_verifies`, layer 1 (layout): what the emission primitives of the compiler model
(`Tengo.Model.Compiler`: `emit`, `changeOperand`, `patchAll`) do to the instruction stream of the
function being compiled.

`Emitted s L`: the bytes of the current function are `encode L` for a list `L` of instructions laid
out back to back from offset 0, each with a known opcode and one operand per declared width. The
operands of `L` are the IDEAL values the compiler passed to `MakeInstruction` (not yet truncated to
their widths); `emitted_decode` turns this into `decode bytes = some L` once every operand fits.

* `emit_emitted`: `emit op args` appends exactly the instruction `⟨size, op, args⟩`;
* `changeOperand_emitted`: `changeOperand p t` rewrites only the operand of the jump at `p`
  (`L.map (patchI p t)`), sizes and positions unchanged;
* the monad plumbing (`bind_ok`, …) used by the later layers.
-/
set_option linter.unusedVariables false
set_option linter.unusedSimpArgs false
namespace Tengo.Proofs.C02Compile
open Tengo.Model Tengo.Model.Opcodes Tengo.Model.Compiler Tengo.Model.Optimizer Tengo.Proofs.C03 Tengo.Proofs.C03Reloc

/-! ### the monad -/

theorem bind_ok {α β : Type} {m : CM α} {f : α → CM β} {s : CState} {r : β × CState}
    (h : (m >>= f) s = .ok r) : ∃ a s1, m s = .ok (a, s1) ∧ f a s1 = .ok r := by
  simp only [bind, StateT.bind, Except.bind] at h
  split at h
  · cases h
  · rename_i p hm; exact ⟨p.1, p.2, hm, h⟩

theorem pure_ok {α : Type} {a : α} {s : CState} {r : α × CState}
    (h : (pure a : CM α) s = .ok r) : r = (a, s) := by
  change Except.ok (a, s) = .ok r at h
  injection h with h; exact h.symm

theorem throw_ok {α : Type} {e : CompileErr} {s : CState} {r : α × CState}
    (h : (throw e : CM α) s = .ok r) : False := by
  change Except.error e = .ok r at h
  cases h

theorem cerr_ok {α : Type} {msg : String} {s : CState} {r : α × CState}
    (h : (cerr msg : CM α) s = .ok r) : False := throw_ok h

theorem unsupported_ok {α : Type} {msg : String} {s : CState} {r : α × CState}
    (h : (unsupported msg : CM α) s = .ok r) : False := throw_ok h

theorem get_ok {s : CState} {r : CState × CState}
    (h : (get : CM CState) s = .ok r) : r = (s, s) := by
  change Except.ok (s, s) = .ok r at h
  injection h with h; exact h.symm

theorem modify_ok {f : CState → CState} {s : CState} {r : Unit × CState}
    (h : (modify f : CM Unit) s = .ok r) : r = ((), f s) := by
  change Except.ok ((), f s) = .ok r at h
  injection h with h; exact h.symm

theorem modifyGet_ok {α : Type} {f : CState → α × CState} {s : CState} {r : α × CState}
    (h : (modifyGet f : CM α) s = .ok r) : r = ((f s).1, (f s).2) := by
  change Except.ok ((f s).1, (f s).2) = .ok r at h
  injection h with h; exact h.symm

theorem discard_eq {α : Type} (m : CM α) : discard m = (m >>= fun _ => pure ()) := rfl

theorem discard_ok {α : Type} {m : CM α} {s : CState} {r : Unit × CState}
    (h : (discard m) s = .ok r) : ∃ a, m s = .ok (a, r.2) := by
  rw [discard_eq] at h
  obtain ⟨a, s1, h1, h2⟩ := bind_ok h
  have := pure_ok h2
  subst this
  exact ⟨a, h1⟩

/-! ### sizes -/

theorem encodeOperands_length : ∀ (ws as : List Nat), (encodeOperands ws as).length = ws.sum
  | [], _ => by simp [encodeOperands]
  | w :: ws, [] => by
    simp [encodeOperands, beBytes_length, encodeOperands_length ws []]
  | w :: ws, a :: as => by
    simp [encodeOperands, beBytes_length, encodeOperands_length ws as]

/-- A known opcode with one operand per width (values not yet truncated). -/
def Shape (i : Instr) : Prop := ∃ ws, widths i.op = some ws ∧ i.args.length = ws.length

theorem encodeInstr_length {i : Instr} (h : Shape i) : (encodeInstr i.op i.args).length = i.size := by
  obtain ⟨ws, hws, _⟩ := h
  simp [encodeInstr, Instr.size, hws, encodeOperands_length, Nat.add_comm]

theorem encode_length : ∀ {L : List Instr}, (∀ i ∈ L, Shape i) → (encode L).length = totalSize L
  | [], _ => by simp [encode]
  | i :: L, h => by
    rw [encode_cons, List.length_append, totalSize_cons,
      encodeInstr_length (h i List.mem_cons_self),
      encode_length (fun j hj => h j (List.mem_cons_of_mem _ hj))]

theorem encode_append (L₁ L₂ : List Instr) : encode (L₁ ++ L₂) = encode L₁ ++ encode L₂ := by
  simp [encode]

theorem layout_append {s : Nat} : ∀ {L₁ L₂ : List Instr}, Layout s L₁ → Layout (s + totalSize L₁) L₂ →
    Layout s (L₁ ++ L₂)
  | [], L₂, _, h2 => by simpa using h2
  | a :: L₁, L₂, h1, h2 => by
    obtain ⟨hp, hl⟩ := h1
    refine ⟨hp, layout_append hl ?_⟩
    rw [totalSize_cons] at h2
    rw [Nat.add_assoc]; exact h2

theorem layout_split {s : Nat} : ∀ {L₁ L₂ : List Instr}, Layout s (L₁ ++ L₂) →
    Layout s L₁ ∧ Layout (s + totalSize L₁) L₂
  | [], L₂, h => ⟨trivial, by simpa using h⟩
  | a :: L₁, L₂, h => by
    obtain ⟨hp, hl⟩ := h
    obtain ⟨h1, h2⟩ := layout_split hl
    refine ⟨⟨hp, h1⟩, ?_⟩
    rw [totalSize_cons, ← Nat.add_assoc]; exact h2

/-! ### `Emitted` -/

structure Emitted (s : CState) (L : List Instr) : Prop where
  bytes : s.insts.toList = encode L
  lay : Layout 0 L
  shape : ∀ i ∈ L, Shape i

theorem Emitted.size {s : CState} {L : List Instr} (h : Emitted s L) : s.insts.size = totalSize L := by
  rw [← encode_length h.shape, ← h.bytes, Array.length_toList]

/-- The state after `emit op args`. -/
def emitS (op : Nat) (args : List Nat) (s : CState) : CState :=
  { s with insts := s.insts ++ (encodeInstr op args).toArray }

theorem emit_run (op : Nat) (args : List Nat) (s : CState) :
    emit op args s = .ok (s.insts.size, emitS op args s) := rfl

theorem emit_ok {op : Nat} {args : List Nat} {s : CState} {r : Nat × CState}
    (h : emit op args s = .ok r) : r = (s.insts.size, emitS op args s) := by
  rw [emit_run] at h; injection h with h; exact h.symm

/-- **emit appends exactly one instruction.** -/
theorem emit_emitted {s : CState} {L : List Instr} (h : Emitted s L) {op : Nat} {args : List Nat}
    (hs : Shape ⟨totalSize L, op, args⟩) :
    Emitted (emitS op args s) (L ++ [⟨totalSize L, op, args⟩]) := by
  refine ⟨?_, ?_, ?_⟩
  · simp only [emitS, Array.toList_append, h.bytes, encode_append]
    simp [encode]
  · exact layout_append_single h.lay (by simp)
  · intro i hi
    rcases List.mem_append.mp hi with hi | hi
    · exact h.shape i hi
    · simp only [List.mem_singleton] at hi; subst hi; exact hs

/-! ### `changeOperand` -/

/-- `changeOperand p t` on the ideal instruction list. -/
def patchI (p t : Nat) (i : Instr) : Instr := if i.pos = p then { i with args := [t] } else i

@[simp] theorem patchI_pos (p t : Nat) (i : Instr) : (patchI p t i).pos = i.pos := by
  unfold patchI; split <;> rfl
@[simp] theorem patchI_op (p t : Nat) (i : Instr) : (patchI p t i).op = i.op := by
  unfold patchI; split <;> rfl
@[simp] theorem patchI_size (p t : Nat) (i : Instr) : (patchI p t i).size = i.size := by
  simp [Instr.size]

theorem patchI_ne {p t : Nat} {i : Instr} (h : i.pos ≠ p) : patchI p t i = i := by
  simp [patchI, h]

theorem totalSize_map_patch (p t : Nat) (L : List Instr) : totalSize (L.map (patchI p t)) = totalSize L := by
  induction L with
  | nil => rfl
  | cons a L ih => simp [ih]

theorem layout_map_patch (p t : Nat) : ∀ {s : Nat} {L : List Instr}, Layout s L → Layout s (L.map (patchI p t))
  | _, [], _ => trivial
  | s, a :: L, h => by
    obtain ⟨hp, hl⟩ := h
    refine ⟨by simpa using hp, ?_⟩
    simpa using layout_map_patch p t hl

theorem map_patch_of_ne (p t : Nat) {L : List Instr} (h : ∀ i ∈ L, i.pos ≠ p) : L.map (patchI p t) = L := by
  induction L with
  | nil => rfl
  | cons a L ih =>
    simp only [List.map_cons]
    rw [patchI_ne (h a List.mem_cons_self), ih (fun i hi => h i (List.mem_cons_of_mem _ hi))]

/-- Splitting a laid-out list at the instruction sitting at `p`. -/
theorem layout_split_at {s : Nat} {L : List Instr} (hl : Layout s L) {i : Instr} (hi : i ∈ L) :
    ∃ L₁ L₂, L = L₁ ++ i :: L₂ ∧ i.pos = s + totalSize L₁ ∧ (∀ j ∈ L₁, j.pos < i.pos) ∧
      (∀ j ∈ L₂, i.pos < j.pos) := by
  obtain ⟨L₁, L₂, rfl⟩ := List.append_of_mem hi
  obtain ⟨h1, h2⟩ := layout_split hl
  obtain ⟨hp, h3⟩ := h2
  refine ⟨L₁, L₂, rfl, hp, ?_, ?_⟩
  · intro j hj
    have := layout_end h1 j hj
    have := size_pos j
    omega
  · intro j hj
    have := layout_ge h3 j hj
    have := size_pos i
    omega

theorem overwrite_toList : ∀ (bs old : List UInt8) (a : Array UInt8) (p : Nat) (l1 l2 : List UInt8),
    a.toList = l1 ++ old ++ l2 → old.length = bs.length → l1.length = p →
    (overwrite a p bs).toList = l1 ++ bs ++ l2
  | [], [], a, p, l1, l2, h, _, _ => by simpa [overwrite] using h
  | [], _ :: _, _, _, _, _, _, h, _ => by simp at h
  | _ :: _, [], _, _, _, _, _, h, _ => by simp at h
  | b :: bs, o :: old, a, p, l1, l2, h, hl, hp => by
    rw [overwrite]
    have := overwrite_toList bs old (a.setIfInBounds p b) (p + 1) (l1 ++ [b]) l2 (by
      simp only [Array.toList_setIfInBounds, h]
      subst hp
      simp) (by simpa using hl) (by simp [hp])
    rw [this]; simp

/-- The state after `changeOperand p t`. -/
def chgS (p t : Nat) (s : CState) : CState :=
  match s.insts[p]? with
  | some op => { s with insts := overwrite s.insts p (encodeInstr op.toNat [t]) }
  | none => s

theorem changeOperand_run (p t : Nat) (s : CState) : changeOperand p t s = .ok ((), chgS p t s) := rfl

theorem changeOperand_ok {p t : Nat} {s : CState} {r : Unit × CState}
    (h : changeOperand p t s = .ok r) : r = ((), chgS p t s) := by
  rw [changeOperand_run] at h; injection h with h; exact h.symm

theorem op_roundtrip {op : Nat} {ws : List Nat} (h : widths op = some ws) : (UInt8.ofNat op).toNat = op := by
  have := Tengo.Model.VM.widths_some_lt _ _ h
  simp only [UInt8.toNat_ofNat']
  omega

/-- **changeOperand rewrites only the operand of the jump at `p`.** -/
theorem changeOperand_emitted {s : CState} {L : List Instr} (h : Emitted s L) {i : Instr} {p t : Nat}
    (hi : i ∈ L) (hp : i.pos = p) (hw : widths i.op = some [4]) :
    Emitted (chgS p t s) (L.map (patchI p t)) := by
  obtain ⟨L₁, L₂, rfl, hpos, hlt, hgt⟩ := layout_split_at h.lay hi
  have hsh1 : ∀ j ∈ L₁, Shape j := fun j hj => h.shape j (List.mem_append_left _ hj)
  have hlen1 : (encode L₁).length = p := by rw [encode_length hsh1, ← hp, hpos]; simp
  have hbytes : s.insts.toList = encode L₁ ++ encodeInstr i.op i.args ++ encode L₂ := by
    rw [h.bytes, encode_append, encode_cons, List.append_assoc]
  have hget : s.insts[p]? = some (UInt8.ofNat i.op) := by
    rw [← Array.getElem?_toList, hbytes, List.append_assoc, List.getElem?_append_right (by omega), hlen1]
    simp [encodeInstr]
  have hmap : (L₁ ++ i :: L₂).map (patchI p t) = L₁ ++ { i with args := [t] } :: L₂ := by
    rw [List.map_append, List.map_cons, map_patch_of_ne p t (fun j hj => by have := hlt j hj; omega),
      map_patch_of_ne p t (fun j hj => by have := hgt j hj; omega)]
    simp [patchI, hp]
  have hshi : Shape i := h.shape i hi
  refine ⟨?_, ?_, ?_⟩
  · unfold chgS
    rw [hget]
    simp only
    rw [op_roundtrip hw, hmap, encode_append, encode_cons]
    rw [overwrite_toList (encodeInstr i.op [t]) (encodeInstr i.op i.args) s.insts p (encode L₁) (encode L₂)
      hbytes ?_ hlen1]
    · simp
    · rw [encodeInstr_length hshi, encodeInstr_length (i := { i with args := [t] }) ⟨[4], hw, rfl⟩]
      simp [Instr.size]
  · exact layout_map_patch p t h.lay
  · intro j hj
    obtain ⟨j0, hj0, rfl⟩ := List.mem_map.mp hj
    unfold patchI
    split
    · rename_i hjp
      have : j0 = i := by
        rcases List.mem_append.mp hj0 with hm | hm
        · have := hlt j0 hm; omega
        · rcases List.mem_cons.mp hm with rfl | hm
          · rfl
          · have := hgt j0 hm; omega
      subst this
      exact ⟨[4], hw, rfl⟩
    · exact h.shape j0 hj0

/-- Once every operand fits its width, the bytes decode to the ideal list. -/
theorem emitted_decode {s : CState} {L : List Instr} (h : Emitted s L)
    (hfit : ∀ i ∈ L, ∀ ws, widths i.op = some ws → ArgsFit ws i.args) :
    decode s.insts.toList = some L := by
  rw [h.bytes]
  refine decode_encode L h.lay ?_
  intro i hi
  obtain ⟨ws, hws, _⟩ := h.shape i hi
  exact ⟨ws, hws, hfit i hi ws hws⟩

end Tengo.Proofs.C02Compile

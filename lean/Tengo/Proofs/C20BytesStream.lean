import Tengo.Proofs.C20BytesScan
/-!
C20, byte level, part 2: the scanner on a printed token stream.

A printed stream is a list of elements: a token (`Item`: an operator / delimiter of the expression fragment, or
an ASCII word = identifier or keyword) or one blank. `StreamOk` says that every token is followed by a rune that
neither fuses with it (operators, `fuses`) nor continues it (words, `identStop`): a blank, or the first byte of
the next token, or the rune after the stream. `scan_stream`: the scanner on the rendered bytes returns exactly
these tokens (kinds, literals, byte offsets), no error, and continues behind the stream with the `insertSemi`
flag of the last token. `scan_print_tokens`: the same for a whole source, with the tokens added at end of input.
-/
namespace Tengo.Proofs.C20BytesStream
open Tengo.Model.Token Tengo.Model.Scanner Tengo.Proofs.C04Scan Tengo.Proofs.C20BytesScan

inductive Item where
  | op (t : Tok)
  | word (name : Bs)
  deriving Repr

namespace Item
def text : Item → Bs
  | op t => t.bytes
  | word n => n
def tok : Item → Tok
  | op t => t
  | word n => Tok.lookup n
def lit : Item → Bs
  | op _ => []
  | word n => n
def ok : Item → Bool
  | op t => fragOp t
  | word n => wordOk n
/-- `insertSemi` after the token. -/
def insAfter : Item → Bool
  | op t => t == .RParen
  | word n => identSemi (Tok.lookup n)
/-- The rune after the token does not change it. -/
def sepOk : Item → Nat → Bool
  | op t, r => !fuses t r
  | word _, r => identStop r
end Item

inductive El where
  | it (i : Item)
  | sp
  deriving Repr

/-- The bytes of a stream. -/
def render : List El → Bs
  | [] => []
  | .sp :: r => 32 :: render r
  | .it i :: r => i.text ++ render r

/-- First rune of the rendered stream (`e` = the rune behind it). -/
def firstR : List El → Nat → Nat
  | [], e => e
  | .sp :: _, _ => 32
  | .it i :: r, e =>
    match i.text with
    | b :: _ => b.toNat
    | [] => firstR r e

def StreamOk : List El → Nat → Prop
  | [], _ => True
  | .sp :: r, e => StreamOk r e
  | .it i :: r, e => i.ok = true ∧ i.sepOk (firstR r e) = true ∧ StreamOk r e

/-- The tokens with the byte offsets the scanner reports, the stream starting at `off`. -/
def place : Nat → List El → List Token
  | _, [] => []
  | off, .sp :: r => place (off + 1) r
  | off, .it i :: r => ⟨i.tok, i.lit, off⟩ :: place (off + i.text.length) r

def lastIns : Bool → List El → Bool
  | ins, [] => ins
  | ins, .sp :: r => lastIns ins r
  | _, .it i :: r => lastIns i.insAfter r

theorem cur_render (r : List El) (cs : List Ch) : cur (chs (render r) ++ cs) = firstR r (cur cs) := by
  induction r with
  | nil => rfl
  | cons x r ih =>
    cases x with
    | sp => rfl
    | it i =>
      simp only [render, firstR]
      cases h : i.text with
      | nil => simpa using ih
      | cons b bs => rfl

theorem firstR_append (a b : List El) (e : Nat) : firstR (a ++ b) e = firstR a (firstR b e) := by
  induction a with
  | nil => rfl
  | cons x a ih =>
    cases x with
    | sp => rfl
    | it i =>
      simp only [List.cons_append, firstR]
      cases i.text with
      | nil => exact ih
      | cons b bs => rfl

theorem streamOk_append (a b : List El) (e : Nat) :
    StreamOk (a ++ b) e ↔ StreamOk a (firstR b e) ∧ StreamOk b e := by
  induction a with
  | nil => simp [StreamOk]
  | cons x a ih =>
    cases x with
    | sp => simpa [StreamOk] using ih
    | it i => simp only [List.cons_append, StreamOk, firstR_append, ih, and_assoc]

theorem render_append (a b : List El) : render (a ++ b) = render a ++ render b := by
  induction a with
  | nil => rfl
  | cons x a ih => cases x <;> simp [render, ih]

theorem place_append (a b : List El) (off : Nat) :
    place off (a ++ b) = place off a ++ place (off + (render a).length) b := by
  induction a generalizing off with
  | nil => rfl
  | cons x a ih =>
    cases x with
    | sp => simp only [List.cons_append, place, render, List.length_cons, ih]; congr 2; omega
    | it i =>
      simp only [List.cons_append, place, render, List.length_append, ih]
      congr 3; omega

theorem lastIns_append (a b : List El) (ins : Bool) : lastIns ins (a ++ b) = lastIns (lastIns ins a) b := by
  induction a generalizing ins with
  | nil => rfl
  | cons x a ih => cases x <;> simp [lastIns, ih]

/-- **Scanner on a printed token stream.** -/
theorem scan_stream (cls : Nat → Nat) (els : List El) :
    ∀ (off : Nat) (ins : Bool) (cs : List Ch), Clean cs → StreamOk els (cur cs) →
      scanLoop cls (chs (render els) ++ cs) off ins =
        { toks := place off els ++ (scanLoop cls cs (off + (render els).length) (lastIns ins els)).toks,
          errs := (scanLoop cls cs (off + (render els).length) (lastIns ins els)).errs } := by
  induction els with
  | nil => intro off ins cs _ _; simp [render, place, lastIns]
  | cons x r ih =>
    intro off ins cs hcl hok
    have hcl' : Clean (chs (render r) ++ cs) := clean_append (clean_chs _) hcl
    cases x with
    | sp =>
      simp only [render, chs_cons, List.cons_append, place, lastIns, List.length_cons]
      rw [scanLoop_space cls _ off ins hcl', ih (off + 1) ins cs hcl hok]
      have : off + 1 + (render r).length = off + ((render r).length + 1) := by omega
      rw [this]
    | it i =>
      obtain ⟨hi, hsep, hr⟩ := hok
      rw [← cur_render] at hsep
      simp only [render, chs_append, List.append_assoc, place, lastIns, List.length_append]
      cases i with
      | op t =>
        simp only [Item.sepOk, Bool.not_eq_true'] at hsep
        rw [show (Item.op t).text = t.bytes from rfl, scanLoop_op cls t hi _ off ins hcl' hsep,
          ih _ _ cs hcl hr]
        simp only [Item.tok, Item.lit, Item.insAfter, Nat.add_assoc, List.cons_append]
      | word n =>
        rw [show (Item.word n).text = n from rfl, scanLoop_word cls n hi _ off ins hcl' hsep,
          ih _ _ cs hcl hr]
        simp only [Item.tok, Item.lit, Item.insAfter, Nat.add_assoc, List.cons_append]

/-! ### A whole source -/

theorem scan_ascii (cls : Nat → Nat) (src : Bs) (h : Ascii src) :
    (scan cls src).toks = (scanLoop cls (chs src) 0 false).toks ∧
    (scan cls src).errs = (scanLoop cls (chs src) 0 false).errs := by
  unfold scan
  rw [decodeAt_ascii src 0 h]
  cases src with
  | nil => exact ⟨rfl, rfl⟩
  | cons b bs =>
    have hb := h b List.mem_cons_self
    simp only [isAscii, Bool.and_eq_true, decide_eq_true_eq] at hb
    have hne : (b.toNat == bomR) = false := by simp only [bomR, beq_eq_false_iff_ne]; omega
    simp [hne]

theorem ascii_opBytes (t : Tok) (h : fragOp t = true) : Ascii t.bytes := by
  rw [opBytes_eq t h]
  unfold Ascii
  cases t <;> first | (exact absurd h (by decide)) | decide

theorem ascii_word (n : Bs) (h : wordOk n = true) : Ascii n := by
  have hw : ∀ b : UInt8, isWordByte b = true → isAscii b = true := by
    intro b hb
    simp only [isWordByte, isAsciiLetter, isDec, Bool.or_eq_true, Bool.and_eq_true, decide_eq_true_eq,
      beq_iff_eq] at hb
    simp only [isAscii, Bool.and_eq_true, decide_eq_true_eq]
    omega
  cases n with
  | nil => simp [wordOk] at h
  | cons b bs =>
    simp only [wordOk, Bool.and_eq_true, List.all_eq_true] at h
    intro x hx
    rcases List.mem_cons.mp hx with rfl | hx
    · exact hw _ (by simp [isWordByte, h.1])
    · exact hw _ (h.2 x hx)

theorem ascii_render (els : List El) (e : Nat) (h : StreamOk els e) : Ascii (render els) := by
  induction els with
  | nil => intro b hb; simp [render] at hb
  | cons x r ih =>
    cases x with
    | sp =>
      intro b hb
      simp only [render, List.mem_cons] at hb
      rcases hb with rfl | hb
      · decide
      · exact ih h b hb
    | it i =>
      obtain ⟨hi, _, hr⟩ := h
      intro b hb
      simp only [render, List.mem_append] at hb
      rcases hb with hb | hb
      · cases i with
        | op t => exact ascii_opBytes t hi b hb
        | word n => exact ascii_word n hi b hb
      · exact ih hr b hb

/-- Tokens the scanner adds at the end of input: the automatic ";" (literal "\n") when the last token is in
the insert-semicolon set, then EOF, both at the end offset. -/
def endToks (n : Nat) (ins : Bool) : List Token :=
  if ins then [⟨.Semicolon, [10], n⟩, ⟨.EOF, [], n⟩] else [⟨.EOF, [], n⟩]

/-- **scan_print_tokens.** A source that is a printed token stream (every token followed by a blank or by a
rune that does not fuse with / continue it) scans to exactly those tokens with their byte offsets, followed by
the end-of-input tokens, and the scanner reports no error. -/
theorem scan_print_tokens (cls : Nat → Nat) (els : List El) (h : StreamOk els eofR) :
    (scan cls (render els)).toks = place 0 els ++ endToks (render els).length (lastIns false els) ∧
    (scan cls (render els)).errs = [] := by
  obtain ⟨h1, h2⟩ := scan_ascii cls (render els) (ascii_render els eofR h)
  have hs := scan_stream cls els 0 false [] clean_nil h
  simp only [List.append_nil, Nat.zero_add] at hs
  rw [h1, h2, hs]
  simp only
  rw [scanLoop]
  cases lastIns false els <;> simp [endToks]

end Tengo.Proofs.C20BytesStream

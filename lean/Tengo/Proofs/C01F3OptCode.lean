import Tengo.Proofs.C01F3OptTwin
import Tengo.Props.C01F3Bridge
/-!
C01 on fragment F3, closing the optimizer gap, layer 4: **the unoptimized twin of the compiled program is the code
`vm_computes_fragment3` speaks about.**

* `SrcOk P n`: the side conditions on the source program, all about `P` alone: `wfProg` (the class of programs the
  compiler bridge covers), every function of `P.fns` is stored by a statement of main, at most 65536 constants and
  globals, main and every function body shorter than `2^32` bytes.
* `srcOk_main`, `srcOk_fn`: then every operand fits and is in range; `srcOk_optOK`: the optimizer model does not
  panic (`optOK`, a hypothesis of `compileFile_fragment3_partial`, is derived).
* `EnvOk`: the data side (`E.cs` are the pool's values, function constants are the function values `.cfn (refs k)`).
* `twin_const`, `codeRel_twin`: `CodeRel3 (F3.compProg P) … (twinOf (toCodeR refs (bcOf P ctab n)) (rawsOf P))`.
-/
set_option linter.unusedVariables false
set_option linter.unusedSimpArgs false
namespace Tengo.Proofs.C01F3Opt
open Tengo.Model Tengo.Model.Opcodes
open Tengo.Model.F3 (Ins csize Ex Exs Stm Stms FnDef Prog comp compEs compS compSs)
open Tengo.Model.Spec (Value)
open Tengo.Proofs.C03Reloc (twinBytes retBytes)
open Tengo.Proofs.C03Source (twinOf twinOf_const twinOf_main)
open Tengo.Proofs.C02Compile (toCodeR toCode_const toVMConst)
open Tengo.Proofs.C01BridgeF3Comp
open Tengo.Proofs.C01BridgeF3 (InsFits3 InsRange3 CodeRel3 NotCallable fnOf)

/-- The side conditions on the source program. -/
structure SrcOk (P : Prog) (n : Nat) : Prop where
  /-- the class of programs the compiler bridge covers (`compileFile_fragment3_partial`) -/
  wf : wfProg P n = true
  /-- every function constant is stored by a statement `global = func…` of main -/
  decl : ∀ k fd, P.fns k = some fd → ∃ i, MemS (.assign i (.lit k)) P.main
  /-- constant operands are 2 bytes wide -/
  pool : nlitsMain P P.main ≤ 65536
  /-- global operands are 2 bytes wide -/
  globals : n ≤ 65536
  /-- jump operands are 4 bytes wide -/
  mainSize : F3.sssize P.main < 4294967296
  fnSize : ∀ k fd, P.fns k = some fd → F3.sssize fd.body < 4294967296

section src
variable {P : Prog} {n : Nat}

theorem srcOk_main (h : SrcOk P n) :
    ∀ i ∈ (F3.compProg P).main, InsFits3 i ∧ InsRange3 (nlitsMain P P.main) n i := by
  have hio := main_iok P n P.main 0 (nlitsMain P P.main) 0 0 0 h.wf (by omega)
  refine code_fits h.pool h.globals (by omega) hio (body_jok P.main) ?_
  show csize (compSs 0 0 0 P.main) < 4294967296
  rw [F3.csize_compSs]; exact h.mainSize

theorem srcOk_fn (h : SrcOk P n) {k : Nat} {fd : FnDef} (hf : P.fns k = some fd) :
    k < nlitsMain P P.main ∧
    ∀ i ∈ compSs 0 0 0 fd.body, InsFits3 i ∧ InsRange3 (nlitsMain P P.main) n i := by
  obtain ⟨i, hm⟩ := h.decl k fd hf
  obtain ⟨k', hwf, hk', hk, _⟩ := wfMain_fn P n P.main 0 (nlitsMain P P.main) h.wf (by omega) i k fd hm hf
  refine ⟨hk, ?_⟩
  simp only [wfFn, Bool.and_eq_true, beq_iff_eq, decide_eq_true_eq] at hwf
  obtain ⟨⟨hnl, h256⟩, hbody⟩ := hwf
  have hio := body_iok (isFn := isFnOf P) (n := n) fd.body fd.nparams k' (nlitsMain P P.main) 0 0 0 hbody hk'
  refine code_fits h.pool h.globals (by omega) hio (body_jok fd.body) ?_
  rw [F3.csize_compSs]; exact h.fnSize k fd hf

/-- **`optOK` is a theorem**: the optimizer model does not panic on the functions of a `SrcOk` program. -/
theorem srcOk_optOK (h : SrcOk P n) : optOK P P.main = true :=
  optOK_of P (fun j fd hf => optBody_isSome fd (fun i hi => ((srcOk_fn h hf).2 i hi).1)) P.main

/-- The compiled program has the fragment compiler's bodies as raw bodies. -/
theorem srcOk_unoptTwin (h : SrcOk P n) (ctab : Nat → F0.Const) :
    Tengo.Proofs.C03Source.UnoptTwin (bcOf P ctab n) (mainIsOf (F3.compProg P).main) (rawsOf P) :=
  unoptTwin_bcOf P ctab n (fun i hi => (srcOk_main h i hi).1)
    (fun k fd hf => ⟨fun i hi => ((srcOk_fn h hf).2 i hi).1, by rw [F3.csize_compSs]; exact h.fnSize k fd hf⟩)

end src

/-! ### the constants of the twin -/

theorem toVMConst_constOf (r : Nat) (c : F0.Const) :
    toVMConst r (C01Bridge.constOf c) = .val (F0.constValue c) := by
  cases c <;> rfl

theorem twin_const (P : Prog) (ctab : Nat → F0.Const) (n : Nat) (refs : Nat → Nat) (k : Nat) :
    (twinOf (toCodeR refs (bcOf P ctab n)) (rawsOf P)).consts[k]? =
      if k < nlitsMain P P.main then
        some (match P.fns k with
          | some fd => VM.Const.fn { insts := (twinBytes (rawBody fd)).toArray, numLocals := fd.nlocals,
                                     numParams := fd.nparams, varargs := false } (refs k)
          | none => VM.Const.val (F0.constValue (ctab k)))
      else none := by
  rw [twinOf_const, toCode_const, bcOf_const]
  by_cases hk : k < nlitsMain P P.main
  · simp only [if_pos hk, Option.map_some]
    cases hf : P.fns k with
    | none =>
      rw [poolOf_val P ctab k (by simp [isFnOf, hf]), toVMConst_constOf]
    | some fd =>
      rw [poolOf_fn P ctab k fd hf]
      simp only [fnConst, toVMConst, rawsOf, hf]
  · simp only [if_neg hk, Option.map_none]

theorem retBytes_eq : retBytes = Tengo.Proofs.C01BridgeF3.encodeIns3 [.ret false] := by decide

/-- The twin's body of a function IS the encoding of `F3.compFn`'s code (raw body + `RET 0`). -/
theorem twinBytes_rawBody (fd : FnDef) :
    twinBytes (rawBody fd) = Tengo.Proofs.C01BridgeF3.encodeIns3 (F3.compFn fd).code := by
  unfold twinBytes rawBody F3.compFn
  rw [Tengo.Props.C01F3Bridge.encodeIns3_agree, Tengo.Proofs.C01BridgeF3.encodeIns3_append, retBytes_eq]

/-! ### the data side -/

/-- The data semantics of the fragment against the compiled pool: value constants are the pool's values, a
function constant `k` is the function value `.cfn (refs k)`, `asFn` recognises exactly these, `refs` is injective. -/
structure EnvOk {V : Type} (P : Prog) (ctab : Nat → F0.Const) (E : F3.Env V) (val : V → Value) (refs : Nat → Nat) :
    Prop where
  vals : ∀ k, k < nlitsMain P P.main → P.fns k = none → val (E.cs k) = F0.constValue (ctab k)
  inj : ∀ a b, refs a = refs b → a = b
  csfn : ∀ k fd, P.fns k = some fd → val (E.cs k) = .cfn (refs k)
  asFn_some : ∀ v k, E.asFn v = some k → val v = .cfn (refs k)
  asFn_none : ∀ v, E.asFn v = none → NotCallable (val v)

theorem compProg_fns {P : Prog} {k : Nat} {cf : F3.CFn} (h : (F3.compProg P).fns k = some cf) :
    ∃ fd, P.fns k = some fd ∧ cf = F3.compFn fd := by
  simp only [F3.compProg] at h
  cases hf : P.fns k with
  | none => rw [hf] at h; cases h
  | some fd =>
    rw [hf] at h
    simp only [Option.map_some, Option.some.injEq] at h
    exact ⟨fd, rfl, h.symm⟩

/-- **The unoptimized twin of the compiled program is related to the fragment compiler's program.** -/
theorem codeRel_twin {V : Type} {P : Prog} {n : Nat} (hs : SrcOk P n) (ctab : Nat → F0.Const) {E : F3.Env V}
    {val : V → Value} {refs : Nat → Nat} (hE : EnvOk P ctab E val refs) :
    CodeRel3 (F3.compProg P) (nlitsMain P P.main) n E val refs
      (twinOf (toCodeR refs (bcOf P ctab n)) (rawsOf P)) where
  main := by
    rw [twinOf_main]
    show (bcOf P ctab n).main.toArray = _
    unfold bcOf
    simp only [Tengo.Props.C01F3Bridge.encodeIns3_agree]
  fns := by
    intro k cf hk
    obtain ⟨fd, hf, rfl⟩ := compProg_fns hk
    rw [twin_const, if_pos (srcOk_fn hs hf).1]
    simp only [hf, fnOf, twinBytes_rawBody]
    rfl
  vals := by
    intro k hk hn
    have hf : P.fns k = none := by
      simp only [F3.compProg] at hn
      cases hf : P.fns k with
      | none => rfl
      | some fd => rw [hf] at hn; cases hn
    rw [twin_const, if_pos hk]
    simp only [hf, hE.vals k hk hf]
  inj := hE.inj
  csfn := by
    intro k cf hk
    obtain ⟨fd, hf, rfl⟩ := compProg_fns hk
    exact hE.csfn k fd hf
  asFn_some := hE.asFn_some
  asFn_none := hE.asFn_none
  fits := by
    intro fn is hc i hi
    cases fn with
    | zero =>
      simp only [F3.Mach.code, Option.some.injEq] at hc
      subst hc
      exact (srcOk_main hs i hi).1
    | succ k =>
      simp only [F3.Mach.code] at hc
      cases hk : (F3.compProg P).fns k with
      | none => rw [hk] at hc; cases hc
      | some cf =>
        obtain ⟨fd, hf, rfl⟩ := compProg_fns hk
        rw [hk] at hc
        simp only [Option.map_some, Option.some.injEq] at hc
        subst hc
        simp only [F3.compFn, List.mem_append, List.mem_singleton] at hi
        rcases hi with hi | rfl
        · exact ((srcOk_fn hs hf).2 i hi).1
        · trivial
  rng := by
    intro fn is hc i hi
    cases fn with
    | zero =>
      simp only [F3.Mach.code, Option.some.injEq] at hc
      subst hc
      exact (srcOk_main hs i hi).2
    | succ k =>
      simp only [F3.Mach.code] at hc
      cases hk : (F3.compProg P).fns k with
      | none => rw [hk] at hc; cases hc
      | some cf =>
        obtain ⟨fd, hf, rfl⟩ := compProg_fns hk
        rw [hk] at hc
        simp only [Option.map_some, Option.some.injEq] at hc
        subst hc
        simp only [F3.compFn, List.mem_append, List.mem_singleton] at hi
        rcases hi with hi | rfl
        · exact ((srcOk_fn hs hf).2 i hi).2
        · trivial

end Tengo.Proofs.C01F3Opt

import Tengo.Proofs.C11PlaceDefs
import Tengo.Proofs.C01F3OptCode
/-!
C11, PLACEMENT global ↦ local on fragment F3, layer 1: the moved program `progL` meets the side conditions
(`SrcOk`) of the compiler bridge when the original `progG` does; literal counts and traversal budgets of both.
-/
namespace Tengo.Proofs.C11Place
open Tengo.Model Tengo.Model.F3
open Tengo.Proofs.C01BridgeF3Comp Tengo.Proofs.C01F3Opt

/-! ### list helpers -/

theorem app_nil : ∀ a : Stms, app a .nil = a
  | .nil => rfl
  | .cons s ss => by simp only [app, app_nil ss]

/-! ### literal counts -/

theorem nlitsE_ren : ∀ e : Ex, nlitsE3 (renE e) = nlitsE3 e
  | .lit _ => rfl | .tru => rfl | .fls => rfl | .undef => rfl | .glob _ => rfl | .loc _ => rfl
  | .bin _ l r => by simp only [renE, nlitsE3, nlitsE_ren l, nlitsE_ren r]
  | .eq l r => by simp only [renE, nlitsE3, nlitsE_ren l, nlitsE_ren r]
  | .ne l r => by simp only [renE, nlitsE3, nlitsE_ren l, nlitsE_ren r]
  | .land l r => by simp only [renE, nlitsE3, nlitsE_ren l, nlitsE_ren r]
  | .lor l r => by simp only [renE, nlitsE3, nlitsE_ren l, nlitsE_ren r]
  | .neg e => by simp only [renE, nlitsE3, nlitsE_ren e]
  | .bnot e => by simp only [renE, nlitsE3, nlitsE_ren e]
  | .lnot e => by simp only [renE, nlitsE3, nlitsE_ren e]
  | .plus e => by simp only [renE, nlitsE3, nlitsE_ren e]
  | .cond c t f => by simp only [renE, nlitsE3, nlitsE_ren c, nlitsE_ren t, nlitsE_ren f]
  | .call _ _ => rfl

mutual
  theorem nlitsS_ren : ∀ s : Stm, nlitsS3 (renS s) = nlitsS3 s
    | .expr e => by simp only [renS, nlitsS3, nlitsE_ren]
    | .assign _ e => by simp only [renS, nlitsS3, nlitsE_ren]
    | .defl _ _ => rfl
    | .setl _ _ => rfl
    | .ifs c b => by simp only [renS, nlitsS3, nlitsE_ren, nlitsSs_ren b]
    | .ifelse c b e => by simp only [renS, nlitsS3, nlitsE_ren, nlitsSs_ren b, nlitsSs_ren e]
    | .whil c b => by simp only [renS, nlitsS3, nlitsE_ren, nlitsSs_ren b]
    | .forever b => by simp only [renS, nlitsS3, nlitsSs_ren b]
    | .for3 c b p => by simp only [renS, nlitsS3, nlitsE_ren, nlitsSs_ren b, nlitsS_ren p]
    | .brk => rfl | .cont => rfl | .ret _ => rfl | .ret0 => rfl
  theorem nlitsSs_ren : ∀ ss : Stms, nlitsSs3 (renSs ss) = nlitsSs3 ss
    | .nil => rfl
    | .cons s ss => by simp only [renSs, nlitsSs3, nlitsS_ren s, nlitsSs_ren ss]
end

theorem nlitsSs_app : ∀ a b : Stms, nlitsSs3 (app a b) = nlitsSs3 a + nlitsSs3 b
  | .nil, b => by simp only [app, nlitsSs3, Nat.zero_add]
  | .cons s ss, b => by simp only [app, nlitsSs3, nlitsSs_app ss b, Nat.add_assoc]

theorem nlitsSs_pro : ∀ c j : Nat, nlitsSs3 (proFrom j c) = 0
  | 0, _ => rfl
  | c + 1, j => by simp only [proFrom, nlitsSs3, nlitsS3, nlitsE3, nlitsSs_pro c]

theorem nlitsSs_epi : ∀ c j : Nat, nlitsSs3 (epiFrom j c) = 0
  | 0, _ => rfl
  | c + 1, j => by simp only [epiFrom, nlitsSs3, nlitsS3, nlitsE3, nlitsSs_epi c]

theorem nlitsSs_fnBody (n : Nat) (body : Stms) : nlitsSs3 (fnBody n body) = nlitsSs3 body := by
  simp only [fnBody, nlitsSs_app, nlitsSs_pro, nlitsSs_epi, nlitsSs_ren, Nat.zero_add, Nat.add_zero]

/-! ### the program without functions -/

theorem topFn_progG (body : Stms) : ∀ s : Stm, topFn (progG body) s = none
  | .assign _ (.lit _) => rfl
  | .assign _ .tru => rfl | .assign _ .fls => rfl | .assign _ .undef => rfl | .assign _ (.glob _) => rfl
  | .assign _ (.loc _) => rfl | .assign _ (.bin _ _ _) => rfl | .assign _ (.eq _ _) => rfl
  | .assign _ (.ne _ _) => rfl | .assign _ (.neg _) => rfl | .assign _ (.bnot _) => rfl
  | .assign _ (.lnot _) => rfl | .assign _ (.plus _) => rfl | .assign _ (.cond _ _ _) => rfl
  | .assign _ (.land _ _) => rfl | .assign _ (.lor _ _) => rfl | .assign _ (.call _ _) => rfl
  | .expr _ => rfl | .defl _ _ => rfl | .setl _ _ => rfl | .ifs _ _ => rfl | .ifelse _ _ _ => rfl
  | .whil _ _ => rfl | .forever _ => rfl | .for3 _ _ _ => rfl | .brk => rfl | .cont => rfl
  | .ret _ => rfl | .ret0 => rfl

theorem nlitsTop_progG (body : Stms) (s : Stm) : nlitsTop (progG body) s = nlitsS3 s := by
  simp only [nlitsTop, topFn_progG]

theorem budTop_progG (body : Stms) (s : Stm) : budTop (progG body) s = budS3 s := by
  simp only [budTop, topFn_progG]

theorem nlitsMain_progG' (body : Stms) : ∀ ss : Stms, nlitsMain (progG body) ss = nlitsSs3 ss
  | .nil => rfl
  | .cons s ss => by simp only [nlitsMain, nlitsSs3, nlitsTop_progG, nlitsMain_progG' body ss]

theorem budMain_progG' (body : Stms) : ∀ ss : Stms, budMain (progG body) ss = budSs3 ss
  | .nil => rfl
  | .cons s ss => by simp only [budMain, budSs3, budTop_progG, budMain_progG' body ss]

theorem wfMain_progG (body : Stms) (n : Nat) : ∀ (ss : Stms) (k : Nat),
    wfMain (progG body) n k ss = wfSs3 (isFnOf (progG body)) n 0 false false k ss
  | .nil, _ => by simp only [wfMain, wfSs3]
  | .cons s ss, k => by
    simp only [wfMain, wfSs3, topFn_progG, nlitsTop_progG, wfMain_progG body n ss]

theorem budMain_progG (body : Stms) : budMain (progG body) body = budSs3 body := budMain_progG' body body

theorem nlitsMain_progG (body : Stms) : nlitsMain (progG body) body = nlitsSs3 body := nlitsMain_progG' body body

/-! ### the moved program: literal count and budget -/

theorem topFn_progL_first (n L : Nat) (body : Stms) :
    topFn (progL n L body) (.assign n (.lit L)) = some (n, L, fnDef n body) := by
  simp only [topFn, progL, if_pos, Option.map]

theorem topFn_progL_second (n L : Nat) (body : Stms) :
    topFn (progL n L body) (.expr (.call (.glob n) .nil)) = none := rfl

theorem nlitsMain_progL (n : Nat) (body : Stms) :
    nlitsMain (progL n (nlitsSs3 body) body) (progL n (nlitsSs3 body) body).main = nlitsSs3 body + 1 := by
  show nlitsMain (progL n (nlitsSs3 body) body)
    (.cons (.assign n (.lit (nlitsSs3 body))) (.cons (.expr (.call (.glob n) .nil)) .nil)) = _
  simp only [nlitsMain, nlitsTop, topFn_progL_first, topFn_progL_second, fnDef, nlitsSs_fnBody, nlitsS3, nlitsE3,
    nlitsEs3, Nat.add_zero]

/-! budgets -/

theorem budE_ren : ∀ e : Ex, budE3 (renE e) = budE3 e
  | .lit _ => rfl | .tru => rfl | .fls => rfl | .undef => rfl | .glob _ => rfl | .loc _ => rfl
  | .bin _ l r => by simp only [renE, budE3, budE_ren l, budE_ren r]
  | .eq l r => by simp only [renE, budE3, budE_ren l, budE_ren r]
  | .ne l r => by simp only [renE, budE3, budE_ren l, budE_ren r]
  | .land l r => by simp only [renE, budE3, budE_ren l, budE_ren r]
  | .lor l r => by simp only [renE, budE3, budE_ren l, budE_ren r]
  | .neg e => by simp only [renE, budE3, budE_ren e]
  | .bnot e => by simp only [renE, budE3, budE_ren e]
  | .lnot e => by simp only [renE, budE3, budE_ren e]
  | .plus e => by simp only [renE, budE3, budE_ren e]
  | .cond c t f => by simp only [renE, budE3, budE_ren c, budE_ren t, budE_ren f]
  | .call _ _ => rfl

mutual
  theorem budS_ren : ∀ s : Stm, budS3 (renS s) = budS3 s
    | .expr e => by simp only [renS, budS3, budE_ren]
    | .assign _ e => by simp only [renS, budS3, budE_ren]
    | .defl _ _ => rfl
    | .setl _ _ => rfl
    | .ifs c b => by simp only [renS, budS3, budE_ren, budSs_ren b]
    | .ifelse c b e => by simp only [renS, budS3, budE_ren, budSs_ren b, budSs_ren e]
    | .whil c b => by simp only [renS, budS3, budE_ren, budSs_ren b]
    | .forever b => by simp only [renS, budS3, budSs_ren b]
    | .for3 c b p => by simp only [renS, budS3, budE_ren, budSs_ren b, budS_ren p]
    | .brk => rfl | .cont => rfl | .ret _ => rfl | .ret0 => rfl
  theorem budSs_ren : ∀ ss : Stms, budSs3 (renSs ss) = budSs3 ss
    | .nil => rfl
    | .cons s ss => by simp only [renSs, budSs3, budS_ren s, budSs_ren ss]
end

theorem budSs_app : ∀ a b : Stms, budSs3 (app a b) ≤ budSs3 a + budSs3 b
  | .nil, b => by simp only [app, budSs3]; omega
  | .cons s ss, b => by
    have := budSs_app ss b
    simp only [app, budSs3]; omega

theorem budSs_pro : ∀ c j : Nat, budSs3 (proFrom j c) ≤ c + 3
  | 0, _ => by simp only [proFrom, budSs3]; omega
  | c + 1, j => by
    have := budSs_pro c (j + 1)
    simp only [proFrom, budSs3, budS3, budE3]; omega

theorem budSs_epi : ∀ c j : Nat, budSs3 (epiFrom j c) ≤ c + 3
  | 0, _ => by simp only [epiFrom, budSs3]; omega
  | c + 1, j => by
    have := budSs_epi c (j + 1)
    simp only [epiFrom, budSs3, budS3, budE3]; omega

theorem budSs_fnBody (n : Nat) (body : Stms) : budSs3 (fnBody n body) ≤ budSs3 body + 2 * n + 6 := by
  have h1 := budSs_app (proFrom 0 n) (app (renSs body) (epiFrom 0 n))
  have h2 := budSs_app (renSs body) (epiFrom 0 n)
  have h3 := budSs_pro n 0
  have h4 := budSs_epi n 0
  rw [budSs_ren] at h2
  simp only [fnBody]; omega

theorem budSs_pos : ∀ ss : Stms, 1 ≤ budSs3 ss
  | .nil => by simp only [budSs3]; omega
  | .cons _ _ => by simp only [budSs3]; omega

/-- the traversal budget of the moved program -/
theorem budMain_progL (n : Nat) (body : Stms) :
    budMain (progL n (nlitsSs3 body) body) (progL n (nlitsSs3 body) body).main ≤ budSs3 body + 2 * n + 12 := by
  show budMain (progL n (nlitsSs3 body) body)
    (.cons (.assign n (.lit (nlitsSs3 body))) (.cons (.expr (.call (.glob n) .nil)) .nil)) ≤ _
  have h := budSs_fnBody n body
  have hp := budSs_pos body
  simp only [budMain, budTop, topFn_progL_first, topFn_progL_second, fnDef, budS3, budE3, budEs3]
  omega

/-! ### sizes -/

theorem esize_ren : ∀ e : Ex, esize (renE e) ≤ esize e
  | .lit _ => Nat.le_refl _ | .tru => Nat.le_refl _ | .fls => Nat.le_refl _ | .undef => Nat.le_refl _
  | .glob _ => by simp only [renE, esize]; omega
  | .loc _ => Nat.le_refl _
  | .bin _ l r => by have := esize_ren l; have := esize_ren r; simp only [renE, esize]; omega
  | .eq l r => by have := esize_ren l; have := esize_ren r; simp only [renE, esize]; omega
  | .ne l r => by have := esize_ren l; have := esize_ren r; simp only [renE, esize]; omega
  | .land l r => by have := esize_ren l; have := esize_ren r; simp only [renE, esize]; omega
  | .lor l r => by have := esize_ren l; have := esize_ren r; simp only [renE, esize]; omega
  | .neg e => by have := esize_ren e; simp only [renE, esize]; omega
  | .bnot e => by have := esize_ren e; simp only [renE, esize]; omega
  | .lnot e => by have := esize_ren e; simp only [renE, esize]; omega
  | .plus e => by have := esize_ren e; simp only [renE, esize]; omega
  | .cond c t f => by
    have := esize_ren c; have := esize_ren t; have := esize_ren f; simp only [renE, esize]; omega
  | .call _ _ => Nat.le_refl _

mutual
  theorem ssize_ren : ∀ s : Stm, ssize (renS s) ≤ ssize s
    | .expr e => by have := esize_ren e; simp only [renS, ssize]; omega
    | .assign _ e => by have := esize_ren e; simp only [renS, ssize]; omega
    | .defl _ _ => Nat.le_refl _
    | .setl _ _ => Nat.le_refl _
    | .ifs c b => by have := esize_ren c; have := sssize_ren b; simp only [renS, ssize]; omega
    | .ifelse c b e => by
      have := esize_ren c; have := sssize_ren b; have := sssize_ren e; simp only [renS, ssize]; omega
    | .whil c b => by have := esize_ren c; have := sssize_ren b; simp only [renS, ssize]; omega
    | .forever b => by have := sssize_ren b; simp only [renS, ssize]; omega
    | .for3 c b p => by
      have := esize_ren c; have := sssize_ren b; have := ssize_ren p; simp only [renS, ssize]; omega
    | .brk => Nat.le_refl _ | .cont => Nat.le_refl _ | .ret _ => Nat.le_refl _ | .ret0 => Nat.le_refl _
  theorem sssize_ren : ∀ ss : Stms, sssize (renSs ss) ≤ sssize ss
    | .nil => Nat.le_refl _
    | .cons s ss => by have := ssize_ren s; have := sssize_ren ss; simp only [renSs, sssize]; omega
end

theorem sssize_app : ∀ a b : Stms, sssize (app a b) = sssize a + sssize b
  | .nil, b => by simp only [app, sssize, Nat.zero_add]
  | .cons s ss, b => by simp only [app, sssize, sssize_app ss b, Nat.add_assoc]

theorem sssize_pro : ∀ c j : Nat, sssize (proFrom j c) = 5 * c
  | 0, _ => rfl
  | c + 1, j => by simp only [proFrom, sssize, ssize, esize, sssize_pro c]; omega

theorem sssize_epi : ∀ c j : Nat, sssize (epiFrom j c) = 5 * c
  | 0, _ => rfl
  | c + 1, j => by simp only [epiFrom, sssize, ssize, esize, sssize_epi c]; omega

theorem sssize_fnBody (n : Nat) (body : Stms) : sssize (fnBody n body) ≤ sssize body + 10 * n := by
  have := sssize_ren body
  simp only [fnBody, sssize_app, sssize_pro, sssize_epi]; omega

/-! ### number of local definitions -/

theorem ndefs_app : ∀ a b : Stms, ndefs (app a b) = ndefs a + ndefs b
  | .nil, b => by simp only [app, ndefs, Nat.zero_add]
  | .cons s ss, b => by
    have := ndefs_app ss b
    cases s <;> simp only [app, ndefs, this] <;> omega

theorem ndefs_pro : ∀ c j : Nat, ndefs (proFrom j c) = c
  | 0, _ => rfl
  | c + 1, j => by simp only [proFrom, ndefs, ndefs_pro c]

theorem ndefs_epi : ∀ c j : Nat, ndefs (epiFrom j c) = 0
  | 0, _ => rfl
  | c + 1, j => by simp only [epiFrom, ndefs, ndefs_epi c]

theorem ndefs_ren (n : Nat) : ∀ ss : Stms, g2Ss n ss = true → ndefs (renSs ss) = 0
  | .nil, _ => rfl
  | .cons s ss, h => by
    simp only [g2Ss, Bool.and_eq_true] at h
    have := ndefs_ren n ss h.2
    have h1 := h.1
    cases s <;> simp only [renSs, renS, ndefs, this] <;> simp [g2S] at h1

theorem ndefs_fnBody {n : Nat} {body : Stms} (hc : g2Ss n body = true) : ndefs (fnBody n body) = n := by
  simp only [fnBody, ndefs_app, ndefs_pro, ndefs_epi, ndefs_ren n body hc, Nat.add_zero]

/-! ### well-formedness moves along -/

theorem isSimple_ren : ∀ s : Stm, isSimple3 (renS s) = isSimple3 s
  | .expr _ => rfl | .assign _ _ => rfl | .defl _ _ => rfl | .setl _ _ => rfl | .ifs _ _ => rfl
  | .ifelse _ _ _ => rfl | .whil _ _ => rfl | .forever _ => rfl | .for3 _ _ _ => rfl | .brk => rfl
  | .cont => rfl | .ret _ => rfl | .ret0 => rfl

section wf
variable {isFn isFn' : Nat → Bool} {n K : Nat} (hK : ∀ j, j < K → isFn' j = false)
include hK
set_option linter.unusedSectionVars false

theorem wfE_ren : ∀ (e : Ex) (k : Nat), g2E n e = true → wfE3 isFn n 0 k e = true → k + nlitsE3 e ≤ K →
    wfE3 isFn' (n + 1) n k (renE e) = true
  | .lit j, k, _, hw, hk => by
    simp only [wfE3, Bool.and_eq_true, beq_iff_eq] at hw
    simp only [nlitsE3] at hk
    simp only [renE, wfE3, Bool.and_eq_true, beq_iff_eq, Bool.not_eq_true']
    exact ⟨hw.1, hK j (by omega)⟩
  | .tru, _, _, _, _ => rfl | .fls, _, _, _, _ => rfl | .undef, _, _, _, _ => rfl
  | .glob i, _, hg, _, _ => by simpa only [renE, wfE3, g2E] using hg
  | .loc _, _, hg, _, _ => by simp [g2E] at hg
  | .call _ _, _, hg, _, _ => by simp [g2E] at hg
  | .bin t l r, k, hg, hw, hk => by
    simp only [g2E, Bool.and_eq_true] at hg
    simp only [wfE3, Bool.and_eq_true] at hw
    simp only [nlitsE3] at hk
    simp only [renE, wfE3, Bool.and_eq_true, nlitsE_ren]
    exact ⟨⟨hw.1.1, wfE_ren l k hg.1 hw.1.2 (by omega)⟩, wfE_ren r _ hg.2 hw.2 (by omega)⟩
  | .eq l r, k, hg, hw, hk => by
    simp only [g2E, Bool.and_eq_true] at hg
    simp only [wfE3, Bool.and_eq_true] at hw
    simp only [nlitsE3] at hk
    simp only [renE, wfE3, Bool.and_eq_true, nlitsE_ren]
    exact ⟨wfE_ren l k hg.1 hw.1 (by omega), wfE_ren r _ hg.2 hw.2 (by omega)⟩
  | .ne l r, k, hg, hw, hk => by
    simp only [g2E, Bool.and_eq_true] at hg
    simp only [wfE3, Bool.and_eq_true] at hw
    simp only [nlitsE3] at hk
    simp only [renE, wfE3, Bool.and_eq_true, nlitsE_ren]
    exact ⟨wfE_ren l k hg.1 hw.1 (by omega), wfE_ren r _ hg.2 hw.2 (by omega)⟩
  | .land l r, k, hg, hw, hk => by
    simp only [g2E, Bool.and_eq_true] at hg
    simp only [wfE3, Bool.and_eq_true] at hw
    simp only [nlitsE3] at hk
    simp only [renE, wfE3, Bool.and_eq_true, nlitsE_ren]
    exact ⟨wfE_ren l k hg.1 hw.1 (by omega), wfE_ren r _ hg.2 hw.2 (by omega)⟩
  | .lor l r, k, hg, hw, hk => by
    simp only [g2E, Bool.and_eq_true] at hg
    simp only [wfE3, Bool.and_eq_true] at hw
    simp only [nlitsE3] at hk
    simp only [renE, wfE3, Bool.and_eq_true, nlitsE_ren]
    exact ⟨wfE_ren l k hg.1 hw.1 (by omega), wfE_ren r _ hg.2 hw.2 (by omega)⟩
  | .neg e, k, hg, hw, hk => by
    simp only [g2E] at hg; simp only [wfE3] at hw; simp only [nlitsE3] at hk
    simp only [renE, wfE3]; exact wfE_ren e k hg hw hk
  | .bnot e, k, hg, hw, hk => by
    simp only [g2E] at hg; simp only [wfE3] at hw; simp only [nlitsE3] at hk
    simp only [renE, wfE3]; exact wfE_ren e k hg hw hk
  | .lnot e, k, hg, hw, hk => by
    simp only [g2E] at hg; simp only [wfE3] at hw; simp only [nlitsE3] at hk
    simp only [renE, wfE3]; exact wfE_ren e k hg hw hk
  | .plus e, k, hg, hw, hk => by
    simp only [g2E] at hg; simp only [wfE3] at hw; simp only [nlitsE3] at hk
    simp only [renE, wfE3]; exact wfE_ren e k hg hw hk
  | .cond c t f, k, hg, hw, hk => by
    simp only [g2E, Bool.and_eq_true] at hg
    simp only [wfE3, Bool.and_eq_true] at hw
    simp only [nlitsE3] at hk
    simp only [renE, wfE3, Bool.and_eq_true, nlitsE_ren]
    exact ⟨⟨wfE_ren c k hg.1.1 hw.1.1 (by omega), wfE_ren t _ hg.1.2 hw.1.2 (by omega)⟩,
      wfE_ren f _ hg.2 hw.2 (by omega)⟩

mutual
  theorem wfS_ren : ∀ (s : Stm) (inl : Bool) (k : Nat), g2S n s = true → wfS3 isFn n 0 false inl k s = true →
      k + nlitsS3 s ≤ K → wfS3 isFn' (n + 1) n true inl k (renS s) = true
    | .expr e, _, k, hg, hw, hk => by
      simp only [g2S] at hg; simp only [wfS3] at hw; simp only [nlitsS3] at hk
      simp only [renS, wfS3]; exact wfE_ren hK e k hg hw hk
    | .assign i e, _, k, hg, hw, hk => by
      simp only [g2S, Bool.and_eq_true] at hg; simp only [wfS3, Bool.and_eq_true] at hw
      simp only [nlitsS3] at hk
      simp only [renS, wfS3, Bool.and_eq_true]; exact ⟨hg.1, wfE_ren hK e k hg.2 hw.2 hk⟩
    | .defl _ _, _, _, hg, _, _ => by simp [g2S] at hg
    | .setl _ _, _, _, hg, _, _ => by simp [g2S] at hg
    | .ret _, _, _, hg, _, _ => by simp [g2S] at hg
    | .ret0, _, _, hg, _, _ => by simp [g2S] at hg
    | .brk, _, _, _, hw, _ => by simpa only [renS, wfS3] using hw
    | .cont, _, _, _, hw, _ => by simpa only [renS, wfS3] using hw
    | .ifs c b, inl, k, hg, hw, hk => by
      simp only [g2S, Bool.and_eq_true] at hg; simp only [wfS3, Bool.and_eq_true] at hw
      simp only [nlitsS3] at hk
      simp only [renS, wfS3, Bool.and_eq_true, nlitsE_ren]
      exact ⟨wfE_ren hK c k hg.1 hw.1 (by omega), wfSs_ren b inl _ hg.2 hw.2 (by omega)⟩
    | .ifelse c b e, inl, k, hg, hw, hk => by
      simp only [g2S, Bool.and_eq_true] at hg; simp only [wfS3, Bool.and_eq_true] at hw
      simp only [nlitsS3] at hk
      simp only [renS, wfS3, Bool.and_eq_true, nlitsE_ren, nlitsSs_ren]
      exact ⟨⟨wfE_ren hK c k hg.1.1 hw.1.1 (by omega), wfSs_ren b inl _ hg.1.2 hw.1.2 (by omega)⟩,
        wfSs_ren e inl _ hg.2 hw.2 (by omega)⟩
    | .whil c b, _, k, hg, hw, hk => by
      simp only [g2S, Bool.and_eq_true] at hg; simp only [wfS3, Bool.and_eq_true] at hw
      simp only [nlitsS3] at hk
      simp only [renS, wfS3, Bool.and_eq_true, nlitsE_ren]
      exact ⟨wfE_ren hK c k hg.1 hw.1 (by omega), wfSs_ren b true _ hg.2 hw.2 (by omega)⟩
    | .forever b, _, k, hg, hw, hk => by
      simp only [g2S] at hg; simp only [wfS3] at hw; simp only [nlitsS3] at hk
      simp only [renS, wfS3]; exact wfSs_ren b true k hg hw hk
    | .for3 c b p, inl, k, hg, hw, hk => by
      simp only [g2S, Bool.and_eq_true] at hg; simp only [wfS3, Bool.and_eq_true] at hw
      simp only [nlitsS3] at hk
      simp only [renS, wfS3, Bool.and_eq_true, nlitsE_ren, nlitsSs_ren, isSimple_ren]
      exact ⟨⟨⟨wfE_ren hK c k hg.1.1 hw.1.1.1 (by omega), wfSs_ren b true _ hg.1.2 hw.1.1.2 (by omega)⟩,
        hw.1.2⟩, wfS_ren p inl _ hg.2 hw.2 (by omega)⟩
  theorem wfSs_ren : ∀ (ss : Stms) (inl : Bool) (k : Nat), g2Ss n ss = true →
      wfSs3 isFn n 0 false inl k ss = true → k + nlitsSs3 ss ≤ K →
      wfSs3 isFn' (n + 1) n true inl k (renSs ss) = true
    | .nil, _, _, _, _, _ => by simp only [renSs, wfSs3]
    | .cons s ss, inl, k, hg, hw, hk => by
      simp only [g2Ss, Bool.and_eq_true] at hg; simp only [wfSs3, Bool.and_eq_true] at hw
      simp only [nlitsSs3] at hk
      simp only [renSs, wfSs3, Bool.and_eq_true, nlitsS_ren]
      exact ⟨wfS_ren s inl k hg.1 hw.1 (by omega), wfSs_ren ss inl _ hg.2 hw.2 (by omega)⟩
end

end wf

/-! ### the top level of the function body -/

theorem wfBody_pro (isFn : Nat → Bool) (n : Nat) (rest : Stms) : ∀ (c j k : Nat), j + c ≤ n →
    wfBody isFn (n + 1) j k (app (proFrom j c) rest) = wfBody isFn (n + 1) (j + c) k rest
  | 0, j, k, _ => by simp only [proFrom, app, Nat.add_zero]
  | c + 1, j, k, h => by
    have := wfBody_pro isFn n rest c (j + 1) k (by omega)
    simp only [proFrom, app, wfBody, wfE3, nlitsE3, Nat.add_zero, this, beq_self_eq_true, Bool.true_and]
    have hj : decide (j < n + 1) = true := by simp only [decide_eq_true_eq]; omega
    rw [hj, Bool.true_and]
    congr 1; omega

theorem wfBody_app (isFn : Nat → Bool) (N m : Nat) (rest : Stms) : ∀ (ss : Stms) (k : Nat),
    wfSs3 isFn N m true false k ss = true →
    wfBody isFn N m k (app ss rest) = wfBody isFn N m (k + nlitsSs3 ss) rest
  | .nil, k, _ => by simp only [app, nlitsSs3, Nat.add_zero]
  | .cons s ss, k, hw => by
    simp only [wfSs3, Bool.and_eq_true] at hw
    have := wfBody_app isFn N m rest ss (k + nlitsS3 s) hw.2
    have h1 := hw.1
    cases s <;> first
      | (exfalso; simp [wfS3] at h1; done)
      | (simp only [app, wfBody, h1, this, nlitsSs3, Bool.true_and, Nat.add_assoc])

theorem wfSs_epi (isFn : Nat → Bool) (n k : Nat) : ∀ (c j : Nat), j + c ≤ n →
    wfSs3 isFn (n + 1) n true false k (epiFrom j c) = true
  | 0, _, _ => by simp only [epiFrom, wfSs3]
  | c + 1, j, h => by
    have := wfSs_epi isFn n k c (j + 1) (by omega)
    simp only [epiFrom, wfSs3, wfS3, wfE3, nlitsS3, nlitsE3, Nat.add_zero, this, Bool.and_true,
      Bool.and_eq_true, decide_eq_true_eq]
    omega

theorem wfBody_fnBody {isFn isFn' : Nat → Bool} {n : Nat} {body : Stms} (hc : g2Ss n body = true)
    (hw : wfSs3 isFn n 0 false false 0 body = true) (hK : ∀ j, j < nlitsSs3 body → isFn' j = false) :
    wfBody isFn' (n + 1) 0 0 (fnBody n body) = true := by
  have h1 := wfSs_ren (isFn := isFn) hK body false 0 hc hw (by omega)
  have h2 := wfSs_epi isFn' n (0 + nlitsSs3 (renSs body)) n 0 (by omega)
  rw [fnBody, wfBody_pro isFn' n _ n 0 0 (by omega), wfBody_app isFn' (n + 1) (0 + n) _ _ 0 (by simpa using h1)]
  have h3 := wfBody_app isFn' (n + 1) (0 + n) .nil (epiFrom 0 n) (0 + nlitsSs3 (renSs body))
    (by simpa using h2)
  rw [app_nil] at h3
  rw [h3]; simp only [wfBody]

/-! ### the side conditions -/

/-- SrcOk of the moved program from SrcOk of the original. -/
theorem srcOk_progL {n : Nat} {body : Stms} (hs : SrcOk (progG body) n) (hc : g2Ss n body = true) (hn : n ≤ 256)
    (hsz : F3.sssize body + 10 * n < 4294967296) (hp : nlitsSs3 body < 65536) :
    SrcOk (progL n (nlitsSs3 body) body) (n + 1) := by
  have hw : wfSs3 (isFnOf (progG body)) n 0 false false 0 body = true := by
    have := hs.wf
    rwa [wfProg, wfMain_progG] at this
  have hK : ∀ j, j < nlitsSs3 body → isFnOf (progL n (nlitsSs3 body) body) j = false := by
    intro j hj
    have : ¬ j = nlitsSs3 body := by omega
    simp only [isFnOf, progL, if_neg this, Option.isSome_none]
  have hmain : (progL n (nlitsSs3 body) body).main =
      .cons (.assign n (.lit (nlitsSs3 body))) (.cons (.expr (.call (.glob n) .nil)) .nil) := rfl
  refine ⟨?_, ?_, ?_, by omega, ?_, ?_⟩
  · have hb := wfBody_fnBody (isFn' := isFnOf (progL n (nlitsSs3 body) body)) hc hw hK
    rw [wfProg, hmain]
    simp only [wfMain, topFn_progL_first, topFn_progL_second, wfFn, fnDef, ndefs_fnBody hc, hb, nlitsSs_fnBody,
      wfS3, wfE3, wfEs3, Exs.len, Nat.zero_add, beq_self_eq_true, Bool.and_true, Bool.true_and,
      Bool.and_eq_true, decide_eq_true_eq]
    exact ⟨⟨by omega, hn⟩, by decide, by omega⟩
  · intro k fd hf
    refine ⟨n, ?_⟩
    have hk : k = nlitsSs3 body := by
      by_cases h : k = nlitsSs3 body
      · exact h
      · simp only [progL, if_neg h] at hf; cases hf
    subst hk
    rw [hmain]; exact Or.inl rfl
  · rw [nlitsMain_progL]; omega
  · rw [hmain]; simp only [sssize, ssize, esize, essize]; omega
  · intro k fd hf
    have hk : k = nlitsSs3 body := by
      by_cases h : k = nlitsSs3 body
      · exact h
      · simp only [progL, if_neg h] at hf; cases hf
    subst hk
    simp only [progL, if_pos, Option.some.injEq] at hf
    subst hf
    have := sssize_fnBody n body
    simp only [fnDef]; omega

/-- Non-vacuity: `x_0 = x_0 + 1` (one variable) meets every hypothesis of `srcOk_progL`. -/
example : let body : Stms := .cons (.assign 0 (.bin 11 (.glob 0) (.lit 0))) .nil
    SrcOk (progG body) 1 ∧ g2Ss 1 body = true ∧ 1 ≤ 256 ∧ F3.sssize body + 10 * 1 < 4294967296 ∧
      nlitsSs3 body < 65536 ∧ SrcOk (progL 1 (nlitsSs3 body) body) 2 := by
  intro body
  have hs : SrcOk (progG body) 1 :=
    ⟨by decide, fun k fd hf => by simp [progG] at hf, by decide, by decide, by decide,
      fun k fd hf => by simp [progG] at hf⟩
  exact ⟨hs, by decide, by decide, by decide, by decide, srcOk_progL hs (by decide) (by decide) (by decide) (by decide)⟩

end Tengo.Proofs.C11Place

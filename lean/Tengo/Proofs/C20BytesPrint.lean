import Tengo.Model.Printer
import Tengo.Proofs.C20BytesStream
import Tengo.Proofs.C20BytesParse
/-!
C20, byte level, part 4: layouts of concrete expression trees as printed token streams, and the composition
scanner ∘ printer ∘ parser.

* `parseFile_stream`: ANY stream of blanks and tokens whose tokens are those of a well-formed concrete tree and in
  which no token fuses with what follows parses (`ParseFile` on the BYTES) to exactly that tree.
* `spaced`: one blank between neighbouring tokens (the minimal printer's layout) — never fuses.
* `lay`: the layout of `Node.String()`: blanks around binary operators, `?` and `:`, none after a unary operator
  or inside parentheses. `UnOk`: a unary operator is not directly followed by a rune that fuses with it
  (`- -b` printed `--b` WOULD fuse; `Node.String()` prints `(-(-b))`).
* `print_lay`: `Printer.printExpr` of the AST of a tree is byte for byte the `lay` layout of the fully
  parenthesised tree.
-/
namespace Tengo.Proofs.C20BytesPrint
open Tengo.Model.Token Tengo.Model.Scanner Tengo.Model.Ast Tengo.Model.Parser Tengo.Model.Literal
open Tengo.Proofs.C20Parser Tengo.Proofs.C20BytesScan Tengo.Proofs.C20BytesStream Tengo.Proofs.C20BytesParse
open CE

/-- Operand tokens of the byte-level fragment: an ASCII identifier that is not a keyword, or the spelling of
`true` / `false` / `undefined`. Decidable. -/
def wordAtom (k : Tok) (lit : Bs) : Bool :=
  wordOk lit && (Tok.lookup lit == k) && (k == .Ident || k == .True || k == .False || k == .Undefined)

def AtomsOk : CE → Prop
  | .atom k lit => wordAtom k lit = true
  | .bin _ l r => AtomsOk l ∧ AtomsOk r
  | .un _ e => AtomsOk e
  | .cond c t f => AtomsOk c ∧ AtomsOk t ∧ AtomsOk f
  | .paren e => AtomsOk e

def itemOf (x : Tok × Bs) : Item := if isAtomTok x.1 then .word x.2 else .op x.1
def ikey (i : Item) : Tok × Bs := (i.tok, i.lit)

/-- The tokens of a stream. -/
def items : List El → List Item
  | [] => []
  | .sp :: r => items r
  | .it i :: r => i :: items r

theorem items_append (a b : List El) : items (a ++ b) = items a ++ items b := by
  induction a with
  | nil => rfl
  | cons x a ih => cases x <;> simp [items, ih]

theorem place_keys (els : List El) (off : Nat) : (place off els).map key = (items els).map ikey := by
  induction els generalizing off with
  | nil => rfl
  | cons x r ih => cases x <;> simp [place, items, ih, key, ikey]

theorem lastIns_noitems (els : List El) (ins : Bool) (h : items els = []) : lastIns ins els = ins := by
  induction els with
  | nil => rfl
  | cons x r ih =>
    cases x with
    | sp => exact ih h
    | it i => simp [items] at h

theorem lastIns_items (els : List El) : ∀ (ins : Bool) (init : List Item) (i : Item),
    items els = init ++ [i] → lastIns ins els = i.insAfter := by
  induction els with
  | nil => intro ins init i h; simp [items] at h
  | cons x r ih =>
    intro ins init i h
    cases x with
    | sp => exact ih ins init i h
    | it j =>
      simp only [items] at h
      simp only [lastIns]
      cases init with
      | nil =>
        simp only [List.nil_append, List.cons.injEq] at h
        rw [lastIns_noitems r _ h.2, h.1]
      | cons j' init' =>
        simp only [List.cons_append, List.cons.injEq] at h
        exact ih _ init' i h.2

/-! ### Token facts -/

theorem binop_frag (t : Tok) (h : 1 ≤ t.prec) : fragOp t = true ∧ isAtomTok t = false := by
  cases t <;> first | (exact absurd h (by decide)) | decide

theorem unop_frag (t : Tok) (h : isUnaryOp t = true) : fragOp t = true ∧ isAtomTok t = false := by
  cases t <;> first | (exact absurd h (by decide)) | decide

theorem wordAtom_atom {k : Tok} {lit : Bs} (h : wordAtom k lit = true) :
    wordOk lit = true ∧ Tok.lookup lit = k ∧ isAtomTok k = true ∧ identSemi k = true ∧ isSimpleStart k = true := by
  simp only [wordAtom, Bool.and_eq_true, Bool.or_eq_true, beq_iff_eq] at h
  obtain ⟨⟨h1, h2⟩, h3⟩ := h
  refine ⟨h1, h2, ?_, ?_, ?_⟩ <;> rcases h3 with ((h | h) | h) | h <;> rw [h] <;> decide

def KeyOk (x : Tok × Bs) : Prop := (itemOf x).ok = true ∧ ikey (itemOf x) = x

theorem keyOk_op (t : Tok) (h : fragOp t = true ∧ isAtomTok t = false) : KeyOk (t, []) := by
  simp [KeyOk, itemOf, h.2, Item.ok, h.1, ikey, Item.tok, Item.lit]

theorem keyOk_atom {k : Tok} {lit : Bs} (h : wordAtom k lit = true) : KeyOk (k, lit) := by
  obtain ⟨h1, h2, h3, -, -⟩ := wordAtom_atom h
  simp [KeyOk, itemOf, h3, Item.ok, h1, ikey, Item.tok, Item.lit, h2]

theorem keysOk (e : CE) (hw : e.WF0) (ha : AtomsOk e) : ∀ x ∈ e.keys, KeyOk x := by
  induction e with
  | atom k lit => intro x hx; simp only [CE.keys, List.mem_singleton] at hx; rw [hx]; exact keyOk_atom ha
  | bin op l r ihl ihr =>
    intro x hx
    simp only [CE.keys, List.mem_append, List.mem_cons] at hx
    rcases hx with hx | rfl | hx
    · exact ihl hw.2.1 ha.1 x hx
    · exact keyOk_op _ (binop_frag _ hw.1)
    · exact ihr hw.2.2 ha.2 x hx
  | un op e ih =>
    intro x hx
    simp only [CE.keys, List.mem_cons] at hx
    rcases hx with rfl | hx
    · exact keyOk_op _ (unop_frag _ hw.1)
    · exact ih hw.2 ha x hx
  | cond c t f ihc iht ihf =>
    intro x hx
    simp only [CE.keys, List.mem_append, List.mem_cons] at hx
    rcases hx with hx | rfl | hx | rfl | hx
    · exact ihc hw.1 ha.1 x hx
    · exact keyOk_op _ (by decide)
    · exact iht hw.2.1 ha.2.1 x hx
    · exact keyOk_op _ (by decide)
    · exact ihf hw.2.2 ha.2.2 x hx
  | paren e ih =>
    intro x hx
    simp only [CE.keys, List.mem_append, List.mem_cons, List.mem_singleton, List.not_mem_nil, or_false] at hx
    rcases hx with rfl | hx | rfl
    · exact keyOk_op _ (by decide)
    · exact ih hw ha x hx
    · exact keyOk_op _ (by decide)

theorem wf_wf0 (e : CE) (h : e.WF) : e.WF0 := by
  induction e with
  | atom k lit => exact h
  | bin op l r ihl ihr => exact ⟨h.1, ihl h.2.2.2.1, ihr h.2.2.2.2⟩
  | un op e ih => exact ⟨h.1, ih h.2.2⟩
  | cond c t f ihc iht ihf => exact ⟨ihc h.2.1, iht h.2.2.1, ihf h.2.2.2⟩
  | paren e ih => exact ih h

/-- The first token starts a simple statement. -/
theorem keys_first (e : CE) (hw : e.WF0) (ha : AtomsOk e) :
    ∃ x rest, e.keys = x :: rest ∧ isSimpleStart x.1 = true := by
  induction e with
  | atom k lit => exact ⟨_, _, rfl, (wordAtom_atom ha).2.2.2.2⟩
  | bin op l r ihl _ =>
    obtain ⟨x, rest, h, hs⟩ := ihl hw.2.1 ha.1
    exact ⟨x, rest ++ (op, []) :: r.keys, by simp [CE.keys, h], hs⟩
  | un op e _ =>
    refine ⟨_, _, rfl, ?_⟩
    have := hw.1
    revert this
    cases op <;> decide
  | cond c t f ihc _ _ =>
    obtain ⟨x, rest, h, hs⟩ := ihc hw.1 ha.1
    exact ⟨x, rest ++ (Tok.Question, []) :: (t.keys ++ (Tok.Colon, []) :: f.keys), by simp [CE.keys, h], hs⟩
  | paren e _ => exact ⟨_, _, rfl, by decide⟩

/-- The last token sets `insertSemi`. -/
theorem keys_last (e : CE) (hw : e.WF0) (ha : AtomsOk e) :
    ∃ init x, e.keys = init ++ [x] ∧ (itemOf x).insAfter = true := by
  induction e with
  | atom k lit =>
    obtain ⟨_, h2, h3, h4, _⟩ := wordAtom_atom ha
    exact ⟨[], _, rfl, by simp [itemOf, h3, Item.insAfter, h2, h4]⟩
  | bin op l r _ ihr =>
    obtain ⟨init, x, h, hs⟩ := ihr hw.2.2 ha.2
    exact ⟨l.keys ++ (op, []) :: init, x, by simp [CE.keys, h], hs⟩
  | un op e ih =>
    obtain ⟨init, x, h, hs⟩ := ih hw.2 ha
    exact ⟨(op, []) :: init, x, by simp [CE.keys, h], hs⟩
  | cond c t f _ _ ihf =>
    obtain ⟨init, x, h, hs⟩ := ihf hw.2.2 ha.2.2
    exact ⟨c.keys ++ (Tok.Question, []) :: (t.keys ++ (Tok.Colon, []) :: init), x, by simp [CE.keys, h], hs⟩
  | paren e _ => exact ⟨(Tok.LParen, []) :: e.keys, (Tok.RParen, []), by simp [CE.keys], by decide⟩

/-! ### Scanner ∘ parser on any non-fusing layout -/

variable (fo : Bs → Option Nat) (cls : Nat → Nat)

/-- **Byte-level parse of a laid-out tree.** `els` is any sequence of blanks and tokens whose tokens are those
of the well-formed concrete tree `e` (`items els = e.keys.map itemOf`) and in which no token fuses with the rune
that follows it (`StreamOk`). Then `ParseFile` on the rendered BYTES (scanner, automatic semicolon at the end of
input, statement parser, precedence climbing) succeeds with the single expression statement `e.ast`. -/
theorem parseFile_stream (e : CE) (hw : e.WF) (ha : AtomsOk e) (els : List El)
    (hi : items els = e.keys.map itemOf) (hok : StreamOk els eofR) :
    parseFile fo cls (render els) = some (.cons (.expr e.ast) .nil) := by
  have hw0 := wf_wf0 e hw
  obtain ⟨hT, hE⟩ := scan_print_tokens cls els hok
  -- the keys of the scanned tokens
  have hk : (place 0 els).map key = e.keys := by
    rw [place_keys, hi, List.map_map]
    have : ∀ x ∈ e.keys, (ikey ∘ itemOf) x = id x := fun x hx => (keysOk e hw0 ha x hx).2
    rw [List.map_congr_left this, List.map_id]
  -- insertSemi at the end
  obtain ⟨init, xl, hl, hins⟩ := keys_last e hw0 ha
  have hlast : lastIns false els = true := by
    rw [lastIns_items els false (init.map itemOf) (itemOf xl) (by rw [hi, hl]; simp), hins]
  -- first token
  obtain ⟨x0, r0, h0, hs0⟩ := keys_first e hw0 ha
  rw [h0] at hk
  obtain ⟨t0, ts, hpl, ht0, -, hts⟩ := map_key_cons hk
  have hk' : (t0 :: ts).map key = e.keys := by rw [← hpl, h0]; exact hk
  simp only [hlast, endToks, if_true] at hT
  generalize (render els).length = n at hT
  have hstop : Stop0 [(⟨.Semicolon, [10], n⟩ : Token), ⟨.EOF, [], n⟩] := by
    refine ⟨⟨?_, ?_, ?_⟩, ?_, ?_⟩ <;> simp only [tk] <;> decide
  have hp := (climb2 fo e hw).expr (t0 :: ts) _ hk' hstop
  have := parseToks_expr fo t0 ts e.ast ⟨.Semicolon, [10], n⟩ ⟨.EOF, [], n⟩ rfl rfl (by rw [ht0]; exact hs0) hp
  unfold parseFile
  simp only [hE, List.isEmpty_nil, if_true, hT, hpl]
  exact this

/-! ### Layout 1: one blank between tokens -/

def spaced : List (Tok × Bs) → List El
  | [] => []
  | [x] => [.it (itemOf x)]
  | x :: y :: r => .it (itemOf x) :: .sp :: spaced (y :: r)

theorem items_spaced (ks : List (Tok × Bs)) : items (spaced ks) = ks.map itemOf := by
  induction ks with
  | nil => rfl
  | cons x r ih =>
    cases r with
    | nil => rfl
    | cons y r => simp only [spaced, items, List.map_cons, List.cons.injEq, true_and]; exact ih

theorem fuses_blank (t : Tok) : fuses t 32 = false := by cases t <;> rfl
theorem fuses_eof (t : Tok) : fuses t eofR = false := by cases t <;> rfl

theorem sepOk_blank (i : Item) : i.sepOk 32 = true := by
  cases i with
  | op t => simp [Item.sepOk, fuses_blank]
  | word n => rfl

theorem sepOk_eof (i : Item) : i.sepOk eofR = true := by
  cases i with
  | op t => simp [Item.sepOk, fuses_eof]
  | word n => rfl

/-- With a blank after every token nothing can fuse. -/
theorem streamOk_spaced (ks : List (Tok × Bs)) (h : ∀ x ∈ ks, KeyOk x) : StreamOk (spaced ks) eofR := by
  induction ks with
  | nil => trivial
  | cons x r ih =>
    have hx := (h x List.mem_cons_self).1
    cases r with
    | nil => exact ⟨hx, sepOk_eof _, trivial⟩
    | cons y r => exact ⟨hx, sepOk_blank _, ih (fun z hz => h z (List.mem_cons_of_mem _ hz))⟩

/-! ### Layout 2: the layout of `Node.String()` -/

def opEl (t : Tok) : El := .it (itemOf (t, []))

def lay : CE → List El
  | .atom k lit => [.it (itemOf (k, lit))]
  | .bin op l r => lay l ++ .sp :: opEl op :: .sp :: lay r
  | .un op e => opEl op :: lay e
  | .cond c t f => lay c ++ .sp :: opEl .Question :: .sp :: (lay t ++ .sp :: opEl .Colon :: .sp :: lay f)
  | .paren e => opEl .LParen :: (lay e ++ [opEl .RParen])

theorem items_lay (e : CE) : items (lay e) = e.keys.map itemOf := by
  induction e with
  | atom k lit => rfl
  | bin op l r ihl ihr => simp [lay, CE.keys, items_append, items, opEl, ihl, ihr]
  | un op e ih => simp [lay, CE.keys, items, opEl, ih]
  | cond c t f ihc iht ihf => simp [lay, CE.keys, items_append, items, opEl, ihc, iht, ihf]
  | paren e ih => simp [lay, CE.keys, items_append, items, opEl, ih]

/-- No unary operator is directly followed by a rune that fuses with it. -/
def UnOk : CE → Prop
  | .atom _ _ => True
  | .bin _ l r => UnOk l ∧ UnOk r
  | .un op e => (∀ x, fuses op (firstR (lay e) x) = false) ∧ UnOk e
  | .cond c t f => UnOk c ∧ UnOk t ∧ UnOk f
  | .paren e => UnOk e

theorem opEl_ok (t : Tok) (h : fragOp t = true ∧ isAtomTok t = false) (r : List El) (x : Nat)
    (hs : fuses t (firstR r x) = false) (hr : StreamOk r x) : StreamOk (opEl t :: r) x := by
  refine ⟨?_, ?_, hr⟩
  · simp [itemOf, h.2, Item.ok, h.1]
  · simp [itemOf, h.2, Item.sepOk, hs]

/-- The `Node.String()` layout never fuses, provided unary operators do not meet a fusing rune. -/
theorem streamOk_lay (e : CE) (hw : e.WF0) (ha : AtomsOk e) (hu : UnOk e) :
    ∀ x, identStop x = true → StreamOk (lay e) x := by
  induction e with
  | atom k lit =>
    intro x hx
    obtain ⟨h1, -, h3, -, -⟩ := wordAtom_atom ha
    refine ⟨?_, ?_, trivial⟩
    · simp [itemOf, h3, Item.ok, h1]
    · simpa [itemOf, h3, Item.sepOk, firstR] using hx
  | bin op l r ihl ihr =>
    intro x hx
    simp only [lay]
    rw [streamOk_append]
    refine ⟨ihl hw.2.1 ha.1 hu.1 _ (by rfl), ?_⟩
    exact opEl_ok op (binop_frag _ hw.1) _ x (fuses_blank _) (ihr hw.2.2 ha.2 hu.2 x hx)
  | un op e ih =>
    intro x hx
    exact opEl_ok op (unop_frag _ hw.1) _ x (hu.1 x) (ih hw.2 ha hu.2 x hx)
  | cond c t f ihc iht ihf =>
    intro x hx
    simp only [lay]
    rw [streamOk_append]
    refine ⟨ihc hw.1 ha.1 hu.1 _ (by rfl), ?_⟩
    refine opEl_ok .Question (by decide) _ x (fuses_blank _) ?_
    show StreamOk (lay t ++ .sp :: opEl .Colon :: .sp :: lay f) x
    rw [streamOk_append]
    refine ⟨iht hw.2.1 ha.2.1 hu.2.1 _ (by rfl), ?_⟩
    exact opEl_ok .Colon (by decide) _ x (fuses_blank _) (ihf hw.2.2 ha.2.2 hu.2.2 x hx)
  | paren e ih =>
    intro x hx
    refine opEl_ok .LParen (by decide) _ x rfl ?_
    rw [streamOk_append]
    refine ⟨ih hw ha hu _ (by rfl), ?_⟩
    exact opEl_ok .RParen (by decide) [] x rfl trivial

/-! ### Full and minimal parenthesisation keep the side conditions -/

theorem atomsOk_wrap (b : Bool) (e : CE) (h : AtomsOk e) : AtomsOk (wrap b e) := by
  cases b <;> simpa [wrap, AtomsOk] using h

theorem atomsOk_min (e : CE) (h : AtomsOk e) : AtomsOk e.min := by
  induction e with
  | atom k lit => exact h
  | bin op l r ihl ihr => exact ⟨atomsOk_wrap _ _ (ihl h.1), atomsOk_wrap _ _ (ihr h.2)⟩
  | un op e ih => exact atomsOk_wrap _ _ (ih h)
  | cond c t f ihc iht ihf => exact ⟨atomsOk_wrap _ _ (ihc h.1), iht h.2.1, ihf h.2.2⟩
  | paren e ih => exact ih h

theorem atomsOk_full (e : CE) (h : AtomsOk e) : AtomsOk e.full := by
  induction e with
  | atom k lit => exact h
  | bin op l r ihl ihr => exact ⟨ihl h.1, ihr h.2⟩
  | un op e ih => exact ih h
  | cond c t f ihc iht ihf => exact ⟨ihc h.1, iht h.2.1, ihf h.2.2⟩
  | paren e ih => exact ih h

theorem fuses_letter (t : Tok) (r : Nat) (h : isAsciiLetter r = true) : fuses t r = false := by
  simp only [isAsciiLetter, Bool.or_eq_true, Bool.and_eq_true, decide_eq_true_eq, beq_iff_eq] at h
  have h1 : r ≠ 61 := by omega
  have h2 : r ≠ 43 := by omega
  have h3 : r ≠ 45 := by omega
  have h4 : r ≠ 47 := by omega
  have h5 : r ≠ 42 := by omega
  have h6 : r ≠ 38 := by omega
  have h7 : r ≠ 94 := by omega
  have h8 : r ≠ 124 := by omega
  have h9 : r ≠ 60 := by omega
  have h10 : r ≠ 62 := by omega
  cases t <;> simp [fuses, h1, h2, h3, h4, h5, h6, h7, h8, h9, h10]

theorem fuses_lparen (t : Tok) : fuses t 40 = false := by cases t <;> rfl

/-- In the fully parenthesised form a unary operator is followed by `(` or by the first letter of an operand. -/
theorem first_full (e : CE) (ha : AtomsOk e) (t : Tok) (x : Nat) : fuses t (firstR (lay e.full) x) = false := by
  cases e with
  | atom k lit =>
    obtain ⟨h1, -, h3, -, -⟩ := wordAtom_atom ha
    cases lit with
    | nil => simp [wordOk] at h1
    | cons b bs =>
      simp only [wordOk, Bool.and_eq_true] at h1
      have : firstR (lay (CE.atom k (b :: bs)).full) x = b.toNat := by
        simp [CE.full, lay, firstR, itemOf, h3, Item.text]
      rw [this]
      exact fuses_letter t _ h1.1
  | bin op l r => exact fuses_lparen t
  | un op e => exact fuses_lparen t
  | cond c t' f => exact fuses_lparen t
  | paren e => exact fuses_lparen t

theorem unOk_full (e : CE) (ha : AtomsOk e) : UnOk e.full := by
  induction e with
  | atom k lit => trivial
  | bin op l r ihl ihr => exact ⟨ihl ha.1, ihr ha.2⟩
  | un op e ih => exact ⟨fun x => first_full e ha op x, ih ha⟩
  | cond c t f ihc iht ihf => exact ⟨ihc ha.1, iht ha.2.1, ihf ha.2.2⟩
  | paren e ih => exact ih ha

/-! ### `Printer.printExpr` is the `lay` layout of the fully parenthesised tree -/

open Tengo.Model.Printer in
theorem s_facts : s "(" = Tok.LParen.bytes ∧ s ")" = Tok.RParen.bytes ∧ s " " = [32] ∧
    s " ? " = 32 :: Tok.Question.bytes ++ [32] ∧ s " : " = 32 :: Tok.Colon.bytes ++ [32] ∧
    s "true" = Tok.True.bytes ∧ s "false" = Tok.False.bytes ∧ s "undefined" = Tok.Undefined.bytes := by
  decide +kernel

theorem lookup_kw {lit : Bs} {k : Tok} (h : Tok.lookup lit = k) (hk : k ≠ .Ident) : k.bytes = lit := by
  unfold Tok.lookup at h
  split at h
  · next k' hf =>
    have := List.find?_some hf
    rw [← h]
    simpa using this
  · exact absurd h.symm hk

theorem render_sp (r : List El) : render (.sp :: r) = 32 :: render r := rfl
theorem render_nil : render [] = [] := rfl

theorem render_opEl (t : Tok) (h : isAtomTok t = false) (r : List El) : render (opEl t :: r) = t.bytes ++ render r := by
  simp [opEl, render, itemOf, h, Item.text]

open Tengo.Model.Printer in
/-- **The printer model emits the `lay` layout.** For every concrete tree over the fragment's operators,
`printExpr` of its AST is, byte for byte, the layout `lay` of its fully parenthesised form. -/
theorem print_lay (e : CE) (hw : e.WF0) (ha : AtomsOk e) : printExpr e.ast = render (lay e.full) := by
  obtain ⟨s1, s2, s3, s4, s5, s6, s7, s8⟩ := s_facts
  have hL : isAtomTok Tok.LParen = false := by decide
  have hR : isAtomTok Tok.RParen = false := by decide
  have hQ : isAtomTok Tok.Question = false := by decide
  have hC : isAtomTok Tok.Colon = false := by decide
  induction e with
  | atom k lit =>
    obtain ⟨h1, h2, h3, -, -⟩ := wordAtom_atom ha
    have hr : render (lay (CE.atom k lit).full) = lit := by
      simp [CE.full, lay, render, itemOf, h3, Item.text]
    rw [hr]
    have ha' : wordAtom k lit = true := ha
    simp only [wordAtom, Bool.and_eq_true, Bool.or_eq_true, beq_iff_eq] at ha'
    rcases ha'.2 with ((h | h) | h) | h <;> subst h
    · simp [CE.ast, atomAst, printExpr]
    · simp [CE.ast, atomAst, printExpr, s6, lookup_kw h2 (by decide)]
    · simp [CE.ast, atomAst, printExpr, s7, lookup_kw h2 (by decide)]
    · simp [CE.ast, atomAst, printExpr, s8, lookup_kw h2 (by decide)]
  | bin op l r ihl ihr =>
    have ho := (binop_frag op hw.1).2
    simp only [CE.ast, CE.full, lay, printExpr, ihl hw.2.1 ha.1, ihr hw.2.2 ha.2]
    simp only [render_append, render_sp, render_nil, render_opEl _ hL, render_opEl _ hR, render_opEl _ ho, s1, s2, s3,
      List.append_assoc, List.cons_append, List.nil_append, List.append_nil]
  | un op e ih =>
    have ho := (unop_frag op hw.1).2
    simp only [CE.ast, CE.full, lay, printExpr, ih hw.2 ha]
    simp only [render_append, render_sp, render_nil, render_opEl _ hL, render_opEl _ hR, render_opEl _ ho, s1, s2, s3,
      List.append_assoc, List.cons_append, List.nil_append, List.append_nil]
  | cond c t f ihc iht ihf =>
    simp only [CE.ast, CE.full, lay, printExpr, ihc hw.1 ha.1, iht hw.2.1 ha.2.1, ihf hw.2.2 ha.2.2]
    simp only [render_append, render_sp, render_nil, render_opEl _ hL, render_opEl _ hR, render_opEl _ hQ,
      render_opEl _ hC, s1, s2, s4, s5, List.append_assoc, List.cons_append, List.nil_append, List.append_nil]
  | paren e ih =>
    simp only [CE.ast, CE.full, lay, printExpr, ih hw ha]
    simp only [render_append, render_nil, render_opEl _ hL, render_opEl _ hR, s1, s2,
      List.append_assoc, List.cons_append, List.nil_append, List.append_nil]

end Tengo.Proofs.C20BytesPrint

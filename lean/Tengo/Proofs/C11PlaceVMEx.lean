import Tengo.Proofs.C01BridgeF3VMRun
import Tengo.Proofs.C01BridgeF3VMInst
/-!
C11 placement theorems on `VM.run`: a generic way to INSTANTIATE `CodeRel3` for a concrete fragment machine with at
most one function constant (for the non-vacuity examples of the `…_vm_partial` theorems): `codeOf M consts` is the
byte encoding of `M.main` followed by SUSPEND with the given pool; `codeRel_of` reduces `CodeRel3` to Boolean checks
of the instruction lists and a description of the pool.
-/
set_option linter.unusedVariables false
set_option linter.unusedSimpArgs false
namespace Tengo.Proofs.C11Place
open Tengo.Model Tengo.Model.Spec Tengo.Model.VM Tengo.Proofs.C01Bridge Tengo.Proofs.C01BridgeF3

def fitsB : F3.Ins → Bool
  | .const k | .getg k | .setg k => decide (k < 65536)
  | .binop t => decide (t < 256)
  | .jmpf t | .jmp t | .andjmp t | .orjmp t => decide (t < 4294967296)
  | .getl i | .setl i | .defl i => decide (i < 256)
  | .call n => decide (n < 256)
  | _ => true

def rngB (K n : Nat) : F3.Ins → Bool
  | .const k => decide (k < K)
  | .getg i | .setg i => decide (i < n)
  | _ => true

theorem fits_of {i : F3.Ins} (h : fitsB i = true) : InsFits3 i := by
  cases i <;> simp_all [fitsB, InsFits3]

theorem rng_of {K n : Nat} {i : F3.Ins} (h : rngB K n i = true) : InsRange3 K n i := by
  cases i <;> simp_all [rngB, InsRange3]

def codeOf (M : F3.Mach) (consts : Array VM.Const) : Code :=
  { main := { insts := (encodeIns3 M.main ++ [UInt8.ofNat Opcodes.opSuspend]).toArray, numLocals := 0,
              numParams := 0, varargs := false },
    consts := consts }

theorem codeRel_of {unref : Nat → Option Nat} {cs : Nat → FV unref} (M : F3.Mach) (K n L : Nat)
    (ocf : Option F3.CFn) (ref : Nat → Nat) (consts : Array VM.Const)
    (hfns : ∀ k, M.fns k = if k = L then ocf else none)
    (hcL : ∀ cf, ocf = some cf → consts[L]? = some (.fn (fnOf cf) (ref L)) ∧ (cs L).1 = .cfn (ref L))
    (hvals : ∀ k, k < K → M.fns k = none → consts[k]? = some (.val (cs k).1))
    (hinj : ∀ a b, ref a = ref b → a = b)
    (hun : ∀ r k, unref r = some k → r = ref k)
    (hmain : M.main.all (fun i => fitsB i && rngB K n i) = true)
    (hfn : ∀ cf, ocf = some cf → cf.code.all (fun i => fitsB i && rngB K n i) = true) :
    CodeRel3 M K n (env3 unref cs) Subtype.val ref (codeOf M consts) := by
  have fns_some : ∀ {k cf}, M.fns k = some cf → k = L ∧ ocf = some cf := by
    intro k cf h
    rw [hfns k] at h
    by_cases hk : k = L
    · rw [if_pos hk] at h; exact ⟨hk, h⟩
    · rw [if_neg hk] at h; cases h
  have hall : ∀ fn is, M.code fn = some is → is.all (fun i => fitsB i && rngB K n i) = true := by
    intro fn is h
    cases fn with
    | zero =>
      simp only [F3.Mach.code, Option.some.injEq] at h
      subst h; exact hmain
    | succ k =>
      simp only [F3.Mach.code] at h
      cases hk : M.fns k with
      | none => rw [hk] at h; cases h
      | some cf =>
        rw [hk] at h
        simp only [Option.map_some, Option.some.injEq] at h
        subst h
        exact hfn cf (fns_some hk).2
  refine ⟨rfl, ?_, hvals, hinj, ?_, asFn3_some unref ref hun cs, asFn3_none unref cs, ?_, ?_⟩
  · intro k cf h
    obtain ⟨rfl, ho⟩ := fns_some h
    exact (hcL cf ho).1
  · intro k cf h
    obtain ⟨rfl, ho⟩ := fns_some h
    exact (hcL cf ho).2
  · intro fn is h i hi
    have := List.all_eq_true.mp (hall fn is h) i hi
    simp only [Bool.and_eq_true] at this
    exact fits_of this.1
  · intro fn is h i hi
    have := List.all_eq_true.mp (hall fn is h) i hi
    simp only [Bool.and_eq_true] at this
    exact rng_of this.2

end Tengo.Proofs.C11Place

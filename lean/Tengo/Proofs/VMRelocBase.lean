import Tengo.Proofs.VMCongr
import Tengo.Proofs.VMSafeSimple
set_option linter.unusedSectionVars false
set_option linter.unusedSimpArgs false
namespace Tengo.Model.VM
open Tengo.Model Tengo.Model.Spec Tengo.Model.Opcodes

/-! ### relocation: the same function with its instructions at other offsets

`pm idx p = some q`: the instruction of function `idx` at old offset `p` is the instruction at new
offset `q` (kept instructions of dead-code elimination; the identity for transformations that do not
move code). -/

abbrev PosMap := Nat → Nat → Option Nat

/-- Position map on `v.ip` values (index of the last consumed byte; −1 at function entry). -/
def pmIp (pm : PosMap) (idx : Nat) (ip : Int) : Int :=
  match pm idx (ip + 1).toNat with
  | some q => (q : Int) - 1
  | none => ip

def mapFrame (pm : PosMap) (fr : Frame) : Frame := { fr with ip := pmIp pm fr.fnIdx fr.ip }

def mapCore (pm : PosMap) (c : Core) : Core :=
  { c with cur := mapFrame pm c.cur, callers := c.callers.map (mapFrame pm) }

def mapOut (pm : PosMap) : ExecOut → ExecOut
  | .next c a => .next (mapCore pm c) a
  | .halt c => .halt (mapCore pm c)

/-- Replace the target of a jump result. -/
def retarget (f : Nat → Nat) (o : SimpleOut) : SimpleOut :=
  { o with next := match o.next with | .seq => .seq | .jump t => .jump (f t) }

theorem exJump_retarget (code : Code) (fr : Frame) (g : Nat → Nat) (t a1 op : Nat) (r : Regs) :
    exJump code fr (g t) a1 op r = retarget g <$> exJump code fr t a1 op r := by
  unfold exJump
  simp [retarget]

theorem exJumpFalsy_retarget (code : Code) (fr : Frame) (g : Nat → Nat) (t a1 op : Nat) (r : Regs) :
    exJumpFalsy code fr (g t) a1 op r = retarget g <$> exJumpFalsy code fr t a1 op r := by
  unfold exJumpFalsy
  simp only [map_bind, map_pure, retarget]
  congr 1
  funext _
  congr 1
  funext b
  cases b <;> rfl

theorem exAndJump_retarget (code : Code) (fr : Frame) (g : Nat → Nat) (t a1 op : Nat) (r : Regs) :
    exAndJump code fr (g t) a1 op r = retarget g <$> exAndJump code fr t a1 op r := by
  unfold exAndJump
  simp only [map_bind, map_pure, retarget]
  congr 1
  funext _
  congr 1
  funext b
  cases b <;> simp [retarget]

theorem exOrJump_retarget (code : Code) (fr : Frame) (g : Nat → Nat) (t a1 op : Nat) (r : Regs) :
    exOrJump code fr (g t) a1 op r = retarget g <$> exOrJump code fr t a1 op r := by
  unfold exOrJump
  simp only [map_bind, map_pure, retarget]
  congr 1
  funext _
  congr 1
  funext b
  cases b <;> simp [retarget]

end Tengo.Model.VM

namespace Tengo.Model.VM
open Tengo.Model Tengo.Model.Spec Tengo.Model.Opcodes

macro "seq_walk" : tactic => `(tactic| repeat' (first
  | with_reducible apply PostX_rtE | with_reducible apply PostX_unsupE | with_reducible apply PostX_panicE
  | with_reducible apply PostX_fault
  | (with_reducible apply PostX_bind'; intro _)
  | (with_reducible apply PostX_pure; rfl)
  | split))

section
variable (code : Code) (fr : Frame) (a0 a1 : Nat) (op : Nat) (r : Regs)

theorem exConstant_seq : PostX (exConstant code fr a0 a1 op r) (fun o => o.next = .seq) := by
  unfold exConstant; (try dsimp only); seq_walk

theorem exNull_seq : PostX (exNull code fr a0 a1 op r) (fun o => o.next = .seq) := by
  unfold exNull; (try dsimp only); seq_walk

theorem exTrue_seq : PostX (exTrue code fr a0 a1 op r) (fun o => o.next = .seq) := by
  unfold exTrue; (try dsimp only); seq_walk

theorem exFalse_seq : PostX (exFalse code fr a0 a1 op r) (fun o => o.next = .seq) := by
  unfold exFalse; (try dsimp only); seq_walk

theorem exPop_seq : PostX (exPop code fr a0 a1 op r) (fun o => o.next = .seq) := by
  unfold exPop; (try dsimp only); seq_walk

theorem exBinaryOp_seq : PostX (exBinaryOp code fr a0 a1 op r) (fun o => o.next = .seq) := by
  unfold exBinaryOp; (try dsimp only); seq_walk

theorem exEqual_seq : PostX (exEqual code fr a0 a1 op r) (fun o => o.next = .seq) := by
  unfold exEqual; (try dsimp only); seq_walk

theorem exLNot_seq : PostX (exLNot code fr a0 a1 op r) (fun o => o.next = .seq) := by
  unfold exLNot; (try dsimp only); seq_walk

theorem exBComplement_seq : PostX (exBComplement code fr a0 a1 op r) (fun o => o.next = .seq) := by
  unfold exBComplement; (try dsimp only); seq_walk

theorem exMinus_seq : PostX (exMinus code fr a0 a1 op r) (fun o => o.next = .seq) := by
  unfold exMinus; (try dsimp only); seq_walk

theorem exSetGlobal_seq : PostX (exSetGlobal code fr a0 a1 op r) (fun o => o.next = .seq) := by
  unfold exSetGlobal; (try dsimp only); seq_walk

theorem exGetGlobal_seq : PostX (exGetGlobal code fr a0 a1 op r) (fun o => o.next = .seq) := by
  unfold exGetGlobal; (try dsimp only); seq_walk

theorem exSetSelGlobal_seq : PostX (exSetSelGlobal code fr a0 a1 op r) (fun o => o.next = .seq) := by
  unfold exSetSelGlobal; (try dsimp only); seq_walk

theorem exArray_seq : PostX (exArray code fr a0 a1 op r) (fun o => o.next = .seq) := by
  unfold exArray; (try dsimp only); seq_walk

theorem exMap_seq : PostX (exMap code fr a0 a1 op r) (fun o => o.next = .seq) := by
  unfold exMap; (try dsimp only); seq_walk

theorem exError_seq : PostX (exError code fr a0 a1 op r) (fun o => o.next = .seq) := by
  unfold exError; (try dsimp only); seq_walk

theorem exImmutable_seq : PostX (exImmutable code fr a0 a1 op r) (fun o => o.next = .seq) := by
  unfold exImmutable; (try dsimp only); seq_walk

theorem exIndex_seq : PostX (exIndex code fr a0 a1 op r) (fun o => o.next = .seq) := by
  unfold exIndex; (try dsimp only); seq_walk

theorem exSliceIndex_seq : PostX (exSliceIndex code fr a0 a1 op r) (fun o => o.next = .seq) := by
  unfold exSliceIndex; (try dsimp only); seq_walk

theorem exDefineLocal_seq : PostX (exDefineLocal code fr a0 a1 op r) (fun o => o.next = .seq) := by
  unfold exDefineLocal; (try dsimp only); seq_walk

theorem exSetLocal_seq : PostX (exSetLocal code fr a0 a1 op r) (fun o => o.next = .seq) := by
  unfold exSetLocal; (try dsimp only); seq_walk

theorem exSetSelLocal_seq : PostX (exSetSelLocal code fr a0 a1 op r) (fun o => o.next = .seq) := by
  unfold exSetSelLocal; (try dsimp only); seq_walk

theorem exGetLocal_seq : PostX (exGetLocal code fr a0 a1 op r) (fun o => o.next = .seq) := by
  unfold exGetLocal; (try dsimp only); seq_walk

theorem exGetBuiltin_seq : PostX (exGetBuiltin code fr a0 a1 op r) (fun o => o.next = .seq) := by
  unfold exGetBuiltin; (try dsimp only); seq_walk

theorem exClosure_seq : PostX (exClosure code fr a0 a1 op r) (fun o => o.next = .seq) := by
  unfold exClosure; (try dsimp only); seq_walk

theorem exGetFreePtr_seq : PostX (exGetFreePtr code fr a0 a1 op r) (fun o => o.next = .seq) := by
  unfold exGetFreePtr; (try dsimp only); seq_walk

theorem exGetFree_seq : PostX (exGetFree code fr a0 a1 op r) (fun o => o.next = .seq) := by
  unfold exGetFree; (try dsimp only); seq_walk

theorem exSetFree_seq : PostX (exSetFree code fr a0 a1 op r) (fun o => o.next = .seq) := by
  unfold exSetFree; (try dsimp only); seq_walk

theorem exGetLocalPtr_seq : PostX (exGetLocalPtr code fr a0 a1 op r) (fun o => o.next = .seq) := by
  unfold exGetLocalPtr; (try dsimp only); seq_walk

theorem exSetSelFree_seq : PostX (exSetSelFree code fr a0 a1 op r) (fun o => o.next = .seq) := by
  unfold exSetSelFree; (try dsimp only); seq_walk

theorem exIteratorInit_seq : PostX (exIteratorInit code fr a0 a1 op r) (fun o => o.next = .seq) := by
  unfold exIteratorInit; (try dsimp only); seq_walk

theorem exIteratorNext_seq : PostX (exIteratorNext code fr a0 a1 op r) (fun o => o.next = .seq) := by
  unfold exIteratorNext; (try dsimp only); seq_walk

theorem exIteratorKey_seq : PostX (exIteratorKey code fr a0 a1 op r) (fun o => o.next = .seq) := by
  unfold exIteratorKey; (try dsimp only); seq_walk

end
end Tengo.Model.VM

namespace Tengo.Model.VM
open Tengo.Model Tengo.Model.Spec Tengo.Model.Opcodes

/-- The four opcodes whose first operand is a jump target. -/
def jumpOps : List Nat := [opJump, opJumpFalsy, opAndJump, opOrJump]

/-- **Only the jump instructions jump.** -/
theorem execSimple_seq (code : Code) (fr : Frame) (a0 a1 : Nat) (op : Nat) (r : Regs)
    (hop : op ∉ jumpOps) : PostX (execSimple code fr a0 a1 op r) (fun o => o.next = .seq) := by
  by_cases hConstant : op = opConstant
  · subst hConstant; rw [execSimple_Constant]; exact exConstant_seq code fr a0 a1 _ r
  by_cases hNull : op = opNull
  · subst hNull; rw [execSimple_Null]; exact exNull_seq code fr a0 a1 _ r
  by_cases hTrue : op = opTrue
  · subst hTrue; rw [execSimple_True]; exact exTrue_seq code fr a0 a1 _ r
  by_cases hFalse : op = opFalse
  · subst hFalse; rw [execSimple_False]; exact exFalse_seq code fr a0 a1 _ r
  by_cases hPop : op = opPop
  · subst hPop; rw [execSimple_Pop]; exact exPop_seq code fr a0 a1 _ r
  by_cases hBinaryOp : op = opBinaryOp
  · subst hBinaryOp; rw [execSimple_BinaryOp]; exact exBinaryOp_seq code fr a0 a1 _ r
  by_cases hEqual : op = opEqual
  · subst hEqual; rw [execSimple_Equal]; exact exEqual_seq code fr a0 a1 _ r
  by_cases hNotEqual : op = opNotEqual
  · subst hNotEqual; rw [execSimple_NotEqual]; exact exEqual_seq code fr a0 a1 _ r
  by_cases hLNot : op = opLNot
  · subst hLNot; rw [execSimple_LNot]; exact exLNot_seq code fr a0 a1 _ r
  by_cases hBComplement : op = opBComplement
  · subst hBComplement; rw [execSimple_BComplement]; exact exBComplement_seq code fr a0 a1 _ r
  by_cases hMinus : op = opMinus
  · subst hMinus; rw [execSimple_Minus]; exact exMinus_seq code fr a0 a1 _ r
  by_cases hJumpFalsy : op = opJumpFalsy
  · subst hJumpFalsy; exact absurd (by decide) hop
  by_cases hAndJump : op = opAndJump
  · subst hAndJump; exact absurd (by decide) hop
  by_cases hOrJump : op = opOrJump
  · subst hOrJump; exact absurd (by decide) hop
  by_cases hJump : op = opJump
  · subst hJump; exact absurd (by decide) hop
  by_cases hSetGlobal : op = opSetGlobal
  · subst hSetGlobal; rw [execSimple_SetGlobal]; exact exSetGlobal_seq code fr a0 a1 _ r
  by_cases hGetGlobal : op = opGetGlobal
  · subst hGetGlobal; rw [execSimple_GetGlobal]; exact exGetGlobal_seq code fr a0 a1 _ r
  by_cases hSetSelGlobal : op = opSetSelGlobal
  · subst hSetSelGlobal; rw [execSimple_SetSelGlobal]; exact exSetSelGlobal_seq code fr a0 a1 _ r
  by_cases hArray : op = opArray
  · subst hArray; rw [execSimple_Array]; exact exArray_seq code fr a0 a1 _ r
  by_cases hMap : op = opMap
  · subst hMap; rw [execSimple_Map]; exact exMap_seq code fr a0 a1 _ r
  by_cases hError : op = opError
  · subst hError; rw [execSimple_Error]; exact exError_seq code fr a0 a1 _ r
  by_cases hImmutable : op = opImmutable
  · subst hImmutable; rw [execSimple_Immutable]; exact exImmutable_seq code fr a0 a1 _ r
  by_cases hIndex : op = opIndex
  · subst hIndex; rw [execSimple_Index]; exact exIndex_seq code fr a0 a1 _ r
  by_cases hSliceIndex : op = opSliceIndex
  · subst hSliceIndex; rw [execSimple_SliceIndex]; exact exSliceIndex_seq code fr a0 a1 _ r
  by_cases hDefineLocal : op = opDefineLocal
  · subst hDefineLocal; rw [execSimple_DefineLocal]; exact exDefineLocal_seq code fr a0 a1 _ r
  by_cases hSetLocal : op = opSetLocal
  · subst hSetLocal; rw [execSimple_SetLocal]; exact exSetLocal_seq code fr a0 a1 _ r
  by_cases hSetSelLocal : op = opSetSelLocal
  · subst hSetSelLocal; rw [execSimple_SetSelLocal]; exact exSetSelLocal_seq code fr a0 a1 _ r
  by_cases hGetLocal : op = opGetLocal
  · subst hGetLocal; rw [execSimple_GetLocal]; exact exGetLocal_seq code fr a0 a1 _ r
  by_cases hGetBuiltin : op = opGetBuiltin
  · subst hGetBuiltin; rw [execSimple_GetBuiltin]; exact exGetBuiltin_seq code fr a0 a1 _ r
  by_cases hClosure : op = opClosure
  · subst hClosure; rw [execSimple_Closure]; exact exClosure_seq code fr a0 a1 _ r
  by_cases hGetFreePtr : op = opGetFreePtr
  · subst hGetFreePtr; rw [execSimple_GetFreePtr]; exact exGetFreePtr_seq code fr a0 a1 _ r
  by_cases hGetFree : op = opGetFree
  · subst hGetFree; rw [execSimple_GetFree]; exact exGetFree_seq code fr a0 a1 _ r
  by_cases hSetFree : op = opSetFree
  · subst hSetFree; rw [execSimple_SetFree]; exact exSetFree_seq code fr a0 a1 _ r
  by_cases hGetLocalPtr : op = opGetLocalPtr
  · subst hGetLocalPtr; rw [execSimple_GetLocalPtr]; exact exGetLocalPtr_seq code fr a0 a1 _ r
  by_cases hSetSelFree : op = opSetSelFree
  · subst hSetSelFree; rw [execSimple_SetSelFree]; exact exSetSelFree_seq code fr a0 a1 _ r
  by_cases hIteratorInit : op = opIteratorInit
  · subst hIteratorInit; rw [execSimple_IteratorInit]; exact exIteratorInit_seq code fr a0 a1 _ r
  by_cases hIteratorNext : op = opIteratorNext
  · subst hIteratorNext; rw [execSimple_IteratorNext]; exact exIteratorNext_seq code fr a0 a1 _ r
  by_cases hIteratorKey : op = opIteratorKey
  · subst hIteratorKey; rw [execSimple_IteratorKey]; exact exIteratorKey_seq code fr a0 a1 _ r
  by_cases hIteratorValue : op = opIteratorValue
  · subst hIteratorValue; rw [execSimple_IteratorValue]; exact exIteratorKey_seq code fr a0 a1 _ r
  have : execSimple code fr a0 a1 op r = fault (.unknownOpcode op) := by
    unfold execSimple
    simp [*]
  rw [this]
  exact PostX_fault _

/-- Running a mapped computation: the map reaches the value, nothing else. -/
theorem XM_run_map {β γ} (F : β → γ) (m : XM β) (g : GSt) (s : St) :
    ((F <$> m).run.run g).run s =
      match (m.run.run g).run s with
      | .error e => .error e
      | .ok ((r, g'), s') => .ok ((r.map F, g'), s') := by
  simp only [ExceptT.run_map, StateT.run_map]
  cases h : (m.run.run g).run s with
  | error e => simp [h, Functor.map, Except.map]
  | ok x =>
    obtain ⟨⟨r, g'⟩, s'⟩ := x
    simp [h, Functor.map, Except.map]

/-- Mapping a result is invisible when every result is a fixed point of the map. -/
theorem XM_map_id_of_post {β} {m : XM β} {F : β → β} (h : PostX m (fun v => F v = v)) : F <$> m = m := by
  apply ExceptT.ext
  funext g
  apply funext
  intro s
  have := XM_run_map F m g s
  show ((F <$> m).run.run g).run s = (m.run.run g).run s
  rw [this]
  cases hr : (m.run.run g).run s with
  | error e => rfl
  | ok x =>
    obtain ⟨⟨r, g'⟩, s'⟩ := x
    dsimp only
    cases r with
    | error ft => rfl
    | ok v =>
      have hv := h g s (.ok v) g' s' hr v rfl
      simp [Except.map, hv]

end Tengo.Model.VM

namespace Tengo.Model.VM
open Tengo.Model Tengo.Model.Spec Tengo.Model.Opcodes

/-- Bind congruence that only looks at the values the first computation can return. -/
theorem XM_bind_congr_post {α β} {m : XM α} {k1 k2 : α → XM β} {Q : α → Prop} (hm : PostX m Q)
    (hk : ∀ a, Q a → k1 a = k2 a) : m >>= k1 = m >>= k2 := by
  apply ExceptT.ext
  funext g
  apply funext
  intro s
  show ((m >>= k1).run.run g).run s = ((m >>= k2).run.run g).run s
  have e1 : (m >>= k1).run = m.run >>= ExceptT.bindCont k1 := rfl
  have e2 : (m >>= k2).run = m.run >>= ExceptT.bindCont k2 := rfl
  rw [e1, e2]
  simp only [StateT.run_bind]
  cases hr : (m.run.run g).run s with
  | error e => simp [bind, Except.bind, hr]
  | ok x =>
    obtain ⟨⟨r, g'⟩, s'⟩ := x
    cases r with
    | error ft => simp [bind, Except.bind, hr, ExceptT.bindCont]
    | ok v =>
      have hq := hm g s (.ok v) g' s' hr v rfl
      simp [bind, Except.bind, hr, ExceptT.bindCont, hk v hq]

end Tengo.Model.VM

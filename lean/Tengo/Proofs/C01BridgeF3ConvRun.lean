import Tengo.Proofs.C01BridgeF3ConvAll
import Tengo.Proofs.C01BridgeF3ConvMain
/-!
C01 bridge for fragment F3, converse direction, `runProgram`: for EVERY fuel `F` of the reference interpreter, the
run of the embedded program ends in `fuel` / `excluded`, or the fragment's evaluator `F3.exec` terminates with every
fuel `f ≥ F` — never `out` — and the interpreter's answer is the related one (`runProgram_tri3`).
-/
set_option linter.unusedVariables false
set_option linter.unusedSimpArgs false
namespace Tengo.Proofs.C01BridgeF3Conv
open Tengo.Model Tengo.Model.Spec
open Tengo.Model.F3 (Ex Exs Stm Stms FnDef Prog Locals ERes EsRes Res updL bindArgs)
open Tengo.Proofs.C01Bridge
open Tengo.Proofs.C01BridgeF3 (DataRel NotCallable)
open Tengo.Proofs.C01BridgeF3Comp
open Tengo.Proofs.C01F3Opt (EnvOk)
open Tengo.Proofs.C01BridgeF3Spec

variable {V : Type}

/-- The interpreter's answer against the result of `F3.exec`: as in `runProgram_fragment3`, and `out` is impossible. -/
def ProgRel (E : F3.Env V) (val : V → Value) (P : Prog) (names lnames : Nat → String) (ctab : Nat → F0.Const) (n : Nat)
    (o : Spec.Outcome) : F3.PRes V → Prop
  | .done g' => ∃ gs st, o = .ok gs st ∧ gs.map Prod.fst = (List.range n).map names ∧
      ∀ i, i < n → ∃ w, gs[i]? = some (names i, w) ∧ ValRel E val P names lnames ctab st (g' i) w
  | .err => ∃ err, err ≠ Err.fuel ∧ o = errOutcome err
  | .out => False
  | .bad => True

/-- **Converse of `runProgram_fragment3`, trichotomy form.** Same hypotheses except that there is NO bound on any
fuel: with every fuel `F`, the reference interpreter on the embedded program answers `fuel`, or `excluded`, or — for
every fuel `f ≥ F` — `F3.exec E P f g` is not `out` and the interpreter's answer is the one related to it. -/
theorem runProgram_tri3 (E : F3.Env V) (val : V → Value) (refs : Nat → Nat)
    (names lnames : Nat → String) (ctab : Nat → F0.Const) (n : Nat) (P : Prog)
    (hN : NamesOK names lnames n) (hb : ∀ i, lnames i ∉ Spec.builtinNames)
    (hs : Tengo.Proofs.C01F3Opt.SrcOk P n) (hbud : budMain P P.main ≤ 4000)
    (hD : DataRel E.S val) (hE : EnvOk P ctab E val refs)
    (hvals : ∀ v, Scalar (val v) = true ∨ ∃ r, val v = .cfn r)
    (hcs : ∀ k, P.fns k = none → val (E.cs k) = F0.constValue (ctab k))
    (F : Nat) (g : Nat → V) (hg0 : ∀ i, i < n → Scalar (val (g i)) = true) (initHeap : St) :
    runProgram F (inputs3 names val n g) initHeap (toAstProg names lnames ctab P) = .fuel ∨
    (∃ why, runProgram F (inputs3 names val n g) initHeap (toAstProg names lnames ctab P) = .excluded why) ∨
    ∀ f, F ≤ f →
      ProgRel E val P names lnames ctab n
        (runProgram F (inputs3 names val n g) initHeap (toAstProg names lnames ctab P)) (F3.exec E P f g) := by
  have hin : inputs3 names val n g = inputsV names n (scalarOf val g) := by
    unfold inputs3 inputsV
    apply List.map_congr_left
    intro i hi
    have hi' : i < n := by simpa using hi
    simp only [scalarOf, dif_pos (hg0 i hi')]
  rw [hin]
  have hc : checkProgram ((inputsV names n (scalarOf val g)).map Prod.fst) (toAstProg names lnames ctab P) = none := by
    have : (inputsV names n (scalarOf val g)).map Prod.fst = inputsOf names n := by
      simp [inputsV, inputsOf, List.map_map, Function.comp_def]
    rw [this]
    exact checkProgram_fragment3 names lnames ctab n P hN hb hs.wf hbud
  rw [runProgram_eq F _ initHeap _ hc]
  have h0 : InInv names (scalarOf val g) initHeap.heap.size 0 { vars := [] } initHeap :=
    ⟨rfl, rfl, fun i hi => by omega⟩
  obtain ⟨fr, σ, hin0, hinv⟩ := inputs_loop names (scalarOf val g) initHeap.heap.size {} n 0 _ _ h0
  simp only [Nat.zero_add] at hinv
  have hin' : EOk (forIn (inputsV names n (scalarOf val g)) ({ vars := [] } : Spec.Frame) inputStep) {} initHeap fr σ := by
    simpa [inputsV, List.range_eq_range'] using hin0
  let C : Cx V := Cx.mk E val refs names lnames ctab n P (fun i => initHeap.heap.size + i) [fr]
  have hwfns : ∀ k fd, P.fns k = some fd → ∃ k0, wfFn (isFnOf P) n k0 fd = true := by
    intro k fd hfd
    obtain ⟨i, hm⟩ := hs.decl k fd hfd
    obtain ⟨k', hwf, _⟩ := Tengo.Proofs.C01F3Opt.wfMain_fn P n P.main 0 (nlitsMain P P.main) hs.wf (by omega) i k fd
      hm hfd
    exact ⟨k', hwf⟩
  have hy : Hyp C := Hyp.mk hD hE hN hvals hcs (fun i j _ _ h => by simpa [C] using h) (hinv.env hN.ginj) hwfns
  have hg : GInv C σ g := by
    intro i hi
    refine ⟨val (g i), false, ?_, VR.scalar (hg0 i hi)⟩
    have := hinv.cell i hi
    simp only [scalarOf, dif_pos (hg0 i hi)] at this
    exact this
  have hvars : fr.vars.reverse = (List.range n).map (fun i => (names i, initHeap.heap.size + i)) := by
    rw [hinv.vars, List.reverse_reverse]
  have hmain := fun f (hf : F ≤ f) =>
    mainConv hy (all_conv3 hy) F P.main { env := [fr] } {} σ g (fun _ => none) 0 0 f hf rfl hg hs.wf
  -- the interpreter's own verdict does not depend on `f`
  by_cases hfz : Fz (execStmts F { env := [fr] } (toAstMain C.names C.lnames C.ctab C.P P.main) 0) {} σ
  · rcases hfz with hfu | ⟨why, hex⟩
    · left
      have : EErr (progOf F (inputsV names n (scalarOf val g)) (toAstProg names lnames ctab P)) {} initHeap Err.fuel := by
        unfold progOf
        exact EErr.bind_right hin' (EErr.bind_left hfu)
      unfold EErr at this
      rw [this]; rfl
    · right; left
      refine ⟨why, ?_⟩
      have : EErr (progOf F (inputsV names n (scalarOf val g)) (toAstProg names lnames ctab P)) {} initHeap
          (Err.excluded why) := by
        unfold progOf
        exact EErr.bind_right hin' (EErr.bind_left hex)
      unfold EErr at this
      rw [this]; rfl
  · right; right
    intro f hf
    have hsim : CM C (execStmts F { env := [fr] } (toAstMain C.names C.lnames C.ctab C.P P.main) 0) {} σ
        (F3.execSs E P f P.main g (fun _ => none)) := by
      rcases hmain f hf with h | h
      · exact absurd h hfz
      · exact h
    unfold F3.exec
    cases hss : F3.execSs E P f P.main g (fun _ => none) with
    | done g1 l1 =>
      rw [hss] at hsim
      obtain ⟨σ', hok, hg1⟩ := hsim
      obtain ⟨out, hout, hfst, hall⟩ := readOut_all3 hg1 {} (List.range n) (fun i hi => by simpa using hi)
      refine ⟨out, σ', ?_, hfst, ?_⟩
      · have : EOk (progOf F (inputsV names n (scalarOf val g)) (toAstProg names lnames ctab P)) {} initHeap out σ' := by
          unfold progOf
          refine EOk.bind hin' (EOk.bind hok ?_)
          show EOk (match [fr].getLast? with
            | some f => f.vars.reverse.mapM readOut
            | none => pure []) {} σ' out σ'
          simp only [List.getLast?_singleton, hvars]
          exact hout
        unfold EOk at this
        rw [this]; rfl
      · intro i hi
        obtain ⟨w, h1, h2⟩ := hall i i (by simp [hi])
        exact ⟨w, h1, h2.valRel⟩
    | err =>
      rw [hss] at hsim
      obtain ⟨err, hne, herr⟩ := hsim
      refine ⟨err, hne, ?_⟩
      have : EErr (progOf F (inputsV names n (scalarOf val g)) (toAstProg names lnames ctab P)) {} initHeap err := by
        unfold progOf
        exact EErr.bind_right hin' (EErr.bind_left herr)
      unfold EErr at this
      rw [this]
      cases err <;> first | rfl | exact absurd rfl hne
    | out => rw [hss] at hsim; exact hsim.elim
    | brk _ _ => exact True.intro
    | cont _ _ => exact True.intro
    | ret _ _ => exact True.intro
    | bad => exact True.intro

end Tengo.Proofs.C01BridgeF3Conv

import Tengo.Proofs.C01BridgeSem
import Tengo.Proofs.C01BridgeVMBase
import Tengo.Proofs.C01BridgeDefs
import Tengo.Proofs.C01BridgeBounded
/-!
C01 bridge, VM side, layer 1: from the fragment's `fetch` to the bytes `VM.fetch` decodes (`fetch_split`,
`fetch_enc`, `fetchedOf`), the state correspondence (`StackRel`, `GlobRel`, `Rel`) with its push / pop /
overwrite lemmas, and what each of the 17 opcodes of the fragment does in the VM model (`xok_ex…`,
`xfail_ex…`).
-/
set_option linter.unusedVariables false
set_option linter.unusedSimpArgs false
namespace Tengo.Proofs.C01Bridge
open Tengo.Model Tengo.Model.Spec Tengo.Model.VM Tengo.Model.F0

/-! ### from the fragment's `fetch` to bytes -/

theorem fetch_split : ∀ (is : List Ins) (p : Nat) (i : Ins), F0.fetch is p = some i →
    ∃ pre post, is = pre ++ i :: post ∧ csize pre = p
  | [], p, i, h => by simp [F0.fetch] at h
  | x :: xs, 0, i, h => by
    simp only [F0.fetch, Option.some.injEq] at h
    subst h
    exact ⟨[], xs, rfl, rfl⟩
  | x :: xs, p + 1, i, h => by
    simp only [F0.fetch] at h
    split at h
    · rename_i hge
      obtain ⟨pre, post, he, hc⟩ := fetch_split xs _ i h
      refine ⟨x :: pre, post, by rw [he]; rfl, ?_⟩
      simp only [csize, hc]
      omega
    · cases h

theorem byteAt_mid (f : Fn) (pre mid post : List UInt8) (hf : f.insts = (pre ++ mid ++ post).toArray)
    (k : Nat) (b : UInt8) (hk : mid[k]? = some b) : byteAt f ((pre.length : Int) + (k : Int)) = b.toNat := by
  unfold byteAt
  have hnn : ¬ ((pre.length : Int) + (k : Int) < 0) := by omega
  rw [if_neg hnn]
  have : ((pre.length : Int) + (k : Int)).toNat = pre.length + k := by omega
  rw [this, hf]
  have hlt : k < mid.length := by
    rcases Nat.lt_or_ge k mid.length with h | h
    · exact h
    · rw [List.getElem?_eq_none h] at hk; cases hk
  simp only [Array.getD_eq_getD_getElem?, List.getElem?_toArray]
  rw [List.append_assoc, List.getElem?_append_right (by omega)]
  simp only [Nat.add_sub_cancel_left]
  rw [List.getElem?_append_left hlt, hk]
  rfl

section bytes
variable (f : Fn) (pre mid post : List UInt8) (hf : f.insts = (pre ++ mid ++ post).toArray)
include hf

theorem byteAt0 (b : UInt8) (hk : mid[0]? = some b) : byteAt f (pre.length : Int) = b.toNat := by
  simpa using byteAt_mid f pre mid post hf 0 b hk
theorem byteAt1 (b : UInt8) (hk : mid[1]? = some b) : byteAt f ((pre.length : Int) + 1) = b.toNat := by
  simpa using byteAt_mid f pre mid post hf 1 b hk
theorem byteAt2 (b : UInt8) (hk : mid[2]? = some b) : byteAt f ((pre.length : Int) + 2) = b.toNat := by
  simpa using byteAt_mid f pre mid post hf 2 b hk
theorem byteAt3 (b : UInt8) (hk : mid[3]? = some b) : byteAt f ((pre.length : Int) + 3) = b.toNat := by
  simpa using byteAt_mid f pre mid post hf 3 b hk
theorem byteAt4 (b : UInt8) (hk : mid[4]? = some b) : byteAt f ((pre.length : Int) + 4) = b.toNat := by
  simpa using byteAt_mid f pre mid post hf 4 b hk
end bytes

/-- What `VM.fetch` decodes from the bytes of an instruction of the fragment. -/
def fetchedOf : Ins → Fetched
  | .const k => { op := 0, a0 := k, size := 3 }
  | .getg i => { op := 22, a0 := i, size := 3 }
  | .setg i => { op := 23, a0 := i, size := 3 }
  | .binop t => { op := 40, a0 := t, size := 2 }
  | .eql => { op := 5 } | .neq => { op := 6 } | .minus => { op := 7 } | .bcompl => { op := 1 }
  | .lnot => { op := 8 } | .tru => { op := 3 } | .fls => { op := 4 } | .null => { op := 13 } | .pop => { op := 2 }
  | .jmpf t => { op := 9, a0 := t, size := 5 }
  | .jmp t => { op := 12, a0 := t, size := 5 }
  | .andjmp t => { op := 10, a0 := t, size := 5 }
  | .orjmp t => { op := 11, a0 := t, size := 5 }

/-- The operands fit their encoded width. -/
def InsFits : Ins → Prop
  | .const k | .getg k | .setg k => k < 65536
  | .binop t => t < 256
  | .jmpf t | .jmp t | .andjmp t | .orjmp t => t < 4294967296
  | _ => True

theorem toNat_ofNat_mod (n : Nat) : (UInt8.ofNat (n % 256)).toNat = n % 256 := by
  simp [UInt8.toNat_ofNat']

theorem fetch_enc (f : Fn) (pre post : List UInt8) (i : Ins) (hfit : InsFits i)
    (hf : f.insts = (pre ++ encI i ++ post).toArray) : VM.fetch f (pre.length : Int) = fetchedOf i := by
  have b0 := byteAt0 f pre (encI i) post hf
  have b1 := byteAt1 f pre (encI i) post hf
  have b2 := byteAt2 f pre (encI i) post hf
  have b3 := byteAt3 f pre (encI i) post hf
  have b4 := byteAt4 f pre (encI i) post hf
  cases i <;> simp only [encI, be2, be4, InsFits] at * <;>
    simp only [VM.fetch, op16, op32, b0 _ rfl, shape, fetchedOf] <;>
    (try simp only [b1 _ rfl]) <;> (try simp only [b2 _ rfl]) <;> (try simp only [b3 _ rfl, b4 _ rfl]) <;>
    simp [UInt8.toNat_ofNat'] <;> omega


/-! ### the state correspondence -/

/-- The fragment's stack (top first) is `Regs.stack[0 .. sp)` (top last). -/
def StackRel (st : List SV) (r : Regs) : Prop :=
  r.sp = st.length ∧ r.stack.size = stackSize ∧ st.length ≤ stackSize ∧
    ∀ i, i < st.length → getSlot r (st.length - 1 - i) = ((st[i]?).map Subtype.val).getD .undef

/-- The fragment's globals are `Regs.globals` (`n` slots). -/
def GlobRel (n : Nat) (g : Nat → SV) (r : Regs) : Prop :=
  r.globals.size = n ∧ ∀ i, i < n → r.globals.getD i .undef = (g i).1

/-- State of the fragment's machine ↔ state of the VM model running the main function. -/
structure Rel (n : Nat) (s : F0.St SV) (c : Core) : Prop where
  fn : c.cur.fnIdx = 0
  ip : c.cur.ip + 1 = (s.ip : Int)
  stk : StackRel s.stack c.regs
  glb : GlobRel n s.g c.regs

theorem getSlot_set (r : Regs) (i j : Nat) (v : Value) (sp : Nat) (gl : Array Value) (fo : Array FnObj) :
    getSlot { stack := r.stack.setIfInBounds i v, sp := sp, globals := gl, fobjs := fo } j =
      if i = j ∧ i < r.stack.size then v else getSlot r j := by
  simp only [getSlot, Array.getD_eq_getD_getElem?, Array.getElem?_setIfInBounds]
  by_cases hij : i = j
  · subst hij
    by_cases hlt : i < r.stack.size
    · simp [hlt]
    · simp [hlt]
  · simp [hij]

theorem StackRel.push {st : List SV} {r : Regs} (h : StackRel st r) (v : SV) (hlt : st.length < stackSize) :
    StackRel (v :: st) { r with stack := r.stack.setIfInBounds r.sp v.1, sp := r.sp + 1 } := by
  obtain ⟨hsp, hsz, hle, hs⟩ := h
  refine ⟨by simp [hsp], by simpa using hsz, by simp only [List.length_cons]; omega, ?_⟩
  intro i hi
  rw [getSlot_set]
  cases i with
  | zero => simp [hsp, hsz, hlt]
  | succ i =>
    have hi' : i < st.length := by simpa using hi
    have : ¬ (r.sp = (v :: st).length - 1 - (i + 1) ∧ r.sp < r.stack.size) := by
      simp only [List.length_cons]; omega
    rw [if_neg this]
    have := hs i hi'
    simp only [List.length_cons, List.getElem?_cons_succ]
    rw [← this]
    congr 1
    omega

theorem StackRel.top {st : List SV} {r : Regs} {v : SV} (h : StackRel (v :: st) r) :
    getSlot r (r.sp - 1) = v.1 := by
  obtain ⟨hsp, hsz, hle, hs⟩ := h
  have := hs 0 (by simp)
  simpa [hsp] using this

theorem StackRel.second {st : List SV} {r : Regs} {v w : SV} (h : StackRel (v :: w :: st) r) :
    getSlot r (r.sp - 2) = w.1 := by
  obtain ⟨hsp, hsz, hle, hs⟩ := h
  have := hs 1 (by simp)
  simpa [hsp] using this

theorem StackRel.pop {st : List SV} {r : Regs} {v : SV} (h : StackRel (v :: st) r) :
    StackRel st { r with sp := r.sp - 1 } := by
  obtain ⟨hsp, hsz, hle, hs⟩ := h
  refine ⟨by simp [hsp], hsz, by simp only [List.length_cons] at hle; omega, ?_⟩
  intro i hi
  have := hs (i + 1) (by simpa using hi)
  simp only [List.length_cons, List.getElem?_cons_succ] at this
  rw [← this]
  show getSlot r _ = getSlot r _
  congr 1
  omega

/-- Replace the top of the stack. -/
theorem StackRel.setTop {st : List SV} {r : Regs} {a : SV} (h : StackRel (a :: st) r) (v : SV) :
    StackRel (v :: st) { r with stack := r.stack.setIfInBounds (r.sp - 1) v.1 } := by
  obtain ⟨hsp, hsz, hle, hs⟩ := h
  refine ⟨hsp, by simpa using hsz, hle, ?_⟩
  intro i hi
  rw [getSlot_set]
  simp only [List.length_cons] at hsp hle hi
  cases i with
  | zero =>
    have : r.sp - 1 = (v :: st).length - 1 - 0 ∧ r.sp - 1 < r.stack.size := by
      simp only [List.length_cons]; rw [hsz]; constructor <;> omega
    rw [if_pos this]; rfl
  | succ i =>
    have := hs (i + 1) (by simpa using hi)
    have hne : ¬ (r.sp - 1 = (v :: st).length - 1 - (i + 1) ∧ r.sp - 1 < r.stack.size) := by
      simp only [List.length_cons]; omega
    rw [if_neg hne]
    simpa using this

/-- Pop two, push one (binary operators): the result goes to slot `sp - 2`. -/
theorem StackRel.binary {st : List SV} {r : Regs} {a b : SV} (h : StackRel (b :: a :: st) r) (v : SV) :
    StackRel (v :: st)
      { stack := r.stack.setIfInBounds (r.sp - 2) v.1, sp := r.sp - 1, globals := r.globals, fobjs := r.fobjs } := by
  have h1 : StackRel (a :: st) { r with sp := r.sp - 1 } := h.pop
  have h2 := h1.setTop v
  exact h2


/-! ### the opcodes of the fragment, one by one -/

def pushR (r : Regs) (v : Value) : Regs := { r with stack := r.stack.setIfInBounds r.sp v, sp := r.sp + 1 }

section ops
variable (code : Code) (fr : VM.Frame) (a0 a1 op : Nat) (r : Regs) (g : GSt) (h : St)

theorem xok_exConstant (v : Value) (hc : code.consts[a0]? = some (.val v)) (hlt : r.sp < stackSize) :
    XOk (exConstant code fr a0 a1 op r) g h { regs := pushR r v, next := .seq } := by
  unfold exConstant
  simp only [hc]
  exact XOk.bind (XOk.push r v g h hlt) (XOk.pure _ g h)

theorem xok_exNull (hlt : r.sp < stackSize) :
    XOk (exNull code fr a0 a1 op r) g h { regs := pushR r .undef, next := .seq } :=
  XOk.bind (XOk.push r .undef g h hlt) (XOk.pure _ g h)

theorem xok_exTrue (hlt : r.sp < stackSize) :
    XOk (exTrue code fr a0 a1 op r) g h { regs := pushR r (.bool true), next := .seq } :=
  XOk.bind (XOk.push r (.bool true) g h hlt) (XOk.pure _ g h)

theorem xok_exFalse (hlt : r.sp < stackSize) :
    XOk (exFalse code fr a0 a1 op r) g h { regs := pushR r (.bool false), next := .seq } :=
  XOk.bind (XOk.push r (.bool false) g h hlt) (XOk.pure _ g h)

theorem xok_exPop (hsp : 1 ≤ r.sp) :
    XOk (exPop code fr a0 a1 op r) g h { regs := { r with sp := r.sp - 1 }, next := .seq } :=
  XOk.bind (XOk.need g h hsp) (XOk.pure _ g h)

theorem xok_exBinaryOp (v : Value) (hsp : 2 ≤ r.sp) (hle : r.sp ≤ stackSize)
    (hv : binaryOp (tokOfNum a0) (getSlot r (r.sp - 2)) (getSlot r (r.sp - 1)) h = .ok (v, h)) :
    XOk (exBinaryOp code fr a0 a1 op r) g h
      { regs := { stack := r.stack.setIfInBounds (r.sp - 2) v, sp := r.sp - 1, globals := r.globals, fobjs := r.fobjs },
        next := .seq, alloc := true } :=
  XOk.bind (XOk.need g h hsp) (XOk.bind (XOk.ofM hv)
    (XOk.bind (XOk.setSlot r (r.sp - 2) v g h (by omega)) (XOk.pure _ g h)))

theorem xfail_exBinaryOp (e : Err) (hsp : 2 ≤ r.sp)
    (hv : binaryOp (tokOfNum a0) (getSlot r (r.sp - 2)) (getSlot r (r.sp - 1)) h = .error e) :
    XFail (exBinaryOp code fr a0 a1 op r) g h e :=
  XFail.bind_right (XOk.need g h hsp) (XFail.bind_left (XFail.ofM hv))

theorem xok_exEqual (e : Bool) (hsp : 2 ≤ r.sp) (hle : r.sp ≤ stackSize)
    (hv : equalsV 64 (getSlot r (r.sp - 2)) (getSlot r (r.sp - 1)) h = .ok (e, h)) :
    XOk (exEqual code fr a0 a1 op r) g h
      { regs := { stack := r.stack.setIfInBounds (r.sp - 2) (.bool (if op == Opcodes.opEqual then e else !e)),
                  sp := r.sp - 1, globals := r.globals, fobjs := r.fobjs },
        next := .seq } :=
  XOk.bind (XOk.need g h hsp) (XOk.bind (XOk.ofM hv)
    (XOk.bind (XOk.setSlot r (r.sp - 2) _ g h (by omega)) (XOk.pure _ g h)))

theorem xok_exLNot (b : Bool) (hsp : 1 ≤ r.sp) (hle : r.sp ≤ stackSize)
    (hv : isFalsy (getSlot r (r.sp - 1)) h = .ok (b, h)) :
    XOk (exLNot code fr a0 a1 op r) g h
      { regs := { r with stack := r.stack.setIfInBounds (r.sp - 1) (.bool b) }, next := .seq } :=
  XOk.bind (XOk.need g h hsp) (XOk.bind (XOk.ofM hv)
    (XOk.bind (XOk.setSlot r (r.sp - 1) _ g h (by omega)) (XOk.pure _ g h)))

theorem xok_exJumpFalsy (b : Bool) (hsp : 1 ≤ r.sp)
    (hv : isFalsy (getSlot r (r.sp - 1)) h = .ok (b, h)) :
    XOk (exJumpFalsy code fr a0 a1 op r) g h
      { regs := { r with sp := r.sp - 1 }, next := if b then .jump a0 else .seq } :=
  XOk.bind (XOk.need g h hsp) (XOk.bind (XOk.ofM hv) (XOk.pure _ g h))

theorem xok_exJump : XOk (exJump code fr a0 a1 op r) g h { regs := r, next := .jump a0 } := XOk.pure _ g h

theorem xfail_rtE {α : Type} (msg : String) (g : GSt) (h : St) : XFail (rtE msg : XM α) g h (.runtime msg) :=
  XFail.ofM (m := rtErr msg) rfl

theorem xok_exBComplement (n : Int) (hsp : 1 ≤ r.sp) (hle : r.sp ≤ stackSize)
    (hv : getSlot r (r.sp - 1) = .int n) :
    XOk (exBComplement code fr a0 a1 op r) g h
      { regs := { r with stack := r.stack.setIfInBounds (r.sp - 1) (.int (-n - 1)) }, next := .seq, alloc := true } := by
  unfold exBComplement
  refine XOk.bind (XOk.need g h hsp) ?_
  simp only [hv]
  exact XOk.bind (XOk.setSlot r (r.sp - 1) _ g h (by omega)) (XOk.pure _ g h)

theorem xfail_exBComplement (hsp : 1 ≤ r.sp) (hv : ∀ n, getSlot r (r.sp - 1) ≠ .int n) :
    ∃ msg, XFail (exBComplement code fr a0 a1 op r) g h (.runtime msg) := by
  unfold exBComplement
  generalize hx : getSlot r (r.sp - 1) = x at hv ⊢
  cases x <;> first
    | exact absurd rfl (hv _)
    | exact ⟨_, XFail.bind_right (XOk.need g h hsp) (xfail_rtE _ g h)⟩

theorem xok_exMinus_int (n : Int) (hsp : 1 ≤ r.sp) (hle : r.sp ≤ stackSize)
    (hv : getSlot r (r.sp - 1) = .int n) :
    XOk (exMinus code fr a0 a1 op r) g h
      { regs := { r with stack := r.stack.setIfInBounds (r.sp - 1) (.int (wrap64 (-n))) }, next := .seq, alloc := true } := by
  unfold exMinus
  refine XOk.bind (XOk.need g h hsp) ?_
  simp only [hv]
  exact XOk.bind (XOk.setSlot r (r.sp - 1) _ g h (by omega)) (XOk.pure _ g h)

theorem xok_exMinus_float (x : Float) (hsp : 1 ≤ r.sp) (hle : r.sp ≤ stackSize)
    (hv : getSlot r (r.sp - 1) = .float x) :
    XOk (exMinus code fr a0 a1 op r) g h
      { regs := { r with stack := r.stack.setIfInBounds (r.sp - 1) (.float (-x)) }, next := .seq, alloc := true } := by
  unfold exMinus
  refine XOk.bind (XOk.need g h hsp) ?_
  simp only [hv]
  exact XOk.bind (XOk.setSlot r (r.sp - 1) _ g h (by omega)) (XOk.pure _ g h)

theorem xfail_exMinus (hsp : 1 ≤ r.sp) (hv : ∀ n, getSlot r (r.sp - 1) ≠ .int n)
    (hv2 : ∀ x, getSlot r (r.sp - 1) ≠ .float x) :
    ∃ msg, XFail (exMinus code fr a0 a1 op r) g h (.runtime msg) := by
  unfold exMinus
  generalize hx : getSlot r (r.sp - 1) = x at hv hv2 ⊢
  cases x <;> first
    | exact absurd rfl (hv _)
    | exact absurd rfl (hv2 _)
    | exact ⟨_, XFail.bind_right (XOk.need g h hsp) (xfail_rtE _ g h)⟩

theorem xok_exAndJump (b : Bool) (hsp : 1 ≤ r.sp)
    (hv : isFalsy (getSlot r (r.sp - 1)) h = .ok (b, h)) :
    XOk (exAndJump code fr a0 a1 op r) g h
      (if b then { regs := r, next := .jump a0 } else { regs := { r with sp := r.sp - 1 }, next := .seq }) := by
  unfold exAndJump
  refine XOk.bind (XOk.need g h hsp) (XOk.bind (XOk.ofM hv) ?_)
  cases b <;> exact XOk.pure _ g h

theorem xok_exOrJump (b : Bool) (hsp : 1 ≤ r.sp)
    (hv : isFalsy (getSlot r (r.sp - 1)) h = .ok (b, h)) :
    XOk (exOrJump code fr a0 a1 op r) g h
      (if b then { regs := { r with sp := r.sp - 1 }, next := .seq } else { regs := r, next := .jump a0 }) := by
  unfold exOrJump
  refine XOk.bind (XOk.need g h hsp) (XOk.bind (XOk.ofM hv) ?_)
  cases b <;> exact XOk.pure _ g h

theorem xok_exSetGlobal (hsp : 1 ≤ r.sp) (hg : a0 < r.globals.size) :
    XOk (exSetGlobal code fr a0 a1 op r) g h
      { regs := { r with sp := r.sp - 1, globals := r.globals.setIfInBounds a0 (getSlot r (r.sp - 1)) },
        next := .seq } := by
  unfold exSetGlobal
  refine XOk.bind (XOk.need g h hsp) ?_
  simp only [hg, if_true]
  exact XOk.pure _ g h

theorem xok_exGetGlobal (hlt : r.sp < stackSize) (hg : a0 < r.globals.size) :
    XOk (exGetGlobal code fr a0 a1 op r) g h
      { regs := pushR r (r.globals.getD a0 .undef), next := .seq } := by
  unfold exGetGlobal
  simp only [hg, if_true]
  exact XOk.bind (XOk.push r _ g h hlt) (XOk.pure _ g h)

end ops

end Tengo.Proofs.C01Bridge

import Tengo.Proofs.C16CompileFnBody
/-!
C16 / `tail_pattern_sound`, converse for one family of NON-tail expression forms: a binary operator other than
`&&` / `||` (`f(x) + 1`, `1 + f(x)`, `f(x) == y`), an index `f(x)[i]` / `a[f(x)]` and a selector `f(x).k`. Their code
is `B ++ [y]` with `B` free of POP / RETURN and `y` the operator instruction (`BINARYOP` / `EQUAL` / `NOTEQUAL` /
`INDEX`), which is neither CALL nor POP nor RETURN: so `return f(x) + 1` is `… y; RETURN 1` with `y ≠ CALL`, and
`f(x) + 1;` is `… y; POP` — no CALL of these statements is directly followed by RETURN or POP.
-/
set_option linter.unusedVariables false
set_option linter.unusedSimpArgs false
namespace Tengo.Proofs.C16Fn
open Tengo.Model Tengo.Model.Opcodes Tengo.Model.Compiler Tengo.Model.Optimizer Tengo.Model.Verifier
open Tengo.Model.Spec (Expr Stmt)
open Tengo.Proofs.C03 Tengo.Proofs.C03Reloc Tengo.Proofs.C02Compile

/-- expression forms whose code ends with an operator instruction -/
def opLast : Expr → Bool
  | .bin tok _ _ => !(tok == "LAnd" || tok == "LOr")
  | .idx _ _ => true
  | .sel _ _ => true
  | _ => false

/-- the last instruction is an operator: not CALL, POP or RETURN -/
def OpI (y : Instr) : Prop := y.op ≠ opCall ∧ y.op ≠ opPop ∧ y.op ≠ opReturn

theorem opI_of {p op : Nat} {args : List Nat} (h1 : op ≠ opCall) (h2 : op ≠ opPop) (h3 : op ≠ opReturn) :
    OpI ⟨p, op, args⟩ := ⟨h1, h2, h3⟩

/-- two operand expressions, then one instruction -/
theorem two_then {d : Nat} (x i : Expr) (s s1 s2 : CState) (L : List Instr) (F : List Nat)
    (h1 : compileExpr d x s = .ok ((), s1)) (h2 : compileExpr d i s1 = .ok ((), s2)) (hinv : Inv s L F)
    (hsx : szE d x < 2 ^ 30) (hsi : szE d i < 2 ^ 30) :
    ∃ B F', Inv s2 (L ++ B) F' ∧ NoPR B ∧ Step s s2 F F' := by
  obtain ⟨B₁, F₁, o1, hb1⟩ := (all_spec d).e x s s1 L F h1 hinv hsx
  obtain ⟨B₂, F₂, o2, hb2⟩ := (all_spec d).e i s1 s2 _ F₁ h2 o1.inv hsi
  obtain ⟨_, _, hn1, _⟩ := hb1 0
  obtain ⟨_, _, hn2, _⟩ := hb2 0
  exact ⟨B₁ ++ B₂, F₂, by rw [← List.append_assoc]; exact o2.inv, hn1.append hn2, o1.step.trans o2.step⟩

theorem oplast_code {d : Nat} (e : Expr) (he : opLast e = true) (s s' : CState) (L : List Instr) (F : List Nat)
    (h : compileExpr (d + 1) e s = .ok ((), s')) (hinv : Inv s L F) (hsz : szE (d + 1) e < 2 ^ 30) :
    ∃ B y F', Inv s' (L ++ B ++ [y]) F' ∧ NoPR B ∧ OpI y ∧ y.pos = totalSize (L ++ B) ∧ Step s s' F F' := by
  cases e with
  | idx x i =>
    rw [compileExpr] at h
    have hszd : szE (d + 1) (.idx x i) = szE d x + szE d i + 1 := by rw [szE]
    rw [hszd] at hsz
    obtain ⟨_, s1, h1, h⟩ := bind_ok h
    obtain ⟨_, s2, h2, h⟩ := bind_ok h
    have e3 := demit_ok h; simp only at e3; subst e3
    obtain ⟨B, F', hi, hn, hst⟩ := two_then x i s s1 s2 L F h1 h2 hinv (by omega) (by omega)
    have := hi.emit (op := opIndex) (args := []) ⟨[], rfl, rfl⟩ (opReq_other rfl)
    exact ⟨B, _, F', this, hn, opI_of (by decide) (by decide) (by decide), rfl, hst.trans (Step.of_eq F' rfl rfl rfl)⟩
  | sel x i =>
    rw [compileExpr] at h
    have hszd : szE (d + 1) (.sel x i) = szE d x + szE d i + 1 := by rw [szE]
    rw [hszd] at hsz
    obtain ⟨_, s1, h1, h⟩ := bind_ok h
    obtain ⟨_, s2, h2, h⟩ := bind_ok h
    have e3 := demit_ok h; simp only at e3; subst e3
    obtain ⟨B, F', hi, hn, hst⟩ := two_then x i s s1 s2 L F h1 h2 hinv (by omega) (by omega)
    have := hi.emit (op := opIndex) (args := []) ⟨[], rfl, rfl⟩ (opReq_other rfl)
    exact ⟨B, _, F', this, hn, opI_of (by decide) (by decide) (by decide), rfl, hst.trans (Step.of_eq F' rfl rfl rfl)⟩
  | bin tok l r =>
    rw [compileExpr] at h
    have hszd : szE (d + 1) (.bin tok l r) = szE d l + szE d r + 5 := by rw [szE]
    rw [hszd] at hsz
    have hne : ¬ ((tok == "LAnd" || tok == "LOr") = true) := by
      simp only [opLast, Bool.not_eq_true'] at he
      rw [he]; decide
    rw [if_neg hne] at h
    obtain ⟨_, s1, h1, h⟩ := bind_ok h
    obtain ⟨_, s2, h2, h⟩ := bind_ok h
    obtain ⟨B, F', hi, hn, hst⟩ := two_then l r s s1 s2 L F h1 h2 hinv (by omega) (by omega)
    unfold emitBinary at h
    split at h
    · have e3 := demit_ok h; simp only at e3; subst e3
      have := hi.emit (op := opEqual) (args := []) ⟨[], rfl, rfl⟩ (opReq_other rfl)
      exact ⟨B, _, F', this, hn, opI_of (by decide) (by decide) (by decide), rfl, hst.trans (Step.of_eq F' rfl rfl rfl)⟩
    · split at h
      · have e3 := demit_ok h; simp only at e3; subst e3
        have := hi.emit (op := opNotEqual) (args := []) ⟨[], rfl, rfl⟩ (opReq_other rfl)
        exact ⟨B, _, F', this, hn, opI_of (by decide) (by decide) (by decide), rfl, hst.trans (Step.of_eq F' rfl rfl rfl)⟩
      · cases hk : F0.tokNumbers.lookup tok with
        | none => simp only [hk] at h; exact (unsupported_ok h).elim
        | some n =>
          simp only [hk] at h
          have e3 := demit_ok h; simp only at e3; subst e3
          have := hi.emit (op := opBinaryOp) (args := [n]) ⟨[1], rfl, rfl⟩ (opReq_binop (tokNumbers_lt hk))
          exact ⟨B, _, F', this, hn, opI_of (by decide) (by decide) (by decide), rfl, hst.trans (Step.of_eq F' rfl rfl rfl)⟩
  | _ => cases he

/-- **`return e` for `e` an operator form (`return f(x) + 1`, `return f(x)[0]`): `B ++ [y, RETURN 1]`**, `B` free of
POP / RETURN, `y` an operator instruction — the RETURN is preceded by `y`, not by a CALL, and no CALL of `B` is
followed by RETURN or POP. -/
theorem ret_oplast_not_tail {d : Nat} (e : Expr) (he : opLast e = true) (s s' : CState) (L : List Instr) (F : List Nat)
    (h : compileStmt (d + 2) (.ret (some e)) s = .ok ((), s')) (hinv : Inv s L F)
    (hsz : szS (d + 2) (.ret (some e)) < 2 ^ 30) :
    ∃ B y F', Inv s' (L ++ B ++ [y, ⟨y.pos + y.size, opReturn, [1]⟩]) F' ∧ NoPR B ∧ OpI y := by
  unfold compileStmt at h
  obtain ⟨st, s0, h0, h⟩ := bind_ok h
  have e0 := get_ok h0
  have est : st = s := (Prod.mk.inj e0).1
  have es0 : s0 = s := (Prod.mk.inj e0).2
  rw [est, es0] at h
  clear e0 est es0 h0
  obtain ⟨hg, h⟩ := guard_ok h
  have hg' : globalCtx s.tables = false := by simpa using hg
  have hszd : szS (d + 2) (.ret (some e)) = szE (d + 1) e + 2 := by simp only [szS]
  rw [hszd] at hsz
  simp only at h
  obtain ⟨_, s1, h1, h⟩ := bind_ok h
  have e3 := demit_ok h; simp only at e3; subst e3
  obtain ⟨B, y, F', hi, hn, hy, hyp, hst⟩ := oplast_code e he s s1 L F h1 hinv (by omega)
  have hg1 : globalCtx s1.tables = false := by rw [← hst.tabs.globalCtx]; exact hg'
  have hinv2 := hi.emit (op := opReturn) (args := [1]) ⟨[1], rfl, rfl⟩ (opReq_ret hg1 (by omega))
  refine ⟨B, y, F', ?_, hn, hy⟩
  have e : totalSize (L ++ B ++ [y]) = y.pos + y.size := by
    rw [totalSize_append, totalSize_cons, totalSize_nil, hyp]; omega
  rw [e] at hinv2
  simpa using hinv2

/-- **`e;` for `e` an operator form: `B ++ [y, POP]`.** -/
theorem exprstmt_oplast_not_tail {d : Nat} (e : Expr) (he : opLast e = true) (s s' : CState) (L : List Instr)
    (F : List Nat) (h : compileStmt (d + 2) (.expr e) s = .ok ((), s')) (hinv : Inv s L F)
    (hsz : szS (d + 2) (.expr e) < 2 ^ 30) :
    ∃ B y F', Inv s' (L ++ B ++ [y, ⟨y.pos + y.size, opPop, []⟩]) F' ∧ NoPR B ∧ OpI y := by
  rw [compileStmt] at h
  have hszd : szS (d + 2) (.expr e) = szE (d + 1) e + 1 := by rw [szS]
  rw [hszd] at hsz
  obtain ⟨_, s1, h1, h⟩ := bind_ok h
  have e3 := demit_ok h; simp only at e3; subst e3
  obtain ⟨B, y, F', hi, hn, hy, hyp, hst⟩ := oplast_code e he s s1 L F h1 hinv (by omega)
  have hinv2 := hi.emit (op := opPop) (args := []) ⟨[], rfl, rfl⟩ (opReq_other rfl)
  refine ⟨B, y, F', ?_, hn, hy⟩
  have e : totalSize (L ++ B ++ [y]) = y.pos + y.size := by
    rw [totalSize_append, totalSize_cons, totalSize_nil, hyp]; omega
  rw [e] at hinv2
  simpa using hinv2

end Tengo.Proofs.C16Fn

import Tengo.Proofs.C11PlaceRhoS
import Tengo.Proofs.C11PlaceBlkMain
/-!
C11, PLACEMENT global ↦ local with block-scoped declarations and re-use of local slots, layer 3: the two programs.

Global placement `progG body` (`body` over the global slots `< N`, statically scoped: `chkSs ρ N (· < m) body`).
Local placement `progLB m N L (renRSs ρ (· < m) body)`:
`f = func() { x_0 := r_0; …; x_{m-1} := r_{m-1};  body with variable j in local slot ρ j;  r_i = x_i … };  f()`
(`f` in global slot `N`; the outer variables `j < m` keep their number: `ρ j = j`).
-/
set_option linter.unusedVariables false
set_option linter.unusedSimpArgs false
namespace Tengo.Proofs.C11Place
open Tengo.Model Tengo.Model.F3
open Tengo.Model.F0 (Sem upd)
variable {V : Type} {E : Env V}

/-- The outer variables: in scope from the start. -/
def d0 (m : Nat) : Nat → Bool := fun k => decide (k < m)

/-- The local placement's statements. -/
def bodyR (ρ : Nat → Nat) (m : Nat) (body : Stms) : Stms := renRSs ρ (d0 m) body

theorem Rr_init {ρ : Nat → Nat} {m : Nat} (hρ : ∀ j, j < m → ρ j = j) {g gL : Nat → V}
    (hg : ∀ i, i < m → gL i = g i) : Rr ρ (d0 m) g (mkL m gL (fun _ => none)) := by
  intro j hj
  simp only [d0, decide_eq_true_eq] at hj
  simp only [hρ j hj, mkL, hj, if_true, hg j hj]

theorem Rr_lt {ρ : Nat → Nat} {m : Nat} (hρ : ∀ j, j < m → ρ j = j) {d : Nat → Bool} {g : Nat → V} {l : Locals V}
    (h : Rr ρ d g l) (hd : ∀ k, d0 m k = true → d k = true) : ∀ i, i < m → l i = some (g i) := by
  intro i hi
  have := h i (hd i (by simp only [d0, hi, decide_true]))
  rwa [hρ i hi] at this

/-- The function body in terms of the global placement's statements. -/
theorem fnBodyR_run (P PG : Prog) (ρ : Nat → Nat) (m N : Nat) (body : Stms) (hmN : m ≤ N)
    (hρ : ∀ j, j < m → ρ j = j) (hc : chkSs ρ N (d0 m) body = true) (F : Nat) (hF : m + 2 ≤ F)
    (g gL : Nat → V) (hg : ∀ i, i < m → gL i = g i) (lG : Locals V) :
    ∃ l', resQ (Rr ρ (d0 m)) (Rr ρ (d0 m)) l' (execSs E PG (F - m) body g lG) ∧
      execSs E P F (fnBodyB m (bodyR ρ m body)) gL (fun _ => none) =
        match tS' gL l' (execSs E PG (F - m) body g lG) with
        | .done g1 l1 => execSs E P (F - m - len (bodyR ρ m body)) (epiFrom 0 m) g1 l1
        | r => r := by
  unfold fnBodyB
  rw [execSs_app]
  have hp := run_pro (E := E) P m 0 F gL (fun _ => none) hF
  rw [mkL_zero, Nat.zero_add] at hp
  rw [hp, len_proFrom]
  simp only []
  rw [execSs_app]
  have hdb : DB N (d0 m) := by
    intro k hk
    simp only [d0, decide_eq_true_eq] at hk
    omega
  obtain ⟨l', he, hq⟩ := blockQ ((simRho_all E ρ N PG P (F - m)).ss body (d0 m) g lG gL _ hc hdb (Rr_init hρ hg))
  refine ⟨l', hq, ?_⟩
  unfold bodyR
  rw [he]
  rfl

/-- The moved program with fuel `F + 5`, `F ≥ m + 2`. -/
theorem progLR_at (ρ : Nat → Nat) (m N L : Nat) (body : Stms) (hmN : m ≤ N) (hρ : ∀ j, j < m → ρ j = j)
    (hc : chkSs ρ N (d0 m) body = true) (hfn : E.asFn (E.cs L) = some L) (F : Nat) (hF : m + 2 ≤ F) (g : Nat → V) :
    ∃ l', resQ (Rr ρ (d0 m)) (Rr ρ (d0 m)) l' (execSs E (progG body) (F - m) body g (fun _ => none)) ∧
      exec E (progLB m N L (bodyR ρ m body)) (F + 5) g =
        tCall (match tS' (upd g N (E.cs L)) l' (execSs E (progG body) (F - m) body g (fun _ => none)) with
          | .done g1 l1 =>
            execSs E (progLB m N L (bodyR ρ m body)) (F - m - len (bodyR ρ m body)) (epiFrom 0 m) g1 l1
          | r => r) := by
  rw [exec_progLB m N L (bodyR ρ m body) hfn F g]
  obtain ⟨l', hq, he⟩ := fnBodyR_run (E := E) (progLB m N L (bodyR ρ m body)) (progG body) ρ m N body hmN hρ hc F hF g
    (upd g N (E.cs L)) (fun i hi => by
      have : i ≠ N := by omega
      simp only [upd, this, if_false]) (fun _ => none)
  exact ⟨l', hq, by rw [he]⟩

/-- **Forward.** -/
theorem placementR_forward (ρ : Nat → Nat) (m N L : Nat) (body : Stms) (hmN : m ≤ N) (hρ : ∀ j, j < m → ρ j = j)
    (hc : chkSs ρ N (d0 m) body = true) (hfn : E.asFn (E.cs L) = some L) (f : Nat) (g : Nat → V) (r : PRes V)
    (hr : exec E (progG body) f g = r) (hne : r ≠ .out) :
    ∃ F, exec E (progLB m N L (bodyR ρ m body)) F g = tP m (upd g N (E.cs L)) r := by
  refine ⟨f + m + len (bodyR ρ m body) + (m + 2) + 5, ?_⟩
  obtain ⟨l', hok, he⟩ := progLR_at (E := E) ρ m N L body hmN hρ hc hfn (f + m + len (bodyR ρ m body) + (m + 2))
    (by omega) g
  rw [he]
  have hfu : f + m + len (bodyR ρ m body) + (m + 2) - m = f + (len (bodyR ρ m body) + (m + 2)) := by omega
  have hfe : f + (len (bodyR ρ m body) + (m + 2)) - len (bodyR ρ m body) = f + (m + 2) := by omega
  rw [hfu] at hok ⊢
  rw [hfe]
  rw [exec_progG] at hr
  have hmono := fun r0 (h0 : execSs E (progG body) f body g (fun _ => none) = r0) (hn0 : r0 ≠ .out) =>
    execSs_mono E (progG body) (Nat.le_add_right f (len (bodyR ρ m body) + (m + 2))) h0 hn0
  cases h0 : execSs E (progG body) f body g (fun _ => none) with
  | done g' lx =>
    rw [hmono _ h0 (by simp)] at hok ⊢
    rw [h0] at hr
    subst hr
    simp only [tS']
    have he := run_epiB (E := E) (progLB m N L (bodyR ρ m body)) m (upd g N (E.cs L)) g' l'
      (Rr_lt hρ hok (fun _ h => h)) m 0 (f + (m + 2)) (by omega) (by omega)
    rw [mkG_zero, Nat.zero_add] at he
    rw [he]
    simp only [tCall, tP]
  | brk g' lx => rw [hmono _ h0 (by simp)]; rw [h0] at hr; subst hr; simp only [tS', tCall, tP]
  | cont g' lx => rw [hmono _ h0 (by simp)]; rw [h0] at hr; subst hr; simp only [tS', tCall, tP]
  | ret v g' => rw [hmono _ h0 (by simp)]; rw [h0] at hr; subst hr; simp only [tS', tCall, tP]
  | err => rw [hmono _ h0 (by simp)]; rw [h0] at hr; subst hr; simp only [tS', tCall, tP]
  | bad => rw [hmono _ h0 (by simp)]; rw [h0] at hr; subst hr; simp only [tS', tCall, tP]
  | out => rw [h0] at hr; subst hr; exact absurd rfl hne

/-- **Progress.** -/
theorem placementR_progress (ρ : Nat → Nat) (m N L : Nat) (body : Stms) (hmN : m ≤ N) (hρ : ∀ j, j < m → ρ j = j)
    (hc : chkSs ρ N (d0 m) body = true) (hfn : E.asFn (E.cs L) = some L) (F : Nat) (g : Nat → V)
    (hne : exec E (progLB m N L (bodyR ρ m body)) F g ≠ .out) : ∃ f, exec E (progG body) f g ≠ .out := by
  refine ⟨F + (m + 2) - m, ?_⟩
  have h1 := exec_mono E (progLB m N L (bodyR ρ m body)) (show F ≤ F + (m + 2) + 5 by omega) rfl hne
  obtain ⟨l', hok, he⟩ := progLR_at (E := E) ρ m N L body hmN hρ hc hfn (F + (m + 2)) (by omega) g
  rw [he] at h1
  rw [exec_progG]
  intro ho
  cases h0 : execSs E (progG body) (F + (m + 2) - m) body g (fun _ => none) with
  | out =>
    rw [h0] at h1
    simp only [tS', tCall] at h1
    exact hne h1.symm
  | done g' lx => rw [h0] at ho; cases ho
  | brk g' lx => rw [h0] at ho; cases ho
  | cont g' lx => rw [h0] at ho; cases ho
  | ret v g' => rw [h0] at ho; cases ho
  | err => rw [h0] at ho; cases ho
  | bad => rw [h0] at ho; cases ho

/-- **Backward.** -/
theorem placementR_backward (ρ : Nat → Nat) (m N L : Nat) (body : Stms) (hmN : m ≤ N) (hρ : ∀ j, j < m → ρ j = j)
    (hc : chkSs ρ N (d0 m) body = true) (hfn : E.asFn (E.cs L) = some L) (F : Nat) (g : Nat → V) (r' : PRes V)
    (hr : exec E (progLB m N L (bodyR ρ m body)) F g = r') (hne : r' ≠ .out) :
    ∃ f r, exec E (progG body) f g = r ∧ r ≠ .out ∧ r' = tP m (upd g N (E.cs L)) r := by
  obtain ⟨f, hf⟩ := placementR_progress ρ m N L body hmN hρ hc hfn F g (by rw [hr]; exact hne)
  refine ⟨f, _, rfl, hf, ?_⟩
  obtain ⟨F', hF'⟩ := placementR_forward ρ m N L body hmN hρ hc hfn f g _ rfl hf
  have hne' : tP m (upd g N (E.cs L)) (exec E (progG body) f g) ≠ .out := by
    cases h : exec E (progG body) f g with
    | out => exact absurd h hf
    | done g' => simp [tP]
    | err => simp [tP]
    | bad => simp [tP]
  have a := exec_mono E (progLB m N L (bodyR ρ m body)) (Nat.le_max_left F F') hr hne
  have b := exec_mono E (progLB m N L (bodyR ρ m body)) (Nat.le_max_right F F') hF' hne'
  rw [← a, b]

end Tengo.Proofs.C11Place

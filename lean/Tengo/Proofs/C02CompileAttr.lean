import Lean.Meta.Tactic.Simp.RegisterCommand
/-!
Simp set `opc`: the opcode constants of `Tengo.Model.Opcodes`, unfolded when a per-opcode predicate is
evaluated on a concrete instruction (C02 / `compile_verifies`).
-/
register_simp_attr opc

import Tengo.Proofs.F1Stmts
/-!
C01 bridge: the fragment's machine with a BOUNDED operand stack.

The abstract machine of `Tengo.Model.F0` has an unbounded stack; the real VM (and `Tengo.Model.VM`) has
`StackSize` = 2048 slots and a push beyond them is a Go run-time panic. `stepB lim` is `F0.step` that
refuses to produce a state whose stack is higher than `lim`; `RunsB` / `FailsB` are the runs of that
machine. `FailsB` also records that the run ends in a DATA error (an operator without value for its
operands) with the operands on the stack — not in a stack underflow, which the VM reports differently.
Both imply the unbounded notions (`RunsB.runs`, `FailsB.fails`).
-/
namespace Tengo.Model.F0

variable {V : Type}

/-- One dispatch that never leaves a stack higher than `lim` (overflow = stuck). -/
def stepB (lim : Nat) (S : Sem V) (cs : Nat → V) (code : List Ins) (s : St V) : Res V :=
  match step S cs code s with
  | .next s' => if s'.stack.length ≤ lim then .next s' else .stuck
  | r => r

def runNB (lim : Nat) (S : Sem V) (cs : Nat → V) (code : List Ins) : Nat → St V → Out V
  | 0, s => .at s
  | n + 1, s =>
    match stepB lim S cs code s with
    | .next s' => runNB lim S cs code n s'
    | .err => .err
    | .stuck => .stuck

theorem stepB_next {lim : Nat} {S : Sem V} {cs : Nat → V} {code : List Ins} {a b : St V}
    (h : step S cs code a = .next b) (hb : b.stack.length ≤ lim) : stepB lim S cs code a = .next b := by
  simp [stepB, h, hb]

theorem stepB_next_inv {lim : Nat} {S : Sem V} {cs : Nat → V} {code : List Ins} {a b : St V}
    (h : stepB lim S cs code a = .next b) : step S cs code a = .next b ∧ b.stack.length ≤ lim := by
  unfold stepB at h
  split at h
  · rename_i s' hs
    split at h
    · rename_i hle
      simp only [Res.next.injEq] at h
      subst h
      exact ⟨hs, hle⟩
    · cases h
  · rename_i r hr
    exact absurd h (hr b)

/-- The machine stops at `b` with a data error: an operator has no value for the operands on the stack. -/
inductive ErrAt (S : Sem V) (cs : Nat → V) (code : List Ins) : St V → Prop where
  | binop {ip tok : Nat} {a b : V} {st : List V} {g : Nat → V} :
      fetch code ip = some (.binop tok) → S.binop tok a b = none → ErrAt S cs code ⟨ip, b :: a :: st, g⟩
  | minus {ip : Nat} {a : V} {st : List V} {g : Nat → V} :
      fetch code ip = some .minus → S.neg a = none → ErrAt S cs code ⟨ip, a :: st, g⟩
  | bcompl {ip : Nat} {a : V} {st : List V} {g : Nat → V} :
      fetch code ip = some .bcompl → S.bnot a = none → ErrAt S cs code ⟨ip, a :: st, g⟩

theorem ErrAt.step {S : Sem V} {cs : Nat → V} {code : List Ins} {b : St V} (h : ErrAt S cs code b) :
    step S cs code b = .err := by
  cases h with
  | binop hf hv => exact step_binop_err S cs code hf hv
  | minus hf hv => exact step_minus_err S cs code hf hv
  | bcompl hf hv => exact step_bcompl_err S cs code hf hv

/-- `s` reaches `s'` in some number of dispatches, never exceeding the stack bound. -/
def RunsB (lim : Nat) (S : Sem V) (cs : Nat → V) (code : List Ins) (s s' : St V) : Prop :=
  ∃ n, runNB lim S cs code n s = .at s'

/-- `s` reaches, within the stack bound, a state where the next dispatch is a data error. -/
def FailsB (lim : Nat) (S : Sem V) (cs : Nat → V) (code : List Ins) (s : St V) : Prop :=
  ∃ b, RunsB lim S cs code s b ∧ ErrAt S cs code b

theorem runNB_add (lim : Nat) (S : Sem V) (cs : Nat → V) (code : List Ins) (n m : Nat) (s : St V) :
    runNB lim S cs code (n + m) s =
      match runNB lim S cs code n s with
      | .at s' => runNB lim S cs code m s'
      | .err => .err
      | .stuck => .stuck := by
  induction n generalizing s with
  | zero => simp [runNB]
  | succ n ih =>
    have : n + 1 + m = (n + m) + 1 := by omega
    rw [this]
    simp only [runNB]
    cases stepB lim S cs code s with
    | next s' => simpa using ih s'
    | err => rfl
    | stuck => rfl

theorem RunsB.refl (lim : Nat) (S : Sem V) (cs : Nat → V) (code : List Ins) (s : St V) :
    RunsB lim S cs code s s := ⟨0, rfl⟩

theorem RunsB.trans {lim : Nat} {S : Sem V} {cs : Nat → V} {code : List Ins} {a b c : St V}
    (h1 : RunsB lim S cs code a b) (h2 : RunsB lim S cs code b c) : RunsB lim S cs code a c := by
  obtain ⟨n, hn⟩ := h1
  obtain ⟨m, hm⟩ := h2
  exact ⟨n + m, by rw [runNB_add, hn]; exact hm⟩

/-- One dispatch, with the bound on the resulting stack as a side condition. -/
theorem RunsB.step {lim : Nat} {S : Sem V} {cs : Nat → V} {code : List Ins} {a b : St V}
    (h : F0.step S cs code a = .next b) (hb : b.stack.length ≤ lim) : RunsB lim S cs code a b :=
  ⟨1, by simp [runNB, stepB_next h hb]⟩

theorem RunsB.fails {lim : Nat} {S : Sem V} {cs : Nat → V} {code : List Ins} {a b : St V}
    (h1 : RunsB lim S cs code a b) (h2 : FailsB lim S cs code b) : FailsB lim S cs code a := by
  obtain ⟨c, hc, he⟩ := h2
  exact ⟨c, h1.trans hc, he⟩

theorem FailsB.here {lim : Nat} {S : Sem V} {cs : Nat → V} {code : List Ins} {a : St V}
    (h : ErrAt S cs code a) : FailsB lim S cs code a := ⟨a, RunsB.refl _ _ _ _ _, h⟩

theorem RunsB.to {lim : Nat} {S : Sem V} {cs : Nat → V} {code : List Ins} {a : St V} {ip ip' : Nat}
    {st : List V} {g : Nat → V}
    (h : RunsB lim S cs code a ⟨ip, st, g⟩) (e : ip = ip') : RunsB lim S cs code a ⟨ip', st, g⟩ := by
  subst e; exact h

/-! ### the bounded notions imply the unbounded ones -/

theorem runNB_at {lim : Nat} {S : Sem V} {cs : Nat → V} {code : List Ins} :
    ∀ (n : Nat) (a b : St V), runNB lim S cs code n a = .at b → runN S cs code n a = .at b
  | 0, a, b, h => by simpa [runNB, runN] using h
  | n + 1, a, b, h => by
    simp only [runNB] at h
    cases hs : stepB lim S cs code a with
    | next s' =>
      rw [hs] at h
      simp only at h
      have := (stepB_next_inv hs).1
      simp only [runN, this]
      exact runNB_at n s' b h
    | err => rw [hs] at h; cases h
    | stuck => rw [hs] at h; cases h

theorem RunsB.runs {lim : Nat} {S : Sem V} {cs : Nat → V} {code : List Ins} {a b : St V}
    (h : RunsB lim S cs code a b) : Runs S cs code a b := by
  obtain ⟨n, hn⟩ := h
  exact ⟨n, runNB_at n a b hn⟩

theorem FailsB.fails {lim : Nat} {S : Sem V} {cs : Nat → V} {code : List Ins} {a : St V}
    (h : FailsB lim S cs code a) : Fails S cs code a := by
  obtain ⟨b, hb, he⟩ := h
  exact hb.runs.fails (Fails.step he.step)

/-! ### stack depth of expressions -/

/-- Highest number of operand-stack slots the code of `e` uses above the stack it starts with. -/
def depthE : Ex → Nat
  | .lit _ | .tru | .fls | .undef | .glob _ => 1
  | .bin _ l r | .eq l r | .ne l r => max (depthE l) (depthE r + 1)
  | .neg e | .bnot e | .lnot e | .plus e => depthE e
  | .cond c t f => max (depthE c) (max (depthE t) (depthE f))
  | .land l r | .lor l r => max (depthE l) (depthE r)

theorem depthE_pos (e : Ex) : 1 ≤ depthE e := by
  induction e <;> simp only [depthE] <;> omega

end Tengo.Model.F0

import Tengo.Proofs.C11RenameAssign
set_option linter.unusedSectionVars false
set_option linter.unusedSimpArgs false
set_option linter.unusedVariables false
namespace Tengo.Proofs.C11Rename
open Tengo.Model Tengo.Model.Compiler Tengo.Model.Opcodes
open Tengo.Model.Spec (Expr Stmt)
variable {ρ : String → String}

attribute [local irreducible] emit curPos changeOperand addConstant enterLoop leaveLoop fork unfork enterScope
  leaveScope optimizeFunc emitBinary patchAll setAssigned localAssigned emitGet emitIt define resolve cerr
  unsupported compileExpr compileExprs compileKVs compileSelsRev compileStmt compileBlock compileStmts

/-! ## Statements -/

theorem ne_blank (hρ : Renaming ρ) (k : String) : (ρ k != "_") = (k != "_") := by
  by_cases h : k = "_"
  · subst h; rw [hρ.blank]
  · have h' : ρ k ≠ "_" := fun e => h (hρ.inj _ _ (e.trans hρ.blank.symm))
    show (!(ρ k == "_")) = (!(k == "_"))
    rw [beq_false_of_ne h', beq_false_of_ne h]

/-! `for k, v in it { body }` in stages -/

def forinTail (d : Nat) (body : List Stmt) (preCondPos postCondPos : Nat) : CM Unit := do
  compileBlock d body
  let loop ← leaveLoop
  let postBodyPos ← curPos
  discard <| emit opJump [preCondPos]
  let postStmtPos ← curPos
  changeOperand postCondPos postStmtPos
  patchAll loop.breaks postStmtPos
  patchAll loop.continues postBodyPos
  unfork

def forinVal (d : Nat) (v : String) (body : List Stmt) (itSym : Sym) (preCondPos postCondPos : Nat) : CM Unit := do
  if v != "_" then
    let vs ← define v
    emitIt itSym
    discard <| emit opIteratorValue
    if vs.scope == .global then discard <| emit opSetGlobal [vs.index]
    else
      setAssigned vs
      discard <| emit opDefineLocal [vs.index]
  forinTail d body preCondPos postCondPos

def forinKey (d : Nat) (k v : String) (body : List Stmt) (itSym : Sym) (preCondPos postCondPos : Nat) :
    CM Unit := do
  if k != "_" then
    let ks ← define k
    emitIt itSym
    discard <| emit opIteratorKey
    if ks.scope == .global then discard <| emit opSetGlobal [ks.index]
    else
      setAssigned ks
      discard <| emit opDefineLocal [ks.index]
  forinVal d v body itSym preCondPos postCondPos

def forinLoop (d : Nat) (k v : String) (body : List Stmt) (itSym : Sym) : CM Unit := do
  let preCondPos ← curPos
  emitIt itSym
  discard <| emit opIteratorNext
  let postCondPos ← emit opJumpFalsy [0]
  enterLoop
  forinKey d k v body itSym preCondPos postCondPos

def forinBody (d : Nat) (k v : String) (it : Expr) (body : List Stmt) : CM Unit := do
  fork true
  let itSym ← define ":it"
  compileExpr d it
  discard <| emit opIteratorInit
  if itSym.scope == .global then discard <| emit opSetGlobal [itSym.index]
  else discard <| emit opDefineLocal [itSym.index]
  forinLoop d k v body itSym

theorem forin_eq (d : Nat) (k v : String) (it : Expr) (body : List Stmt) :
    compileStmt (d + 1) (.forin k v it body) = forinBody d k v it body := by
  rw [compileStmt.eq_7]; rfl

attribute [local irreducible] forinTail forinVal forinKey forinLoop forinBody

theorem sim_forinTail {d : Nat} (ih : IH ρ d) (body : List Stmt) (pre post : Nat) :
    Sim ρ Eq (forinTail d body pre post) (forinTail d (renameStmts ρ body) pre post) := by
  unfold forinTail; sim_go

theorem sim_forinVal (hρ : Renaming ρ) {d : Nat} (ih : IH ρ d) (v : String) (body : List Stmt) (it : Sym)
    (pre post : Nat) :
    Sim ρ Eq (forinVal d v body it pre post) (forinVal d (ρ v) (renameStmts ρ body) (renSym ρ it) pre post) := by
  unfold forinVal
  rw [ne_blank hρ]
  sim_go
  all_goals exact sim_forinTail ih body pre post

theorem sim_forinKey (hρ : Renaming ρ) {d : Nat} (ih : IH ρ d) (k v : String) (body : List Stmt) (it : Sym)
    (pre post : Nat) :
    Sim ρ Eq (forinKey d k v body it pre post)
      (forinKey d (ρ k) (ρ v) (renameStmts ρ body) (renSym ρ it) pre post) := by
  unfold forinKey
  rw [ne_blank hρ]
  sim_go
  all_goals exact sim_forinVal hρ ih v body it pre post

theorem sim_forinLoop (hρ : Renaming ρ) {d : Nat} (ih : IH ρ d) (k v : String) (body : List Stmt) (it : Sym) :
    Sim ρ Eq (forinLoop d k v body it) (forinLoop d (ρ k) (ρ v) (renameStmts ρ body) (renSym ρ it)) := by
  unfold forinLoop
  sim_go
  all_goals exact sim_forinKey hρ ih k v body it _ _

theorem stmt_forin (hρ : Renaming ρ) {d : Nat} (ih : IH ρ d) (k v : String) (it : Expr) (body : List Stmt) :
    Sim ρ Eq (compileStmt (d + 1) (.forin k v it body)) (compileStmt (d + 1) (renameStmt ρ (.forin k v it body))) := by
  simp only [renameStmt, forin_eq]
  unfold forinBody
  refine sim_bind_eq (sim_fork _) (fun _ => ?_)
  have hit := sim_define (ρ := ρ) ":it"
  rw [hρ.hidden] at hit
  refine sim_bind hit (fun it it' hIt => ?_)
  subst hIt
  simp only [renSym_scope, renSym_index]
  sim_go
  all_goals exact sim_forinLoop hρ ih k v body it

theorem stmt_ifs {d : Nat} (ih : IH ρ d) (ini c body els) :
    Sim ρ Eq (compileStmt (d + 1) (.ifs ini c body els)) (compileStmt (d + 1) (renameStmt ρ (.ifs ini c body els))) := by
  simp only [renameStmt, compileStmt.eq_5]
  cases ini <;> cases els <;> simp only [renameOptStmt] <;> sim_go

theorem stmt_fors {d : Nat} (ih : IH ρ d) (ini c post body) :
    Sim ρ Eq (compileStmt (d + 1) (.fors ini c post body)) (compileStmt (d + 1) (renameStmt ρ (.fors ini c post body))) := by
  simp only [renameStmt, compileStmt.eq_6]
  cases ini <;> cases c <;> cases post <;> simp only [renameOptStmt, renameOptExpr, pure_bind] <;> sim_go

theorem stmt_branch {d : Nat} (ih : IH ρ d) (tok) :
    Sim ρ Eq (compileStmt (d + 1) (.branch tok)) (compileStmt (d + 1) (renameStmt ρ (.branch tok))) := by
  simp only [renameStmt, compileStmt.eq_9]
  refine sim_bind sim_get (fun _ _ h => ?_)
  subst h
  simp only [renState_loops]
  split <;> sim_go

theorem stmt_ret {d : Nat} (ih : IH ρ d) (e) :
    Sim ρ Eq (compileStmt (d + 1) (.ret e)) (compileStmt (d + 1) (renameStmt ρ (.ret e))) := by
  cases e with
  | none => simp only [renameStmt, renameOptExpr, compileStmt.eq_10]; sim_get_step; sim_go
  | some x => simp only [renameStmt, renameOptExpr, compileStmt.eq_11]; sim_get_step; sim_go

theorem stmt_export {d : Nat} (ih : IH ρ d) (e) :
    Sim ρ Eq (compileStmt (d + 1) (.export e)) (compileStmt (d + 1) (renameStmt ρ (.export e))) := by
  simp only [renameStmt, compileStmt.eq_12]; sim_get_step; sim_go

theorem stmt_incdec {d : Nat} (ih : IH ρ d) (tok e) :
    Sim ρ Eq (compileStmt (d + 1) (.incdec tok e)) (compileStmt (d + 1) (renameStmt ρ (.incdec tok e))) := by
  simp only [renameStmt, compileStmt.eq_3]; exact ih.assign [e] [.int 1] _

theorem stmt_succ (hρ : Renaming ρ) {d : Nat} (ih : IH ρ d) (s : Stmt) :
    Sim ρ Eq (compileStmt (d + 1) s) (compileStmt (d + 1) (renameStmt ρ s)) := by
  cases s with
  | expr e => simp only [renameStmt, compileStmt.eq_2]; sim_go
  | incdec tok e => exact stmt_incdec ih tok e
  | assign tok lhs rhs => simp only [renameStmt, compileStmt.eq_4]; sim_go
  | ifs ini c body els => exact stmt_ifs ih ini c body els
  | fors ini c post body => exact stmt_fors ih ini c post body
  | forin k v it body => exact stmt_forin hρ ih k v it body
  | block ss => simp only [renameStmt, compileStmt.eq_8]; sim_go
  | branch tok => exact stmt_branch ih tok
  | ret e => exact stmt_ret ih e
  | «export» e => exact stmt_export ih e
  | empty => simp only [renameStmt, compileStmt.eq_13]; sim_go
  | bad => simp only [renameStmt, compileStmt.eq_14]; sim_go


/-! ## The induction on the depth budget -/

theorem ih_succ (hρ : Renaming ρ) {d : Nat} (ih : IH ρ d) : IH ρ (d + 1) where
  expr := expr_succ hρ ih
  exprs := exprs_succ ih
  kvs := kvs_succ ih
  sels := sels_succ ih
  assign := assign_succ hρ ih
  stmt := stmt_succ hρ ih
  block := block_succ ih
  stmts := stmts_succ ih

theorem ih_all (hρ : Renaming ρ) : ∀ d, IH ρ d
  | 0 => ih_zero
  | d + 1 => ih_succ hρ (ih_all hρ d)

/-! ## The initial state -/

theorem builtins_fixed (ns : List String) : ∀ (i : Nat) (acc : List (String × Sym)),
    (∀ n, n ∈ ns → ρ n = n) → acc.map (renEntry ρ) = acc →
    (initState.builtins i ns acc).map (renEntry ρ) = initState.builtins i ns acc := by
  induction ns with
  | nil => intro i acc _ h; simpa [initState.builtins] using h
  | cons n ns ih =>
    intro i acc hn h
    simp only [initState.builtins]
    refine ih _ _ (fun m hm => hn m (List.mem_cons_of_mem _ hm)) ?_
    simp only [List.map_cons, h, renEntry, renSym, hn n List.mem_cons_self]

def initS0 : CState :=
  { tables := [{ store := initState.builtins 0 Spec.builtinNames [] }], nextId := Spec.builtinNames.length,
    assigned := (List.replicate Spec.builtinNames.length false).toArray }

def initStep (acc : CState) (n : String) : CState :=
  { acc with tables := (defineIn n acc.nextId acc.tables).2, nextId := acc.nextId + 1,
             assigned := acc.assigned.push false }

theorem initState_eq (inputs : List String) : initState inputs = inputs.foldl initStep initS0 := rfl

theorem initS0_ren (hρ : Renaming ρ) : renState ρ initS0 = initS0 := by
  simp only [initS0, renState, renChain, List.map_cons, List.map_nil, renTable,
    builtins_fixed Spec.builtinNames 0 [] hρ.builtin rfl]

theorem foldl_initStep_ren (l : List String) : ∀ a : CState,
    renState ρ (l.foldl initStep a) = (l.map ρ).foldl initStep (renState ρ a) := by
  induction l with
  | nil => intro a; rfl
  | cons n l ih =>
    intro a
    simp only [List.foldl_cons, List.map_cons]
    rw [ih]
    congr 1
    simp only [initStep, renState, defineIn_ren]

theorem initState_ren (hρ : Renaming ρ) (inputs : List String) :
    renState ρ (initState inputs) = initState (inputs.map ρ) := by
  rw [initState_eq, initState_eq, foldl_initStep_ren, initS0_ren hρ]

/-! ## The whole program -/

/-- Outcomes of `compileFile` on a program and on its renaming: the same bytecode, or the same error up to
the renamed name in its message. -/
inductive OutRel (ρ : String → String) : Except CompileErr Bytecode' → Except CompileErr Bytecode' → Prop
  | ok (b : Bytecode') : OutRel ρ (.ok b) (.ok b)
  | err {e e' : CompileErr} : ErrRel ρ e e' → OutRel ρ (.error e) (.error e')

theorem maxGlobals_ren (c : Chain) :
    ((renChain ρ c).getLast?.map (·.maxDefinition)).getD 0 = (c.getLast?.map (·.maxDefinition)).getD 0 := by
  simp only [renChain, List.getLast?_map, Option.map_map]
  rfl

/-- The last step of `compileFile`. -/
def finish (r : Except CompileErr (Unit × CState)) : Except CompileErr Bytecode' :=
  match r with
  | .error e => .error e
  | .ok (_, s) =>
    .ok { main := s.insts.toList ++ [UInt8.ofNat opSuspend], consts := s.consts.toList,
          maxGlobals := (s.tables.getLast?.map (·.maxDefinition)).getD 0 }

theorem compileFile_eq (ss : List Stmt) (inputs : List String) :
    compileFile ss inputs = finish (compileStmts fuel ss (initState inputs)) := rfl

theorem compileFile_rename (hρ : Renaming ρ) (ss : List Stmt) (inputs : List String) :
    OutRel ρ (compileFile ss inputs) (compileFile (renameStmts ρ ss) (inputs.map ρ)) := by
  have h := (ih_all hρ fuel).stmts ss (initState inputs)
  rw [initState_ren hρ] at h
  rw [compileFile_eq, compileFile_eq]
  generalize compileStmts fuel ss (initState inputs) = x at h
  generalize compileStmts fuel (renameStmts ρ ss) (initState (inputs.map ρ)) = y at h
  cases h with
  | err he => exact OutRel.err he
  | ok t hr =>
    simp only [finish, renState_insts, renState_consts, renState_tables, maxGlobals_ren]
    exact OutRel.ok _

end Tengo.Proofs.C11Rename

import Tengo.Model.F3
import Tengo.Model.Compiler
import Tengo.Proofs.C01BridgeDefs
/-!
C01 bridge for fragment F3 (F2 + first-order functions), compile side, layer 0: definitions.

* `encI3` / `encodeIns3`: the byte encoding of `F3.Ins` (parser/opcodes.go).
* The embedding into the real AST: `toAstE3` / `toAstEs3` (expressions; `loc i ↦ lnames i`, `glob i ↦ names i`,
  `call f args ↦ CallExpr` without ellipsis), `toAstS3` / `toAstSs3` (statements: `defl i e ↦ lnames i := e`,
  `setl i e ↦ lnames i = e`, `ret e ↦ return e`, `ret0 ↦ return`), `funcLit` (a function definition ↦ the
  function literal `func(lnames 0, …, lnames (np-1)) { body }`), `toAstTop` / `toAstMain` / `toAstProg` (main
  program: the statement `assign i (lit k)` with `P.fns k = some fd` is `names i = func(…) {…}`).
* Literal numbering (`nlits…`), the class of programs the embedding is faithful for (`wfE3`, `wfS3`, `wfBody`,
  `wfFn`, `wfMain`, `wfProg`), traversal budgets (`bud…`), the positions of the `break` / `continue` jumps
  (`jposS3`), and what the real compiler's pool holds (`fnConst`, `poolOf`).
-/
namespace Tengo.Proofs.C01BridgeF3Comp
open Tengo.Model Tengo.Model.Opcodes
open Tengo.Model.Spec (Expr Stmt)
open Tengo.Model.F3 (Ex Exs Stm Stms FnDef Prog Ins)
open Tengo.Proofs.C01Bridge (litExpr constOf validTok be2 be4)

/-! ### byte encoding of the instructions -/

/-- The bytes of one instruction of F3: opcode byte of parser/opcodes.go, operands big-endian in their widths. -/
def encI3 : Ins → List UInt8
  | .const k => 0 :: be2 k
  | .getg i => 22 :: be2 i
  | .setg i => 23 :: be2 i
  | .binop t => [40, UInt8.ofNat (t % 256)]
  | .eql => [5] | .neq => [6] | .minus => [7] | .bcompl => [1] | .lnot => [8]
  | .tru => [3] | .fls => [4] | .null => [13] | .pop => [2]
  | .jmpf t => 9 :: be4 t
  | .jmp t => 12 :: be4 t
  | .andjmp t => 10 :: be4 t
  | .orjmp t => 11 :: be4 t
  | .getl i => [25, UInt8.ofNat (i % 256)]
  | .setl i => [26, UInt8.ofNat (i % 256)]
  | .defl i => [27, UInt8.ofNat (i % 256)]
  | .call n => [20, UInt8.ofNat (n % 256), 0]
  | .ret b => [21, if b then 1 else 0]

def encodeIns3 (is : List Ins) : List UInt8 := is.flatMap encI3

/-- Opcode and operands `emit` is called with. -/
def toInstr3 : Ins → Nat × List Nat
  | .const k => (opConstant, [k])
  | .getg i => (opGetGlobal, [i])
  | .setg i => (opSetGlobal, [i])
  | .binop t => (opBinaryOp, [t])
  | .eql => (opEqual, []) | .neq => (opNotEqual, []) | .minus => (opMinus, [])
  | .bcompl => (opBComplement, []) | .lnot => (opLNot, [])
  | .tru => (opTrue, []) | .fls => (opFalse, []) | .null => (opNull, []) | .pop => (opPop, [])
  | .jmpf t => (opJumpFalsy, [t])
  | .jmp t => (opJump, [t])
  | .andjmp t => (opAndJump, [t])
  | .orjmp t => (opOrJump, [t])
  | .getl i => (opGetLocal, [i])
  | .setl i => (opSetLocal, [i])
  | .defl i => (opDefineLocal, [i])
  | .call n => (opCall, [n, 0])
  | .ret b => (opReturn, [if b then 1 else 0])

/-! ### the embedding -/

section embed
variable (names lnames : Nat → String) (ctab : Nat → F0.Const)

mutual
  def toAstE3 : Ex → Expr
    | .lit k => litExpr (ctab k)
    | .tru => .bool true
    | .fls => .bool false
    | .undef => .undef
    | .glob i => .ident (names i)
    | .loc i => .ident (lnames i)
    | .bin tok l r => .bin (F0.tokNameOf tok) (toAstE3 l) (toAstE3 r)
    | .eq l r => .bin "Equal" (toAstE3 l) (toAstE3 r)
    | .ne l r => .bin "NotEqual" (toAstE3 l) (toAstE3 r)
    | .neg e => .un "Sub" (toAstE3 e)
    | .bnot e => .un "Xor" (toAstE3 e)
    | .lnot e => .un "Not" (toAstE3 e)
    | .plus e => .un "Add" (toAstE3 e)
    | .cond c t f => .cond (toAstE3 c) (toAstE3 t) (toAstE3 f)
    | .land l r => .bin "LAnd" (toAstE3 l) (toAstE3 r)
    | .lor l r => .bin "LOr" (toAstE3 l) (toAstE3 r)
    | .call f args => .call false (toAstE3 f) (toAstEs3 args)
  def toAstEs3 : Exs → List Expr
    | .nil => []
    | .cons e es => toAstE3 e :: toAstEs3 es
end

mutual
  def toAstS3 : Stm → Stmt
    | .expr e => .expr (toAstE3 names lnames ctab e)
    | .assign i e => .assign "Assign" [.ident (names i)] [toAstE3 names lnames ctab e]
    | .defl i e => .assign "Define" [.ident (lnames i)] [toAstE3 names lnames ctab e]
    | .setl i e => .assign "Assign" [.ident (lnames i)] [toAstE3 names lnames ctab e]
    | .ifs c body => .ifs none (toAstE3 names lnames ctab c) (toAstSs3 body) none
    | .ifelse c body els =>
      .ifs none (toAstE3 names lnames ctab c) (toAstSs3 body) (some (.block (toAstSs3 els)))
    | .whil c body => .fors none (some (toAstE3 names lnames ctab c)) none (toAstSs3 body)
    | .forever body => .fors none none none (toAstSs3 body)
    | .for3 c body post => .fors none (some (toAstE3 names lnames ctab c)) (some (toAstS3 post)) (toAstSs3 body)
    | .brk => .branch "Break"
    | .cont => .branch "Continue"
    | .ret e => .ret (some (toAstE3 names lnames ctab e))
    | .ret0 => .ret none
  def toAstSs3 : Stms → List Stmt
    | .nil => []
    | .cons s ss => toAstS3 s :: toAstSs3 ss
end

/-- The parameter list of a function with `np` parameters: the names of the local slots `0 … np-1`. -/
def paramsOf (np : Nat) : List String := (List.range np).map lnames

/-- The function literal of a function definition. -/
def funcLit (fd : FnDef) : Expr := .func false (paramsOf lnames fd.nparams) (toAstSs3 names lnames ctab fd.body)

/-- A main statement that stores a function literal: `assign i (lit k)` with `P.fns k = some fd`. -/
def topFn (P : Prog) : Stm → Option (Nat × Nat × FnDef)
  | .assign i (.lit k) => (P.fns k).map (fun fd => (i, k, fd))
  | _ => none

def toAstTop (P : Prog) (s : Stm) : Stmt :=
  match topFn P s with
  | some (i, _, fd) => .assign "Assign" [.ident (names i)] [funcLit names lnames ctab fd]
  | none => toAstS3 names lnames ctab s

def toAstMain (P : Prog) : Stms → List Stmt
  | .nil => []
  | .cons s ss => toAstTop names lnames ctab P s :: toAstMain P ss

/-- The real AST of an F3 program. -/
def toAstProg (P : Prog) : List Stmt := toAstMain names lnames ctab P P.main

end embed

/-! ### literal numbering -/

mutual
  /-- Number of literal occurrences (= constants the real compiler adds). -/
  def nlitsE3 : Ex → Nat
    | .lit _ => 1
    | .tru | .fls | .undef | .glob _ | .loc _ => 0
    | .bin _ l r | .eq l r | .ne l r | .land l r | .lor l r => nlitsE3 l + nlitsE3 r
    | .neg e | .bnot e | .lnot e | .plus e => nlitsE3 e
    | .cond c t f => nlitsE3 c + nlitsE3 t + nlitsE3 f
    | .call f args => nlitsE3 f + nlitsEs3 args
  def nlitsEs3 : Exs → Nat
    | .nil => 0
    | .cons e es => nlitsE3 e + nlitsEs3 es
end

mutual
  def nlitsS3 : Stm → Nat
    | .expr e | .assign _ e | .defl _ e | .setl _ e | .ret e => nlitsE3 e
    | .ifs c body => nlitsE3 c + nlitsSs3 body
    | .ifelse c body els => nlitsE3 c + nlitsSs3 body + nlitsSs3 els
    | .whil c body => nlitsE3 c + nlitsSs3 body
    | .forever body => nlitsSs3 body
    | .for3 c body post => nlitsE3 c + nlitsSs3 body + nlitsS3 post
    | .brk | .cont | .ret0 => 0
  def nlitsSs3 : Stms → Nat
    | .nil => 0
    | .cons s ss => nlitsS3 s + nlitsSs3 ss
end

/-- Constants a main statement adds: those of the function body, then the function. -/
def nlitsTop (P : Prog) (s : Stm) : Nat :=
  match topFn P s with
  | some (_, _, fd) => nlitsSs3 fd.body + 1
  | none => nlitsS3 s

def nlitsMain (P : Prog) : Stms → Nat
  | .nil => 0
  | .cons s ss => nlitsTop P s + nlitsMain P ss

/-! ### well-formedness -/

section wf
variable (isFn : Nat → Bool) (n : Nat)

mutual
  /-- `wfE3 isFn n m k e`: global slots below `n`, local slots below `m` (the slots defined so far), operator tokens
  valid, at most 255 arguments per call, the literals are value constants (`isFn j = false`) numbered
  `k, k+1, …` in compilation order. -/
  def wfE3 (m : Nat) : Nat → Ex → Bool
    | k, .lit j => j == k && !isFn j
    | _, .tru | _, .fls | _, .undef => true
    | _, .glob i => decide (i < n)
    | _, .loc i => decide (i < m)
    | k, .bin tok l r => validTok tok && wfE3 m k l && wfE3 m (k + nlitsE3 l) r
    | k, .eq l r | k, .ne l r | k, .land l r | k, .lor l r => wfE3 m k l && wfE3 m (k + nlitsE3 l) r
    | k, .neg e | k, .bnot e | k, .lnot e | k, .plus e => wfE3 m k e
    | k, .cond c t f => wfE3 m k c && wfE3 m (k + nlitsE3 c) t && wfE3 m (k + nlitsE3 c + nlitsE3 t) f
    | k, .call f args => decide (args.len ≤ 255) && wfE3 m k f && wfEs3 m (k + nlitsE3 f) args
  def wfEs3 (m : Nat) : Nat → Exs → Bool
    | _, .nil => true
    | k, .cons e es => wfE3 m k e && wfEs3 m (k + nlitsE3 e) es
end

/-- A statement the parser accepts as the post statement of a loop (a simple statement). -/
def isSimple3 : Stm → Bool
  | .expr _ | .assign _ _ | .setl _ _ => true
  | _ => false

mutual
  /-- Statements WITHOUT local definitions (`defl`): what may occur anywhere — in main (`inFn = false`, `m = 0`),
  nested inside `if` / loop bodies of a function. `inl`: inside a loop of the current function
  (`break` / `continue` allowed); `return` only inside a function. -/
  def wfS3 (m : Nat) (inFn : Bool) : Bool → Nat → Stm → Bool
    | _, k, .expr e => wfE3 isFn n m k e
    | _, k, .assign i e => decide (i < n) && wfE3 isFn n m k e
    | _, _, .defl _ _ => false
    | _, k, .setl i e => decide (i < m) && wfE3 isFn n m k e
    | inl, k, .ifs c body => wfE3 isFn n m k c && wfSs3 m inFn inl (k + nlitsE3 c) body
    | inl, k, .ifelse c body els =>
      wfE3 isFn n m k c && wfSs3 m inFn inl (k + nlitsE3 c) body &&
        wfSs3 m inFn inl (k + nlitsE3 c + nlitsSs3 body) els
    | _, k, .whil c body => wfE3 isFn n m k c && wfSs3 m inFn true (k + nlitsE3 c) body
    | _, k, .forever body => wfSs3 m inFn true k body
    | inl, k, .for3 c body post =>
      wfE3 isFn n m k c && wfSs3 m inFn true (k + nlitsE3 c) body && isSimple3 post &&
        wfS3 m inFn inl (k + nlitsE3 c + nlitsSs3 body) post
    | inl, _, .brk => inl
    | inl, _, .cont => inl
    | _, k, .ret e => inFn && wfE3 isFn n m k e
    | _, _, .ret0 => inFn
  def wfSs3 (m : Nat) (inFn : Bool) : Bool → Nat → Stms → Bool
    | _, _, .nil => true
    | inl, k, .cons s ss => wfS3 m inFn inl k s && wfSs3 m inFn inl (k + nlitsS3 s) ss
end

/-- The top level of a function body: `m` local slots are defined so far; a definition `defl i e` takes the next
slot (`i = m`), any other statement is `wfS3`. -/
def wfBody : Nat → Nat → Stms → Bool
  | _, _, .nil => true
  | m, k, .cons s ss =>
    match s with
    | .defl i e => i == m && wfE3 isFn n m k e && wfBody (m + 1) (k + nlitsE3 e) ss
    | s => wfS3 isFn n m true false k s && wfBody m (k + nlitsS3 s) ss

/-- Number of local definitions at the top level of a function body. -/
def ndefs : Stms → Nat
  | .nil => 0
  | .cons s ss =>
    match s with
    | .defl _ _ => ndefs ss + 1
    | _ => ndefs ss

/-- A function definition whose body's constants start at `k`: `nlocals` = parameters + top-level definitions,
at most 256 locals. -/
def wfFn (k : Nat) (fd : FnDef) : Bool :=
  fd.nlocals == fd.nparams + ndefs fd.body && decide (fd.nlocals ≤ 256) && wfBody isFn n fd.nparams k fd.body

end wf

/-- Which constants are functions. -/
def isFnOf (P : Prog) (k : Nat) : Bool := (P.fns k).isSome

/-- The main program from constant `k` on: a function literal `assign i (lit j)` has `i < n`, a well-formed
definition whose body's constants start at `k`, and `j` is the next constant after them; every other statement is
`wfS3` outside functions and loops. -/
def wfMain (P : Prog) (n : Nat) : Nat → Stms → Bool
  | _, .nil => true
  | k, .cons s ss =>
    (match topFn P s with
     | some (i, j, fd) => decide (i < n) && wfFn (isFnOf P) n k fd && j == k + nlitsSs3 fd.body
     | none => wfS3 (isFnOf P) n 0 false false k s) && wfMain P n (k + nlitsTop P s) ss

def wfProg (P : Prog) (n : Nat) : Bool := wfMain P n 0 P.main

/-! ### the optimizer on a function body, and the pool -/

/-- The raw bytes of a function body (before `optimizeFunc`). -/
def rawBody (fd : FnDef) : List UInt8 := encodeIns3 (F3.compSs 0 0 0 fd.body)

/-- `optimizeFunc` on the raw bytes. -/
def optBody (fd : FnDef) : Option (List UInt8) :=
  match Optimizer.opt (rawBody fd) [] 0 with
  | .ok r => some r.bytes
  | .panic _ => none

/-- The function constant the real compiler adds. -/
def fnConst (fd : FnDef) : Compiler.Const := .fn ((optBody fd).getD []) fd.nlocals fd.nparams false

/-- Constant `j` of the real compiler's pool. -/
def poolOf (P : Prog) (ctab : Nat → F0.Const) (j : Nat) : Compiler.Const :=
  match P.fns j with
  | some fd => fnConst fd
  | none => constOf (ctab j)

/-- The optimizer model does not panic on the function bodies of main (it never does on compiled code; a
hypothesis of the bridge, decidable per program). -/
def optOK (P : Prog) : Stms → Bool
  | .nil => true
  | .cons s ss =>
    (match topFn P s with
     | some (_, _, fd) => (optBody fd).isSome
     | none => true) && optOK P ss

/-! ### depth budget of the compiler model's traversal -/

mutual
  def budE3 : Ex → Nat
    | .lit _ | .tru | .fls | .undef | .glob _ | .loc _ => 1
    | .bin _ l r | .eq l r | .ne l r | .land l r | .lor l r => 1 + max (budE3 l) (budE3 r)
    | .neg e | .bnot e | .lnot e | .plus e => 1 + budE3 e
    | .cond c t f => 1 + max (budE3 c) (max (budE3 t) (budE3 f))
    | .call f args => 1 + max (budE3 f) (budEs3 args)
  def budEs3 : Exs → Nat
    | .nil => 1
    | .cons e es => 1 + max (budE3 e) (budEs3 es)
end

mutual
  def budS3 : Stm → Nat
    | .expr e => 1 + budE3 e
    | .assign _ e | .defl _ e | .setl _ e => 2 + budE3 e
    | .ifs c body => 2 + max (budE3 c) (budSs3 body)
    | .ifelse c body els => 4 + max (budE3 c) (max (budSs3 body) (budSs3 els))
    | .whil c body => 2 + max (budE3 c) (budSs3 body)
    | .forever body => 2 + budSs3 body
    | .for3 c body post => 2 + max (budE3 c) (max (budSs3 body) (budS3 post))
    | .brk | .cont | .ret0 => 1
    | .ret e => 1 + budE3 e
  def budSs3 : Stms → Nat
    | .nil => 1
    | .cons s ss => 1 + max (budS3 s) (budSs3 ss)
end

def budTop (P : Prog) (s : Stm) : Nat :=
  match topFn P s with
  | some (_, _, fd) => 5 + budSs3 fd.body
  | none => budS3 s

def budMain (P : Prog) : Stms → Nat
  | .nil => 1
  | .cons s ss => 1 + max (budTop P s) (budMain P ss)

/-! ### the jumps a loop back-patches -/

mutual
  /-- Byte positions of the `JMP`s of the `break`s (`w = true`) / `continue`s (`w = false`) of the ENCLOSING loop
  in the code of a statement placed at `off`, in emission order. -/
  def jposS3 (w : Bool) (off : Nat) : Stm → List Nat
    | .expr _ | .assign _ _ | .defl _ _ | .setl _ _ | .ret _ | .ret0 => []
    | .ifs c body => jposSs3 w (off + F3.esize c + 5) body
    | .ifelse c body els =>
      jposSs3 w (off + F3.esize c + 5) body ++ jposSs3 w (off + F3.esize c + 5 + F3.sssize body + 5) els
    | .whil _ _ => []
    | .forever _ => []
    | .for3 c body post => jposS3 w (off + F3.esize c + 5 + F3.sssize body) post
    | .brk => if w then [off] else []
    | .cont => if w then [] else [off]
  def jposSs3 (w : Bool) (off : Nat) : Stms → List Nat
    | .nil => []
    | .cons s ss => jposS3 w off s ++ jposSs3 w (off + F3.ssize s) ss
end

/-! ### dead code -/

/-- A statement after which control never continues with the next statement of the same list. -/
def isJumpStm : Stm → Bool
  | .ret _ | .ret0 | .brk | .cont => true
  | _ => false

mutual
  /-- No statement follows a `return` / `break` / `continue` in the same statement list. -/
  def noDeadS : Stm → Bool
    | .ifs _ body | .whil _ body | .forever body => noDeadSs body
    | .ifelse _ body els => noDeadSs body && noDeadSs els
    | .for3 _ body post => noDeadSs body && noDeadS post
    | _ => true
  def noDeadSs : Stms → Bool
    | .nil => true
    | .cons s ss =>
      noDeadS s && noDeadSs ss &&
        (match ss with
         | .nil => true
         | .cons _ _ => !isJumpStm s)
end

/-! ### non-vacuity: factorial, called from a loop in main -/

namespace Demo

/-- `fact := func(x) { if x < 2 { return 1 }; r := fact(x - 1); return x * r }` (constant 3 is the function;
`x` = local 0, `r` = local 1; global 0 = `fact`, 1 = `i`, 2 = `acc`); main:
`fact = func…; i = 0; acc = 0; for i < 5 { acc = acc + fact(i); i = i + 1 }` (`39` = Less, `11` = Add, `12` = Sub,
`13` = Mul). -/
def factBody : Stms :=
  .cons (.ifs (.bin 39 (.loc 0) (.lit 0)) (.cons (.ret (.lit 1)) .nil))
  (.cons (.defl 1 (.call (.glob 0) (.cons (.bin 12 (.loc 0) (.lit 2)) .nil)))
  (.cons (.ret (.bin 13 (.loc 0) (.loc 1))) .nil))

def factDef : FnDef := { nparams := 1, nlocals := 2, body := factBody }

def prog : Prog :=
  { fns := fun k => if k = 3 then some factDef else none,
    main :=
      .cons (.assign 0 (.lit 3))
      (.cons (.assign 1 (.lit 4))
      (.cons (.assign 2 (.lit 5))
      (.cons (.whil (.bin 39 (.glob 1) (.lit 6))
        (.cons (.assign 2 (.bin 11 (.glob 2) (.call (.glob 0) (.cons (.glob 1) .nil))))
        (.cons (.assign 1 (.bin 11 (.glob 1) (.lit 7))) .nil)))
      .nil))) }

example : wfProg prog 3 = true := by decide
example : noDeadSs factBody = true := by decide

end Demo

end Tengo.Proofs.C01BridgeF3Comp

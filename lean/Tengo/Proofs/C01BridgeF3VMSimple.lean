import Tengo.Proofs.C01BridgeF3VMRel
/-!
C01 bridge for fragment F3, VM side, layer 2a: ONE STEP of a simple instruction (everything but CALL / RET)
in ANY function frame: the 17 instructions of F0 and GETL / SETL / DEFL. One lemma per instruction
(`sim_…`): the VM's dispatch succeeds, leaves the heap alone, and the cores correspond again.
-/
set_option linter.unusedVariables false
set_option linter.unusedSimpArgs false
namespace Tengo.Proofs.C01BridgeF3
open Tengo.Model Tengo.Model.Spec Tengo.Model.VM Tengo.Proofs.C01Bridge

variable {V : Type}

theorem SlotsRel.set_at {val : V → Value} {stk : Nat → V} {a : Array Value} (h : SlotsRel val stk a)
    (j j' : Nat) (e : j' = j) (v : V) (x : Value) (hx : x = val v) :
    SlotsRel val (F0.upd stk j v) (a.setIfInBounds j' x) := by
  subst e; subst hx; exact h.set _ v

theorem GlobRel3.set_at {n : Nat} {val : V → Value} {g : Nat → V} {a : Array Value} (h : GlobRel3 n val g a)
    (j : Nat) (v : V) (x : Value) (hx : x = val v) :
    GlobRel3 n val (F0.upd g j v) (a.setIfInBounds j x) := by
  subst hx; exact h.set _ v

theorem stackSize_eq : stackSize = 2048 := rfl

/-! ### the VM's opcodes that the old fragment did not have -/

section ops
variable (code : Code) (fr : VM.Frame) (a0 a1 op : Nat) (r : Regs) (g : GSt) (h : Spec.St)

theorem xok_exConstant_fn (cf : Fn) (rf : Nat) (hc : code.consts[a0]? = some (.fn cf rf)) (hlt : r.sp < stackSize) :
    XOk (exConstant code fr a0 a1 op r) g h { regs := pushR r (.cfn rf), next := .seq } := by
  unfold exConstant
  simp only [hc]
  exact XOk.bind (XOk.push r (.cfn rf) g h hlt) (XOk.pure _ g h)

theorem xok_deref (x : Value) (hx : ∀ c, x ≠ .ptr c) : XOk (em (deref x)) g h x := by
  cases x <;> first
    | exact absurd rfl (hx _)
    | rfl

theorem xok_exGetLocal (x : Value) (hx : getSlot r (fr.bp + a0) = x) (hnp : ∀ c, x ≠ .ptr c)
    (hlt : r.sp < stackSize) :
    XOk (exGetLocal code fr a0 a1 op r) g h { regs := pushR r x, next := .seq } := by
  unfold exGetLocal
  rw [hx]
  exact XOk.bind (xok_deref g h x hnp) (XOk.bind (XOk.push r x g h hlt) (XOk.pure _ g h))

theorem xok_exDefineLocal (hsp : 1 ≤ r.sp) (hi : fr.bp + a0 < stackSize) :
    XOk (exDefineLocal code fr a0 a1 op r) g h
      { regs := { stack := r.stack.setIfInBounds (fr.bp + a0) (getSlot r (r.sp - 1)), sp := r.sp - 1,
                  globals := r.globals, fobjs := r.fobjs }, next := .seq } := by
  unfold exDefineLocal
  refine XOk.bind (XOk.need g h hsp) ?_
  exact XOk.bind (XOk.setSlot { r with sp := r.sp - 1 } (fr.bp + a0) _ g h hi) (XOk.pure _ g h)

theorem xok_exSetLocal (hsp : 1 ≤ r.sp) (hi : fr.bp + a0 < stackSize)
    (hnp : ∀ c, getSlot r (fr.bp + a0) ≠ .ptr c) :
    XOk (exSetLocal code fr a0 a1 op r) g h
      { regs := { stack := r.stack.setIfInBounds (fr.bp + a0) (getSlot r (r.sp - 1)), sp := r.sp - 1,
                  globals := r.globals, fobjs := r.fobjs }, next := .seq } := by
  unfold exSetLocal
  refine XOk.bind (XOk.need g h hsp) ?_
  have e : getSlot { r with sp := r.sp - 1 } (fr.bp + a0) = getSlot r (fr.bp + a0) := rfl
  simp only
  generalize hx : getSlot { r with sp := r.sp - 1 } (fr.bp + a0) = x
  rw [e] at hx
  cases x <;> first
    | exact absurd hx (hnp _)
    | exact XOk.bind (XOk.setSlot { r with sp := r.sp - 1 } (fr.bp + a0) _ g h hi) (XOk.pure _ g h)

end ops

/-! ### one step -/

section sim
variable {M : F3.Mach} {K n : Nat} {E : F3.Env V} {val : V → Value} {ref : Nat → Nat} {code : Code}
  {s : F3.St V} {c : Core} {is : List F3.Ins} {f : Fn} {pre post : List F3.Ins} {tl : List UInt8}

theorem rel_top (hrel : Rel3 M n val ref s c) : getSlot c.regs (c.regs.sp - 1) = val (s.stk (s.sp - 1)) := by
  rw [hrel.sp]
  exact hrel.stk.get c.regs rfl _ (by have := hrel.spb; have := stackSize_eq; omega)

theorem rel_snd (hrel : Rel3 M n val ref s c) : getSlot c.regs (c.regs.sp - 2) = val (s.stk (s.sp - 2)) := by
  rw [hrel.sp]
  exact hrel.stk.get c.regs rfl _ (by have := hrel.spb; have := stackSize_eq; omega)

/-- Closing step shared by all simple instructions. -/
theorem sim_finish (hrel : Rel3 M n val ref s c) {i : F3.Ins} (hs : Simple3 i)
    (hat : At3 (K := K) (n := n) code s.fn is s.ip i f pre post tl) (g : GSt) (h : Spec.St) (o : SimpleOut)
    (ho : XOk (execSimple code c.cur (fetchedOf3 i).a0 (fetchedOf3 i).a1 (fetchedOf3 i).op c.regs) g h o)
    (s' : F3.St V) (h' : Rel3 M n val ref s' (nextCore c s.ip i.size o)) :
    ∃ c' al, XOk (exec code c) g h (.next c' al) ∧ Rel3 M n val ref s' c' :=
  ⟨_, _, xok_exec_of3 hs (by rw [hrel.cur.fn]; exact hat.fn) hrel.cur.ip hat.lt hat.fetch ho, h'⟩

/-- Instructions that push one value. -/
theorem sim_push (hrel : Rel3 M n val ref s c) {i : F3.Ins} (hs : Simple3 i)
    (hat : At3 (K := K) (n := n) code s.fn is s.ip i f pre post tl) (g : GSt) (h : Spec.St) (v : V)
    (hb : s.sp + 1 ≤ stackSize)
    (ho : XOk (execSimple code c.cur (fetchedOf3 i).a0 (fetchedOf3 i).a1 (fetchedOf3 i).op c.regs) g h
      { regs := pushR c.regs (val v), next := .seq }) :
    ∃ c' al, XOk (exec code c) g h (.next c' al) ∧ Rel3 M n val ref (pushSt s i.size v) c' := by
  refine sim_finish hrel hs hat g h _ ho _ ?_
  have hsp := hrel.sp
  exact rel_next3 hrel i.size _ (s.ip + i.size) (s.sp + 1) (F0.upd s.stk s.sp v) s.g
    (by show c.regs.sp + 1 = _; rw [hsp]) hb
    (hrel.stk.set_at s.sp c.regs.sp hsp v _ rfl) hrel.glb rfl rfl

theorem sim_const (hcode : CodeRel3 M K n E val ref code) (hrel : Rel3 M n val ref s c) {k : Nat}
    (hat : At3 (K := K) (n := n) code s.fn is s.ip (.const k) f pre post tl) (g : GSt) (h : Spec.St)
    (hb : s.sp + 1 ≤ stackSize) :
    ∃ c' al, XOk (exec code c) g h (.next c' al) ∧ Rel3 M n val ref (pushSt s 3 (E.cs k)) c' := by
  have hlt : c.regs.sp < stackSize := by rw [hrel.sp]; omega
  cases hk : M.fns k with
  | none =>
    exact sim_push hrel (i := .const k) trivial hat g h (E.cs k) hb
      (xok_exConstant code c.cur k 0 0 c.regs g h _ (hcode.vals k hat.rng hk) hlt)
  | some cf =>
    have := xok_exConstant_fn code c.cur k 0 0 c.regs g h _ _ (hcode.fns k cf hk) hlt
    rw [← hcode.csfn k cf hk] at this
    exact sim_push hrel (i := .const k) trivial hat g h (E.cs k) hb this

theorem sim_tru (hD : DataRel E.S val) (hrel : Rel3 M n val ref s c)
    (hat : At3 (K := K) (n := n) code s.fn is s.ip .tru f pre post tl) (g : GSt) (h : Spec.St)
    (hb : s.sp + 1 ≤ stackSize) :
    ∃ c' al, XOk (exec code c) g h (.next c' al) ∧ Rel3 M n val ref (pushSt s 1 (E.S.ofBool true)) c' := by
  have hlt : c.regs.sp < stackSize := by rw [hrel.sp]; omega
  have := xok_exTrue code c.cur 0 0 3 c.regs g h hlt
  rw [← hD.ofBool true] at this
  exact sim_push hrel (i := .tru) trivial hat g h _ hb this

theorem sim_fls (hD : DataRel E.S val) (hrel : Rel3 M n val ref s c)
    (hat : At3 (K := K) (n := n) code s.fn is s.ip .fls f pre post tl) (g : GSt) (h : Spec.St)
    (hb : s.sp + 1 ≤ stackSize) :
    ∃ c' al, XOk (exec code c) g h (.next c' al) ∧ Rel3 M n val ref (pushSt s 1 (E.S.ofBool false)) c' := by
  have hlt : c.regs.sp < stackSize := by rw [hrel.sp]; omega
  have := xok_exFalse code c.cur 0 0 4 c.regs g h hlt
  rw [← hD.ofBool false] at this
  exact sim_push hrel (i := .fls) trivial hat g h _ hb this

theorem sim_null (hD : DataRel E.S val) (hrel : Rel3 M n val ref s c)
    (hat : At3 (K := K) (n := n) code s.fn is s.ip .null f pre post tl) (g : GSt) (h : Spec.St)
    (hb : s.sp + 1 ≤ stackSize) :
    ∃ c' al, XOk (exec code c) g h (.next c' al) ∧ Rel3 M n val ref (pushSt s 1 E.S.undef) c' := by
  have hlt : c.regs.sp < stackSize := by rw [hrel.sp]; omega
  have := xok_exNull code c.cur 0 0 13 c.regs g h hlt
  rw [← hD.undef] at this
  exact sim_push hrel (i := .null) trivial hat g h _ hb this

theorem sim_getg (hrel : Rel3 M n val ref s c) {j : Nat}
    (hat : At3 (K := K) (n := n) code s.fn is s.ip (.getg j) f pre post tl) (g : GSt) (h : Spec.St)
    (hb : s.sp + 1 ≤ stackSize) :
    ∃ c' al, XOk (exec code c) g h (.next c' al) ∧ Rel3 M n val ref (pushSt s 3 (s.g j)) c' := by
  have hlt : c.regs.sp < stackSize := by rw [hrel.sp]; omega
  have hj : j < c.regs.globals.size := by rw [hrel.glb.1]; exact hat.rng
  have := xok_exGetGlobal code c.cur j 0 22 c.regs g h hlt hj
  rw [hrel.glb.2 j hat.rng] at this
  exact sim_push hrel (i := .getg j) trivial hat g h _ hb this

theorem sim_getl (hD : DataRel E.S val) (hrel : Rel3 M n val ref s c) {j : Nat}
    (hat : At3 (K := K) (n := n) code s.fn is s.ip (.getl j) f pre post tl) (g : GSt) (h : Spec.St)
    (hb : s.sp + 1 ≤ stackSize) (hj : s.bp + j < stackSize) :
    ∃ c' al, XOk (exec code c) g h (.next c' al) ∧ Rel3 M n val ref (pushSt s 2 (s.stk (s.bp + j))) c' := by
  have hlt : c.regs.sp < stackSize := by rw [hrel.sp]; omega
  have hx : getSlot c.regs (c.cur.bp + j) = val (s.stk (s.bp + j)) := by
    rw [hrel.cur.bp]; exact hrel.stk.get c.regs rfl _ hj
  exact sim_push hrel (i := .getl j) trivial hat g h _ hb
    (xok_exGetLocal code c.cur j 0 25 c.regs g h _ hx (hD.noptr _) hlt)

theorem sim_jmp (hrel : Rel3 M n val ref s c) {t : Nat}
    (hat : At3 (K := K) (n := n) code s.fn is s.ip (.jmp t) f pre post tl) (g : GSt) (h : Spec.St) :
    ∃ c' al, XOk (exec code c) g h (.next c' al) ∧ Rel3 M n val ref { s with ip := t } c' := by
  refine sim_finish hrel (i := .jmp t) trivial hat g h _ (xok_exJump code c.cur t 0 12 c.regs g h) _ ?_
  exact rel_next3 hrel 5 _ t s.sp s.stk s.g hrel.sp hrel.spb hrel.stk hrel.glb rfl rfl

theorem sim_pop (hrel : Rel3 M n val ref s c)
    (hat : At3 (K := K) (n := n) code s.fn is s.ip .pop f pre post tl) (g : GSt) (h : Spec.St)
    (h1 : 1 ≤ s.sp) :
    ∃ c' al, XOk (exec code c) g h (.next c' al) ∧
      Rel3 M n val ref { s with ip := s.ip + 1, sp := s.sp - 1 } c' := by
  have hsp := hrel.sp
  have hspb := hrel.spb
  refine sim_finish hrel (i := .pop) trivial hat g h _
    (xok_exPop code c.cur 0 0 2 c.regs g h (by omega)) _ ?_
  exact rel_next3 hrel 1 _ (s.ip + 1) (s.sp - 1) s.stk s.g (by show c.regs.sp - 1 = _; rw [hsp])
    (by omega) hrel.stk hrel.glb rfl rfl

theorem sim_setg (hrel : Rel3 M n val ref s c) {j : Nat}
    (hat : At3 (K := K) (n := n) code s.fn is s.ip (.setg j) f pre post tl) (g : GSt) (h : Spec.St)
    (h1 : 1 ≤ s.sp) :
    ∃ c' al, XOk (exec code c) g h (.next c' al) ∧
      Rel3 M n val ref { s with ip := s.ip + 3, sp := s.sp - 1, g := F0.upd s.g j (s.stk (s.sp - 1)) } c' := by
  have hsp := hrel.sp
  have hspb := hrel.spb
  have hj : j < c.regs.globals.size := by rw [hrel.glb.1]; exact hat.rng
  refine sim_finish hrel (i := .setg j) trivial hat g h _
    (xok_exSetGlobal code c.cur j 0 23 c.regs g h (by omega) hj) _ ?_
  exact rel_next3 hrel 3 _ (s.ip + 3) (s.sp - 1) s.stk _ (by show c.regs.sp - 1 = _; rw [hsp])
    (by omega) hrel.stk (hrel.glb.set_at j _ _ (rel_top hrel)) rfl rfl

theorem sim_defl (hrel : Rel3 M n val ref s c) {j : Nat}
    (hat : At3 (K := K) (n := n) code s.fn is s.ip (.defl j) f pre post tl) (g : GSt) (h : Spec.St)
    (h1 : 1 ≤ s.sp) (hj : s.bp + j < stackSize) :
    ∃ c' al, XOk (exec code c) g h (.next c' al) ∧
      Rel3 M n val ref
        { s with ip := s.ip + 2, sp := s.sp - 1, stk := F0.upd s.stk (s.bp + j) (s.stk (s.sp - 1)) } c' := by
  have hsp := hrel.sp
  have hspb := hrel.spb
  have hbp := hrel.cur.bp
  refine sim_finish hrel (i := .defl j) trivial hat g h _
    (xok_exDefineLocal code c.cur j 0 27 c.regs g h (by omega) (by rw [hbp]; exact hj)) _ ?_
  exact rel_next3 hrel 2 _ (s.ip + 2) (s.sp - 1) _ s.g (by show c.regs.sp - 1 = _; rw [hsp])
    (by omega) (hrel.stk.set_at (s.bp + j) (c.cur.bp + j) (by rw [hbp]) _ _ (rel_top hrel)) hrel.glb rfl rfl

theorem sim_setl (hD : DataRel E.S val) (hrel : Rel3 M n val ref s c) {j : Nat}
    (hat : At3 (K := K) (n := n) code s.fn is s.ip (.setl j) f pre post tl) (g : GSt) (h : Spec.St)
    (h1 : 1 ≤ s.sp) (hj : s.bp + j < stackSize) :
    ∃ c' al, XOk (exec code c) g h (.next c' al) ∧
      Rel3 M n val ref
        { s with ip := s.ip + 2, sp := s.sp - 1, stk := F0.upd s.stk (s.bp + j) (s.stk (s.sp - 1)) } c' := by
  have hsp := hrel.sp
  have hspb := hrel.spb
  have hbp := hrel.cur.bp
  have hx : getSlot c.regs (c.cur.bp + j) = val (s.stk (s.bp + j)) := by
    rw [hbp]; exact hrel.stk.get c.regs rfl _ hj
  refine sim_finish hrel (i := .setl j) trivial hat g h _
    (xok_exSetLocal code c.cur j 0 26 c.regs g h (by omega) (by rw [hbp]; exact hj)
      (by rw [hx]; exact hD.noptr _)) _ ?_
  exact rel_next3 hrel 2 _ (s.ip + 2) (s.sp - 1) _ s.g (by show c.regs.sp - 1 = _; rw [hsp])
    (by omega) (hrel.stk.set_at (s.bp + j) (c.cur.bp + j) (by rw [hbp]) _ _ (rel_top hrel)) hrel.glb rfl rfl

theorem sim_jmpf (hD : DataRel E.S val) (hrel : Rel3 M n val ref s c) {t : Nat}
    (hat : At3 (K := K) (n := n) code s.fn is s.ip (.jmpf t) f pre post tl) (g : GSt) (h : Spec.St)
    (h1 : 1 ≤ s.sp) :
    ∃ c' al, XOk (exec code c) g h (.next c' al) ∧
      Rel3 M n val ref
        { s with ip := (if E.S.falsy (s.stk (s.sp - 1)) then t else s.ip + 5), sp := s.sp - 1 } c' := by
  have hsp := hrel.sp
  have hspb := hrel.spb
  refine sim_finish hrel (i := .jmpf t) trivial hat g h _
    (xok_exJumpFalsy code c.cur t 0 9 c.regs g h (E.S.falsy (s.stk (s.sp - 1))) (by omega)
      (by rw [rel_top hrel]; exact hD.falsy _ h)) _ ?_
  refine rel_next3 hrel 5 _ _ (s.sp - 1) s.stk s.g (by show c.regs.sp - 1 = _; rw [hsp])
    (by omega) hrel.stk hrel.glb rfl ?_
  cases E.S.falsy (s.stk (s.sp - 1)) <;> simp

theorem sim_andjmp (hD : DataRel E.S val) (hrel : Rel3 M n val ref s c) {t : Nat}
    (hat : At3 (K := K) (n := n) code s.fn is s.ip (.andjmp t) f pre post tl) (g : GSt) (h : Spec.St)
    (h1 : 1 ≤ s.sp) :
    ∃ c' al, XOk (exec code c) g h (.next c' al) ∧
      Rel3 M n val ref
        (if E.S.falsy (s.stk (s.sp - 1)) then { s with ip := t } else { s with ip := s.ip + 5, sp := s.sp - 1 })
        c' := by
  have hsp := hrel.sp
  have hspb := hrel.spb
  have hx := xok_exAndJump code c.cur t 0 10 c.regs g h (E.S.falsy (s.stk (s.sp - 1))) (by omega)
      (by rw [rel_top hrel]; exact hD.falsy _ h)
  cases hfa : E.S.falsy (s.stk (s.sp - 1)) with
  | true =>
    rw [hfa] at hx
    simp only [if_true] at hx ⊢
    refine sim_finish hrel (i := .andjmp t) trivial hat g h _ hx _ ?_
    exact rel_next3 hrel 5 _ t s.sp s.stk s.g hrel.sp hrel.spb hrel.stk hrel.glb rfl rfl
  | false =>
    rw [hfa] at hx
    simp only [Bool.false_eq_true, if_false] at hx ⊢
    refine sim_finish hrel (i := .andjmp t) trivial hat g h _ hx _ ?_
    exact rel_next3 hrel 5 _ (s.ip + 5) (s.sp - 1) s.stk s.g (by show c.regs.sp - 1 = _; rw [hsp])
      (by omega) hrel.stk hrel.glb rfl rfl

theorem sim_orjmp (hD : DataRel E.S val) (hrel : Rel3 M n val ref s c) {t : Nat}
    (hat : At3 (K := K) (n := n) code s.fn is s.ip (.orjmp t) f pre post tl) (g : GSt) (h : Spec.St)
    (h1 : 1 ≤ s.sp) :
    ∃ c' al, XOk (exec code c) g h (.next c' al) ∧
      Rel3 M n val ref
        (if E.S.falsy (s.stk (s.sp - 1)) then { s with ip := s.ip + 5, sp := s.sp - 1 } else { s with ip := t })
        c' := by
  have hsp := hrel.sp
  have hspb := hrel.spb
  have hx := xok_exOrJump code c.cur t 0 11 c.regs g h (E.S.falsy (s.stk (s.sp - 1))) (by omega)
      (by rw [rel_top hrel]; exact hD.falsy _ h)
  cases hfa : E.S.falsy (s.stk (s.sp - 1)) with
  | true =>
    rw [hfa] at hx
    simp only [if_true] at hx ⊢
    refine sim_finish hrel (i := .orjmp t) trivial hat g h _ hx _ ?_
    exact rel_next3 hrel 5 _ (s.ip + 5) (s.sp - 1) s.stk s.g (by show c.regs.sp - 1 = _; rw [hsp])
      (by omega) hrel.stk hrel.glb rfl rfl
  | false =>
    rw [hfa] at hx
    simp only [Bool.false_eq_true, if_false] at hx ⊢
    refine sim_finish hrel (i := .orjmp t) trivial hat g h _ hx _ ?_
    exact rel_next3 hrel 5 _ t s.sp s.stk s.g hrel.sp hrel.spb hrel.stk hrel.glb rfl rfl

/-- Relation after "pop two, push one". -/
theorem rel_repl2 (hrel : Rel3 M n val ref s c) (size : Nat) (v : V) (x : Value) (hx : x = val v) (al : Bool)
    (h2 : 2 ≤ s.sp) :
    Rel3 M n val ref (repl2St s size v)
      (nextCore c s.ip size
        { regs := { stack := c.regs.stack.setIfInBounds (c.regs.sp - 2) x, sp := c.regs.sp - 1,
                    globals := c.regs.globals, fobjs := c.regs.fobjs }, next := .seq, alloc := al }) := by
  have hsp := hrel.sp
  have hspb := hrel.spb
  exact rel_next3 hrel size _ (s.ip + size) (s.sp - 1) _ s.g (by show c.regs.sp - 1 = _; rw [hsp])
    (by omega) (hrel.stk.set_at (s.sp - 2) (c.regs.sp - 2) (by rw [hsp]) v x hx) hrel.glb rfl rfl

/-- Relation after "replace the top". -/
theorem rel_repl1 (hrel : Rel3 M n val ref s c) (size : Nat) (v : V) (x : Value) (hx : x = val v) (al : Bool) :
    Rel3 M n val ref (repl1St s size v)
      (nextCore c s.ip size
        { regs := { c.regs with stack := c.regs.stack.setIfInBounds (c.regs.sp - 1) x }, next := .seq, alloc := al }) := by
  have hsp := hrel.sp
  exact rel_next3 hrel size _ (s.ip + size) s.sp _ s.g hsp hrel.spb
    (hrel.stk.set_at (s.sp - 1) (c.regs.sp - 1) (by rw [hsp]) v x hx) hrel.glb rfl rfl

theorem sim_binop (hD : DataRel E.S val) (hrel : Rel3 M n val ref s c) {tok : Nat} {v : V}
    (hat : At3 (K := K) (n := n) code s.fn is s.ip (.binop tok) f pre post tl) (g : GSt) (h : Spec.St)
    (h2 : 2 ≤ s.sp) (hv : E.S.binop tok (s.stk (s.sp - 2)) (s.stk (s.sp - 1)) = some v) :
    ∃ c' al, XOk (exec code c) g h (.next c' al) ∧ Rel3 M n val ref (repl2St s 2 v) c' := by
  have hsp := hrel.sp
  have hspb := hrel.spb
  refine sim_finish hrel (i := .binop tok) trivial hat g h _
    (xok_exBinaryOp code c.cur tok 0 40 c.regs g h (val v) (by omega) (by omega)
      (by rw [rel_top hrel, rel_snd hrel]; exact hD.binop_ok tok _ _ v h hv)) _ ?_
  exact rel_repl2 hrel 2 v _ rfl true h2

theorem sim_eql (hD : DataRel E.S val) (hrel : Rel3 M n val ref s c)
    (hat : At3 (K := K) (n := n) code s.fn is s.ip .eql f pre post tl) (g : GSt) (h : Spec.St)
    (h2 : 2 ≤ s.sp) :
    ∃ c' al, XOk (exec code c) g h (.next c' al) ∧
      Rel3 M n val ref (repl2St s 1 (E.S.ofBool (E.S.eqv (s.stk (s.sp - 2)) (s.stk (s.sp - 1))))) c' := by
  have hsp := hrel.sp
  have hspb := hrel.spb
  refine sim_finish hrel (i := .eql) trivial hat g h _
    (xok_exEqual code c.cur 0 0 5 c.regs g h (E.S.eqv (s.stk (s.sp - 2)) (s.stk (s.sp - 1))) (by omega) (by omega)
      (by rw [rel_top hrel, rel_snd hrel]; exact hD.eqv _ _ h)) _ ?_
  exact rel_repl2 hrel 1 _ _ (hD.ofBool _).symm false h2

theorem sim_neq (hD : DataRel E.S val) (hrel : Rel3 M n val ref s c)
    (hat : At3 (K := K) (n := n) code s.fn is s.ip .neq f pre post tl) (g : GSt) (h : Spec.St)
    (h2 : 2 ≤ s.sp) :
    ∃ c' al, XOk (exec code c) g h (.next c' al) ∧
      Rel3 M n val ref (repl2St s 1 (E.S.ofBool (!E.S.eqv (s.stk (s.sp - 2)) (s.stk (s.sp - 1))))) c' := by
  have hsp := hrel.sp
  have hspb := hrel.spb
  refine sim_finish hrel (i := .neq) trivial hat g h _
    (xok_exEqual code c.cur 0 0 6 c.regs g h (E.S.eqv (s.stk (s.sp - 2)) (s.stk (s.sp - 1))) (by omega) (by omega)
      (by rw [rel_top hrel, rel_snd hrel]; exact hD.eqv _ _ h)) _ ?_
  exact rel_repl2 hrel 1 _ _ (hD.ofBool _).symm false h2

theorem sim_lnot (hD : DataRel E.S val) (hrel : Rel3 M n val ref s c)
    (hat : At3 (K := K) (n := n) code s.fn is s.ip .lnot f pre post tl) (g : GSt) (h : Spec.St)
    (h1 : 1 ≤ s.sp) :
    ∃ c' al, XOk (exec code c) g h (.next c' al) ∧
      Rel3 M n val ref (repl1St s 1 (E.S.ofBool (E.S.falsy (s.stk (s.sp - 1))))) c' := by
  have hsp := hrel.sp
  have hspb := hrel.spb
  refine sim_finish hrel (i := .lnot) trivial hat g h _
    (xok_exLNot code c.cur 0 0 8 c.regs g h (E.S.falsy (s.stk (s.sp - 1))) (by omega) (by omega)
      (by rw [rel_top hrel]; exact hD.falsy _ h)) _ ?_
  exact rel_repl1 hrel 1 _ _ (hD.ofBool _).symm false

theorem sim_minus (hD : DataRel E.S val) (hrel : Rel3 M n val ref s c) {v : V}
    (hat : At3 (K := K) (n := n) code s.fn is s.ip .minus f pre post tl) (g : GSt) (h : Spec.St)
    (h1 : 1 ≤ s.sp) (hv : E.S.neg (s.stk (s.sp - 1)) = some v) :
    ∃ c' al, XOk (exec code c) g h (.next c' al) ∧ Rel3 M n val ref (repl1St s 1 v) c' := by
  have hsp := hrel.sp
  have hspb := hrel.spb
  rcases hD.neg_some _ _ hv with ⟨m, ha, hr⟩ | ⟨x, ha, hr⟩
  · refine sim_finish hrel (i := .minus) trivial hat g h _
      (xok_exMinus_int code c.cur 0 0 7 c.regs g h m (by omega) (by omega)
        (by rw [rel_top hrel]; exact ha)) _ ?_
    exact rel_repl1 hrel 1 v _ hr.symm true
  · refine sim_finish hrel (i := .minus) trivial hat g h _
      (xok_exMinus_float code c.cur 0 0 7 c.regs g h x (by omega) (by omega)
        (by rw [rel_top hrel]; exact ha)) _ ?_
    exact rel_repl1 hrel 1 v _ hr.symm true

theorem sim_bcompl (hD : DataRel E.S val) (hrel : Rel3 M n val ref s c) {v : V}
    (hat : At3 (K := K) (n := n) code s.fn is s.ip .bcompl f pre post tl) (g : GSt) (h : Spec.St)
    (h1 : 1 ≤ s.sp) (hv : E.S.bnot (s.stk (s.sp - 1)) = some v) :
    ∃ c' al, XOk (exec code c) g h (.next c' al) ∧ Rel3 M n val ref (repl1St s 1 v) c' := by
  have hsp := hrel.sp
  have hspb := hrel.spb
  obtain ⟨m, ha, hr⟩ := hD.bnot_some _ _ hv
  refine sim_finish hrel (i := .bcompl) trivial hat g h _
    (xok_exBComplement code c.cur 0 0 1 c.regs g h m (by omega) (by omega)
      (by rw [rel_top hrel]; exact ha)) _ ?_
  exact rel_repl1 hrel 1 v _ hr.symm true

end sim

end Tengo.Proofs.C01BridgeF3

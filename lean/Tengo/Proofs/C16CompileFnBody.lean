import Tengo.Proofs.C16CompileTail
import Tengo.Proofs.C16CompileFnAssign
import Tengo.Proofs.C16CompileFnIf
import Tengo.Proofs.C16CompileFnLoop
/-!
C16 / `tail_pattern_sound`, layer 3d: statement lists.

* `passes st` (decidable, syntactic): `st` is an expression statement, an assignment `l op= r` / `l++`, an `if`
  statement (any init / blocks / else), a `for` WITH a condition, a `for … in`, the empty statement or `export` —
  the statements after which `optimizeFunc` never treats the following code as dead (`stmt_thru`). Not included:
  `return`, `break`, `continue`, a bare block, `for` without condition (it can make what follows dead).
* `stmts_pre`: compiling `pre ++ [last]` with every statement of `pre` passing = a `Thru` prefix block, then `last`
  compiled in the state reached.
* `TailEnd`: the shape `P ++ N ++ [CALL n s, z]` of the code of the last statement (`P` lets the dead-code pass
  through, `N` has no RETURN); `ret_tailEnd` (`return e`), `expr_tailEnd` (`e` as statement), for `TailE e`.
-/
set_option linter.unusedVariables false
set_option linter.unusedSimpArgs false
namespace Tengo.Proofs.C16Fn
open Tengo.Model Tengo.Model.Opcodes Tengo.Model.Compiler Tengo.Model.Optimizer Tengo.Model.Verifier
open Tengo.Model.Spec (Expr Stmt)
open Tengo.Proofs.C03 Tengo.Proofs.C03Reloc Tengo.Proofs.C02Compile Tengo.Proofs.C16Compile

/-- statement result whose block lets the dead-code pass through -/
def SResT (s s' : CState) (L : List Instr) (F : List Nat) (n : Nat) : Prop :=
  ∃ B F' bs cs, SOut s s' L F n B F' bs cs ∧ Thru (totalSize L) (totalSize L + totalSize B) B

theorem SResN.toT {s s' : CState} {L : List Instr} {F : List Nat} {n : Nat} (h : SResN s s' L F n) :
    SResT s s' L F n := by
  obtain ⟨B, F', bs, cs, ho, hn, _⟩ := h
  exact ⟨B, F', bs, cs, ho, Thru.ofNoRet ho.blk.lay (NoPR.noRet hn)⟩

theorem SResJ.toT {s s' : CState} {L : List Instr} {F : List Nat} {n : Nat} (h : SResJ s s' L F n) :
    SResT s s' L F n := by
  obtain ⟨B, F', bs, cs, ho, j, hj, hjj, hjt⟩ := h
  exact ⟨B, F', bs, cs, ho, Thru.ofJump hj hjj hjt⟩

theorem SResT.nil {s : CState} {L : List Instr} {F : List Nat} (h : Inv s L F) : SResT s s L F 0 :=
  ⟨[], F, [], [], ⟨by simpa using h, Step.refl s F, (addPend_nil _).symm, fun _ => ⟨rfl, rfl⟩, by simp,
    by simpa using SBlk.nil (totalSize L)⟩, by simpa using Thru.nil (totalSize L)⟩

theorem SResT.mono {s s' : CState} {L : List Instr} {F : List Nat} {n n' : Nat} (h : SResT s s' L F n)
    (hn : n ≤ n') : SResT s s' L F n' := by
  obtain ⟨B, F', bs, cs, ho, ht⟩ := h
  exact ⟨B, F', bs, cs, ⟨ho.inv, ho.step, ho.loops, ho.nopend, Nat.le_trans ho.size hn, ho.blk⟩, ht⟩

theorem pop_ne_ret : opPop ≠ opReturn := by decide

/-- expression statement: `e; POP`, no RETURN -/
theorem exprStmt_T {d : Nat} (e : Expr) (s s' : CState) (L : List Instr) (F : List Nat)
    (h : compileStmt (d + 1) (.expr e) s = .ok ((), s')) (hinv : Inv s L F)
    (hsz : szS (d + 1) (.expr e) < 2 ^ 30) : SResT s s' L F (szS (d + 1) (.expr e)) := by
  rw [compileStmt] at h
  have hszd : szS (d + 1) (.expr e) = szE d e + 1 := by rw [szS]
  rw [hszd] at hsz ⊢
  obtain ⟨_, s1, h1, h⟩ := bind_ok h
  have e3 := demit_ok h; simp only at e3; subst e3
  obtain ⟨B₁, F₁, o1, hb1⟩ := (all_spec d).e e s s1 L F h1 hinv (by omega)
  have e1 : totalSize (L ++ B₁) = totalSize L + totalSize B₁ := totalSize_append _ _
  have hinv' := o1.inv.emit (op := opPop) (args := []) ⟨[], rfl, rfl⟩ (opReq_other rfl)
  rw [e1] at hinv'
  have e3 : (Instr.mk (totalSize L + totalSize B₁) opPop []).size = 1 := rfl
  have hblk : SBlk (totalSize L) (totalSize L + totalSize (B₁ ++ [⟨totalSize L + totalSize B₁, opPop, []⟩]))
      (B₁ ++ [⟨totalSize L + totalSize B₁, opPop, []⟩]) [] [] := by
    have h := SBlk.exprStmt (hb1 0)
    rw [totalSize_append, totalSize_cons, totalSize_nil, e3]
    have e2 : totalSize L + (totalSize B₁ + (1 + 0)) = totalSize L + totalSize B₁ + 1 := by omega
    rw [e2]; exact h
  refine ⟨B₁ ++ [⟨totalSize L + totalSize B₁, opPop, []⟩], F₁, [], [], ⟨by rw [← List.append_assoc]; exact hinv',
    o1.step.trans (Step.of_eq F₁ rfl rfl rfl), ?_, fun _ => ⟨rfl, rfl⟩, ?_, hblk⟩, ?_⟩
  · rw [addPend_nil]; exact o1.loops
  · rw [totalSize_append, totalSize_cons, totalSize_nil, e3]
    have := o1.size; omega
  · refine Thru.ofNoRet hblk.lay ?_
    obtain ⟨H, _, hn, _⟩ := hb1 0
    refine (NoPR.noRet hn).append ?_
    intro i hi
    simp only [List.mem_singleton] at hi
    subst hi
    exact pop_ne_ret

/-- The non-block statements that never make the code after them dead for `optimizeFunc`. -/
def passes0 : Stmt → Bool
  | .expr _ => true
  | .assign _ [_] [_] => true
  | .incdec _ _ => true
  | .ifs _ _ _ _ => true
  | .fors _ (some _) _ _ => true
  | .forin _ _ _ _ => true
  | .empty => true
  | .export _ => true
  | _ => false

theorem stmt_thru0 {d : Nat} (st : Stmt) (hp : passes0 st = true) (s s' : CState) (L : List Instr) (F : List Nat)
    (h : compileStmt (d + 1) st s = .ok ((), s')) (hinv : Inv s L F) (hsz : szS (d + 1) st < 2 ^ 30) :
    SResT s s' L F (szS (d + 1) st) := by
  cases st with
  | expr e => exact exprStmt_T e s s' L F h hinv hsz
  | assign tok lhs rhs =>
    match lhs, rhs, hp with
    | [l], [r], _ =>
      rw [compileStmt] at h
      have hszd : szS (d + 1) (.assign tok [l] [r]) = szAssign d [l] [r] := by rw [szS]
      rw [hszd] at hsz ⊢
      cases d with
      | zero => unfold compileAssign at h; exact (unsupported_ok h).elim
      | succ d => exact (assign_noPR l r tok s s' L F h hinv hsz).toT
  | incdec tok e =>
    rw [compileStmt] at h
    have hszd : szS (d + 1) (.incdec tok e) = szAssign d [e] [.int 1] := by rw [szS]
    rw [hszd] at hsz ⊢
    cases d with
    | zero => unfold compileAssign at h; exact (unsupported_ok h).elim
    | succ d => exact (assign_noPR e (.int 1) _ s s' L F h hinv hsz).toT
  | ifs ini c body els => exact (sspec_ifsJ (all_spec d) ini c body els s s' L F h hinv hsz).toT
  | «export» e =>
    rw [compileStmt] at h
    obtain ⟨st, s0, h0, hA⟩ := bind_ok h
    have e0 := get_ok h0
    have es0 : s0 = s := (Prod.mk.inj e0).2
    subst es0
    split at hA
    · exact (cerr_ok hA).elim
    · have e : s' = s0 := (Prod.mk.inj (pure_ok hA)).2
      subst e
      exact (SResT.nil hinv).mono (Nat.zero_le _)
  | empty =>
    rw [compileStmt] at h
    have e : s' = s := (Prod.mk.inj (pure_ok h)).2
    subst e
    exact (SResT.nil hinv).mono (Nat.zero_le _)
  | fors ini c post body =>
    cases c with
    | none => cases hp
    | some c => exact (sspec_forsJ (all_spec d) ini c post body s s' L F h hinv hsz).toT
  | forin k v it body => exact (sspec_forinJ (all_spec d) k v it body s s' L F h hinv hsz).toT
  | block _ => cases hp
  | branch _ => cases hp
  | ret _ => cases hp
  | bad => cases hp


mutual
/-- The statements that never make the code after them dead for `optimizeFunc`: `passes0`, and a bare block
`{ … }` all of whose statements pass (recursively). -/
def passes : Stmt → Bool
  | .block ss => passesL ss
  | .expr e => passes0 (.expr e)
  | .assign tok l r => passes0 (.assign tok l r)
  | .incdec tok e => passes0 (.incdec tok e)
  | .ifs i c b e => passes0 (.ifs i c b e)
  | .fors i c p b => passes0 (.fors i c p b)
  | .forin k v it b => passes0 (.forin k v it b)
  | .branch tok => passes0 (.branch tok)
  | .ret e => passes0 (.ret e)
  | .export e => passes0 (.export e)
  | .empty => passes0 .empty
  | .bad => passes0 .bad
def passesL : List Stmt → Bool
  | [] => true
  | s :: ss => passes s && passesL ss
end

theorem SResT.bind {s s₁ s₂ : CState} {L : List Instr} {F : List Nat} {n₁ n₂ : Nat}
    (h1 : SResT s s₁ L F n₁) (h2 : ∀ L₁ F₁, Inv s₁ L₁ F₁ → SResT s₁ s₂ L₁ F₁ n₂) :
    SResT s s₂ L F (n₁ + n₂) := by
  obtain ⟨B₁, F₁, bs₁, cs₁, o1, t1⟩ := h1
  obtain ⟨B₂, F₂, bs₂, cs₂, o2, t2⟩ := h2 _ _ o1.inv
  have e1 : totalSize (L ++ B₁) = totalSize L + totalSize B₁ := totalSize_append _ _
  refine ⟨B₁ ++ B₂, F₂, bs₁ ++ bs₂, cs₁ ++ cs₂, ⟨by rw [← List.append_assoc]; exact o2.inv,
    o1.step.trans o2.step, ?_, ?_, by rw [totalSize_append]; have := o1.size; have := o2.size; omega, ?_⟩, ?_⟩
  · rw [o2.loops, o1.loops, addPend_addPend]
  · intro hnil
    obtain ⟨e1, e2⟩ := o1.nopend hnil
    subst e1; subst e2
    obtain ⟨e3, e4⟩ := o2.nopend (by rw [o1.loops]; exact addPend_eq_nil hnil)
    subst e3; subst e4
    exact ⟨rfl, rfl⟩
  · have hb2 := o2.blk
    rw [e1] at hb2
    have h := o1.blk.append hb2
    rw [totalSize_append]
    have e2 : totalSize L + (totalSize B₁ + totalSize B₂) = totalSize L + totalSize B₁ + totalSize B₂ := by omega
    rw [e2]; exact h
  · rw [e1] at t2
    rw [totalSize_append]
    have e2 : totalSize L + (totalSize B₁ + totalSize B₂) = totalSize L + totalSize B₁ + totalSize B₂ := by omega
    rw [e2]; exact t1.append t2

theorem SResT.forked {s s₁ : CState} {L : List Instr} {F : List Nat} {n : Nat} (hinv : Inv s L F)
    (h : SResT (forkS true s) s₁ L F n) : SResT s (unforkS s₁) L F n := by
  obtain ⟨B, F', bs, cs, ho, ht⟩ := h
  obtain ⟨hst, t, ps, htb, hb, hne⟩ := Step.unfork ho.step
  exact ⟨B, F', bs, cs, ⟨ho.inv.unfork htb hb (by rw [hne]; exact hinv.wfc.ne_nil), hst, ho.loops, ho.nopend,
    ho.size, ho.blk⟩, ht⟩

def StmtT (d : Nat) : Prop := ∀ (st : Stmt), passes st = true → ∀ (s s' : CState) (L : List Instr) (F : List Nat),
  compileStmt d st s = .ok ((), s') → Inv s L F → szS d st < 2 ^ 30 → SResT s s' L F (szS d st)
def StmtsT (d : Nat) : Prop := ∀ (ss : List Stmt), passesL ss = true → ∀ (s s' : CState) (L : List Instr) (F : List Nat),
  compileStmts d ss s = .ok ((), s') → Inv s L F → szSs d ss < 2 ^ 30 → SResT s s' L F (szSs d ss)
def BlockT (d : Nat) : Prop := ∀ (ss : List Stmt), passesL ss = true → ∀ (s s' : CState) (L : List Instr) (F : List Nat),
  compileBlock d ss s = .ok ((), s') → Inv s L F → szBlock d ss < 2 ^ 30 → SResT s s' L F (szBlock d ss)

theorem thru_all : ∀ d, StmtT d ∧ StmtsT d ∧ BlockT d
  | 0 => by
    refine ⟨?_, ?_, ?_⟩
    · intro st _ s s' L F h; rw [compileStmt] at h; exact (unsupported_ok h).elim
    · intro ss _ s s' L F h; rw [compileStmts] at h; exact (unsupported_ok h).elim
    · intro ss _ s s' L F h; rw [compileBlock] at h; exact (unsupported_ok h).elim
  | d + 1 => by
    obtain ⟨ihs, ihss, ihb⟩ := thru_all d
    refine ⟨?_, ?_, ?_⟩
    · intro st hp s s' L F h hinv hsz
      by_cases hb : ∃ ss, st = .block ss
      · obtain ⟨ss, rfl⟩ := hb
        rw [compileStmt] at h
        have hszd : szS (d + 1) (.block ss) = szBlock d ss := by rw [szS]
        rw [hszd] at hsz ⊢
        have hp' : passesL ss = true := by rw [passes] at hp; exact hp
        exact ihb ss hp' s s' L F h hinv hsz
      · have hp0 : passes0 st = true := by
          cases st <;> first | (rw [passes] at hp; exact hp) | exact (hb ⟨_, rfl⟩).elim
        exact stmt_thru0 st hp0 s s' L F h hinv hsz
    · intro ss hp s s' L F h hinv hsz
      cases ss with
      | nil =>
        rw [compileStmts] at h
        have e : s' = s := (Prod.mk.inj (pure_ok h)).2
        subst e
        rw [szSs]; exact SResT.nil hinv
      | cons st ss =>
        rw [compileStmts] at h
        have hszd : szSs (d + 1) (st :: ss) = szS d st + szSs d ss := by rw [szSs]
        rw [hszd] at hsz ⊢
        rw [passesL, Bool.and_eq_true] at hp
        obtain ⟨_, s1, h1, h⟩ := bind_ok h
        exact (ihs st hp.1 s s1 L F h1 hinv (by omega)).bind
          (fun L₁ F₁ hinv1 => ihss ss hp.2 s1 s' L₁ F₁ h hinv1 (by omega))
    · intro ss hp s s' L F h hinv hsz
      cases ss with
      | nil =>
        rw [compileBlock] at h
        have e : s' = s := (Prod.mk.inj (pure_ok h)).2
        subst e
        rw [szBlock]; exact SResT.nil hinv
      | cons st ss =>
        have hcb : compileBlock (d + 1) (st :: ss) = (do fork true; compileStmts d (st :: ss); unfork) := by
          rw [compileBlock]; simp
        rw [hcb] at h
        have hszd : szBlock (d + 1) (st :: ss) = szSs d (st :: ss) := by rw [szBlock]; simp
        rw [hszd] at hsz ⊢
        obtain ⟨_, s0, h0, h⟩ := bind_ok h
        obtain ⟨_, s1, h1, h⟩ := bind_ok h
        have e0 : s0 = forkS true s := by
          rw [fork_run] at h0; injection h0 with h0; exact (Prod.mk.inj h0).2.symm
        have e2 : s' = unforkS s1 := by
          rw [unfork_run] at h; injection h with h; exact (Prod.mk.inj h).2.symm
        subst e0; subst e2
        exact SResT.forked hinv (ihss (st :: ss) hp _ s1 L F h1 hinv.fork hsz)

theorem stmt_thru {d : Nat} (st : Stmt) (hp : passes st = true) (s s' : CState) (L : List Instr) (F : List Nat)
    (h : compileStmt (d + 1) st s = .ok ((), s')) (hinv : Inv s L F) (hsz : szS (d + 1) st < 2 ^ 30) :
    SResT s s' L F (szS (d + 1) st) :=
  (thru_all (d + 1)).1 st hp s s' L F h hinv hsz

/-- **Statement lists.** `pre ++ last :: post` with every statement of `pre` passing, outside any loop: the code of
`pre` is a closed block `Bp` that lets the dead-code pass through, `last` is compiled (with some positive
budget) in the state reached, then `post`. -/
theorem stmts_pre : ∀ (pre : List Stmt) (d : Nat) (last : Stmt) (post : List Stmt) (s s' : CState) (L : List Instr)
    (F : List Nat),
    compileStmts d (pre ++ last :: post) s = .ok ((), s') → Inv s L F → szSs d (pre ++ last :: post) < 2 ^ 30 →
    (∀ st ∈ pre, passes st = true) → s.loops = [] →
    ∃ d' s1 sm Bp F1, compileStmt (d' + 1) last s1 = .ok ((), sm) ∧ compileStmts (d' + 1) post sm = .ok ((), s') ∧
      Inv s1 (L ++ Bp) F1 ∧ Step s s1 F F1 ∧
      s1.loops = [] ∧ Thru (totalSize L) (totalSize L + totalSize Bp) Bp ∧
      SBlk (totalSize L) (totalSize L + totalSize Bp) Bp [] [] ∧ szS (d' + 1) last < 2 ^ 30 ∧
      szSs (d' + 1) post < 2 ^ 30
  | [], d, last, post, s, s', L, F, h, hinv, hsz, _, hl => by
    cases d with
    | zero => rw [compileStmts] at h; exact (unsupported_ok h).elim
    | succ d0 =>
      simp only [List.nil_append] at h hsz
      rw [compileStmts] at h
      have hszd : szSs (d0 + 1) (last :: post) = szS d0 last + szSs d0 post := by rw [szSs]
      rw [hszd] at hsz
      obtain ⟨_, s1, h1, h2⟩ := bind_ok h
      cases d0 with
      | zero => rw [compileStmt] at h1; exact (unsupported_ok h1).elim
      | succ d' =>
        exact ⟨d', s, s1, [], F, h1, h2, by simpa using hinv, Step.refl _ _, hl, by simpa using Thru.nil (totalSize L),
          by simpa using SBlk.nil (totalSize L), by omega, by omega⟩
  | st :: pre, d, last, post, s, s', L, F, h, hinv, hsz, hp, hl => by
    cases d with
    | zero => rw [List.cons_append, compileStmts] at h; exact (unsupported_ok h).elim
    | succ d0 =>
      rw [List.cons_append] at h hsz
      rw [compileStmts] at h
      have hszd : szSs (d0 + 1) (st :: (pre ++ last :: post)) = szS d0 st + szSs d0 (pre ++ last :: post) := by
        rw [szSs]
      rw [hszd] at hsz
      obtain ⟨_, s1, h1, h2⟩ := bind_ok h
      cases d0 with
      | zero => rw [compileStmt] at h1; exact (unsupported_ok h1).elim
      | succ d1 =>
        obtain ⟨B₁, F₁, bs, cs, o1, ht1⟩ := stmt_thru st (hp st List.mem_cons_self) s s1 L F h1 hinv (by omega)
        obtain ⟨ebs, ecs⟩ := o1.nopend hl
        subst ebs; subst ecs
        have hl1 : s1.loops = [] := by rw [o1.loops, hl]; rfl
        obtain ⟨d', s2, sm, Bp, F2, hlast, hpost, hinv2, hst2, hl2, ht2, hb2, hsz2, hsz3⟩ :=
          stmts_pre pre (d1 + 1) last post s1 s' (L ++ B₁) F₁ h2 o1.inv (by omega)
            (fun x hx => hp x (List.mem_cons_of_mem _ hx)) hl1
        have e1 : totalSize (L ++ B₁) = totalSize L + totalSize B₁ := totalSize_append _ _
        rw [e1] at ht2 hb2
        refine ⟨d', s2, sm, B₁ ++ Bp, F2, hlast, hpost, by rw [← List.append_assoc]; exact hinv2, o1.step.trans hst2,
          hl2, ?_, ?_, hsz2, hsz3⟩
        · rw [totalSize_append]
          have e2 : totalSize L + (totalSize B₁ + totalSize Bp) = totalSize L + totalSize B₁ + totalSize Bp := by
            omega
          rw [e2]; exact ht1.append ht2
        · rw [totalSize_append]
          have e2 : totalSize L + (totalSize B₁ + totalSize Bp) = totalSize L + totalSize B₁ + totalSize Bp := by
            omega
          rw [e2]
          have := o1.blk.append hb2
          simpa using this

/-! ### the last statement -/

/-- Shape of the code of a statement whose call is in tail layout: `P ++ N ++ [x, z] ++ R` with `x = CALL n sp`,
`z = zop zargs`, where `P` lets the dead-code pass through and `N` has no RETURN; the whole is a closed statement
block (so `x` sits at `|L| + |P| + |N|`, `z` at `x.pos + 3`). Code `R` after `z` is allowed only when `z` is a
RETURN (`CALL; RETURN` is a tail call whatever follows; `CALL; POP` needs the RETURN that `optimizeFunc` appends
at the end of the body). -/
def TailEnd (s s' : CState) (L : List Instr) (F : List Nat) (n sp zop : Nat) (zargs : List Nat) : Prop :=
  ∃ (P N : List Instr) (x z : Instr) (R : List Instr) (F' : List Nat),
    Inv s' (L ++ (P ++ N ++ [x, z] ++ R)) F' ∧ Step s s' F F' ∧ s'.loops = s.loops ∧
    Thru (totalSize L) (totalSize L + totalSize P) P ∧ NoRet N ∧
    SBlk (totalSize L) (totalSize L + totalSize (P ++ N ++ [x, z] ++ R)) (P ++ N ++ [x, z] ++ R) [] [] ∧
    x.op = opCall ∧ x.args = [n, sp] ∧ z.op = zop ∧ z.args = zargs ∧ (R = [] ∨ zop = opReturn)

theorem noret_of_eblk {lo hi a : Nat} {B0 : List Instr} {c : Instr} (h : EBlk lo hi a (B0 ++ [c])) : NoRet B0 := by
  obtain ⟨H, _, hn, _⟩ := h
  intro i hi
  exact (hn i (List.mem_append_left _ hi)).2

/-- `return e`, call in tail position of `e` -/
theorem ret_tailEnd {d : Nat} {e : Expr} {ell : Bool} {f : Expr} {args : List Expr} (ht : TailE e ell f args)
    (s s' : CState) (L : List Instr) (F : List Nat)
    (h : compileStmt (d + 1) (.ret (some e)) s = .ok ((), s')) (hinv : Inv s L F)
    (hsz : szS (d + 1) (.ret (some e)) < 2 ^ 30) :
    TailEnd s s' L F args.length (if ell then 1 else 0) opReturn [1] := by
  unfold compileStmt at h
  obtain ⟨st, s0, h0, h⟩ := bind_ok h
  have e0 := get_ok h0
  have est : st = s := (Prod.mk.inj e0).1
  have es0 : s0 = s := (Prod.mk.inj e0).2
  rw [est, es0] at h
  clear e0 est es0 h0
  obtain ⟨hg, h⟩ := guard_ok h
  have hg' : globalCtx s.tables = false := by simpa using hg
  have hszd : szS (d + 1) (.ret (some e)) = szE d e + 2 := by simp only [szS]
  rw [hszd] at hsz
  simp only at h
  obtain ⟨_, s1, h1, h⟩ := bind_ok h
  have e3 := demit_ok h; simp only at e3; subst e3
  obtain ⟨B0, F', hinv1, hst1, hl1, hb1⟩ := tailE_tres ht d s s1 L F h1 hinv (by omega)
  have hg1 : globalCtx s1.tables = false := by rw [← hst1.tabs.globalCtx]; exact hg'
  have hinv2 := hinv1.emit (op := opReturn) (args := [1]) ⟨[1], rfl, rfl⟩ (opReq_ret hg1 (by omega))
  have hts : totalSize (L ++ B0 ++ [⟨totalSize L + totalSize B0, opCall, [args.length, if ell then 1 else 0]⟩]) =
      totalSize L + totalSize B0 + 3 := by
    simp only [totalSize_append, totalSize_cons, totalSize_nil]
    have : (Instr.mk (totalSize L + totalSize B0) opCall [args.length, if ell then 1 else 0]).size = 3 :=
      shape_size (ws := [1, 1]) rfl
    omega
  rw [hts] at hinv2
  have hsb := SBlk.ret1 (hb1 0)
  refine ⟨[], B0, ⟨totalSize L + totalSize B0, opCall, [args.length, if ell then 1 else 0]⟩,
    ⟨totalSize L + totalSize B0 + 3, opReturn, [1]⟩, [], F', ?_, hst1.trans (Step.of_eq F' rfl rfl rfl), hl1,
    by simpa using Thru.nil (totalSize L), noret_of_eblk (hb1 0), ?_, rfl, rfl, rfl, rfl, Or.inl rfl⟩
  · simpa using hinv2
  · simp only [List.nil_append, List.append_nil, totalSize_append, totalSize_cons, totalSize_nil, call_sz]
    have e2 : (Instr.mk (totalSize L + totalSize B0 + 3) opReturn [1]).size = 2 := rfl
    rw [e2]
    have e4 : totalSize L + (totalSize B0 + (3 + (2 + 0))) = totalSize L + totalSize B0 + 3 + 2 := by omega
    rw [e4]
    simpa using hsb

/-- `e` as a statement, call in tail position of `e` -/
theorem expr_tailEnd {d : Nat} {e : Expr} {ell : Bool} {f : Expr} {args : List Expr} (ht : TailE e ell f args)
    (s s' : CState) (L : List Instr) (F : List Nat)
    (h : compileStmt (d + 1) (.expr e) s = .ok ((), s')) (hinv : Inv s L F)
    (hsz : szS (d + 1) (.expr e) < 2 ^ 30) :
    TailEnd s s' L F args.length (if ell then 1 else 0) opPop [] := by
  rw [compileStmt] at h
  have hszd : szS (d + 1) (.expr e) = szE d e + 1 := by rw [szS]
  rw [hszd] at hsz
  obtain ⟨_, s1, h1, h⟩ := bind_ok h
  have e3 := demit_ok h; simp only at e3; subst e3
  obtain ⟨B0, F', hinv1, hst1, hl1, hb1⟩ := tailE_tres ht d s s1 L F h1 hinv (by omega)
  have hinv2 := hinv1.emit (op := opPop) (args := []) ⟨[], rfl, rfl⟩ (opReq_other rfl)
  have hts : totalSize (L ++ B0 ++ [⟨totalSize L + totalSize B0, opCall, [args.length, if ell then 1 else 0]⟩]) =
      totalSize L + totalSize B0 + 3 := by
    simp only [totalSize_append, totalSize_cons, totalSize_nil]
    have : (Instr.mk (totalSize L + totalSize B0) opCall [args.length, if ell then 1 else 0]).size = 3 :=
      shape_size (ws := [1, 1]) rfl
    omega
  rw [hts] at hinv2
  have hsb := SBlk.exprStmt (hb1 0)
  refine ⟨[], B0, ⟨totalSize L + totalSize B0, opCall, [args.length, if ell then 1 else 0]⟩,
    ⟨totalSize L + totalSize B0 + 3, opPop, []⟩, [], F', ?_, hst1.trans (Step.of_eq F' rfl rfl rfl), hl1,
    by simpa using Thru.nil (totalSize L), noret_of_eblk (hb1 0), ?_, rfl, rfl, rfl, rfl, Or.inl rfl⟩
  · simpa using hinv2
  · simp only [List.nil_append, List.append_nil, totalSize_append, totalSize_cons, totalSize_nil, call_sz]
    have e2 : (Instr.mk (totalSize L + totalSize B0 + 3) opPop []).size = 1 := rfl
    rw [e2]
    have e4 : totalSize L + (totalSize B0 + (3 + (1 + 0))) = totalSize L + totalSize B0 + 3 + 1 := by omega
    rw [e4]
    simpa using hsb

/-- positions inside a `TailEnd` list -/
theorem tail_positions {lo : Nat} {A R : List Instr} {x z : Instr} (hl : Layout lo (A ++ [x, z] ++ R)) :
    x.pos = lo + totalSize A ∧ z.pos = lo + totalSize A + x.size := by
  have h1 := (layout_split hl).1
  have h2 := (layout_split h1).2
  exact ⟨h2.1, h2.2.1⟩

/-- a statement block in front of a `TailEnd` -/
theorem TailEnd.prepend {s0 s s' : CState} {L B : List Instr} {F0 F : List Nat} {n sp zop : Nat} {zargs : List Nat}
    (hst : Step s0 s F0 F) (hl : s.loops = s0.loops) (hB : Thru (totalSize L) (totalSize L + totalSize B) B)
    (hsb : SBlk (totalSize L) (totalSize L + totalSize B) B [] [])
    (h : TailEnd s s' (L ++ B) F n sp zop zargs) : TailEnd s0 s' L F0 n sp zop zargs := by
  obtain ⟨P, N, x, z, R, F', hinv, hstep, hlo, htP, hnN, hsbl, hx⟩ := h
  rw [totalSize_append] at htP hsbl
  refine ⟨B ++ P, N, x, z, R, F', ?_, hst.trans hstep, hlo.trans hl, ?_, hnN, ?_, hx⟩
  · have e : L ++ (B ++ P ++ N ++ [x, z] ++ R) = L ++ B ++ (P ++ N ++ [x, z] ++ R) := by simp
    rw [e]; exact hinv
  · rw [totalSize_append, ← Nat.add_assoc]; exact hB.append htP
  · have h1 := hsb.append hsbl
    have e : B ++ P ++ N ++ [x, z] ++ R = B ++ (P ++ N ++ [x, z] ++ R) := by simp
    rw [e, totalSize_append, ← Nat.add_assoc]
    simpa using h1

/-- a `TailEnd` compiled inside `fork true … unfork` -/
theorem TailEnd.forked {s s₁ : CState} {L : List Instr} {F : List Nat} {n sp zop : Nat} {zargs : List Nat}
    (hinv : Inv s L F) (h : TailEnd (forkS true s) s₁ L F n sp zop zargs) :
    TailEnd s (unforkS s₁) L F n sp zop zargs := by
  obtain ⟨P, N, x, z, R, F', hi, hstep, hlo, htP, hnN, hsbl, hx⟩ := h
  obtain ⟨hst, t, ps, ht, hb, hne⟩ := Step.unfork hstep
  exact ⟨P, N, x, z, R, F', hi.unfork ht hb (by rw [hne]; exact hinv.wfc.ne_nil), hst, hlo, htP, hnN, hsbl, hx⟩

/-- more statements after a `CALL; RETURN` -/
theorem TailEnd.suffix {s s₁ s₂ : CState} {L : List Instr} {F : List Nat} {n sp m : Nat} {zargs : List Nat}
    (h : TailEnd s s₁ L F n sp opReturn zargs) (hl : s.loops = [])
    (h2 : ∀ L₁ F₁, Inv s₁ L₁ F₁ → SRes s₁ s₂ L₁ F₁ m) : TailEnd s s₂ L F n sp opReturn zargs := by
  obtain ⟨P, N, x, z, R, F', hinv, hstep, hlo, htP, hnN, hsbl, hxo, hxa, hzo, hza, _⟩ := h
  obtain ⟨B₂, F₂, bs, cs, o2⟩ := h2 _ _ hinv
  have hl1 : s₁.loops = [] := by rw [hlo]; exact hl
  obtain ⟨ebs, ecs⟩ := o2.nopend hl1
  subst ebs; subst ecs
  refine ⟨P, N, x, z, R ++ B₂, F₂, ?_, hstep.trans o2.step, ?_, htP, hnN, ?_, hxo, hxa, hzo, hza, Or.inr rfl⟩
  · have e : L ++ (P ++ N ++ [x, z] ++ (R ++ B₂)) = L ++ (P ++ N ++ [x, z] ++ R) ++ B₂ := by simp
    rw [e]; exact o2.inv
  · rw [o2.loops, hl1, hl]; rfl
  · have hb2 := o2.blk
    rw [totalSize_append] at hb2
    have h1 := hsbl.append hb2
    have e : P ++ N ++ [x, z] ++ (R ++ B₂) = (P ++ N ++ [x, z] ++ R) ++ B₂ := by simp
    rw [e, totalSize_append, ← Nat.add_assoc]
    simpa using h1

end Tengo.Proofs.C16Fn

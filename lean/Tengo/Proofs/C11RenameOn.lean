import Tengo.Proofs.C11RenameStmt
/-!
C11, rename invariance of the compiler model for a renaming that is only known on the names that matter:
every map that is injective on a finite list of names agrees there with a globally injective one (a product of
transpositions), and `renameStmts` only looks at the names of the program.
-/
set_option linter.unusedSectionVars false
set_option linter.unusedSimpArgs false
set_option linter.unusedVariables false
namespace Tengo.Proofs.C11Rename
open Tengo.Model Tengo.Model.Compiler
open Tengo.Model.Spec (Expr Stmt)

/-! ## Transpositions -/

/-- Exchange two names. -/
def swapName (a b n : String) : String := if n = a then b else if n = b then a else n

theorem swapName_swapName (a b n : String) : swapName a b (swapName a b n) = n := by
  unfold swapName
  by_cases h1 : n = a
  · subst h1
    by_cases h2 : b = n
    · simp [h2]
    · simp [h2]
  · by_cases h2 : n = b
    · simp [h2]
    · simp [h1, h2]

theorem swapName_fix (a b n : String) (ha : n ≠ a) (hb : n ≠ b) : swapName a b n = n := by
  simp [swapName, ha, hb]

theorem swapName_left (a b : String) : swapName a b a = b := by simp [swapName]

theorem swapName_inj (a b x y : String) (h : swapName a b x = swapName a b y) : x = y := by
  have := congrArg (swapName a b) h
  rwa [swapName_swapName, swapName_swapName] at this

/-! ## From "injective on a list" to "injective" -/

/-- A map that is injective on a list of names agrees on that list with a globally injective map. -/
theorem extend_injOn (ρ : String → String) (S : List String)
    (hinj : ∀ a b, a ∈ S → b ∈ S → ρ a = ρ b → a = b) :
    ∃ π : String → String, (∀ a b, π a = π b → a = b) ∧ ∀ a, a ∈ S → π a = ρ a := by
  induction S with
  | nil => exact ⟨id, fun _ _ h => h, fun a h => nomatch h⟩
  | cons s S ih =>
    obtain ⟨π, πinj, πeq⟩ := ih (fun a b ha hb => hinj a b (List.mem_cons_of_mem _ ha) (List.mem_cons_of_mem _ hb))
    by_cases hs : s ∈ S
    · refine ⟨π, πinj, fun a ha => ?_⟩
      rcases List.mem_cons.mp ha with h | h
      · subst h; exact πeq _ hs
      · exact πeq _ h
    · refine ⟨fun n => swapName (π s) (ρ s) (π n), fun a b h => πinj _ _ (swapName_inj _ _ _ _ h), fun a ha => ?_⟩
      rcases List.mem_cons.mp ha with h | h
      · subst h; exact swapName_left _ _
      · show swapName (π s) (ρ s) (π a) = ρ a
        rw [πeq a h]
        refine swapName_fix _ _ _ (fun e => ?_) (fun e => ?_)
        · have : a = s := πinj _ _ ((πeq a h).trans e)
          exact hs (this ▸ h)
        · have : a = s := hinj a s (List.mem_cons_of_mem _ h) List.mem_cons_self e
          exact hs (this ▸ h)

/-! ## The names of a program -/

mutual
  /-- Every name `renameExpr` applies the renaming to. -/
  def namesExpr : Expr → List String
    | .ident n => [n]
    | .int _ => []
    | .float _ => []
    | .char _ => []
    | .str _ => []
    | .bool _ => []
    | .undef => []
    | .bin _ l r => namesExpr l ++ namesExpr r
    | .un _ e => namesExpr e
    | .cond c t f => namesExpr c ++ (namesExpr t ++ namesExpr f)
    | .paren e => namesExpr e
    | .arr es => namesExprs es
    | .map kvs => namesKVs kvs
    | .sel e s => namesExpr e ++ namesExpr s
    | .idx e i => namesExpr e ++ namesExpr i
    | .slice e lo hi => namesExpr e ++ (namesOptExpr lo ++ namesOptExpr hi)
    | .call _ f args => namesExpr f ++ namesExprs args
    | .func _ ps body => ps ++ namesStmts body
    | .imp _ => []
    | .error e => namesExpr e
    | .immutable e => namesExpr e
    | .bad => []
  def namesOptExpr : Option Expr → List String
    | none => []
    | some e => namesExpr e
  def namesExprs : List Expr → List String
    | [] => []
    | e :: es => namesExpr e ++ namesExprs es
  def namesKVs : List (Spec.Bytes × Expr) → List String
    | [] => []
    | (_, v) :: rest => namesExpr v ++ namesKVs rest
  def namesStmt : Stmt → List String
    | .expr e => namesExpr e
    | .assign _ lhs rhs => namesExprs lhs ++ namesExprs rhs
    | .incdec _ e => namesExpr e
    | .ifs ini c body els => namesOptStmt ini ++ (namesExpr c ++ (namesStmts body ++ namesOptStmt els))
    | .fors ini c post body => namesOptStmt ini ++ (namesOptExpr c ++ (namesOptStmt post ++ namesStmts body))
    | .forin k v it body => k :: v :: (namesExpr it ++ namesStmts body)
    | .block ss => namesStmts ss
    | .branch _ => []
    | .ret e => namesOptExpr e
    | .export e => namesExpr e
    | .empty => []
    | .bad => []
  def namesOptStmt : Option Stmt → List String
    | none => []
    | some s => namesStmt s
  /-- Every identifier, assignment target, parameter and for-in key / value name of the program. -/
  def namesStmts : List Stmt → List String
    | [] => []
    | s :: ss => namesStmt s ++ namesStmts ss
end

section
variable {ρ π : String → String}

theorem map_congr_names (ps : List String) (h : ∀ n, n ∈ ps → ρ n = π n) : ps.map ρ = ps.map π :=
  List.map_congr_left h

local macro "lft" h:ident : term => `(fun n hn => $h n (List.mem_append_left _ hn))
local macro "rgt" h:ident : term => `(fun n hn => $h n (List.mem_append_right _ hn))

mutual
  theorem renameExpr_congr : ∀ (e : Expr), (∀ n, n ∈ namesExpr e → ρ n = π n) → renameExpr ρ e = renameExpr π e
    | .ident n, h => by simp only [renameExpr]; rw [h n (by simp [namesExpr])]
    | .int _, _ => rfl
    | .float _, _ => rfl
    | .char _, _ => rfl
    | .str _, _ => rfl
    | .bool _, _ => rfl
    | .undef, _ => rfl
    | .bin _ l r, h => by
        simp only [namesExpr] at h
        simp only [renameExpr, renameExpr_congr l (lft h), renameExpr_congr r (rgt h)]
    | .un _ e, h => by
        simp only [namesExpr] at h
        simp only [renameExpr, renameExpr_congr e h]
    | .cond c t f, h => by
        simp only [namesExpr] at h
        have h2 := rgt h
        simp only [renameExpr, renameExpr_congr c (lft h), renameExpr_congr t (lft h2), renameExpr_congr f (rgt h2)]
    | .paren e, h => by
        simp only [namesExpr] at h
        simp only [renameExpr, renameExpr_congr e h]
    | .arr es, h => by
        simp only [namesExpr] at h
        simp only [renameExpr, renameExprs_congr es h]
    | .map kvs, h => by
        simp only [namesExpr] at h
        simp only [renameExpr, renameKVs_congr kvs h]
    | .sel e s, h => by
        simp only [namesExpr] at h
        simp only [renameExpr, renameExpr_congr e (lft h), renameExpr_congr s (rgt h)]
    | .idx e s, h => by
        simp only [namesExpr] at h
        simp only [renameExpr, renameExpr_congr e (lft h), renameExpr_congr s (rgt h)]
    | .slice e lo hi, h => by
        simp only [namesExpr] at h
        have h2 := rgt h
        simp only [renameExpr, renameExpr_congr e (lft h), renameOptExpr_congr lo (lft h2),
          renameOptExpr_congr hi (rgt h2)]
    | .call _ f args, h => by
        simp only [namesExpr] at h
        simp only [renameExpr, renameExpr_congr f (lft h), renameExprs_congr args (rgt h)]
    | .func _ ps body, h => by
        simp only [namesExpr] at h
        simp only [renameExpr, map_congr_names ps (lft h), renameStmts_congr body (rgt h)]
    | .imp _, _ => rfl
    | .error e, h => by
        simp only [namesExpr] at h
        simp only [renameExpr, renameExpr_congr e h]
    | .immutable e, h => by
        simp only [namesExpr] at h
        simp only [renameExpr, renameExpr_congr e h]
    | .bad, _ => rfl
  theorem renameOptExpr_congr : ∀ (e : Option Expr), (∀ n, n ∈ namesOptExpr e → ρ n = π n) →
      renameOptExpr ρ e = renameOptExpr π e
    | none, _ => rfl
    | some e, h => by
        simp only [namesOptExpr] at h
        simp only [renameOptExpr, renameExpr_congr e h]
  theorem renameExprs_congr : ∀ (es : List Expr), (∀ n, n ∈ namesExprs es → ρ n = π n) →
      renameExprs ρ es = renameExprs π es
    | [], _ => rfl
    | e :: es, h => by
        simp only [namesExprs] at h
        simp only [renameExprs, renameExpr_congr e (lft h), renameExprs_congr es (rgt h)]
  theorem renameKVs_congr : ∀ (kvs : List (Spec.Bytes × Expr)), (∀ n, n ∈ namesKVs kvs → ρ n = π n) →
      renameKVs ρ kvs = renameKVs π kvs
    | [], _ => rfl
    | (k, v) :: rest, h => by
        simp only [namesKVs] at h
        simp only [renameKVs, renameExpr_congr v (lft h), renameKVs_congr rest (rgt h)]
  theorem renameStmt_congr : ∀ (s : Stmt), (∀ n, n ∈ namesStmt s → ρ n = π n) → renameStmt ρ s = renameStmt π s
    | .expr e, h => by
        simp only [namesStmt] at h
        simp only [renameStmt, renameExpr_congr e h]
    | .assign _ lhs rhs, h => by
        simp only [namesStmt] at h
        simp only [renameStmt, renameExprs_congr lhs (lft h), renameExprs_congr rhs (rgt h)]
    | .incdec _ e, h => by
        simp only [namesStmt] at h
        simp only [renameStmt, renameExpr_congr e h]
    | .ifs ini c body els, h => by
        simp only [namesStmt] at h
        have h2 := rgt h
        have h3 := rgt h2
        simp only [renameStmt, renameOptStmt_congr ini (lft h), renameExpr_congr c (lft h2),
          renameStmts_congr body (lft h3), renameOptStmt_congr els (rgt h3)]
    | .fors ini c post body, h => by
        simp only [namesStmt] at h
        have h2 := rgt h
        have h3 := rgt h2
        simp only [renameStmt, renameOptStmt_congr ini (lft h), renameOptExpr_congr c (lft h2),
          renameOptStmt_congr post (lft h3), renameStmts_congr body (rgt h3)]
    | .forin k v it body, h => by
        simp only [namesStmt] at h
        have hk := h k List.mem_cons_self
        have hv := h v (List.mem_cons_of_mem _ List.mem_cons_self)
        have h2 : ∀ n, n ∈ namesExpr it ++ namesStmts body → ρ n = π n :=
          fun n hn => h n (List.mem_cons_of_mem _ (List.mem_cons_of_mem _ hn))
        simp only [renameStmt, hk, hv, renameExpr_congr it (lft h2), renameStmts_congr body (rgt h2)]
    | .block ss, h => by
        simp only [namesStmt] at h
        simp only [renameStmt, renameStmts_congr ss h]
    | .branch _, _ => rfl
    | .ret e, h => by
        simp only [namesStmt] at h
        simp only [renameStmt, renameOptExpr_congr e h]
    | .export e, h => by
        simp only [namesStmt] at h
        simp only [renameStmt, renameExpr_congr e h]
    | .empty, _ => rfl
    | .bad, _ => rfl
  theorem renameOptStmt_congr : ∀ (s : Option Stmt), (∀ n, n ∈ namesOptStmt s → ρ n = π n) →
      renameOptStmt ρ s = renameOptStmt π s
    | none, _ => rfl
    | some s, h => by
        simp only [namesOptStmt] at h
        simp only [renameOptStmt, renameStmt_congr s h]
  /-- `renameStmts` only looks at the names of the program. -/
  theorem renameStmts_congr : ∀ (ss : List Stmt), (∀ n, n ∈ namesStmts ss → ρ n = π n) →
      renameStmts ρ ss = renameStmts π ss
    | [], _ => rfl
    | s :: ss, h => by
        simp only [namesStmts] at h
        simp only [renameStmts, renameStmt_congr s (lft h), renameStmts_congr ss (rgt h)]
end

end

/-! ## The renaming known on the names that matter -/

/-- The names a renaming has to leave alone: the hidden iterator of for-in, the blank identifier, the empty name
(`resolveAssignLHS` of a target that is no variable) and the builtin function names. -/
def reserved : List String := ":it" :: "_" :: "" :: Spec.builtinNames

/-- `ρ` on the names `names` (of a program and its inputs): distinct names stay distinct, no name is sent
onto a reserved name, and the reserved names stay. What `ρ` does elsewhere does not matter. -/
structure RenamingOn (ρ : String → String) (names : List String) : Prop where
  inj : ∀ a b, a ∈ reserved ++ names → b ∈ reserved ++ names → ρ a = ρ b → a = b
  fix : ∀ n, n ∈ reserved → ρ n = n

theorem Renaming.on {ρ : String → String} (h : Renaming ρ) (names : List String) : RenamingOn ρ names where
  inj a b _ _ e := h.inj a b e
  fix n hn := by
    rcases List.mem_cons.mp hn with e | hn
    · subst e; exact h.hidden
    · rcases List.mem_cons.mp hn with e | hn
      · subst e; exact h.blank
      · rcases List.mem_cons.mp hn with e | hn
        · subst e; exact h.empty
        · exact h.builtin n hn

/-- `ρ` agrees on `names` (and on the reserved names) with a renaming in the sense of `Renaming`. -/
theorem RenamingOn.extend {ρ : String → String} {names : List String} (h : RenamingOn ρ names) :
    ∃ π, Renaming π ∧ ∀ n, n ∈ names → π n = ρ n := by
  obtain ⟨π, πinj, πeq⟩ := extend_injOn ρ (reserved ++ names) h.inj
  have fixr : ∀ n, n ∈ reserved → π n = n := fun n hn =>
    (πeq n (List.mem_append_left _ hn)).trans (h.fix n hn)
  refine ⟨π, ⟨πinj, fun n hn => fixr n ?_, fixr _ ?_, fixr _ ?_, fixr _ ?_⟩,
    fun n hn => πeq n (List.mem_append_right _ hn)⟩
  · exact List.mem_cons_of_mem _ (List.mem_cons_of_mem _ (List.mem_cons_of_mem _ hn))
  · exact List.mem_cons_self
  · exact List.mem_cons_of_mem _ List.mem_cons_self
  · exact List.mem_cons_of_mem _ (List.mem_cons_of_mem _ List.mem_cons_self)

/-- Rename invariance for a renaming known on the names of the program and the inputs: there it is a
`Renaming` `π`, and the outcome is that of `compileFile_rename` for `π`. -/
theorem compileFile_rename_on {ρ : String → String} (ss : List Stmt) (inputs : List String)
    (h : RenamingOn ρ (namesStmts ss ++ inputs)) :
    ∃ π, Renaming π ∧ (∀ n, n ∈ namesStmts ss ++ inputs → π n = ρ n) ∧
      OutRel π (compileFile ss inputs) (compileFile (renameStmts ρ ss) (inputs.map ρ)) := by
  obtain ⟨π, hπ, heq⟩ := h.extend
  refine ⟨π, hπ, heq, ?_⟩
  have e1 : renameStmts ρ ss = renameStmts π ss :=
    renameStmts_congr ss (fun n hn => (heq n (List.mem_append_left _ hn)).symm)
  have e2 : inputs.map ρ = inputs.map π :=
    List.map_congr_left (fun n hn => (heq n (List.mem_append_right _ hn)).symm)
  rw [e1, e2]
  exact compileFile_rename hπ ss inputs

end Tengo.Proofs.C11Rename

import Tengo.Proofs.C02CompileBlocks
import Tengo.Proofs.C03Reloc
/-!
C02 / `compile_verifies`, optimizer layer: `optimizeFunc` (dead-code elimination, jump re-targeting,
trailing RETURN) preserves the abstract stack discipline. A raw function body that is a closed block
from height 0 to height 0 (`Core 0 raw.length 0 0 H is NoT`) is turned into code that is `Closed` for
the height function `newH is H` (the height of the kept instruction laid out at the new offset, 0 at
the new end).
-/
set_option linter.unusedVariables false
set_option linter.unusedSimpArgs false
namespace Tengo.Proofs.C02Compile
open Tengo.Model Tengo.Model.Opcodes Tengo.Model.Optimizer Tengo.Model.Verifier
     Tengo.Proofs.C03 Tengo.Props.C03Sim Tengo.Proofs.C03Reloc

namespace OptTransfer

/-! ### `succs` under re-targeting -/

theorem headD_eq (l : List Nat) : l.headD 0 = l.head?.getD 0 := by cases l <;> rfl

theorem stackEffect_congr {x y : Instr} (h1 : y.op = x.op) (h2 : y.args = x.args) :
    stackEffect y = stackEffect x := by
  unfold stackEffect; rw [h1, h2]

theorem call_ne_ret : opCall ≠ opReturn := by decide
theorem call_not_jump : isJump opCall = false := by decide
theorem jump_isJump : isJump opJump = true := by decide
theorem jumpFalsy_isJump : isJump opJumpFalsy = true := by decide
theorem andJump_isJump : isJump opAndJump = true := by decide
theorem orJump_isJump : isJump opOrJump = true := by decide
theorem jump_ne_ret : opJump ≠ opReturn := by decide
theorem jumpFalsy_ne_ret : opJumpFalsy ≠ opReturn := by decide
theorem andJump_ne_ret : opAndJump ≠ opReturn := by decide
theorem orJump_ne_ret : opOrJump ≠ opReturn := by decide

theorem succs_straight_inv {i : Instr} {pops pushes h : Nat} {l : List (Nat × Nat)}
    (he : stackEffect i = some (pops, pushes)) (hs : succs i h = some l) :
    pops ≤ h ∧ l = [(i.pos + i.size, h - pops + pushes)] := by
  by_cases hp : pops ≤ h
  · rw [succs_straight he hp] at hs
    exact ⟨hp, (Option.some.inj hs).symm⟩
  · exfalso
    have hn : ∀ op, (op = opReturn ∨ op = opSuspend ∨ op = opJump ∨ op = opJumpFalsy ∨
      op = opAndJump ∨ op = opOrJump) → (i.op == op) = false := by
      intro op hop
      cases hb : i.op == op with
      | false => rfl
      | true =>
        have : i.op = op := by simpa using hb
        rw [stackEffect_control (by rw [this]; exact hop)] at he
        cases he
    unfold succs at hs
    simp only [hn opReturn (by simp), hn opSuspend (by simp), hn opJump (by simp), hn opJumpFalsy (by simp),
      hn opAndJump (by simp), hn opOrJump (by simp), he, Bool.false_eq_true, if_false, Bool.or_self] at hs
    rw [if_pos (by omega)] at hs
    cases hs

/-- Every abstract successor is the jump target of a jump or the fall-through of a non-RETURN. -/
theorem succs_mem {x : Instr} {h : Nat} {l : List (Nat × Nat)} (hs : succs x h = some l)
    {q : Nat × Nat} (hq : q ∈ l) :
    (isJump x.op = true ∧ q.1 = x.args.headD 0) ∨ (x.op ≠ opReturn ∧ q.1 = x.pos + x.size) := by
  unfold succs at hs
  dsimp only at hs
  split at hs
  · split at hs
    · cases hs
    · cases hs; cases hq
  · rename_i c1
    have hr : x.op ≠ opReturn := by simpa using c1
    split at hs
    · cases hs; cases hq
    · split at hs
      · rename_i c3
        have e : x.op = opJump := by simpa using c3
        cases hs
        simp only [List.mem_singleton] at hq; subst hq
        exact Or.inl ⟨by rw [e]; exact jump_isJump, rfl⟩
      · split at hs
        · rename_i c4
          have e : x.op = opJumpFalsy := by simpa using c4
          split at hs
          · cases hs
          · cases hs
            simp only [List.mem_cons, List.mem_nil_iff, or_false] at hq
            rcases hq with rfl | rfl
            · exact Or.inl ⟨by rw [e]; exact jumpFalsy_isJump, rfl⟩
            · exact Or.inr ⟨hr, rfl⟩
        · split at hs
          · rename_i c5
            have e : isJump x.op = true := by
              simp only [Bool.or_eq_true, beq_iff_eq] at c5
              rcases c5 with e | e
              · rw [e]; exact andJump_isJump
              · rw [e]; exact orJump_isJump
            split at hs
            · cases hs
            · cases hs
              simp only [List.mem_cons, List.mem_nil_iff, or_false] at hq
              rcases hq with rfl | rfl
              · exact Or.inl ⟨e, rfl⟩
              · exact Or.inr ⟨hr, rfl⟩
          · split at hs
            · split at hs
              · cases hs
              · cases hs
                simp only [List.mem_singleton] at hq; subst hq
                exact Or.inr ⟨hr, rfl⟩
            · cases hs

/-- `succs` of a re-targeted instruction: same opcode, non-jump operands kept, jump target and
fall-through position translated by `tr`. -/
theorem succs_tr {x y : Instr} (tr : Nat → Nat) (h : Nat)
    (hop : y.op = x.op)
    (hargs : isJump x.op = false → y.args = x.args)
    (hj : isJump x.op = true → y.args.headD 0 = tr (x.args.headD 0))
    (hn : x.op ≠ opReturn → y.pos + y.size = tr (x.pos + x.size)) :
    succs y h = (succs x h).map (List.map (fun q => (tr q.1, q.2))) := by
  unfold succs
  simp only [hop]
  by_cases c1 : x.op = opReturn
  · have hnj : isJump x.op = false := ret_not_jump c1
    have c1' : (x.op == opReturn) = true := by simpa using c1
    simp only [c1', if_true, hargs hnj]
    split <;> rfl
  · have c1' : (x.op == opReturn) = false := by simpa using c1
    have hnx := hn c1
    simp only [c1', Bool.false_eq_true, if_false, hnx]
    by_cases c2 : x.op = opSuspend
    · have c2' : (x.op == opSuspend) = true := by simpa using c2
      simp only [c2', if_true]; rfl
    · have c2' : (x.op == opSuspend) = false := by simpa using c2
      simp only [c2', Bool.false_eq_true, if_false]
      by_cases c3 : x.op = opJump
      · have c3' : (x.op == opJump) = true := by simpa using c3
        have hjj := hj (by rw [c3]; exact jump_isJump)
        simp only [c3', if_true, hjj]; rfl
      · have c3' : (x.op == opJump) = false := by simpa using c3
        simp only [c3', Bool.false_eq_true, if_false]
        by_cases c4 : x.op = opJumpFalsy
        · have c4' : (x.op == opJumpFalsy) = true := by simpa using c4
          have hjj := hj (by rw [c4]; exact jumpFalsy_isJump)
          simp only [c4', if_true, hjj]
          split <;> rfl
        · have c4' : (x.op == opJumpFalsy) = false := by simpa using c4
          simp only [c4', Bool.false_eq_true, if_false]
          by_cases c5 : x.op = opAndJump ∨ x.op = opOrJump
          · have c5' : (x.op == opAndJump || x.op == opOrJump) = true := by simpa using c5
            have hjj := hj (by
              rcases c5 with e | e
              · rw [e]; exact andJump_isJump
              · rw [e]; exact orJump_isJump)
            simp only [c5', if_true, hjj]
            split <;> rfl
          · have c5' : (x.op == opAndJump || x.op == opOrJump) = false := by
              cases hb : (x.op == opAndJump || x.op == opOrJump) with
              | false => rfl
              | true => exact absurd (by simpa using hb) c5
            have hnj : isJump x.op = false := by
              simp only [not_or] at c5
              simp [isJump, c3, c4, c5.1, c5.2]
            simp only [c5', Bool.false_eq_true, if_false]
            rw [stackEffect_congr hop (hargs hnj)]
            cases stackEffect x with
            | none => rfl
            | some e =>
              obtain ⟨pops, pushes⟩ := e
              simp only
              split <;> rfl

/-! ### the height function of the optimized code -/

/-- Height at new offset `n`: the old height of the kept instruction laid out at `n`; 0 elsewhere
(in particular at the new end). -/
def newH (is : List Instr) (H : Nat → Nat) (n : Nat) : Nat :=
  match (layout 0 (kept is)).find? (fun p => p.2 == n) with
  | some p => H p.1.pos
  | none => 0

theorem find_snd : ∀ {L : List (Instr × Nat)} {x : Instr} {n : Nat},
    L.Pairwise (fun a b => a.2 < b.2) → (x, n) ∈ L → L.find? (fun p => p.2 == n) = some (x, n) := by
  intro L
  induction L with
  | nil => intro x n _ h; cases h
  | cons c L ih =>
    intro x n hp h
    rw [List.pairwise_cons] at hp
    rw [List.find?_cons]
    rcases List.mem_cons.mp h with heq | h
    · subst heq; simp
    · have := hp.1 _ h
      have hne : (c.2 == n) = false := by simp only at this; simp; omega
      rw [hne]; exact ih hp.2 h

theorem newH_mem {is : List Instr} (H : Nat → Nat) (hl : Layout 0 is) {x : Instr} {n : Nat}
    (h : (x, n) ∈ layout 0 (kept is)) : newH is H n = H x.pos := by
  have hp : (layout 0 (kept is)).Pairwise (fun a b => a.2 < b.2) :=
    (layout_pairwise2 0 (kept_pairwise hl)).imp (fun h => h.2)
  unfold newH
  rw [find_snd hp h]

theorem newH_end (is : List Instr) (H : Nat → Nat) : newH is H (totalSize (kept is)) = 0 := by
  have : (layout 0 (kept is)).find? (fun p => p.2 == totalSize (kept is)) = none := by
    rw [List.find?_eq_none]
    intro p hp
    have := mem_layout (x := p.1) (n := p.2) hp
    have := size_pos p.1
    simp; omega
  unfold newH; rw [this]

/-! ### members and targets of the output -/

section
variable {raw : Bytes} {is : List Instr} {H : Nat → Nat} {r : Result} {sm : List (Nat × Nat)} {rp e : Nat}

theorem mem_out (hs : Spec is e sm rp r) {y : Instr} (hy : y ∈ r.insts) :
    (∃ x n, (x, n) ∈ layout 0 (kept is) ∧ y = rt (posMap (kept is)) (totalSize (kept is)) x n) ∨
    (r.appended = true ∧ y = retInstr (totalSize (kept is))) := by
  rw [hs.insts] at hy
  rcases List.mem_append.mp hy with hy | hy
  · obtain ⟨⟨x, n⟩, hxn, rfl⟩ := List.mem_map.mp hy
    exact Or.inl ⟨x, n, hxn, rfl⟩
  · right
    cases ha : r.appended with
    | false => simp [ha] at hy
    | true => simp only [ha, if_true, List.mem_singleton] at hy; exact ⟨rfl, hy⟩

theorem ret_mem (hs : Spec is e sm rp r) (ha : r.appended = true) :
    retInstr (totalSize (kept is)) ∈ r.insts := by
  rw [hs.insts, ha]; simp

theorem lookup_end_none (hd : decode raw = some is) : (posMap (kept is)).lookup raw.length = none :=
  lookup_posMap_none (fun x hx => Nat.ne_of_lt (kept_pos_lt hd hx))

/-- an old position with an image: the image is an output instruction carrying the old height -/
theorem good_some (hl : Layout 0 is) (hs : Spec is e sm rp r) {p m : Nat}
    (h : (posMap (kept is)).lookup p = some m) :
    (∃ j ∈ r.insts, j.pos = m) ∧ newH is H m = H p := by
  obtain ⟨z, hz, hzp⟩ := lookup_posMap_some h
  exact ⟨⟨_, out_mem hs hz, rt_pos ..⟩, by rw [newH_mem H hl hz, hzp]⟩

/-- the old end, when a RETURN was appended -/
theorem good_end (hs : Spec is e sm rp r) (ha : r.appended = true) (hhi : H raw.length = 0) :
    (∃ j ∈ r.insts, j.pos = totalSize (kept is)) ∧ newH is H (totalSize (kept is)) = H raw.length :=
  ⟨⟨_, ret_mem hs ha, rfl⟩, by rw [hhi]; exact newH_end is H⟩

theorem tr_next (hd : decode raw = some is) (hs : Spec is raw.length sm rp r) (hhi : H raw.length = 0)
    {x : Instr} {n : Nat} (hxn : (x, n) ∈ layout 0 (kept is)) (hr : x.op ≠ opReturn) :
    tgt (posMap (kept is)) (totalSize (kept is)) (x.pos + x.size) = n + x.size ∧
    ((∃ j ∈ r.insts, j.pos = n + x.size) ∧ newH is H (n + x.size) = H (x.pos + x.size)) := by
  have hl : Layout 0 is := Tengo.Proofs.C03.decode_layout hd
  have hx : x ∈ is := (K_sublist _ _ _).subset (mem_layout hxn).1
  have hn : newPos is x.pos = some n := lookup_posMap_eq (kept_pairwise hl) hxn
  rcases posmap_succ hl hx hn hr with h1 | ⟨h1, h2, h3⟩
  · have h1' : (posMap (kept is)).lookup (x.pos + x.size) = some (n + x.size) := h1
    exact ⟨by simp [tgt, h1'], good_some hl hs h1'⟩
  · have hnone := lookup_end_none hd
    have hsz := decode_totalSize hd
    have ha := hs.app_last x h3 hr
    have h2' : n + x.size = totalSize (kept is) := h2
    rw [h1, hsz, h2']
    exact ⟨by simp [tgt, hnone], good_end hs ha hhi⟩

theorem tr_jump (hd : decode raw = some is) (hs : Spec is raw.length sm rp r) (hhi : H raw.length = 0)
    {x : Instr} {n : Nat} (hxn : (x, n) ∈ layout 0 (kept is)) (hj : isJump x.op = true)
    (ht : Tgt is raw.length (x.args.headD 0)) :
    (∃ j ∈ r.insts, j.pos = tgt (posMap (kept is)) (totalSize (kept is)) (x.args.headD 0)) ∧
    newH is H (tgt (posMap (kept is)) (totalSize (kept is)) (x.args.headD 0)) = H (x.args.headD 0) := by
  have hl : Layout 0 is := Tengo.Proofs.C03.decode_layout hd
  have hx : x ∈ is := (K_sublist _ _ _).subset (mem_layout hxn).1
  obtain ⟨t, hth, _⟩ := hs.jumps (x, n) hxn hj
  have e : x.args.headD 0 = t := by rw [headD_eq, hth]; rfl
  rw [e] at ht ⊢
  rcases ht with ht | ⟨j, hjm, hjp⟩
  · subst ht
    have hnone := lookup_end_none hd
    have ha := hs.app_jump (x, n) hxn _ hj hth hnone
    have : tgt (posMap (kept is)) (totalSize (kept is)) raw.length = totalSize (kept is) := by
      simp [tgt, hnone]
    rw [this]; exact good_end hs ha hhi
  · obtain ⟨m, hm⟩ := posmap_targets hx hj hth hjm hjp
    have hm' : (posMap (kept is)).lookup t = some m := hm
    have : tgt (posMap (kept is)) (totalSize (kept is)) t = m := by simp [tgt, hm']
    rw [this]; exact good_some hl hs hm'

/-- a kept instruction, re-targeted, is consistent with `newH` -/
theorem closed_kept (hd : decode raw = some is) (hs : Spec is raw.length sm rp r)
    (hcore : Core 0 raw.length 0 0 H is NoT) {x : Instr} {n : Nat} (hxn : (x, n) ∈ layout 0 (kept is)) :
    ∃ l, succs (rt (posMap (kept is)) (totalSize (kept is)) x n) (H x.pos) = some l ∧
      ∀ q ∈ l, (∃ j ∈ r.insts, j.pos = q.1) ∧ newH is H q.1 = q.2 := by
  have hx : x ∈ is := (K_sublist _ _ _).subset (mem_layout hxn).1
  obtain ⟨l, hl, hq⟩ := hcore.ok x hx
  have hmap := succs_tr (x := x) (y := rt (posMap (kept is)) (totalSize (kept is)) x n)
    (tgt (posMap (kept is)) (totalSize (kept is))) (H x.pos) (rt_op ..) (fun h => rt_args_nonjump h)
    (fun hj => by
      obtain ⟨t, hth, _⟩ := hs.jumps (x, n) hxn hj
      rw [rt_args_jump hj hth, headD_eq x.args, hth]; rfl)
    (fun hr => by rw [rt_pos, rt_size]; exact (tr_next hd hs hcore.hhi hxn hr).1.symm)
  rw [hl] at hmap
  refine ⟨_, hmap, ?_⟩
  intro q' hq'
  obtain ⟨q, hqm, rfl⟩ := List.mem_map.mp hq'
  rcases hq q hqm with ⟨htg, hH⟩ | hf
  · simp only
    rcases succs_mem hl hqm with ⟨hj, e⟩ | ⟨hr, e⟩
    · rw [e] at htg hH ⊢
      have := tr_jump hd hs hcore.hhi hxn hj htg
      exact ⟨this.1, this.2.trans hH⟩
    · rw [e] at hH ⊢
      obtain ⟨e2, g⟩ := tr_next hd hs hcore.hhi hxn hr
      rw [e2]
      exact ⟨g.1, g.2.trans hH⟩
  · exact hf.elim

theorem entry (hl : Layout 0 is) (hs : Spec is e sm rp r) (hlo : H 0 = 0) :
    newH is H 0 = 0 ∧ ∃ i ∈ r.insts, i.pos = 0 := by
  cases is with
  | nil =>
    have ha := hs.app_empty rfl
    exact ⟨rfl, _, ret_mem hs ha, rfl⟩
  | cons a rest =>
    have hm : (a, 0) ∈ layout 0 (kept (a :: rest)) := first_layout (dsts (a :: rest)) a rest
    refine ⟨by rw [newH_mem H hl hm, hl.1, hlo], _, out_mem hs hm, rt_pos ..⟩

end

end OptTransfer
open OptTransfer

/-- The optimizer preserves the stack discipline: if the raw body of a function (decoded as `is`) is a
closed block from height 0 to height 0 (`Core 0 raw.length 0 0 H is NoT`: all jumps land on instruction
starts of `is` or on its end, heights consistent with `H`), then the optimized body is `Closed` for a
height function `H'`, starts at height 0, and keeps opcodes / non-jump operands. -/
theorem opt_transfer {raw : Bytes} {is : List Instr} {H : Nat → Nat} {r : Result}
    {sm : List (Nat × Nat)} {rp : Nat}
    (hdec : decode raw = some is) (hlen : raw.length < 2 ^ 32)
    (hopt : Optimizer.opt raw sm rp = .ok r)
    (hcore : Core 0 raw.length 0 0 H is NoT) :
    ∃ H' : Nat → Nat,
      decode r.bytes = some r.insts ∧
      H' 0 = 0 ∧ (∃ i ∈ r.insts, i.pos = 0) ∧
      Closed H' r.insts ∧
      (∀ i ∈ r.insts, H' i.pos ≤ raw.length) ∧
      (∀ y ∈ r.insts, (∃ x ∈ is, y.op = x.op ∧ (isJump x.op = false → y.args = x.args)) ∨
                      (y.op = opReturn ∧ y.args = [0])) ∧
      (∀ x ∈ r.insts, ∀ y ∈ r.insts, y.pos = x.pos + x.size → x.op = opCall → isPR y →
          H' x.pos = callArity x) ∧
      (∀ x ∈ r.insts, x.op = opCall → ∃ y ∈ r.insts, y.pos = x.pos + x.size) := by
  have h' : optInstrs is raw.length sm rp = .ok r := by simpa [opt, hdec] using hopt
  have hs := optInstrs_ok h'
  have hl : Layout 0 is := Tengo.Proofs.C03.decode_layout hdec
  have hsz := decode_totalSize hdec
  have hsub : ∀ {x : Instr} {n : Nat}, (x, n) ∈ layout 0 (kept is) → x ∈ is :=
    fun h => (K_sublist _ _ _).subset (mem_layout h).1
  have hclosed : Closed (newH is H) r.insts := by
    intro y hy
    rcases mem_out hs hy with ⟨x, n, hxn, rfl⟩ | ⟨ha, rfl⟩
    · rw [rt_pos, newH_mem H hl hxn]; exact closed_kept hdec hs hcore hxn
    · refine ⟨[], ?_, by intro q hq; cases hq⟩
      exact succs_return rfl (by simp [retInstr])
  have hent := entry (H := H) hl hs hcore.hlo
  refine ⟨newH is H, out_decode hdec hlen h', hent.1, hent.2, hclosed, ?_, ?_, ?_, ?_⟩
  · intro y hy
    rcases mem_out hs hy with ⟨x, n, hxn, rfl⟩ | ⟨ha, rfl⟩
    · rw [rt_pos, newH_mem H hl hxn]
      have := hcore.bnd x (hsub hxn)
      have := kept_pos_lt hdec (mem_layout hxn).1
      omega
    · show newH is H (totalSize (kept is)) ≤ _
      rw [newH_end]; omega
  · intro y hy
    rcases mem_out hs hy with ⟨x, n, hxn, rfl⟩ | ⟨ha, rfl⟩
    · exact Or.inl ⟨x, hsub hxn, rt_op .., fun h => rt_args_nonjump h⟩
    · exact Or.inr ⟨rfl, rfl⟩
  · intro x' hx' y' hy' hpos hop hpr
    rcases mem_out hs hx' with ⟨x, n, hxn, rfl⟩ | ⟨ha, rfl⟩
    · rw [rt_op] at hop
      rw [rt_pos, rt_size] at hpos
      rw [rt_pos, newH_mem H hl hxn]
      have hnj : isJump x.op = false := by rw [hop]; exact call_not_jump
      have hca : callArity (rt (posMap (kept is)) (totalSize (kept is)) x n) = callArity x := by
        unfold callArity; rw [rt_args_nonjump hnj]
      rw [hca]
      have hx : x ∈ is := hsub hxn
      have hr : x.op ≠ opReturn := by rw [hop]; exact call_ne_ret
      have hn : newPos is x.pos = some n := lookup_posMap_eq (kept_pairwise hl) hxn
      obtain ⟨l, hsl, hq⟩ := hcore.ok x hx
      obtain ⟨hge, rfl⟩ := succs_straight_inv (stackEffect_call hop) hsl
      rcases hq _ (List.mem_singleton.mpr rfl) with ⟨_, hHn⟩ | hf
      · simp only at hHn
        rcases posmap_succ hl hx hn hr with h1 | ⟨h1, h2, h3⟩
        · obtain ⟨z, hz, hzp⟩ := lookup_posMap_some h1
          have hy'' : y' = rt (posMap (kept is)) (totalSize (kept is)) z (n + x.size) := by
            have hpw := layout_pairwise (out_layout hs)
            have f1 := fetch_of_pairwise hpw hy'
            have f2 := fetch_of_pairwise hpw (out_mem hs hz)
            rw [rt_pos] at f2; rw [hpos, f2] at f1; exact (Option.some.inj f1).symm
          have hzpr : isPR z := by
            rw [hy''] at hpr; unfold isPR at hpr ⊢; rw [rt_op] at hpr; exact hpr
          exact hcore.tc x hx z (hsub hz) hzp hop hzpr
        · exfalso
          rw [h1, hsz] at hHn
          have := hcore.hhi
          omega
      · exact hf.elim
    · exact absurd hop ret_ne_call
  · intro x' hx' hop
    obtain ⟨l, hsl, hq⟩ := hclosed x' hx'
    obtain ⟨_, rfl⟩ := succs_straight_inv (stackEffect_call hop) hsl
    exact (hq _ (List.mem_singleton.mpr rfl)).1

end Tengo.Proofs.C02Compile

import Tengo.Proofs.C01BridgeF3ConvDivExpr
import Tengo.Proofs.C01BridgeF3ConvDivCall
import Tengo.Proofs.C01BridgeF3ConvDivLoops
import Tengo.Proofs.C01BridgeF3ConvDivStmts
/-!
Fragment F3, divergence of the reference semantics against the machine: all forms at every fuel (`all_div`), and the
program: if `F3.exec` runs out of EVERY fuel, the machine started as `VM.Run` starts it is still running after any
number of dispatches (`program_diverges_F3`).
-/
set_option linter.unusedSimpArgs false
set_option linter.unusedVariables false
namespace Tengo.Model.F3
open Tengo.Model.F0 (Sem upd)
variable {V : Type}

/-- **F3 divergence** (every fuel; every form; every frame and placement): see `DivE`, `DivEs`, `DivCall`, `DivS`,
`DivSs`. -/
theorem all_div (E : Env V) (P : Prog) (hP : ProgOk P) {K : Nat} (hK : KOk P K) (h1 : 1 ≤ K) :
    ∀ f, AllDiv E P K f := by
  intro f
  induction f with
  | zero => exact ⟨divE_zero, divEs_zero, divCall_zero, divS_zero, divSs_zero⟩
  | succ f ih =>
    have ok := all_ok E P hP f
    refine ⟨?_, ?_, divCall_succ hP hK f ih, ?_, ?_⟩
    · intro e
      cases e with
      | lit k => exact divE_lit f k
      | tru => exact divE_tru f
      | fls => exact divE_fls f
      | undef => exact divE_undef f
      | glob i => exact divE_glob f i
      | loc i => exact divE_loc f i
      | bin tok a b => exact divE_bin f tok a b ok ih
      | eq a b => exact divE_eq f a b ok ih
      | ne a b => exact divE_ne f a b ok ih
      | neg a => exact divE_neg f a ok ih
      | bnot a => exact divE_bnot f a ok ih
      | lnot a => exact divE_lnot f a ok ih
      | plus a => exact divE_plus f a ok ih
      | cond c t e => exact divE_cond f c t e ok ih
      | land a b => exact divE_land f a b ok ih
      | lor a b => exact divE_lor f a b ok ih
      | call fe args => exact divE_call f fe args ok ih
    · intro es
      cases es with
      | nil => exact divEs_nil f
      | cons e es => exact divEs_cons f e es ok ih
    · intro s
      cases s with
      | expr e => exact divS_expr f e ih
      | assign i e => exact divS_assign f i e ih
      | defl i e => exact divS_defl f i e ih
      | setl i e => exact divS_setl f i e ih
      | ifs c body => exact divS_ifs f c body ok ih
      | ifelse c body els => exact divS_ifelse f c body els ok ih
      | whil c body => exact divS_whil h1 f c body ok ih
      | forever body => exact divS_forever h1 f body ok ih
      | for3 c body post => exact divS_for3 h1 f c body post ok ih
      | brk => exact divS_brk f
      | cont => exact divS_cont f
      | ret e => exact divS_ret f e ih
      | ret0 => exact divS_ret0 f
    · intro ss
      cases ss with
      | nil => exact divSs_nil f
      | cons s ss => exact divSs_cons f s ss ok ih

/-- **Divergence of a program.** If the reference semantics runs out of every fuel, the compiled program on the
machine (self-tail-call rule included) is still running after any number `j` of dispatches: it never reaches the
end of main, never stops in an error. `KOk P K`: `K` exceeds the nesting height of every function body by 2. -/
theorem program_diverges_F3 (E : Env V) (P : Prog) (hP : ProgOk P) {K : Nat} (hK : KOk P K) (h1 : 1 ≤ K)
    (g stk : Nat → V) (hout : ∀ f, exec E P f g = .out) (j : Nat) :
    Alive E (compProg P) j (St.init stk g) := by
  have hex := hout (j * K + hSs P.main)
  unfold exec at hex
  have hss : execSs E P (j * K + hSs P.main) P.main g (fun _ => none) = .out := by
    cases hr : execSs E P (j * K + hSs P.main) P.main g (fun _ => none) <;> rw [hr] at hex <;> first | rfl | cases hex
  have h := (all_div E P hP hK h1 (j * K + hSs P.main)).ss P.main g (fun _ => none) 0 (compProg P).main 0 0 0 0 0 0
    stk false [] rfl (fun k fd hk _ => by omega) (At.whole _) hP.main (LocRel.none _ _ _) (Nat.le_refl _) hss j
    (Nat.le_refl _)
  simpa [St.init] using h

/-! ### a `K` for programs with finitely many function constants -/

/-- Sum of the body heights of the function constants below `n`. -/
def sumH (P : Prog) : Nat → Nat
  | 0 => 0
  | n + 1 => sumH P n + (match P.fns n with
    | some fd => hSs fd.body
    | none => 0)

theorem le_sumH (P : Prog) : ∀ (n k : Nat) (fd : FnDef), k < n → P.fns k = some fd → hSs fd.body ≤ sumH P n
  | 0, k, fd, h, _ => by omega
  | n + 1, k, fd, h, hf => by
    simp only [sumH]
    by_cases hk : k = n
    · subst hk; rw [hf]; dsimp only; omega
    · have := le_sumH P n k fd (by omega) hf
      omega

/-- If all function constants have index below `n`, `sumH P n + 2` is a `K`. -/
theorem kOk_sumH (P : Prog) (n : Nat) (hfin : ∀ k fd, P.fns k = some fd → k < n) : KOk P (sumH P n + 2) := by
  intro k fd hf
  have := le_sumH P n k fd (hfin k fd hf) hf
  omega

end Tengo.Model.F3

import Tengo.Proofs.C01BridgeF3ConvFwdBase
/-!
C01 bridge for fragment F3, reference-interpreter side: the FORWARD simulation WITHOUT the fuel bound `f ≤ 1800`,
layer of the function bodies and of the call (`DeflFwd`, `BodyFwd`, `CallFwd`): the variant of `deflSim_succ`,
`bodySim_nil`, `bodySim_cons`, `bodyBlock`, `callSim_succ` of `C01BridgeF3SpecCall` where the interpreter's
`excluded` verdict (call depth ≥ 900) is an admitted outcome (`Xz`) instead of being ruled out by
`2·depth + f ≤ 1800`.
-/
set_option linter.unusedVariables false
set_option linter.unusedSimpArgs false
namespace Tengo.Proofs.C01BridgeF3Conv
open Tengo.Model Tengo.Model.Spec
open Tengo.Model.F3 (Ex Exs Stm Stms FnDef Prog Locals ERes EsRes Res updL bindArgs)
open Tengo.Proofs.C01Bridge
open Tengo.Proofs.C01BridgeF3 (DataRel NotCallable)
open Tengo.Proofs.C01BridgeF3Comp
open Tengo.Proofs.C01F3Opt (EnvOk)
open Tengo.Proofs.C11Rename (isFuncLit)
open Tengo.Proofs.C01BridgeF3Spec
variable {V : Type} {C : Cx V}

/-! ### evaluator fuel 0 -/

theorem deflFwd_zero (e : Ex) : DeflFwd C 0 e := by
  intro F ctx gs σ g l m lc B k hF hdep he hh hw
  exact .inr (by simp only [F3.execS]; exact True.intro)

theorem bodyFwd_zero (ss : Stms) : BodyFwd C 0 ss := by
  intro F ctx gs σ g l m lc B k i hF hdep he hh hw
  exact .inr (by simp only [F3.execSs]; exact True.intro)

theorem callFwd_zero : CallFwd C 0 := by
  intro F ctx gs σ g fv w vs ws hF hv hvs hg
  exact .inr (by simp only [F3.callFn]; exact True.intro)

/-! ### local definitions at the top of a function body -/

theorem deflFwd_succ (hy : Hyp C) (f : Nat) (ihE : ∀ e, EvalFwd C f e) (e : Ex) : DeflFwd C (f + 1) e := by
  intro F ctx gs σ g l m lc B k hF hdep he hh hw
  obtain ⟨F, rfl⟩ : ∃ F', F = F' + 1 + 1 := ⟨F - 2, by omega⟩
  have ha := ihE e (F + 1) ctx gs σ g l m lc B _ (by omega) he hh hw
  simp only [toAstS3, ex_define _ _ _ _ (Tengo.Proofs.C01BridgeF3Spec.isFuncLit_toAstE3 _ _ _ e), F3.execS]
  rcases ha with hx | ha
  · exact .inl hx.bind_left
  cases hea : F3.evalE C.E C.P f e g l with
  | val x g1 =>
    rw [hea] at ha
    obtain ⟨wx, σ1, hok1, hvx, hh1, hf1⟩ := ha
    refine .inr ⟨bindEnv ctx.env (C.lnames m) σ1.heap.size, pushSt σ1 (.cell wx false),
      fun j => if j = m then σ1.heap.size else lc j,
      EOk.bind hok1 (EOk.bind (declare_run ctx _ wx hdep gs σ1) (EOk.pure _ gs _)), ⟨?_, ?_⟩,
      hh1.defLoc hvx, hf1.trans (frB_push B σ1 _)⟩
    · intro i hi
      rw [lookupVar_bind_ne _ _ (fun e => hy.nm.dis m i hi e.symm)]
      exact he.glob i hi
    · intro j hj
      by_cases hjm : j = m
      · subst hjm; simp only [if_true]; exact lookupVar_bind_eq _ _ _
      · simp only [hjm, if_false]
        rw [lookupVar_bind_ne _ _ (fun e => hjm (hy.nm.linj _ _ e))]
        exact he.loc j (by omega)
  | err => rw [hea] at ha; obtain ⟨err, hne, herr⟩ := ha; exact .inr ⟨err, hne, EErr.bind_left herr⟩
  | out => exact .inr True.intro
  | bad => exact .inr True.intro

/-! ### function bodies -/

theorem bodyFwd_nil (f : Nat) : BodyFwd C (f + 1) .nil := by
  intro F ctx gs σ g l m lc B k i hF hdep he hh hw
  obtain ⟨F, rfl⟩ : ∃ F', F = F' + 1 := ⟨F - 1, by omega⟩
  simp only [toAstSs3, execStmts.eq_2, F3.execSs]
  exact .inr ⟨ctx.env, σ, EOk.pure _ gs σ, hh.glob, FrB.refl B σ⟩

theorem body_step_plainX {f : Nat} {s : Stm} {ss : Stms} (hS : StmtFwd C f s) (hB : BodyFwd C f ss)
    (F : Nat) (ctx : Ctx) (gs : GSt) (σ : St) (g : Nat → V) (l : Locals V) (m : Nat) (lc : Nat → Nat) (B k i : Nat)
    (hF : 4 * (f + 1) ≤ F + 1) (hdep : ctx.callDepth ≠ 0)
    (he : EInv C ctx.env m lc) (hh : HInv C B σ g m lc l)
    (hw1 : wfS3 (isFnOf C.P) C.n m true false k s = true)
    (hw2 : wfBody (isFnOf C.P) C.n m (k + nlitsS3 s) ss = true) :
    Xz (execStmts (F + 1) ctx (toAstSs3 C.names C.lnames C.ctab (.cons s ss)) i) gs σ ∨
    RB C (execStmts (F + 1) ctx (toAstSs3 C.names C.lnames C.ctab (.cons s ss)) i) gs σ B
      (F3.execSs C.E C.P (f + 1) (.cons s ss) g l) := by
  simp only [toAstSs3, execStmts.eq_3, F3.execSs]
  have ha := hS F { env := ctx.env, callDepth := ctx.callDepth, path := i :: ctx.path } gs σ g l m lc B k true false
    (by omega) he hh hw1
  rcases ha with hx | ha
  · exact .inl hx.bind_left
  cases hs : F3.execS C.E C.P f s g l with
  | done g1 l1 =>
    rw [hs] at ha
    obtain ⟨σ1, hok1, hh1, hf1⟩ := ha
    exact RB.bind_okX hok1 hf1 (hB F { env := ctx.env, callDepth := ctx.callDepth, path := ctx.path } gs σ1 g1 l1 m lc B
      _ (i + 1) (by omega) hdep he hh1 hw2)
  | brk g1 l1 => exact .inr True.intro
  | cont g1 l1 => exact .inr True.intro
  | ret v g1 =>
    rw [hs] at ha
    obtain ⟨w, σ1, hok1, hv1, hg1, hf1⟩ := ha
    exact .inr ⟨w, ctx.env, σ1, EOk.bind hok1 (EOk.pure _ gs σ1), hv1, hg1, hf1⟩
  | err => rw [hs] at ha; obtain ⟨err, hne, herr⟩ := ha; exact .inr ⟨err, hne, EErr.bind_left herr⟩
  | out => exact .inr True.intro
  | bad => exact .inr True.intro

theorem bodyFwd_cons (f : Nat) (s : Stm) (ss : Stms) (hS : StmtFwd C f s) (hDf : ∀ e, DeflFwd C f e)
    (hB : BodyFwd C f ss) : BodyFwd C (f + 1) (.cons s ss) := by
  intro F ctx gs σ g l m lc B k i hF hdep he hh hw
  obtain ⟨F, rfl⟩ : ∃ F', F = F' + 1 := ⟨F - 1, by omega⟩
  cases s with
  | defl j e =>
    simp only [wfBody, Bool.and_eq_true, beq_iff_eq] at hw
    obtain ⟨⟨rfl, hwe⟩, hwb⟩ := hw
    simp only [toAstSs3, execStmts.eq_3, F3.execSs]
    have ha := hDf e F { env := ctx.env, callDepth := ctx.callDepth, path := i :: ctx.path } gs σ g l j lc B k
      (by omega) hdep he hh hwe
    have hr := defl_res C.E C.P f j e g l
    rcases ha with hx | ha
    · exact .inl hx.bind_left
    cases hs : F3.execS C.E C.P f (.defl j e) g l with
    | done g1 l1 =>
      rw [hs] at ha
      obtain ⟨env', σ1, lc', hok1, he1, hh1, hf1⟩ := ha
      exact RB.bind_okX hok1 hf1 (hB F { env := env', callDepth := ctx.callDepth, path := ctx.path } gs σ1 g1 l1 (j + 1)
        lc' B _ (i + 1) (by omega) hdep he1 hh1 hwb)
    | brk g1 l1 => exact .inr True.intro
    | cont g1 l1 => exact .inr True.intro
    | ret v g1 => rw [hs] at hr; exact hr.elim
    | err => rw [hs] at ha; obtain ⟨err, hne, herr⟩ := ha; exact .inr ⟨err, hne, EErr.bind_left herr⟩
    | out => exact .inr True.intro
    | bad => exact .inr True.intro
  | _ =>
    simp only [wfBody, Bool.and_eq_true] at hw
    exact body_step_plainX hS hB F ctx gs σ g l m lc B k i hF hdep he hh hw.1 hw.2

/-! ### the call -/

theorem bodyBlockX {f : Nat} {ss : Stms} (h : BodyFwd C f ss)
    (F : Nat) (ctx : Ctx) (gs : GSt) (σ : St) (g : Nat → V) (l : Locals V) (m : Nat) (lc : Nat → Nat) (B k : Nat)
    (hF : 4 * f + 1 ≤ F) (hdep : ctx.callDepth ≠ 0)
    (he : EInv C ctx.env m lc) (hh : HInv C B σ g m lc l) (hw : wfBody (isFnOf C.P) C.n m k ss = true) :
    Xz (execBlock F ctx (toAstSs3 C.names C.lnames C.ctab ss) 0) gs σ ∨
    RBk C (execBlock F ctx (toAstSs3 C.names C.lnames C.ctab ss) 0) gs σ B (F3.execSs C.E C.P f ss g l) := by
  obtain ⟨F, rfl⟩ : ∃ F', F = F' + 1 := ⟨F - 1, by omega⟩
  cases ss with
  | nil =>
    simp only [toAstSs3, execBlock.eq_2]
    cases f with
    | zero => simp only [F3.execSs]; exact .inr True.intro
    | succ f =>
      simp only [F3.execSs]
      exact .inr ⟨σ, EOk.pure _ gs σ, hh.glob, FrB.refl B σ⟩
  | cons st ss =>
    rw [toAstSs3, execBlock.eq_3 _ _ _ _ (by simp), ← toAstSs3]
    have hb := h F { env := { vars := [] } :: ctx.env, callDepth := ctx.callDepth, path := 0 :: ctx.path }
      gs σ g l m lc B k 0 (by omega) hdep he.push hh hw
    rcases hb with hx | hb
    · exact .inl hx.bind_left
    cases hex : F3.execSs C.E C.P f (.cons st ss) g l with
    | done g' l' =>
      rw [hex] at hb
      obtain ⟨env', σ', hok, hg', hf'⟩ := hb
      exact .inr ⟨σ', EOk.bind hok (EOk.pure _ gs σ'), hg', hf'⟩
    | ret v g' =>
      rw [hex] at hb
      obtain ⟨w, env', σ', hok, hv', hg', hf'⟩ := hb
      exact .inr ⟨w, σ', EOk.bind hok (EOk.pure _ gs σ'), hv', hg', hf'⟩
    | err => rw [hex] at hb; obtain ⟨err, hne, herr⟩ := hb; exact .inr ⟨err, hne, EErr.bind_left herr⟩
    | brk _ _ => exact .inr True.intro
    | cont _ _ => exact .inr True.intro
    | out => exact .inr True.intro
    | bad => exact .inr True.intro

theorem callFwd_succ (hy : Hyp C) (f : Nat) (ihB : ∀ ss, BodyFwd C f ss) : CallFwd C (f + 1) := by
  intro F ctx gs σ g fv w vs ws hF hv hvs hg
  obtain ⟨F, rfl⟩ : ∃ F', F = F' + 1 := ⟨F - 1, by omega⟩
  simp only [F3.callFn]
  cases hfn : C.E.asFn fv with
  | none =>
    dsimp only
    rcases hv with ⟨hs, rfl⟩ | ⟨k, fd, r, h1, _⟩
    · exact .inr (callTail_notfn _ ctx _ ws gs σ (fun r h => by rw [h] at hs; cases hs)
        (fun nm h => by rw [h] at hs; cases hs))
    · rw [hfn] at h1; cases h1
  | some k =>
    dsimp only
    rcases hv with ⟨hs, _⟩ | ⟨k', fd, r, h1, hfd, rfl, hcl⟩
    · have := hy.env.asFn_some fv k hfn
      rw [this] at hs; cases hs
    · rw [hfn] at h1
      injection h1 with h1
      subst h1
      rw [hfd]
      dsimp only
      have hplen : (C.clos fd).params.length = fd.nparams := by simp [Cx.clos, paramsOf]
      by_cases hlen : vs.length ≠ fd.nparams
      · rw [if_pos hlen]
        obtain ⟨err, hne, he⟩ := callClosure_wrong F ctx (C.clos fd) ws rfl
          (by rw [hplen, ← hvs.1]; exact hlen) gs σ
        refine .inr ⟨err, hne, ?_⟩
        unfold EErr at he ⊢
        rw [callTail_fn _ _ _ _ _ gs σ hcl]; exact he
      · rw [if_neg hlen]
        have hlen' : vs.length = fd.nparams := Decidable.of_not_not hlen
        have hwl : ws.length = (C.clos fd).params.length := by rw [hplen, ← hvs.1]; exact hlen'
        by_cases hdep : ctx.callDepth < 900
        case neg =>
          exact .inl (Xz.congr (callClosure_deepX F ctx (C.clos fd) ws rfl hwl (by omega) gs σ)
            (callTail_fn _ _ _ _ _ gs σ hcl).symm)
        obtain ⟨fr, σ1, hloop, hsz, hold, hnew, hlk, hoth⟩ := params_loop gs (paramsOf C.lnames fd.nparams) ws
          { vars := [], isFn := true } σ (by rw [hwl]; rfl)
          (fun i j p hi hj => hy.nm.linj i j ((paramsOf_get_some hi).2.trans (paramsOf_get_some hj).2.symm))
        have hkc : KeepClos σ σ1 := fun r c h => by rw [hold r (lt_size_of_get h)]; exact h
        have hfr1 : FrB C σ.heap.size σ σ1 := ⟨by omega, hkc, fun r _ hr _ => hold r hr⟩
        have hg1 : GInv C σ1 g := hg.move hkc (fun i hi => by
          obtain ⟨w, b, h, _⟩ := hg i hi
          exact hold _ (lt_size_of_get h))
        have hh1 : HInv C σ.heap.size σ1 g fd.nparams (fun j => σ.heap.size + j) (bindArgs vs) := by
          refine ⟨hg1, ⟨?_, fun i _ => Nat.le_add_right _ _, ?_, fun i j _ _ h => by omega⟩, by omega⟩
          · intro j hj
            have hjv : j < vs.length := by omega
            have hjw : j < ws.length := by rw [← hvs.1]; exact hjv
            refine ⟨vs[j], ws[j], false, by simp [bindArgs, hjv], hnew j ws[j] (List.getElem?_eq_getElem hjw), ?_⟩
            exact (hvs.2 j _ _ (List.getElem?_eq_getElem hjv) (List.getElem?_eq_getElem hjw)).mono hkc
          · intro i j hi hj h
            obtain ⟨w, b, hc, _⟩ := hg j hj
            have := lt_size_of_get hc
            omega
        have he1 : EInv C (fr :: C.genv) fd.nparams (fun j => σ.heap.size + j) := by
          constructor
          · intro i hi
            have hx : C.names i ∉ paramsOf C.lnames fd.nparams := by
              simp only [paramsOf, List.mem_map, List.mem_range, not_exists, not_and]
              intro j _ h
              exact hy.nm.dis j i hi h
            simp only [lookupVar_cons, hoth _ hx, List.lookup]
            exact hy.genv i hi
          · intro j hj
            simp only [lookupVar_cons, hlk j _ (paramsOf_get C.lnames hj)]
        obtain ⟨k0, hwf⟩ := hy.wfns k fd hfd
        simp only [wfFn, Bool.and_eq_true] at hwf
        have hb := bodyBlockX (ihB fd.body) F
          { env := fr :: C.genv, callDepth := ctx.callDepth + 1, path := [] } gs σ1 g (bindArgs vs) fd.nparams
          (fun j => σ.heap.size + j) σ.heap.size k0 (by omega)
          (by show ctx.callDepth + 1 ≠ 0; omega) he1 hh1 hwf.2
        have hunf := callClosure_unf F ctx (C.clos fd) ws rfl hwl hdep
        rcases hb with hx | hb
        · refine .inl ?_
          obtain ⟨why, hx⟩ := hx
          refine ⟨why, ?_⟩
          unfold EErr
          rw [callTail_fn _ _ _ _ _ gs σ hcl, hunf]
          exact EErr.bind_right hloop (EErr.bind_left hx)
        cases hex : F3.execSs C.E C.P f fd.body g (bindArgs vs) with
        | done g' l' =>
          rw [hex] at hb
          obtain ⟨σ', hok, hg', hf'⟩ := hb
          refine .inr ⟨.undef, σ', ?_, by rw [← hy.data.undef]; exact VR.scalar (by rw [hy.data.undef]; rfl), hg',
            hfr1.trans hf'⟩
          unfold EOk
          rw [callTail_fn _ _ _ _ _ gs σ hcl, hunf]
          exact EOk.bind hloop (EOk.bind hok (EOk.pure _ gs σ'))
        | ret v g' =>
          rw [hex] at hb
          obtain ⟨w', σ', hok, hv', hg', hf'⟩ := hb
          refine .inr ⟨w', σ', ?_, hv', hg', hfr1.trans hf'⟩
          unfold EOk
          rw [callTail_fn _ _ _ _ _ gs σ hcl, hunf]
          exact EOk.bind hloop (EOk.bind hok (EOk.pure _ gs σ'))
        | err =>
          rw [hex] at hb
          obtain ⟨err, hne, herr⟩ := hb
          refine .inr ⟨err, hne, ?_⟩
          unfold EErr
          rw [callTail_fn _ _ _ _ _ gs σ hcl, hunf]
          exact EErr.bind_right hloop (EErr.bind_left herr)
        | brk _ _ => exact .inr True.intro
        | cont _ _ => exact .inr True.intro
        | out => exact .inr True.intro
        | bad => exact .inr True.intro

end Tengo.Proofs.C01BridgeF3Conv

import Tengo.Proofs.JsonEncode
/-!
C18: the canonical form `canon v` (what decoding the encoding of `v` yields) is `Equals` to `v` in
tengo's sense (`Map.Equals`: same size, every member found and equal), for float-free values whose
maps have distinct keys (a Go map always has).
-/
namespace Tengo.Proofs.JsonEquals
open Tengo.Model.Json Tengo.Proofs.JsonEncode

/-- Induction over a member list (the `induction` tactic does not handle mutual inductives). -/
theorem JMems.ind {P : JMems → Prop} (hn : P .nil) (hc : ∀ k v es, P es → P (.cons k v es)) : ∀ es, P es
  | .nil => hn
  | .cons k v es => hc k v es (JMems.ind hn hc es)

def keysOf : JMems → List Bytes
  | .nil => []
  | .cons k _ es => k :: keysOf es

/-- `(k, a)` is a member. -/
def Entry (k : Bytes) (a : J) : JMems → Prop
  | .nil => False
  | .cons k' a' es => (k = k' ∧ a = a') ∨ Entry k a es

mutual
  /-- Every map inside the value has pairwise distinct keys. -/
  def DK : J → Prop
    | .arr xs => DKList xs
    | .obj es => (keysOf es).Nodup ∧ DKMems es
    | _ => True
  def DKList : JList → Prop
    | .nil => True
    | .cons x xs => DK x ∧ DKList xs
  def DKMems : JMems → Prop
    | .nil => True
    | .cons _ v es => DK v ∧ DKMems es
end

theorem entry_key {k : Bytes} {a : J} {es : JMems} (h : Entry k a es) : k ∈ keysOf es := by
  induction es using JMems.ind with
  | hn => exact absurd h (by simp [Entry])
  | hc k' a' es ih =>
    simp only [Entry] at h
    rcases h with ⟨rfl, _⟩ | h
    · simp [keysOf]
    · simp [keysOf, ih h]

theorem entry_insertMem {k' : Bytes} {a' : J} (k : Bytes) (a : J) (acc : JMems) (h : Entry k' a' (insertMem k a acc)) :
    (k' = k ∧ a' = a) ∨ Entry k' a' acc := by
  induction acc using JMems.ind with
  | hn => simpa [insertMem, Entry] using h
  | hc k2 a2 acc ih =>
    simp only [insertMem] at h
    split at h
    · rename_i e
      simp only [Entry] at h ⊢
      rcases h with h | h
      · exact .inl h
      · exact .inr (.inr h)
    · split at h
      · simp only [Entry] at h ⊢
        rcases h with h | h | h
        · exact .inl h
        · exact .inr (.inl h)
        · exact .inr (.inr h)
      · simp only [Entry] at h ⊢
        rcases h with h | h
        · exact .inr (.inl h)
        · rcases ih h with h | h
          · exact .inl h
          · exact .inr (.inr h)

theorem keys_insertMem (k : Bytes) (a : J) (acc : JMems) (k' : Bytes) :
    k' ∈ keysOf (insertMem k a acc) ↔ k' = k ∨ k' ∈ keysOf acc := by
  induction acc using JMems.ind with
  | hn => simp [insertMem, keysOf]
  | hc k2 a2 acc ih =>
    simp only [insertMem]
    split
    · rename_i e; subst e; simp [keysOf]
    · split
      · simp [keysOf]
      · simp only [keysOf, List.mem_cons, ih]
        constructor
        · rintro (h | h | h)
          · exact .inr (.inl h)
          · exact .inl h
          · exact .inr (.inr h)
        · rintro (h | h | h)
          · exact .inr (.inl h)
          · exact .inl h
          · exact .inr (.inr h)

theorem length_insertMem (k : Bytes) (a : J) (acc : JMems) (h : k ∉ keysOf acc) :
    (insertMem k a acc).length = acc.length + 1 := by
  induction acc using JMems.ind with
  | hn => simp [insertMem, JMems.length]
  | hc k2 a2 acc ih =>
    simp only [keysOf, List.mem_cons, not_or] at h
    simp only [insertMem, h.1, if_false]
    split
    · simp [JMems.length]
    · simp [JMems.length, ih h.2]

theorem entry_insertAll {k' : Bytes} {a' : J} (raw : JMems) : ∀ acc, Entry k' a' (insertAll raw acc) →
    Entry k' a' raw ∨ Entry k' a' acc := by
  induction raw using JMems.ind with
  | hn => intro acc h; exact .inr (by simpa [insertAll] using h)
  | hc k a raw ih =>
    intro acc h
    simp only [insertAll] at h
    rcases ih _ h with h | h
    · exact .inl (.inr h)
    · rcases entry_insertMem k a acc h with h | h
      · exact .inl (.inl h)
      · exact .inr h

theorem length_insertAll (raw : JMems) : ∀ acc, (keysOf raw).Nodup → (∀ k ∈ keysOf raw, k ∉ keysOf acc) →
    (insertAll raw acc).length = raw.length + acc.length := by
  induction raw using JMems.ind with
  | hn => intro acc _ _; simp [insertAll, JMems.length]
  | hc k a raw ih =>
    intro acc hnd hdis
    simp only [keysOf, List.nodup_cons] at hnd
    simp only [insertAll]
    rw [ih _ hnd.2, length_insertMem k a acc (hdis k (by simp [keysOf]))]
    · simp [JMems.length]; omega
    · intro k' hk' hin
      rw [keys_insertMem] at hin
      rcases hin with rfl | hin
      · exact hnd.1 hk'
      · exact hdis k' (by simp [keysOf, hk']) hin

theorem keys_canonMems (es : JMems) : keysOf (canonMems es) = keysOf es := by
  induction es using JMems.ind with
  | hn => rfl
  | hc k v es ih => simp [canonMems, keysOf, ih]

theorem length_canonMems (es : JMems) : (canonMems es).length = es.length := by
  induction es using JMems.ind with
  | hn => rfl
  | hc k v es ih => simp [canonMems, JMems.length, ih]

theorem entry_canonMems {k : Bytes} {a : J} (es : JMems) (h : Entry k a (canonMems es)) : ∃ w, Entry k w es ∧ a = canon w := by
  induction es using JMems.ind with
  | hn => exact absurd h (by simp [canonMems, Entry])
  | hc k' v es ih =>
    simp only [canonMems, Entry] at h
    rcases h with ⟨rfl, rfl⟩ | h
    · exact ⟨v, .inl ⟨rfl, rfl⟩, rfl⟩
    · obtain ⟨w, hw, e⟩ := ih h
      exact ⟨w, .inr hw, e⟩

theorem lookup_entry {k : Bytes} {w : J} (es : JMems) (hnd : (keysOf es).Nodup) (h : Entry k w es) : lookupMem k es = some w := by
  induction es using JMems.ind with
  | hn => exact absurd h (by simp [Entry])
  | hc k' v es ih =>
    simp only [keysOf, List.nodup_cons] at hnd
    simp only [Entry] at h
    rcases h with ⟨rfl, rfl⟩ | h
    · simp [lookupMem]
    · have hne : k ≠ k' := by
        intro e; subst e; exact hnd.1 (entry_key h)
      simp [lookupMem, hne, ih hnd.2 h]

theorem equalsMems_of (i2f : Int → UInt64) (A fs : JMems)
    (h : ∀ k a, Entry k a A → ∃ w, lookupMem k fs = some w ∧ equals i2f a w = true) : equalsMems i2f A fs = true := by
  induction A using JMems.ind with
  | hn => simp [equalsMems]
  | hc k a A ih =>
    obtain ⟨w, hw, he⟩ := h k a (.inl ⟨rfl, rfl⟩)
    simp only [equalsMems, hw, he, Bool.true_and]
    exact ih (fun k' a' h' => h k' a' (.inr h'))

mutual
  /-- **`canon v` equals `v`** (tengo `Equals`). -/
  theorem equals_canon (i2f : Int → UInt64) : ∀ v : J, Rep v → DK v → equals i2f (canon v) v = true
    | .null, _, _ => by simp [canon, equals]
    | .bool _, _, _ => by simp [canon, equals]
    | .int _, _, _ => by simp [canon, equals]
    | .float _, h, _ => absurd h (by simp [Rep])
    | .str _, _, _ => by simp [canon, equals]
    | .arr xs, h, hd => by
      simp only [canon, equals]
      exact equals_canonList i2f xs h hd
    | .obj es, h, hd => by
      simp only [canon, equals, Bool.and_eq_true, decide_eq_true_eq]
      refine ⟨?_, ?_⟩
      · rw [length_insertAll _ _ (by rw [keys_canonMems]; exact hd.1) (by intro k _ hk; simp [keysOf] at hk),
          length_canonMems]
        simp [JMems.length]
      · apply equalsMems_of
        intro k a hka
        rcases entry_insertAll _ _ hka with hka | hka
        · obtain ⟨w, hw, rfl⟩ := entry_canonMems es hka
          exact ⟨w, lookup_entry es hd.1 hw, equals_canonMems i2f es h hd.2 k w hw⟩
        · exact absurd hka (by simp [Entry])
  theorem equals_canonList (i2f : Int → UInt64) : ∀ xs : JList, RepList xs → DKList xs →
      equalsList i2f (canonList xs) xs = true
    | .nil, _, _ => by simp [canonList, equalsList]
    | .cons x xs, h, hd => by
      simp only [canonList, equalsList, Bool.and_eq_true]
      exact ⟨equals_canon i2f x h.1 hd.1, equals_canonList i2f xs h.2 hd.2⟩
  theorem equals_canonMems (i2f : Int → UInt64) : ∀ es : JMems, RepMems es → DKMems es →
      ∀ k w, Entry k w es → equals i2f (canon w) w = true
    | .nil, _, _ => fun _ _ h => absurd h (by simp [Entry])
    | .cons k' v es, h, hd => fun k w hkw => by
      simp only [Entry] at hkw
      rcases hkw with ⟨_, rfl⟩ | hkw
      · exact equals_canon i2f w h.2.1 hd.1
      · exact equals_canonMems i2f es h.2.2 hd.2 k w hkw
end

end Tengo.Proofs.JsonEquals

import Tengo.Proofs.C11PlaceBlkS
/-!
C11, PLACEMENT global ↦ local with block-scoped declarations AND RE-USE OF LOCAL SLOTS, layer 1.

The global placement `P` is over the global slots `< N`, one slot per declared variable (the root table never re-uses
an index: `global_define_fresh`). `ρ : global slot ↦ local slot` is the slot assignment of the function's symbol
table — NOT injective: the variables of two sibling blocks may share a local slot. `d` is the set of variables in
scope (live). Static discipline `chkS` (= name resolution with block scope): an expression reads variables in scope
only; a write of `j` never hits the local slot of ANOTHER variable in scope; the first write of a variable not in
scope is its declaration `x := e` (`DEFL`), every other write is `x = e` (`SETL`); variables declared inside an
`if` / loop body are out of scope after it.
-/
set_option linter.unusedVariables false
set_option linter.unusedSimpArgs false
namespace Tengo.Proofs.C11Place
open Tengo.Model Tengo.Model.F3
open Tengo.Model.F0 (Sem upd)
variable {V : Type}

/-- Class + scope check of an expression: only variables `j < N` in scope `d`. -/
def rdE (N : Nat) (d : Nat → Bool) : Ex → Bool
  | .lit _ => true | .tru => true | .fls => true | .undef => true
  | .glob j => decide (j < N) && d j
  | .loc _ => false
  | .bin _ l r => rdE N d l && rdE N d r
  | .eq l r => rdE N d l && rdE N d r
  | .ne l r => rdE N d l && rdE N d r
  | .land l r => rdE N d l && rdE N d r
  | .lor l r => rdE N d l && rdE N d r
  | .neg e => rdE N d e | .bnot e => rdE N d e | .lnot e => rdE N d e | .plus e => rdE N d e
  | .cond c t f => rdE N d c && rdE N d t && rdE N d f
  | .call _ _ => false

/-- Variable `j` is read from the local slot `ρ j`. -/
def renRE (ρ : Nat → Nat) : Ex → Ex
  | .glob j => .loc (ρ j)
  | .bin t l r => .bin t (renRE ρ l) (renRE ρ r)
  | .eq l r => .eq (renRE ρ l) (renRE ρ r)
  | .ne l r => .ne (renRE ρ l) (renRE ρ r)
  | .land l r => .land (renRE ρ l) (renRE ρ r)
  | .lor l r => .lor (renRE ρ l) (renRE ρ r)
  | .neg e => .neg (renRE ρ e) | .bnot e => .bnot (renRE ρ e) | .lnot e => .lnot (renRE ρ e)
  | .plus e => .plus (renRE ρ e)
  | .cond c t f => .cond (renRE ρ c) (renRE ρ t) (renRE ρ f)
  | e => e

theorem g2E_rd (N : Nat) (d : Nat → Bool) : ∀ e : Ex, rdE N d e = true → g2E N e = true
  | .lit _, _ => rfl | .tru, _ => rfl | .fls, _ => rfl | .undef, _ => rfl
  | .glob j, h => by
    simp only [rdE, Bool.and_eq_true, decide_eq_true_eq] at h
    simp only [g2E, decide_eq_true_eq]; exact h.1
  | .loc _, h => by simp only [rdE] at h; cases h
  | .call _ _, h => by simp only [rdE] at h; cases h
  | .bin _ l r, h => by
    simp only [rdE, Bool.and_eq_true] at h
    simp only [g2E, g2E_rd N d l h.1, g2E_rd N d r h.2, Bool.and_self]
  | .eq l r, h => by
    simp only [rdE, Bool.and_eq_true] at h
    simp only [g2E, g2E_rd N d l h.1, g2E_rd N d r h.2, Bool.and_self]
  | .ne l r, h => by
    simp only [rdE, Bool.and_eq_true] at h
    simp only [g2E, g2E_rd N d l h.1, g2E_rd N d r h.2, Bool.and_self]
  | .land l r, h => by
    simp only [rdE, Bool.and_eq_true] at h
    simp only [g2E, g2E_rd N d l h.1, g2E_rd N d r h.2, Bool.and_self]
  | .lor l r, h => by
    simp only [rdE, Bool.and_eq_true] at h
    simp only [g2E, g2E_rd N d l h.1, g2E_rd N d r h.2, Bool.and_self]
  | .neg e, h => by simp only [rdE] at h; simp only [g2E, g2E_rd N d e h]
  | .bnot e, h => by simp only [rdE] at h; simp only [g2E, g2E_rd N d e h]
  | .lnot e, h => by simp only [rdE] at h; simp only [g2E, g2E_rd N d e h]
  | .plus e, h => by simp only [rdE] at h; simp only [g2E, g2E_rd N d e h]
  | .cond c t f, h => by
    simp only [rdE, Bool.and_eq_true] at h
    simp only [g2E, g2E_rd N d c h.1.1, g2E_rd N d t h.1.2, g2E_rd N d f h.2, Bool.and_self]

/-- Every variable in scope has its value in its local slot. -/
def Rr (ρ : Nat → Nat) (d : Nat → Bool) (g : Nat → V) (l : Locals V) : Prop :=
  ∀ j, d j = true → l (ρ j) = some (g j)

section
variable {E : Env V} {N : Nat} {ρ : Nat → Nat}

/-- **Expressions, same fuel**: reading the variables in scope from their (shared) local slots gives the result of
the original. -/
theorem simRho_E (P P' : Prog) : ∀ (f : Nat) (e : Ex) (d : Nat → Bool) (g : Nat → V) (lG : Locals V) (gL : Nat → V)
    (l : Locals V), rdE N d e = true → Rr ρ d g l →
    evalE E P' f (renRE ρ e) gL l = tE gL (evalE E P f e g lG) := by
  intro f
  induction f with
  | zero => intro e d g lG gL l _ _; simp only [evalE, tE]
  | succ f ih =>
    intro e d g lG gL l hc hR
    have b1 : ∀ (a : Ex) (k k' : V → (Nat → V) → ERes V), rdE N d a = true →
        (∀ x, k' x gL = tE gL (k x g)) →
        (match evalE E P' f (renRE ρ a) gL l with
          | .val x ga => k' x ga
          | r => r) =
        tE gL (match evalE E P f a g lG with
          | .val x ga => k x ga
          | r => r) := by
      intro a k k' hca hk
      rw [ih a d g lG gL l hca hR]
      rcases evalE_cases (E := E) P f a g lG (g2E_rd N d a hca) with ⟨x, hx⟩ | hx | hx | hx
      · simp only [hx, tE]; exact hk x
      · simp only [hx, tE]
      · simp only [hx, tE]
      · simp only [hx, tE]
    cases e with
    | lit k => simp only [renRE, evalE, tE]
    | tru => simp only [renRE, evalE, tE]
    | fls => simp only [renRE, evalE, tE]
    | undef => simp only [renRE, evalE, tE]
    | glob j =>
      simp only [rdE, Bool.and_eq_true, decide_eq_true_eq] at hc
      simp only [renRE, evalE, tE, hR j hc.2]
    | loc i => simp only [rdE] at hc; cases hc
    | call fe args => simp only [rdE] at hc; cases hc
    | bin tok a b =>
      simp only [rdE, Bool.and_eq_true] at hc
      simp only [renRE, evalE]
      refine b1 a _ _ hc.1 (fun x => ?_)
      refine b1 b (fun y g2 => match E.S.binop tok x y with | some v => .val v g2 | none => .err)
        (fun y g2 => match E.S.binop tok x y with | some v => .val v g2 | none => .err) hc.2 (fun y => ?_)
      cases E.S.binop tok x y <;> simp only [tE]
    | eq a b =>
      simp only [rdE, Bool.and_eq_true] at hc
      simp only [renRE, evalE]
      refine b1 a _ _ hc.1 (fun x => ?_)
      exact b1 b (fun y g2 => .val (E.S.ofBool (E.S.eqv x y)) g2) (fun y g2 => .val (E.S.ofBool (E.S.eqv x y)) g2)
        hc.2 (fun y => by simp only [tE])
    | ne a b =>
      simp only [rdE, Bool.and_eq_true] at hc
      simp only [renRE, evalE]
      refine b1 a _ _ hc.1 (fun x => ?_)
      exact b1 b (fun y g2 => .val (E.S.ofBool (!E.S.eqv x y)) g2) (fun y g2 => .val (E.S.ofBool (!E.S.eqv x y)) g2)
        hc.2 (fun y => by simp only [tE])
    | neg a =>
      simp only [rdE] at hc
      simp only [renRE, evalE]
      refine b1 a (fun x ga => match E.S.neg x with | some v => .val v ga | none => .err)
        (fun x ga => match E.S.neg x with | some v => .val v ga | none => .err) hc (fun x => ?_)
      cases E.S.neg x <;> simp only [tE]
    | bnot a =>
      simp only [rdE] at hc
      simp only [renRE, evalE]
      refine b1 a (fun x ga => match E.S.bnot x with | some v => .val v ga | none => .err)
        (fun x ga => match E.S.bnot x with | some v => .val v ga | none => .err) hc (fun x => ?_)
      cases E.S.bnot x <;> simp only [tE]
    | lnot a =>
      simp only [rdE] at hc
      simp only [renRE, evalE]
      exact b1 a (fun x ga => .val (E.S.ofBool (E.S.falsy x)) ga) (fun x ga => .val (E.S.ofBool (E.S.falsy x)) ga) hc
        (fun x => by simp only [tE])
    | plus a =>
      simp only [rdE] at hc
      simp only [renRE, evalE]
      exact ih a d g lG gL l hc hR
    | cond c t e =>
      simp only [rdE, Bool.and_eq_true] at hc
      simp only [renRE, evalE]
      refine b1 c (fun x ga => if E.S.falsy x then evalE E P f e ga lG else evalE E P f t ga lG)
        (fun x ga => if E.S.falsy x then evalE E P' f (renRE ρ e) ga l else evalE E P' f (renRE ρ t) ga l)
        hc.1.1 (fun x => ?_)
      by_cases hfa : E.S.falsy x = true
      · simp only [hfa, if_true]; exact ih e d g lG gL l hc.2 hR
      · simp only [hfa, Bool.false_eq_true, if_false]; exact ih t d g lG gL l hc.1.2 hR
    | land a b =>
      simp only [rdE, Bool.and_eq_true] at hc
      simp only [renRE, evalE]
      refine b1 a (fun x ga => if E.S.falsy x then .val x ga else evalE E P f b ga lG)
        (fun x ga => if E.S.falsy x then .val x ga else evalE E P' f (renRE ρ b) ga l) hc.1 (fun x => ?_)
      by_cases hfa : E.S.falsy x = true
      · simp only [hfa, if_true, tE]
      · simp only [hfa, Bool.false_eq_true, if_false]; exact ih b d g lG gL l hc.2 hR
    | lor a b =>
      simp only [rdE, Bool.and_eq_true] at hc
      simp only [renRE, evalE]
      refine b1 a (fun x ga => if E.S.falsy x then evalE E P f b ga lG else .val x ga)
        (fun x ga => if E.S.falsy x then evalE E P' f (renRE ρ b) ga l else .val x ga) hc.1 (fun x => ?_)
      by_cases hfa : E.S.falsy x = true
      · simp only [hfa, if_true]; exact ih b d g lG gL l hc.2 hR
      · simp only [hfa, Bool.false_eq_true, if_false, tE]

end
end Tengo.Proofs.C11Place

import Tengo.Model.Json
/-!
Helper lemmas for C18: the control part `(step, parseState)` of the scanner as an acceptor (`accB`),
and its link to `checkValid` (which also carries the error value, `endTop` and the byte counter).
-/
namespace Tengo.Proofs.JsonScan
open Tengo.Model.Json

/-- `eof()` succeeds on an error-free scanner in control state `(st, σ)`. -/
def eofOK (st : Step) (σ : List PS) : Bool := st == .endTop || (delta st σ 0x20).endTop

/-- Error-free run of the control part over `w`, then a successful `eof()`. -/
def accB : Step → List PS → Bytes → Bool
  | st, σ, [] => eofOK st σ
  | st, σ, c :: w => (delta st σ c).step != .error && accB (delta st σ c).step (delta st σ c).stack w

/-- A scanner that has recorded no error; then `endTop` is set exactly in state `stateEndTop`. -/
def Clean (s : Scanner) : Prop := s.err = none ∧ (s.endTop = true ↔ s.step = .endTop)

/-! ### facts about single transitions -/

/-- Bookkeeping facts every transition function except the dispatch of `stateEndTop`/`stateError`
satisfies. -/
def P (t : Tr) : Prop :=
  (t.step ≠ .error → t.err = none) ∧ (t.step = .error → t.err ≠ none) ∧ (t.op = .error → t.step = .error) ∧
  (t.endTop = true → t.step = .endTop ∨ t.step = .error) ∧ (t.step = .endTop → t.endTop = true)

theorem P_goTo (st : Step) (σ : List PS) (op : Op) (h1 : st ≠ .error) (h2 : st ≠ .endTop) (h3 : op ≠ .error) :
    P (goTo st σ op) := by simp [P, goTo, h1, h2, h3]

theorem P_failAt (σ : List PS) (ctx : String) : P (failAt σ ctx) := by simp [P, failAt]

theorem P_popTo (σ : List PS) (op : Op) (h3 : op ≠ .error) : P (popTo σ op) := by
  cases σ <;> simp [P, popTo, goTo, h3]

theorem P_pushTo (st : Step) (p : PS) (σ : List PS) (op : Op) (h1 : st ≠ .error) (h2 : st ≠ .endTop) (h3 : op ≠ .error) :
    P (pushTo st p σ op) := by
  unfold pushTo; split
  · exact P_goTo _ _ _ h1 h2 h3
  · exact P_failAt _ _

theorem P_endValue (σ : List PS) (c : UInt8) : P (stateEndValue σ c) := by
  unfold stateEndValue
  split
  · unfold stateEndTop; split <;> simp [P, goTo]
  · split
    · exact P_goTo _ _ _ (by decide) (by decide) (by decide)
    · split
      · split
        · exact P_goTo _ _ _ (by decide) (by decide) (by decide)
        · exact P_failAt _ _
      · split
        · exact P_goTo _ _ _ (by decide) (by decide) (by decide)
        · split
          · exact P_popTo _ _ (by decide)
          · exact P_failAt _ _
      · split
        · exact P_goTo _ _ _ (by decide) (by decide) (by decide)
        · split
          · exact P_popTo _ _ (by decide)
          · exact P_failAt _ _

macro "ptac" : tactic => `(tactic| ((repeat' split) <;>
  first | exact P_goTo _ _ _ (by decide) (by decide) (by decide) | exact P_failAt _ _ | exact P_endValue _ _
        | exact P_popTo _ _ (by decide) | exact P_pushTo _ _ _ _ (by decide) (by decide) (by decide)))

theorem P_beginValue (σ : List PS) (c : UInt8) : P (stateBeginValue σ c) := by unfold stateBeginValue; ptac
theorem P_beginValueOrEmpty (σ : List PS) (c : UInt8) : P (stateBeginValueOrEmpty σ c) := by
  unfold stateBeginValueOrEmpty; (repeat' split) <;>
    first | exact P_goTo _ _ _ (by decide) (by decide) (by decide) | exact P_endValue _ _ | exact P_beginValue _ _
theorem P_beginString (σ : List PS) (c : UInt8) : P (stateBeginString σ c) := by unfold stateBeginString; ptac
theorem P_beginStringOrEmpty (σ : List PS) (c : UInt8) : P (stateBeginStringOrEmpty σ c) := by
  unfold stateBeginStringOrEmpty; (repeat' split) <;>
    first | exact P_goTo _ _ _ (by decide) (by decide) (by decide) | exact P_endValue _ _ | exact P_beginString _ _
          | exact P_failAt _ _
theorem P_inString (σ : List PS) (c : UInt8) : P (stateInString σ c) := by unfold stateInString; ptac
theorem P_inStringEsc (σ : List PS) (c : UInt8) : P (stateInStringEsc σ c) := by unfold stateInStringEsc; ptac
theorem P_hex (nx : Step) (hn : nx ≠ .error) (hn' : nx ≠ .endTop) (σ : List PS) (c : UInt8) : P (stateHex nx σ c) := by
  unfold stateHex; split
  · exact P_goTo _ _ _ hn hn' (by decide)
  · exact P_failAt _ _
theorem P_neg (σ : List PS) (c : UInt8) : P (stateNeg σ c) := by unfold stateNeg; ptac
theorem P_0 (σ : List PS) (c : UInt8) : P (state0 σ c) := by unfold state0; ptac
theorem P_1 (σ : List PS) (c : UInt8) : P (state1 σ c) := by
  unfold state1; split
  · exact P_goTo _ _ _ (by decide) (by decide) (by decide)
  · exact P_0 _ _
theorem P_dot (σ : List PS) (c : UInt8) : P (stateDot σ c) := by unfold stateDot; ptac
theorem P_dot0 (σ : List PS) (c : UInt8) : P (stateDot0 σ c) := by unfold stateDot0; ptac
theorem P_eSign (σ : List PS) (c : UInt8) : P (stateESign σ c) := by unfold stateESign; ptac
theorem P_e (σ : List PS) (c : UInt8) : P (stateE σ c) := by
  unfold stateE; split
  · exact P_goTo _ _ _ (by decide) (by decide) (by decide)
  · exact P_eSign _ _
theorem P_e0 (σ : List PS) (c : UInt8) : P (stateE0 σ c) := by unfold stateE0; ptac
theorem P_lit (w : UInt8) (nx : Step) (hn : nx ≠ .error) (hn' : nx ≠ .endTop) (ctx : String) (σ : List PS) (c : UInt8) :
    P (stateLit w nx ctx σ c) := by
  unfold stateLit; split
  · exact P_goTo _ _ _ hn hn' (by decide)
  · exact P_failAt _ _

/-- Every transition out of a state other than `stateEndTop` / `stateError` satisfies `P`. -/
theorem P_delta (st : Step) (σ : List PS) (c : UInt8) (h1 : st ≠ .error) (h2 : st ≠ .endTop) : P (delta st σ c) := by
  cases st with
  | beginValueOrEmpty => exact P_beginValueOrEmpty _ _
  | beginValue => exact P_beginValue _ _
  | beginStringOrEmpty => exact P_beginStringOrEmpty _ _
  | beginString => exact P_beginString _ _
  | endValue => exact P_endValue _ _
  | endTop => exact absurd rfl h2
  | inString => exact P_inString _ _
  | inStringEsc => exact P_inStringEsc _ _
  | inStringEscU => exact P_hex _ (by decide) (by decide) _ _
  | inStringEscU1 => exact P_hex _ (by decide) (by decide) _ _
  | inStringEscU12 => exact P_hex _ (by decide) (by decide) _ _
  | inStringEscU123 => exact P_hex _ (by decide) (by decide) _ _
  | neg => exact P_neg _ _
  | s1 => exact P_1 _ _
  | s0 => exact P_0 _ _
  | dot => exact P_dot _ _
  | dot0 => exact P_dot0 _ _
  | e => exact P_e _ _
  | eSign => exact P_eSign _ _
  | e0 => exact P_e0 _ _
  | t => exact P_lit _ _ (by decide) (by decide) _ _ _
  | tr => exact P_lit _ _ (by decide) (by decide) _ _ _
  | tru => exact P_lit _ _ (by decide) (by decide) _ _ _
  | f => exact P_lit _ _ (by decide) (by decide) _ _ _
  | fa => exact P_lit _ _ (by decide) (by decide) _ _ _
  | fal => exact P_lit _ _ (by decide) (by decide) _ _ _
  | fals => exact P_lit _ _ (by decide) (by decide) _ _ _
  | n => exact P_lit _ _ (by decide) (by decide) _ _ _
  | nu => exact P_lit _ _ (by decide) (by decide) _ _ _
  | nul => exact P_lit _ _ (by decide) (by decide) _ _ _
  | error => exact absurd rfl h1

theorem endTop_dispatch (σ : List PS) (c : UInt8) :
    ((delta .endTop σ c).step = .endTop ∨ (delta .endTop σ c).step = .error) ∧
    ((delta .endTop σ c).step ≠ .error → (delta .endTop σ c).err = none) ∧
    ((delta .endTop σ c).step = .error → (delta .endTop σ c).err ≠ none) ∧
    (delta .endTop σ c).op ≠ .error ∧ (delta .endTop σ c).endTop = false := by
  simp only [delta, stateEndTop]; split <;> simp [goTo]

/-! ### `checkValid` and the control part -/

/-- The run of `checkValid` from scanner `s`: the loop, then `eof()`. -/
def runOK (s : Scanner) (w : Bytes) : Bool :=
  match scanAll s w with
  | .ok s' => s'.eof.2 != .error
  | .error _ => false

theorem checkValid_ok_iff (data : Bytes) : (∃ s, checkValid data = .ok s) ↔ runOK {} data = true := by
  unfold checkValid runOK
  cases scanAll {} data with
  | error e => simp
  | ok s =>
    simp only
    by_cases h : s.eof.2 = .error <;> simp [h]

theorem runOK_cons (s : Scanner) (c : UInt8) (w : Bytes) :
    runOK s (c :: w) =
      if (({ s with bytes := s.bytes + 1 } : Scanner).step1 c).2 = .error then false
      else runOK (({ s with bytes := s.bytes + 1 } : Scanner).step1 c).1 w := by
  simp only [runOK, scanAll]
  by_cases h : (({ s with bytes := s.bytes + 1 } : Scanner).step1 c).2 = .error <;> simp [h]

/-- Once an error is recorded every later opcode is `scanError`. -/
theorem runOK_dirty (w : Bytes) : ∀ s : Scanner, s.err.isSome = true → runOK s w = false := by
  induction w with
  | nil => intro s h; simp [runOK, scanAll, Scanner.eof, h]
  | cons c w ih =>
    intro s h
    rw [runOK_cons]
    split
    · rfl
    · apply ih
      simp only [Scanner.step1]
      cases (delta s.step s.stack c).err <;> simp [h]

theorem clean_bytes (s : Scanner) (h : Clean s) (n : Nat) : Clean { s with bytes := n } := h

/-- One error-free step keeps the scanner clean and is the control transition. -/
theorem step1_clean (s : Scanner) (hs : Clean s) (c : UInt8) (hne : (delta s.step s.stack c).step ≠ .error) :
    Clean (s.step1 c).1 ∧ (s.step1 c).2 = (delta s.step s.stack c).op ∧ (s.step1 c).2 ≠ .error ∧
    (s.step1 c).1.step = (delta s.step s.stack c).step ∧ (s.step1 c).1.stack = (delta s.step s.stack c).stack := by
  obtain ⟨he, het⟩ := hs
  have hst : s.step ≠ .error := by intro h; rw [h] at hne; simp [delta] at hne
  by_cases hT : s.step = .endTop
  · have := endTop_dispatch s.stack c
    rw [← hT] at this
    obtain ⟨h1, h2, _, h4, h5⟩ := this
    have h1' := h1.resolve_right hne
    refine ⟨⟨?_, ?_⟩, rfl, h4, rfl, rfl⟩
    · simp [Scanner.step1, h2 hne, he]
    · rw [hT] at h1'
      simp [Scanner.step1, het.mpr hT, hT, h1']
  · obtain ⟨p1, _, p3, p4, p5⟩ := P_delta s.step s.stack c hst hT
    have hf : s.endTop = false := by
      cases h : s.endTop with
      | false => rfl
      | true => exact absurd (het.mp h) hT
    refine ⟨⟨?_, ?_⟩, rfl, fun h => hne (p3 h), rfl, rfl⟩
    · simp [Scanner.step1, p1 hne, he]
    · simp only [Scanner.step1, hf, Bool.false_or]
      exact ⟨fun h => (p4 h).resolve_right hne, p5⟩

theorem step1_dirty (s : Scanner) (_hs : Clean s) (c : UInt8) (he : (delta s.step s.stack c).step = .error)
    (hst : s.step ≠ .error) : (s.step1 c).1.err.isSome = true := by
  have herr : (delta s.step s.stack c).err ≠ none := by
    by_cases hT : s.step = .endTop
    · have := endTop_dispatch s.stack c
      rw [← hT] at this
      exact this.2.2.1 he
    · exact (P_delta s.step s.stack c hst hT).2.1 he
  simp only [Scanner.step1]
  cases h : (delta s.step s.stack c).err with
  | none => exact absurd h herr
  | some _ => rfl

/-- **Link.** On a clean scanner `checkValid`'s run succeeds iff the control part accepts. -/
theorem runOK_eq_accB (w : Bytes) : ∀ s : Scanner, Clean s → runOK s w = accB s.step s.stack w := by
  induction w with
  | nil =>
    intro s hs
    obtain ⟨he, het⟩ := hs
    simp only [runOK, scanAll, accB, eofOK, Scanner.eof, he, Option.isSome_none, Bool.false_eq_true, if_false]
    cases hE : s.endTop with
    | true => simp [het.mp hE]
    | false =>
      have hne : s.step ≠ .endTop := fun h => by rw [het.mpr h] at hE; exact Bool.noConfusion hE
      have hb : (s.step == Step.endTop) = false := by simpa using hne
      simp only [Bool.false_eq_true, if_false, hb, Bool.false_or]
      cases hT : (delta s.step s.stack 0x20).endTop with
      | true => simp [Scanner.step1, hE, hT]
      | false =>
        simp only [Scanner.step1, hE, hT, Bool.false_or, Bool.false_eq_true, if_false]
        split <;> simp [he]
  | cons c w ih =>
    intro s hs
    have hs0 : Clean ({ s with bytes := s.bytes + 1 } : Scanner) := hs
    rw [runOK_cons]
    simp only [accB]
    by_cases hne : (delta s.step s.stack c).step = .error
    · simp only [hne, bne_self_eq_false, Bool.false_and]
      by_cases hst : s.step = .error
      · have hop : (({ s with bytes := s.bytes + 1 } : Scanner).step1 c).2 = .error := by
          simp [Scanner.step1, hst, delta]
        simp [hop]
      · have hd := step1_dirty _ hs0 c hne hst
        split
        · rfl
        · exact runOK_dirty w _ hd
    · obtain ⟨hc, _, hop, hstep, hstack⟩ := step1_clean _ hs0 c hne
      have hb : ((delta s.step s.stack c).step != Step.error) = true := by simpa using hne
      simp only [hb, Bool.true_and, hop, if_false]
      have := ih _ hc
      rw [hstep, hstack] at this
      exact this

theorem clean_init : Clean ({} : Scanner) := by simp [Clean]

/-- `checkValid` accepts exactly the byte strings the control automaton accepts from `stateBeginValue`
with an empty parse stack. -/
theorem checkValid_iff_accB (data : Bytes) : (∃ s, checkValid data = .ok s) ↔ accB .beginValue [] data = true := by
  rw [checkValid_ok_iff, runOK_eq_accB data {} clean_init]

end Tengo.Proofs.JsonScan

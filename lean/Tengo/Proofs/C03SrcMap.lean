import Tengo.Proofs.C03Retarget
/-!
C03 helper lemmas, part 4: the rebuilt source map (`insertSorted`, `sortMap`, pass 4).
-/
namespace Tengo.Proofs.C03
open Tengo.Model Tengo.Model.Opcodes Tengo.Model.Optimizer

abbrev KeySorted (l : List (Nat × Nat)) : Prop := l.Pairwise (fun p q => p.1 < q.1)

theorem mem_insertSorted {p q : Nat × Nat} : ∀ {l : List (Nat × Nat)},
    q ∈ insertSorted p l → q = p ∨ q ∈ l := by
  intro l
  induction l with
  | nil => intro h; simpa [insertSorted] using h
  | cons a l ih =>
    intro h
    unfold insertSorted at h
    split at h
    · rcases List.mem_cons.mp h with h | h
      · exact Or.inl h
      · exact Or.inr h
    · split at h
      · rcases List.mem_cons.mp h with h | h
        · exact Or.inl h
        · exact Or.inr (List.mem_cons_of_mem _ h)
      · rcases List.mem_cons.mp h with h | h
        · exact Or.inr (h ▸ List.mem_cons_self ..)
        · rcases ih h with h | h
          · exact Or.inl h
          · exact Or.inr (List.mem_cons_of_mem _ h)

theorem self_mem_insertSorted (p : Nat × Nat) : ∀ (l : List (Nat × Nat)), p ∈ insertSorted p l := by
  intro l
  induction l with
  | nil => simp [insertSorted]
  | cons a l ih =>
    unfold insertSorted
    split
    · simp
    · split
      · simp
      · exact List.mem_cons_of_mem _ ih

/-- An entry survives an insertion unless an entry with the same key and another value comes in. -/
theorem mem_insertSorted_of_mem {p q : Nat × Nat} (hq : q.1 = p.1 → q = p) :
    ∀ {l : List (Nat × Nat)}, q ∈ l → q ∈ insertSorted p l := by
  intro l
  induction l with
  | nil => intro h; cases h
  | cons a l ih =>
    intro h
    unfold insertSorted
    split
    · exact List.mem_cons_of_mem _ h
    · split
      · rename_i heq
        rcases List.mem_cons.mp h with h | h
        · have : q.1 = p.1 := by rw [h]; have := heq; simp at this; exact this.symm
          rw [hq this]; simp
        · exact List.mem_cons_of_mem _ h
      · rcases List.mem_cons.mp h with h | h
        · rw [h]; simp
        · exact List.mem_cons_of_mem _ (ih h)

theorem insertSorted_sorted (p : Nat × Nat) : ∀ {l : List (Nat × Nat)},
    KeySorted l → KeySorted (insertSorted p l) := by
  intro l
  induction l with
  | nil => intro _; simp [insertSorted, KeySorted]
  | cons a l ih =>
    intro h
    have h' := List.pairwise_cons.mp h
    unfold insertSorted
    split
    · rename_i hlt
      refine List.Pairwise.cons ?_ h
      intro b hb
      rcases List.mem_cons.mp hb with rfl | hb
      · exact hlt
      · exact Nat.lt_trans hlt (h'.1 b hb)
    · split
      · rename_i heq
        have heq' : p.1 = a.1 := by simpa using heq
        refine List.Pairwise.cons ?_ h'.2
        intro b hb; rw [heq']; exact h'.1 b hb
      · rename_i hnlt hne
        have hne' : ¬ p.1 = a.1 := by simpa using hne
        refine List.Pairwise.cons ?_ (ih h'.2)
        intro b hb
        rcases mem_insertSorted hb with rfl | hb
        · omega
        · exact h'.1 b hb

theorem foldl_sorted : ∀ (m acc : List (Nat × Nat)), KeySorted acc →
    KeySorted (m.foldl (fun acc p => insertSorted p acc) acc) := by
  intro m
  induction m with
  | nil => intro acc h; exact h
  | cons p m ih => intro acc h; exact ih _ (insertSorted_sorted p h)

theorem sortMap_sorted (m : List (Nat × Nat)) : KeySorted (sortMap m) :=
  foldl_sorted m [] List.Pairwise.nil

theorem mem_foldl : ∀ (m acc : List (Nat × Nat)) (q : Nat × Nat),
    q ∈ m.foldl (fun acc p => insertSorted p acc) acc → q ∈ acc ∨ q ∈ m := by
  intro m
  induction m with
  | nil => intro acc q h; exact Or.inl h
  | cons p m ih =>
    intro acc q h
    rcases ih _ q h with h | h
    · rcases mem_insertSorted h with h | h
      · exact Or.inr (h ▸ List.mem_cons_self ..)
      · exact Or.inl h
    · exact Or.inr (List.mem_cons_of_mem _ h)

theorem mem_sortMap {m : List (Nat × Nat)} {q : Nat × Nat} (h : q ∈ sortMap m) : q ∈ m := by
  rcases mem_foldl m [] q h with h | h
  · cases h
  · exact h

theorem foldl_mem : ∀ (m acc : List (Nat × Nat)) (q : Nat × Nat),
    (∀ p ∈ m, q.1 = p.1 → q = p) → q ∈ acc ∨ q ∈ m →
    q ∈ m.foldl (fun acc p => insertSorted p acc) acc := by
  intro m
  induction m with
  | nil => intro acc q _ h; rcases h with h | h; exact h; cases h
  | cons p m ih =>
    intro acc q hf h
    apply ih _ q (fun p' hp' => hf p' (List.mem_cons_of_mem _ hp'))
    rcases h with h | h
    · exact Or.inl (mem_insertSorted_of_mem (hf p (List.mem_cons_self ..)) h)
    · rcases List.mem_cons.mp h with h | h
      · exact Or.inl (h ▸ self_mem_insertSorted p acc)
      · exact Or.inr h

/-- If `q`'s key carries only `q`'s value in `m`, then `sortMap m` maps the key to that value. -/
theorem sortMap_lookup {m : List (Nat × Nat)} {k v : Nat} (h : (k, v) ∈ m)
    (hf : ∀ p ∈ m, k = p.1 → (k, v) = p) : (sortMap m).lookup k = some v :=
  lookup_of_sorted (sortMap_sorted m) (foldl_mem m [] (k, v) hf (Or.inr h))

/-- Keys are never lost. -/
theorem foldl_key : ∀ (m acc : List (Nat × Nat)) (k : Nat),
    ((∃ v, (k, v) ∈ acc) ∨ ∃ v, (k, v) ∈ m) →
    ∃ v, (k, v) ∈ m.foldl (fun acc p => insertSorted p acc) acc := by
  intro m
  induction m with
  | nil => intro acc k h; rcases h with h | ⟨v, h⟩; exact h; cases h
  | cons p m ih =>
    intro acc k h
    apply ih
    rcases h with ⟨v, h⟩ | ⟨v, h⟩
    · by_cases hk : k = p.1
      · exact Or.inl ⟨p.2, by rw [hk]; exact self_mem_insertSorted p acc⟩
      · exact Or.inl ⟨v, mem_insertSorted_of_mem (fun h' => absurd h' hk) h⟩
    · rcases List.mem_cons.mp h with h | h
      · exact Or.inl ⟨v, h ▸ self_mem_insertSorted p acc⟩
      · exact Or.inr ⟨v, h⟩

theorem sortMap_key {m : List (Nat × Nat)} {k v : Nat} (h : (k, v) ∈ m) :
    ∃ v', (sortMap m).lookup k = some v' := by
  obtain ⟨v', hv'⟩ := foldl_key m [] k (Or.inr ⟨v, h⟩)
  exact lookup_some_of_mem hv'

/-! ### pass 4 -/

/-- The filtered source map of pass 4. -/
def smKept (pm srcMap : List (Nat × Nat)) : List (Nat × Nat) :=
  srcMap.filterMap (fun (p, s) => (pm.lookup p).map (fun n => (n, s)))

theorem mem_smKept {pm srcMap : List (Nat × Nat)} {n s : Nat} :
    (n, s) ∈ smKept pm srcMap ↔ ∃ p, (p, s) ∈ srcMap ∧ pm.lookup p = some n := by
  unfold smKept
  simp only [List.mem_filterMap, Prod.exists, Option.map_eq_some_iff, Prod.mk.injEq]
  constructor
  · rintro ⟨p, s', h, m, hm, rfl, rfl⟩; exact ⟨p, h, hm⟩
  · rintro ⟨p, h, hm⟩; exact ⟨p, s, h, n, hm, rfl, rfl⟩

end Tengo.Proofs.C03

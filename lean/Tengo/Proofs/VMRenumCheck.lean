import Tengo.Proofs.VMRenum
import Tengo.Proofs.VMRelocCheck
import Tengo.Model.RenumCheck
/-!
Soundness of the decidable renumbering check (`Tengo.Model.VM.checkRenum`): a passed check gives
`RenumShape`; together with agreement of the value constants (`ValsAgree`: by `valsAgreeB`, or by
construction for `expandVals`) it gives `Renum`, and so corresponding runs of the whole-VM model.
-/
set_option linter.unusedSectionVars false
set_option linter.unusedSimpArgs false
set_option linter.unusedVariables false
namespace Tengo.Model.VM
open Tengo.Model Tengo.Model.Spec Tengo.Model.Opcodes

theorem fnShapeB_sound {f f' : Fn} (h : fnShapeB f f' = true) :
    f'.numLocals = f.numLocals ∧ f'.numParams = f.numParams ∧ f'.varargs = f.varargs ∧ f'.insts.size = f.insts.size := by
  unfold fnShapeB at h
  simp only [Bool.and_eq_true, beq_iff_eq] at h
  exact ⟨h.1.1.1, h.1.1.2, h.1.2, h.2⟩

theorem constShapeB_sound {a b : Option Const} (h : constShapeB a b = true) : ConstShape a b := by
  unfold constShapeB at h
  split at h
  · trivial
  · exact fnShapeB_sound h
  · trivial
  · cases h

theorem constRefOkB_sound {a b : Option Const} (h : constRefOkB a b = true) : ConstRefOk a b := by
  unfold constRefOkB at h
  split at h
  · trivial
  · simpa [ConstRefOk] using h
  · cases h

theorem isFnPairB_sound {a b : Option Const} (h : isFnPairB a b = true) : IsFnPair a b := by
  unfold isFnPairB at h
  split at h
  · trivial
  · cases h

theorem fetchRelCB_sound {cm : Nat → Nat} {i i' : Fetched} (h : fetchRelCB cm i i' = true) : FetchRelC cm i i' := by
  unfold fetchRelCB at h
  simp only [Bool.and_eq_true, beq_iff_eq] at h
  obtain ⟨⟨⟨h1, h2⟩, h3⟩, h4⟩ := h
  refine ⟨h1, h2, h3, ?_⟩
  rw [h4]
  by_cases hc : i.op = opConstant ∨ i.op = opClosure
  · rw [if_pos hc, if_pos (by simpa using hc)]
  · rw [if_neg hc, if_neg (by simpa using hc)]

theorem jumpOpsB_of {op : Nat} (h : op ∈ jumpOps) : jumpOpsB.contains op = true := by
  simpa [jumpOpsB, jumpOps] using h

/-- **Soundness of the renumbering check**, value constants aside. -/
theorem checkRenum_shape (code code' : Code) (tab : List Nat) (starts : Nat → List Nat)
    (h : checkRenum code code' tab starts = true) :
    RenumShape code code' (cmOf tab code'.consts.size) starts := by
  unfold checkRenum at h
  simp only [Bool.and_eq_true, List.all_eq_true, beq_iff_eq, List.mem_range] at h
  obtain ⟨⟨⟨hlen, hmain⟩, hconsts⟩, hfns⟩ := h
  generalize hcm : cmOf tab code'.consts.size = cm at *
  have hfn : ∀ idx f, code.fn idx = some f →
      ∃ f', code'.fn (fim cm idx) = some f' ∧ checkFnRenum code code' cm f f' (starts idx) = true := by
    intro idx f hf
    have := hfns idx (fn_some_lt hf)
    rw [hf] at this
    cases hf' : code'.fn (fim cm idx) with
    | none => rw [hf'] at this; simp at this
    | some f' => rw [hf'] at this; exact ⟨f', rfl, this⟩
  have hat : ∀ idx f f' p, code.fn idx = some f → code'.fn (fim cm idx) = some f' → p ∈ starts idx →
      p < f.insts.size ∧ fetchRelCB cm (fetch f p) (fetch f' p) = true ∧
      ((fetch f p).op = opConstant →
        constRefOkB (code.consts[(fetch f p).a0]?) (code'.consts[cm (fetch f p).a0]?) = true) ∧
      ((fetch f p).op = opClosure →
        isFnPairB (code.consts[(fetch f p).a0]?) (code'.consts[cm (fetch f p).a0]?) = true) ∧
      (canFallB (fetch f p).op = true → p + (fetch f p).size ∈ starts idx) ∧
      (jumpOpsB.contains (fetch f p).op = true → (fetch f p).a0 ∈ starts idx) := by
    intro idx f f' p hf hf' hp
    obtain ⟨f'', hf'', hc⟩ := hfn idx f hf
    rw [hf'] at hf''
    cases hf''
    unfold checkFnRenum at hc
    simp only [Bool.and_eq_true, List.all_eq_true] at hc
    have := hc.2 p hp
    simp only [Bool.and_eq_true, decide_eq_true_eq, Bool.or_eq_true, Bool.not_eq_true', bne_iff_ne, ne_eq,
      List.contains_iff_mem] at this
    obtain ⟨⟨⟨⟨⟨h1, h2⟩, h3⟩, h4⟩, h5⟩, h6⟩ := this
    refine ⟨h1, h2, ?_, ?_, ?_, ?_⟩
    · intro ho; rcases h3 with h3 | h3
      · exact absurd ho h3
      · exact h3
    · intro ho; rcases h4 with h4 | h4
      · exact absurd ho h4
      · exact h4
    · intro ho; rcases h5 with h5 | h5
      · rw [ho] at h5; cases h5
      · exact h5
    · intro ho; rcases h6 with h6 | h6
      · rw [List.contains_iff_mem] at ho
        have : jumpOpsB.contains (fetch f p).op = true := by rw [List.contains_iff_mem]; exact ho
        rw [h6] at this; cases this
      · exact h6
  refine ⟨fnShapeB_sound hmain, ?_, ?_, ?_, ?_, ?_, ?_, ?_⟩
  · intro k
    by_cases hk : k < code.consts.size
    · exact constShapeB_sound (hconsts k hk)
    · have h1 : code.consts[k]? = none := by simp; omega
      have h2 : cm k = code'.consts.size + k := by
        rw [← hcm]; unfold cmOf
        have : tab[k]? = none := by simp; omega
        rw [this]; rfl
      have h3 : code'.consts[cm k]? = none := by rw [h2]; simp
      rw [h1, h3]; trivial
  · intro idx f hf
    obtain ⟨f', _, hc⟩ := hfn idx f hf
    unfold checkFnRenum at hc
    simp only [Bool.and_eq_true, List.contains_iff_mem] at hc
    exact hc.1
  · intro idx f f' p hf hf' hp
    obtain ⟨h1, h2, _⟩ := hat idx f f' p hf hf' hp
    exact ⟨h1, fetchRelCB_sound h2⟩
  · intro idx f p hf hp ho
    obtain ⟨f', hf', _⟩ := hfn idx f hf
    exact constRefOkB_sound ((hat idx f f' p hf hf' hp).2.2.1 ho)
  · intro idx f p hf hp ho
    obtain ⟨f', hf', _⟩ := hfn idx f hf
    exact isFnPairB_sound ((hat idx f f' p hf hf' hp).2.2.2.1 ho)
  · intro idx f p hf hp ho
    obtain ⟨f', hf', _⟩ := hfn idx f hf
    exact (hat idx f f' p hf hf' hp).2.2.2.2.1 (canFallB_of ho)
  · intro idx f p hf hp ho
    obtain ⟨f', hf', _⟩ := hfn idx f hf
    exact (hat idx f f' p hf hf' hp).2.2.2.2.2 (jumpOpsB_of ho)

/-- **Soundness of the renumbering check**: a passed check and agreeing value constants give `Renum`. -/
theorem checkRenum_sound (code code' : Code) (tab : List Nat) (starts : Nat → List Nat)
    (h : checkRenum code code' tab starts = true) (hv : ValsAgree code code' (cmOf tab code'.consts.size)) :
    Renum code code' (cmOf tab code'.consts.size) starts :=
  { toRenumShape := checkRenum_shape code code' tab starts h, vals := hv }

/-! ### agreement of the value constants -/

theorem valEqB_sound {a b : Value} (h : valEqB a b = true) : a = b := by
  unfold valEqB at h
  split at h <;> first | rfl | (simp only [beq_iff_eq] at h; subst h; rfl) | cases h

/-- Decidable agreement (pools whose duplicated constants are not floats). -/
theorem valsAgreeB_sound (code code' : Code) (tab : List Nat) (h : valsAgreeB code code' tab = true) :
    ValsAgree code code' (cmOf tab code'.consts.size) := by
  intro k v v' h1 h2
  unfold valsAgreeB at h
  rw [List.all_eq_true] at h
  have hk : k < code.consts.size := (Array.getElem?_eq_some_iff.mp h1).1
  have := h k (List.mem_range.mpr hk)
  rw [h1, h2] at this
  exact valEqB_sound this

theorem expandVals_get (code code' : Code) (tab : List Nat) (k : Nat) :
    (expandVals code code' tab).consts[k]? = (code.consts[k]?).map (fun c =>
      match c, code'.consts[cmOf tab code'.consts.size k]? with
      | .val _, some (.val v') => .val v'
      | c, _ => c) := by
  unfold expandVals
  simp only [Array.getElem?_mapIdx]
  rfl

theorem expandVals_fn (code code' : Code) (tab : List Nat) (idx : Nat) :
    (expandVals code code' tab).fn idx = code.fn idx := by
  unfold Code.fn
  by_cases h0 : idx = 0
  · subst h0; rfl
  · have : (idx == 0) = false := by simp [h0]
    simp only [this, expandVals_get]
    cases h : code.consts[idx - 1]? with
    | none => simp
    | some c =>
      cases c with
      | fn f r => simp
      | val v =>
        simp only [Option.map_some]
        cases h2 : code'.consts[cmOf tab code'.consts.size (idx - 1)]? with
        | none => rfl
        | some c' => cases c' <;> rfl

/-- Agreement by construction. -/
theorem expandVals_agree (code code' : Code) (tab : List Nat) :
    ValsAgree (expandVals code code' tab) code' (cmOf tab code'.consts.size) := by
  intro k v v' h1 h2
  rw [expandVals_get] at h1
  cases h : code.consts[k]? with
  | none => simp [h] at h1
  | some c =>
    cases c with
    | fn f r => simp [h] at h1
    | val w =>
      simp only [h, Option.map_some, h2, Option.some.injEq, Const.val.injEq] at h1
      exact h1

/-- Replacing the value constants does not change the shape. -/
theorem RenumShape.expand {code code' : Code} {tab : List Nat} {starts : Nat → List Nat}
    (hr : RenumShape code code' (cmOf tab code'.consts.size) starts) :
    RenumShape (expandVals code code' tab) code' (cmOf tab code'.consts.size) starts := by
  have hshape : ∀ k, ConstShape (code.consts[k]?) (code'.consts[cmOf tab code'.consts.size k]?) →
      ConstShape ((expandVals code code' tab).consts[k]?) (code'.consts[cmOf tab code'.consts.size k]?) := by
    intro k h
    rw [expandVals_get]
    cases h1 : code.consts[k]? with
    | none => rw [h1] at h; exact h
    | some c =>
      cases c with
      | fn f r => rw [h1] at h; exact h
      | val v =>
        rw [h1] at h
        cases h2 : code'.consts[cmOf tab code'.consts.size k]? with
        | none => rw [h2] at h; simp [ConstShape] at h
        | some c' =>
          cases c' with
          | val v' => simp [ConstShape]
          | fn f' r' => rw [h2] at h; simp [ConstShape] at h
  have href : ∀ k, ConstRefOk (code.consts[k]?) (code'.consts[cmOf tab code'.consts.size k]?) →
      ConstRefOk ((expandVals code code' tab).consts[k]?) (code'.consts[cmOf tab code'.consts.size k]?) := by
    intro k h
    rw [expandVals_get]
    cases h1 : code.consts[k]? with
    | none => rw [h1] at h; exact h
    | some c =>
      cases c with
      | fn f r => rw [h1] at h; exact h
      | val v =>
        rw [h1] at h
        cases h2 : code'.consts[cmOf tab code'.consts.size k]? with
        | none => rw [h2] at h; simp [ConstRefOk] at h
        | some c' =>
          cases c' with
          | val v' => simp [ConstRefOk]
          | fn f' r' => rw [h2] at h; simp [ConstRefOk] at h
  have hpair : ∀ k, IsFnPair (code.consts[k]?) (code'.consts[cmOf tab code'.consts.size k]?) →
      IsFnPair ((expandVals code code' tab).consts[k]?) (code'.consts[cmOf tab code'.consts.size k]?) := by
    intro k h
    rw [expandVals_get]
    cases h1 : code.consts[k]? with
    | none => rw [h1] at h; exact h
    | some c =>
      cases c with
      | fn f r => rw [h1] at h; exact h
      | val v => rw [h1] at h; simp [IsFnPair] at h
  refine ⟨hr.main, fun k => hshape k (hr.consts k), ?_, ?_, ?_, ?_, ?_, ?_⟩
  · intro idx f hf; rw [expandVals_fn] at hf; exact hr.entry idx f hf
  · intro idx f f' p hf hf' hp; rw [expandVals_fn] at hf; exact hr.instr idx f f' p hf hf' hp
  · intro idx f p hf hp ho; rw [expandVals_fn] at hf; exact href _ (hr.constOk idx f p hf hp ho)
  · intro idx f p hf hp ho; rw [expandVals_fn] at hf; exact hpair _ (hr.closOk idx f p hf hp ho)
  · intro idx f p hf hp ho; rw [expandVals_fn] at hf; exact hr.fall idx f p hf hp ho
  · intro idx f p hf hp ho; rw [expandVals_fn] at hf; exact hr.jump idx f p hf hp ho

/-- **Soundness of the renumbering check, value constants by construction**: if the check passes, then
`code'` is the renumbering of `code` with its value constants read from `code'`. -/
theorem checkRenum_sound_expand (code code' : Code) (tab : List Nat) (starts : Nat → List Nat)
    (h : checkRenum code code' tab starts = true) :
    Renum (expandVals code code' tab) code' (cmOf tab code'.consts.size) starts :=
  { toRenumShape := (checkRenum_shape code code' tab starts h).expand, vals := expandVals_agree code code' tab }

/-- When the decidable agreement holds, reading the value constants from `code'` changes nothing. -/
theorem expandVals_eq_self (code code' : Code) (tab : List Nat) (h : valsAgreeB code code' tab = true) :
    expandVals code code' tab = code := by
  have hv := valsAgreeB_sound code code' tab h
  unfold expandVals
  congr 1
  apply Array.ext
  · simp
  · intro k h1 h2
    simp only [Array.getElem_mapIdx]
    have hk : code.consts[k]? = some code.consts[k] := by simp [h2]
    cases hc : code.consts[k] with
    | fn f r => rfl
    | val v =>
      cases h3 : code'.consts[cmOf tab code'.consts.size k]? with
      | none => rfl
      | some c' =>
        cases c' with
        | fn f' r' => rfl
        | val v' =>
          rw [hc] at hk
          rw [hv k v v' hk h3]

end Tengo.Model.VM

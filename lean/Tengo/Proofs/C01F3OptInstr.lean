import Tengo.Proofs.C01BridgeF3CompBase
import Tengo.Proofs.C01BridgeF3VMEnc
import Tengo.Proofs.C03Source
import Tengo.Proofs.F3Base
/-!
C01 on fragment F3, closing the optimizer gap, layer 0: the instruction list of the fragment (`List F3.Ins`) as a
decoded instruction stream of the optimizer model (`List Instr`, positions from `off`).

* `toIs off is`: one `Instr` per `F3.Ins`, opcode and operands as `emit` is called (`toInstr3`), laid out from `off`.
* `encode_toIs`: its `MakeInstruction` encoding is the fragment's byte encoding `encodeIns3`;
  `layout_toIs`, `wfcode_toIs` (operands fit: `InsFits3`), hence `decode_toIs`: the fragment's bytes decode to it.
* `Bd code t`: `t` is an instruction boundary of `code` (start of an instruction, or the end);
  `bd_cases`: a boundary is the end or the position of an instruction of `toIs 0 code`.
* `jtarget`, `JOk code frag`: every jump of `frag` lands on a boundary of `code`;
  `wfjumps_toIs`: then `WFJumps (toIs 0 code) (csize code)` (what makes `optimizeFunc` total, `opt_total`).
-/
set_option linter.unusedVariables false
set_option linter.unusedSimpArgs false
namespace Tengo.Proofs.C01F3Opt
open Tengo.Model Tengo.Model.Opcodes Tengo.Model.Optimizer
open Tengo.Model.F3 (Ins csize)
open Tengo.Proofs.C03 Tengo.Proofs.C03Reloc
open Tengo.Proofs.C01BridgeF3Comp (toInstr3 encI3 encodeIns3 encI3_eq encodeIns3_cons encodeIns3_length)
open Tengo.Proofs.C01BridgeF3 (InsFits3)

/-- The decoded instruction of one instruction of the fragment at byte offset `p`. -/
def toI (p : Nat) (i : Ins) : Instr := ⟨p, (toInstr3 i).1, (toInstr3 i).2⟩

/-- The decoded instruction stream of a fragment instruction list laid out from `off`. -/
def toIs : Nat → List Ins → List Instr
  | _, [] => []
  | off, i :: is => toI off i :: toIs (off + i.size) is

theorem toI_size (p : Nat) (i : Ins) : (toI p i).size = i.size := by
  cases i <;> rfl

theorem toI_pos (p : Nat) (i : Ins) : (toI p i).pos = p := rfl

theorem totalSize_toIs : ∀ (is : List Ins) (off : Nat), totalSize (toIs off is) = csize is
  | [], _ => rfl
  | i :: is, off => by
    rw [toIs, totalSize_cons, toI_size, totalSize_toIs is, csize]

theorem encode_toIs : ∀ (is : List Ins) (off : Nat), encode (toIs off is) = encodeIns3 is
  | [], _ => rfl
  | i :: is, off => by
    rw [toIs, encode_cons, encode_toIs is, encodeIns3_cons]
    show encodeInstr (toInstr3 i).1 (toInstr3 i).2 ++ _ = _
    rw [encI3_eq]

theorem layout_toIs : ∀ (is : List Ins) (off : Nat), Layout off (toIs off is)
  | [], _ => trivial
  | i :: is, off => by
    refine ⟨rfl, ?_⟩
    rw [toI_size]
    exact layout_toIs is _

theorem wf_toI (p : Nat) (i : Ins) (h : InsFits3 i) : WFInstr (toI p i) := by
  cases i <;> first
    | exact ⟨[], rfl, trivial⟩
    | exact ⟨[2], rfl, h, trivial⟩
    | exact ⟨[1], rfl, h, trivial⟩
    | exact ⟨[4], rfl, h, trivial⟩
    | exact ⟨[1, 1], rfl, h, by decide, trivial⟩
    | (rename_i b; cases b <;> exact ⟨[1], rfl, by decide, trivial⟩)

theorem wfcode_toIs : ∀ (is : List Ins) (off : Nat), (∀ i ∈ is, InsFits3 i) → WFCode (toIs off is)
  | [], _, _ => by intro j hj; cases hj
  | i :: is, off, h => by
    intro j hj
    rw [toIs, List.mem_cons] at hj
    rcases hj with rfl | hj
    · exact wf_toI _ _ (h i List.mem_cons_self)
    · exact wfcode_toIs is _ (fun x hx => h x (List.mem_cons_of_mem _ hx)) j hj

theorem toIs_append : ∀ (a b : List Ins) (off : Nat), toIs off (a ++ b) = toIs off a ++ toIs (off + csize a) b
  | [], b, off => by simp [toIs, csize]
  | i :: a, b, off => by
    simp only [List.cons_append, toIs, csize]
    rw [toIs_append a b, Nat.add_assoc]

/-- **The fragment's bytes decode to `toIs 0`.** -/
theorem decode_toIs (is : List Ins) (h : ∀ i ∈ is, InsFits3 i) : decode (encodeIns3 is) = some (toIs 0 is) := by
  rw [← encode_toIs is 0]
  exact decode_encode _ (layout_toIs is 0) (wfcode_toIs is 0 h)

/-! ### boundaries -/

/-- `t` is an instruction boundary of `code`: the start of an instruction or the end. -/
def Bd (code : List Ins) (t : Nat) : Prop := ∃ pre post, code = pre ++ post ∧ t = csize pre

theorem Bd.zero (code : List Ins) : Bd code 0 := ⟨[], code, rfl, rfl⟩

theorem Bd.end_ (code : List Ins) : Bd code (csize code) := ⟨code, [], by simp, rfl⟩

theorem Bd.le {code : List Ins} {t : Nat} (h : Bd code t) : t ≤ csize code := by
  obtain ⟨pre, post, rfl, rfl⟩ := h
  rw [F3.csize_append]; omega

theorem Bd.start {code : List Ins} {off : Nat} {frag : List Ins} (h : F3.At code off frag) : Bd code off := by
  obtain ⟨pre, post, rfl, rfl⟩ := h
  exact ⟨pre, frag ++ post, by simp, rfl⟩

theorem Bd.stop {code : List Ins} {off : Nat} {frag : List Ins} (h : F3.At code off frag) {t : Nat}
    (e : t = off + csize frag) : Bd code t := by
  obtain ⟨pre, post, rfl, rfl⟩ := h
  exact ⟨pre ++ frag, post, by simp, by rw [e, F3.csize_append]⟩

/-- A boundary is the end of the code or the position of one of its instructions. -/
theorem bd_cases {code : List Ins} {t : Nat} (h : Bd code t) (off : Nat) :
    off + t = off + csize code ∨ ∃ j ∈ toIs off code, j.pos = off + t := by
  obtain ⟨pre, post, rfl, rfl⟩ := h
  cases post with
  | nil => left; simp
  | cons i post =>
    right
    refine ⟨toI (off + csize pre) i, ?_, rfl⟩
    rw [toIs_append]
    exact List.mem_append_right _ (by simp [toIs])

/-! ### jumps -/

/-- The operand of a jump instruction. -/
def jtarget : Ins → Option Nat
  | .jmpf t | .jmp t | .andjmp t | .orjmp t => some t
  | _ => none

theorem isJump_toI (p : Nat) (i : Ins) (h : isJump (toI p i).op = true) :
    ∃ t, jtarget i = some t ∧ (toI p i).args.head? = some t := by
  cases i <;> first
    | exact ⟨_, rfl, rfl⟩
    | exact Bool.noConfusion h

/-- Every jump of `frag` lands on an instruction boundary of `code`. -/
def JOk (code frag : List Ins) : Prop := ∀ i ∈ frag, ∀ t, jtarget i = some t → Bd code t

theorem JOk.nil (code : List Ins) : JOk code [] := by intro i hi; cases hi

theorem JOk.append {code a b : List Ins} (ha : JOk code a) (hb : JOk code b) : JOk code (a ++ b) := by
  intro i hi t ht
  rcases List.mem_append.mp hi with h | h
  · exact ha i h t ht
  · exact hb i h t ht

theorem JOk.plain {code : List Ins} {i : Ins} (h : jtarget i = none) : JOk code [i] := by
  intro j hj t ht
  simp only [List.mem_singleton] at hj
  subst hj
  rw [h] at ht; cases ht

theorem JOk.jump {code : List Ins} {i : Ins} {t : Nat} (h : jtarget i = some t) (hb : Bd code t) : JOk code [i] := by
  intro j hj t' ht
  simp only [List.mem_singleton] at hj
  subst hj
  rw [h] at ht
  injection ht with ht
  subst ht
  exact hb

theorem mem_toIs : ∀ {is : List Ins} {off : Nat} {j : Instr}, j ∈ toIs off is → ∃ p, ∃ i ∈ is, j = toI p i
  | [], _, _, h => by cases h
  | i :: is, off, j, h => by
    rw [toIs, List.mem_cons] at h
    rcases h with rfl | h
    · exact ⟨off, i, List.mem_cons_self, rfl⟩
    · obtain ⟨p, x, hx, e⟩ := mem_toIs h
      exact ⟨p, x, List.mem_cons_of_mem _ hx, e⟩

/-- Jumps on boundaries are well-formed jumps in the sense of the optimizer's totality theorem. -/
theorem wfjumps_toIs {code : List Ins} (h : JOk code code) : WFJumps (toIs 0 code) (csize code) := by
  intro j hj hjmp
  obtain ⟨p, i, hi, rfl⟩ := mem_toIs hj
  obtain ⟨t, ht, hhd⟩ := isJump_toI p i hjmp
  refine ⟨t, hhd, ?_⟩
  rcases bd_cases (h i hi t ht) 0 with e | ⟨x, hx, hp⟩
  · left; omega
  · right; exact ⟨x, hx, by rw [hp]; omega⟩

/-- Jump operands on boundaries of a body shorter than `2^32` fit their 4 bytes. -/
theorem jump_fits {code : List Ins} (h : JOk code code) (hsz : csize code < 4294967296) {i : Ins} (hi : i ∈ code)
    {t : Nat} (ht : jtarget i = some t) : t < 4294967296 := by
  have := (h i hi t ht).le
  omega

end Tengo.Proofs.C01F3Opt

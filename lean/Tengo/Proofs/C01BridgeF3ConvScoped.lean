import Tengo.Proofs.F3NoBad
import Tengo.Proofs.C01F3OptInit
/-!
C01 on fragment F3: the syntactic well-formedness of the compiler bridge (`wfProg`, through `SrcOk`) implies the
static check `Scoped` of the F3 reference semantics (definite assignment of the local slots, `break` / `continue`
only inside loops, `return` only inside functions).

The definite-assignment set of a function body after `m` slots is "`i < m`": every lemma is quantified over all
sets `d` that cover the slots below `m` (`Cov d m`), because `outS` changes the set along a statement list.

* `scoped_of_srcOk`: `SrcOk P n` + closedness of the callable values ⇒ `Scoped E P`;
* `scoped_envOf`: the concrete data semantics `envOf P ctab refs` is `Scoped`.
-/
set_option linter.unusedVariables false
set_option linter.unusedSimpArgs false
namespace Tengo.Proofs.C01BridgeF3Conv
open Tengo.Model
open Tengo.Model.F3 (Ex Exs Stm Stms FnDef Prog daE daEs outS outSs updB okS okSs outS_mono outSs_mono Scoped)
open Tengo.Proofs.C01BridgeF3Comp
open Tengo.Proofs.C01F3Opt (SrcOk MemS wfMain_fn envOf unrefOf unrefOf_some)

/-- The set `d` covers the local slots below `m`. -/
def Cov (d : Nat → Bool) (m : Nat) : Prop := ∀ i, i < m → d i = true

theorem Cov.outS {d : Nat → Bool} {m : Nat} (h : Cov d m) (s : Stm) : Cov (outS d s) m :=
  fun i hi => outS_mono d s i (h i hi)

theorem Cov.updB {d : Nat → Bool} {m : Nat} (h : Cov d m) : Cov (updB d m) (m + 1) := by
  intro i hi
  simp only [F3.updB]
  split
  · rfl
  · exact h i (by omega)

theorem cov_zero (d : Nat → Bool) : Cov d 0 := fun i hi => absurd hi (Nat.not_lt_zero i)

theorem cov_params (np : Nat) : Cov (fun i => decide (i < np)) np := fun i hi => decide_eq_true hi

section
variable (isFn : Nat → Bool) (n : Nat)

mutual
  theorem daE_of_wfE3 (m : Nat) (d : Nat → Bool) (hd : Cov d m) :
      ∀ (e : Ex) (k : Nat), wfE3 isFn n m k e = true → daE d e = true
    | .lit _, _, _ => by simp only [daE]
    | .tru, _, _ => by simp only [daE]
    | .fls, _, _ => by simp only [daE]
    | .undef, _, _ => by simp only [daE]
    | .glob _, _, _ => by simp only [daE]
    | .loc i, k, h => by
      simp only [wfE3, decide_eq_true_eq] at h
      simp only [daE]
      exact hd i h
    | .bin tok l r, k, h => by
      simp only [wfE3, Bool.and_eq_true] at h
      simp only [daE, Bool.and_eq_true]
      exact ⟨daE_of_wfE3 m d hd l _ h.1.2, daE_of_wfE3 m d hd r _ h.2⟩
    | .eq l r, k, h => by
      simp only [wfE3, Bool.and_eq_true] at h
      simp only [daE, Bool.and_eq_true]
      exact ⟨daE_of_wfE3 m d hd l _ h.1, daE_of_wfE3 m d hd r _ h.2⟩
    | .ne l r, k, h => by
      simp only [wfE3, Bool.and_eq_true] at h
      simp only [daE, Bool.and_eq_true]
      exact ⟨daE_of_wfE3 m d hd l _ h.1, daE_of_wfE3 m d hd r _ h.2⟩
    | .land l r, k, h => by
      simp only [wfE3, Bool.and_eq_true] at h
      simp only [daE, Bool.and_eq_true]
      exact ⟨daE_of_wfE3 m d hd l _ h.1, daE_of_wfE3 m d hd r _ h.2⟩
    | .lor l r, k, h => by
      simp only [wfE3, Bool.and_eq_true] at h
      simp only [daE, Bool.and_eq_true]
      exact ⟨daE_of_wfE3 m d hd l _ h.1, daE_of_wfE3 m d hd r _ h.2⟩
    | .neg e, k, h => by
      simp only [wfE3] at h
      simp only [daE]
      exact daE_of_wfE3 m d hd e _ h
    | .bnot e, k, h => by
      simp only [wfE3] at h
      simp only [daE]
      exact daE_of_wfE3 m d hd e _ h
    | .lnot e, k, h => by
      simp only [wfE3] at h
      simp only [daE]
      exact daE_of_wfE3 m d hd e _ h
    | .plus e, k, h => by
      simp only [wfE3] at h
      simp only [daE]
      exact daE_of_wfE3 m d hd e _ h
    | .cond c t f, k, h => by
      simp only [wfE3, Bool.and_eq_true] at h
      simp only [daE, Bool.and_eq_true]
      exact ⟨⟨daE_of_wfE3 m d hd c _ h.1.1, daE_of_wfE3 m d hd t _ h.1.2⟩, daE_of_wfE3 m d hd f _ h.2⟩
    | .call f args, k, h => by
      simp only [wfE3, Bool.and_eq_true] at h
      simp only [daE, Bool.and_eq_true]
      exact ⟨daE_of_wfE3 m d hd f _ h.1.2, daEs_of_wfEs3 m d hd args _ h.2⟩
  theorem daEs_of_wfEs3 (m : Nat) (d : Nat → Bool) (hd : Cov d m) :
      ∀ (es : Exs) (k : Nat), wfEs3 isFn n m k es = true → daEs d es = true
    | .nil, _, _ => by simp only [daEs]
    | .cons e es, k, h => by
      simp only [wfEs3, Bool.and_eq_true] at h
      simp only [daEs, Bool.and_eq_true]
      exact ⟨daE_of_wfE3 m d hd e _ h.1, daEs_of_wfEs3 m d hd es _ h.2⟩
end

mutual
  theorem okS_of_wfS3 (m : Nat) (inFn : Bool) :
      ∀ (s : Stm) (inl : Bool) (k : Nat) (d : Nat → Bool), Cov d m → wfS3 isFn n m inFn inl k s = true →
        okS inFn inl d s = true
    | .expr e, inl, k, d, hd, h => by
      simp only [wfS3] at h
      simp only [okS]
      exact daE_of_wfE3 isFn n m d hd e _ h
    | .assign i e, inl, k, d, hd, h => by
      simp only [wfS3, Bool.and_eq_true] at h
      simp only [okS]
      exact daE_of_wfE3 isFn n m d hd e _ h.2
    | .defl i e, inl, k, d, hd, h => by
      simp only [wfS3] at h
      exact Bool.noConfusion h
    | .setl i e, inl, k, d, hd, h => by
      simp only [wfS3, Bool.and_eq_true] at h
      simp only [okS]
      exact daE_of_wfE3 isFn n m d hd e _ h.2
    | .ifs c body, inl, k, d, hd, h => by
      simp only [wfS3, Bool.and_eq_true] at h
      simp only [okS, Bool.and_eq_true]
      exact ⟨daE_of_wfE3 isFn n m d hd c _ h.1, okSs_of_wfSs3 m inFn body inl _ d hd h.2⟩
    | .ifelse c body els, inl, k, d, hd, h => by
      simp only [wfS3, Bool.and_eq_true] at h
      simp only [okS, Bool.and_eq_true]
      exact ⟨⟨daE_of_wfE3 isFn n m d hd c _ h.1.1, okSs_of_wfSs3 m inFn body inl _ d hd h.1.2⟩,
        okSs_of_wfSs3 m inFn els inl _ d hd h.2⟩
    | .whil c body, inl, k, d, hd, h => by
      simp only [wfS3, Bool.and_eq_true] at h
      simp only [okS, Bool.and_eq_true]
      exact ⟨daE_of_wfE3 isFn n m d hd c _ h.1, okSs_of_wfSs3 m inFn body true _ d hd h.2⟩
    | .forever body, inl, k, d, hd, h => by
      simp only [wfS3] at h
      simp only [okS]
      exact okSs_of_wfSs3 m inFn body true _ d hd h
    | .for3 c body post, inl, k, d, hd, h => by
      simp only [wfS3, Bool.and_eq_true] at h
      simp only [okS, Bool.and_eq_true]
      exact ⟨⟨daE_of_wfE3 isFn n m d hd c _ h.1.1.1, okSs_of_wfSs3 m inFn body true _ d hd h.1.1.2⟩,
        okS_of_wfS3 m inFn post inl _ d hd h.2⟩
    | .brk, inl, k, d, hd, h => by
      simp only [wfS3] at h
      simp only [okS]
      exact h
    | .cont, inl, k, d, hd, h => by
      simp only [wfS3] at h
      simp only [okS]
      exact h
    | .ret e, inl, k, d, hd, h => by
      simp only [wfS3, Bool.and_eq_true] at h
      simp only [okS, Bool.and_eq_true]
      exact ⟨h.1, daE_of_wfE3 isFn n m d hd e _ h.2⟩
    | .ret0, inl, k, d, hd, h => by
      simp only [wfS3] at h
      simp only [okS]
      exact h
  theorem okSs_of_wfSs3 (m : Nat) (inFn : Bool) :
      ∀ (ss : Stms) (inl : Bool) (k : Nat) (d : Nat → Bool), Cov d m → wfSs3 isFn n m inFn inl k ss = true →
        okSs inFn inl d ss = true
    | .nil, _, _, _, _, _ => by simp only [okSs]
    | .cons s ss, inl, k, d, hd, h => by
      simp only [wfSs3, Bool.and_eq_true] at h
      simp only [okSs, Bool.and_eq_true]
      exact ⟨okS_of_wfS3 m inFn s inl _ d hd h.1, okSs_of_wfSs3 m inFn ss inl _ _ (hd.outS s) h.2⟩
end

/-- The top level of a function body: a definition `defl m e` extends the covered slots to `m + 1`. -/
theorem okSs_of_wfBody : ∀ (ss : Stms) (m k : Nat) (d : Nat → Bool), Cov d m → wfBody isFn n m k ss = true →
    okSs true false d ss = true
  | .nil, _, _, _, _, _ => by simp only [okSs]
  | .cons s ss, m, k, d, hd, h => by
    by_cases hdef : ∃ i e, s = .defl i e
    · obtain ⟨i, e, rfl⟩ := hdef
      simp only [wfBody, Bool.and_eq_true, beq_iff_eq] at h
      obtain ⟨⟨rfl, he⟩, hr⟩ := h
      simp only [okSs, okS, outS, Bool.and_eq_true]
      exact ⟨daE_of_wfE3 isFn n i d hd e _ he, okSs_of_wfBody ss (i + 1) _ _ hd.updB hr⟩
    · have h' : wfS3 isFn n m true false k s = true ∧ wfBody isFn n m (k + nlitsS3 s) ss = true := by
        cases s <;> first
          | exact absurd ⟨_, _, rfl⟩ hdef
          | (simp only [wfBody, Bool.and_eq_true] at h; exact h)
      simp only [okSs, Bool.and_eq_true]
      exact ⟨okS_of_wfS3 isFn n m true s false _ d hd h'.1, okSs_of_wfBody ss m _ _ (hd.outS s) h'.2⟩

end

/-- A main statement that stores a function literal passes the static check. -/
theorem okS_of_topFn (P : Prog) (infn inl : Bool) (d : Nat → Bool) (s : Stm) (x : Nat × Nat × FnDef)
    (h : topFn P s = some x) : okS infn inl d s = true := by
  cases s with
  | assign i e =>
    cases e with
    | lit k => simp only [okS, daE]
    | _ => simp only [topFn] at h; cases h
  | _ => simp only [topFn] at h; cases h

/-- Main: every statement is a function literal store or `wfS3` with no local slots. -/
theorem okSs_of_wfMain (P : Prog) (n : Nat) : ∀ (ss : Stms) (k : Nat) (d : Nat → Bool), wfMain P n k ss = true →
    okSs false false d ss = true
  | .nil, _, _, _ => by simp only [okSs]
  | .cons s ss, k, d, h => by
    simp only [wfMain, Bool.and_eq_true] at h
    simp only [okSs, Bool.and_eq_true]
    refine ⟨?_, okSs_of_wfMain P n ss _ _ h.2⟩
    have h1 := h.1
    cases ht : topFn P s with
    | some x => exact okS_of_topFn P false false d s x ht
    | none =>
      rw [ht] at h1
      exact okS_of_wfS3 (isFnOf P) n 0 false s false k d (cov_zero d) h1

/-- The function bodies of a `SrcOk` program pass the static check from the parameter slots. -/
theorem okSs_fn_of_srcOk {P : Prog} {n : Nat} (hs : SrcOk P n) (k : Nat) (fd : FnDef) (hfd : P.fns k = some fd) :
    okSs true false (fun i => decide (i < fd.nparams)) fd.body = true := by
  obtain ⟨i, hm⟩ := hs.decl k fd hfd
  obtain ⟨k', hwf, _⟩ := wfMain_fn P n P.main 0 (nlitsMain P P.main) hs.wf (by omega) i k fd hm hfd
  simp only [wfFn, Bool.and_eq_true] at hwf
  exact okSs_of_wfBody (isFnOf P) n fd.body fd.nparams k' _ (cov_params fd.nparams) hwf.2

/-- The syntactic well-formedness of the compiler bridge implies the static check of the F3 reference semantics. -/
theorem scoped_of_srcOk {V : Type} (E : F3.Env V) {P : Prog} {n : Nat} (hs : Tengo.Proofs.C01F3Opt.SrcOk P n)
    (hclosed : ∀ v k, E.asFn v = some k → ∃ fd, P.fns k = some fd) : Tengo.Model.F3.Scoped E P where
  fns := okSs_fn_of_srcOk hs
  main := okSs_of_wfMain P n P.main 0 _ hs.wf
  closed := hclosed

/-- The concrete data semantics of a `SrcOk` program is `Scoped`. -/
theorem scoped_envOf {P : Prog} {n : Nat} (hs : Tengo.Proofs.C01F3Opt.SrcOk P n) (ctab : Nat → F0.Const)
    (refs : Nat → Nat) : Tengo.Model.F3.Scoped (Tengo.Proofs.C01F3Opt.envOf P ctab refs) P := by
  refine scoped_of_srcOk _ hs ?_
  intro v k h
  obtain ⟨x, hx⟩ := v
  cases x <;> simp only [Tengo.Proofs.C01BridgeF3.env3] at h <;> first
    | cases h
    | exact Option.isSome_iff_exists.mp (unrefOf_some h).2.1

end Tengo.Proofs.C01BridgeF3Conv

import Tengo.Proofs.C01BridgeVMOps
/-!
C01 bridge, VM side, layer 2: ONE STEP. `CodeRel` ties the VM's code to the fragment's instruction list
(main function = byte encoding followed by SUSPEND, constants = the fragment's constant table, operands
in range); `step_sim`: a step of the fragment's machine is a dispatch of `VM.exec` between corresponding
states, with the heap untouched; `err_sim`: a data error of the fragment's machine is an error of the
dispatch; `halt_sim`: at the end of the code the VM dispatches SUSPEND.
-/
set_option linter.unusedVariables false
set_option linter.unusedSimpArgs false
namespace Tengo.Proofs.C01Bridge
open Tengo.Model Tengo.Model.Spec Tengo.Model.VM Tengo.Model.F0

/-- Constant and global operands are inside the pool / the globals array. -/
def InsRange (K n : Nat) : Ins → Prop
  | .const k => k < K
  | .getg i | .setg i => i < n
  | _ => True

/-- The VM's code is the byte encoding of the fragment's instruction list, its constants are the
fragment's constant table, and every operand fits its width and its table. -/
structure CodeRel (is : List Ins) (K n : Nat) (cs : Nat → SV) (code : Code) : Prop where
  main : code.main.insts = (encodeIns is ++ [UInt8.ofNat Opcodes.opSuspend]).toArray
  consts : ∀ k, k < K → code.consts[k]? = some (.val (cs k).1)
  fits : ∀ i, i ∈ is → InsFits i
  rng : ∀ i, i ∈ is → InsRange K n i

theorem fetchedOf_simple (i : Ins) : (fetchedOf i).op ≠ Opcodes.opCall ∧ (fetchedOf i).op ≠ Opcodes.opReturn ∧
    (fetchedOf i).op ≠ Opcodes.opSuspend := by
  cases i <;> simp [fetchedOf, Opcodes.opCall, Opcodes.opReturn, Opcodes.opSuspend]

theorem fetchedOf_size (i : Ins) : (fetchedOf i).size = i.size := by cases i <;> rfl

theorem at_fetch {is : List Ins} {K n : Nat} {cs : Nat → SV} {code : Code} {s : F0.St SV} {c : Core} {i : Ins}
    (hcode : CodeRel is K n cs code) (hrel : Rel n s c) (hf : F0.fetch is s.ip = some i) :
    s.ip < code.main.insts.size ∧ VM.fetch code.main (s.ip : Int) = fetchedOf i ∧ InsFits i ∧ InsRange K n i := by
  obtain ⟨pre, post, he, hp⟩ := fetch_split is s.ip i hf
  have hmem : i ∈ is := by rw [he]; simp
  have hbytes : code.main.insts =
      (encodeIns pre ++ encI i ++ (encodeIns post ++ [UInt8.ofNat Opcodes.opSuspend])).toArray := by
    rw [hcode.main, he, encodeIns_append, encodeIns_cons]
    simp only [List.append_assoc]
  have hlen : (encodeIns pre).length = s.ip := by rw [encodeIns_length, hp]
  refine ⟨?_, ?_, hcode.fits i hmem, hcode.rng i hmem⟩
  · rw [hbytes]
    have := encI_length i
    have := size_pos i
    simp only [List.size_toArray, List.length_append]
    omega
  · have := fetch_enc code.main (encodeIns pre) (encodeIns post ++ [UInt8.ofNat Opcodes.opSuspend]) i (hcode.fits i hmem) hbytes
    rw [hlen] at this
    exact this

theorem xok_exec_of {code : Code} {c : Core} {p : Nat} {i : Ins} {g : GSt} {h : Spec.St} {o : SimpleOut}
    (hfn : c.cur.fnIdx = 0) (hip : c.cur.ip + 1 = (p : Int)) (hlt : p < code.main.insts.size)
    (hfetch : VM.fetch code.main (p : Int) = fetchedOf i)
    (ho : XOk (execSimple code c.cur (fetchedOf i).a0 (fetchedOf i).a1 (fetchedOf i).op c.regs) g h o) :
    XOk (exec code c) g h (.next (nextCore c p i.size o) o.alloc) := by
  obtain ⟨h1, h2, h3⟩ := fetchedOf_simple i
  rw [exec_simple_eq code c p hfn hip hlt (fetchedOf i) hfetch h1 h2 h3, fetchedOf_size]
  exact XOk.bind ho (XOk.pure _ g h)

theorem xfail_exec_of {code : Code} {c : Core} {p : Nat} {i : Ins} {g : GSt} {h : Spec.St} {e : Err}
    (hfn : c.cur.fnIdx = 0) (hip : c.cur.ip + 1 = (p : Int)) (hlt : p < code.main.insts.size)
    (hfetch : VM.fetch code.main (p : Int) = fetchedOf i)
    (ho : XFail (execSimple code c.cur (fetchedOf i).a0 (fetchedOf i).a1 (fetchedOf i).op c.regs) g h e) :
    XFail (exec code c) g h e := by
  obtain ⟨h1, h2, h3⟩ := fetchedOf_simple i
  rw [exec_simple_eq code c p hfn hip hlt (fetchedOf i) hfetch h1 h2 h3]
  exact XFail.bind_left ho

theorem rel_next {n : Nat} {s : F0.St SV} {c : Core} (hrel : Rel n s c) (size : Nat) (o : SimpleOut)
    (ip' : Nat) (st' : List SV) (g' : Nat → SV)
    (hstk : StackRel st' o.regs) (hglb : GlobRel n g' o.regs)
    (hip : match o.next with
      | .seq => ip' = s.ip + size
      | .jump t => ip' = t) :
    Rel n ⟨ip', st', g'⟩ (nextCore c s.ip size o) := by
  refine ⟨hrel.fn, ?_, hstk, hglb⟩
  unfold nextCore
  cases hn : o.next with
  | seq => rw [hn] at hip; simp only [hip]; omega
  | jump t => rw [hn] at hip; simp only [hip, Int.ofNat_eq_natCast]; omega


section sim
variable {is : List Ins} {K n : Nat} {cs : Nat → SV} {code : Code}

/-- **VM bridge, one step.** If the fragment's machine steps from `s` to `s'` on instruction list `is`
(and `s'` respects the VM's stack size), then one dispatch of the VM model on the encoded bytes steps
from any corresponding core to a corresponding core, leaving the heap alone. -/
theorem step_sim (hcode : CodeRel is K n cs code) {s s' : F0.St SV} {c : Core} (hrel : Rel n s c)
    (hstep : F0.step vmSem cs is s = .next s') (hb : s'.stack.length ≤ stackSize) (g : GSt) (h : Spec.St) :
    ∃ c' al, XOk (exec code c) g h (.next c' al) ∧ Rel n s' c' := by
  obtain ⟨ip, st, gl⟩ := s
  cases hf : F0.fetch is ip with
  | none => simp [F0.step, hf] at hstep
  | some i =>
    obtain ⟨hlt, hfetch, hfit, hrng⟩ := at_fetch hcode hrel hf
    have hfn := hrel.fn
    have hip := hrel.ip
    have hstk := hrel.stk
    have hglb := hrel.glb
    obtain ⟨hsp, hsz, hle, hs⟩ := hrel.stk
    simp only at hsp hle hstk hglb hip hlt hfetch
    cases i with
    | const k =>
      rw [step_const vmSem cs is hf] at hstep
      injection hstep with hstep; subst hstep
      simp only [List.length_cons] at hb
      refine ⟨_, _, xok_exec_of hfn hip hlt hfetch (xok_exConstant code c.cur k 0 0 c.regs g h (cs k).1
        (hcode.consts k hrng) (by rw [hsp]; omega)), ?_⟩
      exact rel_next hrel 3 _ _ _ _ (hstk.push (cs k) (by omega)) hglb rfl
    | tru =>
      rw [step_tru vmSem cs is hf] at hstep
      injection hstep with hstep; subst hstep
      simp only [List.length_cons] at hb
      refine ⟨_, _, xok_exec_of hfn hip hlt hfetch (xok_exTrue code c.cur 0 0 3 c.regs g h
        (by rw [hsp]; omega)), ?_⟩
      exact rel_next hrel 1 _ _ _ _ (hstk.push (vmSem.ofBool true) (by omega)) hglb rfl
    | fls =>
      rw [step_fls vmSem cs is hf] at hstep
      injection hstep with hstep; subst hstep
      simp only [List.length_cons] at hb
      refine ⟨_, _, xok_exec_of hfn hip hlt hfetch (xok_exFalse code c.cur 0 0 4 c.regs g h
        (by rw [hsp]; omega)), ?_⟩
      exact rel_next hrel 1 _ _ _ _ (hstk.push (vmSem.ofBool false) (by omega)) hglb rfl
    | null =>
      rw [step_null vmSem cs is hf] at hstep
      injection hstep with hstep; subst hstep
      simp only [List.length_cons] at hb
      refine ⟨_, _, xok_exec_of hfn hip hlt hfetch (xok_exNull code c.cur 0 0 13 c.regs g h
        (by rw [hsp]; omega)), ?_⟩
      exact rel_next hrel 1 _ _ _ _ (hstk.push vmSem.undef (by omega)) hglb rfl
    | getg j =>
      rw [step_getg vmSem cs is hf] at hstep
      injection hstep with hstep; subst hstep
      simp only [List.length_cons] at hb
      have hj : j < c.regs.globals.size := by rw [hglb.1]; exact hrng
      refine ⟨_, _, xok_exec_of hfn hip hlt hfetch (xok_exGetGlobal code c.cur j 0 22 c.regs g h
        (by rw [hsp]; omega) hj), ?_⟩
      refine rel_next hrel 3 _ _ _ _ ?_ hglb rfl
      have := hstk.push (gl j) (by omega)
      rw [← hglb.2 j hrng] at this
      exact this
    | jmp t =>
      rw [step_jmp vmSem cs is hf] at hstep
      injection hstep with hstep; subst hstep
      refine ⟨_, _, xok_exec_of hfn hip hlt hfetch (xok_exJump code c.cur t 0 12 c.regs g h), ?_⟩
      exact rel_next hrel 5 _ _ _ _ hstk hglb rfl
    | pop =>
      cases st with
      | nil => simp [F0.step, hf] at hstep
      | cons v st =>
        rw [step_pop vmSem cs is hf] at hstep
        injection hstep with hstep; subst hstep
        refine ⟨_, _, xok_exec_of hfn hip hlt hfetch (xok_exPop code c.cur 0 0 2 c.regs g h
          (by rw [hsp]; simp)), ?_⟩
        exact rel_next hrel 1 _ _ _ _ hstk.pop hglb rfl
    | setg j =>
      cases st with
      | nil => simp [F0.step, hf] at hstep
      | cons v st =>
        rw [step_setg vmSem cs is hf] at hstep
        injection hstep with hstep; subst hstep
        have hj : j < c.regs.globals.size := by rw [hglb.1]; exact hrng
        refine ⟨_, _, xok_exec_of hfn hip hlt hfetch (xok_exSetGlobal code c.cur j 0 23 c.regs g h
          (by rw [hsp]; simp) hj), ?_⟩
        refine rel_next hrel 3 _ _ _ _ hstk.pop ?_ rfl
        refine ⟨by simpa using hglb.1, ?_⟩
        intro i hi
        show (c.regs.globals.setIfInBounds j (getSlot c.regs (c.regs.sp - 1))).getD i .undef = _
        rw [hstk.top]
        simp only [Array.getD_eq_getD_getElem?, Array.getElem?_setIfInBounds, F0.upd]
        by_cases hij : j = i
        · subst hij; simp [hj]
        · have : ¬ i = j := fun e => hij e.symm
          simp only [hij, this, if_false]
          have := hglb.2 i hi
          simpa [Array.getD_eq_getD_getElem?] using this
    | lnot =>
      cases st with
      | nil => simp [F0.step, hf] at hstep
      | cons v st =>
        rw [step_lnot vmSem cs is hf] at hstep
        injection hstep with hstep; subst hstep
        refine ⟨_, _, xok_exec_of hfn hip hlt hfetch (xok_exLNot code c.cur 0 0 8 c.regs g h (vmSem.falsy v)
          (by rw [hsp]; simp) (by rw [hsp]; exact hle) (by rw [hstk.top]; exact isFalsy_sem v h)), ?_⟩
        exact rel_next hrel 1 _ _ _ _ (hstk.setTop (vmSem.ofBool (vmSem.falsy v))) hglb rfl
    | jmpf t =>
      cases st with
      | nil => simp [F0.step, hf] at hstep
      | cons v st =>
        rw [step_jmpf vmSem cs is hf] at hstep
        injection hstep with hstep; subst hstep
        refine ⟨_, _, xok_exec_of hfn hip hlt hfetch (xok_exJumpFalsy code c.cur t 0 9 c.regs g h (vmSem.falsy v)
          (by rw [hsp]; simp) (by rw [hstk.top]; exact isFalsy_sem v h)), ?_⟩
        refine rel_next hrel 5 _ _ _ _ hstk.pop hglb ?_
        cases vmSem.falsy v <;> simp
    | andjmp t =>
      cases st with
      | nil => simp [F0.step, hf] at hstep
      | cons v st =>
        rw [step_andjmp vmSem cs is hf] at hstep
        have hx := xok_exec_of hfn hip hlt hfetch (xok_exAndJump code c.cur t 0 10 c.regs g h (vmSem.falsy v)
          (by rw [hsp]; simp) (by rw [hstk.top]; exact isFalsy_sem v h))
        cases hfa : vmSem.falsy v with
        | true =>
          rw [hfa] at hstep hx
          simp only [if_true] at hstep hx
          injection hstep with hstep; subst hstep
          exact ⟨_, _, hx, rel_next hrel 5 _ _ _ _ hstk hglb rfl⟩
        | false =>
          rw [hfa] at hstep hx
          simp only [Bool.false_eq_true, if_false] at hstep hx
          injection hstep with hstep; subst hstep
          exact ⟨_, _, hx, rel_next hrel 5 _ _ _ _ hstk.pop hglb rfl⟩
    | orjmp t =>
      cases st with
      | nil => simp [F0.step, hf] at hstep
      | cons v st =>
        rw [step_orjmp vmSem cs is hf] at hstep
        have hx := xok_exec_of hfn hip hlt hfetch (xok_exOrJump code c.cur t 0 11 c.regs g h (vmSem.falsy v)
          (by rw [hsp]; simp) (by rw [hstk.top]; exact isFalsy_sem v h))
        cases hfa : vmSem.falsy v with
        | true =>
          rw [hfa] at hstep hx
          simp only [if_true] at hstep hx
          injection hstep with hstep; subst hstep
          exact ⟨_, _, hx, rel_next hrel 5 _ _ _ _ hstk.pop hglb rfl⟩
        | false =>
          rw [hfa] at hstep hx
          simp only [Bool.false_eq_true, if_false] at hstep hx
          injection hstep with hstep; subst hstep
          exact ⟨_, _, hx, rel_next hrel 5 _ _ _ _ hstk hglb rfl⟩
    | binop tok =>
      cases st with
      | nil => simp [F0.step, hf] at hstep
      | cons b st =>
        cases st with
        | nil => simp [F0.step, hf] at hstep
        | cons a st =>
          cases hbv : vmSem.binop tok a b with
          | none => rw [step_binop_err vmSem cs is hf hbv] at hstep; cases hstep
          | some v =>
            rw [step_binop_ok vmSem cs is hf hbv] at hstep
            injection hstep with hstep; subst hstep
            have hv := (binaryOp_sem tok a b h).1 v hbv
            refine ⟨_, _, xok_exec_of hfn hip hlt hfetch (xok_exBinaryOp code c.cur tok 0 40 c.regs g h v.1
              (by rw [hsp]; simp) (by rw [hsp]; exact hle)
              (by rw [hstk.top, hstk.second]; exact hv)), ?_⟩
            exact rel_next hrel 2 _ _ _ _ (hstk.binary v) hglb rfl
    | eql =>
      cases st with
      | nil => simp [F0.step, hf] at hstep
      | cons b st =>
        cases st with
        | nil => simp [F0.step, hf] at hstep
        | cons a st =>
          rw [step_eql vmSem cs is hf] at hstep
          injection hstep with hstep; subst hstep
          refine ⟨_, _, xok_exec_of hfn hip hlt hfetch (xok_exEqual code c.cur 0 0 5 c.regs g h (vmSem.eqv a b)
            (by rw [hsp]; simp) (by rw [hsp]; exact hle)
            (by rw [hstk.top, hstk.second]; exact equalsV_sem a b h)), ?_⟩
          exact rel_next hrel 1 _ _ _ _ (hstk.binary (vmSem.ofBool (vmSem.eqv a b))) hglb rfl
    | neq =>
      cases st with
      | nil => simp [F0.step, hf] at hstep
      | cons b st =>
        cases st with
        | nil => simp [F0.step, hf] at hstep
        | cons a st =>
          rw [step_neq vmSem cs is hf] at hstep
          injection hstep with hstep; subst hstep
          refine ⟨_, _, xok_exec_of hfn hip hlt hfetch (xok_exEqual code c.cur 0 0 6 c.regs g h (vmSem.eqv a b)
            (by rw [hsp]; simp) (by rw [hsp]; exact hle)
            (by rw [hstk.top, hstk.second]; exact equalsV_sem a b h)), ?_⟩
          exact rel_next hrel 1 _ _ _ _ (hstk.binary (vmSem.ofBool (!vmSem.eqv a b))) hglb rfl
    | minus =>
      cases st with
      | nil => simp [F0.step, hf] at hstep
      | cons a st =>
        cases hbv : vmSem.neg a with
        | none => rw [step_minus_err vmSem cs is hf hbv] at hstep; cases hstep
        | some v =>
          rw [step_minus_ok vmSem cs is hf hbv] at hstep
          injection hstep with hstep; subst hstep
          obtain ⟨av, ha⟩ := a
          cases av <;> simp only [vmSem] at hbv <;> first
            | cases hbv
            | skip
          · refine ⟨_, _, xok_exec_of hfn hip hlt hfetch (xok_exMinus_int code c.cur 0 0 7 c.regs g h _
              (by rw [hsp]; simp) (by rw [hsp]; exact hle) hstk.top), ?_⟩
            exact rel_next hrel 1 _ _ _ _ (hstk.setTop _) hglb rfl
          · refine ⟨_, _, xok_exec_of hfn hip hlt hfetch (xok_exMinus_float code c.cur 0 0 7 c.regs g h _
              (by rw [hsp]; simp) (by rw [hsp]; exact hle) hstk.top), ?_⟩
            exact rel_next hrel 1 _ _ _ _ (hstk.setTop _) hglb rfl
    | bcompl =>
      cases st with
      | nil => simp [F0.step, hf] at hstep
      | cons a st =>
        cases hbv : vmSem.bnot a with
        | none => rw [step_bcompl_err vmSem cs is hf hbv] at hstep; cases hstep
        | some v =>
          rw [step_bcompl_ok vmSem cs is hf hbv] at hstep
          injection hstep with hstep; subst hstep
          obtain ⟨av, ha⟩ := a
          cases av <;> simp only [vmSem] at hbv <;> first
            | cases hbv
            | skip
          · refine ⟨_, _, xok_exec_of hfn hip hlt hfetch (xok_exBComplement code c.cur 0 0 1 c.regs g h _
              (by rw [hsp]; simp) (by rw [hsp]; exact hle) hstk.top), ?_⟩
            exact rel_next hrel 1 _ _ _ _ (hstk.setTop _) hglb rfl
/-- **VM bridge, the failing step.** A data error of the fragment's machine is an error of the VM's dispatch. -/
theorem err_sim (hcode : CodeRel is K n cs code) {s : F0.St SV} {c : Core} (hrel : Rel n s c)
    (herr : ErrAt vmSem cs is s) (g : GSt) (h : Spec.St) : ∃ e, e ≠ Err.fuel ∧ XFail (exec code c) g h e := by
  have hfn := hrel.fn
  have hip := hrel.ip
  have hstk := hrel.stk
  cases herr with
  | binop hf hv =>
    rename_i ip tok a b st gl
    obtain ⟨hlt, hfetch, hfit, hrng⟩ := at_fetch hcode hrel hf
    obtain ⟨e, hne, he⟩ := (binaryOp_sem tok a b h).2 hv
    refine ⟨e, hne, xfail_exec_of hfn hip hlt hfetch (xfail_exBinaryOp code c.cur tok 0 40 c.regs g h e
      (by rw [hstk.1]; simp) (by rw [hstk.top, hstk.second]; exact he))⟩
  | minus hf hv =>
    rename_i ip a st gl
    obtain ⟨hlt, hfetch, hfit, hrng⟩ := at_fetch hcode hrel hf
    obtain ⟨e, he⟩ := xfail_exMinus code c.cur 0 0 7 c.regs g h (by rw [hstk.1]; simp)
      (by
        intro m hm
        rw [hstk.top] at hm
        obtain ⟨av, ha⟩ := a
        simp only at hm
        subst hm
        simp [vmSem] at hv)
      (by
        intro m hm
        rw [hstk.top] at hm
        obtain ⟨av, ha⟩ := a
        simp only at hm
        subst hm
        simp [vmSem] at hv)
    exact ⟨.runtime e, ⟨fun hh => Err.noConfusion hh, xfail_exec_of hfn hip hlt hfetch he⟩⟩
  | bcompl hf hv =>
    rename_i ip a st gl
    obtain ⟨hlt, hfetch, hfit, hrng⟩ := at_fetch hcode hrel hf
    obtain ⟨e, he⟩ := xfail_exBComplement code c.cur 0 0 1 c.regs g h (by rw [hstk.1]; simp)
      (by
        intro m hm
        rw [hstk.top] at hm
        obtain ⟨av, ha⟩ := a
        simp only at hm
        subst hm
        simp [vmSem] at hv)
    exact ⟨.runtime e, ⟨fun hh => Err.noConfusion hh, xfail_exec_of hfn hip hlt hfetch he⟩⟩

theorem fetch_op (f : Fn) (ip : Int) : (VM.fetch f ip).op = byteAt f ip := by
  unfold VM.fetch
  simp only
  split <;> rfl

/-- **VM bridge, the end.** At the end of the fragment's code the VM dispatches SUSPEND and halts. -/
theorem halt_sim (hcode : CodeRel is K n cs code) {s : F0.St SV} {c : Core} (hrel : Rel n s c)
    (hend : s.ip = csize is) (g : GSt) (h : Spec.St) :
    XOk (exec code c) g h (.halt { c with cur := { c.cur with ip := (s.ip : Int) } }) := by
  have hop : (VM.fetch code.main (s.ip : Int)).op = Opcodes.opSuspend := by
    rw [fetch_op]
    have := byteAt0 code.main (encodeIns is) [UInt8.ofNat Opcodes.opSuspend] []
      (by rw [hcode.main]; simp) (UInt8.ofNat Opcodes.opSuspend) rfl
    rw [encodeIns_length, ← hend] at this
    rw [this]; rfl
  have hlt : s.ip < code.main.insts.size := by
    rw [hcode.main, hend]
    simp [encodeIns_length]
  rw [exec_suspend code c s.ip hrel.fn hrel.ip hlt hop]
  exact XOk.pure _ g h

end sim

end Tengo.Proofs.C01Bridge

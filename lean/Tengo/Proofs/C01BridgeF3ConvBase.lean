import Tengo.Proofs.C01BridgeF3SpecRun
import Tengo.Proofs.C01ConverseStmt
/-!
C01 bridge for fragment F3, reference-interpreter side, CONVERSE direction, layer 0: the statements.

The forward simulation (`all_sim3`, Proofs/C01BridgeF3Spec*.lean) is by induction on the fuel `f` of `F3.exec`, needs
the interpreter's fuel `F ≥ 4 f` and — because the interpreter answers `excluded` at call depth 900 — the bound
`2·depth + f ≤ 1800`. Here the induction is on the INTERPRETER's fuel `F`, and every statement has the form

  the interpreter's computation ends in fuel exhaustion or in `excluded` (`Fz`: "no answer"),
  or, for EVERY fuel `f ≥ F` of the fragment's evaluator, the evaluator's result is NOT `out`, and the interpreter's
  answer is related to it exactly as in the forward simulation (`CE`, `CEs`, `CS`, `CB`, `CBk`).

So an interpreter run that answers forces `F3.exec` to terminate (fuel monotonicity of `F3.exec` above `F` comes with
the statement), and no bound on the fuel or the call depth is needed: a call at depth ≥ 900 is `Fz`.
-/
set_option linter.unusedVariables false
set_option linter.unusedSimpArgs false
namespace Tengo.Proofs.C01BridgeF3Conv
open Tengo.Model Tengo.Model.Spec
open Tengo.Model.F3 (Ex Exs Stm Stms FnDef Prog Locals ERes EsRes Res updL bindArgs)
open Tengo.Proofs.C01Bridge
open Tengo.Proofs.C01BridgeF3 (DataRel NotCallable)
open Tengo.Proofs.C01BridgeF3Comp
open Tengo.Proofs.C01F3Opt (EnvOk)
open Tengo.Proofs.C01BridgeF3Spec

/-- "No answer": the computation ends in fuel exhaustion or in an `excluded` verdict. -/
def Fz {α : Type} (x : EM α) (gs : GSt) (σ : St) : Prop :=
  EErr x gs σ Err.fuel ∨ ∃ why, EErr x gs σ (Err.excluded why)

theorem Fz.fuel {α : Type} {x : EM α} {gs : GSt} {σ : St} (h : EErr x gs σ Err.fuel) : Fz x gs σ := .inl h

theorem Fz.bind_left {α β : Type} {x : EM α} {K : α → EM β} {gs : GSt} {σ : St} (h : Fz x gs σ) :
    Fz (x >>= K) gs σ := by
  rcases h with h | ⟨w, h⟩
  · exact .inl (EErr.bind_left h)
  · exact .inr ⟨w, EErr.bind_left h⟩

theorem Fz.bind_right {α β : Type} {x : EM α} {K : α → EM β} {gs : GSt} {σ σ1 : St} {a : α}
    (h1 : EOk x gs σ a σ1) (h : Fz (K a) gs σ1) : Fz (x >>= K) gs σ := by
  rcases h with h | ⟨w, h⟩
  · exact .inl (EErr.bind_right h1 h)
  · exact .inr ⟨w, EErr.bind_right h1 h⟩

/-- `Fz` and a successful run exclude each other. -/
theorem Fz.not_ok {α : Type} {x : EM α} {gs : GSt} {σ σ' : St} {a : α} (h : Fz x gs σ) (hok : EOk x gs σ a σ') :
    False := by
  unfold EOk at hok
  rcases h with h | ⟨w, h⟩ <;> (unfold EErr at h; rw [hok] at h; cases h)

theorem Fz.congr {α : Type} {x y : EM α} {gs : GSt} {σ : St} (h : Fz x gs σ) (e : x gs σ = y gs σ) : Fz y gs σ := by
  unfold Fz EErr at *
  rw [← e]; exact h

variable {V : Type} (C : Cx V)

/-! ### the relations: as in the forward simulation, but `out` is impossible -/

def CE (x : EM Value) (gs : GSt) (σ : St) (B m : Nat) (lc : Nat → Nat) (l : Locals V) : ERes V → Prop
  | .val v g' => ∃ w σ', EOk x gs σ w σ' ∧ VR C σ' v w ∧ HInv C B σ' g' m lc l ∧ FrB C B σ σ'
  | .err => ∃ err, err ≠ Err.fuel ∧ EErr x gs σ err
  | .out => False
  | .bad => True

def CEs (x : EM (List Value)) (gs : GSt) (σ : St) (B m : Nat) (lc : Nat → Nat) (l : Locals V) : EsRes V → Prop
  | .vals vs g' => ∃ ws σ', EOk x gs σ ws σ' ∧ VRs C σ' vs ws ∧ HInv C B σ' g' m lc l ∧ FrB C B σ σ'
  | .err => ∃ err, err ≠ Err.fuel ∧ EErr x gs σ err
  | .out => False
  | .bad => True

/-- The result of the call proper. -/
def CC (x : EM Value) (gs : GSt) (σ : St) : ERes V → Prop
  | .val v g' => ∃ w' σ', EOk x gs σ w' σ' ∧ VR C σ' v w' ∧ GInv C σ' g' ∧ FrB C σ.heap.size σ σ'
  | .err => ∃ err, err ≠ Err.fuel ∧ EErr x gs σ err
  | .out => False
  | .bad => True

def CS {α : Type} (x : EM α) (mk : Flow → α) (gs : GSt) (σ : St) (B m : Nat) (lc : Nat → Nat) : Res V → Prop
  | .done g' l' => ∃ σ', EOk x gs σ (mk .normal) σ' ∧ HInv C B σ' g' m lc l' ∧ FrB C B σ σ'
  | .brk g' l' => ∃ σ', EOk x gs σ (mk .brk) σ' ∧ HInv C B σ' g' m lc l' ∧ FrB C B σ σ'
  | .cont g' l' => ∃ σ', EOk x gs σ (mk .cont) σ' ∧ HInv C B σ' g' m lc l' ∧ FrB C B σ σ'
  | .ret v g' => ∃ w σ', EOk x gs σ (mk (.ret w)) σ' ∧ VR C σ' v w ∧ GInv C σ' g' ∧ FrB C B σ σ'
  | .err => ∃ err, err ≠ Err.fuel ∧ EErr x gs σ err
  | .out => False
  | .bad => True

/-- `lnames m := e` at the top of a function body. -/
def CD (x : EM (Flow × Spec.Env)) (gs : GSt) (σ : St) (B m : Nat) : Res V → Prop
  | .done g' l' => ∃ env' σ' lc', EOk x gs σ (Flow.normal, env') σ' ∧ EInv C env' (m + 1) lc' ∧
      HInv C B σ' g' (m + 1) lc' l' ∧ FrB C B σ σ'
  | .err => ∃ err, err ≠ Err.fuel ∧ EErr x gs σ err
  | .out => False
  | _ => True

/-- A function body (statement list with its local definitions). -/
def CB (x : EM (Flow × Spec.Env)) (gs : GSt) (σ : St) (B : Nat) : Res V → Prop
  | .done g' _ => ∃ env' σ', EOk x gs σ (Flow.normal, env') σ' ∧ GInv C σ' g' ∧ FrB C B σ σ'
  | .ret v g' => ∃ w env' σ', EOk x gs σ (Flow.ret w, env') σ' ∧ VR C σ' v w ∧ GInv C σ' g' ∧ FrB C B σ σ'
  | .err => ∃ err, err ≠ Err.fuel ∧ EErr x gs σ err
  | .out => False
  | _ => True

/-- The body block of a function. -/
def CBk (x : EM Flow) (gs : GSt) (σ : St) (B : Nat) : Res V → Prop
  | .done g' _ => ∃ σ', EOk x gs σ Flow.normal σ' ∧ GInv C σ' g' ∧ FrB C B σ σ'
  | .ret v g' => ∃ w σ', EOk x gs σ (Flow.ret w) σ' ∧ VR C σ' v w ∧ GInv C σ' g' ∧ FrB C B σ σ'
  | .err => ∃ err, err ≠ Err.fuel ∧ EErr x gs σ err
  | .out => False
  | _ => True

/-- The main program. -/
def CM (x : EM (Flow × Spec.Env)) (gs : GSt) (σ : St) : Res V → Prop
  | .done g' _ => ∃ σ', EOk x gs σ (Flow.normal, C.genv) σ' ∧ GInv C σ' g'
  | .err => ∃ err, err ≠ Err.fuel ∧ EErr x gs σ err
  | .out => False
  | _ => True

/-! ### the ten statements, at fuel `F` of the interpreter, for every fuel `f ≥ F` of the evaluator -/

def EvalConv (F : Nat) (e : Ex) : Prop :=
  ∀ (ctx : Ctx) (gs : GSt) (σ : St) (g : Nat → V) (l : Locals V) (m : Nat) (lc : Nat → Nat) (B k f : Nat),
    F ≤ f → EInv C ctx.env m lc → HInv C B σ g m lc l → wfE3 (isFnOf C.P) C.n m k e = true →
    Fz (evalExpr F ctx (toAstE3 C.names C.lnames C.ctab e)) gs σ ∨
    CE C (evalExpr F ctx (toAstE3 C.names C.lnames C.ctab e)) gs σ B m lc l (F3.evalE C.E C.P f e g l)

def EvalsConv (F : Nat) (es : Exs) : Prop :=
  ∀ (ctx : Ctx) (gs : GSt) (σ : St) (g : Nat → V) (l : Locals V) (m : Nat) (lc : Nat → Nat) (B k f : Nat),
    F ≤ f → EInv C ctx.env m lc → HInv C B σ g m lc l → wfEs3 (isFnOf C.P) C.n m k es = true →
    Fz (evalExprs F ctx (toAstEs3 C.names C.lnames C.ctab es)) gs σ ∨
    CEs C (evalExprs F ctx (toAstEs3 C.names C.lnames C.ctab es)) gs σ B m lc l (F3.evalEs C.E C.P f es g l)

/-- The call proper (`0 < f`: with no fuel at all `F3.callFn` says `out` even for a value that is not callable). -/
def CallConv (F : Nat) : Prop :=
  ∀ (ctx : Ctx) (gs : GSt) (σ : St) (g : Nat → V) (fv : V) (w : Value) (vs : List V) (ws : List Value) (f : Nat),
    F ≤ f → 0 < f → VR C σ fv w → VRs C σ vs ws → GInv C σ g →
    Fz (callTail F ctx w ws) gs σ ∨ CC C (callTail F ctx w ws) gs σ (F3.callFn C.E C.P f fv vs g)

def StmtConv (F : Nat) (st : Stm) : Prop :=
  ∀ (ctx : Ctx) (gs : GSt) (σ : St) (g : Nat → V) (l : Locals V) (m : Nat) (lc : Nat → Nat) (B k : Nat)
    (inFn inl : Bool) (f : Nat),
    F ≤ f → EInv C ctx.env m lc → HInv C B σ g m lc l → wfS3 (isFnOf C.P) C.n m inFn inl k st = true →
    Fz (execStmt F ctx (toAstS3 C.names C.lnames C.ctab st)) gs σ ∨
    CS C (execStmt F ctx (toAstS3 C.names C.lnames C.ctab st)) (fun fl => (fl, ctx.env)) gs σ B m lc
      (F3.execS C.E C.P f st g l)

def StmtsConv (F : Nat) (ss : Stms) : Prop :=
  ∀ (ctx : Ctx) (gs : GSt) (σ : St) (g : Nat → V) (l : Locals V) (m : Nat) (lc : Nat → Nat) (B k i : Nat)
    (inFn inl : Bool) (f : Nat),
    F ≤ f → EInv C ctx.env m lc → HInv C B σ g m lc l → wfSs3 (isFnOf C.P) C.n m inFn inl k ss = true →
    Fz (execStmts F ctx (toAstSs3 C.names C.lnames C.ctab ss) i) gs σ ∨
    CS C (execStmts F ctx (toAstSs3 C.names C.lnames C.ctab ss) i) (fun fl => (fl, ctx.env)) gs σ B m lc
      (F3.execSs C.E C.P f ss g l)

def BlockConv (F : Nat) (ss : Stms) : Prop :=
  ∀ (ctx : Ctx) (gs : GSt) (σ : St) (g : Nat → V) (l : Locals V) (m : Nat) (lc : Nat → Nat) (B k tag : Nat)
    (inFn inl : Bool) (f : Nat),
    F ≤ f → EInv C ctx.env m lc → HInv C B σ g m lc l → wfSs3 (isFnOf C.P) C.n m inFn inl k ss = true →
    Fz (execBlock F ctx (toAstSs3 C.names C.lnames C.ctab ss) tag) gs σ ∨
    CS C (execBlock F ctx (toAstSs3 C.names C.lnames C.ctab ss) tag) (fun fl => fl) gs σ B m lc
      (F3.execSs C.E C.P f ss g l)

def WhileConv (F : Nat) (c : Ex) (body : Stms) : Prop :=
  ∀ (ctx : Ctx) (gs : GSt) (σ : St) (g : Nat → V) (l : Locals V) (m : Nat) (lc : Nat → Nat) (B k : Nat)
    (inFn inl : Bool) (f : Nat),
    F ≤ f → EInv C ctx.env m lc → HInv C B σ g m lc l →
    wfS3 (isFnOf C.P) C.n m inFn inl k (.whil c body) = true →
    Fz (loopFor F ctx (some (toAstE3 C.names C.lnames C.ctab c)) none (toAstSs3 C.names C.lnames C.ctab body)) gs σ ∨
    CS C (loopFor F ctx (some (toAstE3 C.names C.lnames C.ctab c)) none (toAstSs3 C.names C.lnames C.ctab body))
      (fun fl => fl) gs σ B m lc (F3.execS C.E C.P f (.whil c body) g l)

def ForeverConv (F : Nat) (body : Stms) : Prop :=
  ∀ (ctx : Ctx) (gs : GSt) (σ : St) (g : Nat → V) (l : Locals V) (m : Nat) (lc : Nat → Nat) (B k : Nat)
    (inFn inl : Bool) (f : Nat),
    F ≤ f → EInv C ctx.env m lc → HInv C B σ g m lc l →
    wfS3 (isFnOf C.P) C.n m inFn inl k (.forever body) = true →
    Fz (loopFor F ctx none none (toAstSs3 C.names C.lnames C.ctab body)) gs σ ∨
    CS C (loopFor F ctx none none (toAstSs3 C.names C.lnames C.ctab body))
      (fun fl => fl) gs σ B m lc (F3.execS C.E C.P f (.forever body) g l)

def For3Conv (F : Nat) (c : Ex) (body : Stms) (post : Stm) : Prop :=
  ∀ (ctx : Ctx) (gs : GSt) (σ : St) (g : Nat → V) (l : Locals V) (m : Nat) (lc : Nat → Nat) (B k : Nat)
    (inFn inl : Bool) (f : Nat),
    F ≤ f → EInv C ctx.env m lc → HInv C B σ g m lc l →
    wfS3 (isFnOf C.P) C.n m inFn inl k (.for3 c body post) = true →
    Fz (loopFor F ctx (some (toAstE3 C.names C.lnames C.ctab c)) (some (toAstS3 C.names C.lnames C.ctab post))
        (toAstSs3 C.names C.lnames C.ctab body)) gs σ ∨
    CS C (loopFor F ctx (some (toAstE3 C.names C.lnames C.ctab c)) (some (toAstS3 C.names C.lnames C.ctab post))
        (toAstSs3 C.names C.lnames C.ctab body))
      (fun fl => fl) gs σ B m lc (F3.execS C.E C.P f (.for3 c body post) g l)

def DeflConv (F : Nat) (e : Ex) : Prop :=
  ∀ (ctx : Ctx) (gs : GSt) (σ : St) (g : Nat → V) (l : Locals V) (m : Nat) (lc : Nat → Nat) (B k f : Nat),
    F ≤ f → ctx.callDepth ≠ 0 → EInv C ctx.env m lc → HInv C B σ g m lc l →
    wfE3 (isFnOf C.P) C.n m k e = true →
    Fz (execStmt F ctx (toAstS3 C.names C.lnames C.ctab (.defl m e))) gs σ ∨
    CD C (execStmt F ctx (toAstS3 C.names C.lnames C.ctab (.defl m e))) gs σ B m (F3.execS C.E C.P f (.defl m e) g l)

def BodyConv (F : Nat) (ss : Stms) : Prop :=
  ∀ (ctx : Ctx) (gs : GSt) (σ : St) (g : Nat → V) (l : Locals V) (m : Nat) (lc : Nat → Nat) (B k i f : Nat),
    F ≤ f → ctx.callDepth ≠ 0 → EInv C ctx.env m lc → HInv C B σ g m lc l →
    wfBody (isFnOf C.P) C.n m k ss = true →
    Fz (execStmts F ctx (toAstSs3 C.names C.lnames C.ctab ss) i) gs σ ∨
    CB C (execStmts F ctx (toAstSs3 C.names C.lnames C.ctab ss) i) gs σ B (F3.execSs C.E C.P f ss g l)

/-- All forms at fuel `F`. -/
structure AllConv (F : Nat) : Prop where
  e : ∀ e, EvalConv C F e
  es : ∀ es, EvalsConv C F es
  call : CallConv C F
  s : ∀ st, StmtConv C F st
  ss : ∀ ss, StmtsConv C F ss
  blk : ∀ ss, BlockConv C F ss
  whil : ∀ c body, WhileConv C F c body
  forever : ∀ body, ForeverConv C F body
  for3 : ∀ c body post, For3Conv C F c body post
  defl : ∀ e, DeflConv C F e
  body : ∀ ss, BodyConv C F ss

variable {C}

/-! ### sequencing -/

theorem CE.bind_ok {α : Type} {x : EM α} {K : α → EM Value} {gs : GSt} {σ σ1 : St} {a : α} {B m : Nat}
    {lc : Nat → Nat} {l : Locals V} {res : ERes V} (h1 : EOk x gs σ a σ1) (hf : FrB C B σ σ1)
    (h2 : Fz (K a) gs σ1 ∨ CE C (K a) gs σ1 B m lc l res) :
    Fz (x >>= K) gs σ ∨ CE C (x >>= K) gs σ B m lc l res := by
  rcases h2 with h2 | h2
  · exact .inl (Fz.bind_right h1 h2)
  · refine .inr ?_
    cases res with
    | val v g' => obtain ⟨w, σ', hok, hvr, hinv, hfr⟩ := h2; exact ⟨w, σ', EOk.bind h1 hok, hvr, hinv, hf.trans hfr⟩
    | err => obtain ⟨err, hne, he⟩ := h2; exact ⟨err, hne, EErr.bind_right h1 he⟩
    | out => exact h2
    | bad => trivial

theorem CE.pure {gs : GSt} {σ : St} {B m : Nat} {lc : Nat → Nat} {l : Locals V} {v : V} {w : Value} {g : Nat → V}
    (hv : VR C σ v w) (hi : HInv C B σ g m lc l) :
    Fz (Pure.pure w : EM Value) gs σ ∨ CE C (Pure.pure w) gs σ B m lc l (.val v g) :=
  .inr ⟨w, σ, EOk.pure _ gs σ, hv, hi, FrB.refl B σ⟩

theorem CEs.bind_ok {α : Type} {x : EM α} {K : α → EM (List Value)} {gs : GSt} {σ σ1 : St} {a : α} {B m : Nat}
    {lc : Nat → Nat} {l : Locals V} {res : EsRes V} (h1 : EOk x gs σ a σ1) (hf : FrB C B σ σ1)
    (h2 : Fz (K a) gs σ1 ∨ CEs C (K a) gs σ1 B m lc l res) :
    Fz (x >>= K) gs σ ∨ CEs C (x >>= K) gs σ B m lc l res := by
  rcases h2 with h2 | h2
  · exact .inl (Fz.bind_right h1 h2)
  · refine .inr ?_
    cases res with
    | vals vs g' => obtain ⟨w, σ', hok, hvr, hinv, hfr⟩ := h2; exact ⟨w, σ', EOk.bind h1 hok, hvr, hinv, hf.trans hfr⟩
    | err => obtain ⟨err, hne, he⟩ := h2; exact ⟨err, hne, EErr.bind_right h1 he⟩
    | out => exact h2
    | bad => trivial

theorem CS.bind_ok {α β : Type} {x : EM α} {K : α → EM β} {mk : Flow → β} {gs : GSt} {σ σ1 : St} {a : α}
    {B m : Nat} {lc : Nat → Nat} {res : Res V} (h1 : EOk x gs σ a σ1) (hf : FrB C B σ σ1)
    (h2 : Fz (K a) gs σ1 ∨ CS C (K a) mk gs σ1 B m lc res) :
    Fz (x >>= K) gs σ ∨ CS C (x >>= K) mk gs σ B m lc res := by
  rcases h2 with h2 | h2
  · exact .inl (Fz.bind_right h1 h2)
  · refine .inr ?_
    cases res with
    | done g' l' => obtain ⟨σ', hok, hh, hfr⟩ := h2; exact ⟨σ', EOk.bind h1 hok, hh, hf.trans hfr⟩
    | brk g' l' => obtain ⟨σ', hok, hh, hfr⟩ := h2; exact ⟨σ', EOk.bind h1 hok, hh, hf.trans hfr⟩
    | cont g' l' => obtain ⟨σ', hok, hh, hfr⟩ := h2; exact ⟨σ', EOk.bind h1 hok, hh, hf.trans hfr⟩
    | ret v g' => obtain ⟨w, σ', hok, hv, hh, hfr⟩ := h2; exact ⟨w, σ', EOk.bind h1 hok, hv, hh, hf.trans hfr⟩
    | err => obtain ⟨err, hne, he⟩ := h2; exact ⟨err, hne, EErr.bind_right h1 he⟩
    | out => exact h2
    | bad => trivial

theorem CS.wrap {α β : Type} {x : EM α} {K : α → EM β} {mk : Flow → α} {mk' : Flow → β} {gs : GSt} {σ : St}
    {B m : Nat} {lc : Nat → Nat} {res : Res V} (h : Fz x gs σ ∨ CS C x mk gs σ B m lc res)
    (hK : ∀ fl σ', EOk (K (mk fl)) gs σ' (mk' fl) σ') :
    Fz (x >>= K) gs σ ∨ CS C (x >>= K) mk' gs σ B m lc res := by
  rcases h with h | h
  · exact .inl h.bind_left
  · refine .inr ?_
    cases res with
    | done g' l' => obtain ⟨σ', hok, hh, hfr⟩ := h; exact ⟨σ', EOk.bind hok (hK _ σ'), hh, hfr⟩
    | brk g' l' => obtain ⟨σ', hok, hh, hfr⟩ := h; exact ⟨σ', EOk.bind hok (hK _ σ'), hh, hfr⟩
    | cont g' l' => obtain ⟨σ', hok, hh, hfr⟩ := h; exact ⟨σ', EOk.bind hok (hK _ σ'), hh, hfr⟩
    | ret v g' => obtain ⟨w, σ', hok, hv, hh, hfr⟩ := h; exact ⟨w, σ', EOk.bind hok (hK _ σ'), hv, hh, hfr⟩
    | err => obtain ⟨err, hne, he⟩ := h; exact ⟨err, hne, EErr.bind_left he⟩
    | out => exact h
    | bad => trivial

theorem CB.bind_ok {α : Type} {x : EM α} {K : α → EM (Flow × Spec.Env)} {gs : GSt} {σ σ1 : St} {a : α}
    {B : Nat} {res : Res V} (h1 : EOk x gs σ a σ1) (hf : FrB C B σ σ1)
    (h2 : Fz (K a) gs σ1 ∨ CB C (K a) gs σ1 B res) : Fz (x >>= K) gs σ ∨ CB C (x >>= K) gs σ B res := by
  rcases h2 with h2 | h2
  · exact .inl (Fz.bind_right h1 h2)
  · refine .inr ?_
    cases res with
    | done g' l' => obtain ⟨env', σ', hok, hh, hfr⟩ := h2; exact ⟨env', σ', EOk.bind h1 hok, hh, hf.trans hfr⟩
    | ret v g' =>
      obtain ⟨w, env', σ', hok, hv, hh, hfr⟩ := h2; exact ⟨w, env', σ', EOk.bind h1 hok, hv, hh, hf.trans hfr⟩
    | err => obtain ⟨err, hne, he⟩ := h2; exact ⟨err, hne, EErr.bind_right h1 he⟩
    | brk _ _ => trivial
    | cont _ _ => trivial
    | out => exact h2
    | bad => trivial

/-! ### fuel 0 and small facts about `F3`'s evaluator -/

theorem evalExprs_zero (ctx : Ctx) (es : List Expr) (gs : GSt) (σ : St) : EErr (evalExprs 0 ctx es) gs σ Err.fuel := by
  rw [evalExprs.eq_1]
  exact EErr.lift (m := throw Err.fuel) rfl

theorem callClosure_zero (ctx : Ctx) (c : Closure) (args : List Value) (gs : GSt) (σ : St) :
    EErr (callClosure 0 ctx c args) gs σ Err.fuel := by
  rw [callClosure.eq_1]
  exact EErr.lift (m := throw Err.fuel) rfl

theorem evalE_pos {E : F3.Env V} {P : Prog} {f : Nat} {e : Ex} {g : Nat → V} {l : Locals V}
    (h : F3.evalE E P f e g l ≠ .out) : 0 < f := by
  cases f with
  | zero => simp [F3.evalE] at h
  | succ f => omega

theorem evalEs_pos {E : F3.Env V} {P : Prog} {f : Nat} {es : Exs} {g : Nat → V} {l : Locals V}
    (h : F3.evalEs E P f es g l ≠ .out) : 0 < f := by
  cases f with
  | zero => simp [F3.evalEs] at h
  | succ f => omega

/-- A call at depth ≥ 900 (right number of arguments) is `excluded`. -/
theorem callClosure_deep (F : Nat) (ctx : Ctx) (c : Closure) (args : List Value) (hv : c.varargs = false)
    (hl : args.length = c.params.length) (hd : 900 ≤ ctx.callDepth) (gs : GSt) (σ : St) :
    Fz (callClosure (F + 1) ctx c args) gs σ := by
  refine .inr ⟨"call depth near the frame limit", ?_⟩
  rw [callClosure.eq_2]
  simp only [hv, Bool.false_eq_true, if_false, pure_bind]
  have h1 : (args.length != c.params.length) = false := by simp [hl]
  simp only [h1, Bool.false_eq_true, if_false]
  have h2 : ctx.callDepth ≥ 900 := hd
  simp only [if_pos h2]
  exact EErr.bind_left (EErr.lift (m := throw (Err.excluded "call depth near the frame limit")) rfl)

end Tengo.Proofs.C01BridgeF3Conv

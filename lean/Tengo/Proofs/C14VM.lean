import Tengo.Proofs.VMSafe
import Tengo.Proofs.VMFrames
/-!
C14 on the whole-VM model, part 1: where the frames' `ip`s stand.

* `CallersStep` / `exec_callers` — what one dispatch of `VM.exec` does to the list of suspended frames, for
  EVERY code object: unchanged, one frame popped, or the current frame pushed with `ip` = index of the
  second operand byte of the CALL it is dispatching.
* `InvC` — the invariant `Inv` of the safety proof (Proofs/VMSafe.lean) plus: every suspended frame's saved
  `ip` is `pos + 2` for a CALL instruction at `pos` of the decoded instruction list of its function.
* `exec_invC`, `run_invC` — one dispatch / a whole run of a verified program keeps `InvC`; in particular the
  configuration `at_` of `Outcome.failed e at_` satisfies it.
* `cur_instr` — the instruction a frame of a verified program is about to dispatch: a member of the decoded
  instruction list, starting at `cur.ip + 1`, and it is what `fetch` decodes there.
-/
namespace Tengo.Model.VM
open Tengo.Model Tengo.Model.Spec Tengo.Model.Opcodes Tengo.Model.Verifier

/-! ### what a dispatch does to the suspended frames -/

/-- What one dispatch may do to the list of suspended frames. -/
inductive CallersStep (code : Code) (c c' : Core) : Prop
  | same : c'.callers = c.callers → CallersStep code c c'
  | push (f : Fn) : code.fn c.cur.fnIdx = some f → byteAt f (c.cur.ip + 1) = opCall →
      c'.callers = { c.cur with ip := c.cur.ip + 1 + 2 } :: c.callers → CallersStep code c c'
  | pop (fr : Frame) : c.callers = fr :: c'.callers → CallersStep code c c'

def StepC (code : Code) (c : Core) : ExecOut → Prop
  | .next c' _ => CallersStep code c c'
  | .halt _ => True

theorem finishCompiled_callers (code : Code) (f : Fn) (c : Core) (r : Regs) (numArgs cr k : Nat) (free : List Nat)
    (cf : Fn) (hf : code.fn c.cur.fnIdx = some f) (hop : byteAt f (c.cur.ip + 1) = opCall) :
    PostX (finishCompiled f (c.cur.ip + 1 + 2) c r numArgs cr k free cf) (StepC code c) := by
  unfold finishCompiled
  split
  · apply PostX_bind'
    intro r'
    apply PostX_pure
    exact CallersStep.same rfl
  · split
    · exact PostX_rtE _
    · apply PostX_pure
      exact CallersStep.push f hf hop rfl

theorem execCall_callers (code : Code) (f : Fn) (c : Core) (a0 spread : Nat)
    (hf : code.fn c.cur.fnIdx = some f) (hop : byteAt f (c.cur.ip + 1) = opCall) :
    PostX (execCall code f (c.cur.ip + 1) a0 spread c) (StepC code c) := by
  unfold execCall
  dsimp only
  post_walk
  all_goals first
    | (apply finishCompiled_callers <;> assumption)
    | (apply PostX_pure; exact CallersStep.same rfl)

theorem execReturn_callers (code : Code) (a0 : Nat) (c : Core) : PostX (execReturn a0 c) (StepC code c) := by
  unfold execReturn
  dsimp only
  post_walk
  all_goals (apply PostX_pure; exact CallersStep.pop _ (by assumption))

/-- **Suspended frames.** One dispatch leaves the suspended frames alone, pops one, or pushes the current
frame with its `ip` on the second operand byte of the CALL being dispatched (any code, any state). -/
theorem exec_callers (code : Code) (c : Core) : PostX (exec code c) (StepC code c) := by
  unfold exec
  split
  · rename_i f hf
    dsimp only
    split
    · exact PostX_fault _
    · split
      · rename_i hcall
        exact execCall_callers code f c _ _ hf (by rw [← fetch_op]; simpa using hcall)
      · split
        · exact execReturn_callers code _ c
        · split
          · apply PostX_pure
            trivial
          · apply PostX_bind'
            intro o
            apply PostX_pure
            exact CallersStep.same rfl
  · exact PostX_fault _

/-! ### the strengthened invariant -/

/-- The frame is suspended in a CALL: its saved `ip` is the index of the last operand byte of a CALL
instruction of the decoded instruction list of its function (`vm.go`: `v.curFrame.ip = v.ip` after
`v.ip += 2`). -/
def InCall (code : Code) (t : ProgTabs) (fr : Frame) : Prop :=
  ∃ ft f i, t.tab fr.fnIdx = some ft ∧ code.fn fr.fnIdx = some f ∧ decode f.insts.toList = some ft.is ∧
    i ∈ ft.is ∧ i.op = opCall ∧ fr.ip = (i.pos : Int) + 2

/-- `Inv` of the safety proof, and every suspended frame stands in a CALL. -/
structure InvC (code : Code) (t : ProgTabs) (G : Nat) (c : Core) : Prop where
  inv : Inv code t G c
  calls : ∀ fr ∈ c.callers, InCall code t fr

section
variable {code : Code} {t : ProgTabs} {G : Nat} (hck : checkProgram code G t = true)
include hck

/-- The instruction the current frame of a verified program is about to dispatch. -/
theorem cur_instr {c : Core} (hinv : Inv code t G c) :
    ∃ ft f i, t.tab c.cur.fnIdx = some ft ∧ code.fn c.cur.fnIdx = some f ∧ decode f.insts.toList = some ft.is ∧
      i ∈ ft.is ∧ c.cur.ip + 1 = (i.pos : Int) ∧ byteAt f (i.pos : Int) = i.op ∧ i.pos < f.insts.size := by
  obtain ⟨ft, f, i, h, htab, facts, ctx⟩ := frame_ctx hck hinv.cur hinv.gl
  obtain ⟨hop, hlt⟩ := op_at f ft.is ctx.dec i ctx.mem
  exact ⟨ft, f, i, htab, facts.fn, ctx.dec, ctx.mem, ctx.ipEq, hop, hlt⟩

theorem exec_invC {c : Core} (h : InvC code t G c) :
    PostX (exec code c) (fun o => ∀ c' a, o = .next c' a → InvC code t G c') := by
  intro g s r g' s' hr v hv c' a ho
  obtain ⟨v', hv', hgoal⟩ := exec_inv hck h.inv g s r g' s' hr
  have hcs := exec_callers code c g s r g' s' hr v hv
  rw [hv] at hv'
  injection hv' with hv'
  subst hv'
  subst ho
  refine ⟨hgoal, ?_⟩
  cases hcs with
  | same hs => rw [hs]; exact h.calls
  | push f hf hop hs =>
    rw [hs]
    intro fr hfr
    rcases List.mem_cons.mp hfr with rfl | hfr
    · obtain ⟨ft, f', i, htab, hfn, hdec, hmem, hip, hbyte, _⟩ := cur_instr hck h.inv
      have : f' = f := by rw [hfn] at hf; injection hf
      subst this
      refine ⟨ft, f', i, htab, hfn, hdec, hmem, ?_, ?_⟩
      · rw [← hbyte, ← hip]; exact hop
      · show c.cur.ip + 1 + 2 = (i.pos : Int) + 2
        rw [hip]
    · exact h.calls fr hfr
  | pop fr hs =>
    intro fr' hfr'
    exact h.calls fr' (by rw [hs]; exact List.mem_cons_of_mem _ hfr')

/-- **Every configuration a run of a verified program reaches — in particular the one whose dispatch
fails — satisfies the strengthened invariant.** -/
theorem run_invC (keep : Nat) :
    ∀ (fuel : Nat) (allocs : Int) (cfg : Cfg) (log : Log), InvC code t G cfg.core →
      InvC code t G (run code keep fuel allocs cfg log).1.cfg.core ∨
        ∃ c, (run code keep fuel allocs cfg log).1 = .halted c := by
  intro fuel
  induction fuel with
  | zero => intro allocs cfg log hinv; left; simpa [run, Outcome.cfg] using hinv
  | succ fuel ih =>
    intro allocs cfg log hinv
    rw [run_succ]
    have hstep := exec_invC hck hinv
    split
    · left; exact hinv
    · left; exact hinv
    · right; exact ⟨_, rfl⟩
    · rename_i c g hh heq
      exact ih allocs ⟨c, g, hh⟩ _ (hstep _ _ _ _ _ heq _ rfl c false rfl)
    · rename_i c g hh heq
      split
      · left; exact hinv
      · exact ih (allocs - 1) ⟨c, g, hh⟩ _ (hstep _ _ _ _ _ heq _ rfl c true rfl)

theorem init_invC (globals : Array Value) (hG : globals.size = G) (fobjs : Array FnObj)
    (hi : initOk code t fobjs = true) : InvC code t G (initCore globals fobjs) :=
  ⟨init_inv hck globals hG fobjs hi, by intro fr hfr; simp [initCore] at hfr⟩

end
end Tengo.Model.VM

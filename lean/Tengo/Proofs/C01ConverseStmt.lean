import Tengo.Proofs.C01ConverseExpr
import Tengo.Proofs.C01BridgeSpecStmt
/-!
C01 bridge, converse direction, layer 2 (statements). For EVERY fuel `F` of the reference interpreter, on an
embedded fragment statement (list, block, loop) the interpreter either runs out of fuel, or ends exactly as
the fragment's evaluator `F1.exec vmSem` ends WITH EVERY FUEL `f ≥ F` (`all_conv`): the evaluator finishes
with globals `g'` and the interpreter finishes normally with the slot cells holding `g'`, or the evaluator
reports an error and the interpreter fails with an error other than fuel exhaustion.

So an interpreter run that does not end in fuel exhaustion forces the fragment's evaluator to terminate
(with the interpreter's own fuel, and with every larger one: fuel monotonicity comes with the statement).
The induction is on the interpreter's fuel (strong: `if … else` looks two levels down).
-/
set_option linter.unusedVariables false
set_option linter.unusedSimpArgs false
namespace Tengo.Proofs.C01Bridge
open Tengo.Model Tengo.Model.Spec Tengo.Model.F0
open Tengo.Proofs.C11Rename (isFuncLit)

/-! ### fuel 0 -/

theorem execStmt_zero (ctx : Ctx) (s : Stmt) (gs : GSt) (σ : St) : EErr (execStmt 0 ctx s) gs σ Err.fuel := by
  rw [execStmt.eq_1]
  exact EErr.lift (m := throw Err.fuel) rfl

theorem execStmts_zero (ctx : Ctx) (ss : List Stmt) (i : Nat) (gs : GSt) (σ : St) :
    EErr (execStmts 0 ctx ss i) gs σ Err.fuel := by
  rw [execStmts.eq_1]
  exact EErr.lift (m := throw Err.fuel) rfl

theorem execBlock_zero (ctx : Ctx) (ss : List Stmt) (i : Nat) (gs : GSt) (σ : St) :
    EErr (execBlock 0 ctx ss i) gs σ Err.fuel := by
  rw [execBlock.eq_1]
  exact EErr.lift (m := throw Err.fuel) rfl

theorem loopFor_zero (ctx : Ctx) (c : Option Expr) (p : Option Stmt) (ss : List Stmt) (gs : GSt) (σ : St) :
    EErr (loopFor 0 ctx c p ss) gs σ Err.fuel := by
  rw [loopFor.eq_1]
  exact EErr.lift (m := throw Err.fuel) rfl

theorem assignTo_zero (ctx : Ctx) (tok : String) (l : Expr) (v : Value) (gs : GSt) (σ : St) :
    EErr (assignTo 0 ctx tok l v) gs σ Err.fuel := by
  rw [assignTo.eq_1]
  exact EErr.lift (m := throw Err.fuel) rfl

/-- `if … else` with any positive fuel (`ex_ifelse` needs two units). -/
theorem ex_ifelse' (F : Nat) (ctx : Ctx) (c : Expr) (body els : List Stmt) :
    execStmt (F + 1) ctx (.ifs none c body (some (.block els))) = (do
      let cv ← evalExpr F { ctx with env := { vars := [] } :: ctx.env } c
      let b ← Spec.liftM (isFalsy cv)
      if (!b) = true then do
        let fl ← execBlock F { ctx with env := { vars := [] } :: ctx.env } body 1
        pure (fl, ctx.env)
      else do
        let x ← execStmt F { env := { vars := [] } :: ctx.env, callDepth := ctx.callDepth, path := 2 :: ctx.path }
          (.block els)
        pure (x.fst, ctx.env)) := by
  rw [execStmt.eq_10]; rfl

/-! ### statements -/

section
variable (names : Nat → String) (ctab : Nat → F0.Const) (n : Nat) (cells : Nat → Nat)

/-- The interpreter computation `x` (expected to return `r`) with fuel `F` against the fragment evaluator's
results `R f` at fuels `f`: out of fuel; or `R f = done g'` for every `f ≥ F`, `x` returns `r` and the slot
cells hold `g'`; or `R f = err` for every `f ≥ F` and `x` fails with an error other than fuel exhaustion. -/
def ConvRes {α : Type} (x : EM α) (r : α) (gs : GSt) (σ : St) (F : Nat) (R : Nat → F1.Res SV) : Prop :=
  EErr x gs σ Err.fuel ∨
  (∃ g' σ', (∀ f, F ≤ f → R f = .done g') ∧ EOk x gs σ r σ' ∧ HeapOK n cells g' σ') ∨
  ((∀ f, F ≤ f → R f = .err) ∧ ∃ err, err ≠ Err.fuel ∧ EErr x gs σ err)

def StmtConv (F : Nat) (st : F1.Stm) : Prop :=
  ∀ (ctx : Ctx) (gs : GSt) (σ : St) (g : Nat → SV) (k : Nat),
    EnvOK names n cells ctx.env → HeapOK n cells g σ → wfS n k st = true →
    ConvRes n cells (execStmt F ctx (toAstS names ctab st)) (Flow.normal, ctx.env) gs σ F
      (fun f => F1.exec vmSem (svConst ctab) f (.inl st) g)

def StmtsConv (F : Nat) (ss : F1.Stms) : Prop :=
  ∀ (ctx : Ctx) (gs : GSt) (σ : St) (g : Nat → SV) (k i : Nat),
    EnvOK names n cells ctx.env → HeapOK n cells g σ → wfSs n k ss = true →
    ConvRes n cells (execStmts F ctx (toAstSs names ctab ss) i) (Flow.normal, ctx.env) gs σ F
      (fun f => F1.exec vmSem (svConst ctab) f (.inr ss) g)

def BlockConv (F : Nat) (ss : F1.Stms) : Prop :=
  ∀ (ctx : Ctx) (gs : GSt) (σ : St) (g : Nat → SV) (k tag : Nat),
    EnvOK names n cells ctx.env → HeapOK n cells g σ → wfSs n k ss = true →
    ConvRes n cells (execBlock F ctx (toAstSs names ctab ss) tag) Flow.normal gs σ F
      (fun f => F1.exec vmSem (svConst ctab) f (.inr ss) g)

def WhileConv (F : Nat) (c : Ex) (body : F1.Stms) : Prop :=
  ∀ (ctx : Ctx) (gs : GSt) (σ : St) (g : Nat → SV) (k : Nat),
    EnvOK names n cells ctx.env → HeapOK n cells g σ → wfS n k (.whil c body) = true →
    ConvRes n cells (loopFor F ctx (some (toAstE names ctab c)) none (toAstSs names ctab body)) Flow.normal gs σ F
      (fun f => F1.exec vmSem (svConst ctab) f (.inl (.whil c body)) g)

def ForeverConv (F : Nat) (body : F1.Stms) : Prop :=
  ∀ (ctx : Ctx) (gs : GSt) (σ : St) (g : Nat → SV) (k : Nat),
    EnvOK names n cells ctx.env → HeapOK n cells g σ → wfS n k (.forever body) = true →
    ConvRes n cells (loopFor F ctx none none (toAstSs names ctab body)) Flow.normal gs σ F
      (fun f => F1.exec vmSem (svConst ctab) f (.inl (.forever body)) g)

variable {names ctab n cells}

theorem fuel_succ {F f : Nat} (h : F + 1 ≤ f) : ∃ f', f = f' + 1 ∧ F ≤ f' := ⟨f - 1, by omega, by omega⟩

theorem blockConv_zero (ss : F1.Stms) : BlockConv names ctab n cells 0 ss :=
  fun ctx gs σ g k tag he hh hw => .inl (execBlock_zero _ _ _ _ _)

theorem blockConv_of {F : Nat} {ss : F1.Stms} (h : StmtsConv names ctab n cells F ss) :
    BlockConv names ctab n cells (F + 1) ss := by
  intro ctx gs σ g k tag he hh hw
  cases ss with
  | nil =>
    simp only [toAstSs, execBlock.eq_2]
    refine .inr (.inl ⟨g, σ, fun f hf => ?_, EOk.pure _ gs σ, hh⟩)
    obtain ⟨f', rfl, _⟩ := fuel_succ hf
    simp only [F1.exec]
  | cons st ss =>
    rw [toAstSs, execBlock.eq_3 _ _ _ _ (by simp), ← toAstSs]
    rcases h { env := { vars := [] } :: ctx.env, callDepth := ctx.callDepth, path := tag :: ctx.path }
      gs σ g k 0 he.push hh hw with hf | ⟨g', σ', hR, hok, hh'⟩ | ⟨hR, err, hne, herr⟩
    · exact .inl (EErr.bind_left hf)
    · exact .inr (.inl ⟨g', σ', fun f hf => hR f (by omega), EOk.bind hok (EOk.pure _ gs σ'), hh'⟩)
    · exact .inr (.inr ⟨fun f hf => hR f (by omega), err, hne, EErr.bind_left herr⟩)

theorem stmtConv_expr (F : Nat) (e : Ex) : StmtConv names ctab n cells (F + 1) (.expr e) := by
  intro ctx gs σ g k he hh hw
  simp only [wfS] at hw
  simp only [toAstS, ex_expr]
  rcases evalTri (names := names) (ctab := ctab) (cells := cells) e F ctx gs σ g k he hh hw with hf | ⟨h1, h2⟩
  · exact .inl (EErr.bind_left hf)
  · cases hev : eval vmSem (svConst ctab) g e with
    | none =>
      obtain ⟨err, hne, herr⟩ := h2 hev
      refine .inr (.inr ⟨fun f hf => ?_, err, hne, EErr.bind_left herr⟩)
      obtain ⟨f', rfl, _⟩ := fuel_succ hf
      simp only [F1.exec, hev]
    | some v =>
      refine .inr (.inl ⟨g, σ, fun f hf => ?_, EOk.bind (h1 v hev) (EOk.pure _ gs σ), hh⟩)
      obtain ⟨f', rfl, _⟩ := fuel_succ hf
      simp only [F1.exec, hev]

theorem stmtConv_assign (F : Nat) (i : Nat) (e : Ex) : StmtConv names ctab n cells (F + 1) (.assign i e) := by
  intro ctx gs σ g k he hh hw
  simp only [wfS, Bool.and_eq_true, decide_eq_true_eq] at hw
  obtain ⟨hi, hwe⟩ := hw
  simp only [toAstS, ex_assign _ _ _ _ (isFuncLit_toAstE names ctab e)]
  rcases evalTri (names := names) (ctab := ctab) (cells := cells) e F ctx gs σ g k he hh hwe with hf | ⟨h1, h2⟩
  · exact .inl (EErr.bind_left hf)
  · cases hev : eval vmSem (svConst ctab) g e with
    | none =>
      obtain ⟨err, hne, herr⟩ := h2 hev
      refine .inr (.inr ⟨fun f hf => ?_, err, hne, EErr.bind_left herr⟩)
      obtain ⟨f', rfl, _⟩ := fuel_succ hf
      simp only [F1.exec, hev]
    | some v =>
      cases F with
      | zero => exact .inl (EErr.bind_right (h1 v hev) (EErr.bind_left (assignTo_zero _ _ _ _ _ _)))
      | succ F =>
        simp only [ex_assignTo]
        obtain ⟨σ', hw', hh'⟩ := writeVar_ok he hh hi v gs
        refine .inr (.inl ⟨upd g i v, σ', fun f hf => ?_,
          EOk.bind (h1 v hev) (EOk.bind (EOk.bind hw' (EOk.pure _ gs σ')) (EOk.pure _ gs σ')), hh'⟩)
        obtain ⟨f', rfl, _⟩ := fuel_succ hf
        simp only [F1.exec, hev]

theorem stmtConv_ifs (F : Nat) (c : Ex) (body : F1.Stms) (hb : BlockConv names ctab n cells F body) :
    StmtConv names ctab n cells (F + 1) (.ifs c body) := by
  intro ctx gs σ g k he hh hw
  simp only [wfS, Bool.and_eq_true] at hw
  obtain ⟨hwc, hwb⟩ := hw
  simp only [toAstS, ex_ifs]
  rcases evalTri (names := names) (ctab := ctab) (cells := cells) c F
    { ctx with env := { vars := [] } :: ctx.env } gs σ g k he.push hh hwc with hf | ⟨h1, h2⟩
  · exact .inl (EErr.bind_left hf)
  · cases hev : eval vmSem (svConst ctab) g c with
    | none =>
      obtain ⟨err, hne, herr⟩ := h2 hev
      refine .inr (.inr ⟨fun f hf => ?_, err, hne, EErr.bind_left herr⟩)
      obtain ⟨f', rfl, _⟩ := fuel_succ hf
      simp only [F1.exec, hev]
    | some a =>
      have hfal := EOk.lift (gs := gs) (isFalsy_sem a σ)
      cases hfa : vmSem.falsy a with
      | true =>
        rw [hfa] at hfal
        refine .inr (.inl ⟨g, σ, fun f hf => ?_, EOk.bind (h1 a hev) (EOk.bind hfal (EOk.pure _ gs σ)), hh⟩)
        obtain ⟨f', rfl, _⟩ := fuel_succ hf
        simp only [F1.exec, hev, hfa, if_true]
      | false =>
        rw [hfa] at hfal
        rcases hb { ctx with env := { vars := [] } :: ctx.env } gs σ g _ 1 he.push hh hwb with
          hf | ⟨g', σ', hR, hok, hh'⟩ | ⟨hR, err, hne, herr⟩
        · exact .inl (EErr.bind_right (h1 a hev) (EErr.bind_right hfal (EErr.bind_left hf)))
        · refine .inr (.inl ⟨g', σ', fun f hf => ?_,
            EOk.bind (h1 a hev) (EOk.bind hfal (EOk.bind hok (EOk.pure _ gs σ'))), hh'⟩)
          obtain ⟨f', rfl, hf'⟩ := fuel_succ hf
          simp only [F1.exec, hev, hfa, Bool.false_eq_true, if_false]
          exact hR f' hf'
        · refine .inr (.inr ⟨fun f hf => ?_, err, hne,
            EErr.bind_right (h1 a hev) (EErr.bind_right hfal (EErr.bind_left herr))⟩)
          obtain ⟨f', rfl, hf'⟩ := fuel_succ hf
          simp only [F1.exec, hev, hfa, Bool.false_eq_true, if_false]
          exact hR f' hf'

theorem stmtConv_ifelse_one (c : Ex) (body els : F1.Stms) :
    StmtConv names ctab n cells 1 (.ifelse c body els) := by
  intro ctx gs σ g k he hh hw
  simp only [toAstS, ex_ifelse']
  exact .inl (EErr.bind_left (evalExpr_zero _ _ _ _))

theorem stmtConv_ifelse (F : Nat) (c : Ex) (body els : F1.Stms) (hb : BlockConv names ctab n cells (F + 1) body)
    (hel : BlockConv names ctab n cells F els) : StmtConv names ctab n cells (F + 1 + 1) (.ifelse c body els) := by
  intro ctx gs σ g k he hh hw
  simp only [wfS, Bool.and_eq_true] at hw
  obtain ⟨⟨hwc, hwb⟩, hwe⟩ := hw
  simp only [toAstS, ex_ifelse]
  rcases evalTri (names := names) (ctab := ctab) (cells := cells) c (F + 1)
    { ctx with env := { vars := [] } :: ctx.env } gs σ g k he.push hh hwc with hf | ⟨h1, h2⟩
  · exact .inl (EErr.bind_left hf)
  · cases hev : eval vmSem (svConst ctab) g c with
    | none =>
      obtain ⟨err, hne, herr⟩ := h2 hev
      refine .inr (.inr ⟨fun f hf => ?_, err, hne, EErr.bind_left herr⟩)
      obtain ⟨f', rfl, _⟩ := fuel_succ hf
      simp only [F1.exec, hev]
    | some a =>
      have hfal := EOk.lift (gs := gs) (isFalsy_sem a σ)
      cases hfa : vmSem.falsy a with
      | true =>
        rw [hfa] at hfal
        rcases hel { env := { vars := [] } :: ctx.env, callDepth := ctx.callDepth, path := 2 :: ctx.path }
          gs σ g _ 0 he.push hh hwe with hf | ⟨g', σ', hR, hok, hh'⟩ | ⟨hR, err, hne, herr⟩
        · exact .inl (EErr.bind_right (h1 a hev) (EErr.bind_right hfal (EErr.bind_left (EErr.bind_left hf))))
        · refine .inr (.inl ⟨g', σ', fun f hf => ?_, EOk.bind (h1 a hev) (EOk.bind hfal
            (EOk.bind (EOk.bind hok (EOk.pure _ gs σ')) (EOk.pure _ gs σ'))), hh'⟩)
          obtain ⟨f', rfl, hf'⟩ := fuel_succ hf
          simp only [F1.exec, hev, hfa, if_true]
          exact hR f' (by omega)
        · refine .inr (.inr ⟨fun f hf => ?_, err, hne,
            EErr.bind_right (h1 a hev) (EErr.bind_right hfal (EErr.bind_left (EErr.bind_left herr)))⟩)
          obtain ⟨f', rfl, hf'⟩ := fuel_succ hf
          simp only [F1.exec, hev, hfa, if_true]
          exact hR f' (by omega)
      | false =>
        rw [hfa] at hfal
        rcases hb { ctx with env := { vars := [] } :: ctx.env } gs σ g _ 1 he.push hh hwb with
          hf | ⟨g', σ', hR, hok, hh'⟩ | ⟨hR, err, hne, herr⟩
        · exact .inl (EErr.bind_right (h1 a hev) (EErr.bind_right hfal (EErr.bind_left hf)))
        · refine .inr (.inl ⟨g', σ', fun f hf => ?_,
            EOk.bind (h1 a hev) (EOk.bind hfal (EOk.bind hok (EOk.pure _ gs σ'))), hh'⟩)
          obtain ⟨f', rfl, hf'⟩ := fuel_succ hf
          simp only [F1.exec, hev, hfa, Bool.false_eq_true, if_false]
          exact hR f' hf'
        · refine .inr (.inr ⟨fun f hf => ?_, err, hne,
            EErr.bind_right (h1 a hev) (EErr.bind_right hfal (EErr.bind_left herr))⟩)
          obtain ⟨f', rfl, hf'⟩ := fuel_succ hf
          simp only [F1.exec, hev, hfa, Bool.false_eq_true, if_false]
          exact hR f' hf'

theorem whileConv_zero (c : Ex) (body : F1.Stms) : WhileConv names ctab n cells 0 c body :=
  fun ctx gs σ g k he hh hw => .inl (loopFor_zero _ _ _ _ _ _)

theorem foreverConv_zero (body : F1.Stms) : ForeverConv names ctab n cells 0 body :=
  fun ctx gs σ g k he hh hw => .inl (loopFor_zero _ _ _ _ _ _)

theorem whileConv_succ (F : Nat) (c : Ex) (body : F1.Stms) (hb : BlockConv names ctab n cells F body)
    (hloop : WhileConv names ctab n cells F c body) : WhileConv names ctab n cells (F + 1) c body := by
  intro ctx gs σ g k he hh hw
  have hw0 := hw
  simp only [wfS, Bool.and_eq_true] at hw
  obtain ⟨hwc, hwb⟩ := hw
  simp only [ex_loop_some]
  rcases evalTri (names := names) (ctab := ctab) (cells := cells) c F ctx gs σ g k he hh hwc with hf | ⟨h1, h2⟩
  · exact .inl (EErr.bind_left hf)
  · cases hev : eval vmSem (svConst ctab) g c with
    | none =>
      obtain ⟨err, hne, herr⟩ := h2 hev
      refine .inr (.inr ⟨fun f hf => ?_, err, hne, EErr.bind_left herr⟩)
      obtain ⟨f', rfl, _⟩ := fuel_succ hf
      simp only [F1.exec, hev]
    | some a =>
      have hfal := EOk.lift (gs := gs) (isFalsy_sem a σ)
      cases hfa : vmSem.falsy a with
      | true =>
        rw [hfa] at hfal
        refine .inr (.inl ⟨g, σ, fun f hf => ?_, EOk.bind (h1 a hev) (EOk.bind hfal ?_), hh⟩)
        · obtain ⟨f', rfl, _⟩ := fuel_succ hf
          simp only [F1.exec, hev, hfa, if_true]
        · simp only [Bool.not_true, Bool.not_false, if_true]
          exact EOk.pure _ gs σ
      | false =>
        rw [hfa] at hfal
        rcases hb ctx gs σ g _ 1 he hh hwb with hf | ⟨g1, σ1, hR1, hok1, hh1⟩ | ⟨hR1, err, hne, herr⟩
        · refine .inl (EErr.bind_right (h1 a hev) (EErr.bind_right hfal ?_))
          simp only [Bool.not_false, Bool.not_true, Bool.false_eq_true, if_false]
          exact EErr.bind_left hf
        · rcases hloop ctx gs σ1 g1 k he hh1 hw0 with hf | ⟨g', σ', hR, hok, hh'⟩ | ⟨hR, err, hne, herr⟩
          · refine .inl (EErr.bind_right (h1 a hev) (EErr.bind_right hfal ?_))
            simp only [Bool.not_false, Bool.not_true, Bool.false_eq_true, if_false]
            exact EErr.bind_right hok1 hf
          · refine .inr (.inl ⟨g', σ', fun f hf => ?_, EOk.bind (h1 a hev) (EOk.bind hfal ?_), hh'⟩)
            · obtain ⟨f', rfl, hf'⟩ := fuel_succ hf
              simp only [F1.exec, hev, hfa, Bool.false_eq_true, if_false, hR1 f' hf']
              exact hR f' hf'
            · simp only [Bool.not_false, Bool.not_true, Bool.false_eq_true, if_false]
              exact EOk.bind hok1 hok
          · refine .inr (.inr ⟨fun f hf => ?_, err, hne, EErr.bind_right (h1 a hev) (EErr.bind_right hfal ?_)⟩)
            · obtain ⟨f', rfl, hf'⟩ := fuel_succ hf
              simp only [F1.exec, hev, hfa, Bool.false_eq_true, if_false, hR1 f' hf']
              exact hR f' hf'
            · simp only [Bool.not_false, Bool.not_true, Bool.false_eq_true, if_false]
              exact EErr.bind_right hok1 herr
        · refine .inr (.inr ⟨fun f hf => ?_, err, hne, EErr.bind_right (h1 a hev) (EErr.bind_right hfal ?_)⟩)
          · obtain ⟨f', rfl, hf'⟩ := fuel_succ hf
            simp only [F1.exec, hev, hfa, Bool.false_eq_true, if_false, hR1 f' hf']
          · simp only [Bool.not_false, Bool.not_true, Bool.false_eq_true, if_false]
            exact EErr.bind_left herr

theorem foreverConv_succ (F : Nat) (body : F1.Stms) (hb : BlockConv names ctab n cells F body)
    (hloop : ForeverConv names ctab n cells F body) : ForeverConv names ctab n cells (F + 1) body := by
  intro ctx gs σ g k he hh hw
  have hw0 := hw
  simp only [wfS] at hw
  simp only [ex_loop_none]
  rcases hb ctx gs σ g _ 1 he hh hw with hf | ⟨g1, σ1, hR1, hok1, hh1⟩ | ⟨hR1, err, hne, herr⟩
  · exact .inl (EErr.bind_left hf)
  · rcases hloop ctx gs σ1 g1 k he hh1 hw0 with hf | ⟨g', σ', hR, hok, hh'⟩ | ⟨hR, err, hne, herr⟩
    · exact .inl (EErr.bind_right hok1 hf)
    · refine .inr (.inl ⟨g', σ', fun f hf => ?_, EOk.bind hok1 hok, hh'⟩)
      obtain ⟨f', rfl, hf'⟩ := fuel_succ hf
      simp only [F1.exec, hR1 f' hf']
      exact hR f' hf'
    · refine .inr (.inr ⟨fun f hf => ?_, err, hne, EErr.bind_right hok1 herr⟩)
      obtain ⟨f', rfl, hf'⟩ := fuel_succ hf
      simp only [F1.exec, hR1 f' hf']
      exact hR f' hf'
  · refine .inr (.inr ⟨fun f hf => ?_, err, hne, EErr.bind_left herr⟩)
    obtain ⟨f', rfl, hf'⟩ := fuel_succ hf
    simp only [F1.exec, hR1 f' hf']

theorem stmtConv_whil (F : Nat) (c : Ex) (body : F1.Stms) (hloop : WhileConv names ctab n cells F c body) :
    StmtConv names ctab n cells (F + 1) (.whil c body) := by
  intro ctx gs σ g k he hh hw
  simp only [toAstS, ex_while]
  rcases hloop { ctx with env := { vars := [] } :: ctx.env } gs σ g k he.push hh hw with
    hf | ⟨g', σ', hR, hok, hh'⟩ | ⟨hR, err, hne, herr⟩
  · exact .inl (EErr.bind_left hf)
  · exact .inr (.inl ⟨g', σ', fun f hf => hR f (by omega), EOk.bind hok (EOk.pure _ gs σ'), hh'⟩)
  · exact .inr (.inr ⟨fun f hf => hR f (by omega), err, hne, EErr.bind_left herr⟩)

theorem stmtConv_forever (F : Nat) (body : F1.Stms) (hloop : ForeverConv names ctab n cells F body) :
    StmtConv names ctab n cells (F + 1) (.forever body) := by
  intro ctx gs σ g k he hh hw
  simp only [toAstS, ex_forever]
  rcases hloop { ctx with env := { vars := [] } :: ctx.env } gs σ g k he.push hh hw with
    hf | ⟨g', σ', hR, hok, hh'⟩ | ⟨hR, err, hne, herr⟩
  · exact .inl (EErr.bind_left hf)
  · exact .inr (.inl ⟨g', σ', fun f hf => hR f (by omega), EOk.bind hok (EOk.pure _ gs σ'), hh'⟩)
  · exact .inr (.inr ⟨fun f hf => hR f (by omega), err, hne, EErr.bind_left herr⟩)

theorem stmtsConv_nil (F : Nat) : StmtsConv names ctab n cells (F + 1) .nil := by
  intro ctx gs σ g k i he hh hw
  simp only [toAstSs, execStmts.eq_2]
  refine .inr (.inl ⟨g, σ, fun f hf => ?_, EOk.pure _ gs σ, hh⟩)
  obtain ⟨f', rfl, _⟩ := fuel_succ hf
  simp only [F1.exec]

theorem stmtsConv_cons (F : Nat) (st : F1.Stm) (ss : F1.Stms) (h1 : StmtConv names ctab n cells F st)
    (h2 : StmtsConv names ctab n cells F ss) : StmtsConv names ctab n cells (F + 1) (.cons st ss) := by
  intro ctx gs σ g k i he hh hw
  simp only [wfSs, Bool.and_eq_true] at hw
  obtain ⟨hw1, hw2⟩ := hw
  simp only [toAstSs, execStmts.eq_3]
  rcases h1 { env := ctx.env, callDepth := ctx.callDepth, path := i :: ctx.path } gs σ g k he hh hw1 with
    hf | ⟨g1, σ1, hR1, hok1, hh1⟩ | ⟨hR1, err, hne, herr⟩
  · exact .inl (EErr.bind_left hf)
  · rcases h2 { env := ctx.env, callDepth := ctx.callDepth, path := ctx.path } gs σ1 g1 _ (i + 1) he hh1 hw2 with
      hf | ⟨g', σ', hR, hok, hh'⟩ | ⟨hR, err, hne, herr⟩
    · exact .inl (EErr.bind_right hok1 hf)
    · refine .inr (.inl ⟨g', σ', fun f hf => ?_, EOk.bind hok1 hok, hh'⟩)
      obtain ⟨f', rfl, hf'⟩ := fuel_succ hf
      simp only [F1.exec, hR1 f' hf']
      exact hR f' hf'
    · refine .inr (.inr ⟨fun f hf => ?_, err, hne, EErr.bind_right hok1 herr⟩)
      obtain ⟨f', rfl, hf'⟩ := fuel_succ hf
      simp only [F1.exec, hR1 f' hf']
      exact hR f' hf'
  · refine .inr (.inr ⟨fun f hf => ?_, err, hne, EErr.bind_left herr⟩)
    obtain ⟨f', rfl, hf'⟩ := fuel_succ hf
    simp only [F1.exec, hR1 f' hf']

/-- Everything at one interpreter fuel. -/
structure AllConv (names : Nat → String) (ctab : Nat → F0.Const) (n : Nat) (cells : Nat → Nat) (F : Nat) : Prop where
  stmt : ∀ st, StmtConv names ctab n cells F st
  stmts : ∀ ss, StmtsConv names ctab n cells F ss
  block : ∀ ss, BlockConv names ctab n cells F ss
  whil : ∀ c body, WhileConv names ctab n cells F c body
  forever : ∀ body, ForeverConv names ctab n cells F body

/-- All statement forms, all loops, at every fuel of the interpreter. -/
theorem all_conv (F : Nat) : AllConv names ctab n cells F := by
  induction F using Nat.strongRecOn with
  | ind F ih =>
    cases F with
    | zero =>
      exact ⟨fun st ctx gs σ g k he hh hw => .inl (execStmt_zero _ _ _ _),
        fun ss ctx gs σ g k i he hh hw => .inl (execStmts_zero _ _ _ _ _),
        blockConv_zero, whileConv_zero, foreverConv_zero⟩
    | succ F =>
      have A := ih F (by omega)
      have hB : ∀ ss, BlockConv names ctab n cells (F + 1) ss := fun ss => blockConv_of (A.stmts ss)
      refine ⟨fun st => ?_, fun ss => ?_, hB,
        fun c body => whileConv_succ F c body (A.block body) (A.whil c body),
        fun body => foreverConv_succ F body (A.block body) (A.forever body)⟩
      · cases st with
        | expr e => exact stmtConv_expr F e
        | assign i e => exact stmtConv_assign F i e
        | ifs c body => exact stmtConv_ifs F c body (A.block body)
        | ifelse c body els =>
          cases F with
          | zero => exact stmtConv_ifelse_one c body els
          | succ F' => exact stmtConv_ifelse F' c body els (A.block body) ((ih F' (by omega)).block els)
        | whil c body => exact stmtConv_whil F c body (A.whil c body)
        | forever body => exact stmtConv_forever F body (A.forever body)
      · cases ss with
        | nil => exact stmtsConv_nil F
        | cons st ss => exact stmtsConv_cons F st ss (A.stmt st) (A.stmts ss)

end

end Tengo.Proofs.C01Bridge

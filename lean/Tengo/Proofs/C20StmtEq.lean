import Tengo.Proofs.C20Bytes2Parse
/-!
C20 — statements, token level: equations of the statement part of the parser model (`parseExprList`,
`parseSimpleStmt`, `parseStmt`, `parseIfRest`, `parseIfTail`, `parseForRest`, `parseBlock`, `parseStmtList`,
`expectSemi`) in the `run` form (results without the length witness), one lemma per path that the printed form of a
statement of the fragment takes.
-/
namespace Tengo.Proofs.C20StmtEq
open Tengo.Model.Token Tengo.Model.Scanner Tengo.Model.Ast Tengo.Model.Parser Tengo.Model.Literal
open Tengo.Proofs.C20Parser Tengo.Proofs.C20BytesParse

variable (fo : Bs → Option Nat)

/-- What `expectSemi` leaves: a `;` is consumed, a `}` stays. -/
def dropSemi : Toks → Toks
  | [] => []
  | t :: r => if t.tok == .Semicolon then r else t :: r

/-- The current token ends a statement: `;` or `}`. -/
def SemiNext (ts : Toks) : Prop := tk ts = .Semicolon ∨ tk ts = .RBrace

theorem semiNext_cons (t : Token) (r : Toks) (h : t.tok = .Semicolon ∨ t.tok = .RBrace) : SemiNext (t :: r) := h

theorem run_expectSemi (ts : Toks) (h : SemiNext ts) : run (expectSemi ts) = some ((), dropSemi ts) := by
  cases ts with
  | nil => rcases h with h | h <;> simp [tk] at h
  | cons x rest =>
    rcases h with h | h <;> simp only [tk] at h <;> simp [expectSemi, dropSemi, h]

theorem expectSemi_eq (ts : Toks) (h : SemiNext ts) : ∃ hl, expectSemi ts = some ⟨(), dropSemi ts, hl⟩ :=
  run_eq (run_expectSemi ts h)

/-! ### parseExprList -/

theorem run_parseExprList (ts : Toks) : run (parseExprList fo ts) =
    match run (parseExpr fo ts) with
    | none => none
    | some (e, r) =>
      match r with
      | [] => some (.cons e .nil, [])
      | c :: r1 =>
        if c.tok = .Comma then
          match run (parseExprList fo r1) with
          | none => none
          | some (es, r2) => some (.cons e es, r2)
        else some (.cons e .nil, c :: r1) := by
  rw [parseExprList]
  cases h : parseExpr fo ts with
  | none => simp
  | some o =>
    obtain ⟨x, r, hr⟩ := o
    simp only [run_some]
    cases r with
    | nil => simp
    | cons c r1 =>
      simp only
      by_cases hc : c.tok = .Comma
      · simp only [hc, beq_self_eq_true, if_true]
        cases h2 : parseExprList fo r1 with
        | none => simp
        | some o2 => obtain ⟨y, r', hr'⟩ := o2; simp
      · simp [hc]

/-! ### parseSimpleStmt -/

/-- Tokens behind a simple statement that is an expression. -/
def simpleEnd (t : Tok) : Bool := t == .Semicolon || t == .RBrace || t == .LBrace

theorem simple_expr (b : Bool) (ts : Toks) (x : Expr) (t : Token) (r1 : Toks)
    (hp : run (parseExprList fo ts) = some (.cons x .nil, t :: r1)) (ht : simpleEnd t.tok = true) :
    run (parseSimpleStmt fo b ts) = some (.expr x, t :: r1) := by
  obtain ⟨h1, he⟩ := run_eq hp
  have : ∀ k : Tok, simpleEnd k = true →
      (k == .Assign || k == .Define) = false ∧ (k == .In) = false ∧ isOpAssign k = false ∧
      (k == .Inc || k == .Dec) = false := by
    intro k; cases k <;> simp [simpleEnd, isOpAssign]
  obtain ⟨a1, a2, a3, a4⟩ := this t.tok ht
  rw [parseSimpleStmt, he]
  simp [a1, a2, a3, a4]

theorem simple_assign (b : Bool) (ts : Toks) (x y : Exprs) (t : Token) (r1 r2 : Toks)
    (hp : run (parseExprList fo ts) = some (x, t :: r1)) (ht : t.tok = .Assign ∨ t.tok = .Define)
    (hq : run (parseExprList fo r1) = some (y, r2)) :
    run (parseSimpleStmt fo b ts) = some (.assign t.tok x y, r2) := by
  obtain ⟨h1, he⟩ := run_eq hp
  obtain ⟨h2, he2⟩ := run_eq hq
  have a1 : (t.tok == .Assign || t.tok == .Define) = true := by rcases ht with h | h <;> simp [h]
  rw [parseSimpleStmt, he]
  simp [a1, he2]

theorem simple_opassign (b : Bool) (ts : Toks) (x y : Expr) (t : Token) (r1 r2 : Toks)
    (hp : run (parseExprList fo ts) = some (.cons x .nil, t :: r1)) (ht : isOpAssign t.tok = true)
    (hd : t.tok ≠ .Define) (hq : run (parseExpr fo r1) = some (y, r2)) :
    run (parseSimpleStmt fo b ts) = some (.assign t.tok (.cons x .nil) (.cons y .nil), r2) := by
  obtain ⟨h1, he⟩ := run_eq hp
  obtain ⟨h2, he2⟩ := run_eq hq
  have : ∀ k : Tok, isOpAssign k = true → k ≠ .Define →
      (k == .Assign || k == .Define) = false ∧ (k == .In) = false := by
    intro k; cases k <;> simp [isOpAssign]
  obtain ⟨a1, a2⟩ := this t.tok ht hd
  rw [parseSimpleStmt, he]
  simp [a1, a2, ht, he2]

theorem simple_incdec (b : Bool) (ts : Toks) (x : Expr) (t : Token) (r1 : Toks)
    (hp : run (parseExprList fo ts) = some (.cons x .nil, t :: r1)) (ht : t.tok = .Inc ∨ t.tok = .Dec) :
    run (parseSimpleStmt fo b ts) = some (.incdec t.tok x, r1) := by
  obtain ⟨h1, he⟩ := run_eq hp
  have : ∀ k : Tok, (k = .Inc ∨ k = .Dec) →
      (k == .Assign || k == .Define) = false ∧ (k == .In) = false ∧ isOpAssign k = false ∧
      (k == .Inc || k == .Dec) = true := by
    intro k hk; rcases hk with h | h <;> subst h <;> decide
  obtain ⟨a1, a2, a3, a4⟩ := this t.tok ht
  rw [parseSimpleStmt, he]
  simp [a1, a2, a3, a4]

/-! ### parseStmt -/

theorem stmt_simple (t : Token) (r r' : Toks) (s : Stmt) (hs : isSimpleStart t.tok = true)
    (hp : run (parseSimpleStmt fo false (t :: r)) = some (s, r')) (hn : SemiNext r') :
    run (parseStmt fo (t :: r)) = some (s, dropSemi r') := by
  obtain ⟨h1, he⟩ := run_eq hp
  obtain ⟨h2, he2⟩ := expectSemi_eq r' hn
  rw [parseStmt]
  simp [hs, he, he2]

theorem stmt_ret_none (t : Token) (rest : Toks) (ht : t.tok = .Return) (hn : SemiNext rest) :
    run (parseStmt fo (t :: rest)) = some (.ret .none, dropSemi rest) := by
  obtain ⟨h2, he2⟩ := expectSemi_eq rest hn
  have a : (tk rest == .Semicolon || tk rest == .RBrace) = true := by
    rcases hn with h | h <;> simp [h]
  rw [parseStmt]
  simp [ht, isSimpleStart, a, he2]

theorem stmt_ret_some (t : Token) (rest r : Toks) (e : Expr) (ht : t.tok = .Return)
    (h1 : tk rest ≠ .Semicolon) (h2 : tk rest ≠ .RBrace)
    (hp : run (parseExpr fo rest) = some (e, r)) (hn : SemiNext r) :
    run (parseStmt fo (t :: rest)) = some (.ret (.some e), dropSemi r) := by
  obtain ⟨h3, he⟩ := run_eq hp
  obtain ⟨h4, he2⟩ := expectSemi_eq r hn
  rw [parseStmt]
  simp [ht, isSimpleStart, h1, h2, he, he2]

theorem stmt_branch_plain (t : Token) (rest : Toks) (ht : t.tok = .Break ∨ t.tok = .Continue) (hn : SemiNext rest) :
    run (parseStmt fo (t :: rest)) = some (.branch t.tok none, dropSemi rest) := by
  obtain ⟨h2, he2⟩ := expectSemi_eq rest hn
  have hl : optLabel rest = ⟨none, rest, by simp⟩ := by
    cases rest with
    | nil => rfl
    | cons l r1 =>
      have : l.tok ≠ .Ident := by
        rcases hn with h | h <;> simp only [tk] at h <;> rw [h] <;> decide
      simp [optLabel, this]
  have a : isSimpleStart t.tok = false ∧ t.tok ≠ .Return ∧ t.tok ≠ .Export ∧ t.tok ≠ .If ∧ t.tok ≠ .For ∧
      (t.tok == .Break || t.tok == .Continue) = true := by
    rcases ht with h | h <;> rw [h] <;> decide
  obtain ⟨a1, a2, a3, a4, a5, a6⟩ := a
  rw [parseStmt]
  simp only [a1, a2, a3, a4, a5, a6, Bool.false_eq_true, if_false, if_true, beq_iff_eq]
  rw [hl]
  simp [he2]

theorem stmt_branch_label (t l : Token) (r1 : Toks) (ht : t.tok = .Break ∨ t.tok = .Continue)
    (hl : l.tok = .Ident) (hn : SemiNext r1) :
    run (parseStmt fo (t :: l :: r1)) = some (.branch t.tok (some l.lit), dropSemi r1) := by
  obtain ⟨h2, he2⟩ := expectSemi_eq r1 hn
  have hl : optLabel (l :: r1) = ⟨some l.lit, r1, by simp only [List.length_cons]; omega⟩ := by
    simp [optLabel, hl]
  have a : isSimpleStart t.tok = false ∧ t.tok ≠ .Return ∧ t.tok ≠ .Export ∧ t.tok ≠ .If ∧ t.tok ≠ .For ∧
      (t.tok == .Break || t.tok == .Continue) = true := by
    rcases ht with h | h <;> rw [h] <;> decide
  obtain ⟨a1, a2, a3, a4, a5, a6⟩ := a
  rw [parseStmt]
  simp only [a1, a2, a3, a4, a5, a6, Bool.false_eq_true, if_false, if_true, beq_iff_eq]
  rw [hl]
  simp [he2]

theorem stmt_if (t : Token) (rest : Toks) (ht : t.tok = .If) :
    run (parseStmt fo (t :: rest)) = run (parseIfRest fo rest) := by
  rw [parseStmt]
  simp only [ht]
  cases h : parseIfRest fo rest with
  | none => simp [isSimpleStart]
  | some o => obtain ⟨s, r, hr⟩ := o; simp [isSimpleStart]

theorem stmt_for (t : Token) (rest : Toks) (ht : t.tok = .For) :
    run (parseStmt fo (t :: rest)) = run (parseForRest fo rest) := by
  rw [parseStmt]
  simp only [ht]
  cases h : parseForRest fo rest with
  | none => simp [isSimpleStart]
  | some o => obtain ⟨s, r, hr⟩ := o; simp [isSimpleStart]

/-! ### Blocks and statement lists -/

theorem list_stop (t : Token) (rest : Toks) (ht : t.tok = .RBrace ∨ t.tok = .EOF) :
    run (parseStmtList fo (t :: rest)) = some (.nil, t :: rest) := by
  have a : (t.tok == .RBrace || t.tok == .EOF) = true := by rcases ht with h | h <;> simp [h]
  rw [parseStmtList]
  simp [a]

theorem list_cons (t : Token) (rest r : Toks) (s : Stmt) (h1 : t.tok ≠ .RBrace) (h2 : t.tok ≠ .EOF)
    (hp : run (parseStmt fo (t :: rest)) = some (s, r)) :
    run (parseStmtList fo (t :: rest)) =
      match run (parseStmtList fo r) with
      | none => none
      | some (ss, r') => some (.cons s ss, r') := by
  obtain ⟨h3, he⟩ := run_eq hp
  have a : (t.tok == .RBrace || t.tok == .EOF) = false := by simp [h1, h2]
  rw [parseStmtList]
  simp only [a, Bool.false_eq_true, if_false, he]
  cases h : parseStmtList fo r with
  | none => simp
  | some o => obtain ⟨ss, r', hr'⟩ := o; simp

theorem block_eq (lb rb : Token) (r r2 : Toks) (ss : Stmts) (hl : lb.tok = .LBrace)
    (hp : run (parseStmtList fo r) = some (ss, rb :: r2)) (hr : rb.tok = .RBrace) :
    run (parseBlock fo (lb :: r)) = some (ss, r2) := by
  obtain ⟨h3, he⟩ := run_eq hp
  rw [parseBlock]
  simp [expectTok, hl, he, hr]

/-! ### if -/

theorem ifrest_plain (ts r : Toks) (c : Expr) (h1 : tk ts ≠ .LBrace) (h2 : tk ts ≠ .Semicolon)
    (hp : run (parseSimpleStmt fo false ts) = some (.expr c, r)) (hb : tk r = .LBrace) :
    run (parseIfRest fo ts) = run (parseIfTail fo .none c r) := by
  obtain ⟨h3, he⟩ := run_eq hp
  have a : (tk ts == .LBrace || tk ts == .Semicolon) = false := by simp [h1, h2]
  rw [parseIfRest]
  simp only [a, Bool.false_eq_true, if_false, he, hb, beq_self_eq_true, if_true, makeExpr]
  cases h : parseIfTail fo .none c r with
  | none => simp
  | some o => obtain ⟨s, r', hr'⟩ := o; simp

theorem iftail_noelse (init : OptStmt) (c : Expr) (ts r : Toks) (body : Stmts)
    (hp : run (parseBlock fo ts) = some (body, r)) (hn : SemiNext r) :
    run (parseIfTail fo init c ts) = some (.ifS init c body .none, dropSemi r) := by
  obtain ⟨h3, he⟩ := run_eq hp
  obtain ⟨h4, he2⟩ := expectSemi_eq r hn
  cases r with
  | nil => rcases hn with h | h <;> simp [tk] at h
  | cons e r1 =>
    have : e.tok ≠ .Else := by
      rcases hn with h | h <;> simp only [tk] at h <;> rw [h] <;> decide
    rw [parseIfTail, he]
    simp [this, he2]

theorem iftail_elseif (init : OptStmt) (c : Expr) (ts r2 : Toks) (e x : Token) (body : Stmts)
    (hp : run (parseBlock fo ts) = some (body, e :: x :: r2)) (he' : e.tok = .Else) (hx : x.tok = .If) :
    run (parseIfTail fo init c ts) =
      match run (parseIfRest fo r2) with
      | none => none
      | some (s, r') => some (.ifS init c body (.some s), r') := by
  obtain ⟨h3, he⟩ := run_eq hp
  rw [parseIfTail, he]
  simp only [he', hx, beq_self_eq_true, if_true]
  cases h : parseIfRest fo r2 with
  | none => simp
  | some o => obtain ⟨s, r', hr'⟩ := o; simp

theorem iftail_elseblock (init : OptStmt) (c : Expr) (ts r2 r3 : Toks) (e x : Token) (body eb : Stmts)
    (hp : run (parseBlock fo ts) = some (body, e :: x :: r2)) (he' : e.tok = .Else) (hx : x.tok = .LBrace)
    (hq : run (parseBlock fo (x :: r2)) = some (eb, r3)) (hn : SemiNext r3) :
    run (parseIfTail fo init c ts) = some (.ifS init c body (.some (.block eb)), dropSemi r3) := by
  obtain ⟨h3, he⟩ := run_eq hp
  obtain ⟨h5, he3⟩ := run_eq hq
  obtain ⟨h4, he2⟩ := expectSemi_eq r3 hn
  rw [parseIfTail, he]
  simp [he', hx, he3, he2]

/-! ### for -/

theorem for_bare (ts r : Toks) (body : Stmts) (hb : tk ts = .LBrace)
    (hp : run (parseBlock fo ts) = some (body, r)) (hn : SemiNext r) :
    run (parseForRest fo ts) = some (.forS .none .none .none body, dropSemi r) := by
  obtain ⟨h3, he⟩ := run_eq hp
  obtain ⟨h4, he2⟩ := expectSemi_eq r hn
  rw [parseForRest]
  simp [hb, he, he2]

theorem for_cond (ts r1 r5 : Toks) (sc : Token) (c : Expr) (body : Stmts)
    (h1 : tk ts ≠ .LBrace) (h2 : tk ts ≠ .Semicolon)
    (hp : run (parseSimpleStmt fo true ts) = some (.expr c, sc :: r1)) (hsc : sc.tok = .LBrace)
    (hq : run (parseBlock fo (sc :: r1)) = some (body, r5)) (hn : SemiNext r5) :
    run (parseForRest fo ts) = some (.forS .none (.some c) .none body, dropSemi r5) := by
  obtain ⟨h3, he⟩ := run_eq hp
  obtain ⟨h5, he3⟩ := run_eq hq
  obtain ⟨h4, he2⟩ := expectSemi_eq r5 hn
  have hos : optSimple fo (tk ts == .Semicolon) true ts =
      some ⟨.some (.expr c), sc :: r1, Nat.lt_succ_of_lt h3⟩ := by
    rw [optSimple]
    simp [h2, he]
  rw [parseForRest]
  simp only [h1, beq_iff_eq, Bool.false_eq_true, if_false, hos]
  simp [hsc, he3, he2, makeExpr]

/-! ### for-in -/

theorem simple_forin (ts : Toks) (x : Exprs) (y : Expr) (t : Token) (r1 r2 : Toks) (k v : Option Bs)
    (hp : run (parseExprList fo ts) = some (x, t :: r1)) (ht : t.tok = .In)
    (hq : run (parseExpr fo r1) = some (y, r2)) (hn : forInNames x = some (k, v)) :
    run (parseSimpleStmt fo true ts) = some (.forIn k v y .nil, r2) := by
  obtain ⟨h1, he⟩ := run_eq hp
  obtain ⟨h2, he2⟩ := run_eq hq
  rw [parseSimpleStmt, he]
  simp [ht, he2, hn]

theorem for_in (ts r r1 : Toks) (k v : Option Bs) (it : Expr) (b0 body : Stmts)
    (h1 : tk ts ≠ .LBrace) (h2 : tk ts ≠ .Semicolon)
    (hp : run (parseSimpleStmt fo true ts) = some (.forIn k v it b0, r))
    (hq : run (parseBlock fo r) = some (body, r1)) (hn : SemiNext r1) :
    run (parseForRest fo ts) = some (.forIn k v it body, dropSemi r1) := by
  obtain ⟨h3, he⟩ := run_eq hp
  obtain ⟨h5, he3⟩ := run_eq hq
  obtain ⟨h4, he2⟩ := expectSemi_eq r1 hn
  have hos : optSimple fo (tk ts == .Semicolon) true ts =
      some ⟨.some (.forIn k v it b0), r, Nat.lt_succ_of_lt h3⟩ := by
    rw [optSimple]
    simp [h2, he]
  rw [parseForRest]
  simp only [h1, beq_iff_eq, Bool.false_eq_true, if_false, hos]
  simp [he3, he2]

/-! ### `if init; c` and the three-clause `for` -/

theorem ifrest_init (ts r1 r2 : Toks) (sc : Token) (s1 : Stmt) (c : Expr) (h1 : tk ts ≠ .LBrace)
    (h2 : tk ts ≠ .Semicolon) (hp : run (parseSimpleStmt fo false ts) = some (s1, sc :: r1))
    (hsc : sc.tok = .Semicolon) (hq : run (parseSimpleStmt fo false r1) = some (.expr c, r2)) :
    run (parseIfRest fo ts) = run (parseIfTail fo (.some s1) c r2) := by
  obtain ⟨h3, he⟩ := run_eq hp
  obtain ⟨h4, he2⟩ := run_eq hq
  have a : (tk ts == .LBrace || tk ts == .Semicolon) = false := by simp [h1, h2]
  have b : (tk (sc :: r1) == .LBrace) = false := by simp [tk, hsc]
  rw [parseIfRest]
  simp only [a, Bool.false_eq_true, if_false, he, b, hsc, beq_self_eq_true, if_true]
  cases h : parseIfTail fo (.some s1) c r2 with
  | none => simp [he2, makeExpr, h]
  | some o => obtain ⟨s, r', hr'⟩ := o; simp [he2, makeExpr, h]

theorem run_optSimple_skip (b : Bool) (ts : Toks) : run (optSimple fo true b ts) = some (.none, ts) := by
  rw [optSimple]; simp

theorem run_optSimple_go (b : Bool) (ts r : Toks) (s : Stmt)
    (hp : run (parseSimpleStmt fo b ts) = some (s, r)) : run (optSimple fo false b ts) = some (.some s, r) := by
  obtain ⟨h3, he⟩ := run_eq hp
  rw [optSimple]; simp [he]

def isForIn : Stmt → Bool
  | .forIn _ _ _ _ => true
  | _ => false

def notForIn : OptStmt → Bool
  | .none => true
  | .some s => !isForIn s

/-- Condition of a three-clause `for` as `parseForStmt` converts it. -/
def condOf : OptStmt → Option OptExpr
  | .none => some .none
  | .some (.expr c) => some (.some c)
  | _ => none

theorem for_three (ts r1 r2 r3 r4 r5 : Toks) (sc : Token) (init cnd post : OptStmt) (ce : OptExpr) (body : Stmts)
    (h1 : tk ts ≠ .LBrace)
    (hi : run (optSimple fo (tk ts == .Semicolon) true ts) = some (init, sc :: r1)) (hnf : notForIn init = true)
    (hsc : sc.tok = .Semicolon)
    (hc : run (optSimple fo (tk r1 == .Semicolon) false r1) = some (cnd, r2))
    (hs2 : run (expectTok .Semicolon r2) = some ((), r3))
    (hp : run (optSimple fo (tk r3 == .LBrace) false r3) = some (post, r4))
    (hb : run (parseBlock fo r4) = some (body, r5)) (hn : SemiNext r5) (hce : condOf cnd = some ce) :
    run (parseForRest fo ts) = some (.forS init ce post body, dropSemi r5) := by
  have hcc : (cnd = .none ∧ ce = .none) ∨ (∃ c, cnd = .some (.expr c) ∧ ce = .some c) := by
    cases cnd with
    | none => left; simp [condOf] at hce; exact ⟨rfl, hce.symm⟩
    | some s =>
      cases s <;> first
        | (right; simp only [condOf, Option.some.injEq] at hce; exact ⟨_, rfl, hce.symm⟩)
        | (simp [condOf] at hce)
  obtain ⟨g6, e6⟩ := expectSemi_eq r5 hn
  rcases hcc with ⟨rfl, rfl⟩ | ⟨c, rfl, rfl⟩
  · obtain ⟨g1, e1⟩ := run_eq hi
    obtain ⟨g2, e2⟩ := run_eq hc
    obtain ⟨g3, e3⟩ := run_eq hs2
    obtain ⟨g4, e4⟩ := run_eq hp
    obtain ⟨g5, e5⟩ := run_eq hb
    rw [parseForRest]
    simp only [h1, beq_iff_eq, Bool.false_eq_true, if_false, e1]
    cases init with
    | none => simp [hsc, e2, e3, e4, e5, e6]
    | some s =>
      cases s <;> first
        | (simp [hsc, e2, e3, e4, e5, e6]; done)
        | (simp [notForIn, isForIn] at hnf)
  · obtain ⟨g1, e1⟩ := run_eq hi
    obtain ⟨g2, e2⟩ := run_eq hc
    obtain ⟨g3, e3⟩ := run_eq hs2
    obtain ⟨g4, e4⟩ := run_eq hp
    obtain ⟨g5, e5⟩ := run_eq hb
    rw [parseForRest]
    simp only [h1, beq_iff_eq, Bool.false_eq_true, if_false, e1]
    cases init with
    | none => simp [hsc, e2, e3, e4, e5, e6, makeExpr]
    | some s =>
      cases s <;> first
        | (simp [hsc, e2, e3, e4, e5, e6, makeExpr]; done)
        | (simp [notForIn, isForIn] at hnf)

end Tengo.Proofs.C20StmtEq
